#!/usr/bin/env python
"""Source-to-Lean translator for the computational kernels of pyasn1 (DESIGN §13.8).

    gen/py2lean.py            regenerates lean/Asn1/GenKernels.lean from $VERIF_REPO (default /repo)

For every kernel listed in gen/kernels.json the function's *source* (ast of the file in the working
tree, not a hand copy) is translated into a Lean definition in the `Except Py.PyErr` monad over the
run-time library lean/Asn1/PyLite.lean.  Supported subset: int / tuple-of-int / bool expressions,
assignment, augmented assignment, tuple unpacking of a parameter, if/elif/else, while, for over a
tuple, return, raise, try/except IndexError, `x.bit_length()`, `x.to_bytes(n, 'big', signed=s)`,
len(), max(), module-level integer constants (read from the live module), `self.<flag>` (becomes a
parameter).  Anything else raises Unsupported: the kernel is then emitted as `unsupported` and the
obligations about it fail to build, which the checks report as a proof obligation that no longer
holds (followed by the failing-input search), never silently.

The translation is structural and name-preserving; while-loops become fuel-recursive auxiliary
definitions `<kernel>_loop<k>` (fuel expression given per loop in kernels.json; the theorems in
lean/Proofs/Kernels.lean prove that the fuel is never exhausted), for-loops become recursion over
the tuple.
"""
import ast
import hashlib
import importlib
import json
import os
import sys

VERIF = os.path.dirname(os.path.dirname(os.path.abspath(__file__)))
REPO = os.environ.get('VERIF_REPO', '/repo')
OUT = os.path.join(VERIF, 'lean', 'Asn1', 'GenKernels.lean')
SPEC = os.path.join(VERIF, 'gen', 'kernels.json')


class Unsupported(Exception):
    pass


def octet_helpers(modname):
    """which of the names null / int2oct / oct2int / ints2octs / octs2ints of the module mean what the translation
    assumes (octet strings are translated as tuples of ints); checked on the live module, not assumed"""
    mod = importlib.import_module(modname)
    ok = set()
    try:
        if getattr(mod, 'null', None) == b'':
            ok.add('null')
        f = getattr(mod, 'int2oct', None)
        if f is not None and all(f(x) == bytes((x,)) for x in (0, 1, 127, 128, 200, 255)):
            ok.add('int2oct')
        f = getattr(mod, 'oct2int', None)
        if f is not None and all(f(x) == x for x in (0, 1, 127, 128, 255)):
            ok.add('oct2int')
        f = getattr(mod, 'str2octs', None)
        if f is not None and f('\x00') == b'\x00' and f('a\xff') == b'a\xff':
            ok.add('str2octs')
        f = getattr(mod, 'ints2octs', None)
        if f is not None and f((1, 2, 255)) == bytes((1, 2, 255)) and f(()) == b'':
            ok.add('ints2octs')
    except Exception:  # noqa
        pass
    return ok


LEAN_TY = {'int': 'Int', 'bool': 'Bool', 'tup': 'Py.Tup', 'tups': 'List Py.Tup', 'fun:tup->tup': '(Py.Tup → Py.M Py.Tup)', 'unit': 'Unit', 'fun:int->unit': '(Int → Py.M Unit)',
           'pairs': 'List (Py.Tup × Py.Tup)', 'pair': '(Py.Tup × Py.Tup)', 'bio': 'Py.BytesIO', 'otup': 'Option Py.Tup', 'obool': 'Option Bool', 'rs': 'Int',
           'fun:int,int->otup': '(Int → Int → Option Py.Tup)', 'sized': '(Int × Int)'}


def find_function(tree, path):
    """path: list of names; 'else' descends into the orelse of a module-level `if`"""
    nodes = tree.body
    node = None
    for p in path:
        found = None
        if p == 'else':
            for n in nodes:
                if isinstance(n, ast.If):
                    found = n
                    nodes = n.orelse
                    break
        else:
            want_setter = p.endswith('@setter')
            pname = p[:-7] if want_setter else p
            for n in nodes:
                if isinstance(n, (ast.FunctionDef, ast.ClassDef)) and n.name == pname:
                    is_setter = isinstance(n, ast.FunctionDef) and any(
                        isinstance(d_, ast.Attribute) and d_.attr == 'setter' for d_ in n.decorator_list)
                    if want_setter != is_setter:
                        continue
                    found = n
                    nodes = n.body
                    break
        if found is None:
            raise Unsupported('cannot find %s in %s' % (p, path))
        node = found
    return node


def unparse(n):
    return ast.unparse(n)


class Ctx(object):
    def __init__(self, kname, spec, consts):
        self.kname = kname
        self.spec = spec
        self.consts = consts          # dotted name -> int
        self.aux = []                 # lean text of auxiliary defs
        self.nloop = 0
        self.ntmp = 0
        self.fuels = list(spec.get('fuel', []))
        self.self_params = {}         # attr -> type
        self.expr_params = {}         # name -> type (verbatim source expressions turned into parameters)
        self.ret_in_loop = False
        self.loop_rec = []
        self.octets = octet_helpers(spec['octets']) if spec.get('octets') else set()

    def tmp(self):
        self.ntmp += 1
        return 't%d_' % self.ntmp


def state_var(cx_or_spec, e):
    """self.<attr> for an attribute declared as object state in the kernel spec -> the local variable that carries it"""
    spec = cx_or_spec if isinstance(cx_or_spec, dict) else cx_or_spec.spec
    if (isinstance(e, ast.Attribute) and isinstance(e.value, ast.Name) and e.value.id == 'self'
            and e.attr in spec.get('state', {})):
        return 'self_' + e.attr
    return None


def need_tup(cx, v, tv, pre):
    """an Optional octet string used where octets are required (`x + y`, `write(x)`, `len(x)`): None is Python's TypeError"""
    if tv == 'otup':
        t = cx.tmp()
        return t, 'tup', pre + ['let %s ← Py.unwrap %s' % (t, v)]
    return v, tv, pre


def dotted(e):
    if isinstance(e, ast.Name):
        return e.id
    if isinstance(e, ast.Attribute):
        b = dotted(e.value)
        return None if b is None else b + '.' + e.attr
    return None


def lit(n):
    return '(%d : Int)' % n if n >= 0 else '(%d : Int)' % n


# ---------------------------------------------------------------- expressions
# tr_expr returns (lean, type, prelude) ; prelude = list of 'let x ← ...' lines

def tr_expr(cx, env, e):
    ex = cx.spec.get('exprs', {})
    if ex and not isinstance(e, (ast.Constant, ast.Name)):
        u = unparse(e).strip()
        if u in ex:
            nm, ty = ex[u]
            cx.expr_params[nm] = ty
            return nm, ty, []
    fn_ = cx.spec.get('funs', {})
    if fn_ and isinstance(e, ast.Call):
        u = unparse(e).strip()
        if u in fn_:
            # a call of a callback the function was handed (`encodeFun(chunk, asn1Spec, **options)`): a call of a function
            # parameter of the kernel, about which the theorems assume nothing
            nm, argnames, ty = fn_[u]
            args, pre = [], []
            for a_ in argnames:
                v_, tv_, pv_ = tr_expr(cx, env, ast.Name(id=a_, ctx=ast.Load()))
                args.append(v_)
                pre += pv_
            cx.expr_params[nm] = 'fun:' + '->'.join(ty)
            tmp_ = cx.tmp()
            return tmp_, ty[-1], pre + ['let %s ← %s %s' % (tmp_, nm, ' '.join(args))]
    if isinstance(e, ast.Constant) and e.value is None:
        return '(none : Option Py.Tup)', 'otup', []
    if isinstance(e, ast.Constant):
        if isinstance(e.value, bool):
            return ('true' if e.value else 'false'), 'bool', []
        if isinstance(e.value, int):
            return lit(e.value), 'int', []
        raise Unsupported('constant %r' % (e.value,))
    if isinstance(e, ast.Name):
        if e.id in env:
            return e.id, env[e.id], []
        if e.id in cx.consts:
            return lit(cx.consts[e.id]), 'int', []
        if e.id == 'null' and 'null' in cx.octets:
            return '([] : Py.Tup)', 'tup', []
        raise Unsupported('unbound name %s' % e.id)
    if state_var(cx, e):
        return state_var(cx, e), cx.spec['state'][e.attr], []
    if (isinstance(e, ast.Compare) and len(e.ops) == 1 and isinstance(e.ops[0], (ast.Is, ast.IsNot))
            and isinstance(e.comparators[0], ast.Constant) and e.comparators[0].value is None):
        a, ta, pa = tr_expr(cx, env, e.left)
        if ta == 'otup':
            return ('(%s).isNone' if isinstance(e.ops[0], ast.Is) else '(%s).isSome') % a, 'bool', pa
        raise Unsupported('comparison with None of %s' % ta)
    if isinstance(e, ast.Call) and isinstance(e.func, ast.Attribute) and state_var(cx, e.func.value) \
            and cx.spec['state'][e.func.value.attr] == 'bio':
        # methods of an io.BytesIO held in an attribute: the object is a value threaded through the translation
        b = state_var(cx, e.func.value)
        m = e.func.attr
        if m == 'tell' and not e.args:
            return '(%s).pos' % b, 'int', []
        if m == 'read' and len(e.args) <= 1:
            if e.args:
                n, tn, pn = tr_expr(cx, env, e.args[0])
            else:
                n, tn, pn = '(-1 : Int)', 'int', []
            if tn == 'int':
                t = cx.tmp()
                return t, 'tup', pn + ['let (%s, %s) := Py.bioRead %s %s' % (t, b, b, n)]
        if m == 'write' and len(e.args) == 1:
            d_, td, pd = need_tup(cx, *tr_expr(cx, env, e.args[0]))
            if td == 'tup':
                t = cx.tmp()
                return t, 'int', pd + ['let (%s, %s) := Py.bioWrite %s %s' % (t, b, b, d_)]
        if m == 'seek' and len(e.args) == 2:
            n, tn, pn = tr_expr(cx, env, e.args[0])
            w, tw, pw = tr_expr(cx, env, e.args[1])
            if tn == tw == 'int':
                t = cx.tmp()
                return t, 'int', pn + pw + ['let (%s, %s) ← Py.bioSeek %s %s %s' % (t, b, b, n, w)]
        raise Unsupported('BytesIO method %s' % unparse(e))
    if (isinstance(e, ast.Call) and isinstance(e.func, ast.Attribute) and isinstance(e.func.value, ast.Name)
            and env.get(e.func.value.id) == 'rs'):
        # a stream the function was handed: its position is threaded through, what read(n) answers at a position is a
        # function parameter of the kernel
        nm = e.func.value.id
        rd = cx.spec['streams'][nm]
        cx.expr_params[rd] = 'fun:int,int->otup'
        if e.func.attr == 'read' and len(e.args) == 1:
            n, tn, pn = tr_expr(cx, env, e.args[0])
            if tn == 'int':
                t = cx.tmp()
                return t, 'otup', pn + ['let (%s, %s) := Py.rsRead %s %s %s' % (t, nm, rd, nm, n)]
        if e.func.attr == 'seek' and len(e.args) == 2:
            n, tn, pn = tr_expr(cx, env, e.args[0])
            w, tw, pw = tr_expr(cx, env, e.args[1])
            if tn == tw == 'int':
                t = cx.tmp()
                return t, 'int', pn + pw + ['let (%s, %s) ← Py.rsSeek %s %s %s' % (t, nm, nm, n, w)]
        raise Unsupported('stream method %s' % unparse(e))
    if isinstance(e, ast.Call) and isinstance(e.func, ast.Name) and e.func.id == 'min' and len(e.args) == 2 and 'min' not in env:
        a, ta, pa = tr_expr(cx, env, e.args[0])
        b, tb, pb = tr_expr(cx, env, e.args[1])
        if ta == tb == 'int':
            return '(Py.imin %s %s)' % (a, b), 'int', pa + pb
    if isinstance(e, ast.List):
        parts = [need_tup(cx, *tr_expr(cx, env, x)) for x in e.elts]
        if all(p_[1] == 'tup' for p_ in parts):
            return '[' + ', '.join(p_[0] for p_ in parts) + ']', 'tups', sum((p_[2] for p_ in parts), [])
    if isinstance(e, ast.Call) and dotted(e.func) == 'io.BytesIO' and len(e.args) <= 1 and not e.keywords:
        if e.args:
            a, ta, pa = need_tup(cx, *tr_expr(cx, env, e.args[0]))
        else:
            a, ta, pa = '([] : Py.Tup)', 'tup', []
        if ta == 'tup':
            return '(Py.bioNew %s)' % a, 'bio', pa
    sc_ = cx.spec.get('stateful_calls', {})
    if sc_ and isinstance(e, ast.Call) and unparse(e).strip() in sc_:
        # a call of another method of the same object: the translated method, handed the object state and handing it back
        info = sc_[unparse(e).strip()]
        args, pre = [], []
        for a_ in info['args']:
            v_, tv_, pv_ = tr_expr(cx, env, ast.parse(a_, mode='eval').body)
            args.append(v_)
            pre += pv_
        t = cx.tmp()
        outs = [state_var(cx, ast.parse(x_, mode='eval').body) for x_ in info['state']]
        return t, info['returns'], pre + ['let (%s, %s) ← %s %s' % (t, ', '.join(outs), info['kernel'], ' '.join(args))]
    if isinstance(e, ast.Attribute):
        d = dotted(e)
        if d in cx.consts:
            return lit(cx.consts[d]), 'int', []
        if d and d.startswith('self.') and d[5:] in cx.spec.get('self_consts', {}):
            modname, clsname = cx.spec['self_consts'][d[5:]]
            val = getattr(getattr(importlib.import_module(modname), clsname), d[5:])
            if isinstance(val, (bytes, tuple)) and all(isinstance(x, int) for x in val):
                return '([%s] : Py.Tup)' % ', '.join(lit(x) for x in val), 'tup', []
            if not isinstance(val, int) or isinstance(val, bool):
                raise Unsupported('class constant %s is not an int' % d)
            return lit(val), 'int', []
        if d and d.startswith('self.') and d[5:] in cx.spec.get('self', {}):
            nm = 'self_' + d[5:]
            cx.self_params[nm] = cx.spec['self'][d[5:]]
            return nm, cx.spec['self'][d[5:]], []
        raise Unsupported('attribute %s' % d)
    if isinstance(e, ast.Tuple):
        parts = [tr_expr(cx, env, x) for x in e.elts]
        pre = sum((p[2] for p in parts), [])
        if all(p[1] == 'int' for p in parts):
            return '[' + ', '.join(p[0] for p in parts) + ']', 'tup', pre
        return '(' + ', '.join(p[0] for p in parts) + ')', 'prod:' + ','.join(p[1] for p in parts), pre
    if isinstance(e, ast.UnaryOp):
        a, ta, pre = tr_expr(cx, env, e.operand)
        if isinstance(e.op, ast.Invert) and ta == 'int':
            return '(Py.inv %s)' % a, 'int', pre
        if isinstance(e.op, ast.USub) and ta == 'int':
            return '(-%s)' % a, 'int', pre
        if isinstance(e.op, ast.Not):
            return '(!%s)' % as_bool(a, ta), 'bool', pre
        raise Unsupported('unary %s' % unparse(e))
    if isinstance(e, ast.BinOp):
        a, ta, pa = tr_expr(cx, env, e.left)
        b, tb, pb = tr_expr(cx, env, e.right)
        pre = pa + pb
        op = type(e.op)
        if op is ast.Add and {ta, tb} <= {'tup', 'otup'} and 'otup' in (ta, tb):
            a, ta, pre = need_tup(cx, a, ta, pre)
            b, tb, pre = need_tup(cx, b, tb, pre)
        if ta == 'tup' and tb == 'tup' and op is ast.Add:
            return '(%s ++ %s)' % (a, b), 'tup', pre
        if ta == 'int' and tb == 'int':
            table = {ast.Add: '(%s + %s)', ast.Sub: '(%s - %s)', ast.Mult: '(%s * %s)',
                     ast.BitOr: '(Py.bor %s %s)', ast.BitAnd: '(Py.band %s %s)',
                     ast.RShift: '(Py.shr %s %s)', ast.LShift: '(Py.shl %s %s)',
                     ast.FloorDiv: '(Py.fdiv %s %s)', ast.Mod: '(Py.fmod %s %s)'}
            if op in table:
                return table[op] % (a, b), 'int', pre
        if ta == 'int' and tb == 'int' and op is ast.Pow:
            v = cx.tmp()
            return v, 'int', pre + ['let %s ← Py.pow %s %s' % (v, a, b)]
        raise Unsupported('binop %s on %s,%s' % (unparse(e), ta, tb))
    if isinstance(e, ast.Compare) and len(e.ops) == 1 and isinstance(e.ops[0], (ast.In, ast.NotIn)):
        a, ta, pa = tr_expr(cx, env, e.left)
        b, tb, pb = tr_expr(cx, env, e.comparators[0])
        if ta == 'int' and tb == 'tup':
            r = '(Py.mem %s %s)' % (a, b)
            if isinstance(e.ops[0], ast.NotIn):
                r = '(!%s)' % r
            return r, 'bool', pa + pb
        raise Unsupported('membership %s' % unparse(e))
    if isinstance(e, ast.Compare):
        parts = []
        pre = []
        left, tl, pl = tr_expr(cx, env, e.left)
        pre += pl
        for op, right in zip(e.ops, e.comparators):
            r, tr_, pr = tr_expr(cx, env, right)
            pre += pr
            if tl != 'int' or tr_ != 'int':
                raise Unsupported('comparison of %s and %s in %s' % (tl, tr_, unparse(e)))
            sym = {ast.Lt: '<', ast.LtE: '≤', ast.Gt: '>', ast.GtE: '≥', ast.Eq: '=', ast.NotEq: '≠'}.get(type(op))
            if sym is None:
                raise Unsupported('comparison operator in %s' % unparse(e))
            parts.append('decide (%s %s %s)' % (left, sym, r))
            left, tl = r, tr_
        return '(' + ' && '.join(parts) + ')', 'bool', pre
    if (isinstance(e, ast.BoolOp) and isinstance(e.op, ast.Or) and len(e.values) == 2 and isinstance(e.values[0], ast.BoolOp)
            and isinstance(e.values[0].op, ast.And) and len(e.values[0].values) == 2
            and isinstance(e.values[0].values[1], ast.Tuple) and e.values[0].values[1].elts and isinstance(e.values[1], ast.Tuple)):
        # `x and (a, ...) or (b, ...)` with a non-empty (truthy) tuple in the middle: the old spelling of a conditional
        c, tc, pc = tr_expr(cx, env, e.values[0].values[0])
        a, ta, pa = tr_expr(cx, env, e.values[0].values[1])
        b, tb, pb = tr_expr(cx, env, e.values[1])
        if ta == tb == 'tup' and not pa and not pb:
            return '(if %s then %s else %s)' % (as_bool(c, tc), a, b), 'tup', pc
    if (isinstance(e, ast.BoolOp) and isinstance(e.op, ast.Or) and len(e.values) == 2 and isinstance(e.values[0], ast.BoolOp)
            and isinstance(e.values[0].op, ast.And) and len(e.values[0].values) == 2
            and isinstance(e.values[0].values[1], ast.Constant) and type(e.values[0].values[1].value) is int
            and e.values[0].values[1].value != 0 and cx.spec.get('andor_conditional')):
        # `x and 1 or 0`: a non-zero (truthy) integer literal in the middle - the same old spelling over ints
        c, tc, pc = tr_expr(cx, env, e.values[0].values[0])
        a, ta, pa = tr_expr(cx, env, e.values[0].values[1])
        b, tb, pb = tr_expr(cx, env, e.values[1])
        if ta == tb == 'int' and not pa and not pb:
            return '(if %s then %s else %s)' % (as_bool(c, tc), a, b), 'int', pc
    if isinstance(e, ast.BoolOp):
        parts = [tr_expr(cx, env, v) for v in e.values]
        pre = sum((p[2] for p in parts), [])
        isand = isinstance(e.op, ast.And)
        if any(p[2] for p in parts[1:]):
            # a later operand may raise (it indexes a tuple) and the earlier ones guard it: evaluate lazily, as Python
            # does; only as a truth value (every operand coerced), which is how the sources use it (`if a and t and t[0]`)
            pre0 = parts[0][2]
            acc = None
            for lean, ty, pre_ in reversed(parts):
                b_ = as_bool(lean, ty)
                if acc is None:
                    inner = 'pure %s' % b_
                else:
                    inner = ('if %s then %s else pure false' if isand else 'if %s then pure true else %s') % (b_, acc)
                if pre_ and (lean, ty, pre_) != parts[0]:
                    inner = '(do ' + '; '.join(pre_) + '; ' + inner + ')'
                else:
                    inner = '(' + inner + ')'
                acc = inner
            v = cx.tmp()
            return v, 'bool', pre0 + ['let %s ← (%s : Py.M Bool)' % (v, acc)]
        if all(p[1] == 'bool' for p in parts):
            return '(' + (' && ' if isand else ' || ').join(p[0] for p in parts) + ')', 'bool', pre
        if all(p[1] == 'int' for p in parts):
            acc = parts[0][0]
            for p in parts[1:]:
                acc = '(Py.%s %s %s)' % ('andI' if isand else 'orI', acc, p[0])
            return acc, 'int', pre
        if parts[0][1] == 'bool' and all(p[1] == 'bool' or p[1] == 'int' for p in parts):
            # mixed: only meaningful as a condition
            return '(' + (' && ' if isand else ' || ').join(as_bool(p[0], p[1]) for p in parts) + ')', 'bool', pre
        if not pre and all(p[1] in ('bool', 'int', 'tup', 'otup') for p in parts):
            return '(' + (' && ' if isand else ' || ').join(as_bool(p[0], p[1]) for p in parts) + ')', 'bool', pre
        raise Unsupported('boolop %s' % unparse(e))
    if isinstance(e, ast.IfExp):
        c, tc, pc = tr_expr(cx, env, e.test)
        a, ta, pa = tr_expr(cx, env, e.body)
        b, tb, pb = tr_expr(cx, env, e.orelse)
        if pa or pb or ta != tb:
            raise Unsupported('conditional expression %s' % unparse(e))
        return '(if %s then %s else %s)' % (as_bool(c, tc), a, b), ta, pc
    if isinstance(e, ast.ListComp):
        # [<expr in x> for x in xs]: a map over a list of octet strings / of pairs; the element expression may not raise
        if len(e.generators) != 1 or e.generators[0].ifs or e.generators[0].is_async or not isinstance(e.generators[0].target, ast.Name):
            raise Unsupported('comprehension %s' % unparse(e))
        it, tit, pit = tr_expr(cx, env, e.generators[0].iter)
        if tit not in ('tups', 'pairs'):
            raise Unsupported('comprehension over %s' % tit)
        x = e.generators[0].target.id
        env2 = dict(env)
        env2[x] = 'tup' if tit == 'tups' else 'pair'
        if isinstance(e.elt, ast.Tuple) and len(e.elt.elts) == 2:
            parts = [tr_expr(cx, env2, q) for q in e.elt.elts]
            if all(p_[1] == 'tup' for p_ in parts):
                # an element part that may raise (ljust with a bad fill) makes the whole map monadic
                pre_in = sum((p_[2] for p_ in parts), [])
                if pre_in:
                    v = cx.tmp()
                    body = '; '.join(pre_in) + '; pure (%s, %s)' % (parts[0][0], parts[1][0])
                    return v, 'pairs', pit + ['let %s ← (%s).mapM (fun %s => (do %s : Py.M (Py.Tup × Py.Tup)))' % (v, it, x, body)]
                return '((%s).map fun %s => (%s, %s))' % (it, x, parts[0][0], parts[1][0]), 'pairs', pit
        el, tel, pel = tr_expr(cx, env2, e.elt)
        if pel:
            raise Unsupported('comprehension element %s' % unparse(e.elt))
        if tel == 'tup':
            return '((%s).map fun %s => %s)' % (it, x, el), 'tups', pit
        raise Unsupported('comprehension %s' % unparse(e))
    if isinstance(e, ast.Subscript) and isinstance(e.value, ast.Name) and env.get(e.value.id) == 'pair' \
            and isinstance(e.slice, ast.Constant) and e.slice.value in (0, 1):
        return '%s.%d' % (e.value.id, e.slice.value + 1), 'tup', []
    if isinstance(e, ast.Subscript):
        t, tt, pt = tr_expr(cx, env, e.value)
        if tt != 'tup':
            raise Unsupported('subscript of %s' % tt)
        if isinstance(e.slice, ast.Slice):
            s = e.slice
            if s.step is not None:
                raise Unsupported('slice step')
            if s.lower is not None and s.upper is None and isinstance(s.lower, ast.Constant) and s.lower.value >= 0:
                return '(Py.sliceFrom %s %s)' % (t, lit(s.lower.value)), 'tup', pt
            if s.upper is not None and s.lower is None and isinstance(s.upper, ast.Constant) and s.upper.value >= 0:
                return '(Py.sliceTo %s %s)' % (t, lit(s.upper.value)), 'tup', pt
            if s.lower is not None and s.upper is None:
                i, ti, pi = tr_expr(cx, env, s.lower)
                if ti == 'int':
                    return '(Py.sliceFromG %s %s)' % (t, i), 'tup', pt + pi
            if s.upper is not None and s.lower is None:
                i, ti, pi = tr_expr(cx, env, s.upper)
                if ti == 'int':
                    return '(Py.sliceToG %s %s)' % (t, i), 'tup', pt + pi
            if s.upper is not None and s.lower is not None:
                i, ti, pi = tr_expr(cx, env, s.lower)
                j, tj, pj = tr_expr(cx, env, s.upper)
                if ti == 'int' and tj == 'int':
                    return '(Py.sliceG %s %s %s)' % (t, i, j), 'tup', pt + pi + pj
            raise Unsupported('slice %s' % unparse(e))
        i, ti, pi = tr_expr(cx, env, e.slice)
        if ti != 'int':
            raise Unsupported('index type')
        v = cx.tmp()
        return v, 'int', pt + pi + ['let %s ← Py.idx %s %s' % (v, t, i)]
    if isinstance(e, ast.Call):
        f = e.func
        if (isinstance(f, ast.Attribute) and f.attr == 'setBitLength' and len(e.args) == 1 and not e.keywords
                and isinstance(f.value, ast.Call) and isinstance(f.value.func, ast.Name) and f.value.func.id == 'SizedInteger'
                and len(f.value.args) == 1 and not f.value.keywords and 'SizedInteger' not in env):
            # `SizedInteger(v).setBitLength(n)` (type/univ.py: an int that remembers how many bits it stands for): the pair (v, n)
            a, ta, pa = tr_expr(cx, env, f.value.args[0])
            b, tb, pb = tr_expr(cx, env, e.args[0])
            if (ta, tb) == ('int', 'int'):
                return '(%s, %s)' % (a, b), 'sized', pa + pb
        if isinstance(f, ast.Name) and f.id == 'len' and len(e.args) == 1:
            a, ta, pa = tr_expr(cx, env, e.args[0])
            if ta == 'sized':
                return '(%s).2' % a, 'int', pa
            if ta in ('tups', 'pairs'):
                return '((%s).length : Int)' % a, 'int', pa
            a, ta, pa = need_tup(cx, a, ta, pa)
            if ta != 'tup':
                raise Unsupported('len of %s' % ta)
            return '(Py.len %s)' % a, 'int', pa
        if (isinstance(f, ast.Name) and f.id == 'max' and len(e.args) == 1 and isinstance(e.args[0], ast.Call)
                and isinstance(e.args[0].func, ast.Name) and e.args[0].func.id == 'map' and len(e.args[0].args) == 2
                and isinstance(e.args[0].args[0], ast.Name) and e.args[0].args[0].id == 'len' and 'max' not in env and 'map' not in env):
            a, ta, pa = tr_expr(cx, env, e.args[0].args[1])          # max(map(len, xs)); ValueError on an empty list
            if ta == 'tups':
                v = cx.tmp()
                return v, 'int', pa + ['let %s ← Py.maxLen %s' % (v, a)]
        if (isinstance(f, ast.Name) and f.id == 'str2octs' and 'str2octs' in cx.octets and len(e.args) == 1
                and isinstance(e.args[0], ast.Constant) and isinstance(e.args[0].value, str) and f.id not in env):
            return '([%s] : Py.Tup)' % ', '.join(lit(b) for b in e.args[0].value.encode('iso-8859-1')), 'tup', []
        if isinstance(f, ast.Attribute) and f.attr == 'ljust' and len(e.args) == 2 and not e.keywords:
            a, ta, pa = tr_expr(cx, env, f.value)
            n, tn, pn = tr_expr(cx, env, e.args[0])
            z, tz, pz = tr_expr(cx, env, e.args[1])
            if (ta, tn, tz) == ('tup', 'int', 'tup'):
                v = cx.tmp()
                return v, 'tup', pa + pn + pz + ['let %s ← Py.ljust %s %s %s' % (v, a, n, z)]
        if isinstance(f, ast.Attribute) and f.attr == 'join' and len(e.args) == 1 and not e.keywords:
            a, ta, pa = tr_expr(cx, env, f.value)
            b, tb, pb = tr_expr(cx, env, e.args[0])
            if ta == 'tup' and a == '([] : Py.Tup)' and tb == 'tups':
                return '(%s).flatten' % b, 'tup', pa + pb          # null.join(chunks)
        if isinstance(f, ast.Name) and f.id == 'max' and len(e.args) == 2:
            a, ta, pa = tr_expr(cx, env, e.args[0])
            b, tb, pb = tr_expr(cx, env, e.args[1])
            if ta == tb == 'int':
                return '(Py.max %s %s)' % (a, b), 'int', pa + pb
        if isinstance(f, ast.Attribute) and f.attr == 'issubset' and len(e.args) == 1 and not e.keywords:
            a, ta, pa = tr_expr(cx, env, f.value)
            b, tb, pb = tr_expr(cx, env, e.args[0])
            if ta == 'tup' and tb == 'tup':
                return '(Py.issuperset %s %s)' % (b, a), 'bool', pa + pb
        if isinstance(f, ast.Attribute) and f.attr == 'issuperset' and len(e.args) == 1 and not e.keywords:
            a, ta, pa = tr_expr(cx, env, f.value)
            b, tb, pb = tr_expr(cx, env, e.args[0])
            if ta == 'tup' and tb == 'tup':
                return '(Py.issuperset %s %s)' % (a, b), 'bool', pa + pb
        if isinstance(f, ast.Attribute) and f.attr == 'bit_length' and not e.args:
            a, ta, pa = tr_expr(cx, env, f.value)
            if ta == 'int':
                return '(Py.bitLength %s)' % a, 'int', pa
        if isinstance(f, ast.Attribute) and f.attr == 'to_bytes':
            a, ta, pa = tr_expr(cx, env, f.value)
            if (ta == 'int' and len(e.args) == 2 and isinstance(e.args[1], ast.Constant) and e.args[1].value == 'big'
                    and len(e.keywords) == 1 and e.keywords[0].arg == 'signed'):
                n, tn, pn = tr_expr(cx, env, e.args[0])
                s, ts, ps = tr_expr(cx, env, e.keywords[0].value)
                if tn == 'int' and ts == 'bool':
                    v = cx.tmp()
                    return v, 'tup', pa + pn + ps + ['let %s ← Py.toBytes %s %s %s' % (v, a, n, s)]
        dcall = dotted(f)
        if (dcall == 'int.from_bytes' and len(e.args) == 2 and isinstance(e.args[1], ast.Constant) and e.args[1].value == 'big'
                and len(e.keywords) == 1 and e.keywords[0].arg == 'signed'):
            a0 = e.args[0]
            if isinstance(a0, ast.Call) and isinstance(a0.func, ast.Name) and a0.func.id == 'bytes' and len(a0.args) == 1:
                a0 = a0.args[0]
            a, ta, pa = tr_expr(cx, env, a0)
            sg, ts, ps = tr_expr(cx, env, e.keywords[0].value)
            if ta == 'tup' and ts == 'bool':
                return '(Py.fromBytes %s %s)' % (a, sg), 'int', pa + ps
        if dcall in cx.spec.get('calls', {}):
            info = cx.spec['calls'][dcall]
            args = []
            pre = []
            for nm in info.get('self', []):
                pn = 'self_' + nm
                cx.self_params[pn] = cx.spec['self'][nm]
                args.append(pn)
            actual = list(e.args)
            fixed_ = info.get('fixed', {})
            # a parameter of the callee the kernel was translated for one value of (`internalFormat=True`): the call must give
            # exactly that value, or leave it out where it is the callee's default (checked against its signature: check_callee)
            kws_ = []
            for k in e.keywords:
                if k.arg in fixed_:
                    if unparse(k.value).strip() != fixed_[k.arg]:
                        raise Unsupported('call %s gives %s=%s, the kernel %s is translated for %s' % (
                            unparse(e), k.arg, unparse(k.value), info['kernel'], fixed_[k.arg]))
                else:
                    kws_.append(k)
            if fixed_ or info.get('defaults'):
                check_callee(info, [k.arg for k in e.keywords])
            if kws_ or (info.get('params') and len(actual) < len(info['params'])):
                names_ = info.get('params')
                if not names_ or any(k.arg not in names_ for k in kws_) or len(actual) > len(names_):
                    raise Unsupported('keyword arguments in call %s' % unparse(e))
                slots = {names_[i]: a for i, a in enumerate(actual)}
                for k in kws_:
                    slots[k.arg] = k.value
                for dn_, dv_ in info.get('defaults', {}).items():
                    # a parameter the call leaves to its default (checked against the signature of the callee below)
                    slots.setdefault(dn_, ast.parse(dv_, mode='eval').body)
                if sorted(slots) != sorted(names_):
                    raise Unsupported('call %s does not give every parameter' % unparse(e))
                actual = [slots[n_] for n_ in names_]
            for a in actual:
                v, tv, pv = tr_expr(cx, env, a)
                args.append(v)
                pre += pv
            tmp = cx.tmp()
            return tmp, info['returns'], pre + ['let %s ← %s %s' % (tmp, info['kernel'], ' '.join(args))]
        if isinstance(f, ast.Name) and f.id == 'ints2octs' and 'ints2octs' in cx.octets and len(e.args) == 1 and f.id not in env:
            a, ta, pa = tr_expr(cx, env, e.args[0])
            if ta == 'tup':
                return a, 'tup', pa
        if isinstance(f, ast.Name) and f.id == 'int2oct' and 'int2oct' in cx.octets and len(e.args) == 1 and f.id not in env:
            a, ta, pa = tr_expr(cx, env, e.args[0])
            if ta == 'int':
                return '[%s]' % a, 'tup', pa
        if isinstance(f, ast.Name) and f.id == 'oct2int' and 'oct2int' in cx.octets and len(e.args) == 1 and f.id not in env:
            a, ta, pa = tr_expr(cx, env, e.args[0])
            if ta == 'int':
                return a, 'int', pa
        if (isinstance(f, ast.Attribute) and f.attr == 'tell' and not e.args and not e.keywords and isinstance(f.value, ast.Name)
                and f.value.id == cx.spec.get('stream') and 'pos_' in env):
            return 'pos_', 'int', []           # `<stream>.tell()`: the position the reads of the complete input have reached
        if isinstance(f, ast.Name) and f.id == '__readN' and len(e.args) == 3:
            a, ta, pa = tr_expr(cx, env, e.args[0])
            b, tb, pb = tr_expr(cx, env, e.args[1])
            c, tc, pc = tr_expr(cx, env, e.args[2])
            if (ta, tb, tc) == ('tup', 'int', 'int'):
                v = cx.tmp()
                return v, 'tup', pa + pb + pc + ['let %s ← Py.readN %s %s %s' % (v, a, b, c)]
        if isinstance(f, ast.Name) and f.id == 'ord' and len(e.args) == 1 and 'ord' not in env:
            a, ta, pa = tr_expr(cx, env, e.args[0])
            if ta == 'tup':
                v = cx.tmp()
                return v, 'int', pa + ['let %s ← Py.ord %s' % (v, a)]
        if isinstance(f, ast.Name) and f.id == 'list' and len(e.args) == 1:
            a, ta, pa = tr_expr(cx, env, e.args[0])
            if ta == 'tup':
                return a, 'tup', pa
        if isinstance(f, ast.Name) and f.id == 'int' and len(e.args) == 1:
            a, ta, pa = tr_expr(cx, env, e.args[0])
            if ta == 'int':
                return a, 'int', pa
        raise Unsupported('call %s' % unparse(e))
    raise Unsupported('expression %s' % unparse(e))


def check_callee(info, given):
    """the defaults a kernel call relies on are the defaults in the callee's signature as it is in the source now"""
    cal = info.get('callee')
    if not cal:
        raise Unsupported('call of kernel %s relies on parameter defaults but names no callee to check them against' % info['kernel'])
    fn = find_function(ast.parse(open(os.path.join(REPO, cal['file'])).read()), cal['path'])
    names = [a.arg for a in fn.args.args]
    dflt = dict(zip(names[len(names) - len(fn.args.defaults):], [unparse(d).strip() for d in fn.args.defaults]))
    want = dict(info.get('defaults', {}))
    want.update(info.get('fixed', {}))
    for nm, val in want.items():
        if nm in given:
            continue
        if dflt.get(nm) != val:
            raise Unsupported('callee %s: default of %s is %s, the kernel call assumes %s' % ('.'.join(cal['path']), nm, dflt.get(nm), val))


def as_bool(a, ta):
    if ta == 'bool':
        return a
    if ta == 'int':
        return '(Py.truthy %s)' % a
    if ta == 'tup':
        return '(!(%s).isEmpty)' % a
    if ta == 'otup':
        return '(Py.otruthy %s)' % a
    raise Unsupported('truth value of %s' % ta)


# ---------------------------------------------------------------- statements

STATE_ATTRS = {}
STATE_CALLS = {}
STREAM_NAMES = set()


def assigned(stmts):
    out = []

    def add(n):
        if n not in out:
            out.append(n)

    def tgt(t):
        if isinstance(t, ast.Name):
            add(t.id)
        elif isinstance(t, ast.Tuple):
            for x in t.elts:
                tgt(x)
        else:
            raise Unsupported('assignment target %s' % unparse(t))
    for s in stmts:
        if not isinstance(s, (ast.If, ast.While, ast.For, ast.Try)):
            for n_ in ast.walk(s):
                if (isinstance(n_, ast.Call) and isinstance(n_.func, ast.Attribute) and isinstance(n_.func.value, ast.Name)
                        and ((n_.func.value.id in STREAM_NAMES and n_.func.attr in ('read', 'seek'))
                             or (n_.func.attr == 'append' and isinstance(s, ast.Expr) and s.value is n_))):
                    add(n_.func.value.id)
        if STATE_ATTRS and not isinstance(s, (ast.If, ast.While, ast.For, ast.Try)):
            for n_ in ast.walk(s):
                if (isinstance(n_, ast.Call) and isinstance(n_.func, ast.Attribute) and n_.func.attr in ('read', 'write', 'seek')
                        and isinstance(n_.func.value, ast.Attribute) and isinstance(n_.func.value.value, ast.Name)
                        and n_.func.value.value.id == 'self' and n_.func.value.attr in STATE_ATTRS):
                    add('self_' + n_.func.value.attr)
                if isinstance(n_, ast.Call) and unparse(n_).strip() in STATE_CALLS:
                    for x_ in STATE_CALLS[unparse(n_).strip()]:
                        add(x_)
        if (isinstance(s, ast.Assign) and len(s.targets) == 1 and isinstance(s.targets[0], ast.Attribute)
                and isinstance(s.targets[0].value, ast.Name) and s.targets[0].value.id == 'self' and s.targets[0].attr in STATE_ATTRS):
            add('self_' + s.targets[0].attr)
            continue
        if isinstance(s, ast.Assign):
            for t in s.targets:
                tgt(t)
        elif isinstance(s, ast.AugAssign):
            tgt(s.target)
        elif isinstance(s, ast.Delete):
            for t in s.targets:
                if isinstance(t, ast.Subscript) and isinstance(t.value, ast.Name):
                    add(t.value.id)
        elif isinstance(s, ast.If):
            for n in assigned(s.body) + assigned(s.orelse):
                add(n)
        elif isinstance(s, (ast.While, ast.For)):
            if isinstance(s, ast.For):
                tgt(s.target)
            for n in assigned(s.body):
                add(n)
        elif isinstance(s, ast.Try):
            for n in assigned(s.body):
                add(n)
            for h in s.handlers:
                for n in assigned(h.body):
                    add(n)
    return out


def names_read(node):
    return [n.id for n in ast.walk(node) if isinstance(n, ast.Name) and isinstance(n.ctx, ast.Load)]


def terminates(stmts):
    if not stmts:
        return False
    s = stmts[-1]
    if isinstance(s, (ast.Return, ast.Raise)):
        return True
    if isinstance(s, ast.If):
        return terminates(s.body) and terminates(s.orelse)
    return False


def has_return(stmts):
    for s in stmts:
        for n in ast.walk(s):
            if isinstance(n, ast.Return):
                return True
    return False


def tr_raise(cx, s):
    exc = s.exc
    if isinstance(exc, ast.Call):
        exc = exc.func
    d = dotted(exc)
    if d is None:
        raise Unsupported('raise %s' % unparse(s))
    cls = d.split('.')[-1]
    if cls == 'OverflowError':
        return 'throw Py.PyErr.overflowError'
    if cls == 'IndexError':
        return 'throw Py.PyErr.indexError'
    return 'throw (Py.PyErr.lib "%s")' % cls


def tup_of(names):
    if len(names) == 1:
        return names[0]
    return '(' + ', '.join(names) + ')'


def ty_of(env, names):
    return ' × '.join(LEAN_TY[env[n]] for n in names) if names else 'Unit'


def ind(lines, k=2):
    return [' ' * k + l for l in lines]


def tr_block(cx, env, stmts, ret_ty, tail):
    """returns lean lines (statements of a do-block).  `tail(env)` gives the lines that follow when the
    block falls through (None = nothing follows / unreachable)."""
    env = dict(env)
    if not stmts:
        return tail(env) if tail else ['pure ()']
    s, rest = stmts[0], stmts[1:]

    def cont(env2):
        return tr_block(cx, env2, rest, ret_ty, tail)

    if isinstance(s, ast.Expr) and isinstance(s.value, ast.Constant):
        return cont(env)        # docstring
    if isinstance(s, ast.Pass):
        return cont(env)
    if (isinstance(s, ast.Expr) and isinstance(s.value, ast.Call) and isinstance(s.value.func, ast.Attribute)
            and s.value.func.attr == 'sort' and isinstance(s.value.func.value, ast.Name) and env.get(s.value.func.value.id) == 'pairs'
            and not s.value.args and len(s.value.keywords) == 1 and s.value.keywords[0].arg == 'key'
            and unparse(s.value.keywords[0].value).replace(' ', '') == 'lambdax:x[0]'):
        nm = s.value.func.value.id      # in-place stable sort of a list of pairs by the first component
        return ['let %s : %s := Py.sortByFst %s' % (nm, LEAN_TY['pairs'], nm)] + cont(env)
    if isinstance(s, ast.Continue):
        if not cx.loop_rec:
            raise Unsupported('continue outside a translated for loop')
        return cx.loop_rec[-1](env)
    if isinstance(s, ast.Expr) and isinstance(s.value, ast.Call) and unparse(s.value).strip() in cx.spec.get('funs', {}):
        v, tv, pre = tr_expr(cx, env, s.value)      # a call of a callback for its effect (it may raise)
        return pre + cont(env)
    if (isinstance(s, ast.If) and isinstance(s.test, ast.Name) and s.test.id == 'LOG' and not s.orelse
            and all(isinstance(b, ast.Expr) and isinstance(b.value, ast.Call) and isinstance(b.value.func, ast.Name)
                    and b.value.func.id == 'LOG' for b in s.body)):
        return cont(env)        # `if LOG: LOG(...)`: debug output only (that logging changes no outcome is C12's matter)
    if unparse(s).strip() in cx.spec.get('skip', []):
        return cont(env)        # a statement outside the computation (declared in kernels.json, matched verbatim)
    if isinstance(s, ast.Delete):
        if len(s.targets) != 1 or not isinstance(s.targets[0], ast.Subscript) or not isinstance(s.targets[0].value, ast.Name):
            raise Unsupported('del %s' % unparse(s))
        nm = s.targets[0].value.id
        if env.get(nm) != 'tup' or isinstance(s.targets[0].slice, ast.Slice):
            raise Unsupported('del %s' % unparse(s))
        i, ti, pi = tr_expr(cx, env, s.targets[0].slice)
        if ti != 'int':
            raise Unsupported('del index')
        return pi + ['let %s ← Py.delAt %s %s' % (nm, nm, i)] + cont(env)
    if (isinstance(s, ast.Assign) and len(s.targets) == 1 and state_var(cx, s.targets[0])):
        nm = state_var(cx, s.targets[0])
        ty = cx.spec['state'][s.targets[0].attr]
        v, tv, pre = tr_expr(cx, env, s.value)
        if tv != ty:
            raise Unsupported('state attribute %s assigned a %s' % (nm, tv))
        return pre + ['let %s : %s := %s' % (nm, LEAN_TY[ty], v)] + cont(env)
    if (isinstance(s, ast.Expr) and isinstance(s.value, ast.Call) and isinstance(s.value.func, ast.Attribute)
            and state_var(cx, s.value.func.value)):
        v, tv, pre = tr_expr(cx, env, s.value)      # a method call on a state object for its effect
        return pre + cont(env)
    if (isinstance(s, ast.Expr) and isinstance(s.value, ast.Call) and isinstance(s.value.func, ast.Attribute)
            and isinstance(s.value.func.value, ast.Name) and env.get(s.value.func.value.id) == 'rs'):
        v, tv, pre = tr_expr(cx, env, s.value)
        return pre + cont(env)
    if (isinstance(s, ast.Expr) and isinstance(s.value, ast.Call) and isinstance(s.value.func, ast.Attribute)
            and s.value.func.attr == 'append' and isinstance(s.value.func.value, ast.Name)
            and env.get(s.value.func.value.id) == 'tups' and len(s.value.args) == 1):
        nm = s.value.func.value.id
        v, tv, pre = need_tup(cx, *tr_expr(cx, env, s.value.args[0]))
        if tv != 'tup':
            raise Unsupported('append of %s' % tv)
        return pre + ['let %s : List Py.Tup := %s ++ [%s]' % (nm, nm, v)] + cont(env)
    if isinstance(s, ast.Return) and (cx.spec.get('state_out') or cx.spec.get('state_out_names')):
        outs = ['self_' + a_ for a_ in cx.spec.get('state_out', [])] + list(cx.spec.get('state_out_names', []))
        if s.value is None:
            return ['pure (%s)' % ', '.join(outs)]
        v, tv, pre = tr_expr(cx, env, s.value)
        want = cx.spec.get('returns_value')
        if want == 'otup' and tv == 'tup':
            v, tv = '(some %s)' % v, 'otup'
        if want == 'obool' and tv == 'bool':
            v, tv = '(some %s)' % v, 'obool'
        if want == 'obool' and isinstance(s.value, ast.Constant) and s.value.value is None:
            v, tv = '(none : Option Bool)', 'obool'
        if want and tv != want:
            raise Unsupported('return of %s where %s is declared' % (tv, want))
        return pre + ['pure (%s, %s)' % (v, ', '.join(outs))]
    if isinstance(s, ast.Return) and s.value is None:
        return ['pure (Sum.inl ())'] if cx.ret_in_loop else ['pure ()']
    if isinstance(s, ast.Return):
        v, tv, pre = tr_expr(cx, env, s.value)
        if cx.ret_in_loop:
            return pre + ['pure (Sum.inl %s)' % v]
        return pre + ['pure %s' % v]
    if isinstance(s, ast.Raise):
        return [tr_raise(cx, s)]
    if isinstance(s, ast.Assign):
        if len(s.targets) != 1:
            raise Unsupported('multiple assignment')
        t = s.targets[0]
        if (isinstance(t, ast.Tuple) and isinstance(s.value, ast.Tuple) and len(t.elts) == len(s.value.elts)
                and all(isinstance(x, ast.Name) for x in t.elts)):
            # a, b = x, y : every right-hand side is evaluated in the old environment, then the names are bound
            lines = []
            tmps = []
            for x in s.value.elts:
                v, tv, pre = tr_expr(cx, env, x)
                if tv not in LEAN_TY:
                    raise Unsupported('parallel assignment of %s' % tv)
                tm = cx.tmp()
                lines += pre + ['let %s : %s := %s' % (tm, LEAN_TY[tv], v)]
                tmps.append((tm, tv))
            for x, (tm, tv) in zip(t.elts, tmps):
                env[x.id] = tv
                lines.append('let %s : %s := %s' % (x.id, LEAN_TY[tv], tm))
            return lines + cont(env)
        if isinstance(t, ast.Tuple):
            v, tv, pre = tr_expr(cx, env, s.value)
            if tv != 'tup' or not all(isinstance(x, ast.Name) for x in t.elts):
                raise Unsupported('unpacking %s' % unparse(s))
            names = [x.id for x in t.elts]
            for n in names:
                env[n] = 'int'
            return pre + ['let [%s] := %s | throw (Py.PyErr.lib "ValueError")' % (', '.join(names), v)] + cont(env)
        if not isinstance(t, ast.Name):
            raise Unsupported('assignment target %s' % unparse(t))
        v, tv, pre = tr_expr(cx, env, s.value)
        if tv.startswith('prod'):
            raise Unsupported('assignment of mixed tuple')
        env[t.id] = tv
        return pre + ['let %s : %s := %s' % (t.id, LEAN_TY[tv], v)] + cont(env)
    if isinstance(s, ast.AugAssign):
        if not isinstance(s.target, ast.Name):
            raise Unsupported('augmented target')
        e = ast.BinOp(left=ast.Name(id=s.target.id, ctx=ast.Load()), op=s.op, right=s.value)
        v, tv, pre = tr_expr(cx, env, e)
        env[s.target.id] = tv
        return pre + ['let %s : %s := %s' % (s.target.id, LEAN_TY[tv], v)] + cont(env)
    if isinstance(s, ast.If):
        c, tc, pre = tr_expr(cx, env, s.test)
        c = as_bool(c, tc)
        ta, tb = terminates(s.body), terminates(s.orelse)
        if ta and tb:
            a = tr_block(cx, env, s.body, ret_ty, None)
            b = tr_block(cx, env, s.orelse, ret_ty, None)
            return pre + ['if %s then do' % c] + ind(a) + ['else do'] + ind(b)
        if ta or tb or has_return(s.body) or has_return(s.orelse):
            # a branch leaves the function: the rest goes into the branch(es) that fall through
            a = tr_block(cx, env, s.body, ret_ty, None if ta else (lambda e2: tr_block(cx, e2, rest, ret_ty, tail)))
            b = tr_block(cx, env, s.orelse, ret_ty, None if tb else (lambda e2: tr_block(cx, e2, rest, ret_ty, tail)))
            return pre + ['if %s then do' % c] + ind(a) + ['else do'] + ind(b)
        # both fall through (raise allowed inside): join on the assigned variables
        vs = assigned([s])
        env_a = branch_env(cx, env, s.body)
        env_b = branch_env(cx, env, s.orelse)
        joined = []
        for n in vs:
            ta_ = env_a.get(n)
            tb_ = env_b.get(n)
            if ta_ is None or tb_ is None:
                # assigned on one branch only and not defined before: local to that branch; it stays
                # unbound afterwards, so a later read is refused (Unsupported: unbound name)
                env.pop(n, None)
                continue
            if ta_ != tb_:
                raise Unsupported('variable %s has two types' % n)
            env[n] = ta_
            joined.append(n)
        vs = joined
        if not vs:
            a = tr_block(cx, env, s.body, ret_ty, lambda e2: ['pure ()'])
            b = tr_block(cx, env, s.orelse, ret_ty, lambda e2: ['pure ()'])
            return pre + ['(if %s then do' % c] + ind(a) + ['else do'] + ind(b) + [' : Py.M Unit)'] + cont(env)
        fin = lambda e2: ['pure %s' % tup_of(vs)]
        a = tr_block(cx, env, s.body, ret_ty, fin)
        b = tr_block(cx, env, s.orelse, ret_ty, fin)
        return (pre + ['let %s ← (if %s then do' % (tup_of(vs), c)] + ind(a, 4) + ['  else do'] + ind(b, 4)
                + ['  : Py.M (%s))' % ty_of(env, vs)] + cont(env))
    if (isinstance(s, ast.Try) and len(s.handlers) == 1 and not s.finalbody and s.handlers[0].name is None
            and (dotted(s.handlers[0].type) or '').split('.')[-1] in cx.spec.get('catch', []) and not assigned(s.body)):
        # try: <calls, no assignment> / except <library error class>: H / else: E  -  the body runs under tryCatch and
        # answers whether it got through; H or E then run as ordinary code (they may `continue`, `return`, `raise`)
        cls = dotted(s.handlers[0].type).split('.')[-1]
        a = tr_block(cx, env, s.body, ret_ty, lambda e2: ['pure true'])
        r_ = cx.tmp()
        h = tr_block(cx, env, s.handlers[0].body, ret_ty, lambda e2: tr_block(cx, e2, rest, ret_ty, tail))
        e_ = tr_block(cx, env, s.orelse, ret_ty, lambda e2: tr_block(cx, e2, rest, ret_ty, tail))
        return (['let %s ← tryCatch (do' % r_] + ind(a, 4) + ['  : Py.M Bool)',
                '  (fun e_ => if e_ = Py.PyErr.lib "%s" then pure false else throw e_)' % cls,
                'if %s then do' % r_] + ind(e_) + ['else do'] + ind(h))
    if isinstance(s, ast.Try):
        if (len(s.handlers) != 1 or s.orelse or s.finalbody or dotted(s.handlers[0].type) != 'IndexError'
                or s.handlers[0].name is not None):
            raise Unsupported('try statement other than try/except IndexError')
        if has_return(s.body) or has_return(s.handlers[0].body):
            raise Unsupported('return inside try')
        vs = assigned(s.body)
        env_a = branch_env(cx, env, s.body)
        for n in vs:
            env[n] = env_a[n]
        fin = lambda e2: ['pure %s' % tup_of(vs)] if vs else ['pure ()']
        a = tr_block(cx, env, s.body, ret_ty, fin)
        h = tr_block(cx, env, s.handlers[0].body, ret_ty, fin)
        head = ('let %s ← ' % tup_of(vs)) if vs else ''
        return ([head + 'tryCatch (do'] + ind(a, 4) + ['  : Py.M (%s))' % ty_of(env, vs),
                '  (fun e_ => if e_ = Py.PyErr.indexError then do'] + ind(h, 6) + ['    else throw e_)'] + cont(env))
    if isinstance(s, (ast.While, ast.For)):
        if s.orelse:
            raise Unsupported('loop else')
        early = False
        tail_break = None
        after_break = []
        if isinstance(s, ast.While):
            for bi, bst in enumerate(s.body):
                if (isinstance(bst, ast.If) and not bst.orelse and len(bst.body) == 1 and isinstance(bst.body[0], ast.Break)):
                    # `while c: A; if d: break; B` (one break, at the top level of the body): after A leave the loop when d
                    # holds, else do B and go round again
                    tail_break = bst.test
                    after_break = list(s.body[bi + 1:])
                    s = ast.While(test=s.test, body=list(s.body[:bi]) + after_break, orelse=s.orelse)
                    n_before = bi
                    break
        for n in ast.walk(s):
            if isinstance(n, ast.Break) or (isinstance(n, ast.Continue) and not isinstance(s, ast.For)):
                raise Unsupported('break/continue inside a loop')
            if isinstance(n, ast.Return):
                if not isinstance(s, ast.For) or cx.ret_in_loop:
                    raise Unsupported('return inside a while loop / nested loops')
                early = True
        cx.nloop += 1
        k = cx.nloop
        fname = '%s_loop%d' % (cx.kname, k)
        body_assigned = assigned(s.body)
        threaded = [n for n in body_assigned if n in env]
        isfor = isinstance(s, ast.For)
        idxvar = None
        if isfor:
            it_expr = s.iter
            if (isinstance(s.iter, ast.Call) and isinstance(s.iter.func, ast.Name) and s.iter.func.id == 'enumerate'
                    and len(s.iter.args) == 1 and not s.iter.keywords and isinstance(s.target, ast.Tuple)
                    and len(s.target.elts) == 2 and all(isinstance(x, ast.Name) for x in s.target.elts)):
                idxvar, loopvar = s.target.elts[0].id, s.target.elts[1].id
                it_expr = s.iter.args[0]
            elif isinstance(s.target, ast.Name):
                loopvar = s.target.id
            else:
                raise Unsupported('for target')
            it, tit, pre = tr_expr(cx, env, it_expr)
            if tit not in ('tup', 'tups'):
                raise Unsupported('for over %s' % tit)
            elem_ty = 'int' if tit == 'tup' else 'tup'
            threaded = [n for n in threaded if n not in (loopvar, idxvar)]
        else:
            pre = []
        reads = names_read(s)
        consts = []
        for n in reads:
            if n in env and n not in threaded and n not in consts and not (isfor and n in (loopvar, idxvar)):
                consts.append(n)
        env_in = dict(env)
        if isfor:
            env_in[loopvar] = elem_ty
            if idxvar:
                env_in[idxvar] = 'int'
        rec_args = ' '.join(consts)
        sig_consts = ' «SIG:%s»' % fname + ''.join(' (%s : %s)' % (n, LEAN_TY[env[n]]) for n in consts)
        rec_args = '«ARGS:%s» ' % fname + rec_args
        ret = ty_of(env, threaded)
        pats = ', '.join(threaded)
        if isfor:
            idx_arg = (' (%s + 1)' % idxvar) if idxvar else ''
            rec = lambda e2: ['%s %s rest_%s %s' % (fname, rec_args, idx_arg, ' '.join(threaded))]
            if early:
                cx.ret_in_loop = True
            cx.loop_rec.append(rec)
            try:
                body = tr_block(cx, env_in, s.body, ret_ty, rec)
            finally:
                cx.ret_in_loop = False
                cx.loop_rec.pop()
            exit_v = tup_of(threaded) if threaded else '()'
            if early:
                ret = 'Sum (%s) (%s)' % (ret_ty, ret)
                exit_v = 'Sum.inr %s' % exit_v
            aux = ['def %s%s : %s → %s%sPy.M (%s)' % (fname, sig_consts, 'Py.Tup' if elem_ty == 'int' else 'List Py.Tup',
                                                     'Int → ' if idxvar else '',
                                                     ''.join(LEAN_TY[env[n]] + ' → ' for n in threaded), ret),
                   '  | []%s%s => pure (%s)' % (', _' if idxvar else '', ''.join(', ' + n for n in threaded), exit_v),
                   '  | %s :: rest_%s%s => do' % (loopvar, (', ' + idxvar) if idxvar else '', ''.join(', ' + n for n in threaded))] + ind(body, 4)
            call = '%s %s %s%s %s' % (fname, rec_args, it, ' (0 : Int)' if idxvar else '', ' '.join(threaded))
        else:
            c, tc, pc = tr_expr(cx, env_in, s.test)
            c = as_bool(c, tc)
            rec = lambda e2: ['%s %s fuel_ %s' % (fname, rec_args, ' '.join(threaded))]
            if tail_break is not None:
                rec_plain = rec

                def rec(e2, _thr=threaded, _after=after_break):
                    d, td, pd = tr_expr(cx, e2, tail_break)
                    rest_ = tr_block(cx, e2, _after, ret_ty, rec_plain)
                    return pd + ['if %s then pure %s' % (as_bool(d, td), tup_of(_thr) if _thr else '()'), 'else do'] + ind(rest_)
                body = tr_block(cx, env_in, s.body[:n_before], ret_ty, rec)
            else:
                body = tr_block(cx, env_in, s.body, ret_ty, rec)
            if pc:
                # the condition reads the tuple (may raise IndexError): evaluated inside the loop function
                aux = ['def %s%s : Nat → %sPy.M (%s)' % (fname, sig_consts, ''.join(LEAN_TY[env[n]] + ' → ' for n in threaded), ret),
                       '  | 0%s => throw Py.PyErr.fuel' % ''.join(', _' for n in threaded),
                       '  | fuel_ + 1%s => do' % ''.join(', ' + n for n in threaded)] + ind(pc, 4) + [
                       '    if %s then do' % c] + ind(body, 6) + ['    else pure %s' % (tup_of(threaded) if threaded else '()')]
            else:
                aux = ['def %s%s : Nat → %sPy.M (%s)' % (fname, sig_consts, ''.join(LEAN_TY[env[n]] + ' → ' for n in threaded), ret),
                       '  | 0%s => throw Py.PyErr.fuel' % ''.join(', _' for n in threaded),
                       '  | fuel_ + 1%s =>' % ''.join(', ' + n for n in threaded),
                       '    if %s then do' % c] + ind(body, 6) + ['    else pure %s' % (tup_of(threaded) if threaded else '()')]
            if not cx.fuels:
                raise Unsupported('no fuel expression given for loop %d' % k)
            fuel = cx.fuels.pop(0)
            call = '%s %s (%s) %s' % (fname, rec_args, fuel, ' '.join(threaded))
        cx.aux.append('\n'.join(aux))
        # types after the loop: threaded variables keep their types
        if isfor and early:
            r_ = cx.tmp()
            return (pre + ['let %s ← %s' % (r_, call), 'match %s with' % r_, '| .inl v_ => pure v_',
                           '| .inr %s => do' % (tup_of(threaded) if threaded else '_')] + ind(cont(env)))
        head = ('let %s ← ' % tup_of(threaded)) if threaded else ''
        return pre + [head + call] + cont(env)
    raise Unsupported('statement %s' % unparse(s).splitlines()[0])


def branch_env(cx, env, stmts):
    """types of the variables after a block (dry run of the translation on a scratch context)"""
    scratch = Ctx(cx.kname, cx.spec, cx.consts)
    scratch.nloop = 1000
    scratch.fuels = ['0'] * 10
    out = {}

    def fin(e2):
        out.update(e2)
        return ['pure ()']
    try:
        tr_block(scratch, env, stmts, None, fin)
    except Unsupported:
        raise
    if not out:
        out.update(env)
    return out


# ---------------------------------------------------------------- kernels

def descend(body, steps, keep_prefix=False):
    """steps: [[<test source>, 'body' | 'orelse'], ...] - walk into the named branch of the `if` with that test; with
    keep_prefix the statements before that `if` stay in front (the straight-line path into the branch)"""
    for test, take in steps:
        found = None
        kind = ast.If
        if test.startswith('while:'):
            kind, test = ast.While, test[6:]
        for st in body:
            if isinstance(st, kind) and unparse(st.test).strip() == test.strip():
                found = st
                break
        if found is None:
            raise Unsupported('no `%s %s` where the kernel is expected' % ('if' if kind is ast.If else 'while', test))
        body = (body[:body.index(found)] if keep_prefix else []) + list(found.body if take == 'body' else found.orelse)
    return body


class StreamReads(ast.NodeTransformer):
    """`for V in readFromStream(<stream>, N, options): if isinstance(V, SubstrateUnderrunError): yield V`
    (the decoder's way of asking the stream for N octets, handing an underrun to the caller) becomes
    `V = __readN(<stream>, pos_, N); pos_ = pos_ + N` over the octets of the complete input: `Py.readN` raises
    SubstrateUnderrunError when fewer than N octets are left, which is what the one-shot decoder turns a yielded
    underrun into."""

    def __init__(self, stream):
        self.stream = stream

    def rewrite(self, body):
        out = []
        for st in body:
            r = self.visit(st)
            out.extend(r if isinstance(r, list) else [r])
        return out

    def generic_visit(self, node):
        for field in ('body', 'orelse'):
            v = getattr(node, field, None)
            if isinstance(v, list):
                setattr(node, field, self.rewrite(v))
        for h in getattr(node, 'handlers', []) or []:
            h.body = self.rewrite(h.body)
        return node

    def visit_Expr(self, node):
        # `<stream>.seek(p, os.SEEK_SET)` as a statement: the position becomes p
        c = node.value
        if (isinstance(c, ast.Call) and isinstance(c.func, ast.Attribute) and c.func.attr == 'seek' and isinstance(c.func.value, ast.Name)
                and c.func.value.id == self.stream and len(c.args) == 2 and not c.keywords and unparse(c.args[1]).strip() == 'os.SEEK_SET'):
            return ast.parse('pos_ = %s' % unparse(c.args[0])).body
        return node

    def visit_For(self, node):
        it = node.iter
        if (isinstance(it, ast.Call) and isinstance(it.func, ast.Name) and it.func.id == 'readFromStream' and len(it.args) == 3
                and isinstance(it.args[0], ast.Name) and it.args[0].id == self.stream and isinstance(node.target, ast.Name)
                and not node.orelse and len(node.body) == 1 and unparse(node.body[0]).strip() ==
                'if isinstance(%s, SubstrateUnderrunError):\n    yield %s' % (node.target.id, node.target.id)):
            v = node.target.id
            n = unparse(it.args[1])
            return ast.parse('%s = __readN(%s, pos_, %s)\npos_ = pos_ + %s' % (v, self.stream, n, n)).body
        return self.generic_visit(node)


class OneTurn(ast.NodeTransformer):
    def __init__(self, value_name):
        self.value_name = value_name

    def rewrite(self, body):
        out = []
        for st in body:
            r = self.visit(st)
            out.extend(r if isinstance(r, list) else [r])
        return out

    def generic_visit(self, node):
        if isinstance(node, (ast.While, ast.For)):
            return node                       # a `break` inside an inner loop belongs to that loop
        for field in ('body', 'orelse'):
            v = getattr(node, field, None)
            if isinstance(v, list):
                setattr(node, field, self.rewrite(v))
        return node

    def visit_Expr(self, node):
        if isinstance(node.value, ast.Yield) and 'SubstrateUnderrunError' in unparse(node.value):
            return ast.Return(value=ast.Constant(value=None))
        if isinstance(node.value, ast.Yield) and node.value.value is not None:
            return ast.Return(value=node.value.value)          # the generator's last word: the turn answers it
        return node

    def visit_Continue(self, node):
        return ast.Pass()                     # after a handed-out underrun the loop comes round again: the turn is over

    def inline_loops(self, body):
        """`while True: A; break` at the top level of the block (a retry loop around one attempt): the attempt, once"""
        out = []
        for st in body:
            if (isinstance(st, ast.While) and unparse(st.test) == 'True' and st.body and isinstance(st.body[-1], ast.Break)
                    and not st.orelse):
                out.extend(st.body[:-1])
            else:
                out.append(st)
        return out

    def visit_Break(self, node):
        return ast.Return(value=ast.Name(id=self.value_name, ctx=ast.Load()))


def slice_body(fn, spec):
    body = list(fn.body)
    if 'block' in spec:
        body = descend(body, spec['block'], spec.get('block_keep_prefix', False))
    if 'inline_except' in spec:
        # `try: x = cache[k] / except KeyError: <compute x>`: the handler is what computes; the cache is memoisation
        out = []
        for st in body:
            if (isinstance(st, ast.Try) and len(st.handlers) == 1 and dotted(st.handlers[0].type) == spec['inline_except']
                    and not st.orelse and not st.finalbody):
                out.extend(st.handlers[0].body)
            else:
                out.append(st)
        body = out
    if 'stream' in spec:
        body = [ast.parse('pos_ = %s' % spec.get('stream_pos', '0')).body[0]] + StreamReads(spec['stream']).rewrite(body)
    if 'iteration' in spec:
        # one turn of a generator's `while True:` loop: `yield <underrun>` hands the underrun out and the loop comes round again
        # (the next turn starts from the same code) - the turn answers None; `break` leaves the loop for the final
        # `yield <value>` - the turn answers that value
        ot = OneTurn(spec['iteration'])
        body = ot.rewrite(ot.inline_loops(body))
    if 'after' in spec:
        idx = None
        for i, s in enumerate(body):
            if unparse(s).strip() == spec['after'].strip():
                idx = i
        if idx is None:
            raise Unsupported('marker statement %r not found' % spec['after'])
        body = body[idx + 1:]
    if 'before' in spec:
        idx = None
        for i, s in enumerate(body):
            if unparse(s).strip().startswith(spec['before'].strip()):
                idx = i
                break
        if idx is None:
            raise Unsupported('marker statement %r not found' % spec['before'])
        body = body[:idx]
    if 'return_arg' in spec:
        # the function ends by handing a computed value on to another one (`return Base._createComponent(self, asn1Spec,
        # tagSet, <value>, **options)`): the kernel is that value - the argument at the declared position of the declared callee
        last = body[-1] if body else None
        callee, pos = spec['return_arg']
        if not (isinstance(last, ast.Return) and isinstance(last.value, ast.Call) and dotted(last.value.func) == callee
                and len(last.value.args) > pos):
            raise Unsupported('the function does not end in `return %s(...)` with %d positional arguments' % (callee, pos + 1))
        body[-1] = ast.Return(value=last.value.args[pos])
    if 'result' in spec:
        body.append(ast.Return(value=ast.parse(spec['result'], mode='eval').body))
    return body


def module_consts(spec):
    out = {}
    for dn, modname in spec.get('consts', {}).items():
        mod = importlib.import_module(modname)
        v = getattr(mod, dn.split('.')[-1])
        if not isinstance(v, int):
            raise Unsupported('constant %s is not an int' % dn)
        out[dn] = v
    return out


def translate(spec):
    src = open(os.path.join(REPO, spec['file'])).read()
    tree = ast.parse(src)
    fn = find_function(tree, spec['path'])
    if not isinstance(fn, ast.FunctionDef):
        raise Unsupported('%s is not a function' % spec['path'])
    cx = Ctx(spec['name'], spec, module_consts(spec))
    env = {}
    params = []
    for p, t in spec['params']:
        env[p] = t
        params.append((p, t))
    body = slice_body(fn, spec)
    STATE_ATTRS.clear()
    STATE_ATTRS.update(spec.get('state', {}))
    STATE_CALLS.clear()
    for k_, info_ in spec.get('stateful_calls', {}).items():
        STATE_CALLS[k_] = ['self_' + ast.parse(x_, mode='eval').body.attr for x_ in info_['state']]
    for a_, t_ in spec.get('state', {}).items():
        env['self_' + a_] = t_
        params.append(('self_' + a_, t_))
    STREAM_NAMES.clear()
    STREAM_NAMES.update(spec.get('streams', {}))
    if (spec.get('state_out') or spec.get('state_out_names')) and not terminates(body):
        body = body + [ast.Return(value=None)]
    digest = hashlib.sha256('\n'.join(ast.dump(s) for s in body).encode()).hexdigest()[:16]
    lines = tr_block(cx, env, body, spec['returns'], None)
    selfp = sorted(cx.self_params.items()) + sorted(cx.expr_params.items())
    sig = ''.join(' (%s : %s)' % (n, LEAN_TY[t]) for n, t in selfp) + ''.join(' (%s : %s)' % (p, LEAN_TY[t]) for p, t in params)
    # self/expression parameters used inside an auxiliary (loop) definition - directly or through another auxiliary it
    # calls - are passed to it explicitly
    import re as _re
    extra = dict(selfp)
    names = [_re.search(r'def (\S+)', a).group(1) for a in cx.aux]
    uses = {}
    for nm, a in zip(names, cx.aux):
        uses[nm] = [p_ for p_ in extra if _re.search(r'(?<![\w.])%s(?![\w])' % _re.escape(p_), a)]
    changed = True
    while changed:
        changed = False
        for nm, a in zip(names, cx.aux):
            for other in names:
                if other != nm and ('«ARGS:%s»' % other) in a:
                    for p_ in uses[other]:
                        if p_ not in uses[nm]:
                            uses[nm].append(p_)
                            changed = True

    def fill(txt):
        for nm in names:
            ps = sorted(uses[nm])
            txt = txt.replace(' «SIG:%s»' % nm, ''.join(' (%s : %s)' % (p_, LEAN_TY[extra[p_]]) for p_ in ps))
            txt = txt.replace('«ARGS:%s» ' % nm, ''.join(p_ + ' ' for p_ in ps))
        return txt
    cx.aux = [fill(a) for a in cx.aux]
    lines = [fill(l) for l in lines]
    text = '\n\n'.join(cx.aux)
    if text:
        text += '\n\n'
    text += '/-- translated from %s :: %s (source digest %s) -/\n' % (spec['file'], '.'.join(spec['path']), digest)
    text += 'def %s%s : Py.M (%s) := do\n' % (spec['name'], sig, spec['returns']) + '\n'.join(ind(lines))
    return text, digest, sig


def main():
    sys.path.insert(0, REPO)
    specs = json.load(open(SPEC))
    out = ['/-', '  GENERATED by gen/py2lean.py from the source tree of pyasn1 - do not edit.',
           '  Each definition is the translation of the named function body as it is in the working tree now.', '-/',
           'import Asn1.PyLite', '', 'set_option linter.unusedVariables false', '', 'namespace Asn1.GenK', '']
    status = {}
    sig_file = os.path.join(VERIF, 'gen', 'kernel_sigs.json')
    sigs = json.load(open(sig_file)) if os.path.exists(sig_file) else {}
    sigs0 = dict(sigs)
    for spec in specs:
        try:
            text, digest, sig = translate(spec)
            out.append(text)
            out.append('')
            status[spec['name']] = {'ok': True, 'digest': digest}
            sigs[spec['name']] = sig
        except Unsupported as e:
            out.append('/- kernel %s: the source is outside the translated subset: %s -/' % (spec['name'], str(e).replace('-/', '- /')))
            if spec['name'] in sigs:
                # a placeholder with the signature the kernel had when it last translated, so that what does not depend on
                # this kernel (the driver, the other kernels' theorems) still builds; the theorems about this kernel do not
                # (they mention its auxiliary definitions, and are false of the placeholder), and the driver answers
                # UNTRANSLATED for it
                out.append('def %s%s : Py.M (%s) := throw (Py.PyErr.lib "UNTRANSLATED")' % (spec['name'], sigs[spec['name']], spec['returns']))
            out.append('')
            status[spec['name']] = {'ok': False, 'why': str(e)}
    if sigs != sigs0 and not os.environ.get('VERIF_REPO'):
        json.dump(sigs, open(sig_file, 'w'), indent=1, sort_keys=True)
    out.append('/-- names of the kernels whose source could be translated in this run -/')
    out.append('def translated : List String := [%s]' % ', '.join('"%s"' % k for k, v in status.items() if v['ok']))
    out.append('')
    out.append('end Asn1.GenK')
    text = '\n'.join(out) + '\n'
    old = open(OUT).read() if os.path.exists(OUT) else None
    if old != text:
        open(OUT, 'w').write(text)
    print(json.dumps({'changed': old != text, 'kernels': status}))


if __name__ == '__main__':
    main()
