/-
  Proofs.Constraint — the evaluator of Asn1.Constraint agrees with the set-theoretic denotation
  wherever no Python type error is involved, and applicable constraints never hit one.
-/
import Asn1.Constraint

namespace Asn1.Constraint

/-! ### leaf tests -/

theorem inSet_sound (s : List Atom) (v : CVal) (h : inSet s v ≠ .leak) :
    inSet s v = .accept ↔ ∃ a, v = .atom a ∧ a ∈ s := by
  cases v with
  | atom a =>
    by_cases ha : a ∈ s <;> simp [inSet, ha]
  | coll _ => simp [inSet] at h
  | record _ => simp [inSet] at h

theorem inRange_sound (lo hi : Int) (v : CVal) (h : inRange lo hi v ≠ .leak) :
    inRange lo hi v = .accept ↔ ∃ z, v = .atom (.int z) ∧ lo ≤ z ∧ z ≤ hi := by
  cases v with
  | atom a =>
    cases a with
    | int z =>
      by_cases hz : z < lo ∨ z > hi
      · simp only [inRange, hz, if_true]
        constructor
        · intro h'; cases h'
        · rintro ⟨z', hz', h1, h2⟩
          cases hz'
          omega
      · simp only [inRange, hz, if_false, true_iff]
        exact ⟨z, rfl, by omega, by omega⟩
    | str _ => simp [inRange] at h
    | bytes _ => simp [inRange] at h
    | none => simp [inRange] at h
  | coll _ => simp [inRange] at h
  | record _ => simp [inRange] at h

theorem inSize_sound (lo hi : Int) (v : CVal) (h : inSize lo hi v ≠ .leak) :
    inSize lo hi v = .accept ↔ ∃ n : Nat, v.len = some n ∧ lo ≤ (n : Int) ∧ (n : Int) ≤ hi := by
  unfold inSize at h ⊢
  cases hl : v.len with
  | none => simp [hl] at h
  | some n =>
    by_cases hz : (n : Int) < lo ∨ (n : Int) > hi
    · simp only [hz, if_true]
      constructor
      · intro h'; cases h'
      · rintro ⟨n', hn', h1, h2⟩
        cases hn'
        omega
    · simp only [hz, if_false, true_iff]
      exact ⟨n, rfl, by omega, by omega⟩

theorem inAlphabet_sound (s : List Atom) (v : CVal) (h : inAlphabet s v ≠ .leak) :
    inAlphabet s v = .accept ↔ ∃ es, v.elems = some es ∧ ∀ e ∈ es, e ∈ s := by
  unfold inAlphabet at h ⊢
  cases hl : v.elems with
  | none => simp [hl] at h
  | some es =>
    by_cases ha : es.all (fun e => decide (e ∈ s)) = true
    · simp only [ha, if_true, true_iff]
      refine ⟨es, rfl, ?_⟩
      intro e he
      have := List.all_eq_true.mp ha e he
      simpa using this
    · simp only [ha]
      constructor
      · intro h'; cases h'
      · rintro ⟨es', hes', hall⟩
        cases hes'
        exfalso
        apply ha
        apply List.all_eq_true.mpr
        intro e he
        simpa using hall e he

theorem isNil_iff (ops : Ops) : ops.isNil = true ↔ ops = .nil := by
  cases ops <;> simp [Ops.isNil]

theorem shortcut_sound {ops : Ops} {r : Res} {P : Prop}
    (h : (if ops.isNil = true then Res.accept else r) ≠ .leak)
    (hr : r ≠ .leak → (r = .accept ↔ P)) :
    (if ops.isNil = true then Res.accept else r) = .accept ↔ (ops = .nil ∨ P) := by
  cases hn : ops.isNil with
  | true =>
    have := (isNil_iff ops).mp hn
    simp [this]
  | false =>
    have hne : ops ≠ .nil := fun e => by rw [e] at hn; simp [Ops.isNil] at hn
    simp only [hn, Bool.false_eq_true, if_false] at h ⊢
    rw [hr h]
    simp [hne]

/-! ### the evaluator against the denotation -/

mutual
theorem run_sound : ∀ (c : Constr) (i : Option Nat) (v : CVal),
    run c i v ≠ .leak → (run c i v = .accept ↔ den c i v)
  | .mk k ops, i, v, h => by
    cases k with
    | componentPresent =>
      simp only [run, den]
      by_cases hv : v = .atom .none <;> simp [hv]
    | componentAbsent =>
      simp only [run, den]
      by_cases hv : v = .atom .none <;> simp [hv]
    | singleValue =>
      simp only [run, den] at h ⊢
      exact shortcut_sound h (fun h' => inSet_sound _ _ h')
    | permittedAlphabet =>
      simp only [run, den] at h ⊢
      exact shortcut_sound h (fun h' => inAlphabet_sound _ _ h')
    | valueRange =>
      simp only [run, den] at h ⊢
      cases hb : bounds ops with
      | none => simp [hb] at h
      | some p =>
        obtain ⟨lo, hi⟩ := p
        simp only [hb] at h ⊢
        rw [inRange_sound _ _ _ h]
        constructor
        · rintro ⟨z, hz, h1, h2⟩
          exact ⟨lo, hi, z, rfl, hz, h1, h2⟩
        · rintro ⟨lo', hi', z, hb', hz, h1, h2⟩
          cases hb'
          exact ⟨z, hz, h1, h2⟩
    | valueSize =>
      simp only [run, den] at h ⊢
      cases hb : bounds ops with
      | none => simp [hb] at h
      | some p =>
        obtain ⟨lo, hi⟩ := p
        simp only [hb] at h ⊢
        rw [inSize_sound _ _ _ h]
        constructor
        · rintro ⟨n, hn, h1, h2⟩
          exact ⟨lo, hi, n, rfl, hn, h1, h2⟩
        · rintro ⟨lo', hi', n, hb', hn, h1, h2⟩
          cases hb'
          exact ⟨n, hn, h1, h2⟩
    | containedSubtype =>
      simp only [run, den] at h ⊢
      exact shortcut_sound h (fun h' => runAll_sound ops _ i v h')
    | intersection =>
      simp only [run, den] at h ⊢
      exact shortcut_sound h (fun h' => runAll_sound ops _ i v h')
    | union =>
      simp only [run, den] at h ⊢
      exact shortcut_sound h (fun h' => runAny_sound ops i v h')
    | exclusion =>
      simp only [run, den] at h ⊢
      exact shortcut_sound h (fun h' => runNone_sound ops i v h')
    | withComponents =>
      simp only [run, den] at h ⊢
      exact shortcut_sound h (fun h' => runFields_sound ops v h')
    | innerType =>
      simp only [run, den] at h ⊢
      refine shortcut_sound h (fun h' => ?_)
      by_cases hl : lastConTruthy ops = true
      · simp only [if_pos hl] at h' ⊢
        exact runLastCon_sound ops v h'
      · simp only [if_neg hl] at h' ⊢
        by_cases he : ops.hasEntry = true
        · simp only [if_pos he] at h' ⊢
          cases i with
          | none => simp
          | some j =>
            simp only at h' ⊢
            rw [runEntry_sound ops j v h']
            simp
        · simp only [if_neg he]
theorem runAll_sound : ∀ (ops : Ops) (s : List Atom) (i : Option Nat) (v : CVal),
    runAll ops s i v ≠ .leak → (runAll ops s i v = .accept ↔ denAll ops s i v)
  | .nil, s, i, v, _ => by simp [runAll, denAll]
  | .con c rest, s, i, v, h => by
    simp only [runAll, denAll] at h ⊢
    cases hr : run c i v with
    | accept =>
      simp only [hr] at h ⊢
      have hc := (run_sound c i v (by simp [hr])).mp hr
      rw [runAll_sound rest s i v h]
      simp [hc]
    | reject =>
      have hc : ¬ den c i v := fun hd => by
        have := (run_sound c i v (by simp [hr])).mpr hd
        simp [hr] at this
      simp [hc]
    | leak => simp [hr] at h
  | .raw _ rest, s, i, v, h => by
    simp only [runAll, denAll] at h ⊢
    cases hr : inSet s v with
    | accept =>
      simp only [hr] at h ⊢
      have hc := (inSet_sound s v (by simp [hr])).mp hr
      rw [runAll_sound rest s i v h]
      simp [hc]
    | reject =>
      have hc : ¬ ∃ a, v = .atom a ∧ a ∈ s := fun hd => by
        have := (inSet_sound s v (by simp [hr])).mpr hd
        simp [hr] at this
      simp [hc]
    | leak => simp [hr] at h
  | .field _ _ _, s, i, v, h => by simp [runAll] at h
  | .entry _ _ _ _, s, i, v, h => by simp [runAll] at h
theorem runAny_sound : ∀ (ops : Ops) (i : Option Nat) (v : CVal),
    runAny ops i v ≠ .leak → (runAny ops i v = .accept ↔ denAny ops i v)
  | .nil, i, v, _ => by simp [runAny, denAny]
  | .con c rest, i, v, h => by
    simp only [runAny, denAny] at h ⊢
    cases hr : run c i v with
    | accept =>
      have hc := (run_sound c i v (by simp [hr])).mp hr
      simp [hc]
    | reject =>
      simp only [hr] at h ⊢
      have hc : ¬ den c i v := fun hd => by
        have := (run_sound c i v (by simp [hr])).mpr hd
        simp [hr] at this
      rw [runAny_sound rest i v h]
      simp [hc]
    | leak => simp [hr] at h
  | .raw _ _, i, v, h => by simp [runAny] at h
  | .field _ _ _, i, v, h => by simp [runAny] at h
  | .entry _ _ _ _, i, v, h => by simp [runAny] at h
theorem runNone_sound : ∀ (ops : Ops) (i : Option Nat) (v : CVal),
    runNone ops i v ≠ .leak → (runNone ops i v = .accept ↔ ¬ denAny ops i v)
  | .nil, i, v, _ => by simp [runNone, denAny]
  | .con c rest, i, v, h => by
    simp only [runNone, denAny] at h ⊢
    cases hr : run c i v with
    | accept =>
      have hc := (run_sound c i v (by simp [hr])).mp hr
      simp [hc]
    | reject =>
      simp only [hr] at h ⊢
      have hc : ¬ den c i v := fun hd => by
        have := (run_sound c i v (by simp [hr])).mpr hd
        simp [hr] at this
      rw [runNone_sound rest i v h]
      simp [hc]
    | leak => simp [hr] at h
  | .raw _ _, i, v, h => by simp [runNone] at h
  | .field _ _ _, i, v, h => by simp [runNone] at h
  | .entry _ _ _ _, i, v, h => by simp [runNone] at h
theorem runFields_sound : ∀ (ops : Ops) (v : CVal),
    runFields ops v ≠ .leak → (runFields ops v = .accept ↔ denFields ops v)
  | .nil, v, _ => by simp [runFields, denFields]
  | .field f c rest, v, h => by
    simp only [runFields, denFields] at h ⊢
    cases hg : v.get f with
    | none => simp [hg] at h
    | some x =>
      simp only [hg] at h ⊢
      cases hr : run c none x with
      | accept =>
        simp only [hr] at h ⊢
        have hc := (run_sound c none x (by simp [hr])).mp hr
        rw [runFields_sound rest v h]
        simp [hc]
      | reject =>
        have hc : ¬ den c none x := fun hd => by
          have := (run_sound c none x (by simp [hr])).mpr hd
          simp [hr] at this
        simp [hc]
      | leak => simp [hr] at h
  | .con _ _, v, h => by simp [runFields] at h
  | .raw _ _, v, h => by simp [runFields] at h
  | .entry _ _ _ _, v, h => by simp [runFields] at h
theorem runLastCon_sound : ∀ (ops : Ops) (v : CVal),
    runLastCon ops v ≠ .leak → (runLastCon ops v = .accept ↔ denLastCon ops v)
  | .nil, v, _ => by simp [runLastCon, denLastCon]
  | .con c rest, v, h => by
    simp only [runLastCon, denLastCon] at h ⊢
    by_cases hc : rest.hasCon = true
    · simp only [hc, if_true] at h ⊢
      exact runLastCon_sound rest v h
    · simp only [hc] at h ⊢
      exact run_sound c none v h
  | .entry _ _ _ rest, v, h => by
    simp only [runLastCon, denLastCon] at h ⊢
    exact runLastCon_sound rest v h
  | .raw _ _, v, h => by simp [runLastCon] at h
  | .field _ _ _, v, h => by simp [runLastCon] at h
theorem runEntry_sound : ∀ (ops : Ops) (j : Nat) (v : CVal),
    runEntry ops j v ≠ .leak → (runEntry ops j v = .accept ↔ denEntry ops j v)
  | .nil, j, v, _ => by simp [runEntry, denEntry]
  | .entry k c ab rest, j, v, h => by
    simp only [runEntry, denEntry] at h ⊢
    by_cases hk : rest.hasKey j = true
    · simp only [hk, if_true] at h ⊢
      exact runEntry_sound rest j v h
    · simp only [hk] at h ⊢
      by_cases hkj : k = j
      · simp only [hkj, if_true, true_and] at h ⊢
        cases ab with
        | true => simp
        | false =>
          simp only [true_and] at h ⊢
          have := run_sound c none v (by simpa using h)
          simpa using this
      · simp [hkj]
  | .con _ rest, j, v, h => by
    simp only [runEntry, denEntry] at h ⊢
    exact runEntry_sound rest j v h
  | .raw _ _, j, v, h => by simp [runEntry] at h
  | .field _ _ _, j, v, h => by simp [runEntry] at h
end

end Asn1.Constraint
