/-
  Proofs.PrimRT — content octets of the primitive types: decode ∘ encode = id.
-/
import Asn1.Prim
import Asn1.Encoder
import Proofs.TagLen

namespace Asn1

/-! ### INTEGER -/

theorem intToBytes_small (z : Int) (h : -128 ≤ z ∧ z < 128) :
    intToBytes z = [UInt8.ofNat (z % 256).toNat] := by
  rw [intToBytes]; simp [h]

theorem intToBytes_big (z : Int) (h : ¬ (-128 ≤ z ∧ z < 128)) :
    intToBytes z = intToBytes (z / 256) ++ [UInt8.ofNat (z % 256).toNat] := by
  rw [intToBytes]; simp [h]

theorem intToBytes_ne_nil (z : Int) : intToBytes z ≠ [] := by
  by_cases h : -128 ≤ z ∧ z < 128
  · rw [intToBytes_small z h]; simp
  · rw [intToBytes_big z h]; simp

theorem intFromBytesAux_append (acc : Int) (bs : Bytes) (b : UInt8) :
    intFromBytesAux acc (bs ++ [b]) = intFromBytesAux acc bs * 256 + b.toNat := by
  induction bs generalizing acc with
  | nil => simp [intFromBytesAux]
  | cons x xs ih => simp [intFromBytesAux, ih]

theorem intFromBytes_append (bs : Bytes) (b : UInt8) (h : bs ≠ []) :
    intFromBytes (bs ++ [b]) = intFromBytes bs * 256 + b.toNat := by
  cases bs with
  | nil => exact absurd rfl h
  | cons x xs => simp [intFromBytes, intFromBytesAux_append]

theorem byte_of_emod (z : Int) : (UInt8.ofNat (z % 256).toNat).toNat = (z % 256).toNat := by
  apply toNat_ofNat_lt
  have := Int.emod_lt_of_pos z (by decide : (0 : Int) < 256)
  have := Int.emod_nonneg z (by decide : (256 : Int) ≠ 0)
  omega

/-- **two's complement round trip**, every integer -/
theorem intFromBytes_intToBytes (z : Int) : intFromBytes (intToBytes z) = z := by
  induction h : z.natAbs using Nat.strongRecOn generalizing z with
  | _ n ih =>
    by_cases hs : -128 ≤ z ∧ z < 128
    · rw [intToBytes_small z hs]
      simp only [intFromBytes, intFromBytesAux, byte_of_emod]
      have h1 := Int.emod_lt_of_pos z (by decide : (0 : Int) < 256)
      have h2 := Int.emod_nonneg z (by decide : (256 : Int) ≠ 0)
      split <;> omega
    · rw [intToBytes_big z hs, intFromBytes_append _ _ (intToBytes_ne_nil _)]
      have : (z / 256).natAbs < n := by omega
      rw [ih _ this _ rfl, byte_of_emod]
      have h2 := Int.emod_nonneg z (by decide : (256 : Int) ≠ 0)
      omega

/-! ### OBJECT IDENTIFIER -/

theorem encodeArc_small (n : Nat) (h : n < 128) : encodeArc n = [UInt8.ofNat n] := by
  simp [encodeArc, h]

/-- decoding the octets of one sub-identifier followed by more arcs -/
theorem decodeArcs_encodeArc (n : Nat) (rest : Bytes) :
    decodeArcs none (encodeArc n ++ rest) = (decodeArcs none rest).map (n :: ·) := by
  by_cases hs : n < 128
  · rw [encodeArc_small n hs]
    simp [decodeArcs, toNat_ofNat_lt n (by omega), hs]
  · -- multi-octet: continuation octets then a final one
    have hne : n ≠ 0 := by omega
    have hds := beDigits_lt 126 n
    have hnn := beDigits_ne_nil 126 n hne
    have hsplit := dropLast_append_getLastD (be128 n) hnn
    have hval : ofBe128 (be128 n) = n := ofBe_be 126 n
    have hhead := beDigits_head_ne_zero 126 n
    -- general statement over a digit string with non-zero head
    have key : ∀ (ds : List Nat) (d acc : Nat), (∀ x ∈ ds, x < 128) → d < 128 →
        decodeArcs (some acc) (natsToBytes (ds.map (· + 0x80)) ++ natsToBytes [d] ++ rest)
          = (decodeArcs none rest).map ((ds ++ [d]).foldl (fun a x => a * 128 + x) acc :: ·) := by
      intro ds
      induction ds with
      | nil =>
        intro d acc _ hd
        simp [natsToBytes, decodeArcs, toNat_ofNat_lt d (by omega), hd]
      | cons x xs ih =>
        intro d acc hx hd
        have hx1 : x < 128 := hx x (by simp)
        have h1 : (UInt8.ofNat (x + 128)).toNat = x + 128 := toNat_ofNat_lt _ (by omega)
        simp only [List.map_cons, natsToBytes, List.cons_append, decodeArcs, h1]
        have : ¬ (x + 128 < 128) := by omega
        simp only [this, if_false]
        have hm : (x + 128) % 128 = x := by omega
        rw [hm]
        have := ih d (acc * 128 + x) (fun y hy => hx y (by simp [hy])) hd
        simpa [natsToBytes] using this
    simp only [encodeArc, hs, if_false]
    -- first digit handled by the `none` state
    cases hbe : be128 n with
    | nil => exact absurd hbe hnn
    | cons d0 ds =>
      have hd0 : d0 < 128 := hds d0 (by rw [show be128 n = beDigits 126 n from rfl] at hbe; rw [hbe]; simp)
      have hd0ne : d0 ≠ 0 := by
        intro h0
        apply hhead
        rw [show beDigits 126 n = be128 n from rfl, hbe, h0]; rfl
      cases ds with
      | nil =>
        -- a single digit ≥ 128 is impossible
        rw [hbe] at hval
        simp [ofBe128, ofBeDigits] at hval
        omega
      | cons d1 ds' =>
        have hall : ∀ x ∈ d1 :: ds', x < 128 := fun x hx => hds x (by
          rw [show beDigits 126 n = be128 n from rfl, hbe]; simp [List.mem_cons] at hx ⊢; right; exact hx)
        have hlast : (d0 :: d1 :: ds').getLastD 0 = (d1 :: ds').getLastD 0 := by simp
        have hdrop : (d0 :: d1 :: ds').dropLast = d0 :: (d1 :: ds').dropLast := by simp
        rw [hlast, hdrop]
        simp only [List.map_cons, natsToBytes, List.cons_append]
        have h1 : (UInt8.ofNat (d0 + 128)).toNat = d0 + 128 := toNat_ofNat_lt _ (by omega)
        simp only [decodeArcs, h1]
        have a1 : ¬ (d0 + 128 < 128) := by omega
        have a2 : ¬ (d0 + 128 = 128) := by omega
        simp only [a1, a2, if_false]
        have hm : (d0 + 128) % 128 = d0 := by omega
        rw [hm]
        have hlt : (d1 :: ds').getLastD 0 < 128 := by
          apply hall
          have := dropLast_append_getLastD (d1 :: ds') (by simp)
          rw [← this]; simp
        have hdl : ∀ x ∈ (d1 :: ds').dropLast, x < 128 := fun x hx => hall x (List.dropLast_subset _ hx)
        have := key (d1 :: ds').dropLast ((d1 :: ds').getLastD 0) d0 hdl hlt
        have hre := dropLast_append_getLastD (d1 :: ds') (by simp)
        rw [hre] at this
        have hv : (d1 :: ds').foldl (fun a x => a * 128 + x) d0 = n := by
          rw [hbe] at hval
          simpa [ofBe128, ofBeDigits] using hval
        rw [hv] at this
        simpa [natsToBytes] using this

theorem decodeArcs_flatMap (arcs : List Nat) :
    decodeArcs none (arcs.flatMap encodeArc) = .ok arcs := by
  induction arcs with
  | nil => simp [decodeArcs]
  | cons a rest ih =>
    simp only [List.flatMap_cons]
    rw [decodeArcs_encodeArc, ih]
    rfl

/-- **OID round trip**: whatever the encoder accepts decodes back to the same arcs -/
theorem oidFromContent_oidToContent (arcs : List Nat) (c : Bytes) (h : oidToContent arcs = some c) :
    oidFromContent c = .ok arcs := by
  match arcs, h with
  | first :: second :: rest, h =>
    simp only [oidToContent] at h
    -- the combined first sub-identifier
    have hc : ∀ hd, c = (hd :: rest).flatMap encodeArc → c ≠ [] := by
      intro hd hc
      rw [hc]
      simp only [List.flatMap_cons]
      intro hnil
      have : encodeArc hd = [] := (List.append_eq_nil_iff.mp hnil).1
      unfold encodeArc at this
      split at this
      · simp at this
      · simp [natsToBytes] at this
    split at h
    · rename_i hd heq
      simp only [Option.some.injEq] at h
      have hcne := hc hd h.symm
      unfold oidFromContent
      cases c with
      | nil => exact absurd rfl hcne
      | cons c0 cr =>
        simp only
        rw [← h, decodeArcs_flatMap]
        simp only
        -- which branch produced `hd`
        by_cases h39 : second ≤ 39
        · simp only [h39, if_true] at heq
          by_cases f1 : first = 1
          · subst f1; simp at heq; subst heq
            have a1 : ¬ (second + 40 ≤ 39) := by omega
            have a2 : second + 40 ≤ 79 := by omega
            simp [a1, a2]
          · by_cases f0 : first = 0
            · subst f0; simp at heq; subst heq
              simp [h39]
            · by_cases f2 : first = 2
              · subst f2; simp at heq; subst heq
                have a1 : ¬ (second + 80 ≤ 39) := by omega
                have a2 : ¬ (second + 80 ≤ 79) := by omega
                simp [a1, a2]
              · simp [f1, f0, f2] at heq
        · simp only [h39, if_false] at heq
          by_cases f2 : first = 2
          · subst f2; simp at heq; subst heq
            have a1 : ¬ (second + 80 ≤ 39) := by omega
            have a2 : ¬ (second + 80 ≤ 79) := by omega
            simp [a1, a2]
          · simp [f2] at heq
    · simp at h

end Asn1

namespace Asn1

/-! ### BIT STRING -/

theorem byteToBits_packByte8 (a b c d e f g h : Bool) :
    byteToBits (packByte [a, b, c, d, e, f, g, h]) = [a, b, c, d, e, f, g, h] := by
  cases a <;> cases b <;> cases c <;> cases d <;> cases e <;> cases f <;> cases g <;> cases h <;> rfl

theorem packByte_pad (l : List Bool) (k : Nat) (h : l.length + k = 8) :
    packByte l = packByte (l ++ List.replicate k false) := by
  unfold packByte
  have h1 : 8 - l.length = k := by omega
  have h2 : 8 - (l ++ List.replicate k false).length = 0 := by simp; omega
  rw [h1, h2]
  simp

theorem byteToBits_packByte (l : List Bool) (h : l.length ≤ 8) :
    byteToBits (packByte l) = l ++ List.replicate (8 - l.length) false := by
  rw [packByte_pad l (8 - l.length) (by omega)]
  generalize hm : l ++ List.replicate (8 - l.length) false = m
  have hlen : m.length = 8 := by rw [← hm]; simp; omega
  match m, hlen with
  | [a, b, c, d, e, f, g, hh], _ => exact byteToBits_packByte8 a b c d e f g hh

theorem padLen_lt (n : Nat) : padLen n < 8 := by unfold padLen; omega

theorem unpack_pack : ∀ (fuel : Nat) (bs : List Bool), bs.length ≤ 8 * fuel →
    unpackBits (packBits fuel bs) = bs ++ List.replicate (padLen bs.length) false
  | 0, bs, h => by
      have : bs = [] := List.eq_nil_of_length_eq_zero (by omega)
      subst this; simp [packBits, unpackBits, padLen]
  | fuel + 1, [], _ => by simp [packBits, unpackBits, padLen]
  | fuel + 1, b :: bs, h => by
      simp only [packBits, unpackBits, List.flatMap_cons]
      by_cases h8 : (b :: bs).length ≥ 8
      · have ht : ((b :: bs).take 8).length = 8 := by
          simp only [List.length_take, List.length_cons] at h8 ⊢; omega
        rw [byteToBits_packByte _ (by omega), ht]
        have ih := unpack_pack fuel ((b :: bs).drop 8) (by
          simp only [List.length_drop, List.length_cons] at h h8 ⊢; omega)
        simp only [unpackBits] at ih
        rw [ih]
        have hp : padLen ((b :: bs).drop 8).length = padLen (b :: bs).length := by
          simp only [List.length_drop, padLen]; omega
        rw [hp]
        simp only [Nat.sub_self, List.replicate_zero, List.append_nil]
        rw [← List.append_assoc, List.take_append_drop]
      · have ht : (b :: bs).take 8 = b :: bs := List.take_of_length_le (by omega)
        have hd : (b :: bs).drop 8 = [] := List.drop_of_length_le (by omega)
        rw [ht, hd, byteToBits_packByte _ (by omega)]
        have : packBits fuel [] = [] := by cases fuel <;> simp [packBits]
        rw [this]
        have hp : padLen (b :: bs).length = 8 - (b :: bs).length := by
          simp only [padLen, List.length_cons] at h8 ⊢; omega
        rw [hp]
        simp

/-- **BIT STRING round trip** -/
theorem bitsFromContent_bitsToContent (bs : List Bool) :
    bitsFromContent (bitsToContent bs) = .ok bs := by
  unfold bitsToContent bitsFromContent
  have hp := padLen_lt bs.length
  have h1 : (UInt8.ofNat (padLen bs.length)).toNat = padLen bs.length := toNat_ofNat_lt _ (by omega)
  simp only [h1]
  have a1 : ¬ (padLen bs.length > 7) := by omega
  simp only [a1, if_false]
  rw [unpack_pack bs.length bs (by omega)]
  simp

/-! ### chunking -/

theorem chunkBytes_flatten (n : Nat) (hn : 0 < n) : ∀ (fuel : Nat) (bs : Bytes), bs.length ≤ fuel →
    (chunkBytes n fuel bs).flatten = bs
  | 0, bs, h => by
      have : bs = [] := List.eq_nil_of_length_eq_zero (by omega)
      subst this; simp [chunkBytes]
  | fuel + 1, [], _ => by simp [chunkBytes]
  | fuel + 1, b :: bs, h => by
      simp only [chunkBytes, List.flatten_cons]
      rw [chunkBytes_flatten n hn fuel _ (by simp at h ⊢; omega)]
      exact List.take_append_drop n (b :: bs)

theorem chunkBits_flatten (n : Nat) (hn : 0 < n) : ∀ (fuel : Nat) (bs : List Bool), bs.length ≤ fuel →
    (chunkBits n fuel bs).flatten = bs
  | 0, bs, h => by
      have : bs = [] := List.eq_nil_of_length_eq_zero (by omega)
      subst this; simp [chunkBits]
  | fuel + 1, [], _ => by simp [chunkBits]
  | fuel + 1, b :: bs, h => by
      simp only [chunkBits, List.flatten_cons]
      rw [chunkBits_flatten n hn fuel _ (by simp at h ⊢; omega)]
      exact List.take_append_drop n (b :: bs)

end Asn1
