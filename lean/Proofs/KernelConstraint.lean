/-
  Proofs.KernelConstraint — the leaf tests of pyasn1/type/constraint.py (`_testValue` of ValueRangeConstraint,
  ValueSizeConstraint, SingleValueConstraint, PermittedAlphabetConstraint; translated from the source into
  `GenK.rangeTest` / `sizeTest` / `singleValueTest` / `alphabetTest`) are the leaf tests of the constraint model
  (`Asn1.Constraint.inRange` / `inSize` / `inSet` / `inAlphabet`) on integer payloads and octet payloads.
-/
import Asn1.GenKernels
import Asn1.Constraint

namespace Asn1.Kernels
open Py Asn1.Constraint

/-- the model's verdict in the vocabulary of the translated code: a rejection is `ValueConstraintError` -/
def liftRes : Asn1.Constraint.Res → Py.M Unit
  | .accept => .ok ()
  | .reject => .error (.lib "ValueConstraintError")
  | .leak => .error (.lib "TypeError")

theorem rangeTest_kernel (lo hi z : Int) :
    GenK.rangeTest lo hi z = liftRes (inRange lo hi (.atom (.int z))) := by
  unfold GenK.rangeTest inRange
  by_cases h : z < lo ∨ z > hi
  · have : (decide (z < lo) || decide (z > hi)) = true := by
      rcases h with h | h <;> simp [h]
    simp only [this, if_true, h, liftRes]; rfl
  · have : (decide (z < lo) || decide (z > hi)) = false := by
      have h1 : ¬ z < lo := fun h0 => h (Or.inl h0)
      have h2 : ¬ z > hi := fun h0 => h (Or.inr h0)
      simp [h1, h2]
    simp only [this, Bool.false_eq_true, if_false, h, liftRes]; rfl

theorem sizeTest_kernel (lo hi : Int) (bs : List Nat) :
    GenK.sizeTest lo hi (bs.map Int.ofNat) = liftRes (inSize lo hi (.atom (.bytes bs))) := by
  unfold GenK.sizeTest inSize
  have hl : Py.len (bs.map Int.ofNat) = (bs.length : Int) := by simp [Py.len]
  simp only [hl, CVal.len]
  by_cases h : (bs.length : Int) < lo ∨ (bs.length : Int) > hi
  · have : (decide ((bs.length : Int) < lo) || decide ((bs.length : Int) > hi)) = true := by
      rcases h with h | h <;> simp [h]
    simp only [this, if_true, h, liftRes]; rfl
  · have : (decide ((bs.length : Int) < lo) || decide ((bs.length : Int) > hi)) = false := by
      have h1 : ¬ (bs.length : Int) < lo := fun h0 => h (Or.inl h0)
      have h2 : ¬ (bs.length : Int) > hi := fun h0 => h (Or.inr h0)
      simp [h1, h2]
    simp only [this, Bool.false_eq_true, if_false, h, liftRes]; rfl

theorem mem_map_int (s : List Int) (z : Int) : (Atom.int z ∈ s.map Atom.int) ↔ z ∈ s := by
  simp [List.mem_map]

theorem singleValueTest_kernel (s : List Int) (z : Int) :
    GenK.singleValueTest s z = liftRes (inSet (s.map Atom.int) (.atom (.int z))) := by
  unfold GenK.singleValueTest inSet Py.mem
  by_cases h : z ∈ s
  · have hc : s.contains z = true := by simpa using h
    simp only [hc, Bool.not_true, Bool.false_eq_true, if_false, (mem_map_int s z).mpr h, if_true, liftRes]; rfl
  · have hc : s.contains z = false := by simpa using h
    have hm : ¬ (Atom.int z ∈ s.map Atom.int) := fun h0 => h ((mem_map_int s z).mp h0)
    simp only [hc, Bool.not_false, if_true, hm, if_false, liftRes]; rfl

theorem alphabetTest_kernel (s : List Int) (bs : List Nat) :
    GenK.alphabetTest s (bs.map Int.ofNat) = liftRes (inAlphabet (s.map Atom.int) (.atom (.bytes bs))) := by
  unfold GenK.alphabetTest inAlphabet Py.issuperset
  simp only [CVal.elems]
  have hall : (bs.map Int.ofNat).all (fun x => s.contains x) =
      (bs.map fun b => Atom.int (b : Nat)).all (fun e => decide (e ∈ s.map Atom.int)) := by
    simp only [List.all_map]
    congr 1
    funext b
    simp only [Function.comp]
    by_cases h : ((b : Nat) : Int) ∈ s
    · have : Atom.int (b : Nat) ∈ s.map Atom.int := (mem_map_int s _).mpr h
      simp [h, this]
    · have : ¬ Atom.int (b : Nat) ∈ s.map Atom.int := fun h0 => h ((mem_map_int s _).mp h0)
      simp [h, this]
  rw [hall]
  cases (bs.map fun b => Atom.int (b : Nat)).all (fun e => decide (e ∈ s.map Atom.int)) <;> simp [liftRes] <;> rfl

/-! ### the set operations: `_testValue` of ConstraintsIntersection / ConstraintsUnion / ConstraintsExclusion

The operands are handles (ints) and calling one (`constraint(value, idx)`) is a callback parameter of the translated
code; the theorems hold for whatever the handles stand for (`r : Int → Constr`). -/

/-- verdicts of the operands, combined as an intersection / a union / an exclusion does -/
def allR : List Asn1.Constraint.Res → Asn1.Constraint.Res
  | [] => .accept
  | .accept :: t => allR t
  | x :: _ => x
def anyR : List Asn1.Constraint.Res → Asn1.Constraint.Res
  | [] => .reject
  | .accept :: _ => .accept
  | .reject :: t => anyR t
  | .leak :: _ => .leak
def noneR : List Asn1.Constraint.Res → Asn1.Constraint.Res
  | [] => .accept
  | .accept :: _ => .reject
  | .reject :: t => noneR t
  | .leak :: _ => .leak

theorem runAll_ofCons (cs : List Constr) (i : Option Nat) (v : CVal) :
    runAll (Ops.ofCons cs) [] i v = allR (cs.map fun c => run c i v) := by
  induction cs with
  | nil => simp [Ops.ofCons, runAll, allR]
  | cons c rest ih =>
    simp only [Ops.ofCons, runAll, List.map_cons, ih]
    cases run c i v <;> rfl

theorem runAny_ofCons (cs : List Constr) (i : Option Nat) (v : CVal) :
    runAny (Ops.ofCons cs) i v = anyR (cs.map fun c => run c i v) := by
  induction cs with
  | nil => simp [Ops.ofCons, runAny, anyR]
  | cons c rest ih =>
    simp only [Ops.ofCons, runAny, List.map_cons, ih]
    cases run c i v <;> rfl

theorem runNone_ofCons (cs : List Constr) (i : Option Nat) (v : CVal) :
    runNone (Ops.ofCons cs) i v = noneR (cs.map fun c => run c i v) := by
  induction cs with
  | nil => simp [Ops.ofCons, runNone, noneR]
  | cons c rest ih =>
    simp only [Ops.ofCons, runNone, List.map_cons, ih]
    cases run c i v <;> rfl

theorem intersectionTest_loop1_spec (o : Int → Py.M Unit) (f : Int → Asn1.Constraint.Res)
    (ho : ∀ k, o k = liftRes (f k)) : ∀ ks : Py.Tup,
    GenK.intersectionTest_loop1 o ks = liftRes (allR (ks.map f))
  | [] => rfl
  | k :: rest => by
    simp only [GenK.intersectionTest_loop1, List.map_cons, bind, Except.bind, ho k]
    cases h : f k
    · simp only [liftRes, allR]; exact intersectionTest_loop1_spec o f ho rest
    · rfl
    · rfl

/-- what the union loop answers: left = an operand accepted (the function returns), right = all refused -/
def unionOut : Asn1.Constraint.Res → Py.M (Sum Unit Unit)
  | .accept => .ok (Sum.inl ())
  | .reject => .ok (Sum.inr ())
  | .leak => .error (.lib "TypeError")

theorem unionTest_loop1_spec (o : Int → Py.M Unit) (f : Int → Asn1.Constraint.Res)
    (ho : ∀ k, o k = liftRes (f k)) : ∀ ks : Py.Tup,
    GenK.unionTest_loop1 o ks = unionOut (anyR (ks.map f))
  | [] => rfl
  | k :: rest => by
    simp only [GenK.unionTest_loop1, List.map_cons, bind, Except.bind, ho k]
    cases h : f k
    · rfl
    · have ih := unionTest_loop1_spec o f ho rest
      simp only [liftRes, anyR]
      rw [← ih]; rfl
    · rfl

theorem exclusionTest_loop1_spec (o : Int → Py.M Unit) (f : Int → Asn1.Constraint.Res)
    (ho : ∀ k, o k = liftRes (f k)) : ∀ ks : Py.Tup,
    GenK.exclusionTest_loop1 o ks = liftRes (noneR (ks.map f))
  | [] => rfl
  | k :: rest => by
    simp only [GenK.exclusionTest_loop1, List.map_cons, bind, Except.bind, ho k]
    cases h : f k
    · rfl
    · have ih := exclusionTest_loop1_spec o f ho rest
      rw [ih]; rfl
    · rfl

theorem ofCons_isNil (cs : List Constr) (h : cs ≠ []) : (Ops.ofCons cs).isNil = false := by
  cases cs with
  | nil => exact absurd rfl h
  | cons c r => rfl

/-- `ConstraintsIntersection._testValue` as it is in the source: every operand, in order, the first refusal (or crash)
    is the outcome - the model's evaluation of an intersection -/
theorem intersectionTest_kernel (r : Int → Constr) (ks : Py.Tup) (hk : ks ≠ []) (i : Option Nat) (v : CVal) :
    GenK.intersectionTest ks (fun k => liftRes (run (r k) i v)) = liftRes (run (intersection (ks.map r)) i v) := by
  have hn : (Ops.ofCons (ks.map r)).isNil = false := ofCons_isNil _ (by simpa using hk)
  unfold GenK.intersectionTest
  rw [intersectionTest_loop1_spec _ (fun k => run (r k) i v) (fun _ => rfl)]
  have e : (ks.map r).map (fun c => run c i v) = ks.map (fun k => run (r k) i v) := by
    rw [List.map_map]; rfl
  simp only [run, intersection, hn, Bool.false_eq_true, if_false, runAll_ofCons, e, bind, Except.bind]
  cases allR (ks.map fun k => run (r k) i v) <;> rfl

/-- `ConstraintsUnion._testValue`: the first operand that accepts wins; all refusing is a refusal -/
theorem unionTest_kernel (r : Int → Constr) (ks : Py.Tup) (hk : ks ≠ []) (i : Option Nat) (v : CVal) :
    GenK.unionTest ks (fun k => liftRes (run (r k) i v)) = liftRes (run (union (ks.map r)) i v) := by
  have hn : (Ops.ofCons (ks.map r)).isNil = false := ofCons_isNil _ (by simpa using hk)
  unfold GenK.unionTest
  rw [unionTest_loop1_spec _ (fun k => run (r k) i v) (fun _ => rfl)]
  have e : (ks.map r).map (fun c => run c i v) = ks.map (fun k => run (r k) i v) := by
    rw [List.map_map]; rfl
  simp only [run, union, hn, Bool.false_eq_true, if_false, runAny_ofCons, e, bind, Except.bind]
  cases anyR (ks.map fun k => run (r k) i v) <;> rfl

/-- `ConstraintsExclusion._testValue`: accepted exactly when every operand refuses -/
theorem exclusionTest_kernel (r : Int → Constr) (ks : Py.Tup) (hk : ks ≠ []) (i : Option Nat) (v : CVal) :
    GenK.exclusionTest ks (fun k => liftRes (run (r k) i v)) = liftRes (run (exclusion (ks.map r)) i v) := by
  have hn : (Ops.ofCons (ks.map r)).isNil = false := ofCons_isNil _ (by simpa using hk)
  unfold GenK.exclusionTest
  rw [exclusionTest_loop1_spec _ (fun k => run (r k) i v) (fun _ => rfl)]
  have e : (ks.map r).map (fun c => run c i v) = ks.map (fun k => run (r k) i v) := by
    rw [List.map_map]; rfl
  simp only [run, exclusion, hn, Bool.false_eq_true, if_false, runNone_ofCons, e, bind, Except.bind]
  cases noneR (ks.map fun k => run (r k) i v) <;> rfl

end Asn1.Kernels
