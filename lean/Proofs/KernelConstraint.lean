/-
  Proofs.KernelConstraint — the leaf tests of pyasn1/type/constraint.py (`_testValue` of ValueRangeConstraint,
  ValueSizeConstraint, SingleValueConstraint, PermittedAlphabetConstraint; translated from the source into
  `GenK.rangeTest` / `sizeTest` / `singleValueTest` / `alphabetTest`) are the leaf tests of the constraint model
  (`Asn1.Constraint.inRange` / `inSize` / `inSet` / `inAlphabet`) on integer payloads and octet payloads.
-/
import Asn1.GenKernels
import Asn1.Constraint

namespace Asn1.Kernels
open Py Asn1.Constraint

/-- the model's verdict in the vocabulary of the translated code: a rejection is `ValueConstraintError` -/
def liftRes : Asn1.Constraint.Res → Py.M Unit
  | .accept => .ok ()
  | .reject => .error (.lib "ValueConstraintError")
  | .leak => .error (.lib "TypeError")

theorem rangeTest_kernel (lo hi z : Int) :
    GenK.rangeTest lo hi z = liftRes (inRange lo hi (.atom (.int z))) := by
  unfold GenK.rangeTest inRange
  by_cases h : z < lo ∨ z > hi
  · have : (decide (z < lo) || decide (z > hi)) = true := by
      rcases h with h | h <;> simp [h]
    simp only [this, if_true, h, liftRes]; rfl
  · have : (decide (z < lo) || decide (z > hi)) = false := by
      have h1 : ¬ z < lo := fun h0 => h (Or.inl h0)
      have h2 : ¬ z > hi := fun h0 => h (Or.inr h0)
      simp [h1, h2]
    simp only [this, Bool.false_eq_true, if_false, h, liftRes]; rfl

theorem sizeTest_kernel (lo hi : Int) (bs : List Nat) :
    GenK.sizeTest lo hi (bs.map Int.ofNat) = liftRes (inSize lo hi (.atom (.bytes bs))) := by
  unfold GenK.sizeTest inSize
  have hl : Py.len (bs.map Int.ofNat) = (bs.length : Int) := by simp [Py.len]
  simp only [hl, CVal.len]
  by_cases h : (bs.length : Int) < lo ∨ (bs.length : Int) > hi
  · have : (decide ((bs.length : Int) < lo) || decide ((bs.length : Int) > hi)) = true := by
      rcases h with h | h <;> simp [h]
    simp only [this, if_true, h, liftRes]; rfl
  · have : (decide ((bs.length : Int) < lo) || decide ((bs.length : Int) > hi)) = false := by
      have h1 : ¬ (bs.length : Int) < lo := fun h0 => h (Or.inl h0)
      have h2 : ¬ (bs.length : Int) > hi := fun h0 => h (Or.inr h0)
      simp [h1, h2]
    simp only [this, Bool.false_eq_true, if_false, h, liftRes]; rfl

theorem mem_map_int (s : List Int) (z : Int) : (Atom.int z ∈ s.map Atom.int) ↔ z ∈ s := by
  simp [List.mem_map]

theorem singleValueTest_kernel (s : List Int) (z : Int) :
    GenK.singleValueTest s z = liftRes (inSet (s.map Atom.int) (.atom (.int z))) := by
  unfold GenK.singleValueTest inSet Py.mem
  by_cases h : z ∈ s
  · have hc : s.contains z = true := by simpa using h
    simp only [hc, Bool.not_true, Bool.false_eq_true, if_false, (mem_map_int s z).mpr h, if_true, liftRes]; rfl
  · have hc : s.contains z = false := by simpa using h
    have hm : ¬ (Atom.int z ∈ s.map Atom.int) := fun h0 => h ((mem_map_int s z).mp h0)
    simp only [hc, Bool.not_false, if_true, hm, if_false, liftRes]; rfl

theorem alphabetTest_kernel (s : List Int) (bs : List Nat) :
    GenK.alphabetTest s (bs.map Int.ofNat) = liftRes (inAlphabet (s.map Atom.int) (.atom (.bytes bs))) := by
  unfold GenK.alphabetTest inAlphabet Py.issuperset
  simp only [CVal.elems]
  have hall : (bs.map Int.ofNat).all (fun x => s.contains x) =
      (bs.map fun b => Atom.int (b : Nat)).all (fun e => decide (e ∈ s.map Atom.int)) := by
    simp only [List.all_map]
    congr 1
    funext b
    simp only [Function.comp]
    by_cases h : ((b : Nat) : Int) ∈ s
    · have : Atom.int (b : Nat) ∈ s.map Atom.int := (mem_map_int s _).mpr h
      simp [h, this]
    · have : ¬ Atom.int (b : Nat) ∈ s.map Atom.int := fun h0 => h ((mem_map_int s _).mp h0)
      simp [h, this]
  rw [hall]
  cases (bs.map fun b => Atom.int (b : Nat)).all (fun e => decide (e ∈ s.map Atom.int)) <;> simp [liftRes] <;> rfl

end Asn1.Kernels
