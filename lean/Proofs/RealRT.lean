/-
  Proofs.RealRT — binary REAL contents (X.690 8.5.7, base 2): what the encoder writes, the decoder
  reads back as the same number (same odd mantissa and exponent).
-/
import Asn1.Prim
import Asn1.BerSpec
import Proofs.PrimRT
import Proofs.Digits

namespace Asn1

theorem normOdd_odd : ∀ (fuel m : Nat) (e : Int), m ≠ 0 → m ≤ fuel →
    (normOdd fuel m e).1 % 2 = 1
  | 0, m, e, h0, hle => by omega
  | fuel + 1, m, e, h0, hle => by
      simp only [normOdd]
      by_cases hev : m % 2 = 0
      · simp only [h0, ne_eq, not_false_eq_true, hev, and_self, if_true]
        exact normOdd_odd fuel (m / 2) (e + 1) (by omega) (by omega)
      · simp only [hev, and_false, if_false]
        omega

theorem normOdd_of_odd (fuel m : Nat) (e : Int) (h : m % 2 = 1) : normOdd fuel m e = (m, e) := by
  cases fuel with
  | zero => rfl
  | succ f => simp [normOdd]; omega

theorem normOdd_ne_zero : ∀ (fuel m : Nat) (e : Int), m ≠ 0 → (normOdd fuel m e).1 ≠ 0
  | 0, m, e, h0 => by simpa [normOdd] using h0
  | fuel + 1, m, e, h0 => by
      simp only [normOdd]
      by_cases hev : m % 2 = 0
      · simp only [h0, ne_eq, not_false_eq_true, hev, and_self, if_true]
        exact normOdd_ne_zero fuel (m / 2) (e + 1) (by omega)
      · simp only [hev, and_false, if_false]
        exact h0

theorem natToBytes_ne_nil (n : Nat) (h : n ≠ 0) : natToBytes n ≠ [] := by
  unfold natToBytes natsToBytes
  intro he
  have := beDigits_ne_nil 254 n h
  simp at he
  exact this he

theorem bytesToNat_natToBytes (n : Nat) : bytesToNat (natToBytes n) = n :=
  bytesToNat_natsToBytes_be256 n

/-- the key of what was decoded from an odd mantissa -/
theorem realKey_odd (neg : Bool) (mo : Nat) (eo : Int) (hodd : mo % 2 = 1) :
    realKey (.fin (if neg then -(mo : Int) else mo) 2 eo) = .fin (if neg then -(mo : Int) else mo) 2 eo := by
  have hne : mo ≠ 0 := by omega
  cases neg with
  | false =>
    simp only [Bool.false_eq_true, if_false, realKey]
    have h1 : ¬ ((mo : Int) = 0) := by omega
    have h2 : ¬ ((mo : Int) < 0) := by omega
    simp only [h1, h2, if_false, if_true, Int.natAbs_natCast, normOdd_of_odd mo mo eo hodd]
  | true =>
    simp only [if_true, realKey]
    have h1 : ¬ (-(mo : Int) = 0) := by omega
    have h2 : (-(mo : Int) < 0) := by omega
    simp only [h1, h2, if_false, if_true, Int.natAbs_neg, Int.natAbs_natCast, normOdd_of_odd mo mo eo hodd]

/-- **binary REAL round trip**: the decoder reads the encoder's contents as a value with the same key -/
theorem realFromContent_realBinToContent (m e : Int) (c : Bytes) (hm : m ≠ 0)
    (h : realBinToContent m e = some c) :
    ∃ r, realFromContent c = .ok r ∧ realKey r = realKey (.fin m 2 e) := by
  unfold realBinToContent at h
  simp only [hm, if_false] at h
  generalize hno : normOdd m.natAbs m.natAbs e = no at h
  obtain ⟨mo, eo⟩ := no
  simp only at h
  have hmabs : m.natAbs ≠ 0 := by omega
  have hodd : mo % 2 = 1 := by
    have := normOdd_odd m.natAbs m.natAbs e hmabs (Nat.le_refl _)
    rw [hno] at this; exact this
  have hmo : mo ≠ 0 := by omega
  have hkey : realKey (.fin m 2 e) = .fin (if m < 0 then -(mo : Int) else mo) 2 eo := by
    simp only [realKey, hm, if_false, if_true, hno]
  have hmant : natToBytes mo ≠ [] := natToBytes_ne_nil mo hmo
  have heb : intToBytes eo ≠ [] := intToBytes_ne_nil eo
  have hint : intFromBytes (intToBytes eo) = eo := intFromBytes_intToBytes eo
  by_cases hbig : (intToBytes eo).length > 0xff
  · simp [hbig] at h
  · simp only [hbig, if_false] at h
    refine ⟨.fin (if m < 0 then -(mo : Int) else mo) 2 eo, ?_, ?_⟩
    · -- decode
      generalize hE : intToBytes eo = E at h heb hint hbig
      generalize hM : natToBytes mo = M at h hmant
      have hMv : bytesToNat M = mo := by rw [← hM]; exact bytesToNat_natToBytes mo
      by_cases hneg : m < 0
      · simp only [hneg, if_true] at h ⊢
        by_cases h1 : E.length = 1
        · simp only [h1, if_true, Option.some.injEq] at h
          subst h
          match E, h1, heb, hint with
          | [x], _, _, hint =>
            cases M with
            | nil => exact absurd rfl hmant
            | cons y ys =>
              simp [realFromContent, hint, hMv]
        · by_cases h2 : E.length = 2
          · simp only [h1, h2, if_true, if_false, Option.some.injEq] at h
            subst h
            match E, h2, hint with
            | [x1, x2], _, hint =>
              cases M with
              | nil => exact absurd rfl hmant
              | cons y ys => simp [realFromContent, hint, hMv]
          · by_cases h3 : E.length = 3
            · simp only [h1, h2, h3, if_true, if_false, Option.some.injEq] at h
              subst h
              match E, h3, hint with
              | [x1, x2, x3], _, hint =>
                cases M with
                | nil => exact absurd rfl hmant
                | cons y ys => simp [realFromContent, hint, hMv]
            · simp only [h1, h2, h3, if_false, Option.some.injEq] at h
              subst h
              have hlen : (UInt8.ofNat E.length).toNat = E.length := toNat_ofNat_lt _ (by omega)
              cases M with
              | nil => exact absurd rfl hmant
              | cons y ys =>
                have hEne : E.isEmpty = false := by
                  cases E with
                  | nil => exact absurd rfl heb
                  | cons _ _ => rfl
                simp [realFromContent, hlen, hint, hMv, hEne]
      · simp only [hneg, if_false] at h ⊢
        by_cases h1 : E.length = 1
        · simp only [h1, if_true, Option.some.injEq] at h
          subst h
          match E, h1, heb, hint with
          | [x], _, _, hint =>
            cases M with
            | nil => exact absurd rfl hmant
            | cons y ys =>
              simp [realFromContent, hint, hMv]
        · by_cases h2 : E.length = 2
          · simp only [h1, h2, if_true, if_false, Option.some.injEq] at h
            subst h
            match E, h2, hint with
            | [x1, x2], _, hint =>
              cases M with
              | nil => exact absurd rfl hmant
              | cons y ys => simp [realFromContent, hint, hMv]
          · by_cases h3 : E.length = 3
            · simp only [h1, h2, h3, if_true, if_false, Option.some.injEq] at h
              subst h
              match E, h3, hint with
              | [x1, x2, x3], _, hint =>
                cases M with
                | nil => exact absurd rfl hmant
                | cons y ys => simp [realFromContent, hint, hMv]
            · simp only [h1, h2, h3, if_false, Option.some.injEq] at h
              subst h
              have hlen : (UInt8.ofNat E.length).toNat = E.length := toNat_ofNat_lt _ (by omega)
              cases M with
              | nil => exact absurd rfl hmant
              | cons y ys =>
                have hEne : E.isEmpty = false := by
                  cases E with
                  | nil => exact absurd rfl heb
                  | cons _ _ => rfl
                simp [realFromContent, hlen, hint, hMv, hEne]
    · rw [hkey]
      have := realKey_odd (decide (m < 0)) mo eo hodd
      simpa using this

end Asn1
