/-
  Proofs.X690Sort — the ordering rules of the X.690 transcription (an insertion sort over comparison
  relations on encodings) give the same lists as the encoder model's merge sorts over sort keys.
-/
import Asn1.X690
import Asn1.Encoder
import Proofs.ContainerSort

namespace Asn1

open X690

/-! ### insertion sort = merge sort, for any total transitive comparison -/

theorem insertBy_split {α} (le : α → α → Bool) (a : α) : ∀ (l₁ l₂ : List α),
    (∀ b, b ∈ l₁ → (!le a b) = true) → (∀ b, b ∈ l₂ → le a b = true) →
    insertBy le a (l₁ ++ l₂) = l₁ ++ a :: l₂
  | [], [], _, _ => rfl
  | [], y :: ys, _, h2 => by
    have := h2 y (by simp)
    simp [insertBy, this]
  | x :: xs, l₂, h1, h2 => by
    have hx := h1 x (by simp)
    simp only [Bool.not_eq_true'] at hx
    simp only [List.cons_append, insertBy, hx, Bool.false_eq_true, if_false]
    rw [insertBy_split le a xs l₂ (fun b hb => h1 b (by simp [hb])) h2]

theorem sortBy_eq_mergeSort {α} (le : α → α → Bool)
    (trans : ∀ a b c : α, le a b = true → le b c = true → le a c = true)
    (total : ∀ a b : α, (le a b || le b a) = true) :
    ∀ l : List α, sortBy le l = l.mergeSort le
  | [] => by simp [sortBy]
  | a :: l => by
    have ih := sortBy_eq_mergeSort le trans total l
    obtain ⟨l₁, l₂, h1, h2, h3⟩ := List.mergeSort_cons (le := le) trans total a l
    have hs := List.pairwise_mergeSort (le := le) trans total (a :: l)
    rw [h1] at hs
    have hge : ∀ b, b ∈ l₂ → le a b = true := by
      intro b hb
      have := (List.pairwise_append.mp hs).2.1
      exact List.rel_of_pairwise_cons this hb
    show insertBy le a (sortBy le l) = _
    rw [ih, h2, h1]
    exact insertBy_split le a l₁ l₂ h3 hge

/-! ### SET OF: zero-padded comparison -/

theorem bytesLe_zeros : ∀ (m : Nat) (x : Bytes), x.length = m → bytesLe (List.replicate m 0) x = true
  | 0, _, _ => by simp [bytesLe]
  | m + 1, [], h => by simp at h
  | m + 1, y :: ys, h => by
    rw [List.replicate_succ, bytesLe_cons]
    have ih := bytesLe_zeros m ys (by simpa using h)
    by_cases hy : y = 0
    · subst hy; simp [ih]
    · have : (0 : UInt8) < y := by
        rcases u8_tri 0 y with h' | h' | h'
        · exact h'
        · exact absurd h'.symm hy
        · exact absurd h' (by simp [UInt8.lt_iff_toNat_lt])
      simp [this]

theorem padTo_length (m : Nat) (b : Bytes) (h : b.length ≤ m) : (padTo m b).length = m := by
  simp [padTo]; omega

theorem paddedLe_eq : ∀ (a b : Bytes) (m : Nat), a.length ≤ m → b.length ≤ m →
    paddedLe a b = bytesLe (padTo m a) (padTo m b)
  | [], b, m, _, hb => by
    rw [paddedLe]
    have : padTo m [] = List.replicate m 0 := by simp [padTo]
    rw [this, bytesLe_zeros m _ (padTo_length m b hb)]
  | a :: as, [], m, ha, _ => by
    obtain ⟨m', rfl⟩ : ∃ m', m = m' + 1 := ⟨m - 1, by simp at ha; omega⟩
    rw [paddedLe]
    have h1 : padTo (m' + 1) [] = 0 :: padTo m' [] := by simp [padTo, List.replicate_succ]
    have h2 : padTo (m' + 1) (a :: as) = a :: padTo m' as := by simp [padTo]
    rw [h1, h2, bytesLe_cons, paddedLe_eq as [] m' (by simpa using ha) (by simp)]
    have : ¬ a < 0 := by simp [UInt8.lt_iff_toNat_lt]
    simp [this]
  | a :: as, b :: bs, m, ha, hb => by
    obtain ⟨m', rfl⟩ : ∃ m', m = m' + 1 := ⟨m - 1, by simp at ha; omega⟩
    rw [paddedLe]
    have h1 : padTo (m' + 1) (b :: bs) = b :: padTo m' bs := by simp [padTo]
    have h2 : padTo (m' + 1) (a :: as) = a :: padTo m' as := by simp [padTo]
    rw [h1, h2, bytesLe_cons, paddedLe_eq as bs m' (by simpa using ha) (by simpa using hb)]

theorem paddedLe_total (a b : Bytes) : (paddedLe a b || paddedLe b a) = true := by
  rw [paddedLe_eq a b (a.length + b.length) (by omega) (by omega),
    paddedLe_eq b a (a.length + b.length) (by omega) (by omega)]
  exact padLe_total _ a b

theorem paddedLe_trans (a b c : Bytes) (h1 : paddedLe a b = true) (h2 : paddedLe b c = true) :
    paddedLe a c = true := by
  rw [paddedLe_eq a b (a.length + b.length + c.length) (by omega) (by omega)] at h1
  rw [paddedLe_eq b c (a.length + b.length + c.length) (by omega) (by omega)] at h2
  rw [paddedLe_eq a c (a.length + b.length + c.length) (by omega) (by omega)]
  exact padLe_trans _ a b c h1 h2

theorem le_foldl_max : ∀ (l : List Bytes) (acc : Nat),
    acc ≤ l.foldl (fun a c => max a c.length) acc ∧
    ∀ c ∈ l, c.length ≤ l.foldl (fun a c => max a c.length) acc
  | [], acc => ⟨Nat.le_refl _, fun c hc => by simp at hc⟩
  | x :: xs, acc => by
    obtain ⟨h1, h2⟩ := le_foldl_max xs (max acc x.length)
    simp only [List.foldl_cons]
    refine ⟨by omega, ?_⟩
    intro c hc
    rcases List.mem_cons.mp hc with rfl | hc
    · omega
    · exact h2 c hc

/-- **SET OF order**: the encoder's sort on zero-padded keys is X.690's order on the encodings -/
theorem sortSetOf_eq (cs : List Bytes) : sortBy paddedLe cs = sortSetOfChunks cs := by
  unfold sortSetOfChunks
  by_cases hlen : cs.length > 1
  · simp only [hlen, if_true]
    rw [sortBy_eq_mergeSort paddedLe paddedLe_trans paddedLe_total]
    have := List.map_mergeSort (f := id) (l := cs) (r := paddedLe)
      (s := fun a b => bytesLe (padTo (cs.foldl (fun a c => max a c.length) 0) a)
        (padTo (cs.foldl (fun a c => max a c.length) 0) b))
      (by
        intro a ha b hb
        exact paddedLe_eq a b _ ((le_foldl_max cs 0).2 a ha) ((le_foldl_max cs 0).2 b hb))
    simpa using this
  · simp only [hlen, if_false]
    match cs, hlen with
    | [], _ => rfl
    | [a], _ => rfl
    | _ :: _ :: _, h => simp at h

/-! ### SET: order of the outermost tags -/

def clsRank : TagClass → Nat
  | .universal => 0 | .application => 1 | .context => 2 | .priv => 3

theorem tagRank_eq (c : TagClass) (n : Nat) : tagRank c n = (clsRank c, n) := by
  cases c <;> rfl

theorem tagSetLe_single (a b : Tag) :
    tagSetLe [a] [b] = rankLe (tagRank a.cls a.num) (tagRank b.cls b.num) := by
  obtain ⟨ac, ak, an⟩ := a
  obtain ⟨bc, bk, bn⟩ := b
  rw [tagRank_eq, tagRank_eq]
  simp only [tagSetLe, tagKey, rankLe]
  cases ac <;> cases bc <;> simp [TagClass.bits, clsRank]
  all_goals
    by_cases h1 : an < bn
    · simp [h1]; omega
    · by_cases h2 : bn < an
      · simp [h1, h2]
      · simp [h1, h2]; omega

theorem rankLe_total (a b : Nat × Nat) : (rankLe a b || rankLe b a) = true := by
  simp only [rankLe, Bool.or_eq_true, decide_eq_true_eq, Bool.and_eq_true, beq_iff_eq]
  omega

theorem rankLe_trans (a b c : Nat × Nat) (h1 : rankLe a b = true) (h2 : rankLe b c = true) :
    rankLe a c = true := by
  simp only [rankLe, Bool.or_eq_true, decide_eq_true_eq, Bool.and_eq_true, beq_iff_eq] at *
  omega

end Asn1
