/-
  Proofs.KernelTag — the identifier-decoding block of `SingleItemDecoder.__call__` (state `stDecodeTag`, translated
  from the source into `GenK.decodeTag`, the stream reads being reads of the complete input) computes the model's
  `decodeTag`: class bits, form bit, tag number (the long-form loop included) and the number of octets consumed.
-/
import Proofs.KernelLen

namespace Asn1.Kernels
open Py

theorem readN_one (bs : Bytes) (i : Nat) :
    Py.readN (bytesInts bs) (i : Int) 1 =
      if h : i < bs.length then .ok [(bs[i].toNat : Int)] else .error (.lib "SubstrateUnderrunError") := by
  unfold Py.readN
  have hl : (bytesInts bs).length = bs.length := by simp [bytesInts]
  by_cases h : i < bs.length
  · have hc : (i : Int).toNat + (1 : Int).toNat ≤ (bytesInts bs).length := by rw [hl]; simp; omega
    simp only [hc, if_true, h, dite_true, pure, Except.pure]
    congr 1
    have hd : bs.drop i = bs[i] :: bs.drop (i + 1) := List.drop_eq_getElem_cons h
    have hm : (bytesInts bs).drop (i : Int).toNat = bytesInts (bs.drop i) := by
      show (bs.map _).drop _ = (bs.drop i).map _
      rw [List.map_drop]; rfl
    rw [hm, hd]
    rfl
  · have hc : ¬ ((i : Int).toNat + (1 : Int).toNat ≤ (bytesInts bs).length) := by rw [hl]; simp; omega
    simp only [hc, if_false, h, dite_false]
    rfl

/-- outcome of the long-form loop: position after the identifier, tag number -/
def liftTagNum (n : Nat) : Res (Nat × Bytes) → Py.M (Int × Int)
  | .ok (num, rest) => .ok (((n - rest.length : Nat) : Int), (num : Int))
  | .error _ => .error (.lib "SubstrateUnderrunError")

theorem band_128_truthy (m : Nat) (h : m < 256) : Py.truthy (Py.band (m : Int) 128) = decide (¬ m < 128) := by
  rw [show (128 : Int) = ((128 : Nat) : Int) from rfl, band_nat, truthy_nat]
  have hall : ∀ k : Fin 256, (k.val &&& 128) = if k.val < 128 then 0 else 128 := by decide +kernel
  have : (m &&& 128) = if m < 128 then 0 else 128 := hall ⟨m, h⟩
  rw [this]
  by_cases h1 : m < 128 <;> simp [h1]

theorem decodeTagNum_rest_le : ∀ (l : Bytes) (acc num : Nat) (rest : Bytes), decodeTagNum acc l = .ok (num, rest) →
    rest.length < l.length
  | [], _, _, _, h => by simp [decodeTagNum] at h
  | b :: r, acc, num, rest, h => by
    simp only [decodeTagNum] at h
    by_cases h1 : b.toNat < 128
    · simp only [h1, if_true, Except.ok.injEq, Prod.mk.injEq] at h
      rw [← h.2]; simp
    · simp only [h1, if_false] at h
      have := decodeTagNum_rest_le r _ num rest h
      simp; omega

theorem decodeTag_loop1_spec (bs : Bytes) : ∀ (f i acc : Nat) (it loi : Int), i ≤ bs.length → bs.length - i < f →
    (GenK.decodeTag_loop1 (bytesInts bs) f (i : Int) it loi (acc : Int)).map (fun r => (r.1, r.2.2.2)) =
      liftTagNum bs.length (decodeTagNum acc (bs.drop i))
  | 0, _, _, _, _, _, hf => by omega
  | f + 1, i, acc, it, loi, hi, hf => by
    unfold GenK.decodeTag_loop1
    simp only [if_true, bind, Except.bind, readN_one]
    by_cases hlt : i < bs.length
    · have hd : bs.drop i = bs[i] :: bs.drop (i + 1) := List.drop_eq_getElem_cons hlt
      have hb := UInt8.toNat_lt bs[i]
      simp only [hlt, dite_true, List.isEmpty_cons, Bool.not_false, Bool.not_true, Bool.false_eq_true, if_false,
        Py.ord, pure, Except.pure, hd, decodeTagNum, shl_7, band_127, band_128_truthy _ hb]
      have e1 : Py.bor ((acc * 128 : Nat) : Int) ((bs[i].toNat % 128 : Nat) : Int) =
          ((acc * 128 + bs[i].toNat % 128 : Nat) : Int) := by
        rw [bor_nat]
        congr 1
        have := Nat.shiftLeft_add_eq_or_of_lt (show bs[i].toNat % 128 < 2 ^ 7 by omega) acc
        rw [Nat.shiftLeft_eq, show (2 : Nat) ^ 7 = 128 from rfl] at this
        exact this.symm
      rw [e1]
      by_cases h1 : bs[i].toNat < 128
      · simp only [h1, not_true_eq_false, decide_false, Bool.not_false, if_true, Except.map, liftTagNum]
        have : (bs.drop (i + 1)).length = bs.length - (i + 1) := List.length_drop
        congr 2
        · rw [this]; omega
      · simp only [h1, not_false_eq_true, decide_true, Bool.not_true, Bool.false_eq_true, if_false]
        have e2 : (i : Int) + 1 = ((i + 1 : Nat) : Int) := by omega
        rw [e2]
        exact decodeTag_loop1_spec bs f (i + 1) _ _ _ (by omega) (by omega)
    · have : bs.drop i = [] := List.drop_eq_nil_of_le (by omega)
      simp [hlt, this, decodeTagNum, liftTagNum, Except.map]

/-- what the model's `decodeTag` answers, in the vocabulary of the translated block -/
def liftDecTag (n : Nat) : Res (Tag × Bytes) → Py.M Py.Tup
  | .ok (t, rest) => .ok [(t.cls.bits : Int), if t.constructed then 32 else 0, (t.num : Int), ((n - rest.length : Nat) : Int)]
  | .error _ => .error (.lib "SubstrateUnderrunError")

theorem band_192 (m : Nat) (h : m < 256) : Py.band (m : Int) 192 = (((TagClass.ofBits m).bits : Nat) : Int) := by
  rw [show (192 : Int) = ((192 : Nat) : Int) from rfl, band_nat]
  congr 1
  have hall : ∀ k : Fin 256, (k.val &&& 192) = (TagClass.ofBits k.val).bits := by decide +kernel
  exact hall ⟨m, h⟩

theorem band_32 (m : Nat) (h : m < 256) : Py.band (m : Int) 32 = if m / 32 % 2 = 1 then 32 else 0 := by
  rw [show (32 : Int) = ((32 : Nat) : Int) from rfl, band_nat]
  have hall : ∀ k : Fin 256, (k.val &&& 32) = if k.val / 32 % 2 = 1 then 32 else 0 := by decide +kernel
  rw [hall ⟨m, h⟩]
  split <;> rfl

theorem band_31 (m : Nat) : Py.band (m : Int) 31 = ((m % 32 : Nat) : Int) := by
  rw [show (31 : Int) = ((31 : Nat) : Int) from rfl, band_nat]
  congr 1
  exact Nat.and_two_pow_sub_one_eq_mod m 5

/-- **the identifier decoding of `SingleItemDecoder.__call__` as it is in the source computes the model's `decodeTag`**
    on every input: class, form bit, tag number in short and long form, octets consumed; the input running out inside
    the identifier is the `SubstrateUnderrunError` of the one-shot decoder -/
theorem decodeTag_kernel (bs : Bytes) : GenK.decodeTag (bytesInts bs) = liftDecTag bs.length (decodeTag bs) := by
  unfold GenK.decodeTag
  cases bs with
  | nil => rfl
  | cons b rest =>
    have hb := UInt8.toNat_lt b
    have h0 := readN_one (b :: rest) 0
    simp only [List.length_cons, Nat.zero_lt_succ, dite_true, List.getElem_cons_zero] at h0
    simp only [bind, Except.bind, pure, Except.pure, show ((0 : Int)) = ((0 : Nat) : Int) from rfl, h0, Py.ord,
      band_192 _ hb, band_32 _ hb, band_31, decodeTag]
    by_cases h31 : b.toNat % 32 = 31
    · have h31' : (((b.toNat % 32 : Nat) : Int) = 31) := by omega
      have h31'' : ((b.toNat : Int) % 32 = 31) := by omega
      simp only [h31, if_true]
      have hl := decodeTag_loop1_spec (b :: rest) ((b :: rest).length + 1) 1 0 (b.toNat : Int) 0 (by simp) (by simp only [List.length_cons]; omega)
      simp only [List.drop_succ_cons, List.drop_zero] at hl
      have hfuel : (Py.len (bytesInts (b :: rest))).toNat + 1 = (b :: rest).length + 1 := by
        rw [len_bytes]; omega
      rw [hfuel]
      have e1 : ((0 : Nat) : Int) + 1 = ((1 : Nat) : Int) := rfl
      rw [e1]
      cases hloop : GenK.decodeTag_loop1 (bytesInts (b :: rest)) ((b :: rest).length + 1) ((1 : Nat) : Int) (b.toNat : Int) 0 ((0 : Nat) : Int) with
      | error e =>
        rw [hloop] at hl
        cases hm : decodeTagNum 0 rest with
        | error e2 => rw [hm] at hl; simp [Except.map, liftTagNum] at hl; simp [hl, liftDecTag]
        | ok p => rw [hm] at hl; obtain ⟨num, r⟩ := p; simp [Except.map, liftTagNum] at hl
      | ok v =>
        rw [hloop] at hl
        obtain ⟨p, it, loi, tid⟩ := v
        cases hm : decodeTagNum 0 rest with
        | error e2 => rw [hm] at hl; simp [Except.map, liftTagNum] at hl
        | ok q =>
          rw [hm] at hl; obtain ⟨num, r⟩ := q
          simp only [Except.map, liftTagNum, Except.ok.injEq, Prod.mk.injEq] at hl
          simp [liftDecTag, hl.1, hl.2]
    · have h31' : ¬ (((b.toNat % 32 : Nat) : Int) = 31) := by omega
      have h31'' : ¬ ((b.toNat : Int) % 32 = 31) := by omega
      simp [h31, h31'', liftDecTag]

end Asn1.Kernels
