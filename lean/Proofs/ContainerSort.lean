/-
  Proofs.ContainerSort — SET OF ordering (cer `SetOfEncoder`): the zero-padded octet comparison is a
  total preorder, it is antisymmetric on definite-length framed chunks, hence sorting any
  permutation of the member encodings gives the same list (C04 `setOf_perm_invariant`).
-/
import Asn1.Encoder
import Proofs.TagLen

namespace Asn1

/-! ### lexicographic order on octet strings -/

theorem u8_lt_irrefl (a : UInt8) : ¬ a < a := by
  simp

theorem u8_tri (a b : UInt8) : a < b ∨ a = b ∨ b < a := by
  rcases Nat.lt_trichotomy a.toNat b.toNat with h | h | h
  · exact .inl (UInt8.lt_iff_toNat_lt.mpr h)
  · exact .inr (.inl (UInt8.toNat_inj.mp h))
  · exact .inr (.inr (UInt8.lt_iff_toNat_lt.mpr h))

theorem u8_lt_trans {a b c : UInt8} (h1 : a < b) (h2 : b < c) : a < c := by
  rw [UInt8.lt_iff_toNat_lt] at *; omega

theorem u8_lt_asymm {a b : UInt8} (h1 : a < b) (h2 : b < a) : False := by
  rw [UInt8.lt_iff_toNat_lt] at *; omega

theorem bytesLe_cons (a b : UInt8) (as bs : Bytes) :
    bytesLe (a :: as) (b :: bs) = (decide (a < b) || (a == b && bytesLe as bs)) := rfl

theorem bytesLe_total : ∀ a b : Bytes, (bytesLe a b || bytesLe b a) = true
  | [], _ => by simp [bytesLe]
  | _ :: _, [] => by simp [bytesLe]
  | a :: as, b :: bs => by
    have ih := bytesLe_total as bs
    rw [bytesLe_cons, bytesLe_cons]
    rcases u8_tri a b with h | h | h
    · simp [h]
    · subst h; simpa [u8_lt_irrefl] using ih
    · simp [h]

theorem bytesLe_trans : ∀ a b c : Bytes, bytesLe a b = true → bytesLe b c = true → bytesLe a c = true
  | [], _, _, _, _ => by simp [bytesLe]
  | _ :: _, [], _, h, _ => by simp [bytesLe] at h
  | _ :: _, _ :: _, [], _, h => by simp [bytesLe] at h
  | a :: as, b :: bs, c :: cs, h1, h2 => by
    rw [bytesLe_cons] at *
    simp only [Bool.or_eq_true, decide_eq_true_eq, Bool.and_eq_true, beq_iff_eq] at *
    rcases h1 with h1 | ⟨rfl, h1⟩
    · rcases h2 with h2 | ⟨rfl, _⟩
      · exact .inl (u8_lt_trans h1 h2)
      · exact .inl h1
    · rcases h2 with h2 | ⟨rfl, h2⟩
      · exact .inl h2
      · exact .inr ⟨rfl, bytesLe_trans as bs cs h1 h2⟩

theorem bytesLe_antisymm : ∀ a b : Bytes, bytesLe a b = true → bytesLe b a = true → a = b
  | [], [], _, _ => rfl
  | [], _ :: _, _, h => by simp [bytesLe] at h
  | _ :: _, [], h, _ => by simp [bytesLe] at h
  | a :: as, b :: bs, h1, h2 => by
    rw [bytesLe_cons] at *
    simp only [Bool.or_eq_true, decide_eq_true_eq, Bool.and_eq_true, beq_iff_eq] at *
    rcases h1 with h1 | ⟨rfl, h1⟩
    · rcases h2 with h2 | ⟨rfl, _⟩
      · exact (u8_lt_asymm h1 h2).elim
      · exact (u8_lt_irrefl _ h1).elim
    · rcases h2 with h2 | ⟨_, h2⟩
      · exact (u8_lt_irrefl _ h2).elim
      · rw [bytesLe_antisymm as bs h1 h2]

/-! ### the padded comparison of `sortSetOfChunks` -/

def padLe (m : Nat) (a b : Bytes) : Bool := bytesLe (padTo m a) (padTo m b)

theorem padLe_total (m : Nat) (a b : Bytes) : (padLe m a b || padLe m b a) = true :=
  bytesLe_total _ _

theorem padLe_trans (m : Nat) (a b c : Bytes) : padLe m a b = true → padLe m b c = true → padLe m a c = true :=
  bytesLe_trans _ _ _

theorem padLe_antisymm (m : Nat) (a b : Bytes) : padLe m a b = true → padLe m b a = true →
    padTo m a = padTo m b := bytesLe_antisymm _ _

/-- the largest chunk length does not depend on the order of the chunks -/
theorem maxLen_perm {xs ys : List Bytes} (p : xs.Perm ys) :
    xs.foldl (fun a c => max a c.length) 0 = ys.foldl (fun a c => max a c.length) 0 := by
  apply List.Perm.foldl_eq' p
  intro x _ y _ z
  omega

/-- the padded key determines the chunk (no two distinct members are zero-paddings of one another) -/
def PadInj (l : List Bytes) : Prop :=
  ∀ m, ∀ a ∈ l, ∀ b ∈ l, padTo m a = padTo m b → a = b

/-- **sorting a permutation gives the same list** when the padded key is injective on the members -/
theorem sortSetOfChunks_perm {xs ys : List Bytes} (p : xs.Perm ys) (inj : PadInj xs) :
    sortSetOfChunks xs = sortSetOfChunks ys := by
  unfold sortSetOfChunks
  rw [← p.length_eq, ← maxLen_perm p]
  by_cases h : xs.length > 1
  · simp only [h, if_true]
    generalize xs.foldl (fun a c => max a c.length) 0 = m
    have hx := List.pairwise_mergeSort (le := fun a b => bytesLe (padTo m a) (padTo m b))
      (fun a b c => padLe_trans m a b c) (fun a b => padLe_total m a b) xs
    have hy := List.pairwise_mergeSort (le := fun a b => bytesLe (padTo m a) (padTo m b))
      (fun a b c => padLe_trans m a b c) (fun a b => padLe_total m a b) ys
    have pp : (xs.mergeSort fun a b => bytesLe (padTo m a) (padTo m b)).Perm
        (ys.mergeSort fun a b => bytesLe (padTo m a) (padTo m b)) :=
      ((List.mergeSort_perm xs _).trans p).trans (List.mergeSort_perm ys _).symm
    refine List.Perm.eq_of_pairwise (le := fun a b => bytesLe (padTo m a) (padTo m b) = true) ?_ ?_ ?_ pp
    · intro a b ha hb h1 h2
      have ha' : a ∈ xs := (List.mergeSort_perm xs _).subset ha
      have hb' : b ∈ xs := p.symm.subset ((List.mergeSort_perm ys _).subset hb)
      exact inj m a ha' b hb' (padLe_antisymm m a b h1 h2)
    · exact hx
    · exact hy
  · simp only [h, if_false]
    -- at most one member: the only permutation is the list itself
    have hl : xs.length ≤ 1 := by omega
    match xs, ys, p, hl with
    | [], ys, p, _ => simpa using p.symm.eq_nil
    | [a], ys, p, _ => exact (List.perm_singleton.mp p.symm).symm ▸ rfl

/-! ### definite-length framed chunks have an injective padded key -/

/-- `hdr ++ length octets ++ body` with `|body|` = the encoded length -/
def Framed (hdr : Bytes) (c : Bytes) : Prop :=
  ∃ n l body, encodeLength n = some l ∧ body.length = n ∧ c = hdr ++ l ++ body

theorem padTo_eq (m : Nat) (b : Bytes) : padTo m b = b ++ List.replicate (m - b.length) 0 := rfl

theorem framed_padInj_pair (hdr a b : Bytes) (ha : Framed hdr a) (hb : Framed hdr b) (m : Nat)
    (h : padTo m a = padTo m b) : a = b := by
  obtain ⟨n, l, body, hl, hbody, rfl⟩ := ha
  obtain ⟨n', l', body', hl', hbody', rfl⟩ := hb
  rw [padTo_eq, padTo_eq] at h
  simp only [List.append_assoc] at h
  have h1 := List.append_cancel_left h
  have d1 := decodeLength_encodeLength n l hl (body ++ List.replicate (m - (hdr ++ (l ++ body)).length) 0)
  have d2 := decodeLength_encodeLength n' l' hl' (body' ++ List.replicate (m - (hdr ++ (l' ++ body')).length) 0)
  rw [h1] at d1
  rw [d1] at d2
  simp only [Except.ok.injEq, Prod.mk.injEq, Len.definite.injEq] at d2
  obtain ⟨hn, hrest⟩ := d2
  subst hn
  have hll : l = l' := by rw [hl] at hl'; exact Option.some.inj hl'
  subst hll
  have := List.append_inj hrest (by omega)
  rw [this.1]

theorem framed_padInj (hdr : Bytes) (l : List Bytes) (h : ∀ c ∈ l, Framed hdr c) : PadInj l :=
  fun m a ha b hb e => framed_padInj_pair hdr a b (h a ha) (h b hb) m e

end Asn1
