/-
  Proofs.KernelStream — the methods of `CachingStreamWrapper` (pyasn1/codec/streaming.py; `read`, `peek` and the
  `markedPosition` setter translated from the source into `GenK.wrapRead` / `wrapPeek` / `wrapSetMark`, the `io.BytesIO`
  cache being a value threaded through and what `self._raw.read(...)` answers a parameter) are the steps of the wrapper
  model `Asn1.Stream.Wrapper` about which `Proofs/StreamWrapper.lean` proves that it behaves like a seekable stream.
-/
import Proofs.KernelChunk
import Proofs.StreamWrapper

namespace Asn1.Kernels
open Asn1.Stream

/-- the cache of the model as the `io.BytesIO` value of the translated code -/
def bioOf (w : Wrapper) : Py.BytesIO := ⟨bytesInts w.cache, (w.cpos : Int)⟩

theorem bytesInts_length (b : Bytes) : (bytesInts b).length = b.length := by simp [bytesInts]

theorem bioRead_nat (buf : Bytes) (pos n : Nat) :
    Py.bioRead ⟨bytesInts buf, (pos : Int)⟩ (n : Int) =
      (bytesInts (bioRead buf pos n), ⟨bytesInts buf, ((pos + (bioRead buf pos n).length : Nat) : Int)⟩) := by
  unfold Py.bioRead bioRead
  have h1 : ¬ ((n : Int) < 0) := by omega
  have e1 : (pos : Int).toNat = pos := by omega
  have e2 : (n : Int).toNat = n := by omega
  simp only [h1, if_false, e1, e2, bytesInts_drop, bytesInts_take, bytesInts_length, Int.natCast_add]

theorem bioRead_all (buf : Bytes) (pos : Nat) :
    Py.bioRead ⟨bytesInts buf, (pos : Int)⟩ (-1) =
      (bytesInts (buf.drop pos), ⟨bytesInts buf, ((pos + (buf.drop pos).length : Nat) : Int)⟩) := by
  unfold Py.bioRead
  have h1 : ((-1 : Int) < 0) := by omega
  have e1 : (pos : Int).toNat = pos := by omega
  simp only [h1, if_true, e1, bytesInts_drop, bytesInts_length, Int.natCast_add]

theorem bioWrite_nat (buf : Bytes) (pos : Nat) (hp : pos ≤ buf.length) (data : Bytes) :
    (Py.bioWrite ⟨bytesInts buf, (pos : Int)⟩ (bytesInts data)).2 =
      ⟨bytesInts (bioWrite buf pos data), ((pos + data.length : Nat) : Int)⟩ := by
  unfold Py.bioWrite bioWrite
  have e1 : (pos : Int).toNat = pos := by omega
  have hz : pos - buf.length = 0 := by omega
  cases data with
  | nil =>
    simp only [bytesInts, List.map_nil, List.isEmpty_nil, if_true, hz, List.replicate_zero, List.append_nil,
      List.length_nil, Nat.add_zero, List.take_append_drop]
  | cons d ds =>
    have hne : (bytesInts (d :: ds)).isEmpty = false := rfl
    simp only [hne, Bool.false_eq_true, if_false, e1, bytesInts_length, hz, List.replicate_zero, List.append_nil,
      bytesInts_append, bytesInts_take, bytesInts_drop, Int.natCast_add]

/-- **`CachingStreamWrapper.read(n)` (n ≥ 0) as it is in the source is the model's `Wrapper.read`**, the raw stream
    answering the octets the model takes from it: same octets handed out, same cache contents and position afterwards -/
theorem wrapRead_kernel (w : Wrapper) (n : Nat) (hc : w.cpos ≤ w.cache.length) :
    GenK.wrapRead (some (bytesInts (w.raw.take (n - (bioRead w.cache w.cpos n).length)))) (n : Int) (bioOf w) =
      .ok (some (bytesInts (w.read n).1), bioOf (w.read n).2) := by
  unfold GenK.wrapRead bioOf Wrapper.read
  rw [bioRead_nat]
  generalize hfc : bioRead w.cache w.cpos n = fc
  have hfl : fc.length ≤ n := by
    rw [← hfc]; unfold bioRead; simp [List.length_take]; omega
  have hfl2 : w.cpos + fc.length ≤ w.cache.length := by
    rw [← hfc]; unfold bioRead; simp [List.length_take]; omega
  have hn1 : ((n : Int) ≠ -1) := by omega
  simp only [hn1, ne_eq, not_false_eq_true, decide_true, if_true, len_bytes]
  by_cases hfull : fc.length = n
  · have ht : Py.truthy ((n : Int) - ((fc.length : Nat) : Int)) = false := by
      rw [hfull]; simp [Py.truthy]
    simp only [ht, Bool.not_false, if_true, pure, Except.pure]
    simp only [hfull, if_true]
  · have ht : Py.truthy ((n : Int) - ((fc.length : Nat) : Int)) = true := by
      simp only [Py.truthy, bne_iff_ne, ne_eq]; omega
    simp only [ht, Bool.not_true, Bool.false_eq_true, if_false, hfull, Option.isNone_some, Py.unwrap, bind, Except.bind,
      pure, Except.pure]
    rw [bioWrite_nat w.cache (w.cpos + fc.length) hfl2]
    simp only [bytesInts_append]

/-- `read(-1)`: everything left in the cache, then everything the raw stream still has -/
theorem wrapReadAll_kernel (w : Wrapper) (hc : w.cpos ≤ w.cache.length) :
    GenK.wrapRead (some (bytesInts w.raw)) (-1) (bioOf w) =
      .ok (some (bytesInts w.readAll.1), bioOf w.readAll.2) := by
  unfold GenK.wrapRead bioOf Wrapper.readAll
  rw [bioRead_all]
  have hn1 : ¬ ((-1 : Int) ≠ -1) := by omega
  have hl : w.cpos + (w.cache.drop w.cpos).length ≤ w.cache.length := by simp; omega
  simp only [hn1, decide_false, Bool.false_eq_true, if_false, Option.isNone_some, Py.unwrap, bind, Except.bind, pure, Except.pure]
  rw [bioWrite_nat w.cache (w.cpos + (w.cache.drop w.cpos).length) hl]
  simp only [bytesInts_append]

/-- **`CachingStreamWrapper.peek(n)` as it is in the source is the model's `peek` step**: `read(n)`, then the cache
    position moved back by what was read -/
theorem wrapPeek_kernel (w : Wrapper) (n : Nat) (hc : w.cpos ≤ w.cache.length) :
    GenK.wrapPeek (some (bytesInts (w.raw.take (n - (bioRead w.cache w.cpos n).length)))) (n : Int) (bioOf w) =
      .ok (some (bytesInts (w.read n).1), bioOf { (w.read n).2 with cpos := (w.read n).2.cpos - (w.read n).1.length }) := by
  unfold GenK.wrapPeek
  rw [wrapRead_kernel w n hc]
  generalize w.read n = r
  obtain ⟨out, w'⟩ := r
  simp only [bind, Except.bind, pure, Except.pure, Py.otruthy, bytesInts_isEmpty]
  cases out with
  | nil =>
    simp [bioOf]
  | cons b rest =>
    simp only [List.isEmpty_cons, Bool.not_false, if_true, Py.unwrap, pure, Except.pure, Py.bioSeek, len_bytes, bioOf]
    have h1 : ¬ ((1 : Int) = 0) := by omega
    simp only [h1, if_false, if_true]
    simp only [List.length_cons, Int.natCast_add, Int.natCast_one]
    congr 3
    split <;> omega

/-- **the `markedPosition` setter as it is in the source is the model's `setMark` step** (with the buffer size of the
    source, `io.DEFAULT_BUFFER_SIZE` = 8192): the mark is the current position; once more than a buffer's worth is cached
    the octets before the position are dropped and position and mark restart at 0 -/
theorem wrapSetMark_kernel (w : Wrapper) :
    GenK.wrapSetMark (w.cpos : Int) (bioOf w) (w.mark : Int) =
      .ok (bioOf (w.step 8192 .setMark).2, (((w.step 8192 .setMark).2.mark : Nat) : Int)) := by
  unfold GenK.wrapSetMark Wrapper.step bioOf
  by_cases h : 8192 < w.cpos
  · have hc : ((w.cpos : Int) > 8192) := by omega
    simp only [hc, decide_true, if_true, h, bioRead_all, bind, Except.bind, pure, Except.pure, Py.bioNew]
    rfl
  · have hc : ¬ ((w.cpos : Int) > 8192) := by omega
    simp only [hc, decide_false, Bool.false_eq_true, if_false, h, bind, Except.bind, pure, Except.pure]

end Asn1.Kernels
