/-
  Proofs.Complete — the guided decoder accepts every encoding the rules allow (`IsBer`) and
  returns the encoded value (up to the order of SET OF elements): any header forms, any nesting
  of definite and indefinite lengths, segmented and nested-segmented strings, any TRUE octet,
  SET members in any order, DEFAULT members present or absent.
-/
import Asn1.BerSpec
import Proofs.Placed
import Proofs.RoundTrip
import Proofs.RealRT

namespace Asn1

mutual
/-- types covered: no ANY, string kinds known to the decoder tables -/
def Ty.plain : Ty → Bool
  | .prim (.str k) => allStrKinds.contains k
  | .prim _ => true
  | .any => false
  | .seq fs => Fields.plain fs
  | .set fs => Fields.plain fs
  | .choice fs => Fields.plain fs
  | .seqOf t => t.plain
  | .setOf t => t.plain
  | .tagged _ _ _ t => t.plain
def Fields.plain : Fields → Bool
  | .nil => true
  | .cons _ t r => t.plain && Fields.plain r
end

/-- the decoder's strictness switches admit the profile -/
structure Compat (pf : Profile) (dcfg : DecCfg) : Prop where
  bool : pf.anyTrue = true → dcfg.boolStrict = false
  seg : pf.segmented = true →
    dcfg.consBits = true ∧ allStrKinds.all (fun k => dcfg.consStr.contains k) = true

/-! ### outer tags -/

mutual
theorem plain_outer_some : ∀ (t : Ty), t.plain = true → ∃ l, t.outerTags = some l
  | .choice fs, h => by
      simp only [Ty.plain] at h
      simpa [Ty.outerTags] using plainF_outer_some fs h
  | .any, h => by simp [Ty.plain] at h
  | .prim p, _ => by simp only [Ty.outerTags]; cases (Ty.prim p).tags.getLast? <;> simp
  | .seq fs, _ => by simp only [Ty.outerTags]; cases (Ty.seq fs).tags.getLast? <;> simp
  | .seqOf t, _ => by simp only [Ty.outerTags]; cases (Ty.seqOf t).tags.getLast? <;> simp
  | .set fs, _ => by simp only [Ty.outerTags]; cases (Ty.set fs).tags.getLast? <;> simp
  | .setOf t, _ => by simp only [Ty.outerTags]; cases (Ty.setOf t).tags.getLast? <;> simp
  | .tagged e c n t, _ => by
      simp only [Ty.outerTags]; cases (Ty.tagged e c n t).tags.getLast? <;> simp
theorem plainF_outer_some : ∀ (fs : Fields), Fields.plain fs = true →
    ∃ l, Ty.outerTags.Fields.outerTags fs = some l
  | .nil, _ => ⟨[], by simp [Ty.outerTags.Fields.outerTags]⟩
  | .cons k t r, h => by
      simp only [Fields.plain, Bool.and_eq_true] at h
      obtain ⟨a, ha⟩ := plain_outer_some t h.1
      obtain ⟨b, hb⟩ := plainF_outer_some r h.2
      exact ⟨a ++ b, by simp [Ty.outerTags.Fields.outerTags, ha, hb]⟩
end

theorem tagIn_alt_plain (tg : Tag) : ∀ (fs : Fields) (i : Nat) (kd : FKind) (t : Ty),
    Fields.plain fs = true → fs.get? i = some (kd, t) → TagIn t tg →
    ∃ l, Ty.outerTags.Fields.outerTags fs = some l ∧ l.any (·.same tg) = true
  | .nil, _, _, _, _, hg, _ => by simp [Fields.get?] at hg
  | .cons k' t' r, 0, kd, t, hr, hg, ht => by
      simp only [Fields.get?, Option.some.injEq, Prod.mk.injEq] at hg
      obtain ⟨_, rfl⟩ := hg
      simp only [Fields.plain, Bool.and_eq_true] at hr
      obtain ⟨a, ha, hany⟩ := ht
      obtain ⟨b, hb⟩ := plainF_outer_some r hr.2
      exact ⟨a ++ b, by simp [Ty.outerTags.Fields.outerTags, ha, hb], by simp [List.any_append, hany]⟩
  | .cons k' t' r, i + 1, kd, t, hr, hg, ht => by
      simp only [Fields.get?] at hg
      simp only [Fields.plain, Bool.and_eq_true] at hr
      obtain ⟨a, ha⟩ := plain_outer_some t' hr.1
      obtain ⟨b, hb, hany⟩ := tagIn_alt_plain tg r i kd t hr.2 hg ht
      exact ⟨a ++ b, by simp [Ty.outerTags.Fields.outerTags, ha, hb], by simp [List.any_append, hany]⟩

theorem tagged_last (e : Bool) (cls : TagClass) (num : Nat) (t : Ty) :
    ∃ f, (Ty.tagged e cls num t).tags.getLast? = some ⟨cls, f, num⟩ := by
  cases e with
  | true => exact ⟨true, by simp [Ty.tags]⟩
  | false =>
    simp only [Ty.tags]
    rcases List.eq_nil_or_concat t.tags with hn | ⟨init, last, hl⟩
    · exact ⟨false, by rw [hn, tagImplicitly_nil]; simp⟩
    · exact ⟨last.constructed, by rw [hl, List.concat_eq_append, tagImplicitly_concat]; simp⟩

theorem tagIn_tagged (e : Bool) (cls : TagClass) (num : Nat) (t : Ty) (tg : Tag)
    (hc : tg.cls = cls) (hn : tg.num = num) : TagIn (.tagged e cls num t) tg := by
  obtain ⟨f, hl⟩ := tagged_last e cls num t
  exact tagIn_of_last _ _ tg hl hc.symm hn.symm

/-! ### scalar contents -/

theorem intFromBytes_single_ne (o : UInt8) : (intFromBytes [o] != 0) = (o != 0) := by
  have h : o.toNat < 256 := o.toNat_lt
  simp only [intFromBytes, intFromBytesAux]
  by_cases h0 : o = 0
  · subst h0; rfl
  · have hne : o.toNat ≠ 0 := by
      intro hz; exact h0 (UInt8.toNat_inj.mp (by simpa using hz))
    have : (o != 0) = true := by simpa using h0
    rw [this]
    split <;> simp <;> omega

theorem decBool_false (dcfg : DecCfg) (h : Bytes) (tg : Tag) :
    decPrim dcfg .boolean (.prim h tg [0]) = .ok (.bool false) := by
  simp only [decPrim]
  cases dcfg.boolStrict <;> simp [intFromBytes, intFromBytesAux]

theorem decBool_true (pf : Profile) (dcfg : DecCfg) (hc : Compat pf dcfg) (h : Bytes) (tg : Tag) (o : UInt8)
    (ho : if pf.anyTrue then o ≠ 0 else o = 0xFF) :
    decPrim dcfg .boolean (.prim h tg [o]) = .ok (.bool true) := by
  simp only [decPrim]
  cases hs : dcfg.boolStrict with
  | true =>
    have : pf.anyTrue = false := by
      cases ha : pf.anyTrue with
      | false => rfl
      | true => have := hc.bool ha; rw [hs] at this; exact absurd this (by simp)
    rw [this] at ho
    simp only [Bool.false_eq_true, if_false] at ho
    subst ho
    simp
  | false =>
    simp only [Bool.false_eq_true, if_false, intFromBytes_single_ne]
    have : o ≠ 0 := by
      cases ha : pf.anyTrue with
      | true => rw [ha] at ho; simpa using ho
      | false => rw [ha] at ho; simp only [Bool.false_eq_true, if_false] at ho; subst ho; decide
    simp [this]

/-! ### segmented strings -/

mutual
theorem seg_dec (num : Nat) : ∀ (c : TLV) (b : Bytes), IsSeg num c b → decSegment num c = .ok b
  | .prim h tg c, b, hs => by
      cases hs with
      | prim h1 h2 => simp [decSegment, h1, h2]
  | .cons h tg i cs, b, hs => by
      cases hs with
      | cons h1 h2 h3 =>
        obtain ⟨frs, hd, hf⟩ := segs_dec num cs b h3
        simp [decSegment, h1, h2, hd, Except.map, hf]
theorem segs_dec (num : Nat) : ∀ (cs : List TLV) (bs : Bytes), IsSegs num cs bs →
    ∃ frs, decSegments num cs = .ok frs ∧ frs.flatten = bs
  | [], bs, hs => by
      cases hs
      exact ⟨[], by simp [decSegments], rfl⟩
  | c :: cs, bs, hs => by
      cases hs with
      | @cons _ _ b bs' h1 h2 =>
        obtain ⟨frs, hd, hf⟩ := segs_dec num cs bs' h2
        exact ⟨b :: frs, by simp [decSegments, seg_dec num c b h1, hd, Except.map], by simp [hf]⟩
end

theorem bitSegs_dec : ∀ (cs : List TLV) (bs : List Bool), IsBitSegs cs bs →
    ∃ frags : List (List Bool), decBitSegments cs = .ok (frags.map bitsToContent) ∧ frags.flatten = bs := by
  intro cs bs h
  induction h with
  | nil => exact ⟨[], by simp [decBitSegments], rfl⟩
  | @cons h tg f cs bs h1 h2 _ ih =>
    obtain ⟨frags, hd, hf⟩ := ih
    exact ⟨f :: frags, by simp [decBitSegments, h1, h2, hd, Except.map], by simp [hf]⟩


/-! ### the decoder is complete for `IsBer` -/

/-- what decoding an element gives: a value equal to the encoded one up to `VEq` -/
def Dec (dcfg : DecCfg) (t : Ty) (v : Val) (x : TLV) : Prop :=
  ∃ w, decTy dcfg t x = .ok w ∧ VEq t v w ∧ TagIn t x.tag

theorem elems_dec (pf : Profile) (dcfg : DecCfg) (t : Ty)
    (ih : ∀ v c, IsBer pf t v c → Dec dcfg t v c) : ∀ {vs cs}, IsElems pf t vs cs →
    ∃ ws, decElems dcfg t cs = .ok ws ∧ All2 (fun a b => VEq t a b) vs ws := by
  intro vs cs h
  -- induction on the list of children
  induction cs generalizing vs with
  | nil =>
    cases h
    exact ⟨[], by simp [decElems], trivial⟩
  | cons c cs ihl =>
    cases h with
    | cons h1 h2 =>
      obtain ⟨w, hd, hv, _⟩ := ih _ c h1
      obtain ⟨ws, hds, hvs⟩ := ihl h2
      exact ⟨w :: ws, by simp [decElems, hd, hds, Except.map], ⟨hv, hvs⟩⟩

variable (pf : Profile) (dcfg : DecCfg) (hc : Compat pf dcfg)
include hc

mutual
theorem complete_ty : ∀ (t : Ty) (v : Val) (x : TLV), t.plain = true → t.WF = true →
    IsBer pf t v x → Dec dcfg t v x
  | .tagged true cls num t, v, x, hp, hw, h => by
      simp only [Ty.WF, Bool.and_eq_true] at hw
      cases h with
      | @explicit _ _ _ _ hh tg i c h1 h2 h3 =>
        obtain ⟨w, hd, hv, _⟩ := complete_ty t v c (by simpa [Ty.plain] using hp) hw.2 h3
        refine ⟨w, ?_, by simpa [VEq] using hv, tagIn_tagged true cls num t tg h1 h2⟩
        rw [decTy_explicit_one]; simp [h1, h2, hd]
  | .tagged false cls num t, v, x, hp, hw, h => by
      simp only [Ty.WF] at hw
      cases h with
      | implicit h1 h2 h3 =>
        obtain ⟨w, hd, hv⟩ := complete_body t v x (by simpa [Ty.plain] using hp) hw h3
        refine ⟨w, ?_, by simpa [VEq] using hv, tagIn_tagged false cls num t x.tag h1 h2⟩
        simp [decTy, h1, h2, hd]
  | .choice fs, v, x, hp, hw, h => by
      simp only [Ty.WF, Bool.and_eq_true] at hw
      simp only [Ty.plain] at hp
      cases h with
      | @choice _ i w _ ha =>
        obtain ⟨kd, t, w', hg, htag, hd, hv⟩ := complete_alt fs i w x hp hw.1.1 ha
        have hdisp := alt_dispatch dcfg x fs i 0 kd t hw.1.2 hg htag
        rw [hd] at hdisp
        simp only [Except.map, Nat.zero_add] at hdisp
        refine ⟨.choice i w', by simp [decTy, hdisp], ⟨rfl, hv⟩, ?_⟩
        obtain ⟨l, hl, hany⟩ := tagIn_alt_plain x.tag fs i kd t hp hg htag
        exact ⟨l, by simp [Ty.outerTags, hl], hany⟩
  | .any, _, _, hp, _, _ => by simp [Ty.plain] at hp
  | .prim p, v, x, hp, hw, h => by
      cases h with
      | prim h1 h2 h3 =>
        obtain ⟨w, hd, hv⟩ := complete_body (.prim p) v x hp hw h3
        refine ⟨w, ?_, hv, tagIn_of_last _ ⟨.universal, false, p.univNum⟩ x.tag (by simp [Ty.tags]) h1.symm h2.symm⟩
        simp only [decTy, h1, h2, and_self, if_true]
        simpa [decBody] using hd
  | .seq fs, v, x, hp, hw, h => by
      cases h with
      | seq h1 h2 h3 =>
        obtain ⟨w, hd, hv⟩ := complete_body (.seq fs) v x hp hw h3
        refine ⟨w, by simp [decTy, h1, h2, hd], hv,
          tagIn_of_last _ ⟨.universal, true, 16⟩ x.tag (by simp [Ty.tags]) h1.symm h2.symm⟩
  | .seqOf t, v, x, hp, hw, h => by
      cases h with
      | seqOf h1 h2 h3 =>
        obtain ⟨w, hd, hv⟩ := complete_body (.seqOf t) v x hp hw h3
        refine ⟨w, by simp [decTy, h1, h2, hd], hv,
          tagIn_of_last _ ⟨.universal, true, 16⟩ x.tag (by simp [Ty.tags]) h1.symm h2.symm⟩
  | .set fs, v, x, hp, hw, h => by
      cases h with
      | set h1 h2 h3 =>
        obtain ⟨w, hd, hv⟩ := complete_body (.set fs) v x hp hw h3
        refine ⟨w, by simp [decTy, h1, h2, hd], hv,
          tagIn_of_last _ ⟨.universal, true, 17⟩ x.tag (by simp [Ty.tags]) h1.symm h2.symm⟩
  | .setOf t, v, x, hp, hw, h => by
      cases h with
      | setOf h1 h2 h3 =>
        obtain ⟨w, hd, hv⟩ := complete_body (.setOf t) v x hp hw h3
        refine ⟨w, by simp [decTy, h1, h2, hd], hv,
          tagIn_of_last _ ⟨.universal, true, 17⟩ x.tag (by simp [Ty.tags]) h1.symm h2.symm⟩
theorem complete_body : ∀ (t : Ty) (v : Val) (x : TLV), t.plain = true → t.WF = true →
    IsBody pf t v x → ∃ w, decBody dcfg t x = .ok w ∧ VEq t v w
  | .tagged true cls num t, v, x, hp, hw, h => by
      simp only [Ty.WF, Bool.and_eq_true] at hw
      cases h with
      | @explicit _ _ _ _ hh tg i c h3 =>
        obtain ⟨w, hd, hv, _⟩ := complete_ty t v c (by simpa [Ty.plain] using hp) hw.2 h3
        exact ⟨w, by rw [decBody_explicit_one]; exact hd, by simpa [VEq] using hv⟩
  | .tagged false cls num t, v, x, hp, hw, h => by
      simp only [Ty.WF] at hw
      cases h with
      | implicit h3 =>
        obtain ⟨w, hd, hv⟩ := complete_body t v x (by simpa [Ty.plain] using hp) hw h3
        exact ⟨w, by simpa [decBody] using hd, by simpa [VEq] using hv⟩
  | .any, _, _, hp, _, _ => by simp [Ty.plain] at hp
  | .prim p, v, x, hp, hw, h => by
      cases h with
      | boolFalse => exact ⟨.bool false, by simp only [decBody]; exact decBool_false dcfg _ _, by simp [VEq]⟩
      | boolTrue ho => exact ⟨.bool true, by simp only [decBody]; exact decBool_true pf dcfg hc _ _ _ ho, by simp [VEq]⟩
      | @int z hh tg => exact ⟨.int z, by simp [decBody, decPrim, intFromBytes_intToBytes], by simp [VEq]⟩
      | @enum z hh tg => exact ⟨.int z, by simp [decBody, decPrim, intFromBytes_intToBytes], by simp [VEq]⟩
      | null => exact ⟨.null, by simp [decBody, decPrim], by simp [VEq]⟩
      | @oid arcs c hh tg ho =>
        exact ⟨.oid arcs, by simp [decBody, decPrim, oidFromContent_oidToContent _ _ ho, Except.map], by simp [VEq]⟩
      | @real r c hh tg hr =>
        cases r with
        | pinf =>
          simp only [realContent, Option.some.injEq] at hr
          subst hr
          exact ⟨.real .pinf, by simp [decBody, decPrim, realFromContent, Except.map], by simp [VEq]⟩
        | minf =>
          simp only [realContent, Option.some.injEq] at hr
          subst hr
          exact ⟨.real .minf, by simp [decBody, decPrim, realFromContent, Except.map], by simp [VEq]⟩
        | fin m b e =>
          simp only [realContent] at hr
          by_cases hm : m = 0
          · simp only [hm, if_true, Option.some.injEq] at hr
            subst hr
            exact ⟨.real (.fin 0 10 0), by simp [decBody, decPrim, realFromContent, Except.map],
              by simp [VEq, realKey, hm]⟩
          · simp only [hm, if_false] at hr
            by_cases hb : b = 2
            · simp only [hb, if_true] at hr
              obtain ⟨r', hd, hk⟩ := realFromContent_realBinToContent m e c hm hr
              exact ⟨.real r', by simp [decBody, decPrim, hd, Except.map], by
                simp only [VEq]; rw [hk, hb]⟩
            · simp [hb] at hr
      | @bits bs hh tg => exact ⟨.bits bs, by simp [decBody, decPrim, bitsFromContent_bitsToContent, Except.map], by simp [VEq]⟩
      | @bitsSeg bs hh tg i cs hs hne hsegs =>
        obtain ⟨frags, hd, hf⟩ := bitSegs_dec cs bs hsegs
        have hemp : cs.isEmpty = false := by
          cases cs with
          | nil => exact absurd rfl hne
          | cons _ _ => rfl
        refine ⟨.bits bs, ?_, by simp [VEq]⟩
        simp only [decBody, decPrim, hemp, Bool.and_false, Bool.false_eq_true, if_false, (hc.seg hs).1,
          if_true, hd, concatBitFrags_map]
        simp [Except.map, hf]
      | @str k bs hh tg => exact ⟨.str bs, by simp [decBody, decPrim], by simp [VEq]⟩
      | @strSeg k bs hh tg i cs hs hsegs =>
        obtain ⟨frs, hd, hf⟩ := segs_dec 4 cs bs hsegs
        have hk : dcfg.consStr.contains k = true := by
          have hk' : allStrKinds.contains k = true := by simpa [Ty.plain] using hp
          exact List.all_eq_true.mp (hc.seg hs).2 k (by simpa using hk')
        refine ⟨.str bs, ?_, by simp [VEq]⟩
        simp only [decBody, decPrim, hk, if_true, hd]
        simp [Except.map, hf]
  | .seq fs, v, x, hp, hw, h => by
      simp only [Ty.WF, Bool.and_eq_true] at hw
      simp only [Ty.plain] at hp
      cases h with
      | @seq _ vs hh tg i cs hf =>
        obtain ⟨ws, hpl⟩ := complete_fields fs vs cs 0 hp hw.1 hf
        obtain ⟨hd, _⟩ := seq_dispatch2 dcfg hpl hw.2
        exact ⟨.seq ws, by simp [decBody, hd, Except.map], by simpa [VEq] using placed_veq dcfg hpl hw.1⟩
  | .set fs, v, x, hp, hw, h => by
      simp only [Ty.WF, Bool.and_eq_true] at hw
      simp only [Ty.plain] at hp
      cases h with
      | @set _ vs hh tg i cs ms hf hperm =>
        obtain ⟨ws, hpl⟩ := complete_fields fs vs ms 0 hp hw.1 hf
        obtain ⟨hd, hap⟩ := set_dispatch2 dcfg fs vs ms cs ws hpl hperm hw.2
        exact ⟨.seq ws, by simp [decBody, hd, hap], by simpa [VEq] using placed_veq dcfg hpl hw.1⟩
  | .seqOf t, v, x, hp, hw, h => by
      simp only [Ty.WF] at hw
      simp only [Ty.plain] at hp
      cases h with
      | @seqOf _ vs hh tg i cs he =>
        obtain ⟨ws, hd, hv⟩ := elems_dec pf dcfg t (fun v c hb => complete_ty t v c hp hw hb) he
        exact ⟨.seqOf ws, by simp [decBody, hd, Except.map], by simpa [VEq] using hv⟩
  | .setOf t, v, x, hp, hw, h => by
      simp only [Ty.WF] at hw
      simp only [Ty.plain] at hp
      cases h with
      | @setOf _ vs ws hh tg i cs he hperm =>
        obtain ⟨ws', hd, hv⟩ := elems_dec pf dcfg t (fun v c hb => complete_ty t v c hp hw hb) he
        obtain ⟨cs', h1, h2⟩ := all2_perm hperm hv
        exact ⟨.seqOf ws', by simp [decBody, hd, Except.map], by simp only [VEq]; exact ⟨cs', h1, h2⟩⟩
  | .choice fs, v, x, hp, hw, h => by
      simp only [Ty.WF, Bool.and_eq_true] at hw
      simp only [Ty.plain] at hp
      cases h with
      | @choice _ i w hh tg ind c ha =>
        obtain ⟨kd, t, w', hg, htag, hd, hv⟩ := complete_alt fs i w c hp hw.1.1 ha
        have hdisp := alt_dispatch dcfg c fs i 0 kd t hw.1.2 hg htag
        rw [hd] at hdisp
        simp only [Except.map, Nat.zero_add] at hdisp
        exact ⟨.choice i w', by simp [decBody, hdisp], ⟨rfl, hv⟩⟩
theorem complete_fields : ∀ (fs : Fields) (vs : List Val) (cs : List TLV) (k : Nat),
    Fields.plain fs = true → Fields.WF fs = true → IsFields pf fs vs cs →
    ∃ ws, Placed (ElemDec dcfg) k fs vs cs ws
  | .nil, vs, cs, k, _, _, h => by
      cases h
      exact ⟨[], .nil⟩
  | .cons kd t rest, vs, cs, k, hp, hw, h => by
      simp only [Fields.plain, Bool.and_eq_true] at hp
      have hw' : t.WF = true ∧ Fields.WF rest = true := by
        cases kd <;> simp_all [Fields.WF]
      cases h with
      | absentOpt hr =>
        obtain ⟨ws, hpl⟩ := complete_fields rest _ cs (k + 1) hp.2 hw'.2 hr
        exact ⟨_, .skipOpt hpl⟩
      | absentDflt hr =>
        obtain ⟨ws, hpl⟩ := complete_fields rest _ cs (k + 1) hp.2 hw'.2 hr
        exact ⟨_, .skipDflt hpl⟩
      | @present _ _ _ v vs' c cs' hb hr =>
        obtain ⟨w, hd, hv, htag⟩ := complete_ty t v c hp.1 hw'.1 hb
        obtain ⟨ws, hpl⟩ := complete_fields rest vs' cs' (k + 1) hp.2 hw'.2 hr
        have hna : w ≠ .absent := by
          intro he
          have := sound_ty dcfg t c w hw'.1 hd
          rw [he, HasType_ne_absent] at this
          exact absurd this (by simp)
        exact ⟨w :: ws, .present ⟨htag, hd, hv, hna⟩ hpl⟩
theorem complete_alt : ∀ (fs : Fields) (i : Nat) (w : Val) (x : TLV),
    Fields.plain fs = true → Fields.WF fs = true → IsAlt pf fs i w x →
    ∃ kd t w', fs.get? i = some (kd, t) ∧ TagIn t x.tag ∧ decTy dcfg t x = .ok w' ∧ VEqAlt fs i w w'
  | .nil, _, _, _, _, _, h => by cases h
  | .cons kd t rest, i, w, x, hp, hw, h => by
      simp only [Fields.plain, Bool.and_eq_true] at hp
      have hw' : t.WF = true ∧ Fields.WF rest = true := by
        cases kd <;> simp_all [Fields.WF]
      cases h with
      | here hb =>
        obtain ⟨w', hd, hv, htag⟩ := complete_ty t w x hp.1 hw'.1 hb
        exact ⟨kd, t, w', by simp [Fields.get?], htag, hd, by simpa [VEqAlt] using hv⟩
      | @there _ _ _ j _ _ ha =>
        obtain ⟨kd', t', w', hg, htag, hd, hv⟩ := complete_alt rest j w x hp.2 hw'.2 ha
        exact ⟨kd', t', w', by simpa [Fields.get?] using hg, htag, hd, by simpa [VEqAlt] using hv⟩
end

end Asn1
