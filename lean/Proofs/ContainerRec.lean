/-
  Proofs.ContainerRec — SEQUENCE / SET objects with declared fields refine the dict prototype:
  under the shape invariant `Rec.Inv`, every operation of the object model returns what the
  prototype returns on the abstracted state `absD` and the abstraction commutes with the step.
-/
import Asn1.Container
import Proofs.ContainerDict

namespace Asn1.Container
open DictSpec

theorem setNth_eq_set {α} (l : List α) (k : Nat) (a : α) : setNth l k a = l.set k a := by
  induction l generalizing k with
  | nil => rfl
  | cons x l ih => cases k <;> simp [setNth, ih]

theorem pyIdx_lt (n : Nat) (i : Int) (k : Nat) (h : pyIdx n i = some k) : k < n := by
  unfold pyIdx at h
  split at h
  · split at h
    · simp only [Option.some.injEq] at h; omega
    · simp at h
  · split at h
    · simp only [Option.some.injEq] at h; omega
    · simp at h

theorem pyIdx_zero (i : Int) : pyIdx 0 i = none := by
  unfold pyIdx
  split
  · simp
  · split
    · omega
    · rfl

/-- `componentValues[idx]` on a list that is empty or padded to the declared length -/
theorem slot_shape (n : Nat) (l : List Comp) (i : Int) (hl : l = [] ∨ l.length = n) :
    Rec.slot l i = match pyIdx n i with | some k => l[k]? | none => none := by
  unfold Rec.slot
  rcases hl with rfl | hl
  · simp only [List.length_nil, pyIdx_zero, Option.bind_none]
    cases pyIdx n i <;> simp
  · rw [hl]
    cases pyIdx n i <;> rfl

variable {fields : List FK}

theorem comps_shape {st : RecSt} (hinv : Rec.Inv fields st) :
    (st.comps.getD []) = [] ∨ (st.comps.getD []).length = fields.length := by
  cases hc : st.comps with
  | none => simp
  | some l =>
    rcases (hinv.2 l hc).1 with h | h
    · exact .inl (by simpa using h)
    · exact .inr (by simpa using h.1)

theorem slot_getD {st : RecSt} (hinv : Rec.Inv fields st) (i : Int) :
    st.comps.bind (fun l => Rec.slot l i) =
      match pyIdx fields.length i with | some k => (st.comps.getD [])[k]? | none => none := by
  cases hc : st.comps with
  | none => simp; cases pyIdx fields.length i <;> rfl
  | some l =>
    have := comps_shape hinv
    rw [hc] at this
    simpa using slot_shape fields.length l i (by simpa using this)

theorem cur_abs {st : RecSt} (hinv : Rec.Inv fields st) (i : Int) :
    ((st.comps.bind (fun l => Rec.slot l i)).getD .hole).get? = cur fields (Rec.absD st) i := by
  rw [slot_getD hinv]
  unfold cur Rec.absD
  cases pyIdx fields.length i with
  | none => rfl
  | some k =>
    cases hc : st.comps with
    | none => simp [Comp.get?]
    | some l =>
      simp only [Option.getD_some, Option.map_some, List.getElem?_map]
      cases l[k]? with
      | none => simp [Comp.get?]
      | some c => simp

theorem alloc_abs {st : RecSt} (hinv : Rec.Inv fields st) (i : Int) (k : Nat)
    (hk : pyIdx fields.length i = some k) :
    (if (Rec.slot (st.comps.getD []) i).isSome then st.comps.getD [] else List.replicate fields.length Comp.hole).map Comp.get?
      = alloc fields (Rec.absD st) := by
  have hs := comps_shape hinv
  rw [slot_shape fields.length _ i hs, hk]
  unfold alloc Rec.absD
  have hkl := pyIdx_lt _ _ _ hk
  rcases hs with h | h
  · simp only [h, List.getElem?_nil, Option.isSome_none, Bool.false_eq_true, if_false, List.map_replicate]
    cases hc : st.comps with
    | none => simp [Comp.get?]
    | some l => rw [hc] at h; simp at h; subst h; simp [Comp.get?]
  · have : k < (st.comps.getD []).length := by omega
    simp only [List.getElem?_eq_getElem this, Option.isSome_some, if_true]
    cases hc : st.comps with
    | none => rw [hc] at this; simp at this
    | some l =>
      rw [hc] at this
      simp only [Option.getD_some, Option.map_some]
      have : l ≠ [] := by intro h0; subst h0; simp at this
      simp [this]

theorem typeObj_get (fk : FK) : (Rec.typeObj fk).get? = dflt fk := by
  cases fk <;> rfl

theorem typeObj_not_hole (fk : FK) : (Rec.typeObj fk).isHole = false := by
  cases fk <;> rfl


theorem all_isHole_set_false (l : List Comp) (k : Nat) (c : Comp) (hk : k < l.length) (hc : c.isHole = false) :
    (l.set k c).all (·.isHole) = false := by
  rw [List.all_eq_false]
  exact ⟨c, List.mem_set hk c, by simp [hc]⟩

/-- what the padded-or-kept list looks like before the assignment -/
theorem base_shape {st : RecSt} (hinv : Rec.Inv fields st) (i : Int) (k : Nat)
    (hk : pyIdx fields.length i = some k) :
    let l := (if (Rec.slot (st.comps.getD []) i).isSome then st.comps.getD [] else List.replicate fields.length Comp.hole)
    l.length = fields.length ∧ (∀ (j : Nat) (d : Int), fields[j]? = some (FK.dflt d) → l[j]? ≠ some Comp.ph) := by
  have hs := comps_shape hinv
  simp only
  rw [slot_shape fields.length _ i hs, hk]
  have hkl := pyIdx_lt _ _ _ hk
  rcases hs with h | h
  · simp only [h, List.getElem?_nil, Option.isSome_none, Bool.false_eq_true, if_false, List.length_replicate, true_and]
    intro j d _ hj
    rw [List.getElem?_replicate] at hj
    split at hj <;> simp at hj
  · have : k < (st.comps.getD []).length := by omega
    simp only [List.getElem?_eq_getElem this, Option.isSome_some, if_true, h, true_and]
    cases hc : st.comps with
    | none => rw [hc] at this; simp at this
    | some l => simpa using (hinv.2 l hc).2

theorem inv_of_set {st : RecSt} (hinv : Rec.Inv fields st) (l : List Comp) (k : Nat) (c : Comp)
    (hlen : l.length = fields.length) (hk : k < fields.length) (hc : c.isHole = false)
    (hd : ∀ (j : Nat) (d : Int), fields[j]? = some (FK.dflt d) → l[j]? ≠ some Comp.ph)
    (hcd : ∀ d : Int, fields[k]? = some (FK.dflt d) → c ≠ Comp.ph) :
    Rec.Inv fields { st with comps := some (l.set k c) } := by
  refine ⟨hinv.1, ?_⟩
  intro l' hl'
  simp only [Option.some.injEq] at hl'
  subst hl'
  refine ⟨.inr ⟨by simpa using hlen, all_isHole_set_false l k c (by omega) hc⟩, ?_⟩
  intro j d hj
  by_cases hjk : k = j
  · subst hjk
    rw [List.getElem?_set_self (by omega)]
    intro h; exact hcd d hj (Option.some.inj h)
  · rw [List.getElem?_set_ne hjk]; exact hd j d hj

/-- assignment commutes with the abstraction and keeps the invariant; it fails exactly when the
    prototype's assignment fails -/
theorem setAt_abs {st : RecSt} (hinv : Rec.Inv fields st) (hN : fields.length ≠ 0) (i : Int) (a : Option Arg) :
    match Rec.setAt fields st i a with
    | some st' => DictSpec.setAt fields (Rec.absD st) i a = some (Rec.absD st') ∧ Rec.Inv fields st'
    | none => DictSpec.setAt fields (Rec.absD st) i a = none := by
  unfold Rec.setAt DictSpec.setAt
  simp only [hN, ne_eq, not_false_eq_true, if_true]
  cases hk : pyIdx fields.length i with
  | none => simp
  | some k =>
    have hkl := pyIdx_lt _ _ _ hk
    have hal := alloc_abs hinv i k hk
    obtain ⟨hlen, hd⟩ := base_shape hinv i k hk
    have hfk : ∃ fk, fields[k]? = some fk := ⟨_, List.getElem?_eq_getElem hkl⟩
    obtain ⟨fk, hfk⟩ := hfk
    simp only [hfk, setNth_eq_set]
    cases a with
    | none =>
      simp only
      refine ⟨?_, inv_of_set hinv _ k _ hlen hkl (typeObj_not_hole fk) hd ?_⟩
      · simp only [Rec.absD, Option.map_some, List.map_set, hal, typeObj_get]
      · intro d hdk; rw [hfk] at hdk; cases hdk; simp [Rec.typeObj]
    | some a =>
      cases a with
      | py z =>
        simp only
        refine ⟨?_, inv_of_set hinv _ k _ hlen hkl rfl hd (by intro d _; simp)⟩
        simp only [Rec.absD, Option.map_some, List.map_set, hal, Comp.get?]
      | obj z =>
        simp only
        refine ⟨?_, inv_of_set hinv _ k _ hlen hkl rfl hd (by intro d _; simp)⟩
        simp only [Rec.absD, Option.map_some, List.map_set, hal, Comp.get?]
      | bad => simp


theorem set_same {α} (l : List α) (k : Nat) (x : α) (h : l[k]? = some x) : l.set k x = l := by
  induction l generalizing k with
  | nil => rfl
  | cons a l ih =>
    cases k with
    | zero => simp at h; simp [h]
    | succ k => simp at h; simp [ih k h]

/-- reading a component commutes with the abstraction and keeps the invariant -/
theorem getAt_abs {st : RecSt} (hinv : Rec.Inv fields st) (hN : fields.length ≠ 0) (i : Int) (inst : Bool) :
    (Rec.getAt fields st i inst).2 = (DictSpec.getAt fields (Rec.absD st) i inst).2 ∧
    Rec.absD (Rec.getAt fields st i inst).1 = (DictSpec.getAt fields (Rec.absD st) i inst).1 ∧
    Rec.Inv fields (Rec.getAt fields st i inst).1 := by
  have hcur := cur_abs hinv i
  have hslot := slot_getD hinv i
  unfold Rec.getAt DictSpec.getAt
  simp only
  rw [← hcur]
  cases hc : (st.comps.bind fun l => Rec.slot l i).getD Comp.hole with
  | val z =>
    simp only [Comp.get?]
    cases inst <;> simp [Comp.isVal, Comp.isHole, hinv]
  | hole =>
    simp only [Comp.get?]
    cases inst with
    | false => simp [Comp.isVal, hinv]
    | true =>
      simp only [Bool.not_true, Bool.false_eq_true, if_false, Comp.isHole, if_true]
      have hset := setAt_abs hinv hN i none
      cases hk : pyIdx fields.length i with
      | none =>
        have : Rec.setAt fields st i none = none := by
          unfold Rec.setAt; simp [hN, hk]
        simp [this, hinv]
      | some k =>
        have hkl := pyIdx_lt _ _ _ hk
        obtain ⟨fk, hfk⟩ : ∃ fk, fields[k]? = some fk := ⟨_, List.getElem?_eq_getElem hkl⟩
        obtain ⟨hlen, _⟩ := base_shape hinv i k hk
        generalize hbase : (if (Rec.slot (st.comps.getD []) i).isSome then st.comps.getD []
          else List.replicate fields.length Comp.hole) = base at hlen
        have hsome : Rec.setAt fields st i none =
            some { st with comps := some (base.set k (Rec.typeObj fk)) } := by
          unfold Rec.setAt; simp [hN, hk, hfk, setNth_eq_set, hbase]
        rw [hsome] at hset ⊢
        simp only [hfk]
        obtain ⟨h1, h2⟩ := hset
        refine ⟨?_, ?_, h2⟩
        · -- the component returned is the one just stored
          simp only [Option.bind_some]
          rw [slot_shape fields.length _ i (.inr (by simpa using hlen)), hk]
          simp only
          rw [List.getElem?_set_self (show k < base.length by omega)]
          cases fk <;> rfl
        · unfold DictSpec.setAt at h1
          simp only [hk, hfk, Option.some.injEq] at h1
          exact h1.symm
  | ph =>
    simp only [Comp.get?]
    cases inst with
    | false => simp [Comp.isVal, hinv]
    | true =>
      simp only [Bool.not_true, Bool.false_eq_true, if_false, Comp.isHole]
      -- the slot exists and holds a placeholder: its field is not a DEFAULT one
      rw [hslot] at hc
      cases hk : pyIdx fields.length i with
      | none => simp [hk] at hc
      | some k =>
        simp only [hk] at hc
        have hkl := pyIdx_lt _ _ _ hk
        obtain ⟨fk, hfk⟩ : ∃ fk, fields[k]? = some fk := ⟨_, List.getElem?_eq_getElem hkl⟩
        cases hcs : st.comps with
        | none => simp [hcs] at hc
        | some l =>
          rw [hcs] at hc
          simp only [Option.getD_some] at hc
          have hlk : l[k]? = some Comp.ph := by
            cases hx : l[k]? with
            | none => simp [hx] at hc
            | some x => simp [hx] at hc; rw [hc]
          have hnd : dflt fk = none := by
            cases fk with
            | dflt d => exact absurd hlk ((hinv.2 l hcs).2 k d hfk)
            | req => rfl
            | opt => rfl
          simp only [hfk, hnd]
          refine ⟨by first | rfl | trivial, ?_, hinv⟩
          have hne : l ≠ [] := by intro h0; subst h0; simp at hlk
          simp only [Rec.absD, hcs, Option.map_some, alloc, Option.getD_some, List.isEmpty_iff, List.map_eq_nil_iff,
            hne, if_false, Option.some.injEq]
          rw [set_same]
          simp [hlk, Comp.get?]


theorem getMany_abs {st : RecSt} (hinv : Rec.Inv fields st) (hN : fields.length ≠ 0) (ks : List Nat) :
    (Rec.getMany fields st ks).2 = (DictSpec.getMany fields (Rec.absD st) ks).2 ∧
    Rec.absD (Rec.getMany fields st ks).1 = (DictSpec.getMany fields (Rec.absD st) ks).1 ∧
    Rec.Inv fields (Rec.getMany fields st ks).1 := by
  induction ks generalizing st with
  | nil => exact ⟨rfl, rfl, hinv⟩
  | cons k ks ih =>
    obtain ⟨h1, h2, h3⟩ := getAt_abs hinv hN (k : Int) true
    unfold Rec.getMany DictSpec.getMany
    generalize hr : Rec.getAt fields st (k : Int) true = r at h1 h2 h3
    generalize hq : DictSpec.getAt fields (Rec.absD st) (k : Int) true = q at h1 h2
    obtain ⟨st1, o1⟩ := r
    obtain ⟨s1, o2⟩ := q
    simp only at h1 h2 h3
    subst h1 h2
    cases o1 with
    | comp c =>
      simp only
      obtain ⟨i1, i2, i3⟩ := ih h3
      generalize hr2 : Rec.getMany fields st1 ks = r2 at i1 i2 i3
      generalize hq2 : DictSpec.getMany fields (Rec.absD st1) ks = q2 at i1 i2
      obtain ⟨st2, o3⟩ := r2
      obtain ⟨s2, o4⟩ := q2
      simp only at i1 i2 i3
      subst i1 i2
      cases o3 <;> exact ⟨rfl, rfl, i3⟩
    | unit | nat _ | bool _ | comps _ | names _ | items _ | bytes _ | lookupErr | libErr | valueErr =>
      exact ⟨rfl, rfl, h3⟩

theorem isValue_abs {st : RecSt} (hN : fields.length ≠ 0) :
    Rec.isValue fields st = DictSpec.isValue fields (Rec.absD st) := by
  unfold Rec.isValue DictSpec.isValue Rec.absD
  cases st.comps with
  | none => rfl
  | some l =>
    simp only [hN, ne_eq, not_false_eq_true, if_true, Option.map_some, reqSet]
    congr 1
    funext k
    cases fields[k]? with
    | none => rfl
    | some fk =>
      cases fk with
      | req =>
        simp only [List.getElem?_map]
        cases l[k]? with
        | none => rfl
        | some c => cases c <;> rfl
      | opt => rfl
      | dflt d => rfl

theorem pyIdx_nat (n k : Nat) (h : k < n) : pyIdx n (k : Int) = some k := by
  unfold pyIdx; simp [h]

theorem encTouch_value {st : RecSt} (hinv : Rec.Inv fields st) (eager : Bool) (ks : List Nat)
    (hks : ∀ k ∈ ks, k < fields.length)
    (hv : ∀ k ∈ ks, fields[k]? = some FK.req →
      ((st.comps.bind (fun l => Rec.slot l (k : Int))).getD Comp.hole).isVal = true) :
    Rec.encTouch fields eager st ks = st := by
  induction ks with
  | nil => rfl
  | cons k ks ih =>
    have ih' := ih (fun k' h' => hks k' (List.mem_cons_of_mem _ h')) (fun k' h' => hv k' (List.mem_cons_of_mem _ h'))
    unfold Rec.encTouch
    cases hf : fields[k]? with
    | none => simpa using ih'
    | some fk =>
      cases fk with
      | req => simp only [hv k List.mem_cons_self hf, if_true]; exact ih'
      | opt => simpa using ih'
      | dflt d => simpa using ih'

theorem eqItems_bool (cs l : List Comp) (b : Bool) (h : Rec.eqItems cs l = .bool b) :
    (cs.map Comp.get? == l.map Comp.get?) = b := by
  induction cs generalizing l with
  | nil =>
    cases l with
    | nil => simp [Rec.eqItems] at h; simp [← h]
    | cons c l => simp [Rec.eqItems] at h; simp [← h]
  | cons o os ih =>
    cases l with
    | nil => simp [Rec.eqItems] at h; simp [← h]
    | cons c l =>
      cases o with
      | hole =>
        cases c with
        | hole =>
          simp only [Rec.eqItems] at h
          have := ih l h
          simpa [Comp.get?] using this
        | ph => simp [Rec.eqItems] at h
        | val z => simp [Rec.eqItems] at h
      | ph => cases c <;> simp [Rec.eqItems] at h
      | val v =>
        cases c with
        | hole => simp [Rec.eqItems] at h
        | ph => simp [Rec.eqItems] at h
        | val z =>
          simp only [Rec.eqItems] at h
          by_cases hvz : v = z
          · subst hvz
            simp only [if_true] at h
            have := ih l h
            simpa [Comp.get?] using this
          · simp only [hvz, if_false, Out.bool.injEq] at h
            subst h
            simp [Comp.get?, hvz]

theorem eqItems_shape (cs l : List Comp) :
    (∃ b, Rec.eqItems cs l = .bool b) ∨ Rec.eqItems cs l = .libErr := by
  induction cs generalizing l with
  | nil => cases l <;> exact .inl ⟨_, rfl⟩
  | cons o os ih =>
    cases l with
    | nil => cases o <;> exact .inl ⟨_, rfl⟩
    | cons c l =>
      cases o with
      | hole =>
        cases c with
        | hole => simpa [Rec.eqItems] using ih l
        | ph => exact .inr rfl
        | val z => exact .inr rfl
      | ph => cases c <;> exact .inr rfl
      | val v =>
        cases c with
        | hole => exact .inr rfl
        | ph => exact .inr rfl
        | val z =>
          simp only [Rec.eqItems]
          split
          · exact ih l
          · exact .inl ⟨_, rfl⟩

theorem filter_read (p : Comp → Bool) (hp : ∀ c : Comp, p (readComp c.get?) = p c)
    (hq : ∀ c : Comp, p c = true → readComp c.get? = c) (k : Nat) (l : List Comp) :
    (enumFrom k l).filter (fun kv => p kv.2) =
      (enumFrom k (l.map (readComp ∘ Comp.get?))).filter (fun kv => p kv.2) := by
  induction l generalizing k with
  | nil => rfl
  | cons c l ih =>
    simp only [enumFrom, List.map_cons, List.filter_cons, Function.comp, hp]
    rw [ih (k + 1)]
    by_cases h : p c = true
    · simp only [h, if_true, hq c h]
    · simp [h]

theorem pretty_filter (k : Nat) (l : List Comp) :
    (enumFrom k l).filter (fun kv => kv.2.isVal) =
      (enumFrom k (l.map (readComp ∘ Comp.get?))).filter (fun kv => kv.2.isVal) :=
  filter_read Comp.isVal (by intro c; cases c <;> rfl) (by intro c h; cases c <;> first | rfl | cases h) k l

theorem setOut_abs {st : RecSt} (hinv : Rec.Inv fields st) (hN : fields.length ≠ 0) (i : Option Int)
    (a : Option Arg) (err : Out) :
    (Rec.setOut fields st i a err).2 = (setOut fields (Rec.absD st) i a err).2 ∧
    Rec.absD (Rec.setOut fields st i a err).1 = (setOut fields (Rec.absD st) i a err).1 ∧
    Rec.Inv fields (Rec.setOut fields st i a err).1 := by
  cases i with
  | none => exact ⟨rfl, rfl, hinv⟩
  | some i =>
    have h := setAt_abs hinv hN i a
    simp only [setOut, Rec.setOut]
    cases hs : Rec.setAt fields st i a with
    | none => rw [hs] at h; simp only at h; rw [h]; exact ⟨rfl, rfl, hinv⟩
    | some st' => rw [hs] at h; simp only at h; rw [h.1]; exact ⟨rfl, rfl, h.2⟩

theorem posOfName_decl (hN : fields.length ≠ 0) (st : RecSt) (k : Nat) :
    Rec.posOfName fields st k = DictSpec.posOfName fields k := by
  simp [Rec.posOfName, DictSpec.posOfName, Rec.nNames, hN]

theorem posOfType_decl (k : Nat) : Rec.posOfType fields k = DictSpec.posOfName fields k := rfl

/-- **one step** of a SEQUENCE/SET object with declared fields against the dict prototype -/
theorem step_abs {st : RecSt} (hinv : Rec.Inv fields st) (hN : fields.length ≠ 0) (op : RecOp)
    (hal : Rec.Allowed fields st op = true) :
    (Rec.step fields st op).2 = (DictSpec.step fields (Rec.absD st) op).2 ∧
    Rec.absD (Rec.step fields st op).1 = (DictSpec.step fields (Rec.absD st) op).1 ∧
    Rec.Inv fields (Rec.step fields st op).1 := by
  cases op with
  | setItemPos i a => exact setOut_abs hinv hN (some i) (some a) .lookupErr
  | setPos i a => exact setOut_abs hinv hN (some i) (some a) .libErr
  | setNone i => exact setOut_abs hinv hN (some i) none .libErr
  | setItemName k a =>
    simp only [Rec.step, DictSpec.step, ← posOfName_decl hN st k]
    exact setOut_abs hinv hN _ (some a) .lookupErr
  | setName k a =>
    simp only [Rec.step, DictSpec.step, ← posOfName_decl hN st k]
    exact setOut_abs hinv hN _ (some a) .libErr
  | setType k a =>
    simp only [Rec.step, DictSpec.step, ← posOfType_decl (fields := fields) k]
    exact setOut_abs hinv hN _ (some a) .libErr
  | clear =>
    refine ⟨rfl, rfl, rfl, ?_⟩
    intro l hl
    simp only [Rec.step, Option.some.injEq] at hl
    subst hl
    exact ⟨.inl rfl, by intro k d _; simp⟩
  | reset =>
    refine ⟨rfl, rfl, rfl, ?_⟩
    intro l hl
    simp [Rec.step] at hl
  | clone flag =>
    cases flag with
    | false =>
      refine ⟨rfl, ?_, rfl, ?_⟩
      · simp [Rec.step, DictSpec.step, hN, Rec.absD]
      · intro l hl
        simp only [Rec.step, hN, ne_eq, not_false_eq_true, if_true, Bool.not_false, Option.some.injEq] at hl
        subst hl
        exact ⟨.inl rfl, by intro k d _; simp⟩
    | true =>
      cases hc : st.comps with
      | none =>
        refine ⟨by simp [Rec.step, DictSpec.step, hc], by simp [Rec.step, DictSpec.step, hc, Rec.absD], ?_⟩
        simp only [Rec.step, hc, Bool.not_true, Bool.false_eq_true, if_false]
        exact ⟨rfl, by intro l hl; simp at hl⟩
      | some l =>
        have hl := hinv.2 l hc
        have hkeep : (if l.all (·.isHole) then [] else l) = l := by
          rcases hl.1 with h | h
          · subst h; simp
          · simp [h.2]
        refine ⟨by simp [Rec.step, DictSpec.step, hc, hN], ?_, ?_⟩
        · simp only [Rec.step, DictSpec.step, hc, hN, Bool.not_true, Bool.false_eq_true, if_false, ne_eq,
            not_false_eq_true, if_true, hkeep, Rec.absD, Option.map_some]
        · simp only [Rec.step, hc, hN, Bool.not_true, Bool.false_eq_true, if_false, ne_eq,
            not_false_eq_true, if_true, hkeep]
          refine ⟨rfl, ?_⟩
          intro l' hl'
          simp only [Option.some.injEq] at hl'
          subst hl'
          exact hl
  | len =>
    cases hc : st.comps with
    | none => exact ⟨by simp [Rec.step, DictSpec.step, hc, Rec.absD], by simp [Rec.step, DictSpec.step, hc, Rec.absD], by simpa [Rec.step, hc] using hinv⟩
    | some l => exact ⟨by simp [Rec.step, DictSpec.step, hc, Rec.absD], by simp [Rec.step, DictSpec.step, hc, Rec.absD], by simpa [Rec.step, hc] using hinv⟩
  | keys => exact ⟨by simp [Rec.step, DictSpec.step, Rec.nNames, hN], rfl, hinv⟩
  | contains k => exact ⟨by simp [Rec.step, DictSpec.step, Rec.nNames, hN], rfl, hinv⟩
  | getItemPos i =>
    obtain ⟨h1, h2, h3⟩ := getAt_abs hinv hN i true
    exact ⟨by simp [Rec.step, DictSpec.step, h1], by simpa [Rec.step, DictSpec.step] using h2, by simpa [Rec.step] using h3⟩
  | getPos i inst =>
    exact getAt_abs hinv hN i inst
  | getItemName k =>
    simp only [Rec.step, DictSpec.step, posOfName_decl hN]
    cases h : DictSpec.posOfName fields k with
    | none => exact ⟨rfl, rfl, hinv⟩
    | some i =>
      obtain ⟨h1, h2, h3⟩ := getAt_abs hinv hN i true
      exact ⟨by simp [h1], h2, h3⟩
  | getName k inst =>
    simp only [Rec.step, DictSpec.step, posOfName_decl hN]
    cases h : DictSpec.posOfName fields k with
    | none => exact ⟨rfl, rfl, hinv⟩
    | some i => exact getAt_abs hinv hN i inst
  | getType k inst =>
    simp only [Rec.step, DictSpec.step, posOfType_decl]
    cases h : DictSpec.posOfName fields k with
    | none => exact ⟨rfl, rfl, hinv⟩
    | some i => exact getAt_abs hinv hN i inst
  | values =>
    obtain ⟨h1, h2, h3⟩ := getMany_abs hinv hN (List.range fields.length)
    simp only [Rec.step, DictSpec.step, Rec.nNames, hN, ne_eq, not_false_eq_true, if_true]
    generalize Rec.getMany fields st (List.range fields.length) = r at h1 h2 h3
    generalize DictSpec.getMany fields (Rec.absD st) (List.range fields.length) = q at h1 h2
    obtain ⟨st1, o1⟩ := r
    obtain ⟨s1, o2⟩ := q
    simp only at h1 h2 h3
    subst h1 h2
    cases o1 <;> exact ⟨rfl, rfl, h3⟩
  | items =>
    obtain ⟨h1, h2, h3⟩ := getMany_abs hinv hN (List.range fields.length)
    simp only [Rec.step, DictSpec.step, Rec.nNames, hN, ne_eq, not_false_eq_true, if_true]
    generalize Rec.getMany fields st (List.range fields.length) = r at h1 h2 h3
    generalize DictSpec.getMany fields (Rec.absD st) (List.range fields.length) = q at h1 h2
    obtain ⟨st1, o1⟩ := r
    obtain ⟨s1, o2⟩ := q
    simp only at h1 h2 h3
    subst h1 h2
    cases o1 <;> exact ⟨rfl, rfl, h3⟩
  | pretty =>
    cases hc : st.comps with
    | none => exact ⟨by simp [Rec.step, DictSpec.step, hc, Rec.absD], by simp [Rec.step, DictSpec.step, hc, Rec.absD], by simpa [Rec.step, hc] using hinv⟩
    | some l =>
      refine ⟨?_, by simp [Rec.step, DictSpec.step, hc, Rec.absD], by simpa [Rec.step, hc] using hinv⟩
      simp only [Rec.step, DictSpec.step, hc, Rec.absD, Option.map_some, List.map_map]
      congr 1
      exact pretty_filter 0 l
  | eqTo cs =>
    cases hc : st.comps with
    | none => exact ⟨by simp [Rec.step, DictSpec.step, hc, Rec.absD], by simp [Rec.step, DictSpec.step, hc, Rec.absD], by simpa [Rec.step, hc] using hinv⟩
    | some l =>
      refine ⟨?_, by simp [Rec.step, DictSpec.step, hc, Rec.absD], by simpa [Rec.step, hc] using hinv⟩
      simp only [Rec.Allowed, hc, Option.isNone_some, Bool.false_or, Rec.step, bne_iff_ne, ne_eq] at hal
      simp only [Rec.step, DictSpec.step, hc, Rec.absD, Option.map_some]
      by_cases hlen : cs.length ≠ l.length
      · rw [if_pos hlen]
        simp only [Out.bool.injEq]
        symm
        rw [beq_eq_false_iff_ne]
        intro h
        have := congrArg List.length h
        simp at this
        exact hlen this
      · rw [if_neg hlen] at hal ⊢
        cases he : Rec.eqItems cs l with
        | bool b => rw [eqItems_bool cs l b he]
        | libErr => exact absurd he hal
        | unit | nat _ | comp _ | comps _ | names _ | items _ | bytes _ | lookupErr | valueErr =>
          rcases eqItems_shape cs l with ⟨b, hb⟩ | hb <;> rw [hb] at he <;> cases he
  | encode eager =>
    simp only [Rec.Allowed] at hal
    have hv2 := hal
    rw [isValue_abs hN] at hv2
    have hsame : Rec.encTouch fields eager st (List.range fields.length) = st := by
      apply encTouch_value hinv eager _ (by intro k hk; simpa using hk)
      intro k hk hreq
      have hkl : k < fields.length := by simpa using hk
      rw [slot_getD hinv, pyIdx_nat _ _ hkl]
      unfold Rec.isValue at hal
      cases hc : st.comps with
      | none => simp [hc] at hal
      | some l =>
        simp only [hc, hN, ne_eq, not_false_eq_true, if_true, List.all_eq_true, List.mem_range] at hal
        have := hal k hkl
        simp only [hreq] at this
        simp only [Option.getD_some]
        cases hlk : l[k]? with
        | none => simp [hlk] at this
        | some c => simpa [hlk] using this
    simp only [Rec.step, DictSpec.step, hN, ne_eq, not_false_eq_true, if_true, hsame]
    unfold DictSpec.isValue at hv2
    cases hs : Rec.absD st with
    | none => simp [hs] at hv2
    | some l =>
      simp only [hs] at hv2
      simp only [hv2, if_true]
      refine ⟨by first | rfl | trivial, ?_, hinv⟩
      first | exact hs | trivial | rfl

/-- **SEQUENCE / SET with declared fields refines the dict prototype** along any history of
    allowed operations -/
theorem run_abs {st : RecSt} (hinv : Rec.Inv fields st) (hN : fields.length ≠ 0) (ops : List RecOp)
    (hal : ∀ (pre : List RecOp) (op : RecOp) (post : List RecOp), ops = pre ++ op :: post →
      Rec.Allowed fields (Rec.run fields st pre).1 op = true) :
    (Rec.run fields st ops).2 = (DictSpec.run fields (Rec.absD st) ops).2 ∧
    Rec.absD (Rec.run fields st ops).1 = (DictSpec.run fields (Rec.absD st) ops).1 ∧
    Rec.Inv fields (Rec.run fields st ops).1 := by
  induction ops generalizing st with
  | nil => exact ⟨rfl, rfl, hinv⟩
  | cons op ops ih =>
    obtain ⟨h1, h2, h3⟩ := step_abs hinv hN op (hal [] op ops rfl)
    have ih' := ih h3 (by
      intro pre op' post he
      have := hal (op :: pre) op' post (by simp [he])
      simpa [Rec.run] using this)
    simp only [Rec.run, DictSpec.run]
    rw [h1, ← h2]
    exact ⟨by rw [ih'.1], ih'.2.1, ih'.2.2⟩


/-! ### ill-formed operations, readers, abstract content -/

theorem rec_setAt_bad (st : RecSt) (hN : fields.length ≠ 0) (i : Int) (a : Option Arg)
    (h : (pyIdx fields.length i).isNone = true ∨ a = some .bad) : Rec.setAt fields st i a = none := by
  unfold Rec.setAt
  simp only [hN, ne_eq, not_false_eq_true, if_true]
  cases hk : pyIdx fields.length i with
  | none => rfl
  | some k =>
    rcases h with h | h
    · simp [hk] at h
    · subst h
      simp only
      cases fields[k]? <;> rfl

/-- **ill-formed operations raise and change nothing** (records with declared fields) -/
theorem rec_illformed {st : RecSt} (hinv : Rec.Inv fields st) (hN : fields.length ≠ 0) (op : RecOp)
    (h : illFormed fields op = true) :
    (Rec.step fields st op).2.isErr = true ∧ (Rec.step fields st op).1 = st := by
  have hname : ∀ k, fields.length ≤ k → Rec.posOfName fields st k = none := by
    intro k hk; simp [Rec.posOfName, Rec.nNames, hN]; omega
  have htype : ∀ k, fields.length ≤ k → Rec.posOfType fields k = none := by
    intro k hk; simp [Rec.posOfType]; omega
  have hget : ∀ i, (pyIdx fields.length i).isNone = true → Rec.getAt fields st i true = (st, .libErr) := by
    intro i hi
    unfold Rec.getAt
    have hs := slot_getD hinv i
    cases hk : pyIdx fields.length i with
    | some k => simp [hk] at hi
    | none =>
      rw [hk] at hs
      simp only [hs, Option.getD_none, Bool.not_true, Bool.false_eq_true, if_false, Comp.isHole, if_true,
        rec_setAt_bad st hN i none (.inl hi)]
  cases op with
  | setItemPos i a =>
    simp only [illFormed, Bool.or_eq_true, beq_iff_eq] at h
    simp only [Rec.step, Rec.setOut, rec_setAt_bad st hN i (some a) (h.imp id (by intro e; rw [e]))]
    exact ⟨by first | rfl | trivial | simp [Out.isErr], by first | rfl | trivial⟩
  | setPos i a =>
    simp only [illFormed, Bool.or_eq_true, beq_iff_eq] at h
    simp only [Rec.step, Rec.setOut, rec_setAt_bad st hN i (some a) (h.imp id (by intro e; rw [e]))]
    exact ⟨by first | rfl | trivial | simp [Out.isErr], by first | rfl | trivial⟩
  | setNone i =>
    simp only [illFormed] at h
    simp only [Rec.step, Rec.setOut, rec_setAt_bad st hN i none (.inl h)]
    exact ⟨by first | rfl | trivial | simp [Out.isErr], by first | rfl | trivial⟩
  | setItemName k a =>
    simp only [illFormed, Bool.or_eq_true, decide_eq_true_eq, beq_iff_eq] at h
    simp only [Rec.step, Rec.setOut]
    rcases h with h | h
    · rw [hname k h]; exact ⟨by first | rfl | trivial | simp [Out.isErr], by first | rfl | trivial⟩
    · cases Rec.posOfName fields st k with
      | none => exact ⟨by first | rfl | trivial | simp [Out.isErr], by first | rfl | trivial⟩
      | some i => simp only [rec_setAt_bad st hN i (some a) (.inr (by rw [h]))]; exact ⟨by first | rfl | trivial | simp [Out.isErr], by first | rfl | trivial⟩
  | setName k a =>
    simp only [illFormed, Bool.or_eq_true, decide_eq_true_eq, beq_iff_eq] at h
    simp only [Rec.step, Rec.setOut]
    rcases h with h | h
    · rw [hname k h]; exact ⟨by first | rfl | trivial | simp [Out.isErr], by first | rfl | trivial⟩
    · cases Rec.posOfName fields st k with
      | none => exact ⟨by first | rfl | trivial | simp [Out.isErr], by first | rfl | trivial⟩
      | some i => simp only [rec_setAt_bad st hN i (some a) (.inr (by rw [h]))]; exact ⟨by first | rfl | trivial | simp [Out.isErr], by first | rfl | trivial⟩
  | setType k a =>
    simp only [illFormed, Bool.or_eq_true, decide_eq_true_eq, beq_iff_eq] at h
    simp only [Rec.step, Rec.setOut]
    rcases h with h | h
    · rw [htype k h]; exact ⟨by first | rfl | trivial | simp [Out.isErr], by first | rfl | trivial⟩
    · cases Rec.posOfType fields k with
      | none => exact ⟨by first | rfl | trivial | simp [Out.isErr], by first | rfl | trivial⟩
      | some i => simp only [rec_setAt_bad st hN i (some a) (.inr (by rw [h]))]; exact ⟨by first | rfl | trivial | simp [Out.isErr], by first | rfl | trivial⟩
  | getItemPos i =>
    simp only [illFormed] at h
    simp only [Rec.step, hget i h]; exact ⟨by first | rfl | trivial | simp [Out.isErr], by first | rfl | trivial⟩
  | getPos i inst =>
    cases inst with
    | false => simp [illFormed] at h
    | true => simp only [illFormed] at h; simp only [Rec.step, hget i h]; exact ⟨by first | rfl | trivial | simp [Out.isErr], by first | rfl | trivial⟩
  | getItemName k =>
    simp only [illFormed, decide_eq_true_eq] at h
    simp only [Rec.step, hname k h]; exact ⟨by first | rfl | trivial | simp [Out.isErr], by first | rfl | trivial⟩
  | getName k inst =>
    simp only [illFormed, decide_eq_true_eq] at h
    simp only [Rec.step, hname k h]; exact ⟨by first | rfl | trivial | simp [Out.isErr], by first | rfl | trivial⟩
  | getType k inst =>
    simp only [illFormed, decide_eq_true_eq] at h
    simp only [Rec.step, htype k h]; exact ⟨by first | rfl | trivial | simp [Out.isErr], by first | rfl | trivial⟩
  | clear | reset | clone _ | len | keys | contains _ | values | items | pretty | eqTo _ | encode _ =>
    simp [illFormed] at h

/-- readers leave the prototype state alone -/
theorem dict_reader (s : DictSpec.St) (op : RecOp) (h : isReader fields s op = true) :
    (DictSpec.step fields s op).1 = s := by
  have hget : ∀ i inst, (inst = false ∨ (cur fields s i).isSome = true) → (DictSpec.getAt fields s i inst).1 = s := by
    intro i inst hc
    unfold DictSpec.getAt
    cases hcur : cur fields s i with
    | some z => rfl
    | none =>
      rcases hc with hc | hc
      · subst hc; rfl
      · simp [hcur] at hc
  cases op with
  | len => simp only [DictSpec.step]; cases s <;> rfl
  | keys => rfl
  | contains _ => rfl
  | pretty => simp only [DictSpec.step]; cases s <;> rfl
  | eqTo _ => simp only [DictSpec.step]; cases s <;> rfl
  | getItemPos i => simp only [isReader] at h; simpa [DictSpec.step] using hget i true (.inr h)
  | getPos i inst =>
    cases inst with
    | false => exact hget i false (.inl rfl)
    | true => simp only [isReader] at h; exact hget i true (.inr h)
  | getItemName k =>
    simp only [isReader] at h
    simp only [DictSpec.step]
    cases hp : DictSpec.posOfName fields k with
    | none => rfl
    | some i => rw [hp] at h; exact hget i true (.inr h)
  | getName k inst =>
    simp only [DictSpec.step]
    cases hp : DictSpec.posOfName fields k with
    | none => rfl
    | some i =>
      cases inst with
      | false => exact hget i false (.inl rfl)
      | true => simp only [isReader, hp] at h; exact hget i true (.inr h)
  | getType k inst =>
    simp only [DictSpec.step]
    cases hp : DictSpec.posOfName fields k with
    | none => rfl
    | some i =>
      cases inst with
      | false => exact hget i false (.inl rfl)
      | true => simp only [isReader, hp] at h; exact hget i true (.inr h)
  | encode e =>
    simp only [isReader, DictSpec.isValue] at h
    simp only [DictSpec.step]
    cases s with
    | none => simp at h
    | some l => simp only [h, if_true]
  | setItemPos _ _ | setItemName _ _ | setPos _ _ | setName _ _ | setType _ _ | setNone _ | clear | reset
    | clone _ | values | items => simp [isReader] at h

theorem absField_spec (fk : FK) (c : Comp) (h : ∀ d, fk = .dflt d → c ≠ .ph) :
    Rec.absField fk c = DictSpec.absField fk c.get? := by
  cases fk with
  | req => cases c <;> rfl
  | opt => cases c <;> rfl
  | dflt d =>
    cases c with
    | hole => rfl
    | val z => rfl
    | ph => exact absurd rfl (h d rfl)

theorem absFields_spec (fks : List FK) (l : List Comp)
    (h : ∀ (k : Nat) (d : Int), fks[k]? = some (FK.dflt d) → l[k]? ≠ some Comp.ph) :
    Rec.absFields fks l = DictSpec.absFields fks (l.map Comp.get?) := by
  induction fks generalizing l with
  | nil => rfl
  | cons fk fks ih =>
    have h0 : ∀ d, fk = .dflt d → l.headD .hole ≠ .ph := by
      intro d hd hph
      cases l with
      | nil => simp at hph
      | cons c t => exact h 0 d (by simp [hd]) (by simpa using hph)
    have ht : ∀ (k : Nat) (d : Int), fks[k]? = some (FK.dflt d) → l.tail[k]? ≠ some Comp.ph := by
      intro k d hk
      cases l with
      | nil => simp
      | cons c t => simpa using h (k + 1) d (by simpa using hk)
    show (match Rec.absField fk (l.headD .hole), Rec.absFields fks l.tail with
      | some v, some vs => some (v :: vs) | _, _ => none) =
      (match DictSpec.absField fk ((l.map Comp.get?).headD none), DictSpec.absFields fks (l.map Comp.get?).tail with
      | some v, some vs => some (v :: vs) | _, _ => none)
    rw [absField_spec fk _ h0, ih l.tail ht]
    cases l <;> simp [Comp.get?]

/-- abstract content is a function of the prototype state -/
theorem abs_spec {st : RecSt} (hinv : Rec.Inv fields st) (hN : fields.length ≠ 0) :
    Rec.abs fields st = DictSpec.abs fields (Rec.absD st) := by
  unfold Rec.abs DictSpec.abs Rec.absD
  cases hc : st.comps with
  | none => rfl
  | some l =>
    simp only [hN, ne_eq, not_false_eq_true, if_true, Option.map_some]
    rw [absFields_spec fields l (hinv.2 l hc).2]


/-! ### touching an unset key does not change the abstract content -/

theorem dabsFields_cons (fk : FK) (fks : List FK) (l : List (Option Int)) :
    DictSpec.absFields (fk :: fks) l =
      match DictSpec.absField fk (l.headD none), DictSpec.absFields fks l.tail with
      | some v, some vs => some (v :: vs)
      | _, _ => none := rfl

theorem dabsFields_replicate (fks : List FK) (m : Nat) :
    DictSpec.absFields fks (List.replicate m none) = DictSpec.absFields fks [] := by
  induction fks generalizing m with
  | nil => rfl
  | cons fk fks ih =>
    rw [dabsFields_cons, dabsFields_cons]
    cases m with
    | zero => rfl
    | succ m =>
      simp only [List.replicate_succ, List.headD_cons, List.tail_cons, List.headD_nil, List.tail_nil]
      rw [ih m]

theorem dabsField_touch (fk : FK) : DictSpec.absField fk (dflt fk) = DictSpec.absField fk none := by
  cases fk <;> rfl

theorem dabsFields_set (fks : List FK) (l : List (Option Int)) (k : Nat) (fk : FK)
    (hfk : fks[k]? = some fk) (hcur : (l[k]?).bind id = none) :
    DictSpec.absFields fks (l.set k (dflt fk)) = DictSpec.absFields fks l := by
  induction fks generalizing l k with
  | nil => rfl
  | cons f fks ih =>
    cases l with
    | nil => rfl
    | cons x t =>
      cases k with
      | zero =>
        simp only [List.getElem?_cons_zero, Option.some.injEq] at hfk
        subst hfk
        simp only [List.getElem?_cons_zero, Option.bind_some, id] at hcur
        subst hcur
        rw [List.set_cons_zero, dabsFields_cons, dabsFields_cons]
        simp only [List.headD_cons, List.tail_cons, dabsField_touch]
      | succ k =>
        simp only [List.getElem?_cons_succ] at hfk hcur
        rw [List.set_cons_succ, dabsFields_cons, dabsFields_cons]
        simp only [List.headD_cons, List.tail_cons]
        rw [ih t k hfk hcur]

/-- allocating the slots and giving an unset key its DEFAULT keeps the abstract content -/
theorem abs_touch (fields : List FK) (l : List (Option Int)) (k : Nat) (fk : FK)
    (hfk : fields[k]? = some fk) (hcur : (l[k]?).bind id = none) :
    DictSpec.abs fields (some ((alloc fields (some l)).set k (dflt fk))) = DictSpec.abs fields (some l) := by
  simp only [DictSpec.abs, alloc, Option.getD_some]
  congr 1
  by_cases he : l.isEmpty = true
  · have : l = [] := by simpa using he
    subst this
    simp only [List.isEmpty_nil, if_true]
    rw [dabsFields_set fields _ k fk hfk (by
      rw [List.getElem?_replicate]; split <;> rfl), dabsFields_replicate]
  · simp only [he, Bool.false_eq_true, if_false]
    exact dabsFields_set fields l k fk hfk hcur

end Asn1.Container
