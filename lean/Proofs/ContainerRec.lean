/-
  Proofs.ContainerRec — SEQUENCE / SET objects with declared fields refine the dict prototype:
  under the shape invariant `Rec.Inv`, every operation of the object model returns what the
  prototype returns on the abstracted state `absD` and the abstraction commutes with the step.
-/
import Asn1.Container
import Proofs.ContainerDict

namespace Asn1.Container
open DictSpec

theorem setNth_eq_set {α} (l : List α) (k : Nat) (a : α) : setNth l k a = l.set k a := by
  induction l generalizing k with
  | nil => rfl
  | cons x l ih => cases k <;> simp [setNth, ih]

theorem pyIdx_lt (n : Nat) (i : Int) (k : Nat) (h : pyIdx n i = some k) : k < n := by
  unfold pyIdx at h
  split at h
  · split at h
    · simp only [Option.some.injEq] at h; omega
    · simp at h
  · split at h
    · simp only [Option.some.injEq] at h; omega
    · simp at h

theorem pyIdx_zero (i : Int) : pyIdx 0 i = none := by
  unfold pyIdx
  split
  · simp
  · split
    · omega
    · rfl

/-- `componentValues[idx]` on a list that is empty or padded to the declared length -/
theorem slot_shape (n : Nat) (l : List Comp) (i : Int) (hl : l = [] ∨ l.length = n) :
    Rec.slot l i = match pyIdx n i with | some k => l[k]? | none => none := by
  unfold Rec.slot
  rcases hl with rfl | hl
  · simp only [List.length_nil, pyIdx_zero, Option.bind_none]
    cases pyIdx n i <;> simp
  · rw [hl]
    cases pyIdx n i <;> rfl

variable {fields : List FK}

theorem comps_shape {st : RecSt} (hinv : Rec.Inv fields st) :
    (st.comps.getD []) = [] ∨ (st.comps.getD []).length = fields.length := by
  cases hc : st.comps with
  | none => simp
  | some l =>
    rcases (hinv.2 l hc).1 with h | h
    · exact .inl (by simpa using h)
    · exact .inr (by simpa using h.1)

theorem slot_getD {st : RecSt} (hinv : Rec.Inv fields st) (i : Int) :
    st.comps.bind (fun l => Rec.slot l i) =
      match pyIdx fields.length i with | some k => (st.comps.getD [])[k]? | none => none := by
  cases hc : st.comps with
  | none => simp; cases pyIdx fields.length i <;> rfl
  | some l =>
    have := comps_shape hinv
    rw [hc] at this
    simpa using slot_shape fields.length l i (by simpa using this)

theorem cur_abs {st : RecSt} (hinv : Rec.Inv fields st) (i : Int) :
    ((st.comps.bind (fun l => Rec.slot l i)).getD .hole).get? = cur fields (Rec.absD st) i := by
  rw [slot_getD hinv]
  unfold cur Rec.absD
  cases pyIdx fields.length i with
  | none => rfl
  | some k =>
    cases hc : st.comps with
    | none => simp [Comp.get?]
    | some l =>
      simp only [Option.getD_some, Option.map_some, List.getElem?_map]
      cases l[k]? with
      | none => simp [Comp.get?]
      | some c => simp

theorem alloc_abs {st : RecSt} (hinv : Rec.Inv fields st) (hN : fields.length ≠ 0) (i : Int) (k : Nat)
    (hk : pyIdx fields.length i = some k) :
    (if (Rec.slot (st.comps.getD []) i).isSome then st.comps.getD [] else List.replicate fields.length Comp.hole).map Comp.get?
      = alloc fields (Rec.absD st) := by
  have hs := comps_shape hinv
  rw [slot_shape fields.length _ i hs, hk]
  unfold alloc Rec.absD
  have hkl := pyIdx_lt _ _ _ hk
  rcases hs with h | h
  · simp only [h, List.getElem?_nil, Option.isSome_none, Bool.false_eq_true, if_false, List.map_replicate]
    cases hc : st.comps with
    | none => simp [Comp.get?]
    | some l => rw [hc] at h; simp at h; subst h; simp [Comp.get?]
  · have : k < (st.comps.getD []).length := by omega
    simp only [List.getElem?_eq_getElem this, Option.isSome_some, if_true]
    cases hc : st.comps with
    | none => rw [hc] at this; simp at this
    | some l =>
      rw [hc] at this
      simp only [Option.getD_some, Option.map_some]
      have : l ≠ [] := by intro h0; subst h0; simp at this
      simp [this]

theorem typeObj_get (fk : FK) : (Rec.typeObj fk).get? = dflt fk := by
  cases fk <;> rfl

theorem typeObj_not_hole (fk : FK) : (Rec.typeObj fk).isHole = false := by
  cases fk <;> rfl

end Asn1.Container
