/-
  Proofs.Wrap — the header loop of the encoder (`wrapTags`) seen at the level of TLV trees:
  each tag of the tag set becomes one well-formed element around the previous one.
-/
import Asn1.Encoder
import Proofs.Parse

namespace Asn1

/-- the tag an identifier written by `encodeTag t isCons` is read back as -/
def wireTag (t : Tag) (isCons : Bool) : Tag := ⟨t.cls, t.constructed || isCons, t.num⟩

theorem hdrOk_def (t : Tag) (isCons : Bool) (n : Nat) (l : Bytes) (h : encodeLength n = some l) :
    HdrOk (encodeTag t isCons ++ l) (wireTag t isCons) (.definite n) :=
  ⟨encodeTag t isCons, l, rfl, fun r => decodeTag_encodeTag t isCons r,
   fun r => decodeLength_encodeLength n l h r⟩

theorem hdrOk_indef (t : Tag) (isCons : Bool) :
    HdrOk (encodeTag t isCons ++ [0x80]) (wireTag t isCons) .indefinite :=
  ⟨encodeTag t isCons, [0x80], rfl, fun r => decodeTag_encodeTag t isCons r, fun r => by
    simp [decodeLength]⟩

/-- a primitive element -/
def primNode (t : Tag) (c : Bytes) : Except Err TLV :=
  match encodeLength c.length with
  | some l => .ok (.prim (encodeTag t false ++ l) (wireTag t false) c)
  | none => .error .refused

/-- a constructed element around complete elements -/
def consNode (t : Tag) (indef : Bool) (cs : List TLV) : Except Err TLV :=
  if indef then .ok (.cons (encodeTag t true ++ [0x80]) (wireTag t true) true cs)
  else
    match encodeLength (serList cs).length with
    | some l => .ok (.cons (encodeTag t true ++ l) (wireTag t true) false cs)
    | none => .error .refused

/-- the outer (non-first) tags, innermost first, at tree level -/
def wrapRest (defMode : Bool) : List Tag → TLV → Except Err TLV
  | [], x => .ok x
  | t :: ts, x =>
    match consNode t (!defMode) [x] with
    | .ok y => wrapRest defMode ts y
    | .error e => .error e

theorem primNode_ser (t : Tag) (c : Bytes) (n : TLV) (h : primNode t c = .ok n) :
    ∃ l, encodeLength c.length = some l ∧ n.ser = encodeTag t false ++ l ++ c := by
  unfold primNode at h
  cases hl : encodeLength c.length with
  | none => rw [hl] at h; simp at h
  | some l =>
    rw [hl] at h
    simp only [Except.ok.injEq] at h
    subst h
    exact ⟨l, rfl, by simp [TLV.ser]⟩

theorem primNode_wf (t : Tag) (c : Bytes) (n : TLV) (ht : t.constructed = false)
    (h : primNode t c = .ok n) : n.WF := by
  unfold primNode at h
  cases hl : encodeLength c.length with
  | none => rw [hl] at h; simp at h
  | some l =>
    rw [hl] at h
    simp only [Except.ok.injEq] at h
    subst h
    exact ⟨hdrOk_def t false c.length l hl, by simp [wireTag, ht]⟩

theorem consNode_wf (t : Tag) (indef : Bool) (cs : List TLV) (n : TLV) (hw : WFs cs)
    (hne : indef = true → NoEooL cs) (h : consNode t indef cs = .ok n) : n.WF := by
  unfold consNode at h
  cases indef with
  | true =>
    simp only [if_true, Except.ok.injEq] at h
    subst h
    exact ⟨hdrOk_indef t true, by simp [wireTag], hw, hne rfl⟩
  | false =>
    simp only [Bool.false_eq_true, if_false] at h
    cases hl : encodeLength (serList cs).length with
    | none => rw [hl] at h; simp at h
    | some l =>
      rw [hl] at h
      simp only [Except.ok.injEq] at h
      subst h
      exact ⟨hdrOk_def t true _ l hl, by simp [wireTag], hw⟩

theorem consNode_tag (t : Tag) (indef : Bool) (cs : List TLV) (n : TLV)
    (h : consNode t indef cs = .ok n) : n.tag = wireTag t true ∧ ∃ hd, n = .cons hd (wireTag t true) indef cs := by
  unfold consNode at h
  cases indef with
  | true =>
    simp only [if_true, Except.ok.injEq] at h
    subst h
    exact ⟨rfl, _, rfl⟩
  | false =>
    simp only [Bool.false_eq_true, if_false] at h
    cases hl : encodeLength (serList cs).length with
    | none => rw [hl] at h; simp at h
    | some l =>
      rw [hl] at h
      simp only [Except.ok.injEq] at h
      subst h
      exact ⟨rfl, _, rfl⟩

/-- an element never starts with 00 00 unless its tag is universal 0 with a zero length -/
theorem encodeTag_head_ne_zero (t : Tag) (ic : Bool) (h : t.cls ≠ .universal ∨ t.num ≠ 0 ∨ (t.constructed || ic) = true) :
    ∀ rest, encodeTag t ic ≠ 0 :: rest := by
  intro rest he
  have hd := decodeTag_encodeTag t ic []
  rw [List.append_nil, he] at hd
  -- decoding an identifier starting with 00 gives universal, primitive, number 0
  simp only [decodeTag] at hd
  have h0 : (0 : UInt8).toNat = 0 := rfl
  simp only [h0] at hd
  simp [TagClass.ofBits] at hd
  obtain ⟨⟨h1, h2, h3⟩, _⟩ := hd
  rcases h with h | h | h
  · exact h h1.symm
  · exact h h3.symm
  · simp [h2.1, h2.2] at h

theorem notEoo_of_tag (n : TLV) (hw : n.WF)
    (h : n.tag.cls ≠ .universal ∨ n.tag.num ≠ 0 ∨ n.tag.constructed = true) : NotEoo n.ser := by
  intro rest he
  -- the first octet of the serialisation is the first identifier octet
  have key : ∀ (hd : Bytes) (tg : Tag) (len : Len) (body : Bytes), HdrOk hd tg len →
      (tg.cls ≠ .universal ∨ tg.num ≠ 0 ∨ tg.constructed = true) → hd ++ body ≠ 0 :: 0 :: rest := by
    intro hd tg len body hk htg hcontra
    obtain ⟨tb, lb, rfl, ht, hl⟩ := hk
    have h1 := ht (lb ++ body)
    rw [← List.append_assoc, hcontra] at h1
    simp only [decodeTag] at h1
    have h0 : (0 : UInt8).toNat = 0 := rfl
    simp only [h0] at h1
    simp [TagClass.ofBits] at h1
    obtain ⟨htag, _⟩ := h1
    subst htag
    simp at htg
  cases n with
  | prim hd tg c =>
    simp only [TLV.ser] at he
    exact key hd tg _ c hw.1 h he
  | cons hd tg i cs =>
    cases i with
    | true =>
      simp only [TLV.ser] at he
      exact key hd tg _ _ hw.1 h he
    | false =>
      simp only [TLV.ser] at he
      exact key hd tg _ _ hw.1 h he

theorem encodeTag_of_constructed (t : Tag) (a b : Bool) (ht : t.constructed = true) :
    encodeTag t a = encodeTag t b := by
  simp [encodeTag, ht]

theorem serList_single (x : TLV) : serList [x] = x.ser := by
  simp [serList]

theorem consNode_ser (t : Tag) (indef : Bool) (cs : List TLV) (n : TLV) (h : consNode t indef cs = .ok n) :
    n.ser = (if indef then encodeTag t true ++ [0x80] ++ serList cs ++ [0, 0]
             else encodeTag t true ++ (encodeLength (serList cs).length).getD [] ++ serList cs) := by
  unfold consNode at h
  cases indef with
  | true =>
    simp only [if_true, Except.ok.injEq] at h
    subst h
    simp [TLV.ser, eooBytes]
  | false =>
    simp only [Bool.false_eq_true, if_false] at h
    cases hl : encodeLength (serList cs).length with
    | none => rw [hl] at h; simp at h
    | some l =>
      rw [hl] at h
      simp only [Except.ok.injEq] at h
      subst h
      simp [TLV.ser]

/-- **outer tags**: wrapping the serialisation of an element with the remaining (explicit) tags is
    serialising the nested elements -/
theorem wrapTags_rest (indefOk defMode isCons : Bool) (hok : defMode = true ∨ indefOk = true) :
    ∀ (ts : List Tag) (x : TLV), (∀ t ∈ ts, t.constructed = true) →
      wrapTags indefOk defMode isCons false ts x.ser = (wrapRest defMode ts x).map TLV.ser
  | [], x, _ => by simp [wrapTags, wrapRest, Except.map]
  | t :: ts, x, hc => by
      have htc : t.constructed = true := hc t (by simp)
      have hrest : ∀ t' ∈ ts, t'.constructed = true := fun t' h' => hc t' (by simp [h'])
      simp only [wrapTags, Bool.false_and, Bool.false_eq_true, if_false, wrapRest]
      cases hd : defMode with
      | true =>
        -- definite
        simp only [encLen, Bool.not_true, Bool.false_and, Bool.false_eq_true, if_false, consNode,
          serList_single]
        cases hl : encodeLength x.ser.length with
        | none => simp [Except.map]
        | some l =>
          simp only [if_true, List.append_nil]
          have ih := wrapTags_rest indefOk true isCons (Or.inl rfl) ts
            (.cons (encodeTag t true ++ l) (wireTag t true) false [x]) hrest
          rw [← ih]
          simp [TLV.ser, serList_single, encodeTag_of_constructed t isCons true htc, wrapTags.eooBytesE]
      | false =>
        have hi : indefOk = true := by
          rcases hok with h | h
          · rw [hd] at h; exact absurd h (by simp)
          · exact h
        subst hi
        simp only [encLen, Bool.not_false, Bool.true_and, if_true, consNode, Bool.false_eq_true,
          if_false]
        have ih := wrapTags_rest true false isCons (Or.inr rfl) ts
          (.cons (encodeTag t true ++ [0x80]) (wireTag t true) true [x]) hrest
        rw [← ih]
        simp [TLV.ser, serList_single, encodeTag_of_constructed t isCons true htc, wrapTags.eooBytesE,
          eooBytes]

/-- the complete header loop at tree level -/
def wrapAll (defMode : Bool) (first : Except Err TLV) (ts : List Tag) : Except Err TLV :=
  match first with
  | .ok x => wrapRest defMode ts x
  | .error e => .error e

/-- **primitive contents**: the base tag makes a primitive element, the remaining tags wrap it -/
theorem wrapTags_prim (indefOk defMode : Bool) (t0 : Tag) (ts : List Tag) (sub : Bytes)
    (hts : ∀ t ∈ ts, t.constructed = true)
    (hok : ts = [] ∨ defMode = true ∨ indefOk = true) :
    wrapTags indefOk defMode false true (t0 :: ts) sub
      = (wrapAll defMode (primNode t0 sub) ts).map TLV.ser := by
  simp only [wrapTags, Bool.not_false, Bool.and_self, if_true, encLen, Bool.not_true, Bool.false_and,
    Bool.false_eq_true, if_false, primNode, wrapAll]
  cases hl : encodeLength sub.length with
  | none => simp [Except.map]
  | some l =>
    simp only [List.append_nil]
    rcases hok with h | h
    · subst h
      simp [wrapTags, wrapRest, Except.map, TLV.ser]
    · have := wrapTags_rest indefOk defMode false h ts
        (.prim (encodeTag t0 false ++ l) (wireTag t0 false) sub) hts
      rw [← this]
      simp [TLV.ser]

/-- **constructed contents**: the base tag makes a constructed element around the content
    elements, definite or indefinite as the mode says, the remaining tags wrap it -/
theorem wrapTags_cons (indefOk defMode : Bool) (t0 : Tag) (ts : List Tag) (cs : List TLV)
    (hts : ∀ t ∈ ts, t.constructed = true) (hok : defMode = true ∨ indefOk = true) :
    wrapTags indefOk defMode true true (t0 :: ts) (serList cs)
      = (wrapAll defMode (consNode t0 (!defMode) cs) ts).map TLV.ser := by
  simp only [wrapTags, Bool.not_true, Bool.and_false, Bool.false_eq_true, if_false, wrapAll]
  cases hd : defMode with
  | true =>
    simp only [encLen, Bool.not_true, Bool.false_and, Bool.false_eq_true, if_false, consNode]
    cases hl : encodeLength (serList cs).length with
    | none => simp [Except.map]
    | some l =>
      simp only [if_true, List.append_nil]
      have := wrapTags_rest indefOk true true (Or.inl rfl) ts
        (.cons (encodeTag t0 true ++ l) (wireTag t0 true) false cs) hts
      rw [← this]
      simp [TLV.ser]
  | false =>
    have hi : indefOk = true := by
      rcases hok with h | h
      · rw [hd] at h; exact absurd h (by simp)
      · exact h
    subst hi
    simp only [encLen, Bool.not_false, Bool.true_and, if_true, consNode, Bool.false_eq_true, if_false]
    have := wrapTags_rest true false true (Or.inr rfl) ts
      (.cons (encodeTag t0 true ++ [0x80]) (wireTag t0 true) true cs) hts
    rw [← this]
    simp [TLV.ser, eooBytes, wrapTags.eooBytesE]

end Asn1
