/-
  Proofs.TimeDigits — digit formatting and parsing lemmas for Asn1.Time:
  `'%.2d'`/`'%.4d'`/`'%d'` produce digit strings, `int()` and the strptime groups read them back.
-/
import Asn1.Time

namespace Asn1.Time

/-- every character is an ASCII digit -/
def AllDig (s : List Char) : Prop := ∀ c ∈ s, isDig c = true

instance (s : List Char) : Decidable (AllDig s) := by unfold AllDig; infer_instance

theorem dig_table : ∀ d : Fin 10, dv (dig d.val) = some d.val := by decide

theorem dv_dig {d : Nat} (h : d < 10) : dv (dig d) = some d := dig_table ⟨d, h⟩

theorem isDig_dig {d : Nat} (h : d < 10) : isDig (dig d) = true := by
  simp [isDig, dv_dig h]

theorem isDig_range {c : Char} (h : isDig c = true) : 48 ≤ c.toNat ∧ c.toNat ≤ 57 := by
  unfold isDig dv at h
  by_cases hc : 48 ≤ c.toNat ∧ c.toNat ≤ 57
  · exact hc
  · simp [hc] at h

theorem isDig_ne {c x : Char} (h : isDig c = true) (hx : x.toNat < 48 ∨ 57 < x.toNat) : c ≠ x := by
  intro e; subst e
  have := isDig_range h
  omega

theorem isDig_not_ws {c : Char} (h : isDig c = true) : isWs c = false := by
  have := isDig_range h
  simp [isWs]; omega

theorem AllDig.nil : AllDig [] := by intro c h; cases h

theorem AllDig.cons {c : Char} {s : List Char} (hc : isDig c = true) (hs : AllDig s) : AllDig (c :: s) := by
  intro x hx
  rcases List.mem_cons.mp hx with h | h
  · subst h; exact hc
  · exact hs x h

theorem AllDig.append {a b : List Char} (ha : AllDig a) (hb : AllDig b) : AllDig (a ++ b) := by
  intro x hx
  rcases List.mem_append.mp hx with h | h
  · exact ha x h
  · exact hb x h

theorem AllDig.head {c : Char} {s : List Char} (h : AllDig (c :: s)) : isDig c = true :=
  h c (List.mem_cons_self)

theorem AllDig.tail {c : Char} {s : List Char} (h : AllDig (c :: s)) : AllDig s :=
  fun x hx => h x (List.mem_cons_of_mem _ hx)

theorem AllDig.not_mem {s : List Char} (h : AllDig s) {x : Char} (hx : x.toNat < 48 ∨ 57 < x.toNat) : x ∉ s := by
  intro hm
  exact isDig_ne (h x hm) hx rfl

theorem dec_lt {n : Nat} (h : n < 10) : dec n = [dig n] := by
  rw [dec]; simp [h]

theorem dec_ge {n : Nat} (h : ¬ n < 10) : dec n = dec (n / 10) ++ [dig (n % 10)] := by
  rw [dec]; simp [h]

theorem allDig_dec (n : Nat) : AllDig (dec n) := by
  induction n using Nat.strongRecOn with
  | _ n ih =>
    by_cases h : n < 10
    · rw [dec_lt h]; exact AllDig.cons (isDig_dig h) AllDig.nil
    · rw [dec_ge h]
      exact AllDig.append (ih _ (by omega)) (AllDig.cons (isDig_dig (Nat.mod_lt _ (by omega))) AllDig.nil)

theorem dec_ne_nil (n : Nat) : dec n ≠ [] := by
  by_cases h : n < 10
  · rw [dec_lt h]; simp
  · rw [dec_ge h]; simp

theorem pad2_lt {n : Nat} (h : n < 100) : pad2 n = [dig (n / 10), dig (n % 10)] := by
  simp [pad2, h]

theorem pad4_lt {n : Nat} (h : n < 10000) :
    pad4 n = [dig (n / 1000), dig (n / 100 % 10), dig (n / 10 % 10), dig (n % 10)] := by
  simp [pad4, h]

theorem allDig_pad2 (n : Nat) : AllDig (pad2 n) := by
  by_cases h : n < 100
  · rw [pad2_lt h]
    exact AllDig.cons (isDig_dig (by omega)) (AllDig.cons (isDig_dig (by omega)) AllDig.nil)
  · simp only [pad2, h, if_false]; exact allDig_dec n

theorem allDig_pad4 (n : Nat) : AllDig (pad4 n) := by
  by_cases h : n < 10000
  · rw [pad4_lt h]
    exact AllDig.cons (isDig_dig (by omega)) (AllDig.cons (isDig_dig (by omega))
      (AllDig.cons (isDig_dig (by omega)) (AllDig.cons (isDig_dig (by omega)) AllDig.nil)))
  · simp only [pad4, h, if_false]; exact allDig_dec n

/-! ### values -/

theorem digitsVal_append (acc : Nat) (a b : List Char) :
    digitsVal acc (a ++ b) = digitsVal (digitsVal acc a) b := by
  induction a generalizing acc with
  | nil => rfl
  | cons c r ih => simp [digitsVal, ih]

theorem digitsVal_dec (n : Nat) : digitsVal 0 (dec n) = n := by
  induction n using Nat.strongRecOn with
  | _ n ih =>
    by_cases h : n < 10
    · rw [dec_lt h]; simp [digitsVal, dv_dig h]
    · rw [dec_ge h, digitsVal_append, ih _ (by omega)]
      simp [digitsVal, dv_dig (Nat.mod_lt n (by omega : 0 < 10))]
      omega

theorem digitsVal_pad2 {n : Nat} (h : n < 100) (acc : Nat) : digitsVal acc (pad2 n) = acc * 100 + n := by
  rw [pad2_lt h]
  simp [digitsVal, dv_dig (by omega : n / 10 < 10), dv_dig (by omega : n % 10 < 10)]
  omega

/-- the digit run of `int()`: a digit string reads as its value -/
theorem pyDigits_allDig {s : List Char} (hs : AllDig s) (acc : Nat) (prev : Bool)
    (hne : s ≠ [] ∨ prev = true) : pyDigits acc prev s = some (digitsVal acc s) := by
  induction s generalizing acc prev with
  | nil =>
    rcases hne with h | h
    · exact absurd rfl h
    · simp [pyDigits, digitsVal, h]
  | cons c r ih =>
    have hc := hs.head
    unfold isDig at hc
    cases hd : dv c with
    | none => simp [hd] at hc
    | some d =>
      simp only [pyDigits, hd, digitsVal, Option.getD_some]
      exact ih hs.tail _ true (Or.inr rfl)

theorem stripR_allDig {s : List Char} (hs : AllDig s) : stripR s = s := by
  induction s with
  | nil => rfl
  | cons c r ih =>
    rw [stripR, ih hs.tail]
    cases r with
    | nil => simp [isDig_not_ws hs.head]
    | cons d t => rfl

theorem dropWhile_ws_allDig {s : List Char} (hs : AllDig s) : s.dropWhile isWs = s := by
  cases s with
  | nil => rfl
  | cons c r => simp [List.dropWhile, isDig_not_ws hs.head]

/-- `int(s)` of a non-empty digit string -/
theorem pyInt_allDig {s : List Char} (hs : AllDig s) (hne : s ≠ []) :
    pyInt s = some (Int.ofNat (digitsVal 0 s)) := by
  unfold pyInt
  rw [dropWhile_ws_allDig hs, stripR_allDig hs]
  cases s with
  | nil => exact absurd rfl hne
  | cons c r =>
    have h1 : c ≠ '+' := isDig_ne hs.head (by decide)
    have h2 : c ≠ '-' := isDig_ne hs.head (by decide)
    split
    · rename_i heq; cases heq; exact absurd rfl h1
    · rename_i heq; cases heq; exact absurd rfl h2
    · rw [pyDigits_allDig hs 0 false (Or.inl hne)]; rfl

end Asn1.Time
