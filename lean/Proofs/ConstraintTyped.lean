/-
  Proofs.ConstraintTyped — a constructible constraint applied to a value it is applicable to never
  raises anything but ValueConstraintError (`run … ≠ leak`), so on the property's domain the
  evaluator decides membership in the denotation.
-/
import Proofs.Constraint

namespace Asn1.Constraint

theorem inSet_no_leak (s : List Atom) (v : CVal) (h : v.isAtom = true) : inSet s v ≠ .leak := by
  cases v with
  | atom a => by_cases ha : a ∈ s <;> simp [inSet, ha]
  | coll _ => simp [CVal.isAtom] at h
  | record _ => simp [CVal.isAtom] at h

theorem inRange_no_leak (lo hi : Int) (v : CVal) (h : v.isInt = true) : inRange lo hi v ≠ .leak := by
  cases v with
  | atom a =>
    cases a with
    | int z => by_cases hz : z < lo ∨ z > hi <;> simp [inRange, hz]
    | str _ => simp [CVal.isInt] at h
    | bytes _ => simp [CVal.isInt] at h
    | none => simp [CVal.isInt] at h
  | coll _ => simp [CVal.isInt] at h
  | record _ => simp [CVal.isInt] at h

theorem inSize_no_leak (lo hi : Int) (v : CVal) (h : v.len.isSome = true) : inSize lo hi v ≠ .leak := by
  unfold inSize
  cases hl : v.len with
  | none => simp [hl] at h
  | some n => by_cases hz : (n : Int) < lo ∨ (n : Int) > hi <;> simp [hz]

theorem inAlphabet_no_leak (s : List Atom) (v : CVal) (h : v.elems.isSome = true) :
    inAlphabet s v ≠ .leak := by
  unfold inAlphabet
  cases hl : v.elems with
  | none => simp [hl] at h
  | some es => by_cases ha : es.all (fun e => decide (e ∈ s)) = true <;> simp [ha]

theorem shortcut_no_leak {ops : Ops} {r : Res} (hr : ops.isNil = false → r ≠ .leak) :
    (if ops.isNil = true then Res.accept else r) ≠ .leak := by
  cases hn : ops.isNil with
  | true => simp
  | false => simpa using hr hn

mutual
theorem typed_no_leak : ∀ (c : Constr) (i : Option Nat) (v : CVal),
    c.wf = true → typed c v = true → run c i v ≠ .leak
  | .mk k ops, i, v, hw, ht => by
    simp only [Constr.wf, Bool.and_eq_true] at hw
    obtain ⟨hw, hb⟩ := hw
    cases k with
    | componentPresent =>
      simp only [run]
      by_cases hv : v = .atom .none <;> simp [hv]
    | componentAbsent =>
      simp only [run]
      by_cases hv : v = .atom .none <;> simp [hv]
    | singleValue =>
      simp only [run, typed, Bool.or_eq_true] at ht ⊢
      refine shortcut_no_leak (fun hn => ?_)
      rcases ht with ht | ht
      · simp [hn] at ht
      · exact inSet_no_leak _ _ ht
    | permittedAlphabet =>
      simp only [run, typed, Bool.or_eq_true] at ht ⊢
      refine shortcut_no_leak (fun hn => ?_)
      rcases ht with ht | ht
      · simp [hn] at ht
      · exact inAlphabet_no_leak _ _ ht
    | valueRange =>
      simp only [run, typed] at ht ⊢
      cases hbo : bounds ops with
      | none => simp [hbo] at hb
      | some p => exact inRange_no_leak _ _ _ ht
    | valueSize =>
      simp only [run, typed] at ht ⊢
      cases hbo : bounds ops with
      | none => simp [hbo] at hb
      | some p => exact inSize_no_leak _ _ _ ht
    | containedSubtype =>
      simp only [run, typed, Bool.and_eq_true, Bool.or_eq_true] at ht ⊢
      refine shortcut_no_leak (fun _ => ?_)
      refine typed_runAll ops _ _ i v hw rfl rfl ht.1 ?_
      rcases ht.2 with h | h
      · left; simpa using h
      · right; exact h
    | intersection =>
      simp only [run, typed] at ht ⊢
      refine shortcut_no_leak (fun _ => ?_)
      exact typed_runAll ops _ _ i v hw rfl rfl ht (Or.inl (raws_nil_of_wf ops _ rfl hw))
    | union =>
      simp only [run, typed] at ht ⊢
      refine shortcut_no_leak (fun _ => ?_)
      exact typed_runAny ops _ i v hw rfl rfl rfl ht
    | exclusion =>
      simp only [run, typed] at ht ⊢
      refine shortcut_no_leak (fun _ => ?_)
      exact typed_runNone ops _ i v hw rfl rfl rfl ht
    | withComponents =>
      simp only [run, typed, Bool.or_eq_true] at ht ⊢
      refine shortcut_no_leak (fun hn => ?_)
      rcases ht with ht | ht
      · simp [hn] at ht
      · exact typed_runFields ops _ v hw rfl rfl rfl ht
    | innerType =>
      simp only [run, typed] at ht ⊢
      refine shortcut_no_leak (fun _ => ?_)
      by_cases hl : lastConTruthy ops = true
      · simp only [if_pos hl]
        exact typed_runLastCon ops _ v hw rfl rfl ht
      · simp only [if_neg hl]
        by_cases he : ops.hasEntry = true
        · simp only [if_pos he]
          cases i with
          | none => simp
          | some j => exact typed_runEntry ops _ j v hw rfl rfl ht
        · simp [he]
theorem raws_nil_of_wf : ∀ (ops : Ops) (sh : Shape), sh.raw = false → wfOps sh ops = true → ops.raws = []
  | .nil, _, _, _ => rfl
  | .con _ rest, sh, hr, hw => by
    simp only [wfOps, Bool.and_eq_true] at hw
    simpa [Ops.raws] using raws_nil_of_wf rest sh hr hw.2
  | .raw _ _, sh, hr, hw => by simp [wfOps, hr] at hw
  | .field _ _ rest, sh, hr, hw => by
    simp only [wfOps, Bool.and_eq_true] at hw
    simpa [Ops.raws] using raws_nil_of_wf rest sh hr hw.2
  | .entry _ _ _ rest, sh, hr, hw => by
    simp only [wfOps, Bool.and_eq_true] at hw
    simpa [Ops.raws] using raws_nil_of_wf rest sh hr hw.2
theorem typed_runAll : ∀ (ops : Ops) (sh : Shape) (s : List Atom) (i : Option Nat) (v : CVal),
    wfOps sh ops = true → sh.field = false → sh.entry = false → typedOps ops v = true →
    (ops.raws = [] ∨ v.isAtom = true) → runAll ops s i v ≠ .leak
  | .nil, _, _, _, _, _, _, _, _, _ => by simp [runAll]
  | .con c rest, sh, s, i, v, hw, hf, he, ht, hr => by
    simp only [wfOps, Bool.and_eq_true] at hw
    simp only [typedOps, Bool.and_eq_true] at ht
    simp only [runAll]
    have hc := typed_no_leak c i v hw.1.2 ht.1
    cases hrun : run c i v with
    | accept => exact typed_runAll rest sh s i v hw.2 hf he ht.2 (by simpa [Ops.raws] using hr)
    | reject => simp
    | leak => exact absurd hrun hc
  | .raw a rest, sh, s, i, v, hw, hf, he, ht, hr => by
    simp only [wfOps, Bool.and_eq_true] at hw
    simp only [typedOps] at ht
    simp only [runAll]
    have hv : v.isAtom = true := by
      rcases hr with h | h
      · simp [Ops.raws] at h
      · exact h
    have hc := inSet_no_leak s v hv
    cases hrun : inSet s v with
    | accept => exact typed_runAll rest sh s i v hw.2 hf he ht (Or.inr hv)
    | reject => simp
    | leak => exact absurd hrun hc
  | .field _ _ _, sh, _, _, _, hw, hf, _, _, _ => by simp [wfOps, hf] at hw
  | .entry _ _ _ _, sh, _, _, _, hw, _, he, _, _ => by simp [wfOps, he] at hw
theorem typed_runAny : ∀ (ops : Ops) (sh : Shape) (i : Option Nat) (v : CVal),
    wfOps sh ops = true → sh.raw = false → sh.field = false → sh.entry = false →
    typedOps ops v = true → runAny ops i v ≠ .leak
  | .nil, _, _, _, _, _, _, _, _ => by simp [runAny]
  | .con c rest, sh, i, v, hw, hr, hf, he, ht => by
    simp only [wfOps, Bool.and_eq_true] at hw
    simp only [typedOps, Bool.and_eq_true] at ht
    simp only [runAny]
    have hc := typed_no_leak c i v hw.1.2 ht.1
    cases hrun : run c i v with
    | accept => simp
    | reject => exact typed_runAny rest sh i v hw.2 hr hf he ht.2
    | leak => exact absurd hrun hc
  | .raw _ _, sh, _, _, hw, hr, _, _, _ => by simp [wfOps, hr] at hw
  | .field _ _ _, sh, _, _, hw, _, hf, _, _ => by simp [wfOps, hf] at hw
  | .entry _ _ _ _, sh, _, _, hw, _, _, he, _ => by simp [wfOps, he] at hw
theorem typed_runNone : ∀ (ops : Ops) (sh : Shape) (i : Option Nat) (v : CVal),
    wfOps sh ops = true → sh.raw = false → sh.field = false → sh.entry = false →
    typedOps ops v = true → runNone ops i v ≠ .leak
  | .nil, _, _, _, _, _, _, _, _ => by simp [runNone]
  | .con c rest, sh, i, v, hw, hr, hf, he, ht => by
    simp only [wfOps, Bool.and_eq_true] at hw
    simp only [typedOps, Bool.and_eq_true] at ht
    simp only [runNone]
    have hc := typed_no_leak c i v hw.1.2 ht.1
    cases hrun : run c i v with
    | accept => simp
    | reject => exact typed_runNone rest sh i v hw.2 hr hf he ht.2
    | leak => exact absurd hrun hc
  | .raw _ _, sh, _, _, hw, hr, _, _, _ => by simp [wfOps, hr] at hw
  | .field _ _ _, sh, _, _, hw, _, hf, _, _ => by simp [wfOps, hf] at hw
  | .entry _ _ _ _, sh, _, _, hw, _, _, he, _ => by simp [wfOps, he] at hw
theorem typed_runFields : ∀ (ops : Ops) (sh : Shape) (v : CVal),
    wfOps sh ops = true → sh.con = false → sh.raw = false → sh.entry = false →
    typedFields ops v = true → runFields ops v ≠ .leak
  | .nil, _, _, _, _, _, _, _ => by simp [runFields]
  | .field f c rest, sh, v, hw, hcn, hr, he, ht => by
    simp only [wfOps, Bool.and_eq_true] at hw
    simp only [typedFields, Bool.and_eq_true] at ht
    simp only [runFields]
    cases hg : v.get f with
    | none => simp [hg] at ht
    | some x =>
      simp only [hg] at ht ⊢
      have hc := typed_no_leak c none x hw.1.2 ht.1
      cases hrun : run c none x with
      | accept => exact typed_runFields rest sh v hw.2 hcn hr he ht.2
      | reject => simp
      | leak => exact absurd hrun hc
  | .con _ _, sh, _, hw, hcn, _, _, _ => by simp [wfOps, hcn] at hw
  | .raw _ _, sh, _, hw, _, hr, _, _ => by simp [wfOps, hr] at hw
  | .entry _ _ _ _, sh, _, hw, _, _, he, _ => by simp [wfOps, he] at hw
theorem typed_runLastCon : ∀ (ops : Ops) (sh : Shape) (v : CVal),
    wfOps sh ops = true → sh.raw = false → sh.field = false →
    typedOps ops v = true → runLastCon ops v ≠ .leak
  | .nil, _, _, _, _, _, _ => by simp [runLastCon]
  | .con c rest, sh, v, hw, hr, hf, ht => by
    simp only [wfOps, Bool.and_eq_true] at hw
    simp only [typedOps, Bool.and_eq_true] at ht
    simp only [runLastCon]
    by_cases hc : rest.hasCon = true
    · simp only [if_pos hc]
      exact typed_runLastCon rest sh v hw.2 hr hf ht.2
    · simp only [if_neg hc]
      exact typed_no_leak c none v hw.1.2 ht.1
  | .entry _ c _ rest, sh, v, hw, hr, hf, ht => by
    simp only [wfOps, Bool.and_eq_true] at hw
    simp only [typedOps, Bool.and_eq_true] at ht
    simp only [runLastCon]
    exact typed_runLastCon rest sh v hw.2 hr hf ht.2
  | .raw _ _, sh, _, hw, hr, _, _ => by simp [wfOps, hr] at hw
  | .field _ _ _, sh, _, hw, _, hf, _ => by simp [wfOps, hf] at hw
theorem typed_runEntry : ∀ (ops : Ops) (sh : Shape) (j : Nat) (v : CVal),
    wfOps sh ops = true → sh.raw = false → sh.field = false →
    typedOps ops v = true → runEntry ops j v ≠ .leak
  | .nil, _, _, _, _, _, _, _ => by simp [runEntry]
  | .entry k c ab rest, sh, j, v, hw, hr, hf, ht => by
    simp only [wfOps, Bool.and_eq_true] at hw
    simp only [typedOps, Bool.and_eq_true] at ht
    simp only [runEntry]
    by_cases hk : rest.hasKey j = true
    · simp only [if_pos hk]
      exact typed_runEntry rest sh j v hw.2 hr hf ht.2
    · simp only [if_neg hk]
      by_cases hkj : k = j
      · simp only [if_pos hkj]
        cases ab with
        | true => simp
        | false => simpa using typed_no_leak c none v hw.1.2 ht.1
      · simp [hkj]
  | .con c rest, sh, j, v, hw, hr, hf, ht => by
    simp only [wfOps, Bool.and_eq_true] at hw
    simp only [typedOps, Bool.and_eq_true] at ht
    simp only [runEntry]
    exact typed_runEntry rest sh j v hw.2 hr hf ht.2
  | .raw _ _, sh, _, _, hw, hr, _, _ => by simp [wfOps, hr] at hw
  | .field _ _ _, sh, _, _, hw, _, hf, _ => by simp [wfOps, hf] at hw
end

end Asn1.Constraint
