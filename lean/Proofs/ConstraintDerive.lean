/-
  Proofs.ConstraintDerive — derivation (`subtypeSpec + extra`), the value map and `isSuperTypeOf`:
  a derived constraint set denotes the intersection, and every ancestor recognises it.
-/
import Proofs.Constraint

namespace Asn1.Constraint

/-- the nested-constraint operands, in order -/
def Ops.conList : Ops → List Constr
  | .nil => []
  | .con c r => c :: r.conList
  | .raw _ r => r.conList
  | .field _ _ r => r.conList
  | .entry _ _ _ r => r.conList

theorem conList_append : ∀ (a b : Ops), (a.append b).conList = a.conList ++ b.conList
  | .nil, b => by simp [Ops.append, Ops.conList]
  | .con c r, b => by simp [Ops.append, Ops.conList, conList_append r b]
  | .raw _ r, b => by simp [Ops.append, Ops.conList, conList_append r b]
  | .field _ _ r, b => by simp [Ops.append, Ops.conList, conList_append r b]
  | .entry _ _ _ r, b => by simp [Ops.append, Ops.conList, conList_append r b]

theorem append_ne_nil : ∀ (a : Ops) (c : Constr) (r : Ops), a.append (.con c r) ≠ .nil
  | .nil, _, _ => by simp [Ops.append]
  | .con _ _, _, _ => by simp [Ops.append]
  | .raw _ _, _, _ => by simp [Ops.append]
  | .field _ _ _, _, _ => by simp [Ops.append]
  | .entry _ _ _ _, _, _ => by simp [Ops.append]

theorem denAll_append : ∀ (a b : Ops) (s : List Atom) (i : Option Nat) (v : CVal),
    denAll (a.append b) s i v ↔ denAll a s i v ∧ denAll b s i v
  | .nil, b, s, i, v => by simp [Ops.append, denAll]
  | .con c r, b, s, i, v => by simp [Ops.append, denAll, denAll_append r b s i v, and_assoc]
  | .raw _ r, b, s, i, v => by simp [Ops.append, denAll, denAll_append r b s i v, and_assoc]
  | .field _ _ _, b, s, i, v => by simp [Ops.append, denAll]
  | .entry _ _ _ _, b, s, i, v => by simp [Ops.append, denAll]

/-- an intersection denotes the ⋂ of its operands (the empty one: everything) -/
theorem den_intersection (ops : Ops) (i : Option Nat) (v : CVal) :
    den (.mk .intersection ops) i v ↔ denAll ops [] i v := by
  simp only [den]
  constructor
  · rintro (h | h)
    · rw [h]; simp [denAll]
    · exact h
  · exact Or.inr

/-- `subtypeSpec + extra` denotes exactly the intersection of the two sets -/
theorem derive_den (p e : Constr) (i : Option Nat) (v : CVal) :
    den (derive p e) i v ↔ den p i v ∧ den e i v := by
  obtain ⟨k, ops⟩ := p
  have wrap : den (.mk .intersection (.con (.mk k ops) (.con e .nil))) i v ↔
      den (.mk k ops) i v ∧ den e i v := by
    rw [den_intersection]; simp [denAll]
  cases k with
  | intersection =>
    simp only [derive]
    rw [den_intersection, den_intersection, denAll_append]
    simp [denAll]
  | singleValue => simpa [derive] using wrap
  | containedSubtype => simpa [derive] using wrap
  | valueRange => simpa [derive] using wrap
  | valueSize => simpa [derive] using wrap
  | permittedAlphabet => simpa [derive] using wrap
  | componentPresent => simpa [derive] using wrap
  | componentAbsent => simpa [derive] using wrap
  | withComponents => simpa [derive] using wrap
  | innerType => simpa [derive] using wrap
  | exclusion => simpa [derive] using wrap
  | union => simpa [derive] using wrap

/-! ### `==` and set membership -/

mutual
theorem pyEq_refl : ∀ c : Constr, pyEq c c = true
  | .mk k ops => by simp [pyEq, opsEq_refl ops]
theorem opsEq_refl : ∀ ops : Ops, opsEq ops ops = true
  | .nil => by simp [opsEq]
  | .con c r => by simp [opsEq, pyEq_refl c, opsEq_refl r]
  | .raw _ r => by simp [opsEq, opsEq_refl r]
  | .field _ c r => by simp [opsEq, pyEq_refl c, opsEq_refl r]
  | .entry _ c _ r => by simp [opsEq, pyEq_refl c, opsEq_refl r]
end

/-- `_setValues` registers every truthy operand -/
theorem mem_collect : ∀ (ops : Ops) (c : Constr), c ∈ ops.conList → c.truthy = true → c ∈ collect ops
  | .nil, c, h, _ => by simp [Ops.conList] at h
  | .con d r, c, h, ht => by
    simp only [Ops.conList, List.mem_cons] at h
    simp only [collect]
    rcases h with h | h
    · subst h; simp [ht]
    · have := mem_collect r c h ht
      by_cases hd : d.truthy = true <;> simp [hd, this]
  | .raw _ r, c, h, ht => by simpa [collect] using mem_collect r c (by simpa [Ops.conList] using h) ht
  | .field _ _ r, c, h, ht => by simpa [collect] using mem_collect r c (by simpa [Ops.conList] using h) ht
  | .entry _ _ _ r, c, h, ht => by simpa [collect] using mem_collect r c (by simpa [Ops.conList] using h) ht

theorem imposedBy_self (c : Constr) : imposedBy c c = true := by
  obtain ⟨k, ops⟩ := c
  simp [imposedBy]

/-- an intersection imposes each of its operands -/
theorem imposedByOps_of_mem : ∀ (ops : Ops) (c : Constr), c ∈ ops.conList → imposedByOps c ops = true
  | .nil, c, h => by simp [Ops.conList] at h
  | .con d r, c, h => by
    simp only [Ops.conList, List.mem_cons] at h
    simp only [imposedByOps, Bool.or_eq_true]
    rcases h with h | h
    · subst h; exact Or.inl (imposedBy_self _)
    · exact Or.inr (imposedByOps_of_mem r c h)
  | .raw _ r, c, h => by simpa [imposedByOps] using imposedByOps_of_mem r c (by simpa [Ops.conList] using h)
  | .field _ _ r, c, h => by simpa [imposedByOps] using imposedByOps_of_mem r c (by simpa [Ops.conList] using h)
  | .entry _ _ _ r, c, h => by simpa [imposedByOps] using imposedByOps_of_mem r c (by simpa [Ops.conList] using h)

theorem imposedBy_of_mem (cops : Ops) (c : Constr) (h : c ∈ cops.conList) :
    imposedBy c (.mk .intersection cops) = true := by
  simp [imposedBy, imposedByOps_of_mem cops c h]

theorem imposedAll_of : ∀ (ops : Ops) (sh : Shape) (other : Constr),
    wfOps sh ops = true → sh.raw = false → sh.field = false → sh.entry = false →
    (∀ c ∈ ops.conList, imposedBy c other = true) → imposedAll ops other = true
  | .nil, _, _, _, _, _, _, _ => by simp [imposedAll]
  | .con c r, sh, other, hw, hr, hf, he, h => by
    simp only [wfOps, Bool.and_eq_true] at hw
    simp only [imposedAll, Bool.and_eq_true, Bool.or_eq_true]
    exact ⟨Or.inr (h c (by simp [Ops.conList])),
      imposedAll_of r sh other hw.2 hr hf he (fun d hd => h d (by simp [Ops.conList, hd]))⟩
  | .raw _ _, sh, _, hw, hr, _, _, _ => by simp [wfOps, hr] at hw
  | .field _ _ _, sh, _, hw, _, hf, _, _ => by simp [wfOps, hf] at hw
  | .entry _ _ _ _, sh, _, hw, _, _, he, _ => by simp [wfOps, he] at hw

/-! ### a derived constraint set carries the operands of every ancestor -/

/-- `child` is an intersection holding `p`'s operands (p an intersection) or `p` itself -/
def Imposes (child p : Constr) : Prop :=
  ∃ cops, child = .mk .intersection cops ∧
    (match p with
     | .mk .intersection ops => ∀ c ∈ ops.conList, c ∈ cops.conList
     | q => q ∈ cops.conList)

theorem derive_eq_intersection (p e : Constr) :
    ∃ cops, derive p e = .mk .intersection cops ∧
      (match p with
       | .mk .intersection ops => cops = ops.append (.con e .nil)
       | q => cops = .con q (.con e .nil)) := by
  obtain ⟨k, ops⟩ := p
  cases k <;> simp [derive]

theorem imposes_derive (p e : Constr) : Imposes (derive p e) p := by
  obtain ⟨k, ops⟩ := p
  cases k <;> simp [Imposes, derive, Ops.conList, conList_append] <;> intro c hc <;> exact Or.inl hc

theorem imposes_step (child p e : Constr) (h : Imposes child p) : Imposes (derive child e) p := by
  obtain ⟨cops, hc, hp⟩ := h
  subst hc
  refine ⟨cops.append (.con e .nil), by simp [derive], ?_⟩
  obtain ⟨k, ops⟩ := p
  cases k <;> simp [conList_append] at hp ⊢ <;> first | exact Or.inl hp | (intro c hc; exact Or.inl (hp c hc))

theorem imposes_chain (p : Constr) : ∀ (es : List Constr) (child : Constr),
    Imposes child p → Imposes (deriveChain child es) p
  | [], child, h => by simpa [deriveChain] using h
  | e :: es, child, h => by
    simp only [deriveChain]
    exact imposes_chain p es (derive child e) (imposes_step child p e h)

theorem super_of_imposes (p child : Constr) (hw : p.wf = true) (h : Imposes child p) :
    isSuperTypeOf p child = true := by
  obtain ⟨cops, hc, hp⟩ := h
  subst hc
  obtain ⟨k, ops⟩ := p
  have nonInter : (.mk k ops : Constr) ∈ cops.conList →
      baseIsSuperTypeOf (.mk k ops) (.mk .intersection cops) = true := by
    intro hm
    simp only [baseIsSuperTypeOf, Bool.or_eq_true]
    by_cases ht : (Constr.mk k ops).truthy = true
    · right
      apply decide_eq_true
      simpa [valueMap] using mem_collect cops _ hm ht
    · left; left; simpa using ht
  cases k with
  | intersection =>
    simp only [isSuperTypeOf, Bool.or_eq_true]
    right
    simp only [Constr.wf, Bool.and_eq_true] at hw
    refine imposedAll_of ops _ _ hw.1 rfl rfl rfl ?_
    intro c hc
    exact imposedBy_of_mem cops c (hp c hc)
  | singleValue => simpa [isSuperTypeOf] using nonInter hp
  | containedSubtype => simpa [isSuperTypeOf] using nonInter hp
  | valueRange => simpa [isSuperTypeOf] using nonInter hp
  | valueSize => simpa [isSuperTypeOf] using nonInter hp
  | permittedAlphabet => simpa [isSuperTypeOf] using nonInter hp
  | componentPresent => simpa [isSuperTypeOf] using nonInter hp
  | componentAbsent => simpa [isSuperTypeOf] using nonInter hp
  | withComponents => simpa [isSuperTypeOf] using nonInter hp
  | innerType => simpa [isSuperTypeOf] using nonInter hp
  | exclusion => simpa [isSuperTypeOf] using nonInter hp
  | union => simpa [isSuperTypeOf] using nonInter hp

theorem super_refl (p : Constr) : isSuperTypeOf p p = true := by
  have hb : baseIsSuperTypeOf p p = true := by simp [baseIsSuperTypeOf]
  obtain ⟨k, ops⟩ := p
  cases k <;> simp [isSuperTypeOf, hb]

/-! ### tags -/

theorem tag_same_refl (t : Tag) : t.same t = true := by simp [Tag.same]

theorem tagSet_same_refl : ∀ ts : TagSet, TagSet.same ts ts = true
  | [] => by simp [TagSet.same]
  | t :: ts => by simp [TagSet.same, tag_same_refl, tagSet_same_refl ts]

theorem superTagSet_refl (ts : TagSet) : isSuperTagSetOf ts ts = true := by
  simp [isSuperTagSetOf, tagSet_same_refl]

theorem superTagSet_append (ts : TagSet) (t : Tag) : isSuperTagSetOf ts (ts ++ [t]) = true := by
  simp [isSuperTagSetOf, tagSet_same_refl]

end Asn1.Constraint
