/-
  Proofs.TimeRoundtrip — `asDateTime (fromDateTime dt) = dt` for GeneralizedTime and UTCTime:
  the strptime groups on well-formed digit fields, the zone designator and the fraction.
-/
import Proofs.TimeDigits

namespace Asn1.Time

/-- what CPython's `datetime` guarantees of any datetime object, as digit fields -/
structure ValidDT (dt : DT) : Prop where
  year : 1 ≤ dt.year ∧ dt.year ≤ 9999
  month : 1 ≤ dt.month ∧ dt.month ≤ 12
  day : 1 ≤ dt.day ∧ dt.day ≤ daysIn dt.year dt.month
  hour : dt.hour < 24
  minute : dt.minute < 60
  second : dt.second < 60
  micro : dt.micro < 1000000
  off : ∀ o, dt.off = some o → -1440 < o ∧ o < 1440

theorem pad2_append {n : Nat} (h : n < 100) (r : List Char) :
    pad2 n ++ r = dig (n / 10) :: dig (n % 10) :: r := by
  rw [pad2_lt h]; rfl

theorem pad4_append {n : Nat} (h : n < 10000) (r : List Char) :
    pad4 n ++ r = dig (n / 1000) :: dig (n / 100 % 10) :: dig (n / 10 % 10) :: dig (n % 10) :: r := by
  rw [pad4_lt h]; rfl

theorem alt2_dig (p : Nat → Nat → Bool) {a b : Nat} (ha : a < 10) (hb : b < 10) (r : List Char) :
    alt2 p (dig a :: dig b :: r) = if p a b then [(a * 10 + b, r)] else [] := by
  simp [alt2, dv_dig ha, dv_dig hb]

theorem seqMatch_head {f : List Char → List (Nat × List Char)} {fs} {s r r' : List Char} {v : Nat}
    {vs : List Nat} {tl} (hf : f s = (v, r) :: tl) (hr : seqMatch fs r = some (vs, r')) :
    seqMatch (f :: fs) s = some (v :: vs, r') := by
  simp [seqMatch, hf, hr]

theorem reYear4_pad {y : Nat} (h : y < 10000) (r : List Char) : reYear4 (pad4 y ++ r) = [(y, r)] := by
  rw [pad4_append h]
  simp only [reYear4, dv_dig (by omega : y / 1000 < 10), dv_dig (by omega : y / 100 % 10 < 10),
    dv_dig (by omega : y / 10 % 10 < 10), dv_dig (by omega : y % 10 < 10)]
  congr 2; omega

theorem reYear2_pad {y : Nat} (h : 1969 ≤ y ∧ y ≤ 2068) (r : List Char) :
    reYear2 (pad2 (y % 100) ++ r) = [(y, r)] := by
  rw [pad2_append (by omega)]
  simp only [reYear2, alt2_dig _ (by omega : y % 100 / 10 < 10) (by omega : y % 100 % 10 < 10), if_true,
    List.map]
  congr 2
  split <;> omega

theorem reMonth_pad {m : Nat} (h : 1 ≤ m ∧ m ≤ 12) (r : List Char) :
    ∃ tl, reMonth (pad2 m ++ r) = (m, r) :: tl := by
  rw [pad2_append (by omega)]
  simp only [reMonth, alt2_dig _ (by omega : m / 10 < 10) (by omega : m % 10 < 10)]
  have hv : m / 10 * 10 + m % 10 = m := by omega
  rw [hv]
  by_cases h10 : 10 ≤ m
  · have h1 : m / 10 = 1 := by omega
    have h2 : m % 10 ≤ 2 := by omega
    simp [h1, h2]
  · have h1 : m / 10 = 0 := by omega
    have h2 : 1 ≤ m % 10 := by omega
    simp [h1, h2]

theorem reDay_pad {d : Nat} (h : 1 ≤ d ∧ d ≤ 31) (r : List Char) :
    ∃ tl, reDay (pad2 d ++ r) = (d, r) :: tl := by
  rw [pad2_append (by omega)]
  simp only [reDay, alt2_dig _ (by omega : d / 10 < 10) (by omega : d % 10 < 10)]
  have hv : d / 10 * 10 + d % 10 = d := by omega
  rw [hv]
  by_cases h30 : 30 ≤ d
  · have h1 : d / 10 = 3 := by omega
    have h2 : d % 10 ≤ 1 := by omega
    simp [h1, h2]
  · by_cases h10 : 10 ≤ d
    · have h1 : (d / 10 == 3) = false := by simp; omega
      have h2 : 1 ≤ d / 10 ∧ d / 10 ≤ 2 := by omega
      simp [h1, h2]
    · have h1 : d / 10 = 0 := by omega
      have h2 : 1 ≤ d % 10 := by omega
      simp [h1, h2]

theorem reHour_pad {n : Nat} (h : n < 24) (r : List Char) :
    ∃ tl, reHour (pad2 n ++ r) = (n, r) :: tl := by
  rw [pad2_append (by omega)]
  simp only [reHour, alt2_dig _ (by omega : n / 10 < 10) (by omega : n % 10 < 10)]
  have hv : n / 10 * 10 + n % 10 = n := by omega
  rw [hv]
  by_cases h20 : 20 ≤ n
  · have h1 : n / 10 = 2 := by omega
    have h2 : n % 10 ≤ 3 := by omega
    simp [h1, h2]
  · have h1 : (n / 10 == 2) = false := by simp; omega
    have h2 : n / 10 ≤ 1 := by omega
    simp [h1, h2]

theorem reMinute_pad {n : Nat} (h : n < 60) (r : List Char) :
    ∃ tl, reMinute (pad2 n ++ r) = (n, r) :: tl := by
  rw [pad2_append (by omega)]
  simp only [reMinute, alt2_dig _ (by omega : n / 10 < 10) (by omega : n % 10 < 10)]
  have hv : n / 10 * 10 + n % 10 = n := by omega
  have h2 : n / 10 ≤ 5 := by omega
  rw [hv]; simp [h2]

theorem reSecond_pad {n : Nat} (h : n < 60) (r : List Char) :
    ∃ tl, reSecond (pad2 n ++ r) = (n, r) :: tl := by
  rw [pad2_append (by omega)]
  simp only [reSecond, alt2_dig _ (by omega : n / 10 < 10) (by omega : n % 10 < 10)]
  have hv : n / 10 * 10 + n % 10 = n := by omega
  have h1 : (n / 10 == 6) = false := by simp; omega
  have h2 : n / 10 ≤ 5 := by omega
  rw [hv]; simp [h1, h2]

theorem daysIn_le (y m : Nat) : daysIn y m ≤ 31 := by
  unfold daysIn; split
  · split <;> omega
  · split <;> omega

/-- the five two-digit groups after the year -/
theorem seqMatch_mdhms {dt : DT} (v : ValidDT dt) :
    seqMatch [reMonth, reDay, reHour, reMinute, reSecond] (mdhms dt)
      = some ([dt.month, dt.day, dt.hour, dt.minute, dt.second], []) := by
  have hd := daysIn_le dt.year dt.month
  obtain ⟨t1, h1⟩ := reMonth_pad v.month (pad2 dt.day ++ (pad2 dt.hour ++ (pad2 dt.minute ++ (pad2 dt.second ++ []))))
  obtain ⟨t2, h2⟩ := reDay_pad (d := dt.day) ⟨v.day.1, by have := v.day.2; omega⟩
    (pad2 dt.hour ++ (pad2 dt.minute ++ (pad2 dt.second ++ [])))
  obtain ⟨t3, h3⟩ := reHour_pad v.hour (pad2 dt.minute ++ (pad2 dt.second ++ []))
  obtain ⟨t4, h4⟩ := reMinute_pad v.minute (pad2 dt.second ++ [])
  obtain ⟨t5, h5⟩ := reSecond_pad v.second []
  have e : mdhms dt = pad2 dt.month ++ (pad2 dt.day ++ (pad2 dt.hour ++ (pad2 dt.minute ++ (pad2 dt.second ++ [])))) := by
    simp [mdhms]
  rw [e]
  exact seqMatch_head h1 (seqMatch_head h2 (seqMatch_head h3 (seqMatch_head h4 (seqMatch_head h5 rfl))))

theorem validDate_of {dt : DT} (v : ValidDT dt) : validDate dt.year dt.month dt.day = true := by
  simp [validDate, v.year.1, v.year.2, v.month.1, v.month.2, v.day.1, v.day.2]

theorem strptime_gt {dt : DT} (v : ValidDT dt) :
    strptime gt (pad4 dt.year ++ mdhms dt) = some (dt.year, dt.month, dt.day, dt.hour, dt.minute, dt.second) := by
  have hy := reYear4_pad (by have := v.year.2; omega : dt.year < 10000) (mdhms dt)
  have hm := seqMatch_head hy (seqMatch_mdhms v)
  have hs : dt.second ≤ 59 := by have := v.second; omega
  simp only [strptime, gt, if_true]
  rw [hm]
  simp [validDate_of v, hs]

theorem strptime_utc {dt : DT} (v : ValidDT dt) (hy : 1969 ≤ dt.year ∧ dt.year ≤ 2068) :
    strptime utc (pad2 (dt.year % 100) ++ mdhms dt)
      = some (dt.year, dt.month, dt.day, dt.hour, dt.minute, dt.second) := by
  have hy := reYear2_pad hy (mdhms dt)
  have hm := seqMatch_head hy (seqMatch_mdhms v)
  have hs : dt.second ≤ 59 := by have := v.second; omega
  have hk : (utc.yearsDigits = 4) = False := by simp [utc]
  simp only [strptime, hk, if_false]
  rw [hm]
  simp [validDate_of v, hs]

/-! ### zone designator and fraction -/

theorem splitOn1_append {c : Char} {a : List Char} (h : c ∉ a) (b : List Char) :
    splitOn1 c (a ++ c :: b) = (a, b) := by
  induction a with
  | nil => simp [splitOn1]
  | cons x r ih =>
    have hx : x ≠ c := fun e => h (e ▸ List.mem_cons_self)
    have hr : c ∉ r := fun m => h (List.mem_cons_of_mem _ m)
    simp [splitOn1, hx, ih hr]

theorem zoneSplit_Z (k : Kind) (body : List Char) : zoneSplit k (body ++ ['Z']) = .ok (body, some 0) := by
  simp [zoneSplit]

theorem dig_ne_Z {d : Nat} (h : d < 10) : dig d ≠ 'Z' := isDig_ne (isDig_dig h) (by decide)

theorem pyInt_pad2 {n : Nat} (h : n < 100) : pyInt (pad2 n) = some (Int.ofNat n) := by
  rw [pyInt_allDig (allDig_pad2 n) (by rw [pad2_lt h]; simp), digitsVal_pad2 h]; simp

theorem zoneSplit_signed (k : Kind) {body : List Char} (hp : '+' ∉ body) (hm : '-' ∉ body) {hh mm : Nat}
    (h1 : hh < 100) (h2 : mm < 100) (plus : Bool) :
    zoneSplit k (body ++ (if plus then '+' else '-') :: (pad2 hh ++ pad2 mm))
      = .ok (body, some (if plus then Int.ofNat (hh * 60 + mm) else - Int.ofNat (hh * 60 + mm))) := by
  have htz : pad2 hh ++ pad2 mm = [dig (hh / 10), dig (hh % 10), dig (mm / 10), dig (mm % 10)] := by
    rw [pad2_lt h1, pad2_lt h2]; rfl
  have hall : AllDig (pad2 hh ++ pad2 mm) := (allDig_pad2 hh).append (allDig_pad2 mm)
  have hnp : '+' ∉ pad2 hh ++ pad2 mm := hall.not_mem (by decide)
  have hnm : '-' ∉ pad2 hh ++ pad2 mm := hall.not_mem (by decide)
  have hlast : (body ++ (if plus then '+' else '-') :: (pad2 hh ++ pad2 mm)).getLast? ≠ some 'Z' := by
    rw [htz]; simp
    exact dig_ne_Z (by omega)
  have htake : (pad2 hh ++ pad2 mm).take 2 = pad2 hh := by rw [htz, pad2_lt h1]; rfl
  have hdrop : (pad2 hh ++ pad2 mm).drop 2 = pad2 mm := by rw [htz, pad2_lt h2]; rfl
  have hlen : (pad2 hh ++ pad2 mm).length = 4 := by rw [htz]; rfl
  have h42 : ¬ ((4 : Nat) = 2) := by decide
  unfold zoneSplit
  rw [if_neg hlast]
  cases plus with
  | true =>
    have hin : '+' ∈ body ++ '+' :: (pad2 hh ++ pad2 mm) := by simp
    simp only [if_true, hin, or_true, decide_true, splitOn1_append hp, hlen, h42, and_false, if_false, htake,
      hdrop, pyInt_pad2 h1, pyInt_pad2 h2, ne_eq, not_true_eq_false]
    simp
  | false =>
    have hin : '-' ∈ body ++ '-' :: (pad2 hh ++ pad2 mm) := by simp
    have hnin : '+' ∉ body ++ '-' :: (pad2 hh ++ pad2 mm) := by
      simp [hp, hnp]
    simp only [hin, hnin, true_or, if_true, decide_false, Bool.false_eq_true, if_false, splitOn1_append hm, hlen,
      h42, and_false, htake, hdrop, pyInt_pad2 h1, pyInt_pad2 h2, ne_eq, not_true_eq_false]
    simp

theorem fracSplit_dot {main : List Char} (hm : AllDig main) (n : Nat) :
    fracSplit (main ++ '.' :: dec n) = .ok (main, Int.ofNat n * 1000) := by
  have hin : '.' ∈ main ++ '.' :: dec n := by simp
  have hnd : '.' ∉ main := hm.not_mem (by decide)
  simp only [fracSplit, hin, true_or, if_true, splitOn1_append hnd,
    pyInt_allDig (allDig_dec n) (dec_ne_nil n), digitsVal_dec]

theorem fracSplit_none {main : List Char} (hm : AllDig main) : fracSplit main = .ok (main, 0) := by
  have h1 : '.' ∉ main := hm.not_mem (by decide)
  have h2 : ',' ∉ main := hm.not_mem (by decide)
  simp [fracSplit, h1, h2]

theorem allDig_mdhms (dt : DT) : AllDig (mdhms dt) :=
  ((((allDig_pad2 _).append (allDig_pad2 _)).append (allDig_pad2 _)).append (allDig_pad2 _)).append (allDig_pad2 _)

theorem length_mdhms {dt : DT} (v : ValidDT dt) : (mdhms dt).length = 10 := by
  have := v.month; have := v.day; have := daysIn_le dt.year dt.month; have := v.hour; have := v.minute
  have := v.second
  simp [mdhms, pad2_lt (by omega : dt.month < 100), pad2_lt (by omega : dt.day < 100),
    pad2_lt (by omega : dt.hour < 100), pad2_lt (by omega : dt.minute < 100), pad2_lt (by omega : dt.second < 100)]

/-- the zone designator `fromDateTime` writes is read back as the same offset (naive and zero: `Z`) -/
theorem zoneSplit_zoneText (k : Kind) {body : List Char} (hp : '+' ∉ body) (hm : '-' ∉ body)
    {off : Option Int} (ho : ∀ o, off = some o → -1440 < o ∧ o < 1440) :
    zoneSplit k (body ++ zoneText off) = .ok (body, some (off.getD 0)) := by
  cases off with
  | none => exact zoneSplit_Z k body
  | some o =>
    have hb := ho o rfl
    by_cases h0 : o = 0
    · subst h0; exact zoneSplit_Z k body
    · simp only [zoneText, h0, if_false, Option.getD_some]
      by_cases hneg : o < 0
      · have := zoneSplit_signed k hp hm (by omega : o.natAbs / 60 < 100) (by omega : o.natAbs % 60 < 100) false
        simp only [hneg, if_true]
        simp only [Bool.false_eq_true, if_false] at this
        rw [this]
        congr 3
        simp only [Int.ofNat_eq_natCast]
        omega
      · have := zoneSplit_signed k hp hm (by omega : o.natAbs / 60 < 100) (by omega : o.natAbs % 60 < 100) true
        simp only [hneg, if_false]
        simp only [if_true] at this
        rw [this]
        congr 3
        simp only [Int.ofNat_eq_natCast]
        omega

/-! ### the round trips -/

theorem not_mem_body {c : Char} (hc : c.toNat < 48 ∨ 57 < c.toNat) (hdot : c ≠ '.') {main : List Char}
    (hm : AllDig main) (n : Nat) : c ∉ main ++ '.' :: dec n := by
  intro h
  rcases List.mem_append.mp h with h | h
  · exact hm.not_mem hc h
  · rcases List.mem_cons.mp h with h | h
    · exact hdot h
    · exact (allDig_dec n).not_mem hc h

theorem fromDateTime_gt (dt : DT) :
    fromDateTime gt dt = ((pad4 dt.year ++ mdhms dt) ++ '.' :: dec (dt.micro / 1000)) ++ zoneText dt.off := by
  simp [fromDateTime, gt]

theorem fromDateTime_utc (dt : DT) :
    fromDateTime utc dt = (pad2 (dt.year % 100) ++ mdhms dt) ++ zoneText dt.off := by
  simp [fromDateTime, utc]

theorem asDateTime_fromDateTime_gt {dt : DT} (v : ValidDT dt) (hms : dt.micro % 1000 = 0) :
    asDateTime gt (fromDateTime gt dt) = .ok { dt with off := some (dt.off.getD 0) } := by
  have hmain : AllDig (pad4 dt.year ++ mdhms dt) := (allDig_pad4 _).append (allDig_mdhms dt)
  have hlen : (pad4 dt.year ++ mdhms dt).length = 14 := by
    rw [List.length_append, length_mdhms v, pad4_lt (by have := v.year.2; omega)]; rfl
  have hpad : padMain gt (pad4 dt.year ++ mdhms dt) = pad4 dt.year ++ mdhms dt := by
    simp [padMain, hlen, gt]
  have hmicro := v.micro
  rw [fromDateTime_gt, asDateTime,
    zoneSplit_zoneText gt (not_mem_body (by decide) (by decide) hmain _)
      (not_mem_body (by decide) (by decide) hmain _) v.off]
  simp only [fracSplit_dot hmain, hpad, strptime_gt v]
  have h1 : (0 : Int) ≤ Int.ofNat (dt.micro / 1000) * 1000 ∧ Int.ofNat (dt.micro / 1000) * 1000 < 1000000 := by
    simp only [Int.ofNat_eq_natCast]; omega
  rw [if_pos h1]
  have h2 : (Int.ofNat (dt.micro / 1000) * 1000).toNat = dt.micro := by
    simp only [Int.ofNat_eq_natCast]; omega
  rw [h2]

theorem asDateTime_fromDateTime_utc {dt : DT} (v : ValidDT dt) (hy : 1969 ≤ dt.year ∧ dt.year ≤ 2068)
    (hms : dt.micro = 0) :
    asDateTime utc (fromDateTime utc dt) = .ok { dt with off := some (dt.off.getD 0) } := by
  have hmain : AllDig (pad2 (dt.year % 100) ++ mdhms dt) := (allDig_pad2 _).append (allDig_mdhms dt)
  have hlen : (pad2 (dt.year % 100) ++ mdhms dt).length = 12 := by
    rw [List.length_append, length_mdhms v, pad2_lt (by omega)]; rfl
  have hpad : padMain utc (pad2 (dt.year % 100) ++ mdhms dt) = pad2 (dt.year % 100) ++ mdhms dt := by
    simp [padMain, hlen, utc]
  rw [fromDateTime_utc, asDateTime,
    zoneSplit_zoneText utc (hmain.not_mem (by decide)) (hmain.not_mem (by decide)) v.off]
  simp only [fracSplit_none hmain, hpad, strptime_utc v hy]
  simp [hms]

end Asn1.Time
