/-
  Proofs.StrictEverywhere — a rejection at one element is a rejection of every element that contains it.
  `Rep P x x'`: the tree `x'` is `x` with exactly one sub-element `y` (at any depth) replaced by `y'`,
  where `P y y'`.  If the replacement keeps the identifier's class and number and turns acceptance of
  `y` into rejection of `y'` for every guiding type (`Rej`), then it turns acceptance of `x` into
  rejection of `x'` for every guiding type: the decoder reaches the element whatever surrounds it —
  explicit and implicit tags, SEQUENCE/SET members (OPTIONAL/DEFAULT skipping, lookup by tag),
  SEQUENCE OF / SET OF elements, CHOICE alternatives, string segments — and an error there is the
  error of the whole.
-/
import Asn1.Decoder
import Proofs.DecTags

namespace Asn1

inductive Rep (P : TLV → TLV → Prop) : TLV → TLV → Prop
  | here {y y' : TLV} : P y y' → Rep P y y'
  | child {hd hd' : Bytes} {tg : Tag} {indef : Bool} {pre post : List TLV} {c c' : TLV} :
      Rep P c c' →
      Rep P (.cons hd tg indef (pre ++ c :: post)) (.cons hd' tg indef (pre ++ c' :: post))

mutual
/-- guiding types of the theorem: no ANY (an ANY captures octets without looking inside); with
    `iu`, no IMPLICIT tag of class UNIVERSAL and no string kind numbered 1 (so that the identifier
    `[UNIVERSAL 1]` determines the type BOOLEAN) -/
def Ty.good (iu : Bool) : Ty → Bool
  | .any => false
  | .prim (.str k) => !iu || k != 1
  | .prim _ => true
  | .seq fs => Fields.good iu fs
  | .set fs => Fields.good iu fs
  | .choice fs => Fields.good iu fs
  | .seqOf t => t.good iu
  | .setOf t => t.good iu
  | .tagged true _ _ t => t.good iu
  | .tagged false c _ t => (!iu || c != .universal) && t.good iu
def Fields.good (iu : Bool) : Fields → Bool
  | .nil => true
  | .cons _ t r => t.good iu && Fields.good iu r
end

/-- no decoder of a constructed string form is installed (DER) -/
def DecCfg.noCons (cfg : DecCfg) : Bool := !cfg.consBits && cfg.consStr.isEmpty

/-- acceptance of `x` becomes rejection of `x'`, under every guiding type -/
structure Rej (cfg : DecCfg) (iu : Bool) (x x' : TLV) : Prop where
  ty : ∀ t, Ty.good iu t = true → ∀ v, decTy cfg t x = .ok v → ∃ e, decTy cfg t x' = .error e
  body : ∀ t, Ty.good iu t = true → (iu = true → x.tag.cls ≠ .universal) →
    ∀ v, decBody cfg t x = .ok v → ∃ e, decBody cfg t x' = .error e
  seg : cfg.noCons = false → ∀ w, decSegment 4 x = .ok w → ∃ e, decSegment 4 x' = .error e
  bit : cfg.noCons = false → ∀ pre post w, decBitSegments (pre ++ x :: post) = .ok w →
    ∃ e, decBitSegments (pre ++ x' :: post) = .error e
  tag : x'.tag.cls = x.tag.cls ∧ x'.tag.num = x.tag.num

theorem accepts_same (t : Ty) (a b : Tag) (h : b.cls = a.cls ∧ b.num = a.num) :
    t.accepts b = t.accepts a := by
  unfold Ty.accepts
  cases t.outerTags with
  | none => rfl
  | some l => simp only [Tag.same, h.1, h.2]

/-! ### lists of children with one child replaced -/

theorem segs_step (c c' : TLV) (hc : ∀ w, decSegment 4 c = .ok w → ∃ e, decSegment 4 c' = .error e) :
    ∀ (pre post : List TLV) (w : List Bytes), decSegments 4 (pre ++ c :: post) = .ok w →
      ∃ e, decSegments 4 (pre ++ c' :: post) = .error e
  | [], post, w, h => by
    simp only [List.nil_append, decSegments] at h ⊢
    cases hs : decSegment 4 c with
    | error e => rw [hs] at h; simp at h
    | ok b =>
      obtain ⟨e, he⟩ := hc b hs
      exact ⟨e, by rw [he]⟩
  | p :: pre, post, w, h => by
    simp only [List.cons_append, decSegments] at h ⊢
    cases hs : decSegment 4 p with
    | error e => rw [hs] at h; simp at h
    | ok b =>
      rw [hs] at h
      simp only at h ⊢
      cases hr : decSegments 4 (pre ++ c :: post) with
      | error e => rw [hr] at h; simp [Except.map] at h
      | ok w' =>
        obtain ⟨e, he⟩ := segs_step c c' hc pre post w' hr
        exact ⟨e, by rw [he]; rfl⟩

theorem bitsegs_cons_false (hd : Bytes) (tg : Tag) (i : Bool) (cs : List TLV) :
    ∀ (pre post : List TLV) (w : List Bytes), decBitSegments (pre ++ .cons hd tg i cs :: post) = .ok w → False
  | [], post, w, h => by simp [decBitSegments] at h
  | .prim h0 t0 c0 :: pre, post, w, h => by
    simp only [List.cons_append, decBitSegments] at h
    split at h
    · cases hr : decBitSegments (pre ++ .cons hd tg i cs :: post) with
      | error e => rw [hr] at h; simp [Except.map] at h
      | ok w' => exact bitsegs_cons_false hd tg i cs pre post w' hr
    · simp at h
  | .cons .. :: pre, post, w, h => by simp [decBitSegments] at h

theorem elems_step (cfg : DecCfg) (t : Ty) (c c' : TLV)
    (hc : ∀ v, decTy cfg t c = .ok v → ∃ e, decTy cfg t c' = .error e) :
    ∀ (pre post : List TLV) (vs : List Val), decElems cfg t (pre ++ c :: post) = .ok vs →
      ∃ e, decElems cfg t (pre ++ c' :: post) = .error e
  | [], post, vs, h => by
    simp only [List.nil_append, decElems] at h ⊢
    cases hs : decTy cfg t c with
    | error e => rw [hs] at h; simp at h
    | ok b =>
      obtain ⟨e, he⟩ := hc b hs
      exact ⟨e, by rw [he]⟩
  | p :: pre, post, vs, h => by
    simp only [List.cons_append, decElems] at h ⊢
    cases hs : decTy cfg t p with
    | error e => rw [hs] at h; simp at h
    | ok b =>
      rw [hs] at h
      simp only at h ⊢
      cases hr : decElems cfg t (pre ++ c :: post) with
      | error e => rw [hr] at h; simp [Except.map] at h
      | ok w' =>
        obtain ⟨e, he⟩ := elems_step cfg t c c' hc pre post w' hr
        exact ⟨e, by rw [he]; rfl⟩

theorem member_step (cfg : DecCfg) (iu : Bool) (c c' : TLV)
    (hc : ∀ t, Ty.good iu t = true → ∀ v, decTy cfg t c = .ok v → ∃ e, decTy cfg t c' = .error e)
    (htag : c'.tag.cls = c.tag.cls ∧ c'.tag.num = c.tag.num) :
    ∀ (fs : Fields) (i : Nat) (r : Nat × Val), Fields.good iu fs = true →
      decMember cfg fs i c = .ok r → ∃ e, decMember cfg fs i c' = .error e
  | .nil, _, _, _, h => by simp [decMember] at h
  | .cons k t rest, i, r, hg, h => by
    simp only [Fields.good, Bool.and_eq_true] at hg
    simp only [decMember] at h ⊢
    rw [accepts_same t c.tag c'.tag htag]
    by_cases ha : t.accepts c.tag = true
    · simp only [ha, if_true] at h ⊢
      cases hs : decTy cfg t c with
      | error e => rw [hs] at h; simp [Except.map] at h
      | ok v =>
        obtain ⟨e, he⟩ := hc t hg.1 v hs
        exact ⟨e, by rw [he]; rfl⟩
    · simp only [ha, Bool.false_eq_true, if_false] at h ⊢
      exact member_step cfg iu c c' hc htag rest (i + 1) r hg.2 h

theorem set_step (cfg : DecCfg) (iu : Bool) (c c' : TLV)
    (hc : ∀ t, Ty.good iu t = true → ∀ v, decTy cfg t c = .ok v → ∃ e, decTy cfg t c' = .error e)
    (htag : c'.tag.cls = c.tag.cls ∧ c'.tag.num = c.tag.num) (fs : Fields)
    (hg : Fields.good iu fs = true) :
    ∀ (pre post : List TLV) (acc vs : List Val), decSet cfg fs (pre ++ c :: post) acc = .ok vs →
      ∃ e, decSet cfg fs (pre ++ c' :: post) acc = .error e
  | [], post, acc, vs, h => by
    simp only [List.nil_append, decSet] at h ⊢
    cases hs : decMember cfg fs 0 c with
    | error e => rw [hs] at h; simp at h
    | ok r =>
      obtain ⟨e, he⟩ := member_step cfg iu c c' hc htag fs 0 r hg hs
      exact ⟨e, by rw [he]⟩
  | p :: pre, post, acc, vs, h => by
    simp only [List.cons_append, decSet] at h ⊢
    cases hs : decMember cfg fs 0 p with
    | error e => rw [hs] at h; simp at h
    | ok r =>
      rw [hs] at h
      simp only at h ⊢
      exact set_step cfg iu c c' hc htag fs hg pre post _ vs h

theorem fields_step (cfg : DecCfg) (iu : Bool) (c c' : TLV)
    (hc : ∀ t, Ty.good iu t = true → ∀ v, decTy cfg t c = .ok v → ∃ e, decTy cfg t c' = .error e)
    (htag : c'.tag.cls = c.tag.cls ∧ c'.tag.num = c.tag.num) :
    ∀ (fs : Fields) (pre post : List TLV) (vs : List Val), Fields.good iu fs = true →
      decFields cfg fs (pre ++ c :: post) = .ok vs →
      ∃ e, decFields cfg fs (pre ++ c' :: post) = .error e
  | .nil, pre, post, vs, _, h => by
    cases pre <;> simp [decFields] at h
  | .cons .req t rest, [], post, vs, hg, h => by
    simp only [Fields.good, Bool.and_eq_true] at hg
    simp only [List.nil_append, decFields] at h ⊢
    cases hs : decTy cfg t c with
    | error e => rw [hs] at h; simp at h
    | ok v =>
      obtain ⟨e, he⟩ := hc t hg.1 v hs
      exact ⟨e, by rw [he]⟩
  | .cons .req t rest, p :: pre, post, vs, hg, h => by
    simp only [Fields.good, Bool.and_eq_true] at hg
    simp only [List.cons_append, decFields] at h ⊢
    cases hs : decTy cfg t p with
    | error e => rw [hs] at h; simp at h
    | ok v =>
      rw [hs] at h
      simp only at h ⊢
      cases hr : decFields cfg rest (pre ++ c :: post) with
      | error e => rw [hr] at h; simp [Except.map] at h
      | ok w' =>
        obtain ⟨e, he⟩ := fields_step cfg iu c c' hc htag rest pre post w' hg.2 hr
        exact ⟨e, by rw [he]; rfl⟩
  | .cons .opt t rest, [], post, vs, hg, h => by
    simp only [Fields.good, Bool.and_eq_true] at hg
    simp only [List.nil_append, decFields] at h ⊢
    rw [accepts_same t c.tag c'.tag htag]
    by_cases ha : t.accepts c.tag = true
    · simp only [ha, if_true] at h ⊢
      cases hs : decTy cfg t c with
      | error e => rw [hs] at h; simp at h
      | ok v =>
        obtain ⟨e, he⟩ := hc t hg.1 v hs
        exact ⟨e, by rw [he]⟩
    · simp only [ha, Bool.false_eq_true, if_false] at h ⊢
      cases hr : decFields cfg rest (c :: post) with
      | error e => rw [hr] at h; simp [Except.map] at h
      | ok w' =>
        obtain ⟨e, he⟩ := fields_step cfg iu c c' hc htag rest [] post w' hg.2 hr
        exact ⟨e, by simp only [List.nil_append] at he; rw [he]; rfl⟩
  | .cons .opt t rest, p :: pre, post, vs, hg, h => by
    simp only [Fields.good, Bool.and_eq_true] at hg
    simp only [List.cons_append, decFields] at h ⊢
    by_cases ha : t.accepts p.tag = true
    · simp only [ha, if_true] at h ⊢
      cases hs : decTy cfg t p with
      | error e => rw [hs] at h; simp at h
      | ok v =>
        rw [hs] at h
        simp only at h ⊢
        cases hr : decFields cfg rest (pre ++ c :: post) with
        | error e => rw [hr] at h; simp [Except.map] at h
        | ok w' =>
          obtain ⟨e, he⟩ := fields_step cfg iu c c' hc htag rest pre post w' hg.2 hr
          exact ⟨e, by rw [he]; rfl⟩
    · simp only [ha, Bool.false_eq_true, if_false] at h ⊢
      cases hr : decFields cfg rest (p :: (pre ++ c :: post)) with
      | error e => rw [hr] at h; simp [Except.map] at h
      | ok w' =>
        obtain ⟨e, he⟩ := fields_step cfg iu c c' hc htag rest (p :: pre) post w' hg.2 hr
        exact ⟨e, by simp only [List.cons_append] at he; rw [he]; rfl⟩
  | .cons (.dflt d) t rest, [], post, vs, hg, h => by
    simp only [Fields.good, Bool.and_eq_true] at hg
    simp only [List.nil_append, decFields] at h ⊢
    rw [accepts_same t c.tag c'.tag htag]
    by_cases ha : t.accepts c.tag = true
    · simp only [ha, if_true] at h ⊢
      cases hs : decTy cfg t c with
      | error e => rw [hs] at h; simp at h
      | ok v =>
        obtain ⟨e, he⟩ := hc t hg.1 v hs
        exact ⟨e, by rw [he]⟩
    · simp only [ha, Bool.false_eq_true, if_false] at h ⊢
      cases hr : decFields cfg rest (c :: post) with
      | error e => rw [hr] at h; simp [Except.map] at h
      | ok w' =>
        obtain ⟨e, he⟩ := fields_step cfg iu c c' hc htag rest [] post w' hg.2 hr
        exact ⟨e, by simp only [List.nil_append] at he; rw [he]; rfl⟩
  | .cons (.dflt d) t rest, p :: pre, post, vs, hg, h => by
    simp only [Fields.good, Bool.and_eq_true] at hg
    simp only [List.cons_append, decFields] at h ⊢
    by_cases ha : t.accepts p.tag = true
    · simp only [ha, if_true] at h ⊢
      cases hs : decTy cfg t p with
      | error e => rw [hs] at h; simp at h
      | ok v =>
        rw [hs] at h
        simp only at h ⊢
        cases hr : decFields cfg rest (pre ++ c :: post) with
        | error e => rw [hr] at h; simp [Except.map] at h
        | ok w' =>
          obtain ⟨e, he⟩ := fields_step cfg iu c c' hc htag rest pre post w' hg.2 hr
          exact ⟨e, by rw [he]; rfl⟩
    · simp only [ha, Bool.false_eq_true, if_false] at h ⊢
      cases hr : decFields cfg rest (p :: (pre ++ c :: post)) with
      | error e => rw [hr] at h; simp [Except.map] at h
      | ok w' =>
        obtain ⟨e, he⟩ := fields_step cfg iu c c' hc htag rest (p :: pre) post w' hg.2 hr
        exact ⟨e, by simp only [List.cons_append] at he; rw [he]; rfl⟩

/-! ### one level up -/

theorem one_or_many {α} (pre post : List α) (c : α) :
    (pre = [] ∧ post = []) ∨ (∀ c' : α, (pre ++ c' :: post).length ≠ 1) := by
  cases pre with
  | nil =>
    cases post with
    | nil => exact Or.inl ⟨rfl, rfl⟩
    | cons q qs => right; intro c'; simp
  | cons p ps => right; intro c'; simp

section
variable (cfg : DecCfg) (iu : Bool) (hd hd' : Bytes) (tg : Tag) (indef : Bool) (pre post : List TLV)
  (c c' : TLV) (hR : Rej cfg iu c c')
include hR

theorem up_prim (p : PrimTy) (v : Val)
    (h : decPrim cfg p (.cons hd tg indef (pre ++ c :: post)) = .ok v) :
    ∃ e, decPrim cfg p (.cons hd' tg indef (pre ++ c' :: post)) = .error e := by
  cases hn : cfg.noCons with
  | true =>
    exfalso
    simp only [DecCfg.noCons, Bool.and_eq_true, Bool.not_eq_true', List.isEmpty_iff] at hn
    cases p <;> simp [decPrim, hn.1, hn.2] at h
  | false =>
    cases p with
    | bitString =>
      simp only [decPrim] at h ⊢
      have e1 : (pre ++ c :: post).isEmpty = false := by cases pre <;> rfl
      have e2 : (pre ++ c' :: post).isEmpty = false := by cases pre <;> rfl
      simp only [e1, e2, Bool.and_false, Bool.false_eq_true, if_false] at h ⊢
      cases hb : cfg.consBits with
      | false => rw [hb] at h; simp at h
      | true =>
        rw [hb] at h
        simp only [if_true] at h ⊢
        cases hs : decBitSegments (pre ++ c :: post) with
        | error e => rw [hs] at h; simp at h
        | ok w =>
          obtain ⟨e, he⟩ := hR.bit hn pre post w hs
          exact ⟨e, by rw [he]⟩
    | str k =>
      simp only [decPrim] at h ⊢
      cases hk : cfg.consStr.contains k with
      | false => rw [hk] at h; simp at h
      | true =>
        rw [hk] at h
        simp only [if_true] at h ⊢
        cases hs : decSegments 4 (pre ++ c :: post) with
        | error e => rw [hs] at h; simp [Except.map] at h
        | ok w =>
          obtain ⟨e, he⟩ := segs_step c c' (hR.seg hn) pre post w hs
          exact ⟨e, by rw [he]; rfl⟩
    | _ => simp [decPrim] at h

mutual
theorem up_ty : ∀ (t : Ty), Ty.good iu t = true →
    (∀ v, decTy cfg t (.cons hd tg indef (pre ++ c :: post)) = .ok v →
      ∃ e, decTy cfg t (.cons hd' tg indef (pre ++ c' :: post)) = .error e) ∧
    ((iu = true → tg.cls ≠ .universal) →
      ∀ v, decBody cfg t (.cons hd tg indef (pre ++ c :: post)) = .ok v →
      ∃ e, decBody cfg t (.cons hd' tg indef (pre ++ c' :: post)) = .error e)
  | .tagged true cls num t, hg => by
    simp only [Ty.good] at hg
    rcases one_or_many pre post c with ⟨rfl, rfl⟩ | hm
    · simp only [List.nil_append]
      constructor
      · intro v h
        rw [decTy_explicit_one] at h ⊢
        by_cases htg : tg.cls = cls ∧ tg.num = num
        · simp only [htg, and_self, if_true] at h ⊢
          exact hR.ty t hg v h
        · exact ⟨.malformed, by simp [htg]⟩
      · intro _ v h
        rw [decBody_explicit_one] at h ⊢
        exact hR.ty t hg v h
    · constructor
      · intro v h
        rw [decTy_explicit_many _ _ _ _ _ _ _ _ (hm c)] at h; cases h
      · intro _ v h
        rw [decBody_explicit_many _ _ _ _ _ _ _ _ (hm c)] at h; cases h
  | .tagged false cls num t, hg => by
    simp only [Ty.good, Bool.and_eq_true, Bool.or_eq_true, Bool.not_eq_true', bne_iff_ne, ne_eq] at hg
    obtain ⟨h1, h2⟩ := up_ty t hg.2
    constructor
    · intro v h
      simp only [decTy, TLV.tag] at h ⊢
      by_cases htg : tg.cls = cls ∧ tg.num = num
      · simp only [htg, and_self, if_true] at h ⊢
        refine h2 ?_ v h
        intro hiu
        rcases hg.1 with h0 | h0
        · rw [hiu] at h0; cases h0
        · rw [htg.1]; exact h0
      · exact ⟨.malformed, by simp [htg]⟩
    · intro hu v h
      simp only [decBody] at h ⊢
      exact h2 hu v h
  | .prim p, _ => by
    constructor
    · intro v h
      simp only [decTy, TLV.tag] at h ⊢
      by_cases htg : tg.cls = .universal ∧ tg.num = p.univNum
      · simp only [htg, and_self, if_true] at h ⊢
        exact up_prim cfg iu hd hd' tg indef pre post c c' hR p v h
      · exact ⟨.malformed, by simp [htg]⟩
    · intro _ v h
      simp only [decBody] at h ⊢
      exact up_prim cfg iu hd hd' tg indef pre post c c' hR p v h
  | .any, hg => by simp [Ty.good] at hg
  | .seq fs, hg => by
    simp only [Ty.good] at hg
    have key : ∀ v, decBody cfg (.seq fs) (.cons hd tg indef (pre ++ c :: post)) = .ok v →
        ∃ e, decBody cfg (.seq fs) (.cons hd' tg indef (pre ++ c' :: post)) = .error e := by
      intro v h
      simp only [decBody] at h ⊢
      cases hs : decFields cfg fs (pre ++ c :: post) with
      | error e => rw [hs] at h; simp [Except.map] at h
      | ok w =>
        obtain ⟨e, he⟩ := fields_step cfg iu c c' hR.ty hR.tag fs pre post w hg hs
        exact ⟨e, by rw [he]; rfl⟩
    constructor
    · intro v h
      simp only [decTy, TLV.tag] at h ⊢
      by_cases htg : tg.cls = .universal ∧ tg.num = 16
      · simp only [htg, and_self, if_true] at h ⊢
        exact key v h
      · exact ⟨.malformed, by simp [htg]⟩
    · intro _ v h; exact key v h
  | .set fs, hg => by
    simp only [Ty.good] at hg
    have key : ∀ v, decBody cfg (.set fs) (.cons hd tg indef (pre ++ c :: post)) = .ok v →
        ∃ e, decBody cfg (.set fs) (.cons hd' tg indef (pre ++ c' :: post)) = .error e := by
      intro v h
      simp only [decBody] at h ⊢
      cases hs : decSet cfg fs (pre ++ c :: post) (defaultsOf fs) with
      | error e => rw [hs] at h; simp at h
      | ok w =>
        obtain ⟨e, he⟩ := set_step cfg iu c c' hR.ty hR.tag fs hg pre post _ w hs
        exact ⟨e, by rw [he]⟩
    constructor
    · intro v h
      simp only [decTy, TLV.tag] at h ⊢
      by_cases htg : tg.cls = .universal ∧ tg.num = 17
      · simp only [htg, and_self, if_true] at h ⊢
        exact key v h
      · exact ⟨.malformed, by simp [htg]⟩
    · intro _ v h; exact key v h
  | .seqOf t, hg => by
    simp only [Ty.good] at hg
    have key : ∀ v, decBody cfg (.seqOf t) (.cons hd tg indef (pre ++ c :: post)) = .ok v →
        ∃ e, decBody cfg (.seqOf t) (.cons hd' tg indef (pre ++ c' :: post)) = .error e := by
      intro v h
      simp only [decBody] at h ⊢
      cases hs : decElems cfg t (pre ++ c :: post) with
      | error e => rw [hs] at h; simp [Except.map] at h
      | ok w =>
        obtain ⟨e, he⟩ := elems_step cfg t c c' (hR.ty t hg) pre post w hs
        exact ⟨e, by rw [he]; rfl⟩
    constructor
    · intro v h
      simp only [decTy, TLV.tag] at h ⊢
      by_cases htg : tg.cls = .universal ∧ tg.num = 16
      · simp only [htg, and_self, if_true] at h ⊢
        exact key v h
      · exact ⟨.malformed, by simp [htg]⟩
    · intro _ v h; exact key v h
  | .setOf t, hg => by
    simp only [Ty.good] at hg
    have key : ∀ v, decBody cfg (.setOf t) (.cons hd tg indef (pre ++ c :: post)) = .ok v →
        ∃ e, decBody cfg (.setOf t) (.cons hd' tg indef (pre ++ c' :: post)) = .error e := by
      intro v h
      simp only [decBody] at h ⊢
      cases hs : decElems cfg t (pre ++ c :: post) with
      | error e => rw [hs] at h; simp [Except.map] at h
      | ok w =>
        obtain ⟨e, he⟩ := elems_step cfg t c c' (hR.ty t hg) pre post w hs
        exact ⟨e, by rw [he]; rfl⟩
    constructor
    · intro v h
      simp only [decTy, TLV.tag] at h ⊢
      by_cases htg : tg.cls = .universal ∧ tg.num = 17
      · simp only [htg, and_self, if_true] at h ⊢
        exact key v h
      · exact ⟨.malformed, by simp [htg]⟩
    · intro _ v h; exact key v h
  | .choice fs, hg => by
    simp only [Ty.good] at hg
    constructor
    · intro v h
      simp only [decTy] at h ⊢
      exact up_alt fs hg 0 v h
    · intro _ v h
      rcases one_or_many pre post c with ⟨rfl, rfl⟩ | hm
      · simp only [List.nil_append, decBody] at h ⊢
        -- a tagged CHOICE acts as an explicit wrapper: the only child is decoded against the CHOICE
        have : ∀ v, decTy cfg (.choice fs) c = .ok v → ∃ e, decTy cfg (.choice fs) c' = .error e :=
          hR.ty (.choice fs) (by simpa [Ty.good] using hg)
        simp only [decTy] at this
        exact this v h
      · exfalso
        have hl := hm c
        match hpc : pre ++ c :: post, hl with
        | [], _ => rw [hpc] at h; simp [decBody] at h
        | [_], hl => simp at hl
        | _ :: _ :: _, _ => rw [hpc] at h; simp [decBody] at h
theorem up_alt : ∀ (fs : Fields), Fields.good iu fs = true → ∀ (i : Nat) (v : Val),
    decAlt cfg fs i (.cons hd tg indef (pre ++ c :: post)) = .ok v →
    ∃ e, decAlt cfg fs i (.cons hd' tg indef (pre ++ c' :: post)) = .error e
  | .nil, _, _, _, h => by simp [decAlt] at h
  | .cons k t rest, hg, i, v, h => by
    simp only [Fields.good, Bool.and_eq_true] at hg
    simp only [decAlt, TLV.tag] at h ⊢
    by_cases ha : t.accepts tg = true
    · simp only [ha, if_true] at h ⊢
      cases hs : decTy cfg t (.cons hd tg indef (pre ++ c :: post)) with
      | error e => rw [hs] at h; simp [Except.map] at h
      | ok w =>
        obtain ⟨e, he⟩ := (up_ty t hg.1).1 w hs
        exact ⟨e, by rw [he]; rfl⟩
    · simp only [ha, Bool.false_eq_true, if_false] at h ⊢
      exact up_alt rest hg.2 (i + 1) v h
end

/-- the replacement one level up is a rejection too -/
theorem rej_up : Rej cfg iu (.cons hd tg indef (pre ++ c :: post)) (.cons hd' tg indef (pre ++ c' :: post)) where
  ty := fun t hg => (up_ty cfg iu hd hd' tg indef pre post c c' hR t hg).1
  body := fun t hg hu => (up_ty cfg iu hd hd' tg indef pre post c c' hR t hg).2 hu
  seg := by
    intro hn w h
    simp only [decSegment] at h ⊢
    by_cases htg : tg.cls = .universal ∧ tg.num = 4
    · simp only [htg, and_self, if_true] at h ⊢
      cases hs : decSegments 4 (pre ++ c :: post) with
      | error e => rw [hs] at h; simp [Except.map] at h
      | ok w' =>
        obtain ⟨e, he⟩ := segs_step c c' (hR.seg hn) pre post w' hs
        exact ⟨e, by rw [he]; rfl⟩
    · exact ⟨.malformed, by simp [htg]⟩
  bit := by
    intro _ pre' post' w h
    exact (bitsegs_cons_false hd tg indef _ pre' post' w h).elim
  tag := ⟨rfl, rfl⟩

end

/-- **a rejection at one element is a rejection of every element that contains it** -/
theorem rep_rej (cfg : DecCfg) (iu : Bool) (P : TLV → TLV → Prop)
    (hP : ∀ y y', P y y' → Rej cfg iu y y') : ∀ {x x' : TLV}, Rep P x x' → Rej cfg iu x x' := by
  intro x x' h
  induction h with
  | here hp => exact hP _ _ hp
  | child _ ih => exact rej_up cfg iu _ _ _ _ _ _ _ _ ih

/-! ### instance: a primitive element replaced by a constructed one with the same identifier (DER) -/

/-- `y'` is constructed where `y` was primitive, identifier class and number kept -/
def PrimToCons (y y' : TLV) : Prop :=
  ∃ hd tg c hd' tg' i cs, y = .prim hd tg c ∧ y' = .cons hd' tg' i cs ∧ tg'.cls = tg.cls ∧ tg'.num = tg.num

theorem decPrim_cons_noCons (cfg : DecCfg) (hn : cfg.noCons = true) (p : PrimTy) (h : Bytes) (t : Tag)
    (i : Bool) (cs : List TLV) : decPrim cfg p (.cons h t i cs) = .error .malformed := by
  simp only [DecCfg.noCons, Bool.and_eq_true, Bool.not_eq_true', List.isEmpty_iff] at hn
  cases p <;> simp [decPrim, hn.1, hn.2]

section
variable (cfg : DecCfg) (hn : cfg.noCons = true) (hd : Bytes) (tg : Tag) (c : Bytes) (hd' : Bytes) (tg' : Tag)
  (i : Bool) (cs : List TLV) (htg : tg'.cls = tg.cls ∧ tg'.num = tg.num)
include hn htg

mutual
theorem pc_ty : ∀ (t : Ty), Ty.good false t = true →
    (∀ v, decTy cfg t (.prim hd tg c) = .ok v → ∃ e, decTy cfg t (.cons hd' tg' i cs) = .error e) ∧
    (∀ v, decBody cfg t (.prim hd tg c) = .ok v → ∃ e, decBody cfg t (.cons hd' tg' i cs) = .error e)
  | .tagged true cls num t, _ => by
    constructor
    · intro v h; rw [decTy_explicit_prim] at h; cases h
    · intro v h; rw [decBody_explicit_prim] at h; cases h
  | .tagged false cls num t, hg => by
    simp only [Ty.good, Bool.and_eq_true] at hg
    obtain ⟨_, h2⟩ := pc_ty t hg.2
    constructor
    · intro v h
      simp only [decTy, TLV.tag, htg.1, htg.2] at h ⊢
      by_cases hc : tg.cls = cls ∧ tg.num = num
      · simp only [hc, and_self, if_true] at h ⊢
        exact h2 v h
      · exact ⟨.malformed, by simp [hc]⟩
    · intro v h
      simp only [decBody] at h ⊢
      exact h2 v h
  | .prim p, _ => by
    constructor
    · intro v _
      simp only [decTy, TLV.tag, htg.1, htg.2]
      by_cases hc : tg.cls = .universal ∧ tg.num = p.univNum
      · exact ⟨.malformed, by simp [hc, decPrim_cons_noCons cfg hn]⟩
      · exact ⟨.malformed, by simp [hc]⟩
    · intro v _
      exact ⟨.malformed, by simp [decBody, decPrim_cons_noCons cfg hn]⟩
  | .any, hg => by simp [Ty.good] at hg
  | .seq fs, _ => by
    constructor
    · intro v h
      simp only [decTy, TLV.tag] at h
      by_cases hc : tg.cls = .universal ∧ (tg.num = 16 ∨ tg.num = 17) <;> simp_all [decBody]
    · intro v h; simp [decBody] at h
  | .set fs, _ => by
    constructor
    · intro v h
      simp only [decTy, TLV.tag] at h
      by_cases hc : tg.cls = .universal ∧ (tg.num = 16 ∨ tg.num = 17) <;> simp_all [decBody]
    · intro v h; simp [decBody] at h
  | .seqOf t, _ => by
    constructor
    · intro v h
      simp only [decTy, TLV.tag] at h
      by_cases hc : tg.cls = .universal ∧ (tg.num = 16 ∨ tg.num = 17) <;> simp_all [decBody]
    · intro v h; simp [decBody] at h
  | .setOf t, _ => by
    constructor
    · intro v h
      simp only [decTy, TLV.tag] at h
      by_cases hc : tg.cls = .universal ∧ (tg.num = 16 ∨ tg.num = 17) <;> simp_all [decBody]
    · intro v h; simp [decBody] at h
  | .choice fs, hg => by
    simp only [Ty.good] at hg
    constructor
    · intro v h
      simp only [decTy] at h ⊢
      exact pc_alt fs hg 0 v h
    · intro v h; simp [decBody] at h
theorem pc_alt : ∀ (fs : Fields), Fields.good false fs = true → ∀ (k : Nat) (v : Val),
    decAlt cfg fs k (.prim hd tg c) = .ok v → ∃ e, decAlt cfg fs k (.cons hd' tg' i cs) = .error e
  | .nil, _, _, _, h => by simp [decAlt] at h
  | .cons kd t rest, hg, k, v, h => by
    simp only [Fields.good, Bool.and_eq_true] at hg
    simp only [decAlt, TLV.tag] at h ⊢
    have hacc := accepts_same t tg tg' htg
    by_cases ha : t.accepts tg = true
    · have ha' : t.accepts tg' = true := by rw [hacc]; exact ha
      simp only [ha, ha', if_true] at h ⊢
      cases hs : decTy cfg t (.prim hd tg c) with
      | error e => rw [hs] at h; simp [Except.map] at h
      | ok w =>
        obtain ⟨e, he⟩ := (pc_ty t hg.1).1 w hs
        exact ⟨e, by rw [he]; rfl⟩
    · have ha' : ¬ t.accepts tg' = true := by rw [hacc]; exact ha
      simp only [ha, ha', Bool.false_eq_true, if_false] at h ⊢
      exact pc_alt rest hg.2 (k + 1) v h
end

end

theorem primToCons_rej (cfg : DecCfg) (hn : cfg.noCons = true) (y y' : TLV) (h : PrimToCons y y') :
    Rej cfg false y y' := by
  obtain ⟨hd, tg, c, hd', tg', i, cs, rfl, rfl, htg⟩ := h
  exact
    { ty := fun t hg => (pc_ty cfg hn hd tg c hd' tg' i cs htg t hg).1
      body := fun t hg _ => (pc_ty cfg hn hd tg c hd' tg' i cs htg t hg).2
      seg := fun h0 => by rw [hn] at h0; cases h0
      bit := fun h0 => by rw [hn] at h0; cases h0
      tag := htg }

/-! ### instance: a BOOLEAN whose contents are neither 00 nor FF (CER, DER) -/

/-- `y'` carries the identifier `[UNIVERSAL 1]` of `y` and contents other than 00 and FF -/
def BadBool (y y' : TLV) : Prop :=
  ∃ hd hd' tg c c', y = .prim hd tg c ∧ y' = .prim hd' tg c' ∧ tg.cls = .universal ∧ tg.num = 1 ∧
    c' ≠ [0x00] ∧ c' ≠ [0xFF]

theorem decPrim_bool_bad (cfg : DecCfg) (hs : cfg.boolStrict = true) (h : Bytes) (tg : Tag) (c : Bytes)
    (h0 : c ≠ [0x00]) (h1 : c ≠ [0xFF]) : decPrim cfg .boolean (.prim h tg c) = .error .malformed := by
  simp only [decPrim, hs, if_true]
  match c, h0, h1 with
  | [], _, _ => rfl
  | [b], h0, h1 =>
    have hb0 : b ≠ 0 := fun hb => h0 (by rw [hb])
    have hb1 : b ≠ 0xFF := fun hb => h1 (by rw [hb])
    simp [hb0, hb1]
  | _ :: _ :: _, _, _ => rfl

theorem univNum_one (p : PrimTy) (hg : Ty.good true (.prim p) = true) (h : 1 = p.univNum) : p = .boolean := by
  cases p <;> simp [PrimTy.univNum] at h
  · rfl
  · subst h; simp [Ty.good] at hg

section
variable (cfg : DecCfg) (hs : cfg.boolStrict = true) (hd hd' : Bytes) (tg : Tag) (c c' : Bytes)
  (hu : tg.cls = .universal) (h1 : tg.num = 1) (hc0 : c' ≠ [0x00]) (hc1 : c' ≠ [0xFF])
include hs hu h1 hc0 hc1

mutual
theorem bb_ty : ∀ (t : Ty), Ty.good true t = true →
    ∀ v, decTy cfg t (.prim hd tg c) = .ok v → ∃ e, decTy cfg t (.prim hd' tg c') = .error e
  | .tagged true cls num t, _, v, h => by rw [decTy_explicit_prim] at h; cases h
  | .tagged false cls num t, hg, v, h => by
    simp only [Ty.good, Bool.not_true, Bool.false_or, Bool.and_eq_true, bne_iff_ne, ne_eq] at hg
    simp only [decTy, TLV.tag, hu] at h
    have : ¬ (TagClass.universal = cls ∧ tg.num = num) := fun hh => hg.1 hh.1.symm
    simp [this] at h
  | .prim p, hg, v, h => by
    simp only [decTy, TLV.tag, hu, h1, true_and] at h ⊢
    by_cases hp : 1 = p.univNum
    · have := univNum_one p hg hp
      subst this
      exact ⟨.malformed, by simp [PrimTy.univNum, decPrim_bool_bad cfg hs hd' tg c' hc0 hc1]⟩
    · simp [hp] at h
  | .any, hg, _, _ => by simp [Ty.good] at hg
  | .seq fs, _, v, h => by
    simp only [decTy, TLV.tag] at h
    by_cases hc : tg.cls = .universal ∧ (tg.num = 16 ∨ tg.num = 17) <;> simp_all [decBody]
  | .set fs, _, v, h => by
    simp only [decTy, TLV.tag] at h
    by_cases hc : tg.cls = .universal ∧ (tg.num = 16 ∨ tg.num = 17) <;> simp_all [decBody]
  | .seqOf t, _, v, h => by
    simp only [decTy, TLV.tag] at h
    by_cases hc : tg.cls = .universal ∧ (tg.num = 16 ∨ tg.num = 17) <;> simp_all [decBody]
  | .setOf t, _, v, h => by
    simp only [decTy, TLV.tag] at h
    by_cases hc : tg.cls = .universal ∧ (tg.num = 16 ∨ tg.num = 17) <;> simp_all [decBody]
  | .choice fs, hg, v, h => by
    simp only [Ty.good] at hg
    simp only [decTy] at h ⊢
    exact bb_alt fs hg 0 v h
theorem bb_alt : ∀ (fs : Fields), Fields.good true fs = true → ∀ (k : Nat) (v : Val),
    decAlt cfg fs k (.prim hd tg c) = .ok v → ∃ e, decAlt cfg fs k (.prim hd' tg c') = .error e
  | .nil, _, _, _, h => by simp [decAlt] at h
  | .cons kd t rest, hg, k, v, h => by
    simp only [Fields.good, Bool.and_eq_true] at hg
    simp only [decAlt, TLV.tag] at h ⊢
    by_cases ha : t.accepts tg = true
    · simp only [ha, if_true] at h ⊢
      cases hs' : decTy cfg t (.prim hd tg c) with
      | error e => rw [hs'] at h; simp [Except.map] at h
      | ok w =>
        obtain ⟨e, he⟩ := bb_ty t hg.1 w hs'
        exact ⟨e, by rw [he]; rfl⟩
    · simp only [ha, Bool.false_eq_true, if_false] at h ⊢
      exact bb_alt rest hg.2 (k + 1) v h
end

end

theorem bitsegs_notbit (hd : Bytes) (tg : Tag) (c : Bytes) (h : ¬ (tg.cls = .universal ∧ tg.num = 3)) :
    ∀ (pre post : List TLV) (w : List Bytes), decBitSegments (pre ++ .prim hd tg c :: post) = .ok w → False
  | [], post, w, hh => by simp [decBitSegments, h] at hh
  | .prim h0 t0 c0 :: pre, post, w, hh => by
    simp only [List.cons_append, decBitSegments] at hh
    split at hh
    · cases hr : decBitSegments (pre ++ .prim hd tg c :: post) with
      | error e => rw [hr] at hh; simp [Except.map] at hh
      | ok w' => exact bitsegs_notbit hd tg c h pre post w' hr
    · simp at hh
  | .cons .. :: pre, post, w, hh => by simp [decBitSegments] at hh

theorem badBool_rej (cfg : DecCfg) (hs : cfg.boolStrict = true) (y y' : TLV) (h : BadBool y y') :
    Rej cfg true y y' := by
  obtain ⟨hd, hd', tg, c, c', rfl, rfl, hu, h1, hc0, hc1⟩ := h
  exact
    { ty := fun t hg => bb_ty cfg hs hd hd' tg c c' hu h1 hc0 hc1 t hg
      body := fun t _ hne => absurd hu (hne rfl)
      seg := fun _ w hw => by simp [decSegment, h1] at hw
      bit := fun _ pre post w hw =>
        (bitsegs_notbit hd tg c (by rw [h1]; simp) pre post w hw).elim
      tag := ⟨rfl, rfl⟩ }

end Asn1
