/-
  Proofs.Digits — big-endian digit strings: value/representation round trip, digit bounds,
  byte conversions.
-/
import Asn1.Basic

namespace Asn1

theorem ofBeDigits_append (b : Nat) (ds : List Nat) (d : Nat) :
    ofBeDigits b (ds ++ [d]) = ofBeDigits b ds * (b + 2) + d := by
  simp [ofBeDigits, List.foldl_append]

theorem beDigits_zero (b : Nat) : beDigits b 0 = [] := by
  rw [beDigits]; simp

theorem beDigits_pos (b n : Nat) (h : n ≠ 0) :
    beDigits b n = beDigits b (n / (b + 2)) ++ [n % (b + 2)] := by
  rw [beDigits]; simp [h]

theorem ofBe_be (b n : Nat) : ofBeDigits b (beDigits b n) = n := by
  induction n using Nat.strongRecOn with
  | _ n ih =>
    by_cases h : n = 0
    · subst h; simp [beDigits_zero, ofBeDigits]
    · rw [beDigits_pos b n h, ofBeDigits_append, ih _ (Nat.div_lt_self (Nat.pos_of_ne_zero h) (by omega))]
      exact Nat.div_add_mod' n (b + 2)

theorem beDigits_lt (b n : Nat) : ∀ d ∈ beDigits b n, d < b + 2 := by
  induction n using Nat.strongRecOn with
  | _ n ih =>
    by_cases h : n = 0
    · subst h; simp [beDigits_zero]
    · rw [beDigits_pos b n h]
      intro d hd
      rw [List.mem_append] at hd
      rcases hd with hd | hd
      · exact ih _ (Nat.div_lt_self (Nat.pos_of_ne_zero h) (by omega)) d hd
      · simp at hd; subst hd; exact Nat.mod_lt _ (by omega)

theorem beDigits_ne_nil (b n : Nat) (h : n ≠ 0) : beDigits b n ≠ [] := by
  rw [beDigits_pos b n h]; simp

theorem beDigits_length_pos (b n : Nat) (h : n ≠ 0) : 0 < (beDigits b n).length := by
  have := beDigits_ne_nil b n h
  exact List.length_pos_iff.mpr this

/-- leading digit is non-zero: the representation is the shortest one -/
theorem beDigits_head_ne_zero (b n : Nat) : (beDigits b n).head? ≠ some 0 := by
  induction n using Nat.strongRecOn with
  | _ n ih =>
    by_cases h : n = 0
    · subst h; simp [beDigits_zero]
    · rw [beDigits_pos b n h]
      by_cases hq : n / (b + 2) = 0
      · rw [hq, beDigits_zero]
        simp
        intro hm
        have := Nat.div_add_mod n (b + 2)
        rw [hq, hm] at this; simp at this; omega
      · have := ih (n / (b + 2)) (Nat.div_lt_self (Nat.pos_of_ne_zero h) (by omega))
        have hne := beDigits_ne_nil b _ hq
        cases hds : beDigits b (n / (b + 2)) with
        | nil => exact absurd hds hne
        | cons x xs => rw [hds] at this; simpa using this

theorem bytesToNats_natsToBytes (ds : List Nat) (h : ∀ d ∈ ds, d < 256) :
    bytesToNats (natsToBytes ds) = ds := by
  induction ds with
  | nil => rfl
  | cons d ds ih =>
    have hd : d < 256 := h d (by simp)
    simp only [natsToBytes, bytesToNats, List.map_cons, List.map_map] at *
    rw [ih (fun x hx => h x (by simp [hx]))]
    simp [UInt8.toNat_ofNat']
    omega

theorem bytesToNat_natsToBytes_be256 (n : Nat) : bytesToNat (natsToBytes (be256 n)) = n := by
  unfold bytesToNat
  rw [bytesToNats_natsToBytes _ (beDigits_lt 254 n)]
  exact ofBe_be 254 n

@[simp] theorem natsToBytes_length (ds : List Nat) : (natsToBytes ds).length = ds.length := by
  simp [natsToBytes]

theorem natsToBytes_append (a b : List Nat) : natsToBytes (a ++ b) = natsToBytes a ++ natsToBytes b := by
  simp [natsToBytes]

end Asn1
