/-
  Proofs.KernelBits — BIT STRING contents in the primitive form, as the source reads them:
  `BitString.fromOctetString(chunk, internalFormat=True, padding=p)` (type/univ.py, translated into `GenK.bitsFromOctets`:
  the octets as one big-endian integer shifted right by the unused bits, remembered together with its length in bits) and
  the primitive branch of `BitStringPayloadDecoder.valueDecoder` (codec/ber/decoder.py, translated into `GenK.bitsDecode`:
  "Empty BIT STRING substrate", the leading unused-bits octet, "Trailing bits overflow", the call of fromOctetString) compute
  the model's `bitsFromContent`: the same refusals, and the integer / bit length of exactly the bit list the model yields.
-/
import Proofs.KernelTag

namespace Asn1.Kernels
open Py

/-! ### bit lists as numbers (most significant bit first) -/

theorem bitsToNat_append : ∀ (xs ys : List Bool), bitsToNat (xs ++ ys) = bitsToNat xs * 2 ^ ys.length + bitsToNat ys
  | [], ys => by simp [bitsToNat]
  | b :: xs, ys => by
    simp only [List.cons_append, bitsToNat, bitsToNat_append xs ys, List.length_append, Nat.pow_add, Nat.add_mul]
    cases b <;> simp [Nat.add_assoc]

theorem bitsToNat_lt : ∀ (xs : List Bool), bitsToNat xs < 2 ^ xs.length
  | [] => by simp [bitsToNat]
  | b :: xs => by
    have ih := bitsToNat_lt xs
    simp only [bitsToNat, List.length_cons, Nat.pow_succ]
    cases b <;> simp <;> omega

theorem byteBits_all : ∀ k : Fin 256,
    bitsToNat [decide (k.val / 128 % 2 = 1), decide (k.val / 64 % 2 = 1), decide (k.val / 32 % 2 = 1), decide (k.val / 16 % 2 = 1),
      decide (k.val / 8 % 2 = 1), decide (k.val / 4 % 2 = 1), decide (k.val / 2 % 2 = 1), decide (k.val % 2 = 1)] = k.val := by
  decide +kernel

theorem bitsToNat_byte (b : UInt8) : bitsToNat (byteToBits b) = b.toNat :=
  byteBits_all ⟨b.toNat, UInt8.toNat_lt b⟩

theorem byteToBits_length (b : UInt8) : (byteToBits b).length = 8 := rfl

theorem unpackBits_cons (b : UInt8) (rest : Bytes) : unpackBits (b :: rest) = byteToBits b ++ unpackBits rest := by
  simp [unpackBits, List.flatMap_cons]

theorem unpackBits_length : ∀ (bs : Bytes), (unpackBits bs).length = 8 * bs.length
  | [] => rfl
  | b :: rest => by
    rw [unpackBits_cons, List.length_append, byteToBits_length, unpackBits_length rest, List.length_cons]; omega

/-- the octets read as one big-endian number are the bits read as one number -/
theorem natOfBE_bits : ∀ (bs : Bytes) (a : Nat),
    Py.natOfBE (bytesInts bs) (a : Int) = ((a * 2 ^ (8 * bs.length) + bitsToNat (unpackBits bs) : Nat) : Int)
  | [], a => by simp [Py.natOfBE, bytesInts, unpackBits, bitsToNat]
  | b :: rest, a => by
    rw [bytesInts_cons, Py.natOfBE]
    have hacc : (a : Int) * 256 + (b.toNat : Int) = ((a * 256 + b.toNat : Nat) : Int) := by
      simp [Int.natCast_add, Int.natCast_mul]
    rw [hacc, natOfBE_bits rest, unpackBits_cons, bitsToNat_append, bitsToNat_byte, unpackBits_length]
    congr 1
    have h8 : 8 * (b :: rest).length = 8 * rest.length + 8 := by simp [List.length_cons]; omega
    rw [h8, Nat.pow_add, Nat.add_mul]
    have : (2 : Nat) ^ 8 = 256 := by decide
    rw [this]
    simp only [Nat.mul_assoc, Nat.mul_comm 256, Nat.add_assoc]

theorem fromBytes_unsigned (bs : Bytes) : Py.fromBytes (bytesInts bs) false = ((bitsToNat (unpackBits bs) : Nat) : Int) := by
  have h := natOfBE_bits bs 0
  simp only [Nat.zero_mul, Nat.zero_add] at h
  cases bs with
  | nil => rfl
  | cons b rest =>
    simp only [Py.fromBytes, bytesInts_cons, Bool.false_and, Bool.false_eq_true, if_false]
    exact h

/-- dropping the last `p` bits is shifting right by `p` -/
theorem bitsToNat_take (all : List Bool) (p : Nat) (hp : p ≤ all.length) :
    bitsToNat (all.take (all.length - p)) = bitsToNat all >>> p := by
  have hsplit : all = all.take (all.length - p) ++ all.drop (all.length - p) := (List.take_append_drop _ _).symm
  have hdl : (all.drop (all.length - p)).length = p := by simp; omega
  have hlt := bitsToNat_lt (all.drop (all.length - p))
  rw [hdl] at hlt
  have h := bitsToNat_append (all.take (all.length - p)) (all.drop (all.length - p))
  rw [← hsplit, hdl] at h
  rw [h, Nat.shiftRight_eq_div_pow]
  have hpos : 0 < 2 ^ p := Nat.pow_pos (by decide)
  rw [Nat.add_comm, Nat.add_mul_div_right _ _ hpos, Nat.div_eq_of_lt hlt, Nat.zero_add]

/-! ### `BitString.fromOctetString(value, internalFormat=True, padding=p)` -/

/-- **fromOctetString as it is in the source**: refused when more bits are said to be unused than there are; otherwise the
    octets as a number shifted right by the unused bits, of `8 * |octets| - p` bits - the number and the length of the bit
    list `unpackBits octets` without its last `p` bits -/
theorem bitsFromOctets_kernel (bs : Bytes) (p : Nat) :
    GenK.bitsFromOctets (bytesInts bs) (p : Int) =
      if p > 8 * bs.length then .error (.lib "PyAsn1Error")
      else .ok (((bitsToNat ((unpackBits bs).take (8 * bs.length - p)) : Nat) : Int), ((8 * bs.length - p : Nat) : Int)) := by
  unfold GenK.bitsFromOctets GenK.fromBytes
  rw [len_bytes]
  by_cases h : p > 8 * bs.length
  · have : ((p : Nat) : Int) > ((bs.length : Nat) : Int) * 8 := by omega
    simp [h, this, throw, throwThe, MonadExceptOf.throw]
  · have : ¬ (((p : Nat) : Int) > ((bs.length : Nat) : Int) * 8) := by omega
    simp only [h, this, decide_false, Bool.false_eq_true, if_false, bind, Except.bind, pure, Except.pure, fromBytes_unsigned,
      shr_nat]
    have ht := bitsToNat_take (unpackBits bs) p (by rw [unpackBits_length]; omega)
    rw [unpackBits_length] at ht
    rw [ht]
    congr 2
    omega

/-! ### the primitive branch of `BitStringPayloadDecoder.valueDecoder` -/

/-- the model's answer as the kernel reports it: the value as (integer, length in bits) -/
def liftBits : Res (List Bool) → Py.M (Int × Int)
  | .ok bs => .ok (((bitsToNat bs : Nat) : Int), ((bs.length : Nat) : Int))
  | .error _ => .error (.lib "PyAsn1Error")

theorem readN_all_from (bs : Bytes) (i : Nat) (hi : i ≤ bs.length) :
    Py.readN (bytesInts bs) (i : Int) (((bs.length : Nat) : Int) - (i : Int)) = .ok (bytesInts (bs.drop i)) := by
  unfold Py.readN
  have hl : (bytesInts bs).length = bs.length := by simp [bytesInts]
  have e1 : ((i : Nat) : Int).toNat = i := by omega
  have e2 : (((bs.length : Nat) : Int) - (i : Int)).toNat = bs.length - i := by omega
  rw [e1, e2, hl]
  have : i + (bs.length - i) ≤ bs.length := by omega
  simp only [this, if_true, pure, Except.pure]
  congr 1
  have hm : (bytesInts bs).drop i = bytesInts (bs.drop i) := by
    show (bs.map _).drop _ = (bs.drop i).map _
    rw [List.map_drop]
  rw [hm]
  apply List.take_of_length_le
  simp [bytesInts]

/-- **the primitive BIT STRING branch as it is in the source is the model's `bitsFromContent`**: no contents octets -
    refused; more than 7 unused bits - refused; unused bits without any octet to hold them - refused (by fromOctetString);
    otherwise the bit list of the octets without the unused bits, as the integer and the length the value object keeps -/
theorem bitsDecode_kernel (c : Bytes) :
    GenK.bitsDecode (bytesInts c) ((c.length : Nat) : Int) = liftBits (bitsFromContent c) := by
  unfold GenK.bitsDecode
  cases c with
  | nil => simp [Py.truthy, bitsFromContent, liftBits, throw, throwThe, MonadExceptOf.throw]
  | cons p rest =>
    have hlen : Py.truthy (((p :: rest).length : Nat) : Int) = true := by
      simp [Py.truthy]; omega
    have h0 := readN_one (p :: rest) 0
    simp only [Int.natCast_zero] at h0
    have hpos : 0 < (p :: rest).length := by simp
    simp only [hpos, dite_true, List.getElem_cons_zero] at h0
    simp only [hlen, Bool.not_true, Bool.false_eq_true, if_false, h0, bind, Except.bind, Py.ord, pure, Except.pure]
    have hp := UInt8.toNat_lt p
    by_cases h7 : p.toNat > 7
    · have : ((p.toNat : Nat) : Int) > 7 := by omega
      simp [this, h7, bitsFromContent, liftBits, throw, throwThe, MonadExceptOf.throw]
    · have : ¬ (((p.toNat : Nat) : Int) > 7) := by omega
      simp only [this, decide_false, Bool.false_eq_true, if_false]
      have hr : Py.readN (bytesInts (p :: rest)) ((0 : Int) + 1) ((((p :: rest).length : Nat) : Int) - 1) = .ok (bytesInts rest) := by
        have h := readN_all_from (p :: rest) 1 (by simp)
        simpa using h
      rw [hr]
      simp only [bitsFromOctets_kernel, bitsFromContent, h7, if_false, unpackBits_length]
      by_cases hover : p.toNat > 8 * rest.length
      · simp [hover, liftBits]
      · simp only [hover, if_false, liftBits]
        congr 2
        simp [List.length_take, unpackBits_length]

/-! ### `NullPayloadDecoder.valueDecoder` -/

/-- **the NULL decoder as it is in the source**: a constructed identifier is refused, contents octets are refused
    ("Unexpected n-octet substrate for Null"), and an empty contents is accepted having consumed nothing - on the complete
    contents `c` (the declared length is what is there) -/
theorem nullDecode_kernel (notSimple : Bool) (c : Bytes) :
    GenK.nullDecode notSimple (bytesInts c) ((c.length : Nat) : Int) =
      if notSimple then .error (.lib "PyAsn1Error") else if c.isEmpty then .ok 0 else .error (.lib "PyAsn1Error") := by
  unfold GenK.nullDecode
  cases notSimple with
  | true => simp [throw, throwThe, MonadExceptOf.throw]
  | false =>
    have hr : Py.readN (bytesInts c) (0 : Int) ((c.length : Nat) : Int) = .ok (bytesInts c) := by
      have h := readN_all_from c 0 (Nat.zero_le _)
      simpa using h
    simp only [Bool.false_eq_true, if_false, hr, bind, Except.bind]
    cases c with
    | nil => simp [bytesInts, pure, Except.pure]
    | cons b rest => simp [bytesInts, throw, throwThe, MonadExceptOf.throw]

/-! ### BER BOOLEAN: `IntegerPayloadDecoder.valueDecoder` then `BooleanPayloadDecoder._createComponent` -/

/-- **the BER BOOLEAN decoder as it is in the source**: the contents octets read as a two's complement integer (the
    translated INTEGER decoder), then `value and 1 or 0` (the translated `_createComponent`): 1 exactly when that integer is
    not zero - the model's lenient `intFromBytes c != 0`, for every contents string (empty, one octet, many) -/
theorem berBoolDec_kernel (c : Bytes) :
    (GenK.intDecode (bytesInts c) >>= GenK.berBoolDec) = .ok (if intFromBytes c != 0 then 1 else 0) := by
  rw [intDecode_kernel]
  show GenK.berBoolDec (intFromBytes c) = _
  unfold GenK.berBoolDec Py.truthy
  by_cases h : intFromBytes c = 0 <;> simp [h, pure, Except.pure]

end Asn1.Kernels
