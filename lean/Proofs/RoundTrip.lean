/-
  Proofs.RoundTrip — decoding inverts encoding at the level of types and values, for every type
  and value in the stated region, with no bound on nesting, width, tag numbers or lengths.

  Structure:
    * tag-set facts (`Ty.tags`): the base tag first, every further tag constructed, no tag looks
      like end-of-octets;
    * `item_of_content`: the encoder's header loop (`finishItem` / `wrapTags`) builds a well-formed
      element that the decoder's tag matching (`decTy`) strips again;
    * `rt_content` / `rt_fields` / `rt_alt`: mutual induction over the type.
-/
import Proofs.Wrap
import Proofs.PrimRT
import Proofs.DecTags
import Proofs.Dispatch

namespace Asn1

/-! ### the region -/

mutual
/-- types of the region: no ANY, REAL only if `rl`, string kinds the BER decoder knows, no IMPLICIT/EXPLICIT
    tag `[UNIVERSAL 0]`, and — unless the mode is definite — no explicit tag over a scalar whose
    encoder cannot write indefinite lengths (finding E1, the stray end-of-octets). -/
def Ty.reg (rl : Bool) (cfg : EncCfg) (dm : Bool) : Ty → Bool
  | .prim .real => rl
  | .prim (.str k) => allStrKinds.contains k
  | .prim _ => true
  | .any => false
  | .seq fs => Fields.reg rl cfg dm fs
  | .set fs => Fields.reg rl cfg dm fs
  | .choice fs => Fields.reg rl cfg dm fs
  | .seqOf t => t.reg rl cfg dm
  | .setOf t => t.reg rl cfg dm
  | .tagged e c n t =>
    (c != .universal || n != 0) &&
    (dm || supportsIndef cfg t.base || decide ((Ty.tagged e c n t).tags.length ≤ 1)) && t.reg rl cfg dm
def Fields.reg (rl : Bool) (cfg : EncCfg) (dm : Bool) : Fields → Bool
  | .nil => true
  | .cons _ t r => t.reg rl cfg dm && Fields.reg rl cfg dm r
end

structure Region (cfg : EncCfg) (dcfg : DecCfg) (o : EncOpts) : Prop where
  seqOmit : cfg.seqOmitEmpty = false
  setOrd : cfg.setOrder = .declared
  sortOf : cfg.sortSetOf = false
  chunk : o.maxChunk = 0 ∨
    (dcfg.consBits = true ∧ allStrKinds.all (fun k => dcfg.consStr.contains k) = true)
  ine : o.ifNotEmpty = false
  bool : ∀ (b : Bool) (hd : Bytes) (tg : Tag),
    decPrim dcfg .boolean (.prim hd tg [UInt8.ofNat (if b then cfg.boolTrue else 0)]) = .ok (.bool b)

/-! ### tag sets -/

def okTag (tg : Tag) : Prop := tg.cls ≠ .universal ∨ tg.num ≠ 0

theorem tagImplicitly_concat (init : List Tag) (last : Tag) (cls : TagClass) (fmt : Bool) (num : Nat) :
    TagSet.tagImplicitly (init ++ [last]) cls fmt num = init ++ [⟨cls, last.constructed, num⟩] := by
  simp [TagSet.tagImplicitly]

theorem tagImplicitly_nil (cls : TagClass) (fmt : Bool) (num : Nat) :
    TagSet.tagImplicitly [] cls fmt num = [⟨cls, fmt, num⟩] := by
  simp [TagSet.tagImplicitly]

/-- every tag but the base one is constructed (explicit wrappers) -/
theorem tags_tail_constructed : ∀ (t : Ty), ∀ tg ∈ t.tags.tail, tg.constructed = true
  | .prim _, tg, h => by simp [Ty.tags] at h
  | .seq _, tg, h => by simp [Ty.tags] at h
  | .seqOf _, tg, h => by simp [Ty.tags] at h
  | .set _, tg, h => by simp [Ty.tags] at h
  | .setOf _, tg, h => by simp [Ty.tags] at h
  | .choice _, tg, h => by simp [Ty.tags] at h
  | .any, tg, h => by simp [Ty.tags] at h
  | .tagged true cls num t, tg, h => by
      have ih := tags_tail_constructed t
      simp only [Ty.tags] at h
      cases ht : t.tags with
      | nil => rw [ht] at h; simp at h
      | cons a r =>
        rw [ht] at h ih
        simp only [List.cons_append, List.tail_cons, List.mem_append, List.mem_singleton] at h
        rcases h with h | h
        · exact ih tg (by simpa using h)
        · rw [h]
  | .tagged false cls num t, tg, h => by
      have ih := tags_tail_constructed t
      simp only [Ty.tags] at h
      rcases List.eq_nil_or_concat t.tags with ht | ⟨init, last, ht⟩
      · rw [ht, tagImplicitly_nil] at h; simp at h
      · rw [ht] at ih
        rw [ht, List.concat_eq_append, tagImplicitly_concat] at h
        rw [List.concat_eq_append] at ih
        cases init with
        | nil => simp at h
        | cons a r =>
          simp only [List.cons_append, List.tail_cons, List.mem_append, List.mem_singleton] at h ih
          rcases h with h | h
          · exact ih tg (Or.inl h)
          · rw [h]; exact ih last (Or.inr rfl)

/-- a scalar's base tag stays primitive under any tagging -/
theorem tags_head_prim : ∀ (t : Ty) (p : PrimTy), t.base = .prim p →
    ∃ t0 ts, t.tags = t0 :: ts ∧ t0.constructed = false
  | .prim q, p, _ => ⟨_, [], rfl, rfl⟩
  | .seq _, p, h => by simp [Ty.base] at h
  | .seqOf _, p, h => by simp [Ty.base] at h
  | .set _, p, h => by simp [Ty.base] at h
  | .setOf _, p, h => by simp [Ty.base] at h
  | .choice _, p, h => by simp [Ty.base] at h
  | .any, p, h => by simp [Ty.base] at h
  | .tagged true cls num t, p, h => by
      obtain ⟨t0, ts, ht, hc⟩ := tags_head_prim t p (by simpa [Ty.base] using h)
      exact ⟨t0, ts ++ [⟨cls, true, num⟩], by simp [Ty.tags, ht], hc⟩
  | .tagged false cls num t, p, h => by
      obtain ⟨t0, ts, ht, hc⟩ := tags_head_prim t p (by simpa [Ty.base] using h)
      simp only [Ty.tags]
      rcases List.eq_nil_or_concat t.tags with hn | ⟨init, last, hl⟩
      · rw [hn] at ht; simp at ht
      · rw [hl, List.concat_eq_append, tagImplicitly_concat]
        rw [hl, List.concat_eq_append] at ht
        cases init with
        | nil =>
          simp only [List.nil_append, List.cons.injEq] at ht
          exact ⟨_, [], rfl, by rw [ht.1]; exact hc⟩
        | cons a r =>
          simp only [List.cons_append, List.cons.injEq] at ht
          exact ⟨a, r ++ [⟨cls, last.constructed, num⟩], rfl, by rw [ht.1]; exact hc⟩

theorem strKind_ne_zero (k : Nat) (h : allStrKinds.contains k = true) : k ≠ 0 := by
  intro hk; subst hk; revert h; decide

/-- no tag of a type of the region is `[UNIVERSAL 0]` -/
theorem tags_ok (rl : Bool) (cfg : EncCfg) (dm : Bool) : ∀ (t : Ty), t.reg rl cfg dm = true → t.WF = true →
    ∀ tg ∈ t.tags, okTag tg
  | .prim p, hr, _, tg, h => by
      simp only [Ty.tags, List.mem_singleton] at h
      subst h
      right
      cases p with
      | str k => exact strKind_ne_zero k (by simpa [Ty.reg] using hr)
      | _ => simp [PrimTy.univNum]
  | .seq _, _, _, tg, h => by simp only [Ty.tags, List.mem_singleton] at h; subst h; right; simp
  | .seqOf _, _, _, tg, h => by simp only [Ty.tags, List.mem_singleton] at h; subst h; right; simp
  | .set _, _, _, tg, h => by simp only [Ty.tags, List.mem_singleton] at h; subst h; right; simp
  | .setOf _, _, _, tg, h => by simp only [Ty.tags, List.mem_singleton] at h; subst h; right; simp
  | .choice _, _, _, tg, h => by simp [Ty.tags] at h
  | .any, _, _, tg, h => by simp [Ty.tags] at h
  | .tagged true cls num t, hr, hw, tg, h => by
      simp only [Ty.reg, Bool.and_eq_true] at hr
      simp only [Ty.WF, Bool.and_eq_true, bne_iff_ne] at hw
      simp only [Ty.tags, List.mem_append, List.mem_singleton] at h
      rcases h with h | h
      · exact tags_ok rl cfg dm t hr.2 hw.2 tg h
      · subst h; left; exact hw.1
  | .tagged false cls num t, hr, hw, tg, h => by
      simp only [Ty.reg, Bool.and_eq_true, Bool.or_eq_true, bne_iff_ne] at hr
      simp only [Ty.WF] at hw
      have ih := tags_ok rl cfg dm t hr.2 hw
      simp only [Ty.tags] at h
      rcases List.eq_nil_or_concat t.tags with hn | ⟨init, last, hl⟩
      · rw [hn, tagImplicitly_nil, List.mem_singleton] at h
        subst h; exact hr.1.1
      · rw [hl, List.concat_eq_append, tagImplicitly_concat, List.mem_append, List.mem_singleton] at h
        rcases h with h | h
        · exact ih tg (by rw [hl, List.concat_eq_append]; simp [h])
        · subst h; exact hr.1.1

theorem reg_not_any (rl : Bool) (cfg : EncCfg) (dm : Bool) : ∀ (t : Ty), t.reg rl cfg dm = true → isAnyBase t = false
  | .prim _, _ => rfl
  | .seq _, _ => rfl
  | .seqOf _, _ => rfl
  | .set _, _ => rfl
  | .setOf _, _ => rfl
  | .choice _, _ => rfl
  | .any, h => by simp [Ty.reg] at h
  | .tagged _ _ _ t, h => by
      simp only [Ty.reg, Bool.and_eq_true] at h
      simpa [isAnyBase] using reg_not_any rl cfg dm t h.2

theorem reg_hok (rl : Bool) (cfg : EncCfg) (dm : Bool) (t : Ty) (hr : t.reg rl cfg dm = true) (t0 : Tag) (ts : List Tag)
    (ht : t.tags = t0 :: ts) : ts = [] ∨ dm = true ∨ supportsIndef cfg t.base = true := by
  cases t with
  | tagged e c n t' =>
    simp only [Ty.reg, Bool.and_eq_true, Bool.or_eq_true, decide_eq_true_eq] at hr
    rcases hr.1.2 with (h | h) | h
    · exact Or.inr (Or.inl h)
    · exact Or.inr (Or.inr (by simpa [Ty.base] using h))
    · left
      rw [ht] at h
      simp only [List.length_cons] at h
      exact List.eq_nil_of_length_eq_zero (by omega)
  | choice _ => simp [Ty.tags] at ht
  | any => simp [Ty.tags] at ht
  | prim _ => simp only [Ty.tags, List.cons.injEq] at ht; exact Or.inl ht.2.symm
  | seq _ => simp only [Ty.tags, List.cons.injEq] at ht; exact Or.inl ht.2.symm
  | seqOf _ => simp only [Ty.tags, List.cons.injEq] at ht; exact Or.inl ht.2.symm
  | set _ => simp only [Ty.tags, List.cons.injEq] at ht; exact Or.inl ht.2.symm
  | setOf _ => simp only [Ty.tags, List.cons.injEq] at ht; exact Or.inl ht.2.symm

/-- the element's tag is the type's outermost tag -/
theorem tagIn_of_last (t : Ty) (tl tg : Tag) (hl : t.tags.getLast? = some tl)
    (hc : tl.cls = tg.cls) (hn : tl.num = tg.num) : TagIn t tg := by
  refine ⟨[tl], ?_, by simp [Tag.same, hc, hn]⟩
  cases t with
  | choice _ => simp [Ty.tags] at hl
  | any => simp [Ty.tags] at hl
  | prim _ => simp only [Ty.outerTags, hl]
  | seq _ => simp only [Ty.outerTags, hl]
  | seqOf _ => simp only [Ty.outerTags, hl]
  | set _ => simp only [Ty.outerTags, hl]
  | setOf _ => simp only [Ty.outerTags, hl]
  | tagged _ _ _ _ => simp only [Ty.outerTags, hl]


/-! ### the header loop against the tag matching -/

theorem sameTag_wire (t : Tag) (ic : Bool) : sameTag (wireTag t ic) t = true := by
  simp [sameTag, wireTag]

theorem wrapRest_good (dcfg : DecCfg) (base : Ty) (dm : Bool) :
    ∀ (ts : List Tag) (y x : TLV), (∀ t ∈ ts, t.constructed = true) → y.WF → NotEoo y.ser →
      wrapRest dm ts y = .ok x →
      x.WF ∧ NotEoo x.ser ∧
      (∀ i0 inner, decG dcfg base true (ts.reverse ++ i0 :: inner) x
          = decG dcfg base true (i0 :: inner) y) ∧
      x.tag = (match ts.getLast? with | some t => wireTag t true | none => y.tag)
  | [], y, x, _, hw, hn, h => by
      simp only [wrapRest, Except.ok.injEq] at h
      subst h
      exact ⟨hw, hn, by intro i0 inner; simp, by simp⟩
  | t :: ts, y, x, hc, hw, hn, h => by
      simp only [wrapRest] at h
      cases hy : consNode t (!dm) [y] with
      | error e => rw [hy] at h; simp at h
      | ok y' =>
        rw [hy] at h
        simp only at h
        have hw' : y'.WF := consNode_wf t (!dm) [y] y' ⟨hw, trivial⟩ (fun _ => ⟨hn, trivial⟩) hy
        obtain ⟨htag, hd, hshape⟩ := consNode_tag t (!dm) [y] y' hy
        have hn' : NotEoo y'.ser := notEoo_of_tag y' hw' (by rw [htag]; right; right; simp [wireTag])
        obtain ⟨h1, h2, h3, h4⟩ := wrapRest_good dcfg base dm ts y' x
          (fun t' h' => hc t' (by simp [h'])) hw' hn' h
        refine ⟨h1, h2, ?_, ?_⟩
        · intro i0 inner
          have := h3 t (i0 :: inner)
          simp only [List.reverse_cons, List.append_assoc, List.singleton_append]
          rw [this, hshape]
          simp [decG, sameTag_wire]
        · rw [h4]
          cases hts : ts.getLast? with
          | none =>
            have : ts = [] := by simpa using hts
            subst this
            simp [htag]
          | some t' =>
            have : (t :: ts).getLast? = some t' := by
              cases ts with
              | nil => simp at hts
              | cons a r => simpa [List.getLast?_cons_cons] using hts
            simp [this]

/-- what one encoded item is: the serialisation of a well-formed element that starts with one of
    the type's own tags and that the guided decoder reads back as the value -/
def Good (dcfg : DecCfg) (t : Ty) (v : Val) (b : Bytes) : Prop :=
  ∃ x : TLV, b = x.ser ∧ x.WF ∧ NotEoo x.ser ∧ TagIn t x.tag ∧ decTy dcfg t x = .ok v

/-- what `encodeValue` returned: contents the payload decoder of the base type reads back as the
    value, under any header -/
def ContentOk (cfg : EncCfg) (dcfg : DecCfg) (t : Ty) (v : Val) (sub : Bytes) (isCons : Bool) : Prop :=
  (isCons = false → (∃ p, t.base = .prim p) ∧
      ∀ hd tg, decBody dcfg t.base (.prim hd tg sub) = .ok v) ∧
  (isCons = true → supportsIndef cfg t.base = true ∧
      ∃ cs, sub = serList cs ∧ WFs cs ∧ NoEooL cs ∧
        (∀ hd tg indef, decBody dcfg t.base (.cons hd tg indef cs) = .ok v) ∧
        (t.tags = [] → ∃ x, cs = [x] ∧ TagIn t x.tag ∧ decTy dcfg t x = .ok v))

theorem getLast?_cons_of (t0 : Tag) (ts : List Tag) :
    (t0 :: ts).getLast? = some (match ts.getLast? with | some t => t | none => t0) := by
  cases ts with
  | nil => simp
  | cons a r =>
    rw [List.getLast?_cons_cons]
    cases h : (a :: r).getLast? with
    | none => simp at h
    | some t => simp

theorem item_of_content (cfg : EncCfg) (dcfg : DecCfg) (o : EncOpts) (hR : Region cfg dcfg o)
    (t : Ty) (hreg : t.reg false cfg o.defMode = true) (hwf : t.WF = true) (v : Val) (sub : Bytes)
    (isCons : Bool) (b : Bytes) (hc : ContentOk cfg dcfg t v sub isCons)
    (h : finishItem cfg o t (.ok (sub, isCons)) = .ok b) : Good dcfg t v b := by
  have hna := reg_not_any false cfg o.defMode t hreg
  simp only [finishItem, hR.ine, Bool.and_false, Bool.false_eq_true, if_false] at h
  cases htags : t.tags with
  | nil =>
    rw [htags] at h
    simp only [List.isEmpty_nil, if_true, Except.ok.injEq] at h
    subst h
    cases isCons with
    | false =>
      obtain ⟨⟨p, hp⟩, _⟩ := hc.1 rfl
      obtain ⟨t0, ts, ht, _⟩ := tags_head_prim t p hp
      rw [htags] at ht; simp at ht
    | true =>
      obtain ⟨_, cs, hsub, hw, hne, _, hx⟩ := hc.2 rfl
      obtain ⟨x, rfl, htag, hdec⟩ := hx htags
      exact ⟨x, by rw [hsub, serList_single], hw.1, hne.1, htag, hdec⟩
  | cons t0 ts =>
    rw [htags] at h
    simp only [List.isEmpty_cons, Bool.false_eq_true, if_false] at h
    have hts : ∀ tg ∈ ts, tg.constructed = true := by
      intro tg hm
      exact tags_tail_constructed t tg (by rw [htags]; simpa using hm)
    have hok0 : okTag t0 := tags_ok false cfg o.defMode t hreg hwf t0 (by rw [htags]; simp)
    have hdecG := decTy_decG dcfg t
    rw [htags] at hdecG
    simp only [List.reverse_cons] at hdecG
    have hlast := getLast?_cons_of t0 ts
    cases isCons with
    | false =>
      obtain ⟨⟨p, hp⟩, hbody⟩ := hc.1 rfl
      obtain ⟨t0', ts', ht', hc0⟩ := tags_head_prim t p hp
      rw [htags] at ht'
      simp only [List.cons.injEq] at ht'
      obtain ⟨rfl, rfl⟩ := ht'
      rw [wrapTags_prim _ _ _ _ _ hts (reg_hok false cfg o.defMode t hreg t0 ts htags)] at h
      cases hy : primNode t0 sub with
      | error e => rw [hy] at h; simp [wrapAll, Except.map] at h
      | ok y =>
        rw [hy] at h
        simp only [wrapAll] at h
        cases hx : wrapRest o.defMode ts y with
        | error e => rw [hx] at h; simp [Except.map] at h
        | ok x =>
          rw [hx] at h
          simp only [Except.map, Except.ok.injEq] at h
          have hyw : y.WF := primNode_wf t0 sub y hc0 hy
          have hyshape : ∃ hd, y = .prim hd (wireTag t0 false) sub := by
            unfold primNode at hy
            cases hl : encodeLength sub.length with
            | none => rw [hl] at hy; simp at hy
            | some l => rw [hl] at hy; simp only [Except.ok.injEq] at hy; exact ⟨_, hy.symm⟩
          obtain ⟨hd, hyshape⟩ := hyshape
          have hyn : NotEoo y.ser := notEoo_of_tag y hyw (by
            rw [hyshape]
            simp only [TLV.tag, wireTag]
            rcases hok0 with h' | h'
            · exact Or.inl h'
            · exact Or.inr (Or.inl h'))
          obtain ⟨h1, h2, h3, h4⟩ := wrapRest_good dcfg t.base o.defMode ts y x hts hyw hyn hx
          refine ⟨x, h.symm, h1, h2, ?_, ?_⟩
          · refine tagIn_of_last t _ x.tag (by rw [htags]; exact hlast) ?_ ?_
            · rw [h4]; cases ts.getLast? <;> simp [hyshape, wireTag, TLV.tag]
            · rw [h4]; cases ts.getLast? <;> simp [hyshape, wireTag, TLV.tag]
          · rw [hdecG x hna, h3 t0 []]
            simp only [decG, Bool.true_and]
            rw [hyshape]
            simp only [TLV.tag, sameTag_wire, Bool.not_true, Bool.false_eq_true, if_false]
            exact hbody hd _
    | true =>
      obtain ⟨hsi, cs, hsub, hw, hne, hbody, _⟩ := hc.2 rfl
      subst hsub
      rw [wrapTags_cons _ _ _ _ _ hts (Or.inr hsi)] at h
      cases hy : consNode t0 (!o.defMode) cs with
      | error e => rw [hy] at h; simp [wrapAll, Except.map] at h
      | ok y =>
        rw [hy] at h
        simp only [wrapAll] at h
        cases hx : wrapRest o.defMode ts y with
        | error e => rw [hx] at h; simp [Except.map] at h
        | ok x =>
          rw [hx] at h
          simp only [Except.map, Except.ok.injEq] at h
          have hyw : y.WF := consNode_wf t0 _ cs y hw (fun _ => hne) hy
          obtain ⟨hytag, hd, hyshape⟩ := consNode_tag t0 _ cs y hy
          have hyn : NotEoo y.ser := notEoo_of_tag y hyw (by rw [hytag]; right; right; simp [wireTag])
          obtain ⟨h1, h2, h3, h4⟩ := wrapRest_good dcfg t.base o.defMode ts y x hts hyw hyn hx
          refine ⟨x, h.symm, h1, h2, ?_, ?_⟩
          · refine tagIn_of_last t _ x.tag (by rw [htags]; exact hlast) ?_ ?_
            · rw [h4]; cases ts.getLast? <;> simp [hytag, wireTag]
            · rw [h4]; cases ts.getLast? <;> simp [hytag, wireTag]
          · rw [hdecG x hna, h3 t0 []]
            simp only [decG, Bool.true_and]
            rw [hyshape]
            simp only [TLV.tag, sameTag_wire, Bool.not_true, Bool.false_eq_true, if_false]
            exact hbody hd _ _


/-! ### outer tags of CHOICE -/

mutual
theorem reg_outer_some (rl : Bool) (cfg : EncCfg) (dm : Bool) : ∀ (t : Ty), t.reg rl cfg dm = true →
    ∃ l, t.outerTags = some l
  | .choice fs, h => by
      simp only [Ty.reg] at h
      simpa [Ty.outerTags] using regF_outer_some rl cfg dm fs h
  | .any, h => by simp [Ty.reg] at h
  | .prim p, _ => by
      simp only [Ty.outerTags]; cases (Ty.prim p).tags.getLast? <;> simp
  | .seq fs, _ => by
      simp only [Ty.outerTags]; cases (Ty.seq fs).tags.getLast? <;> simp
  | .seqOf t, _ => by
      simp only [Ty.outerTags]; cases (Ty.seqOf t).tags.getLast? <;> simp
  | .set fs, _ => by
      simp only [Ty.outerTags]; cases (Ty.set fs).tags.getLast? <;> simp
  | .setOf t, _ => by
      simp only [Ty.outerTags]; cases (Ty.setOf t).tags.getLast? <;> simp
  | .tagged e c n t, _ => by
      simp only [Ty.outerTags]; cases (Ty.tagged e c n t).tags.getLast? <;> simp
theorem regF_outer_some (rl : Bool) (cfg : EncCfg) (dm : Bool) : ∀ (fs : Fields), Fields.reg rl cfg dm fs = true →
    ∃ l, Ty.outerTags.Fields.outerTags fs = some l
  | .nil, _ => ⟨[], by simp [Ty.outerTags.Fields.outerTags]⟩
  | .cons k t r, h => by
      simp only [Fields.reg, Bool.and_eq_true] at h
      obtain ⟨a, ha⟩ := reg_outer_some rl cfg dm t h.1
      obtain ⟨b, hb⟩ := regF_outer_some rl cfg dm r h.2
      exact ⟨a ++ b, by simp [Ty.outerTags.Fields.outerTags, ha, hb]⟩
end

theorem tagIn_alt (rl : Bool) (cfg : EncCfg) (dm : Bool) (tg : Tag) : ∀ (fs : Fields) (i : Nat) (kd : FKind) (t : Ty),
    Fields.reg rl cfg dm fs = true → fs.get? i = some (kd, t) → TagIn t tg →
    ∃ l, Ty.outerTags.Fields.outerTags fs = some l ∧ l.any (·.same tg) = true
  | .nil, _, _, _, _, hg, _ => by simp [Fields.get?] at hg
  | .cons k' t' r, 0, kd, t, hr, hg, ht => by
      simp only [Fields.get?, Option.some.injEq, Prod.mk.injEq] at hg
      obtain ⟨_, rfl⟩ := hg
      simp only [Fields.reg, Bool.and_eq_true] at hr
      obtain ⟨a, ha, hany⟩ := ht
      obtain ⟨b, hb⟩ := regF_outer_some rl cfg dm r hr.2
      exact ⟨a ++ b, by simp [Ty.outerTags.Fields.outerTags, ha, hb], by simp [List.any_append, hany]⟩
  | .cons k' t' r, i + 1, kd, t, hr, hg, ht => by
      simp only [Fields.get?] at hg
      simp only [Fields.reg, Bool.and_eq_true] at hr
      obtain ⟨a, ha⟩ := reg_outer_some rl cfg dm t' hr.1
      obtain ⟨b, hb, hany⟩ := tagIn_alt rl cfg dm tg r i kd t hr.2 hg ht
      exact ⟨a ++ b, by simp [Ty.outerTags.Fields.outerTags, ha, hb], by simp [List.any_append, hany]⟩

/-! ### contents -/

theorem contentOk_tagged {cfg : EncCfg} {dcfg : DecCfg} {t : Ty} {v : Val} {sub : Bytes} {ic : Bool}
    (e : Bool) (c : TagClass) (n : Nat) (h : ContentOk cfg dcfg t v sub ic) :
    ContentOk cfg dcfg (.tagged e c n t) v sub ic := by
  refine ⟨fun hic => ?_, fun hic => ?_⟩
  · exact h.1 hic
  · obtain ⟨h1, cs, h2, h3, h4, h5, _⟩ := h.2 hic
    refine ⟨h1, cs, h2, h3, h4, h5, ?_⟩
    intro ht
    exfalso
    cases e with
    | true => simp [Ty.tags] at ht
    | false =>
      simp only [Ty.tags] at ht
      rcases List.eq_nil_or_concat t.tags with hn | ⟨init, last, hl⟩
      · rw [hn, tagImplicitly_nil] at ht; simp at ht
      · rw [hl, List.concat_eq_append, tagImplicitly_concat] at ht; simp at ht

theorem contentOk_prim {cfg : EncCfg} {dcfg : DecCfg} {p : PrimTy} {v : Val} {sub : Bytes}
    (h : ∀ hd tg, decPrim dcfg p (.prim hd tg sub) = .ok v) :
    ContentOk cfg dcfg (.prim p) v sub false := by
  refine ⟨fun _ => ⟨⟨p, rfl⟩, ?_⟩, fun hic => by simp at hic⟩
  intro hd tg
  simp only [Ty.base, decBody]
  exact h hd tg

theorem serList_cons (x : TLV) (cs : List TLV) : serList (x :: cs) = x.ser ++ serList cs := by
  simp [serList]

/-- the elements of a SEQUENCE OF / SET OF -/
theorem elems_good (dcfg : DecCfg) (t : Ty) (f : Val → Except Err Bytes) :
    ∀ (vs : List Val) (bs : List Bytes),
      (∀ v b, v ∈ vs → f v = .ok b → Good dcfg t v b) → allOk (vs.map f) = .ok bs →
      ∃ cs, bs.flatten = serList cs ∧ WFs cs ∧ NoEooL cs ∧ decElems dcfg t cs = .ok vs
  | [], bs, _, h => by
      simp only [List.map_nil, allOk, Except.ok.injEq] at h
      subst h
      exact ⟨[], by simp [serList], trivial, trivial, by simp [decElems]⟩
  | v :: vs, bs, hg, h => by
      simp only [List.map_cons] at h
      cases hv : f v with
      | error e => rw [hv] at h; simp [allOk] at h
      | ok b =>
        rw [hv] at h
        simp only [allOk] at h
        cases hr : allOk (vs.map f) with
        | error e => rw [hr] at h; simp [Except.map] at h
        | ok bs' =>
          rw [hr] at h
          simp only [Except.map, Except.ok.injEq] at h
          subst h
          obtain ⟨x, hb, hw, hn, _, hdec⟩ := hg v b (by simp) hv
          obtain ⟨cs, h1, h2, h3, h4⟩ := elems_good dcfg t f vs bs'
            (fun v' b' hm hf => hg v' b' (by simp [hm]) hf) hr
          exact ⟨x :: cs, by simp [serList_cons, hb, h1], ⟨hw, h2⟩, ⟨hn, h3⟩,
            by simp [decElems, hdec, h4, Except.map]⟩

theorem opts_eq (o : EncOpts) (h : o.ifNotEmpty = false) : { o with ifNotEmpty := false } = o := by
  cases o; simp_all

theorem finish_ok {cfg : EncCfg} {o : EncOpts} {t : Ty} {r : Except Err (Bytes × Bool)} {b : Bytes}
    (h : finishItem cfg o t r = .ok b) : ∃ sub ic, r = .ok (sub, ic) := by
  cases r with
  | error e => simp [finishItem] at h
  | ok p => exact ⟨p.1, p.2, rfl⟩


/-! ### string fragments (`maxChunkSize`) -/

theorem finish_frag (cfg : EncCfg) (o : EncOpts) (p : PrimTy) (f : Bytes) :
    finishItem cfg o (.prim p) (.ok (f, false))
      = (primNode ⟨.universal, false, p.univNum⟩ f).map TLV.ser := by
  simp only [finishItem, Ty.tags, List.isEmpty_cons, Bool.false_eq_true, if_false, Bool.and_false,
    Bool.false_and, Ty.base]
  rw [wrapTags_prim _ _ _ [] f (by simp) (Or.inl rfl)]
  cases h : primNode ⟨.universal, false, p.univNum⟩ f <;> simp [wrapAll, wrapRest, Except.map]

theorem primNode_shape (t : Tag) (c : Bytes) (n : TLV) (h : primNode t c = .ok n) :
    ∃ hd, n = .prim hd (wireTag t false) c := by
  unfold primNode at h
  cases hl : encodeLength c.length with
  | none => rw [hl] at h; simp at h
  | some l => rw [hl] at h; simp only [Except.ok.injEq] at h; exact ⟨_, h.symm⟩

/-- fragments written by the encoder: primitive elements with the universal tag `p.univNum` -/
theorem frags_nodes (cfg : EncCfg) (o : EncOpts) (p : PrimTy) (hp : p.univNum ≠ 0) :
    ∀ (frags outs : List Bytes),
      allOk (frags.map fun f => finishItem cfg o (.prim p) (.ok (f, false))) = .ok outs →
      ∃ cs : List TLV, outs.flatten = serList cs ∧ WFs cs ∧ NoEooL cs ∧ cs.length = frags.length ∧
        (∀ i (hi : i < cs.length) (hj : i < frags.length),
            ∃ hd, cs[i] = .prim hd ⟨.universal, false, p.univNum⟩ frags[i])
  | [], outs, h => by
      simp only [List.map_nil, allOk, Except.ok.injEq] at h
      subst h
      exact ⟨[], by simp [serList], trivial, trivial, rfl, by intro i hi; simp at hi⟩
  | f :: frags, outs, h => by
      simp only [List.map_cons, finish_frag] at h
      cases hn : primNode ⟨.universal, false, p.univNum⟩ f with
      | error e => rw [hn] at h; simp [allOk, Except.map] at h
      | ok n =>
        rw [hn] at h
        simp only [Except.map, allOk] at h
        cases hr : allOk (frags.map fun f => (primNode ⟨.universal, false, p.univNum⟩ f).map TLV.ser) with
        | error e => simp only [Except.map] at hr; rw [hr] at h; simp [Except.map] at h
        | ok outs' =>
          simp only [Except.map] at hr
          rw [hr] at h
          simp only [Except.map, Except.ok.injEq] at h
          subst h
          have hr' : allOk (frags.map fun f => finishItem cfg o (.prim p) (.ok (f, false))) = .ok outs' := by
            simp only [finish_frag, Except.map]; exact hr
          obtain ⟨cs, h1, h2, h3, h4, h5⟩ := frags_nodes cfg o p hp frags outs' hr'
          obtain ⟨hd, hshape⟩ := primNode_shape _ f n hn
          have hnw : n.WF := primNode_wf _ f n rfl hn
          have hnn : NotEoo n.ser := notEoo_of_tag n hnw (by
            rw [hshape]; right; left; simpa [TLV.tag, wireTag] using hp)
          refine ⟨n :: cs, by simp [serList_cons, h1], ⟨hnw, h2⟩, ⟨hnn, h3⟩, by simp [h4], ?_⟩
          intro i hi hj
          cases i with
          | zero => exact ⟨hd, by simpa [wireTag] using hshape⟩
          | succ i =>
            simp only [List.getElem_cons_succ]
            exact h5 i (by simpa using hi) (by simpa using hj)

theorem decSegments_prims (num : Nat) : ∀ (cs : List TLV) (frags : List Bytes), cs.length = frags.length →
    (∀ i (hi : i < cs.length) (hj : i < frags.length),
        ∃ hd, cs[i] = .prim hd ⟨.universal, false, num⟩ frags[i]) →
    decSegments num cs = .ok frags
  | [], [], _, _ => by simp [decSegments]
  | [], _ :: _, hl, _ => by simp at hl
  | _ :: _, [], hl, _ => by simp at hl
  | c :: cs, f :: frags, hl, h => by
      obtain ⟨hd, hc⟩ := h 0 (by simp) (by simp)
      simp only [List.getElem_cons_zero] at hc
      have ih := decSegments_prims num cs frags (by simpa using hl) (fun i hi hj => by
        have := h (i + 1) (by simpa using hi) (by simpa using hj)
        simpa using this)
      simp [decSegments, hc, decSegment, ih, Except.map]

theorem decBitSegments_prims : ∀ (cs : List TLV) (frags : List Bytes), cs.length = frags.length →
    (∀ i (hi : i < cs.length) (hj : i < frags.length),
        ∃ hd, cs[i] = .prim hd ⟨.universal, false, 3⟩ frags[i]) →
    decBitSegments cs = .ok frags
  | [], [], _, _ => by simp [decBitSegments]
  | [], _ :: _, hl, _ => by simp at hl
  | _ :: _, [], hl, _ => by simp at hl
  | c :: cs, f :: frags, hl, h => by
      obtain ⟨hd, hc⟩ := h 0 (by simp) (by simp)
      simp only [List.getElem_cons_zero] at hc
      have ih := decBitSegments_prims cs frags (by simpa using hl) (fun i hi hj => by
        have := h (i + 1) (by simpa using hi) (by simpa using hj)
        simpa using this)
      simp [decBitSegments, hc, ih, Except.map]

theorem concatBitFrags_map : ∀ (frags : List (List Bool)),
    concatBitFrags (frags.map bitsToContent) = .ok frags.flatten
  | [] => by simp [concatBitFrags]
  | f :: frags => by
      simp [concatBitFrags, bitsFromContent_bitsToContent, concatBitFrags_map frags, Except.map]

theorem chunkBits_ne_nil (n fuel : Nat) (bs : List Bool) (hb : bs ≠ []) (hf : 0 < fuel) :
    chunkBits n fuel bs ≠ [] := by
  cases fuel with
  | zero => omega
  | succ f =>
    cases bs with
    | nil => exact absurd rfl hb
    | cons b r => simp [chunkBits]

variable (cfg : EncCfg) (dcfg : DecCfg) (o : EncOpts) (hR : Region cfg dcfg o)
include hR

mutual
theorem rt_content : ∀ (t : Ty) (v : Val) (sub : Bytes) (ic : Bool),
    t.reg false cfg o.defMode = true → t.WF = true → HasType t v = true →
    encValue cfg o t v = .ok (sub, ic) → ContentOk cfg dcfg t v sub ic
  | .tagged e c n t, v, sub, ic, hr, hw, ht, h => by
      have hr' : t.reg false cfg o.defMode = true := by
        simp only [Ty.reg, Bool.and_eq_true] at hr; exact hr.2
      have hw' : t.WF = true := by
        cases e <;> simp_all [Ty.WF]
      exact contentOk_tagged e c n
        (rt_content t v sub ic hr' hw' (by simpa [HasType] using ht) (by simpa [encValue] using h))
  | .prim p, v, sub, ic, hr, _, ht, h => by
      cases p with
      | boolean =>
        cases v <;> simp [HasType] at ht
        case bool b =>
          simp only [encValue, Except.ok.injEq, Prod.mk.injEq] at h
          obtain ⟨rfl, rfl⟩ := h
          exact contentOk_prim (fun hd tg => hR.bool b hd tg)
      | integer =>
        cases v <;> simp [HasType] at ht
        case int z =>
          simp only [encValue, Except.ok.injEq, Prod.mk.injEq] at h
          obtain ⟨rfl, rfl⟩ := h
          exact contentOk_prim (fun hd tg => by simp [decPrim, intFromBytes_intToBytes])
      | enumerated =>
        cases v <;> simp [HasType] at ht
        case int z =>
          simp only [encValue, Except.ok.injEq, Prod.mk.injEq] at h
          obtain ⟨rfl, rfl⟩ := h
          exact contentOk_prim (fun hd tg => by simp [decPrim, intFromBytes_intToBytes])
      | null =>
        cases v <;> simp [HasType] at ht
        case null =>
          simp only [encValue, Except.ok.injEq, Prod.mk.injEq] at h
          obtain ⟨rfl, rfl⟩ := h
          exact contentOk_prim (fun hd tg => by simp [decPrim])
      | oid =>
        cases v <;> simp [HasType] at ht
        case oid arcs =>
          simp only [encValue] at h
          cases hc : oidToContent arcs with
          | none => rw [hc] at h; simp at h
          | some c =>
            rw [hc] at h
            simp only [Except.ok.injEq, Prod.mk.injEq] at h
            obtain ⟨rfl, rfl⟩ := h
            exact contentOk_prim (fun hd tg => by
              simp [decPrim, oidFromContent_oidToContent arcs c hc, Except.map])
      | real => simp [Ty.reg] at hr
      | bitString =>
        cases v <;> simp [HasType] at ht
        case bits bs =>
          simp only [encValue] at h
          by_cases hcond : (o.maxChunk = 0 || (bs.length + 7) / 8 * 8 ≤ o.maxChunk * 8) = true
          · simp only [hcond, if_true, Except.ok.injEq, Prod.mk.injEq] at h
            obtain ⟨rfl, rfl⟩ := h
            exact contentOk_prim (fun hd tg => by
              simp [decPrim, bitsFromContent_bitsToContent, Except.map])
          · simp only [hcond, Bool.false_eq_true, if_false] at h
            simp only [Bool.or_eq_true, decide_eq_true_eq, not_or, Nat.not_le] at hcond
            obtain ⟨hm0, hlong⟩ := hcond
            have hcb : dcfg.consBits = true := by
              rcases hR.chunk with h0 | h0
              · exact absurd h0 hm0
              · exact h0.1
            cases hb : allOk ((chunkBits (o.maxChunk * 8) bs.length bs).map fun f =>
                finishItem cfg o (.prim .bitString) (.ok (bitsToContent f, false))) with
            | error e => rw [hb] at h; simp [Except.map] at h
            | ok outs =>
              rw [hb] at h
              simp only [Except.map, Except.ok.injEq, Prod.mk.injEq] at h
              obtain ⟨rfl, rfl⟩ := h
              have hb' : allOk (((chunkBits (o.maxChunk * 8) bs.length bs).map bitsToContent).map fun f =>
                  finishItem cfg o (.prim .bitString) (.ok (f, false))) = .ok outs := by
                rw [List.map_map]; exact hb
              obtain ⟨cs, h1, h2, h3, h4, h5⟩ := frags_nodes cfg o .bitString (by decide) _ outs hb'
              have hseg := decBitSegments_prims cs _ h4 h5
              have hbne : bs ≠ [] := by
                intro he; subst he; simp at hlong
              have hcsne : cs ≠ [] := by
                intro he
                rw [he] at h4
                simp only [List.length_nil, List.length_map] at h4
                exact chunkBits_ne_nil (o.maxChunk * 8) bs.length bs hbne
                  (by cases bs with | nil => exact absurd rfl hbne | cons _ _ => simp)
                  (List.eq_nil_of_length_eq_zero h4.symm)
              refine ⟨fun hic => by simp at hic, fun _ => ⟨rfl, cs, h1, h2, h3, ?_, ?_⟩⟩
              · intro hd tg indef
                have hemp : cs.isEmpty = false := by
                  cases cs with
                  | nil => exact absurd rfl hcsne
                  | cons _ _ => rfl
                simp only [Ty.base, decBody, decPrim, hemp, Bool.and_false, Bool.false_eq_true, if_false,
                  hcb, if_true, hseg, concatBitFrags_map]
                simp [Except.map, chunkBits_flatten (o.maxChunk * 8) (by omega) bs.length bs (Nat.le_refl _)]
              · intro hh; simp [Ty.tags] at hh
      | str k =>
        cases v <;> simp [HasType] at ht
        case str bs =>
          simp only [encValue] at h
          by_cases hcond : (o.maxChunk = 0 || bs.length ≤ o.maxChunk) = true
          · simp only [hcond, if_true, Except.ok.injEq, Prod.mk.injEq] at h
            obtain ⟨rfl, rfl⟩ := h
            exact contentOk_prim (fun hd tg => by simp [decPrim])
          · simp only [hcond, Bool.false_eq_true, if_false] at h
            simp only [Bool.or_eq_true, decide_eq_true_eq, not_or, Nat.not_le] at hcond
            obtain ⟨hm0, hlong⟩ := hcond
            have hck : dcfg.consStr.contains k = true := by
              rcases hR.chunk with h0 | h0
              · exact absurd h0 hm0
              · have hk : allStrKinds.contains k = true := by simpa [Ty.reg] using hr
                have := List.all_eq_true.mp h0.2 k (by simpa using hk)
                exact this
            cases hb : allOk ((chunkBytes o.maxChunk bs.length bs).map fun f =>
                finishItem cfg o (.prim (.str 4)) (.ok (f, false))) with
            | error e => rw [hb] at h; simp [Except.map] at h
            | ok outs =>
              rw [hb] at h
              simp only [Except.map, Except.ok.injEq, Prod.mk.injEq] at h
              obtain ⟨rfl, rfl⟩ := h
              obtain ⟨cs, h1, h2, h3, h4, h5⟩ := frags_nodes cfg o (.str 4) (by decide) _ outs hb
              have hseg := decSegments_prims 4 cs _ h4 h5
              refine ⟨fun hic => by simp at hic, fun _ => ⟨rfl, cs, h1, h2, h3, ?_, ?_⟩⟩
              · intro hd tg indef
                simp only [Ty.base, decBody, decPrim, hck, if_true, hseg]
                simp [Except.map, chunkBytes_flatten o.maxChunk (by omega) bs.length bs (Nat.le_refl _)]
              · intro hh; simp [Ty.tags] at hh
  | .any, _, _, _, hr, _, _, _ => by simp [Ty.reg] at hr
  | .seq fs, v, sub, ic, hr, hw, ht, h => by
      cases v <;> simp [HasType] at ht
      case seq vs =>
        simp only [encValue] at h
        cases hb : encFields cfg o fs vs with
        | error e => rw [hb] at h; simp [Except.map] at h
        | ok b =>
          rw [hb] at h
          simp only [Except.map, Except.ok.injEq, Prod.mk.injEq] at h
          obtain ⟨rfl, rfl⟩ := h
          simp only [Ty.reg] at hr
          simp only [Ty.WF, Bool.and_eq_true] at hw
          obtain ⟨cs, h1, h2, h3, h4⟩ := rt_fields fs vs b 0 hr hw.1 ht hb
          obtain ⟨hdec, _⟩ := seq_dispatch dcfg fs vs cs 0 h4 ht hw.2
          refine ⟨fun hic => by simp at hic, fun _ => ⟨rfl, cs, h1, h2, h3, ?_, ?_⟩⟩
          · intro hd tg indef
            simp [Ty.base, decBody, hdec, Except.map]
          · intro hh; simp [Ty.tags] at hh
  | .set fs, v, sub, ic, hr, hw, ht, h => by
      cases v <;> simp [HasType] at ht
      case seq vs =>
        simp only [encValue, hR.setOrd] at h
        cases hb : encFields cfg o fs vs with
        | error e => rw [hb] at h; simp [Except.map] at h
        | ok b =>
          rw [hb] at h
          simp only [Except.map, Except.ok.injEq, Prod.mk.injEq] at h
          obtain ⟨rfl, rfl⟩ := h
          simp only [Ty.reg] at hr
          simp only [Ty.WF, Bool.and_eq_true] at hw
          obtain ⟨cs, h1, h2, h3, h4⟩ := rt_fields fs vs b 0 hr hw.1 ht hb
          obtain ⟨hdec, hap⟩ := set_dispatch dcfg fs vs cs h4 ht hw.2
          refine ⟨fun hic => by simp at hic, fun _ => ⟨rfl, cs, h1, h2, h3, ?_, ?_⟩⟩
          · intro hd tg indef
            simp [Ty.base, decBody, hdec, hap]
          · intro hh; simp [Ty.tags] at hh
  | .seqOf t, v, sub, ic, hr, hw, ht, h => by
      cases v <;> simp [HasType] at ht
      case seqOf vs =>
        simp only [encValue, hR.ine, Bool.and_false, Bool.false_and, Bool.false_eq_true, if_false,
          opts_eq o hR.ine] at h
        cases hb : allOk (vs.map fun v => finishItem cfg o t (encValue cfg o t v)) with
        | error e => rw [hb] at h; simp [Except.map] at h
        | ok bs =>
          rw [hb] at h
          simp only [Except.map, Except.ok.injEq, Prod.mk.injEq] at h
          obtain ⟨rfl, rfl⟩ := h
          simp only [Ty.reg] at hr
          simp only [Ty.WF] at hw
          obtain ⟨cs, h1, h2, h3, h4⟩ := elems_good dcfg t _ vs bs (fun v b hm hf => by
            obtain ⟨sub, ic, he⟩ := finish_ok hf
            rw [he] at hf
            exact item_of_content cfg dcfg o hR t hr hw v sub ic b
              (rt_content t v sub ic hr hw (ht v hm) he) hf) hb
          refine ⟨fun hic => by simp at hic, fun _ => ⟨rfl, cs, h1, h2, h3, ?_, ?_⟩⟩
          · intro hd tg indef
            simp [Ty.base, decBody, h4, Except.map]
          · intro hh; simp [Ty.tags] at hh
  | .setOf t, v, sub, ic, hr, hw, ht, h => by
      cases v <;> simp [HasType] at ht
      case seqOf vs =>
        simp only [encValue, hR.sortOf, Bool.false_eq_true, if_false, opts_eq o hR.ine] at h
        cases hb : allOk (vs.map fun v => finishItem cfg o t (encValue cfg o t v)) with
        | error e => rw [hb] at h; simp [Except.map] at h
        | ok bs =>
          rw [hb] at h
          simp only [Except.map, Except.ok.injEq, Prod.mk.injEq] at h
          obtain ⟨rfl, rfl⟩ := h
          simp only [Ty.reg] at hr
          simp only [Ty.WF] at hw
          obtain ⟨cs, h1, h2, h3, h4⟩ := elems_good dcfg t _ vs bs (fun v b hm hf => by
            obtain ⟨sub, ic, he⟩ := finish_ok hf
            rw [he] at hf
            exact item_of_content cfg dcfg o hR t hr hw v sub ic b
              (rt_content t v sub ic hr hw (ht v hm) he) hf) hb
          refine ⟨fun hic => by simp at hic, fun _ => ⟨rfl, cs, h1, h2, h3, ?_, ?_⟩⟩
          · intro hd tg indef
            simp [Ty.base, decBody, h4, Except.map]
          · intro hh; simp [Ty.tags] at hh
  | .choice fs, v, sub, ic, hr, hw, ht, h => by
      cases v <;> simp [HasType] at ht
      case choice i w =>
        simp only [encValue] at h
        cases hb : encAlt cfg o fs i w with
        | error e => rw [hb] at h; simp [Except.map] at h
        | ok b =>
          rw [hb] at h
          simp only [Except.map, Except.ok.injEq, Prod.mk.injEq] at h
          obtain ⟨rfl, rfl⟩ := h
          simp only [Ty.reg] at hr
          simp only [Ty.WF, Bool.and_eq_true] at hw
          obtain ⟨kd, t, hg, x, hbx, hxw, hxn, hxt, hxd⟩ := rt_alt fs i w b hr hw.1.1 ht hb
          have hdisp := alt_dispatch dcfg x fs i 0 kd t hw.1.2 hg hxt
          rw [hxd] at hdisp
          simp only [Except.map, Nat.zero_add] at hdisp
          refine ⟨fun hic => by simp at hic, fun _ => ⟨rfl, [x], by simp [serList_single, hbx],
            ⟨hxw, trivial⟩, ⟨hxn, trivial⟩, ?_, ?_⟩⟩
          · intro hd tg indef
            simp [Ty.base, decBody, hdisp]
          · intro _
            refine ⟨x, rfl, ?_, by simp [decTy, hdisp]⟩
            obtain ⟨l, hl, hany⟩ := tagIn_alt false cfg o.defMode x.tag fs i kd t hr hg hxt
            exact ⟨l, by simp [Ty.outerTags, hl], hany⟩
theorem rt_fields : ∀ (fs : Fields) (vs : List Val) (b : Bytes) (k : Nat),
    Fields.reg false cfg o.defMode fs = true → Fields.WF fs = true → HasFields fs vs = true →
    encFields cfg o fs vs = .ok b →
    ∃ cs, b = serList cs ∧ WFs cs ∧ NoEooL cs ∧ Members (ElemOk dcfg) k fs vs cs
  | .nil, [], b, k, _, _, _, h => by
      simp only [encFields, Except.ok.injEq] at h
      subst h
      exact ⟨[], by simp [serList], trivial, trivial, by simp [Members]⟩
  | .nil, _ :: _, _, _, _, _, hf, _ => by simp [HasFields] at hf
  | .cons _ _ _, [], _, _, _, _, hf, _ => by simp [HasFields] at hf
  | .cons kd t rest, v :: vs, b, k, hr, hw, hf, h => by
      simp only [Fields.reg, Bool.and_eq_true] at hr
      have hw' : t.WF = true ∧ Fields.WF rest = true := by
        cases kd <;> simp_all [Fields.WF]
      simp only [encFields, hR.seqOmit, Bool.false_eq_true, if_false] at h
      by_cases hs : skipField kd v = true
      · simp only [hs, if_true] at h
        obtain ⟨hfr, _⟩ := hasFields_skipped hf hs
        obtain ⟨cs, h1, h2, h3, h4⟩ := rt_fields rest vs b (k + 1) hr.2 hw'.2 hfr h
        exact ⟨cs, h1, h2, h3, by simp [Members, hs, h4]⟩
      · have hs' : skipField kd v = false := by simpa using hs
        simp only [hs', Bool.false_eq_true, if_false] at h
        obtain ⟨hty, hfr⟩ := hasFields_present hf hs'
        cases hb1 : finishItem cfg o t (encValue cfg o t v) with
        | error e => rw [hb1] at h; simp at h
        | ok b1 =>
          rw [hb1] at h
          simp only at h
          cases hb2 : encFields cfg o rest vs with
          | error e => rw [hb2] at h; simp [Except.map] at h
          | ok b2 =>
            rw [hb2] at h
            simp only [Except.map, Except.ok.injEq] at h
            subst h
            obtain ⟨sub, ic, he⟩ := finish_ok hb1
            rw [he] at hb1
            obtain ⟨x, hbx, hxw, hxn, hxt, hxd⟩ := item_of_content cfg dcfg o hR t hr.1 hw'.1 v sub ic b1
              (rt_content t v sub ic hr.1 hw'.1 hty he) hb1
            obtain ⟨cs, h1, h2, h3, h4⟩ := rt_fields rest vs b2 (k + 1) hr.2 hw'.2 hfr hb2
            refine ⟨x :: cs, by simp [serList_cons, hbx, h1], ⟨hxw, h2⟩, ⟨hxn, h3⟩, ?_⟩
            simp only [Members, hs', Bool.false_eq_true, if_false]
            exact ⟨x, cs, rfl, ⟨hxt, hxd⟩, h4⟩
theorem rt_alt : ∀ (fs : Fields) (i : Nat) (v : Val) (b : Bytes),
    Fields.reg false cfg o.defMode fs = true → Fields.WF fs = true → HasAlt fs i v = true →
    encAlt cfg o fs i v = .ok b →
    ∃ kd t, fs.get? i = some (kd, t) ∧ Good dcfg t v b
  | .nil, _, _, _, _, _, ha, _ => by simp [HasAlt] at ha
  | .cons kd t rest, 0, v, b, hr, hw, ha, h => by
      simp only [Fields.reg, Bool.and_eq_true] at hr
      have hw' : t.WF = true := by
        cases kd <;> simp_all [Fields.WF]
      simp only [encAlt] at h
      simp only [HasAlt] at ha
      obtain ⟨sub, ic, he⟩ := finish_ok h
      rw [he] at h
      exact ⟨kd, t, by simp [Fields.get?], item_of_content cfg dcfg o hR t hr.1 hw' v sub ic b
        (rt_content t v sub ic hr.1 hw' ha he) h⟩
  | .cons kd t rest, i + 1, v, b, hr, hw, ha, h => by
      simp only [Fields.reg, Bool.and_eq_true] at hr
      have hw' : Fields.WF rest = true := by
        cases kd <;> simp_all [Fields.WF]
      simp only [encAlt] at h
      simp only [HasAlt] at ha
      obtain ⟨kd', t', hg, hgood⟩ := rt_alt rest i v b hr.2 hw' ha h
      exact ⟨kd', t', by simpa [Fields.get?] using hg, hgood⟩
end


/-- one encoded item, followed by anything, decodes to the value and leaves the tail -/
theorem roundtrip_item (hp : dcfg.parse.allowIndef = true) (t : Ty) (v : Val) (b tail : Bytes)
    (hreg : t.reg false cfg o.defMode = true) (hwf : t.WF = true) (hty : HasType t v = true)
    (h : finishItem cfg o t (encValue cfg o t v) = .ok b) :
    decodeOne dcfg t (b ++ tail) = .ok (v, tail) := by
  obtain ⟨sub, ic, he⟩ := finish_ok h
  rw [he] at h
  obtain ⟨x, hb, hxw, _, _, hxd⟩ := item_of_content cfg dcfg o hR t hreg hwf v sub ic b
    (rt_content cfg dcfg o hR t v sub ic hreg hwf hty he) h
  subst hb
  simp only [decodeOne, parseOne_ser dcfg.parse x tail hxw (Or.inl hp), hxd, Except.map]


/-- what `encode` returns is the serialisation of one well-formed element the type accepts -/
theorem encode_good (t : Ty) (v : Val) (b : Bytes)
    (hreg : t.reg false cfg o.defMode = true) (hwf : t.WF = true) (hty : HasType t v = true)
    (h : finishItem cfg o t (encValue cfg o t v) = .ok b) : Good dcfg t v b := by
  obtain ⟨sub, ic, he⟩ := finish_ok h
  rw [he] at h
  exact item_of_content cfg dcfg o hR t hreg hwf v sub ic b
    (rt_content cfg dcfg o hR t v sub ic hreg hwf hty he) h

end Asn1
