/-
  Proofs.TagReject — what the decoder's tag matching demands of an element, read off the
  tag-list normal form `decG`:
    * whatever a type accepts carries the type's tags (class and number), outermost first, on
      its spine of single-child wrappers;
    * the same element is rejected by every type of the same tagging depth whose tags differ in
      class or number at any level.
-/
import Proofs.DecTags
import Proofs.Parse

namespace Asn1

/-- the element carries the tags `os` (outermost first): every tag but the last sits on a
    constructed wrapper holding exactly one element, the last one on the element that holds the
    contents, whose constructed bit says whether these are primitive -/
def Carries : List Tag → TLV → Prop
  | [], _ => True
  | [o], x => sameTag x.tag o = true ∧ (x.tag.constructed = true ↔ ∃ h t i cs, x = .cons h t i cs)
  | o :: o' :: rest, .cons _ tg _ [c] =>
      sameTag tg o = true ∧ tg.constructed = true ∧ Carries (o' :: rest) c
  | _ :: _ :: _, _ => False

theorem wf_constructed_iff (x : TLV) (hw : x.WF) :
    x.tag.constructed = true ↔ ∃ h t i cs, x = .cons h t i cs := by
  cases x with
  | prim h t c =>
    simp only [TLV.tag]
    constructor
    · intro hc; rw [hw.2] at hc; exact absurd hc (by simp)
    · intro ⟨_, _, _, _, he⟩; cases he
  | cons h t i cs =>
    simp only [TLV.tag]
    constructor
    · intro _; exact ⟨h, t, i, cs, rfl⟩
    · intro _; cases i
      · exact hw.2.1
      · exact hw.2.1

theorem decG_carries (cfg : DecCfg) (base : Ty) (v : Val) : ∀ (os : List Tag) (x : TLV), x.WF →
    decG cfg base true os x = .ok v → Carries os x
  | [], _, _, _ => trivial
  | [o], x, hw, h => by
      simp only [decG, Bool.true_and] at h
      by_cases hs : sameTag x.tag o = true
      · exact ⟨hs, wf_constructed_iff x hw⟩
      · simp [hs] at h
  | o :: o' :: rest, x, hw, h => by
      cases x with
      | prim hd tg c => simp [decG] at h
      | cons hd tg i cs =>
        match cs, h, hw with
        | [], h, _ => simp [decG] at h
        | _ :: _ :: _, h, _ => simp [decG] at h
        | [child], h, hw =>
          simp only [decG, Bool.true_and] at h
          by_cases hs : sameTag tg o = true
          · simp only [hs, Bool.not_true, Bool.false_eq_true, if_false] at h
            have hcw : child.WF ∧ tg.constructed = true := by
              cases i with
              | true => exact ⟨hw.2.2.1.1, hw.2.1⟩
              | false => exact ⟨hw.2.2.1, hw.2.1⟩
            exact ⟨hs, hcw.2, decG_carries cfg base v (o' :: rest) child hcw.1 h⟩
          · simp [hs] at h

/-- two tag lists of the same length differ in class or number somewhere -/
def tagsDiffer : List Tag → List Tag → Bool
  | a :: as, b :: bs => !a.same b || tagsDiffer as bs
  | _, _ => false

theorem sameTag_trans_ne (a o o' : Tag) (h1 : sameTag a o = true) (h2 : o.same o' = false) :
    sameTag a o' = false := by
  simp only [sameTag, decide_eq_true_eq] at h1
  simp only [Tag.same, Bool.and_eq_false_iff, beq_eq_false_iff_ne] at h2
  simp only [sameTag, decide_eq_false_iff_not, not_and]
  intro hc
  rcases h2 with h2 | h2
  · exact absurd (h1.1.symm.trans hc) h2
  · intro hn; exact h2 (h1.2.symm.trans hn)

theorem decG_reject (cfg : DecCfg) (base base' : Ty) (v : Val) : ∀ (os os' : List Tag) (x : TLV),
    os.length = os'.length → tagsDiffer os os' = true →
    decG cfg base true os x = .ok v → decG cfg base' true os' x = .error .malformed
  | [], _, _, _, hd, _ => by simp [tagsDiffer] at hd
  | _ :: _, [], _, hl, _, _ => by simp at hl
  | [o], [o'], x, _, hd, h => by
      simp only [tagsDiffer, Bool.or_false, Bool.not_eq_true'] at hd
      simp only [decG, Bool.true_and] at h ⊢
      by_cases hs : sameTag x.tag o = true
      · simp [sameTag_trans_ne x.tag o o' hs hd]
      · simp [hs] at h
  | [o], _ :: _ :: _, _, hl, _, _ => by simp at hl
  | _ :: _ :: _, [_], _, hl, _, _ => by simp at hl
  | o :: o2 :: rest, o' :: o2' :: rest', x, hl, hd, h => by
      cases x with
      | prim hd tg c => simp [decG]
      | cons hdr tg i cs =>
        match cs, h with
        | [], _ => simp [decG]
        | _ :: _ :: _, _ => simp [decG]
        | [child], h =>
          simp only [decG, Bool.true_and] at h ⊢
          by_cases hs : sameTag tg o = true
          · simp only [hs, Bool.not_true, Bool.false_eq_true, if_false] at h
            by_cases hoo : o.same o' = true
            · simp only [tagsDiffer, hoo, Bool.not_true, Bool.false_or] at hd
              have ih := decG_reject cfg base base' v (o2 :: rest) (o2' :: rest') child
                (by simpa using hl) hd h
              rw [ih]
              by_cases hs' : sameTag tg o' = true <;> simp [hs']
            · have hoo' : o.same o' = false := by simpa using hoo
              simp [sameTag_trans_ne tg o o' hs hoo']
          · simp [hs] at h

/-- **near-miss types reject**: if `t` accepts an element then a type of the same tagging depth
    whose tags differ in class or number at some level rejects it -/
theorem decTy_reject (cfg : DecCfg) (t t' : Ty) (x : TLV) (v : Val)
    (ha : isAnyBase t = false) (ha' : isAnyBase t' = false)
    (hl : t.tags.length = t'.tags.length) (hd : tagsDiffer t.tags.reverse t'.tags.reverse = true)
    (h : decTy cfg t x = .ok v) : decTy cfg t' x = .error .malformed := by
  rw [decTy_decG cfg t x ha] at h
  rw [decTy_decG cfg t' x ha']
  exact decG_reject cfg t.base t'.base v _ _ x (by simpa using hl) hd h

/-- **accepted elements carry the type's tags**, outermost first, with the constructed bit on
    every wrapper -/
theorem decTy_carries (cfg : DecCfg) (t : Ty) (x : TLV) (v : Val) (ha : isAnyBase t = false)
    (hw : x.WF) (h : decTy cfg t x = .ok v) : Carries t.tags.reverse x := by
  rw [decTy_decG cfg t x ha] at h
  exact decG_carries cfg t.base v t.tags.reverse x hw h

end Asn1
