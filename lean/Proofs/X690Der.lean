/-
  Proofs.X690Der — the DER encoder model writes exactly the encoding the X.690 transcription
  (`Asn1.X690.der`) defines, for every type and value of the region.
  `X690.derElem` recurses on the *type* (one wrapper per tagging step); the encoder model loops over
  the *tag list* of the type.  `der_bridge` relates the two; `x690_*` is the induction on the type.
-/
import Asn1.X690
import Asn1.Encoder
import Proofs.X690Prim
import Proofs.X690Sort
import Proofs.EncSpec

namespace Asn1

open X690

/-! ### the header loop in definite mode -/

/-- wrap the contents in one definite-length header per tag, innermost first -/
def wrapL (ic : Bool) : Bytes → List Tag → Bytes
  | c, [] => c
  | c, t :: ts => wrapL ic (ident t.cls (t.constructed || ic) t.num ++ len c.length ++ c) ts

theorem wrapL_append (ic : Bool) : ∀ (ts : List Tag) (c : Bytes) (o : Tag),
    wrapL ic c (ts ++ [o]) =
      ident o.cls (o.constructed || ic) o.num ++ len (wrapL ic c ts).length ++ wrapL ic c ts
  | [], c, o => rfl
  | t :: ts, c, o => by simp only [List.cons_append, wrapL]; exact wrapL_append ic ts _ o

theorem wrapTags_der (io ic : Bool) : ∀ (tags : List Tag) (first : Bool) (sub b : Bytes),
    wrapTags io true ic first tags sub = .ok b → b = wrapL ic sub tags
  | [], _, sub, b, h => by
    simp only [wrapTags, Except.ok.injEq] at h
    exact h.symm
  | t :: ts, first, sub, b, h => by
    simp only [wrapTags, ite_self, encLen, Bool.not_true, Bool.false_and, Bool.false_eq_true,
      if_false] at h
    cases hl : encodeLength sub.length with
    | none => rw [hl] at h; simp at h
    | some l =>
      rw [hl] at h
      simp only [if_true, List.append_nil] at h
      have := wrapTags_der io ic ts false _ b h
      rw [this, wrapL, ident_eq, len_eq _ _ hl]

/-! ### `derElem` in tag-list form -/

def X690.Body.content : Body → Bytes
  | .prim c => c
  | .cons c => c
  | .elem e => e.bytes

def X690.Body.isCons : Body → Bool
  | .prim _ => false
  | _ => true

theorem derElem_explicit (cls : TagClass) (num : Nat) (t : Ty) (v : Val) (e : Elem)
    (h : derElem t v = some e) : derElem (.tagged true cls num t) v = some (wrap cls true num e.bytes) := by
  rw [derElem, h]

theorem derBody_explicit (cls : TagClass) (num : Nat) (t : Ty) (v : Val) :
    derBody (.tagged true cls num t) v = (derElem t v).map fun e => Body.cons e.bytes := by
  rw [derBody]

theorem derBody_implicit (cls : TagClass) (num : Nat) (t : Ty) (v : Val) :
    derBody (.tagged false cls num t) v = derBody t v := by
  rw [derBody]

theorem derElem_implicit (cls : TagClass) (num : Nat) (t : Ty) (v : Val) (B : Body)
    (h : derBody t v = some B) :
    derElem (.tagged false cls num t) v = some (wrap cls B.isCons num B.content) := by
  rw [derElem, h]
  cases B <;> rfl

/-- the form of the contents is determined by the (untagged) type -/
def kindOk : Ty → Body → Prop
  | .prim _, .prim _ => True
  | .seq _, .cons _ => True
  | .set _, .cons _ => True
  | .seqOf _, .cons _ => True
  | .setOf _, .cons _ => True
  | .choice _, .elem _ => True
  | .any, .elem _ => True
  | .tagged _ _ _ _, _ => True
  | _, _ => False

theorem derBody_kind (t : Ty) (v : Val) (B : Body) (h : derBody t v = some B) : kindOk t B := by
  cases t with
  | tagged e c n t' => cases B <;> trivial
  | prim p =>
    cases p <;> cases v <;> simp [derBody] at h
    all_goals first
      | (subst h; trivial)
      | (obtain ⟨_, _, rfl⟩ := h; trivial)
  | seq fs =>
    cases v <;> simp [derBody] at h
    obtain ⟨_, _, rfl⟩ := h; trivial
  | set fs =>
    cases v <;> simp [derBody] at h
    obtain ⟨_, _, rfl⟩ := h; trivial
  | seqOf t' =>
    cases v <;> simp [derBody] at h
    obtain ⟨_, _, rfl⟩ := h; trivial
  | setOf t' =>
    cases v <;> simp [derBody] at h
    obtain ⟨_, _, rfl⟩ := h; trivial
  | choice fs =>
    cases v <;> simp [derBody] at h
    obtain ⟨_, _, rfl⟩ := h; trivial
  | any =>
    cases v <;> simp [derBody] at h
    case any raw =>
      cases hd : decodeTag raw with
      | error e => rw [hd] at h; simp at h
      | ok pr => rw [hd] at h; simp at h; subst h; trivial

def untagged : Ty → Bool
  | .tagged _ _ _ _ => false
  | _ => true

theorem untagged_base (t : Ty) (h : untagged t = true) : t.base = t := by
  cases t <;> simp [untagged] at h <;> rfl

/-- an untagged type with a tag of its own: one header around the contents -/
theorem derElem_base (t : Ty) (v : Val) (B : Body) (hu : untagged t = true) (h : derBody t v = some B)
    (o : Tag) (ht : t.tags = [o]) :
    derElem t v = some ⟨o.cls, o.num, wrapL B.isCons B.content [o]⟩ ∧
      (o.constructed || B.isCons) = B.isCons := by
  have hk := derBody_kind t v B h
  cases t with
  | tagged e c n t' => simp [untagged] at hu
  | choice fs => simp [Ty.tags] at ht
  | any => simp [Ty.tags] at ht
  | prim p =>
    cases B <;> simp only [kindOk] at hk
    simp only [Ty.tags, List.cons.injEq, and_true] at ht
    subst ht
    refine ⟨?_, rfl⟩
    unfold derElem
    simp only [h]
    rfl
  | seq fs =>
    cases B <;> simp only [kindOk] at hk
    simp only [Ty.tags, List.cons.injEq, and_true] at ht
    subst ht
    refine ⟨?_, rfl⟩
    unfold derElem
    simp only [h]
    rfl
  | set fs =>
    cases B <;> simp only [kindOk] at hk
    simp only [Ty.tags, List.cons.injEq, and_true] at ht
    subst ht
    refine ⟨?_, rfl⟩
    unfold derElem
    simp only [h]
    rfl
  | seqOf t' =>
    cases B <;> simp only [kindOk] at hk
    simp only [Ty.tags, List.cons.injEq, and_true] at ht
    subst ht
    refine ⟨?_, rfl⟩
    unfold derElem
    simp only [h]
    rfl
  | setOf t' =>
    cases B <;> simp only [kindOk] at hk
    simp only [Ty.tags, List.cons.injEq, and_true] at ht
    subst ht
    refine ⟨?_, rfl⟩
    unfold derElem
    simp only [h]
    rfl

/-- an untagged CHOICE (or ANY): the element of the alternative itself -/
theorem derElem_elem (t : Ty) (v : Val) (e : Elem) (hu : untagged t = true)
    (h : derBody t v = some (.elem e)) : derElem t v = some e := by
  cases t with
  | tagged e c n t' => simp [untagged] at hu
  | _ =>
    unfold derElem
    simp only [h]

theorem nil_or_snoc {α} (l : List α) : l = [] ∨ ∃ init last, l = init ++ [last] := by
  rcases List.eq_nil_or_concat l with h | ⟨i, a, h⟩
  · exact Or.inl h
  · exact Or.inr ⟨i, a, by rw [h, List.concat_eq_append]⟩

theorem tags_nil_untagged : ∀ (t : Ty), t.tags = [] → untagged t = true
  | .prim _, _ => rfl
  | .seq _, _ => rfl
  | .set _, _ => rfl
  | .seqOf _, _ => rfl
  | .setOf _, _ => rfl
  | .choice _, _ => rfl
  | .any, _ => rfl
  | .tagged true c n t, h => by simp [Ty.tags] at h
  | .tagged false c n t, h => by
    simp only [Ty.tags] at h
    rcases nil_or_snoc t.tags with hn | ⟨init, last, hl⟩
    · rw [hn, tagImplicitly_nil] at h; simp at h
    · rw [hl, tagImplicitly_concat] at h; simp at h

theorem kind_elem_of_tags_nil (t : Ty) (v : Val) (B : Body) (ht : t.tags = [])
    (h : derBody t v = some B) : ∃ e, B = .elem e := by
  have hk := derBody_kind t v B h
  have hu := tags_nil_untagged t ht
  cases t <;> simp [untagged] at hu <;> simp [Ty.tags] at ht <;> cases B <;> simp [kindOk] at hk
  all_goals exact ⟨_, rfl⟩

/-- **the recursion of `derElem` on the type, in tag-list form**: given the contents of the base
    type, the element is those contents under one definite header per tag of the type's tag list,
    and `derBody` (the element less its outermost header) is the same over all tags but the last -/
theorem der_bridge : ∀ (t : Ty) (v : Val) (B : Body), derBody t.base v = some B →
    ∀ (ts : List Tag) (o : Tag), t.tags = ts ++ [o] →
      derElem t v = some ⟨o.cls, o.num, wrapL B.isCons B.content (ts ++ [o])⟩ ∧
      (o.constructed || B.isCons) = (if ts = [] then B.isCons else true) ∧
      ∃ B', derBody t v = some B' ∧ B'.content = wrapL B.isCons B.content ts ∧
        B'.isCons = (if ts = [] then B.isCons else true)
  | .tagged true cls num t', v, B, hB, ts, o, ht => by
    simp only [Ty.base] at hB
    simp only [Ty.tags] at ht
    obtain ⟨rfl, ho⟩ := List.append_inj' ht rfl
    simp only [List.cons.injEq, and_true] at ho
    subst ho
    rcases nil_or_snoc t'.tags with hn | ⟨ts', o', hl⟩
    · -- explicit tag directly on an untagged CHOICE
      have hu := tags_nil_untagged t' hn
      rw [untagged_base t' hu] at hB
      obtain ⟨e, rfl⟩ := kind_elem_of_tags_nil t' v B hn hB
      have he := derElem_elem t' v e hu hB
      rw [hn]
      refine ⟨?_, rfl, .cons e.bytes, ?_, rfl, rfl⟩
      · rw [derElem_explicit cls num t' v e he]; rfl
      · rw [derBody_explicit, he]; rfl
    · obtain ⟨h1, _, _⟩ := der_bridge t' v B hB ts' o' hl
      have hne : t'.tags ≠ [] := by rw [hl]; simp
      refine ⟨?_, by simp [hne], .cons (wrapL B.isCons B.content t'.tags), ?_, rfl, by simp [hne, Body.isCons]⟩
      · rw [derElem_explicit cls num t' v _ h1, wrapL_append _ t'.tags, hl]; rfl
      · rw [derBody_explicit, h1, hl]; rfl
  | .tagged false cls num t', v, B, hB, ts, o, ht => by
    simp only [Ty.base] at hB
    simp only [Ty.tags] at ht
    rcases nil_or_snoc t'.tags with hn | ⟨ts', o', hl⟩
    · -- IMPLICIT on an untagged CHOICE acts as EXPLICIT
      rw [hn, tagImplicitly_nil] at ht
      have hts : ts = [] := by
        cases ts with
        | nil => rfl
        | cons a as => cases as <;> simp at ht
      subst hts
      simp only [List.nil_append, List.cons.injEq, and_true] at ht
      subst ht
      have hu := tags_nil_untagged t' hn
      rw [untagged_base t' hu] at hB
      obtain ⟨e, rfl⟩ := kind_elem_of_tags_nil t' v B hn hB
      refine ⟨?_, rfl, .elem e, ?_, rfl, rfl⟩
      · rw [derElem_implicit cls num t' v _ hB]; rfl
      · rw [derBody_implicit]; exact hB
    · rw [hl, tagImplicitly_concat] at ht
      obtain ⟨rfl, ho⟩ := List.append_inj' ht rfl
      simp only [List.cons.injEq, and_true] at ho
      subst ho
      obtain ⟨_, h2, B', h3, h4, h5⟩ := der_bridge t' v B hB ts' o' hl
      refine ⟨?_, h2, B', by rw [derBody_implicit]; exact h3, h4, h5⟩
      rw [derElem_implicit cls num t' v B' h3, wrapL_append, h5, ← h2, h4]
      rfl
  | .prim p, v, B, hB, ts, o, ht => by
    have hts : ts = [] := by
      cases ts with
      | nil => rfl
      | cons a as => cases as <;> simp [Ty.tags] at ht
    subst hts
    obtain ⟨h1, h2⟩ := derElem_base (.prim p) v B rfl hB o ht
    exact ⟨h1, by simpa using h2, B, hB, rfl, rfl⟩
  | .seq fs, v, B, hB, ts, o, ht => by
    have hts : ts = [] := by
      cases ts with
      | nil => rfl
      | cons a as => cases as <;> simp [Ty.tags] at ht
    subst hts
    obtain ⟨h1, h2⟩ := derElem_base (.seq fs) v B rfl hB o ht
    exact ⟨h1, by simpa using h2, B, hB, rfl, rfl⟩
  | .set fs, v, B, hB, ts, o, ht => by
    have hts : ts = [] := by
      cases ts with
      | nil => rfl
      | cons a as => cases as <;> simp [Ty.tags] at ht
    subst hts
    obtain ⟨h1, h2⟩ := derElem_base (.set fs) v B rfl hB o ht
    exact ⟨h1, by simpa using h2, B, hB, rfl, rfl⟩
  | .seqOf t', v, B, hB, ts, o, ht => by
    have hts : ts = [] := by
      cases ts with
      | nil => rfl
      | cons a as => cases as <;> simp [Ty.tags] at ht
    subst hts
    obtain ⟨h1, h2⟩ := derElem_base (.seqOf t') v B rfl hB o ht
    exact ⟨h1, by simpa using h2, B, hB, rfl, rfl⟩
  | .setOf t', v, B, hB, ts, o, ht => by
    have hts : ts = [] := by
      cases ts with
      | nil => rfl
      | cons a as => cases as <;> simp [Ty.tags] at ht
    subst hts
    obtain ⟨h1, h2⟩ := derElem_base (.setOf t') v B rfl hB o ht
    exact ⟨h1, by simpa using h2, B, hB, rfl, rfl⟩
  | .choice fs, v, B, hB, ts, o, ht => by simp [Ty.tags] at ht
  | .any, v, B, hB, ts, o, ht => by simp [Ty.tags] at ht

/-! ### the sort keys -/

/-- the outermost tag of the element is the last tag of the value's effective tag set -/
def KeyOk (t : Ty) (v : Val) (e : Elem) : Prop :=
  ∃ tg, (effTags t v).getLast? = some tg ∧ tg.cls = e.cls ∧ tg.num = e.num

theorem effTags_tagged (t : Ty) (v : Val) (h : t.tags ≠ []) : effTags t v = t.tags := by
  cases v <;> simp [effTags, h]

theorem setKey_dynamic (t : Ty) (v : Val) (hna : isAnyBase t = false) : setKey .dynamic t v = effTags t v := by
  cases t with
  | choice fs => rfl
  | any => simp [isAnyBase] at hna
  | prim p => rw [effTags_tagged _ _ (by simp [Ty.tags])]; rfl
  | seq fs => rw [effTags_tagged _ _ (by simp [Ty.tags])]; rfl
  | set fs => rw [effTags_tagged _ _ (by simp [Ty.tags])]; rfl
  | seqOf fs => rw [effTags_tagged _ _ (by simp [Ty.tags])]; rfl
  | setOf fs => rw [effTags_tagged _ _ (by simp [Ty.tags])]; rfl
  | tagged e c n t' =>
    have : (Ty.tagged e c n t').tags ≠ [] := by
      intro h
      have := tags_nil_untagged _ h
      simp [untagged] at this
    rw [effTags_tagged _ _ this]; rfl

/-- SET: the encoder's merge sort on the outermost-tag keys and X.690's canonical order of the
    elements give the same octets -/
theorem set_sort_eq (zs : List (TagSet × Elem))
    (hk : ∀ z ∈ zs, ∃ tg, z.1.getLast? = some tg ∧ tg.cls = z.2.cls ∧ tg.num = z.2.num) :
    ((((zs.map fun z => (z.1, z.2.bytes)).mergeSort
        (fun a b => tagSetLe (outerKey a.1) (outerKey b.1))).map (·.2)).flatten)
      = (sortBy (fun a b => rankLe (tagRank a.cls a.num) (tagRank b.cls b.num)) (zs.map (·.2))).flatMap (fun e : Elem => e.bytes) := by
  let leZ : TagSet × Elem → TagSet × Elem → Bool :=
    fun a b => rankLe (tagRank a.2.cls a.2.num) (tagRank b.2.cls b.2.num)
  have h1 : (zs.map fun z => (z.1, z.2.bytes)).mergeSort (fun a b => tagSetLe (outerKey a.1) (outerKey b.1))
      = (zs.mergeSort leZ).map (fun z => (z.1, z.2.bytes)) := by
    rw [List.map_mergeSort (r := leZ)]
    intro a ha b hb
    obtain ⟨ta, ha1, ha2, ha3⟩ := hk a ha
    obtain ⟨tb, hb1, hb2, hb3⟩ := hk b hb
    show leZ a b = tagSetLe (outerKey a.1) (outerKey b.1)
    simp only [outerKey, ha1, hb1, tagSetLe_single, ha2, ha3, hb2, hb3, leZ]
  have h2 : sortBy (fun a b => rankLe (tagRank a.cls a.num) (tagRank b.cls b.num)) (zs.map (·.2))
      = (zs.mergeSort leZ).map (·.2) := by
    rw [sortBy_eq_mergeSort (fun a b : Elem => rankLe (tagRank a.cls a.num) (tagRank b.cls b.num))
      (fun a b c => rankLe_trans _ _ _) (fun a b => rankLe_total _ _)]
    rw [List.map_mergeSort (r := leZ)]
    intro a _ b _; rfl
  rw [h1, h2, List.flatMap_def, List.map_map, List.map_map]
  rfl

/-! ### lists of members and elements -/

theorem derFields_cons (k : FKind) (t : Ty) (rest : Fields) (v : Val) (vs : List Val) :
    derFields (.cons k t rest) (v :: vs) =
      if skipField k v then derFields rest vs
      else (derElem t v).bind fun e => (derFields rest vs).map (e :: ·) := by
  cases k <;> cases v <;> simp only [derFields, skipField] <;>
    first
      | rfl
      | (cases derElem t _ <;> cases derFields rest vs <;> rfl)
      | (split <;> first | rfl | (cases derElem t _ <;> cases derFields rest vs <;> rfl))

theorem elems_x (t : Ty) (f : Val → Except Err Bytes) : ∀ (vs : List Val) (cs : List Bytes),
    (∀ v b, v ∈ vs → f v = .ok b → ∃ e, derElem t v = some e ∧ e.bytes = b) →
    allOk (vs.map f) = .ok cs → ∃ es, derElems t vs = some es ∧ es.map (fun e : Elem => e.bytes) = cs
  | [], cs, _, h => by
    simp only [List.map_nil, allOk, Except.ok.injEq] at h
    subst h
    exact ⟨[], by simp [derElems], rfl⟩
  | v :: vs, cs, hg, h => by
    simp only [List.map_cons] at h
    cases hv : f v with
    | error e => rw [hv] at h; simp [allOk] at h
    | ok b =>
      rw [hv] at h
      simp only [allOk] at h
      cases hr : allOk (vs.map f) with
      | error e => rw [hr] at h; simp [Except.map] at h
      | ok cs' =>
        rw [hr] at h
        simp only [Except.map, Except.ok.injEq] at h
        subst h
        obtain ⟨e, he, hb⟩ := hg v b (by simp) hv
        obtain ⟨es, hes, hm⟩ := elems_x t f vs cs' (fun v' b' hm hf => hg v' b' (by simp [hm]) hf) hr
        exact ⟨e :: es, by simp [derElems, he, hes], by simp [hb, hm]⟩

/-! ### one item -/

/-- the contents computed by the encoder are those `derBody` gives for the base type -/
def ContentX (t : Ty) (v : Val) (sub : Bytes) (ic : Bool) : Prop :=
  ∃ B, derBody t.base v = some B ∧ B.content = sub ∧ B.isCons = ic ∧ (∀ e, B = .elem e → KeyOk t.base v e)

/-- the encoding of one item is the X.690 element, and its outermost tag is the sort key's -/
def ItemX (t : Ty) (v : Val) (b : Bytes) : Prop :=
  ∃ e, derElem t v = some e ∧ e.bytes = b ∧ KeyOk t v e

theorem contentX_tagged {t : Ty} {v : Val} {sub : Bytes} {ic : Bool} (e : Bool) (c : TagClass) (n : Nat)
    (h : ContentX t v sub ic) : ContentX (.tagged e c n t) v sub ic := h

theorem item_x (cfg : EncCfg) (f : Bool) (t : Ty) (v : Val) (sub : Bytes) (ic : Bool) (b : Bytes)
    (hne : f = true → ic = true → sub.isEmpty = false)
    (hc : ContentX t v sub ic)
    (h : finishItem cfg (mkO true 0 f) t (.ok (sub, ic)) = .ok b) : ItemX t v b := by
  obtain ⟨B, hB, hcont, hcons, hkey⟩ := hc
  simp only [finishItem] at h
  rcases nil_or_snoc t.tags with hn | ⟨ts, o, hl⟩
  · rw [hn] at h
    simp only [List.isEmpty_nil, if_true, Except.ok.injEq] at h
    subst h
    have hu := tags_nil_untagged t hn
    rw [untagged_base t hu] at hB hkey
    obtain ⟨e, rfl⟩ := kind_elem_of_tags_nil t v B hn hB
    exact ⟨e, derElem_elem t v e hu hB, hcont, hkey e rfl⟩
  · have hnn : t.tags ≠ [] := by rw [hl]; simp
    have hie : t.tags.isEmpty = false := by
      cases ht : t.tags with
      | nil => exact absurd ht hnn
      | cons _ _ => rfl
    rw [hie] at h
    simp only [Bool.false_eq_true, if_false] at h
    have homit : (sub.isEmpty && ic && f) = false := by
      cases ic with
      | false => simp
      | true =>
        cases f with
        | false => simp
        | true => rw [hne rfl rfl]; rfl
    rw [homit] at h
    simp only [Bool.false_eq_true, if_false] at h
    have hb := wrapTags_der _ ic t.tags true sub b h
    obtain ⟨h1, _, _⟩ := der_bridge t v B hB ts o hl
    refine ⟨_, h1, ?_, o, ?_, rfl, rfl⟩
    · rw [hb, hcont, hcons, hl]
    · rw [effTags_tagged t v hnn, hl]; simp

/-! ### the induction on the type -/

/-- what makes an encoder configuration the DER one -/
structure DerCfg (cfg : EncCfg) : Prop where
  boolT : cfg.boolTrue = 255
  sortOf : cfg.sortSetOf = true
  setOrd : cfg.setOrder = .dynamic
  omitE : cfg.seqOmitEmpty = true

section
variable (cfg : EncCfg) (hD : DerCfg cfg)
include hD

theorem der_encRegion : EncRegion cfg derProfile 0 :=
  { boolT := by simp [derProfile, hD.boolT], chunk := Or.inl rfl, setOmit := Or.inr hD.omitE }

/-- a present member is never left out in the region (finding E3 excluded) -/
theorem sub_nonempty (t : Ty) (v : Val) (sub : Bytes) (ic f : Bool)
    (hreg : t.reg true cfg true = true) (hwf : t.WF = true) (hty : HasType t v = true)
    (hn : noE3 cfg.seqOmitEmpty t v = true) (hE : f = true → emptyC cfg.seqOmitEmpty t v = false)
    (he : encValue cfg (mkO true 0 f) t v = .ok (sub, ic)) :
    f = true → ic = true → sub.isEmpty = false := by
  intro hf hic
  have hc := rt_contentS cfg derProfile true 0 (der_encRegion cfg hD) t v sub ic f (fun _ => hD.omitE)
    hreg hwf hty hn hE he
  obtain ⟨_, cs, hsub, hw, _, _, _, _, hne⟩ := hc.2 hic
  rw [hsub]
  exact serList_ne_nil cs hw (hne (hE hf))

theorem member_x (t : Ty) (v : Val) (f : Bool) (b : Bytes)
    (hreg : t.reg true cfg true = true) (hwf : t.WF = true) (hty : HasType t v = true)
    (hn : noE3 cfg.seqOmitEmpty t v = true) (hE : f = true → emptyC cfg.seqOmitEmpty t v = false)
    (hcx : ∀ sub ic, encValue cfg (mkO true 0 f) t v = .ok (sub, ic) → ContentX t v sub ic)
    (h : finishItem cfg (mkO true 0 f) t (encValue cfg (mkO true 0 f) t v) = .ok b) : ItemX t v b := by
  obtain ⟨sub, ic, he⟩ := finish_ok h
  rw [he] at h
  exact item_x cfg f t v sub ic b (sub_nonempty cfg hD t v sub ic f hreg hwf hty hn hE he) (hcx sub ic he) h

mutual
theorem x_content : ∀ (t : Ty) (v : Val) (sub : Bytes) (ic : Bool) (f : Bool),
    t.reg true cfg true = true → t.WF = true → HasType t v = true → noE3 cfg.seqOmitEmpty t v = true →
    (f = true → emptyC cfg.seqOmitEmpty t v = false) →
    encValue cfg (mkO true 0 f) t v = .ok (sub, ic) → ContentX t v sub ic
  | .tagged e c n t, v, sub, ic, f, hr, hw, ht, hn, hE, h => by
      have hr' : t.reg true cfg true = true := by
        simp only [Ty.reg, Bool.and_eq_true] at hr; exact hr.2
      have hw' : t.WF = true := by
        cases e <;> simp_all [Ty.WF]
      exact contentX_tagged e c n
        (x_content t v sub ic f hr' hw' (by simpa [HasType] using ht) (by simpa [noE3] using hn)
          (by simpa [emptyC] using hE) (by simpa [encValue] using h))
  | .prim p, v, sub, ic, f, hr, hw, ht, hn, hE, h => by
      cases p with
      | boolean =>
        cases v <;> simp [HasType] at ht
        case bool b =>
          simp only [encValue, Except.ok.injEq, Prod.mk.injEq] at h
          obtain ⟨rfl, rfl⟩ := h
          refine ⟨.prim [if b then 0xFF else 0x00], by simp [Ty.base, derBody], ?_, rfl,
            fun e he => by cases he⟩
          cases b <;> simp [Body.content, hD.boolT]
      | integer =>
        cases v <;> simp [HasType] at ht
        case int z =>
          simp only [encValue, Except.ok.injEq, Prod.mk.injEq] at h
          obtain ⟨rfl, rfl⟩ := h
          exact ⟨.prim (intOctets z), by simp [Ty.base, derBody], intOctets_eq z, rfl,
            fun e he => by cases he⟩
      | enumerated =>
        cases v <;> simp [HasType] at ht
        case int z =>
          simp only [encValue, Except.ok.injEq, Prod.mk.injEq] at h
          obtain ⟨rfl, rfl⟩ := h
          exact ⟨.prim (intOctets z), by simp [Ty.base, derBody], intOctets_eq z, rfl,
            fun e he => by cases he⟩
      | null =>
        cases v <;> simp [HasType] at ht
        case null =>
          simp only [encValue, Except.ok.injEq, Prod.mk.injEq] at h
          obtain ⟨rfl, rfl⟩ := h
          exact ⟨.prim [], by simp [Ty.base, derBody], rfl, rfl, fun e he => by cases he⟩
      | oid =>
        cases v <;> simp [HasType] at ht
        case oid arcs =>
          simp only [encValue] at h
          cases hc : oidToContent arcs with
          | none => rw [hc] at h; simp at h
          | some c =>
            rw [hc] at h
            simp only [Except.ok.injEq, Prod.mk.injEq] at h
            obtain ⟨rfl, rfl⟩ := h
            exact ⟨.prim c, by simp [Ty.base, derBody, oidOctets_eq, hc], rfl, rfl,
              fun e he => by cases he⟩
      | real =>
        cases v <;> simp [HasType] at ht
        case real r =>
          cases r with
          | pinf =>
            simp only [encValue, Except.ok.injEq, Prod.mk.injEq] at h
            obtain ⟨rfl, rfl⟩ := h
            exact ⟨.prim [0x40], by simp [Ty.base, derBody, realOctets], rfl, rfl, fun e he => by cases he⟩
          | minf =>
            simp only [encValue, Except.ok.injEq, Prod.mk.injEq] at h
            obtain ⟨rfl, rfl⟩ := h
            exact ⟨.prim [0x41], by simp [Ty.base, derBody, realOctets], rfl, rfl, fun e he => by cases he⟩
          | fin m b e =>
            simp only [encValue] at h
            by_cases hm : m = 0
            · simp only [hm, if_true, Except.ok.injEq, Prod.mk.injEq] at h
              obtain ⟨rfl, rfl⟩ := h
              exact ⟨.prim [], by simp [Ty.base, derBody, realOctets, hm], rfl, rfl,
                fun e he => by cases he⟩
            · simp only [hm, if_false] at h
              by_cases hb : b = 2
              · simp only [hb, if_true] at h
                cases hc : realBinToContent m e with
                | none => rw [hc] at h; simp at h
                | some c =>
                  rw [hc] at h
                  simp only [Except.ok.injEq, Prod.mk.injEq] at h
                  obtain ⟨rfl, rfl⟩ := h
                  subst hb
                  exact ⟨.prim c, by simp [Ty.base, derBody, realOctets_eq, hc], rfl, rfl,
                    fun e he => by cases he⟩
              · simp [hb] at h
      | bitString =>
        cases v <;> simp [HasType] at ht
        case bits bs =>
          simp only [encValue, mkO, Nat.zero_mul, Bool.true_or, if_true,
            decide_true, Except.ok.injEq, Prod.mk.injEq] at h
          obtain ⟨rfl, rfl⟩ := h
          exact ⟨.prim (bitOctets bs), by simp [Ty.base, derBody], bitOctets_eq bs, rfl,
            fun e he => by cases he⟩
      | str k =>
        cases v <;> simp [HasType] at ht
        case str bs =>
          simp only [encValue, mkO, Bool.true_or, if_true, decide_true,
            Except.ok.injEq, Prod.mk.injEq] at h
          obtain ⟨rfl, rfl⟩ := h
          exact ⟨.prim bs, by simp [Ty.base, derBody], rfl, rfl, fun e he => by cases he⟩
  | .any, _, _, _, _, hr, _, _, _, _, _ => by simp [Ty.reg] at hr
  | .seq fs, v, sub, ic, f, hr, hw, ht, hn, hE, h => by
      cases v <;> simp [HasType] at ht
      case seq vs =>
        simp only [encValue] at h
        cases hb : encFields cfg (mkO true 0 f) fs vs with
        | error e => rw [hb] at h; simp [Except.map] at h
        | ok b =>
          rw [hb] at h
          simp only [Except.map, Except.ok.injEq, Prod.mk.injEq] at h
          obtain ⟨rfl, rfl⟩ := h
          simp only [Ty.reg] at hr
          simp only [Ty.WF, Bool.and_eq_true] at hw
          obtain ⟨es, h1, h2⟩ := x_fields fs vs b f hr hw.1 ht (by simpa [noE3] using hn) hb
          exact ⟨.cons (es.flatMap (fun e : Elem => e.bytes)), by simp [Ty.base, derBody, h1], h2, rfl,
            fun e he => by cases he⟩
  | .set fs, v, sub, ic, f, hr, hw, ht, hn, hE, h => by
      cases v <;> simp [HasType] at ht
      case seq vs =>
        simp only [Ty.reg] at hr
        simp only [Ty.WF, Bool.and_eq_true] at hw
        simp only [encValue, hD.setOrd] at h
        cases hb : encSetMembers cfg (mkO true 0 f) .dynamic fs vs with
        | error e => rw [hb] at h; simp at h
        | ok ms =>
          rw [hb] at h
          simp only [Except.ok.injEq, Prod.mk.injEq] at h
          obtain ⟨rfl, rfl⟩ := h
          obtain ⟨zs, h1, h2, h3⟩ := x_set fs vs ms f hr hw.1 ht (by simpa [noE3] using hn) hb
          subst h1
          refine ⟨.cons ((sortBy (fun a b => rankLe (tagRank a.cls a.num) (tagRank b.cls b.num))
            (zs.map (·.2))).flatMap (fun e : Elem => e.bytes)), by simp [Ty.base, derBody, h2], ?_, rfl,
            fun e he => by cases he⟩
          exact (set_sort_eq zs h3).symm
  | .seqOf t, v, sub, ic, f, hr, hw, ht, hn, hE, h => by
      cases v <;> simp [HasType] at ht
      case seqOf vs =>
        simp only [Ty.reg] at hr
        simp only [Ty.WF] at hw
        simp only [encValue] at h
        by_cases hcond : (cfg.seqOfIfNotEmpty && f && vs.isEmpty) = true
        · simp only [hcond, if_true, Except.ok.injEq, Prod.mk.injEq] at h
          obtain ⟨rfl, rfl⟩ := h
          have hvs : vs = [] := by
            simp only [Bool.and_eq_true] at hcond
            simpa using hcond.2
          subst hvs
          exact ⟨.cons [], by simp [Ty.base, derBody, derElems], rfl, rfl, fun e he => by cases he⟩
        · simp only [hcond, Bool.false_eq_true, if_false] at h
          cases hb : allOk (vs.map fun v => finishItem cfg (mkO true 0 false) t (encValue cfg (mkO true 0 false) t v)) with
          | error e => rw [hb] at h; simp [Except.map] at h
          | ok bs =>
            rw [hb] at h
            simp only [Except.map, Except.ok.injEq, Prod.mk.injEq] at h
            obtain ⟨rfl, rfl⟩ := h
            have hnall : ∀ v ∈ vs, noE3 cfg.seqOmitEmpty t v = true := by
              simpa [noE3] using hn
            obtain ⟨es, h1, h2⟩ := elems_x t _ vs bs (fun v b hm hfin => by
              obtain ⟨e, he1, he2, _⟩ := member_x cfg hD t v false b hr hw (ht v hm) (hnall v hm) (by simp)
                (fun sub ic he => x_content t v sub ic false hr hw (ht v hm) (hnall v hm) (by simp) he) hfin
              exact ⟨e, he1, he2⟩) hb
            refine ⟨.cons (es.flatMap (fun e : Elem => e.bytes)), by simp [Ty.base, derBody, h1], ?_, rfl,
              fun e he => by cases he⟩
            rw [← h2, List.flatMap_def]; rfl
  | .setOf t, v, sub, ic, f, hr, hw, ht, hn, hE, h => by
      cases v <;> simp [HasType] at ht
      case seqOf vs =>
        simp only [Ty.reg] at hr
        simp only [Ty.WF] at hw
        simp only [encValue] at h
        cases hb : allOk (vs.map fun v => finishItem cfg (mkO true 0 false) t (encValue cfg (mkO true 0 false) t v)) with
        | error e => rw [hb] at h; simp [Except.map] at h
        | ok bs =>
          rw [hb] at h
          simp only [Except.map, Except.ok.injEq, Prod.mk.injEq, hD.sortOf, if_true] at h
          obtain ⟨rfl, rfl⟩ := h
          have hnall : ∀ v ∈ vs, noE3 cfg.seqOmitEmpty t v = true := by
            simpa [noE3] using hn
          obtain ⟨es, h1, h2⟩ := elems_x t _ vs bs (fun v b hm hfin => by
            obtain ⟨e, he1, he2, _⟩ := member_x cfg hD t v false b hr hw (ht v hm) (hnall v hm) (by simp)
              (fun sub ic he => x_content t v sub ic false hr hw (ht v hm) (hnall v hm) (by simp) he) hfin
            exact ⟨e, he1, he2⟩) hb
          refine ⟨.cons ((sortBy paddedLe (es.map (fun e : Elem => e.bytes))).flatten), by simp [Ty.base, derBody, h1], ?_, rfl,
            fun e he => by cases he⟩
          rw [h2, sortSetOf_eq]; rfl
  | .choice fs, v, sub, ic, f, hr, hw, ht, hn, hE, h => by
      cases v <;> simp [HasType] at ht
      case choice i w =>
        simp only [encValue] at h
        cases hb : encAlt cfg (mkO true 0 f) fs i w with
        | error e => rw [hb] at h; simp [Except.map] at h
        | ok b =>
          rw [hb] at h
          simp only [Except.map, Except.ok.injEq, Prod.mk.injEq] at h
          obtain ⟨rfl, rfl⟩ := h
          simp only [Ty.reg] at hr
          simp only [Ty.WF, Bool.and_eq_true] at hw
          obtain ⟨e, h1, h2, k, ti, h3, h4⟩ := x_alt fs i w b f hr hw.1.1 ht (by simpa [noE3] using hn) (by simpa [emptyC] using hE) hb
          refine ⟨.elem e, by simp [Ty.base, derBody, h1], h2, rfl, ?_⟩
          intro e' he'
          cases he'
          obtain ⟨tg, hk1, hk2, hk3⟩ := h4
          exact ⟨tg, by simpa [effTags, Ty.tags, Ty.base, h3] using hk1, hk2, hk3⟩
theorem x_fields : ∀ (fs : Fields) (vs : List Val) (b : Bytes) (f : Bool),
    Fields.reg true cfg true fs = true → Fields.WF fs = true → HasFields fs vs = true →
    noE3F cfg.seqOmitEmpty fs vs = true →
    encFields cfg (mkO true 0 f) fs vs = .ok b →
    ∃ es, derFields fs vs = some es ∧ es.flatMap (fun e : Elem => e.bytes) = b
  | .nil, [], b, f, _, _, _, _, h => by
      simp only [encFields, Except.ok.injEq] at h
      subst h
      exact ⟨[], by simp [derFields], rfl⟩
  | .nil, _ :: _, _, _, _, _, hf, _, _ => by simp [HasFields] at hf
  | .cons _ _ _, [], _, _, _, _, hf, _, _ => by simp [HasFields] at hf
  | .cons kd t rest, v :: vs, b, f, hr, hw, hf, hn, h => by
      simp only [Fields.reg, Bool.and_eq_true] at hr
      have hw' : t.WF = true ∧ Fields.WF rest = true := by
        cases kd <;> simp_all [Fields.WF]
      simp only [encFields] at h
      rw [derFields_cons]
      by_cases hs : skipField kd v = true
      · simp only [hs, if_true] at h ⊢
        obtain ⟨hfr, _⟩ := hasFields_skipped hf hs
        have hn' : noE3F cfg.seqOmitEmpty rest vs = true := by
          simp only [noE3F, Bool.and_eq_true] at hn; exact hn.2
        exact x_fields rest vs b f hr.2 hw'.2 hfr hn' h
      · have hs' : skipField kd v = false := by simpa using hs
        simp only [hs', Bool.false_eq_true, if_false] at h ⊢
        obtain ⟨hty, hfr⟩ := hasFields_present hf hs'
        simp only [noE3F, hs', Bool.false_or, Bool.and_eq_true, Bool.not_eq_true'] at hn
        have ho : (if cfg.seqOmitEmpty = true then
            { mkO true 0 f with ifNotEmpty := kd.isOpt } else mkO true 0 f) = mkO true 0 kd.isOpt := by
          rw [hD.omitE]; rfl
        rw [ho] at h
        have hE' : kd.isOpt = true → emptyC cfg.seqOmitEmpty t v = false := by
          intro hh
          have := hn.1.1
          rw [hD.omitE, hh] at this
          rw [hD.omitE]
          simpa using this
        cases hb1 : finishItem cfg (mkO true 0 kd.isOpt) t (encValue cfg (mkO true 0 kd.isOpt) t v) with
        | error e => rw [hb1] at h; simp at h
        | ok b1 =>
          rw [hb1] at h
          simp only at h
          cases hb2 : encFields cfg (mkO true 0 kd.isOpt) rest vs with
          | error e => rw [hb2] at h; simp [Except.map] at h
          | ok b2 =>
            rw [hb2] at h
            simp only [Except.map, Except.ok.injEq] at h
            subst h
            obtain ⟨e, he1, he2, _⟩ := member_x cfg hD t v kd.isOpt b1 hr.1 hw'.1 hty hn.1.2 hE'
              (fun sub ic he => x_content t v sub ic kd.isOpt hr.1 hw'.1 hty hn.1.2 hE' he) hb1
            obtain ⟨es, h1, h2⟩ := x_fields rest vs b2 kd.isOpt hr.2 hw'.2 hfr hn.2 hb2
            exact ⟨e :: es, by simp [he1, h1], by simp [he2, h2]⟩
theorem x_set : ∀ (fs : Fields) (vs : List Val) (ms : List (TagSet × Bytes)) (f : Bool),
    Fields.reg true cfg true fs = true → Fields.WF fs = true → HasFields fs vs = true →
    noE3F cfg.seqOmitEmpty fs vs = true →
    encSetMembers cfg (mkO true 0 f) .dynamic fs vs = .ok ms →
    ∃ zs : List (TagSet × Elem), ms = zs.map (fun z => (z.1, z.2.bytes)) ∧
      derFields fs vs = some (zs.map (·.2)) ∧
      ∀ z ∈ zs, ∃ tg, z.1.getLast? = some tg ∧ tg.cls = z.2.cls ∧ tg.num = z.2.num
  | .nil, [], ms, f, _, _, _, _, h => by
      simp only [encSetMembers, Except.ok.injEq] at h
      subst h
      exact ⟨[], rfl, by simp [derFields], by intro z hz; simp at hz⟩
  | .nil, _ :: _, _, _, _, _, hf, _, _ => by simp [HasFields] at hf
  | .cons _ _ _, [], _, _, _, _, hf, _, _ => by simp [HasFields] at hf
  | .cons kd t rest, v :: vs, ms, f, hr, hw, hf, hn, h => by
      simp only [Fields.reg, Bool.and_eq_true] at hr
      have hw' : t.WF = true ∧ Fields.WF rest = true := by
        cases kd <;> simp_all [Fields.WF]
      simp only [encSetMembers] at h
      rw [derFields_cons]
      by_cases hs : skipField kd v = true
      · simp only [hs, if_true] at h ⊢
        obtain ⟨hfr, _⟩ := hasFields_skipped hf hs
        have hn' : noE3F cfg.seqOmitEmpty rest vs = true := by
          simp only [noE3F, Bool.and_eq_true] at hn; exact hn.2
        exact x_set rest vs ms f hr.2 hw'.2 hfr hn' h
      · have hs' : skipField kd v = false := by simpa using hs
        simp only [hs', Bool.false_eq_true, if_false] at h ⊢
        obtain ⟨hty, hfr⟩ := hasFields_present hf hs'
        simp only [noE3F, hs', Bool.false_or, Bool.and_eq_true, Bool.not_eq_true'] at hn
        have ho : ({ mkO true 0 f with ifNotEmpty := kd.isOpt } : EncOpts) = mkO true 0 kd.isOpt := rfl
        rw [ho] at h
        have hE' : kd.isOpt = true → emptyC cfg.seqOmitEmpty t v = false := by
          intro hh
          have := hn.1.1
          rw [hD.omitE, hh] at this
          rw [hD.omitE]
          simpa using this
        cases hb1 : finishItem cfg (mkO true 0 kd.isOpt) t (encValue cfg (mkO true 0 kd.isOpt) t v) with
        | error e => rw [hb1] at h; simp at h
        | ok b1 =>
          rw [hb1] at h
          simp only at h
          cases hb2 : encSetMembers cfg (mkO true 0 f) .dynamic rest vs with
          | error e => rw [hb2] at h; simp [Except.map] at h
          | ok ms2 =>
            rw [hb2] at h
            simp only [Except.map, Except.ok.injEq] at h
            subst h
            obtain ⟨e, he1, he2, hk⟩ := member_x cfg hD t v kd.isOpt b1 hr.1 hw'.1 hty hn.1.2 hE'
              (fun sub ic he => x_content t v sub ic kd.isOpt hr.1 hw'.1 hty hn.1.2 hE' he) hb1
            obtain ⟨zs, h1, h2, h3⟩ := x_set rest vs ms2 f hr.2 hw'.2 hfr hn.2 hb2
            refine ⟨(setKey .dynamic t v, e) :: zs, by simp [he2, h1], by simp [he1, h2], ?_⟩
            intro z hz
            rcases List.mem_cons.mp hz with rfl | hz
            · simp only
              rw [setKey_dynamic t v (reg_not_any true cfg true t hr.1)]
              exact hk
            · exact h3 z hz
theorem x_alt : ∀ (fs : Fields) (i : Nat) (v : Val) (b : Bytes) (f : Bool),
    Fields.reg true cfg true fs = true → Fields.WF fs = true → HasAlt fs i v = true →
    noE3Alt cfg.seqOmitEmpty fs i v = true → (f = true → emptyAlt cfg.seqOmitEmpty fs i v = false) →
    encAlt cfg (mkO true 0 f) fs i v = .ok b →
    ∃ e, derAlt fs i v = some e ∧ e.bytes = b ∧ ∃ k ti, fs.get? i = some (k, ti) ∧ KeyOk ti v e
  | .nil, _, _, _, _, _, _, ha, _, _, _ => by simp [HasAlt] at ha
  | .cons kd t rest, 0, v, b, f, hr, hw, ha, hn, hE, h => by
      simp only [Fields.reg, Bool.and_eq_true] at hr
      have hw' : t.WF = true := by
        cases kd <;> simp_all [Fields.WF]
      simp only [encAlt] at h
      simp only [HasAlt] at ha
      have hn' : noE3 cfg.seqOmitEmpty t v = true := by simpa [noE3Alt] using hn
      have hE' : f = true → emptyC cfg.seqOmitEmpty t v = false := by simpa [emptyAlt] using hE
      obtain ⟨e, he1, he2, hk⟩ := member_x cfg hD t v f b hr.1 hw' ha hn' hE'
        (fun sub ic he => x_content t v sub ic f hr.1 hw' ha hn' hE' he) h
      exact ⟨e, by simpa [derAlt] using he1, he2, kd, t, rfl, hk⟩
  | .cons kd t rest, i + 1, v, b, f, hr, hw, ha, hn, hE, h => by
      simp only [Fields.reg, Bool.and_eq_true] at hr
      have hw' : Fields.WF rest = true := by
        cases kd <;> simp_all [Fields.WF]
      simp only [encAlt] at h
      simp only [HasAlt] at ha
      obtain ⟨e, h1, h2, k, ti, h3, h4⟩ := x_alt rest i v b f hr.2 hw' ha (by simpa [noE3Alt] using hn) (by simpa [emptyAlt] using hE) h
      exact ⟨e, by simpa [derAlt] using h1, h2, k, ti, by simpa [Fields.get?] using h3, h4⟩
end

/-- **the DER encoder writes the distinguished encoding X.690 defines.**  For every type of the
    region (no ANY; REAL in base 2) and every value of it to which finding E3 does not apply,
    whatever `encode` returns under a DER configuration is `X690.der` of the value — the encoding
    computed by the independent transcription of X.690 §8, §10 and §11: minimal definite lengths,
    minimal two's complement, FF for TRUE, DEFAULT-valued members left out, SET members in tag
    order, SET OF elements in the order of their zero-padded encodings. -/
theorem der_is_x690 (o : EncOpts) (hdm : cfg.fixedDefMode = some true) (hch : cfg.fixedChunk = some 0)
    (hi : o.ifNotEmpty = false) (t : Ty) (v : Val) (b : Bytes)
    (hreg : t.reg true cfg true = true) (hwf : t.WF = true) (hty : HasType t v = true)
    (hn : noE3 cfg.seqOmitEmpty t v = true) (h : encItem cfg o t v = .ok b) :
    X690.der t v = some b := by
  have ho : normOpts cfg o = mkO true 0 false := by
    simp [normOpts, hdm, hch, hi, mkO]
  unfold encItem at h
  simp only [ho] at h
  obtain ⟨e, he1, he2, _⟩ := member_x cfg hD t v false b hreg hwf hty hn (by simp)
    (fun sub ic he => x_content cfg hD t v sub ic false hreg hwf hty hn (by simp) he) h
  simp [X690.der, he1, he2]

end

end Asn1
