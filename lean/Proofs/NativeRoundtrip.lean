/-
  Proofs.NativeRoundtrip — native decoder ∘ native encoder is the identity on abstract content.
-/
import Asn1.Native
import Proofs.NativeText

namespace Asn1.Native

theorem hasType_absent : (t : Ty) → HasType t .absent = false
  | .tagged _ _ _ t => by simpa [HasType] using hasType_absent t
  | .prim p => by cases p <;> simp [HasType]
  | .seq _ => by simp [HasType]
  | .set _ => by simp [HasType]
  | .seqOf _ => by simp [HasType]
  | .setOf _ => by simp [HasType]
  | .choice _ => by simp [HasType]
  | .any => by simp [HasType]


theorem allOk_map_rt {α β : Type} (f : α → Except Err β) (g : β → Except Err α) (xs : List α)
    (h : ∀ x ∈ xs, ∃ y, f x = .ok y ∧ g y = .ok x) :
    ∃ ys, allOk (xs.map f) = .ok ys ∧ allOk (ys.map g) = .ok xs := by
  induction xs with
  | nil => exact ⟨[], rfl, rfl⟩
  | cons x r ih =>
    obtain ⟨y, hy, gy⟩ := h x (by simp)
    obtain ⟨ys, hys, gys⟩ := ih (fun x hx => h x (by simp [hx]))
    refine ⟨y :: ys, ?_, ?_⟩
    · simp [List.map, allOk, hy, hys, Except.map]
    · simp [List.map, allOk, gy, gys, Except.map]

theorem lookupKey_cons_ne {i k : Nat} (p : PyVal) (kvs : List (Nat × PyVal)) (h : k ≠ i) :
    lookupKey i ((k, p) :: kvs) = lookupKey i kvs := by
  simp [lookupKey, h]

theorem lookupKey_cons_self (i : Nat) (p : PyVal) (kvs : List (Nat × PyVal)) :
    lookupKey i ((i, p) :: kvs) = some p := by
  simp [lookupKey]

/-- keys produced for the members from position `i` on are all `≥ i` -/
theorem lookup_toNativeFields_lt : (fs : Fields) → ∀ (i : Nat) (vs : List Val) (kvs : List (Nat × PyVal)) (j : Nat),
    toNativeFields fs i vs = .ok kvs → j < i → lookupKey j kvs = none
  | .nil, i, vs, kvs, j, h, _ => by
    simp only [toNativeFields] at h
    split at h
    · cases h; rfl
    · cases h
  | .cons k t rest, i, vs, kvs, j, h, hj => by
    cases vs with
    | nil => simp [toNativeFields] at h
    | cons v vs' =>
      simp only [toNativeFields] at h
      split at h
      · exact lookup_toNativeFields_lt rest (i + 1) vs' kvs j h (by omega)
      · split at h
        · cases h
        · cases hr : toNativeFields rest (i + 1) vs' with
          | error e => simp [hr, Except.map] at h
          | ok kvs' =>
            simp [hr, Except.map] at h
            subst h
            rw [lookupKey_cons_ne _ _ (by omega)]
            exact lookup_toNativeFields_lt rest (i + 1) vs' kvs' j hr (by omega)

/-- an entry with a smaller key is never looked at by the members from position `j` on -/
theorem fromNativeFields_cons_lt : (fs : Fields) → ∀ (j k : Nat) (p : PyVal) (kvs : List (Nat × PyVal)),
    k < j → fromNativeFields fs j ((k, p) :: kvs) = fromNativeFields fs j kvs
  | .nil, _, _, _, _, _ => by simp [fromNativeFields]
  | .cons kind t rest, j, k, p, kvs, h => by
    simp only [fromNativeFields, lookupKey_cons_ne p kvs (by omega : k ≠ j),
      fromNativeFields_cons_lt rest (j + 1) k p kvs (by omega)]


theorem firstAlt_cons_some (r : Except Err Val) (rest : List (Option (Except Err Val))) :
    firstAlt (some r :: rest) = r := rfl

mutual
/-- the native encoder never refuses a value of the type, and the native decoder reads its output
    back as the same abstract content -/
theorem rt : (t : Ty) → ∀ v, HasType t v = true →
    ∃ p, toNative t v = .ok p ∧ fromNative t p = .ok v
  | .tagged _ _ _ t, v, h => by
    simp only [HasType] at h
    simpa [toNative, fromNative] using rt t v h
  | .prim p, v, h => by
    cases p <;> cases v <;> simp [HasType] at h <;>
      simp [toNative, fromNative, parseBits_bitsText, parseOid_oidText, Except.map]
  | .seq fs, v, h => by
    cases v <;> simp [HasType] at h
    rename_i vs
    obtain ⟨kvs, h1, h2⟩ := rtFields fs 0 vs h
    exact ⟨.dict kvs, by simp [toNative, h1, Except.map], by simp [fromNative, h2, Except.map]⟩
  | .set fs, v, h => by
    cases v <;> simp [HasType] at h
    rename_i vs
    obtain ⟨kvs, h1, h2⟩ := rtFields fs 0 vs h
    exact ⟨.dict kvs, by simp [toNative, h1, Except.map], by simp [fromNative, h2, Except.map]⟩
  | .seqOf t, v, h => by
    cases v <;> simp [HasType] at h
    rename_i vs
    obtain ⟨ps, h1, h2⟩ := allOk_map_rt (toNative t) (fromNative t) vs (fun x hx => rt t x (h x hx))
    exact ⟨.list ps, by simp [toNative, h1, Except.map], by simp [fromNative, h2, Except.map]⟩
  | .setOf t, v, h => by
    cases v <;> simp [HasType] at h
    rename_i vs
    obtain ⟨ps, h1, h2⟩ := allOk_map_rt (toNative t) (fromNative t) vs (fun x hx => rt t x (h x hx))
    exact ⟨.list ps, by simp [toNative, h1, Except.map], by simp [fromNative, h2, Except.map]⟩
  | .choice fs, v, h => by
    cases v <;> simp [HasType] at h
    rename_i i w
    obtain ⟨p, h1, h2⟩ := rtAlt fs 0 i w h
    refine ⟨.dict [(0 + i, p)], by simp [toNative, h1, Except.map], ?_⟩
    simp only [fromNative, List.map, Nat.zero_add] at h2 ⊢
    rw [h2 i, firstAlt_cons_some]
  | .any, v, h => by
    cases v <;> simp [HasType] at h
    simp [toNative, fromNative]
theorem rtFields : (fs : Fields) → ∀ (i : Nat) (vs : List Val), HasFields fs vs = true →
    ∃ kvs, toNativeFields fs i vs = .ok kvs ∧ fromNativeFields fs i kvs = .ok vs
  | .nil, i, vs, h => by
    cases vs with
    | nil => exact ⟨[], by simp [toNativeFields], by simp [fromNativeFields]⟩
    | cons _ _ => simp [HasFields] at h
  | .cons k t rest, i, vs, h => by
    cases vs with
    | nil => cases k <;> simp [HasFields] at h
    | cons v vs' =>
      by_cases hskip : (k.isOpt && v.isAbsent) = true
      · -- an absent OPTIONAL member: no key
        have hk : k = .opt := by cases k <;> simp [FKind.isOpt] at hskip ⊢
        have hv : v = .absent := by cases v <;> simp [Val.isAbsent] at hskip ⊢
        subst hk; subst hv
        simp only [HasFields] at h
        obtain ⟨kvs, h1, h2⟩ := rtFields rest (i + 1) vs' h
        refine ⟨kvs, by simp [toNativeFields, FKind.isOpt, Val.isAbsent, h1], ?_⟩
        simp only [fromNativeFields, lookup_toNativeFields_lt rest (i + 1) vs' kvs i h1 (by omega), h2,
          Except.map]
      · have hh : HasType t v = true ∧ HasFields rest vs' = true := by
          cases k <;> cases v <;> simp_all [HasFields, FKind.isOpt, Val.isAbsent, hasType_absent]
        obtain ⟨p, hp1, hp2⟩ := rt t v hh.1
        obtain ⟨kvs, h1, h2⟩ := rtFields rest (i + 1) vs' hh.2
        refine ⟨(i, p) :: kvs, by simp [toNativeFields, hskip, hp1, h1, Except.map], ?_⟩
        simp only [fromNativeFields, lookupKey_cons_self, hp2,
          fromNativeFields_cons_lt rest (i + 1) i p kvs (by omega), h2, Except.map]
theorem rtAlt : (fs : Fields) → ∀ (pos i : Nat) (v : Val), HasAlt fs i v = true →
    ∃ p, toNativeAlt fs pos i v = .ok (pos + i, p) ∧
      ∀ idx, fromNativeAlt fs idx i p = some (.ok (.choice idx v))
  | .nil, _, _, _, h => by simp [HasAlt] at h
  | .cons _ t _, pos, 0, v, h => by
    simp only [HasAlt] at h
    obtain ⟨p, h1, h2⟩ := rt t v h
    exact ⟨p, by simp [toNativeAlt, h1, Except.map], fun idx => by simp [fromNativeAlt, h2, Except.map]⟩
  | .cons _ _ rest, pos, i + 1, v, h => by
    simp only [HasAlt] at h
    obtain ⟨p, h1, h2⟩ := rtAlt rest (pos + 1) i v h
    refine ⟨p, ?_, fun idx => by simp [fromNativeAlt, h2 idx]⟩
    simp only [toNativeAlt, h1]
    congr 2; omega
end

end Asn1.Native
