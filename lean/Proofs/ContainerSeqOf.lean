/-
  Proofs.ContainerSeqOf — SEQUENCE OF / SET OF objects refine the plain list prototype:
  on the canonical representation `ListSpec.rep typed s` of a prototype state every allowed operation
  of the object model does exactly what the prototype does (`step_rep`).
-/
import Asn1.Container
import Proofs.ContainerDict

namespace Asn1.Container
open ListSpec

variable {typed : Bool}

theorem rep_getD (s : St) :
    (rep typed s).comps.getD [] = enumFrom 0 ((s.getD []).map (comp typed)) := by
  cases s <;> simp [rep, enumFrom]

theorem len_rep (s : St) : SeqOf.len (rep typed s) = size s := by
  cases s with
  | none => simp [rep, SeqOf.len, size]
  | some l => simp [rep, SeqOf.len, size, dlen_enumFrom0]

theorem normIdx_rep (s : St) (i : Int) : SeqOf.normIdx (rep typed s) i = norm s i := by
  simp [SeqOf.normIdx, norm, len_rep]

theorem appendPos_rep (s : St) : SeqOf.appendPos (rep typed s) = size s := by
  cases s with
  | none => simp [rep, SeqOf.appendPos, size]
  | some l => simp [rep, SeqOf.appendPos, size, enumFrom_length]

theorem lookup_rep (s : St) (j : Nat) :
    (rep typed s).comps.bind (fun d => dget d j) = ((s.getD [])[j]?).map (comp typed) := by
  cases s with
  | none => simp [rep]
  | some l => simp [rep, dget_enumFrom0]

theorem comp_isHole_of_inv (x : Option Int) (h : typed = false → x ≠ none) :
    (comp typed x).isHole = false := by
  cases x with
  | some z => rfl
  | none =>
    cases typed with
    | true => rfl
    | false => exact absurd rfl (h rfl)

theorem inv_get {s : St} (hinv : Inv typed s) (ht : typed = false) (j : Nat) (x : Option Int)
    (h : (s.getD [])[j]? = some x) : x ≠ none := by
  cases s with
  | none => simp at h
  | some l =>
    exact hinv ht l rfl x (List.mem_of_getElem? h)

/-- assignment by position on the representation = assignment on the prototype -/
theorem setAt_rep (s : St) (i : Int) (a : Option Arg) (hinv : Inv typed s)
    (hal : match norm s i with
      | some j => (if a.isNone && !typed then size s ≤ j else j ≤ size s)
      | none => True) :
    SeqOf.setAt typed (rep typed s) i a = (ListSpec.setAt typed s i a).map (rep typed) := by
  unfold SeqOf.setAt ListSpec.setAt
  rw [normIdx_rep]
  cases hn : norm s i with
  | none => rfl
  | some j =>
    rw [hn] at hal
    simp only at hal
    simp only [rep_getD]
    have hcur : (dget (enumFrom 0 ((s.getD []).map (comp typed))) j) = ((s.getD [])[j]?).map (comp typed) := by
      simp [dget_enumFrom0]
    rw [hcur]
    -- the value stored
    have hval : SeqOf.coerce typed ((((s.getD [])[j]?).map (comp typed)).getD .hole) a
        = (value typed (s.getD [])[j]? a).map (comp typed) := by
      cases a with
      | none =>
        cases typed with
        | true => simp [SeqOf.coerce, value, comp, unset]
        | false =>
          simp only [Option.isNone_none, Bool.not_false, Bool.and_self, if_true] at hal
          have : (s.getD [])[j]? = none := by
            apply List.getElem?_eq_none; simpa [size] using hal
          simp [SeqOf.coerce, value, this, Comp.isHole]
      | some a =>
        cases a with
        | py z =>
          cases typed with
          | true => simp [SeqOf.coerce, value, comp]
          | false =>
            cases hx : (s.getD [])[j]? with
            | none => simp [SeqOf.coerce, value, Comp.isHole]
            | some x =>
              have hx' := inv_get hinv rfl j x hx
              cases x with
              | none => exact absurd rfl hx'
              | some y => simp [SeqOf.coerce, value, comp, Comp.isHole]
        | obj z => simp [SeqOf.coerce, value, comp]
        | bad => simp [SeqOf.coerce, value]
    rw [hval]
    cases hv : value typed (s.getD [])[j]? a with
    | none => rfl
    | some v =>
      simp only [Option.map_some]
      have hle : j ≤ (s.getD []).length := by
        cases a with
        | none =>
          cases typed with
          | true => simpa [size] using hal
          | false => simp [value] at hv
        | some _ => simpa [size] using hal
      congr 1
      by_cases hlt : j < (s.getD []).length
      · simp only [hlt, if_true, rep]
        have := dset_enumFrom_lt 0 j ((s.getD []).map (comp typed)) (comp typed v) (by simpa using hlt)
        simp only [Nat.zero_add] at this
        rw [this, List.map_set]
      · have hje : j = (s.getD []).length := by omega
        simp only [hlt, if_false, rep]
        have := dset_enumFrom_end 0 ((s.getD []).map (comp typed)) (comp typed v)
        simp only [Nat.zero_add, List.length_map] at this
        rw [hje, this, List.map_append]
        rfl


/-- what a successful assignment stores is a set element when there is no component type -/
theorem inv_setAt (s s' : St) (i : Int) (a : Option Arg) (hinv : Inv typed s)
    (h : ListSpec.setAt typed s i a = some s') : Inv typed s' := by
  intro ht l hl x hx
  unfold ListSpec.setAt at h
  cases hn : norm s i with
  | none => simp [hn] at h
  | some j =>
    simp only [hn] at h
    cases hv : value typed (s.getD [])[j]? a with
    | none => simp [hv] at h
    | some v =>
      simp only [hv, Option.some.injEq] at h
      have hvne : v ≠ none := by
        subst ht
        cases a with
        | none => simp [value] at hv
        | some a =>
          cases a with
          | py z => simp [value] at hv; rw [← hv.2]; simp
          | obj z => simp [value] at hv; rw [← hv]; simp
          | bad => simp [value] at hv
      have hold : ∀ y ∈ s.getD [], y ≠ none := by
        intro y hy
        cases s with
        | none => simp at hy
        | some l0 => exact hinv ht l0 rfl y hy
      subst h
      simp only [Option.some.injEq] at hl
      subst hl
      split at hx
      · rcases List.mem_or_eq_of_mem_set hx with h1 | h1
        · exact hold x h1
        · exact h1 ▸ hvne
      · simp only [List.mem_append, List.mem_singleton] at hx
        rcases hx with h1 | h1
        · exact hold x h1
        · exact h1 ▸ hvne

/-- reading a position on the representation -/
theorem getAt_rep (s : St) (i : Int) (inst : Bool) (hinv : Inv typed s)
    (hal : match norm s i with
      | some j => (!typed || !inst || j ≤ size s) = true
      | none => True) :
    SeqOf.getAt typed (rep typed s) i inst =
      ((rep typed (ListSpec.getAt typed s i inst).1), (ListSpec.getAt typed s i inst).2) := by
  unfold SeqOf.getAt ListSpec.getAt
  rw [normIdx_rep]
  cases hn : norm s i with
  | none => rfl
  | some j =>
    rw [hn] at hal
    simp only at hal
    simp only [lookup_rep]
    cases hx : (s.getD [])[j]? with
    | some x => simp
    | none =>
      simp only [Option.map_none]
      cases inst with
      | false => simp
      | true =>
        simp only [Bool.not_true, Bool.false_eq_true, if_false]
        have hge : (s.getD []).length ≤ j := by
          rcases Nat.lt_or_ge j (s.getD []).length with h | h
          · simp [List.getElem?_eq_getElem h] at hx
          · exact h
        cases typed with
        | false =>
          -- no component type: nothing to instantiate
          have : SeqOf.setAt false (rep false s) (j : Int) none = none := by
            have hnj : norm s (j : Int) = some j := by simp [norm]
            rw [setAt_rep s (j : Int) none hinv (by rw [hnj]; simpa [size] using hge)]
            simp [ListSpec.setAt, hnj, value]
          simp [this]
        | true =>
          simp only [Bool.not_true, Bool.not_false, Bool.false_or, Bool.true_or, decide_eq_true_eq] at hal
          have hje : j = (s.getD []).length := by simp only [size] at hal; omega
          have hnj : norm s (j : Int) = some j := by simp [norm]
          have hset : ListSpec.setAt true s (j : Int) none = some (some ((s.getD []) ++ [none])) := by
            simp only [ListSpec.setAt, hnj, value, if_true, hx]
            simp [hje]
          rw [setAt_rep s (j : Int) none hinv (by rw [hnj]; simp [size, hje]), hset]
          simp only [Option.map_some, Bool.true_and, beq_iff_eq, hje, if_true]
          have := lookup_rep (typed := true) (some ((s.getD []) ++ [none])) (s.getD []).length
          simp only [Option.getD_some, List.getElem?_append_right (Nat.le_refl _), Nat.sub_self,
            List.getElem?_cons_zero, Option.map_some] at this
          rw [this]
          simp [comp, unset]

/-- reading existing positions one after the other changes nothing and returns the elements -/
theorem getMany_rep (s : St) (hinv : Inv typed s) (ks : List Nat) (hks : ∀ k ∈ ks, k < size s) :
    SeqOf.getMany typed (rep typed s) ks =
      (rep typed s, some ((ks.filterMap fun k => (s.getD [])[k]?).map (comp typed))) := by
  induction ks with
  | nil => rfl
  | cons k ks ih =>
    have hk : k < size s := hks k (List.mem_cons_self)
    have hnk : norm s (k : Int) = some k := by simp [norm]
    obtain ⟨x, hx⟩ : ∃ x, (s.getD [])[k]? = some x :=
      ⟨_, List.getElem?_eq_getElem (show k < (s.getD []).length by simpa [size] using hk)⟩
    have hget : SeqOf.getAt typed (rep typed s) (k : Int) true = (rep typed s, .comp (comp typed x)) := by
      rw [getAt_rep s (k : Int) true hinv (by rw [hnk]; simp; exact .inr (Nat.le_of_lt hk))]
      simp [ListSpec.getAt, hnk, hx]
    simp only [SeqOf.getMany, hget, ih (fun k' h' => hks k' (List.mem_cons_of_mem _ h'))]
    simp [hx]

theorem filterMap_range_get {α} (l : List α) : (List.range l.length).filterMap (fun k => l[k]?) = l := by
  induction l with
  | nil => rfl
  | cons a l ih =>
    rw [List.length_cons, List.range_succ_eq_map, List.filterMap_cons]
    simp only [List.getElem?_cons_zero, List.filterMap_map]
    have : ((fun k => (a :: l)[k]?) ∘ Nat.succ) = (fun k => l[k]?) := by
      funext k; simp
    rw [this, ih]

theorem iter_rep (s : St) (hinv : Inv typed s) :
    SeqOf.getMany typed (rep typed s) (List.range (SeqOf.len (rep typed s))) =
      (rep typed s, some ((s.getD []).map (comp typed))) := by
  rw [len_rep, getMany_rep s hinv _ (by intro k hk; simpa using hk)]
  simp only [size, filterMap_range_get]


theorem size_setAt (s s' : St) (k : Nat) (a : Option Arg) (hle : k ≤ size s)
    (h : ListSpec.setAt typed s (k : Int) a = some s') : k + 1 ≤ size s' := by
  have hn : norm s (k : Int) = some k := by simp [norm]
  unfold ListSpec.setAt at h
  simp only [hn] at h
  cases hv : value typed (s.getD [])[k]? a with
  | none => simp [hv] at h
  | some v =>
    simp only [hv, Option.some.injEq] at h
    subst h
    simp only [size, Option.getD_some] at hle ⊢
    split
    · simp; omega
    · simp; omega

theorem setMany_rep (s : St) (k : Nat) (as : List Arg) (hinv : Inv typed s) (hk : k ≤ size s) :
    SeqOf.setMany typed (rep typed s) k as =
      (rep typed (ListSpec.setMany typed s k as).1, (ListSpec.setMany typed s k as).2) ∧
    Inv typed (ListSpec.setMany typed s k as).1 := by
  induction as generalizing s k with
  | nil => exact ⟨rfl, hinv⟩
  | cons a as ih =>
    have hn : norm s (k : Int) = some k := by simp [norm]
    have hset := setAt_rep s (k : Int) (some a) hinv (by rw [hn]; simpa using hk)
    simp only [SeqOf.setMany, ListSpec.setMany, hset]
    cases h : ListSpec.setAt typed s (k : Int) (some a) with
    | none => exact ⟨rfl, hinv⟩
    | some s' =>
      simp only [Option.map_some]
      exact ih s' (k + 1) (inv_setAt s s' _ _ hinv h) (size_setAt s s' k _ hk h)

theorem appendMany_rep (s : St) (as : List Arg) (hinv : Inv typed s) :
    SeqOf.appendMany typed (rep typed s) as =
      (rep typed (ListSpec.appendMany typed s as).1, (ListSpec.appendMany typed s as).2) ∧
    Inv typed (ListSpec.appendMany typed s as).1 := by
  induction as generalizing s with
  | nil => exact ⟨rfl, hinv⟩
  | cons a as ih =>
    have hn : norm s (size s : Int) = some (size s) := by simp [norm]
    have hset := setAt_rep s (size s : Int) (some a) hinv (by rw [hn]; simp)
    simp only [SeqOf.appendMany, ListSpec.appendMany, appendPos_rep, hset]
    cases h : ListSpec.setAt typed s (size s : Int) (some a) with
    | none => exact ⟨rfl, hinv⟩
    | some s' =>
      simp only [Option.map_some]
      exact ih s' (inv_setAt s s' _ _ hinv h)

theorem allVals_map_comp (l : List (Option Int)) : SeqOf.allVals (l.map (comp typed)) = allSet l := by
  induction l with
  | nil => rfl
  | cons x l ih =>
    cases x with
    | some z => simp [SeqOf.allVals, allSet, comp, ih]
    | none => cases typed <;> simp [SeqOf.allVals, allSet, comp, unset]

theorem indexIn_map_comp (z : Int) (l : List (Option Int)) (k : Nat) :
    SeqOf.indexIn z (l.map (comp typed)) k = indexOf z l k := by
  induction l generalizing k with
  | nil => rfl
  | cons x l ih =>
    cases x with
    | some y => simp [SeqOf.indexIn, indexOf, comp, ih]
    | none => cases typed <;> simp [SeqOf.indexIn, indexOf, comp, unset]

theorem eqItems_map_comp (vs : List Int) (l : List (Option Int)) :
    SeqOf.eqItems vs (l.map (comp typed)) = ListSpec.eqItems vs l := by
  induction l generalizing vs with
  | nil => cases vs <;> rfl
  | cons x l ih =>
    cases vs with
    | nil => rfl
    | cons v vs =>
      cases x with
      | some y => simp [SeqOf.eqItems, ListSpec.eqItems, comp, ih]
      | none => cases typed <;> simp [SeqOf.eqItems, ListSpec.eqItems, comp, unset]

theorem indexOf_lt (z : Int) (l : List (Option Int)) (k r : Nat) (h : indexOf z l k = some r) :
    k ≤ r ∧ r < k + l.length := by
  induction l generalizing k with
  | nil => simp [indexOf] at h
  | cons x l ih =>
    cases x with
    | none => simp [indexOf] at h
    | some y =>
      simp only [indexOf] at h
      split at h
      · simp only [Option.some.injEq] at h; subst h; simp
      · have := ih (k + 1) h
        simp only [List.length_cons]; omega

theorem enumFrom_fst_get {α} (j i : Nat) (cs : List α) (h : i < cs.length) :
    ((enumFrom j cs).map (·.1)).getD i 0 = j + i := by
  induction cs generalizing j i with
  | nil => simp at h
  | cons c cs ih =>
    cases i with
    | zero => simp [enumFrom]
    | succ i =>
      simp only [enumFrom, List.map_cons, List.getD_cons_succ]
      rw [ih (j + 1) i (by simpa using h)]
      omega

theorem containsFrom_rep (s : St) (hinv : Inv typed s) (z : Int) (ks : List Nat)
    (hks : ∀ k ∈ ks, k < size s) :
    SeqOf.containsFrom typed z (rep typed s) ks =
      (rep typed s, containsIn z (ks.filterMap fun k => (s.getD [])[k]?)) := by
  induction ks with
  | nil => rfl
  | cons k ks ih =>
    have hk : k < size s := hks k (List.mem_cons_self)
    have hnk : norm s (k : Int) = some k := by simp [norm]
    obtain ⟨x, hx⟩ : ∃ x, (s.getD [])[k]? = some x :=
      ⟨_, List.getElem?_eq_getElem (show k < (s.getD []).length by simpa [size] using hk)⟩
    have hget : SeqOf.getAt typed (rep typed s) (k : Int) true = (rep typed s, .comp (comp typed x)) := by
      rw [getAt_rep s (k : Int) true hinv (by rw [hnk]; simp; exact .inr (Nat.le_of_lt hk))]
      simp [ListSpec.getAt, hnk, hx]
    have ih' := ih (fun k' h' => hks k' (List.mem_cons_of_mem _ h'))
    simp only [SeqOf.containsFrom, hget, List.filterMap_cons, hx]
    cases x with
    | some y =>
      simp only [comp, containsIn]
      split
      · rfl
      · exact ih'
    | none => cases typed <;> simp [comp, unset, containsIn]

theorem encIter_rep (s : St) (hinv : Inv typed s) (ks : List Nat) (hks : ∀ k ∈ ks, k < size s) :
    SeqOf.encIter typed (rep typed s) ks = rep typed s := by
  induction ks with
  | nil => rfl
  | cons k ks ih =>
    have hk : k < size s := hks k (List.mem_cons_self)
    have hnk : norm s (k : Int) = some k := by simp [norm]
    obtain ⟨x, hx⟩ : ∃ x, (s.getD [])[k]? = some x :=
      ⟨_, List.getElem?_eq_getElem (show k < (s.getD []).length by simpa [size] using hk)⟩
    have hget : SeqOf.getAt typed (rep typed s) (k : Int) true = (rep typed s, .comp (comp typed x)) := by
      rw [getAt_rep s (k : Int) true hinv (by rw [hnk]; simp; exact .inr (Nat.le_of_lt hk))]
      simp [ListSpec.getAt, hnk, hx]
    have ih' := ih (fun k' h' => hks k' (List.mem_cons_of_mem _ h'))
    simp only [SeqOf.encIter, hget]
    cases x with
    | some y => simpa [comp] using ih'
    | none => cases typed <;> simp [comp, unset]

theorem all_isVal_map_comp (l : List (Option Int)) :
    (l.map (comp typed)).all Comp.isVal = l.all (·.isSome) := by
  induction l with
  | nil => rfl
  | cons x l ih =>
    simp only [List.map_cons, List.all_cons, ih]
    cases x with
    | some z => simp [comp, Comp.isVal]
    | none => cases typed <;> simp [comp, unset, Comp.isVal]

theorem all_snd_enumFrom {α} (p : α → Bool) (k : Nat) (cs : List α) :
    (enumFrom k cs).all (fun kv => p kv.2) = cs.all p := by
  induction cs generalizing k with
  | nil => rfl
  | cons c cs ih => simp [enumFrom, ih]

theorem isValue_rep (s : St) : SeqOf.isValue (rep typed s) = ListSpec.isValue s := by
  cases s with
  | none => rfl
  | some l =>
    simp only [rep, SeqOf.isValue, ListSpec.isValue, enumFrom_length, dlen_enumFrom0, beq_self_eq_true, Bool.true_and]
    rw [all_snd_enumFrom Comp.isVal, all_isVal_map_comp]


theorem sliceRange_lt (n : Nat) (a b : Option Int) : ∀ k ∈ sliceRange n a b, k < n := by
  intro k hk
  unfold sliceRange at hk
  simp only [List.mem_range'_1] at hk
  have he : clampIdx n n b ≤ n := by
    unfold clampIdx
    cases b with
    | none => exact Nat.le_refl _
    | some i =>
      simp only
      split
      · omega
      · exact Nat.min_le_right _ _
  omega

theorem filter_nonhole_enumFrom (l : List (Option Int)) (hl : ∀ x ∈ l, typed = false → x ≠ none) :
    (enumFrom 0 (l.map (comp typed))).filter (fun kv => !kv.2.isHole) = enumFrom 0 (l.map (comp typed)) := by
  rw [List.filter_eq_self]
  intro kv hkv
  have : kv.2 ∈ l.map (comp typed) := by
    have := List.mem_map_of_mem (f := (·.2)) hkv
    rwa [enumFrom_map_snd] at this
  obtain ⟨x, hx, hxe⟩ := List.mem_map.mp this
  rw [← hxe, comp_isHole_of_inv x (hl x hx)]
  rfl

/-- **one step**: on the representation of a prototype state, every allowed operation of the object
    model returns what the prototype returns and ends in the representation of the prototype's
    next state; the prototype invariant is kept -/
theorem step_rep (s : St) (op : SeqOfOp) (hinv : Inv typed s) (hal : Allowed typed s op = true) :
    SeqOf.step typed (rep typed s) op =
      (rep typed (ListSpec.step typed s op).1, (ListSpec.step typed s op).2) ∧
    Inv typed (ListSpec.step typed s op).1 := by
  cases op with
  | setItem i a =>
    have h := setAt_rep s i (some a) hinv (by
      simp only [Allowed] at hal
      cases hn : norm s i with
      | none => trivial
      | some j => simp only [hn] at hal; simpa using hal)
    simp only [SeqOf.step, ListSpec.step, h]
    cases h' : ListSpec.setAt typed s i (some a) with
    | none => exact ⟨by first | rfl | trivial, hinv⟩
    | some s' => exact ⟨by first | rfl | trivial, inv_setAt s s' _ _ hinv h'⟩
  | setPos i a =>
    have h := setAt_rep s i (some a) hinv (by
      simp only [Allowed] at hal
      cases hn : norm s i with
      | none => trivial
      | some j => simp only [hn] at hal; simpa using hal)
    simp only [SeqOf.step, ListSpec.step, h]
    cases h' : ListSpec.setAt typed s i (some a) with
    | none => exact ⟨by first | rfl | trivial, hinv⟩
    | some s' => exact ⟨by first | rfl | trivial, inv_setAt s s' _ _ hinv h'⟩
  | setNone i =>
    have h := setAt_rep s i none hinv (by
      simp only [Allowed] at hal
      cases hn : norm s i with
      | none => trivial
      | some j =>
        simp only [hn] at hal
        cases typed <;> simpa using hal)
    simp only [SeqOf.step, ListSpec.step, h]
    cases h' : ListSpec.setAt typed s i none with
    | none => exact ⟨by first | rfl | trivial, hinv⟩
    | some s' => exact ⟨by first | rfl | trivial, inv_setAt s s' _ _ hinv h'⟩
  | append a =>
    have hn : norm s (size s : Int) = some (size s) := by simp [norm]
    have h := setAt_rep s (size s : Int) (some a) hinv (by rw [hn]; simp)
    simp only [SeqOf.step, ListSpec.step, appendPos_rep, h]
    cases h' : ListSpec.setAt typed s (size s : Int) (some a) with
    | none => exact ⟨by first | rfl | trivial, hinv⟩
    | some s' => exact ⟨by first | rfl | trivial, inv_setAt s s' _ _ hinv h'⟩
  | extend as =>
    obtain ⟨h, hi⟩ := appendMany_rep s as hinv
    simp only [SeqOf.step, ListSpec.step, h]
    cases hb : (ListSpec.appendMany typed s as).2 with
    | false =>
      rw [show ListSpec.appendMany typed s as = ((ListSpec.appendMany typed s as).1, false) from by rw [← hb]]
      exact ⟨by first | rfl | trivial, hi⟩
    | true =>
      rw [show ListSpec.appendMany typed s as = ((ListSpec.appendMany typed s as).1, true) from by rw [← hb]]
      refine ⟨?_, ?_⟩
      · simp only [rep_getD]
        cases (ListSpec.appendMany typed s as).1 <;> simp [rep, enumFrom]
      · intro ht l hl x hx
        simp only [Option.some.injEq] at hl
        subst hl
        cases hs : (ListSpec.appendMany typed s as).1 with
        | none => simp [hs] at hx
        | some l0 => rw [hs] at hx hi; exact hi ht l0 rfl x (by simpa using hx)
  | setSlice a b as =>
    simp only [SeqOf.step, ListSpec.step, len_rep]
    cases hst : (if size s = 0 then some 0 else (sliceRange (size s) a b).head?) with
    | none => exact ⟨by first | rfl | trivial, hinv⟩
    | some start =>
      have hstart : start ≤ size s := by
        by_cases h0 : size s = 0
        · simp only [h0, if_true, Option.some.injEq] at hst; omega
        · simp only [h0, if_false] at hst
          have := sliceRange_lt (size s) a b start (List.mem_of_head? hst)
          omega
      obtain ⟨h, hi⟩ := setMany_rep s start as hinv hstart
      simp only [h]
      cases hb : (ListSpec.setMany typed s start as).2 with
      | false =>
        rw [show ListSpec.setMany typed s start as = ((ListSpec.setMany typed s start as).1, false) from by rw [← hb]]
        exact ⟨by first | rfl | trivial, hi⟩
      | true =>
        rw [show ListSpec.setMany typed s start as = ((ListSpec.setMany typed s start as).1, true) from by rw [← hb]]
        exact ⟨by first | rfl | trivial, hi⟩
  | sort =>
    cases s with
    | none => exact ⟨by first | rfl | trivial, hinv⟩
    | some l =>
      simp only [SeqOf.step, ListSpec.step, rep, enumFrom_map_snd, List.length_map]
      by_cases h1 : l.length ≤ 1
      · simp only [h1, if_true]; exact ⟨by first | rfl | trivial, hinv⟩
      · simp only [h1, if_false, allVals_map_comp]
        cases hz : allSet l with
        | none => exact ⟨by first | rfl | trivial, hinv⟩
        | some zs =>
          refine ⟨?_, ?_⟩
          · simp only [rep, List.map_map]
            congr
          · intro _ l' hl' x hx
            simp only [Option.some.injEq] at hl'
            subst hl'
            simp only [List.mem_map] at hx
            obtain ⟨z, _, rfl⟩ := hx
            simp
  | reverse =>
    cases s with
    | none => exact ⟨by first | rfl | trivial, hinv⟩
    | some l =>
      simp only [SeqOf.step, ListSpec.step, rep, dcomponents_enumFrom, List.map_reverse]
      refine ⟨by first | rfl | trivial, ?_⟩
      intro ht l' hl' x hx
      simp only [Option.some.injEq] at hl'
      subst hl'
      exact hinv ht l rfl x (by simpa using hx)
  | clear =>
    refine ⟨rfl, ?_⟩
    intro _ l hl x hx
    have : l = [] := by simpa [ListSpec.step] using hl.symm
    subst this
    simp at hx
  | reset =>
    refine ⟨rfl, ?_⟩
    intro _ l hl
    simp [ListSpec.step] at hl
  | clone flag =>
    cases flag with
    | false => exact ⟨by first | rfl | trivial, by intro _ l hl; simp [ListSpec.step] at hl⟩
    | true =>
      cases s with
      | none => exact ⟨by first | rfl | trivial, hinv⟩
      | some l =>
        simp only [SeqOf.step, ListSpec.step, rep, Bool.not_true, Bool.false_eq_true, if_false, if_true]
        rw [filter_nonhole_enumFrom l (fun x hx ht => hinv ht l rfl x hx)]
        exact ⟨by first | rfl | trivial, hinv⟩
  | len => simp only [SeqOf.step, ListSpec.step, len_rep]; exact ⟨by first | rfl | trivial, hinv⟩
  | iter =>
    simp only [SeqOf.step, ListSpec.step, iter_rep s hinv]; exact ⟨by first | rfl | trivial, hinv⟩
  | contains z =>
    simp only [SeqOf.step, ListSpec.step, len_rep]
    rw [containsFrom_rep s hinv z _ (by intro k hk; simpa using hk)]
    simp only [size, filterMap_range_get]
    exact ⟨by first | rfl | trivial, hinv⟩
  | getItem i =>
    have h := getAt_rep s i true hinv (by
      simp only [Allowed] at hal
      cases hn : norm s i with
      | none => trivial
      | some j => simp only [hn] at hal; simpa using hal)
    simp only [SeqOf.step, ListSpec.step, h]
    refine ⟨by first | rfl | trivial, ?_⟩
    -- the only state change of a read is the documented append of an unset element (typed)
    unfold ListSpec.getAt
    cases norm s i with
    | none => exact hinv
    | some j =>
      simp only
      cases (s.getD [])[j]? with
      | some x => exact hinv
      | none =>
        simp only [Bool.not_true, Bool.false_eq_true, if_false]
        split
        · intro ht; rename_i h; simp [ht] at h
        · exact hinv
  | getPos i inst =>
    have h := getAt_rep s i inst hinv (by
      simp only [Allowed] at hal
      cases hn : norm s i with
      | none => trivial
      | some j => simp only [hn] at hal; simpa using hal)
    simp only [SeqOf.step, ListSpec.step, h]
    refine ⟨by first | rfl | trivial, ?_⟩
    unfold ListSpec.getAt
    cases norm s i with
    | none => exact hinv
    | some j =>
      simp only
      cases (s.getD [])[j]? with
      | some x => exact hinv
      | none =>
        simp only
        split
        · exact hinv
        · split
          · intro ht; rename_i h; simp [ht] at h
          · exact hinv
  | getSlice a b =>
    simp only [SeqOf.step, ListSpec.step, len_rep]
    rw [getMany_rep s hinv _ (sliceRange_lt (size s) a b)]
    exact ⟨by first | rfl | trivial, hinv⟩
  | count z =>
    cases s with
    | none => exact ⟨by first | rfl | trivial, hinv⟩
    | some l =>
      simp only [SeqOf.step, ListSpec.step, rep, enumFrom_map_snd, allVals_map_comp]
      cases allSet l <;> exact ⟨by first | rfl | trivial, hinv⟩
  | index z =>
    cases s with
    | none => exact ⟨by first | rfl | trivial, hinv⟩
    | some l =>
      simp only [SeqOf.step, ListSpec.step, rep, enumFrom_map_snd, indexIn_map_comp]
      cases hk : indexOf z l 0 with
      | none => exact ⟨by first | rfl | trivial, hinv⟩
      | some k =>
        have := indexOf_lt z l 0 k hk
        simp only
        rw [enumFrom_fst_get 0 k _ (by simpa using this.2)]
        simp only [Nat.zero_add]
        exact ⟨by first | rfl | trivial, hinv⟩
  | pretty =>
    simp only [SeqOf.step, ListSpec.step, isValue_rep]
    cases ListSpec.isValue s with
    | false => exact ⟨by first | rfl | trivial, hinv⟩
    | true => simp only [if_true, iter_rep s hinv]; exact ⟨by first | rfl | trivial, hinv⟩
  | eqTo vs =>
    cases s with
    | none => exact ⟨by first | rfl | trivial, hinv⟩
    | some l =>
      simp only [SeqOf.step, ListSpec.step, rep, dcomponents_enumFrom, List.length_map, eqItems_map_comp]
      exact ⟨by first | rfl | trivial, hinv⟩
  | encode =>
    simp only [SeqOf.step, ListSpec.step, len_rep]
    rw [encIter_rep s hinv _ (by intro k hk; simpa using hk)]
    exact ⟨by first | rfl | trivial, hinv⟩

/-- **SEQUENCE OF / SET OF refines the list prototype**: along any history of allowed operations,
    started from any prototype state, the object model returns the prototype's results step by step
    and ends in the representation of the prototype's final state -/
theorem run_rep (s : St) (ops : List SeqOfOp) (hinv : Inv typed s) (hal : AllowedRun typed s ops) :
    SeqOf.run typed (rep typed s) ops =
      (rep typed (ListSpec.run typed s ops).1, (ListSpec.run typed s ops).2) := by
  induction ops generalizing s with
  | nil => rfl
  | cons op ops ih =>
    obtain ⟨h1, h2⟩ := hal
    obtain ⟨hs, hi⟩ := step_rep s op hinv h1
    simp only [SeqOf.run, ListSpec.run, hs]
    rw [ih _ hi h2]


/-! ### ill-formed operations and readers, on the prototype -/

theorem spec_illformed (s : St) (op : SeqOfOp) (h : illFormed typed s op = true)
    (hal : Allowed typed s op = true) :
    (ListSpec.step typed s op).2.isErr = true ∧ (ListSpec.step typed s op).1 = s := by
  cases op with
  | setItem i a =>
    simp only [illFormed] at h
    simp only [ListSpec.step, ListSpec.setAt]
    cases hn : norm s i with
    | none => exact ⟨by first | rfl | trivial | simp [Out.isErr], by first | rfl | trivial⟩
    | some j =>
      simp only [hn, Bool.and_eq_true, Option.isNone_iff_eq_none] at h
      simp only [h.2]; exact ⟨by first | rfl | trivial | simp [Out.isErr], by first | rfl | trivial⟩
  | setPos i a =>
    simp only [illFormed] at h
    simp only [ListSpec.step, ListSpec.setAt]
    cases hn : norm s i with
    | none => exact ⟨by first | rfl | trivial | simp [Out.isErr], by first | rfl | trivial⟩
    | some j =>
      simp only [hn, Bool.and_eq_true, Option.isNone_iff_eq_none] at h
      simp only [h.2]; exact ⟨by first | rfl | trivial | simp [Out.isErr], by first | rfl | trivial⟩
  | setNone i =>
    simp only [illFormed] at h
    simp only [ListSpec.step, ListSpec.setAt]
    cases hn : norm s i with
    | none => exact ⟨by first | rfl | trivial | simp [Out.isErr], by first | rfl | trivial⟩
    | some j =>
      simp only [hn, Bool.and_eq_true, Bool.not_eq_true'] at h
      simp only [value, h.1, Bool.false_eq_true, if_false]; exact ⟨by first | rfl | trivial | simp [Out.isErr], by first | rfl | trivial⟩
  | append a =>
    simp only [illFormed, Option.isNone_iff_eq_none] at h
    have hn : norm s (size s : Int) = some (size s) := by simp [norm]
    have hx : (s.getD [])[size s]? = none := by simp [size]
    simp only [ListSpec.step, ListSpec.setAt, hn, hx, h]; exact ⟨by first | rfl | trivial | simp [Out.isErr], by first | rfl | trivial⟩
  | extend as =>
    cases as with
    | nil => simp [illFormed] at h
    | cons a as =>
      simp only [illFormed, Option.isNone_iff_eq_none] at h
      have hn : norm s (size s : Int) = some (size s) := by simp [norm]
      have hx : (s.getD [])[size s]? = none := by simp [size]
      simp only [ListSpec.step, ListSpec.appendMany, ListSpec.setAt, hn, hx, h]; exact ⟨by first | rfl | trivial | simp [Out.isErr], by first | rfl | trivial⟩
  | setSlice a b as =>
    simp only [illFormed] at h
    simp only [ListSpec.step]
    cases hst : (if size s = 0 then some 0 else (sliceRange (size s) a b).head?) with
    | none => exact ⟨by first | rfl | trivial | simp [Out.isErr], by first | rfl | trivial⟩
    | some k =>
      rw [hst] at h
      cases as with
      | nil => simp at h
      | cons x xs =>
        simp only [Option.isNone_iff_eq_none] at h
        have hn : norm s (k : Int) = some k := by simp [norm]
        simp only [ListSpec.setMany, ListSpec.setAt, hn, h]; exact ⟨by first | rfl | trivial | simp [Out.isErr], by first | rfl | trivial⟩
  | getItem i =>
    simp only [illFormed] at h
    simp only [Allowed] at hal
    simp only [ListSpec.step, ListSpec.getAt]
    cases hn : norm s i with
    | none => exact ⟨by first | rfl | trivial | simp [Out.isErr], by first | rfl | trivial⟩
    | some j =>
      simp only [hn, Bool.and_eq_true, Option.isNone_iff_eq_none, Bool.or_eq_true, Bool.not_eq_true',
        decide_eq_true_eq] at h hal
      simp only [h.1, Bool.not_true, Bool.false_eq_true, if_false]
      rcases h.2 with ht | hlt
      · simp [ht, Out.asLookup, Out.isErr]
      · rcases hal with ht | hle
        · simp [ht, Out.asLookup, Out.isErr]
        · omega
  | getPos i inst =>
    cases inst with
    | false => simp [illFormed] at h
    | true =>
      simp only [illFormed] at h
      simp only [Allowed] at hal
      simp only [ListSpec.step, ListSpec.getAt]
      cases hn : norm s i with
      | none => exact ⟨by first | rfl | trivial | simp [Out.isErr], by first | rfl | trivial⟩
      | some j =>
        simp only [hn, Bool.and_eq_true, Option.isNone_iff_eq_none, Bool.or_eq_true, Bool.not_eq_true',
          decide_eq_true_eq, Bool.not_true, Bool.false_eq_true, false_or] at h hal
        simp only [h.1, Bool.not_true, Bool.false_eq_true, if_false]
        rcases h.2 with ht | hlt
        · simp [ht, Out.isErr]
        · have hne : ¬ (typed = true ∧ j = (s.getD []).length) := by
            intro hc; simp only [size] at hlt; omega
          simp [hne, Out.isErr]
  | sort | reverse | clear | reset | clone _ | len | iter | contains _ | getSlice _ _ | count _ | index _
    | pretty | eqTo _ | encode => simp [illFormed] at h

theorem spec_reader (s : St) (op : SeqOfOp) (h : isReader typed s op = true) :
    (ListSpec.step typed s op).1 = s := by
  cases op with
  | getItem i =>
    simp only [isReader] at h
    simp only [ListSpec.step, ListSpec.getAt]
    cases hn : norm s i with
    | none => rfl
    | some j =>
      simp only [hn, decide_eq_true_eq] at h
      have : j < (s.getD []).length := by simpa [size] using h
      simp [List.getElem?_eq_getElem this]
  | getPos i inst =>
    cases inst with
    | false =>
      simp only [ListSpec.step, ListSpec.getAt]
      cases norm s i with
      | none => rfl
      | some j => simp only; cases (s.getD [])[j]? <;> rfl
    | true =>
      simp only [isReader] at h
      simp only [ListSpec.step, ListSpec.getAt]
      cases hn : norm s i with
      | none => rfl
      | some j =>
        simp only [hn, decide_eq_true_eq] at h
        have : j < (s.getD []).length := by simpa [size] using h
        simp [List.getElem?_eq_getElem this]
  | count z =>
    simp only [ListSpec.step]
    cases s with
    | none => rfl
    | some l => simp only; cases allSet l <;> rfl
  | index z =>
    simp only [ListSpec.step]
    cases s with
    | none => rfl
    | some l => simp only; cases indexOf z l 0 <;> rfl
  | eqTo vs =>
    simp only [ListSpec.step]
    cases s <;> rfl
  | len | iter | contains _ | getSlice _ _ | pretty | encode => rfl
  | setItem _ _ | setPos _ _ | setNone _ | append _ | extend _ | setSlice _ _ _ | sort | reverse | clear
    | reset | clone _ => simp [isReader] at h

end Asn1.Container
