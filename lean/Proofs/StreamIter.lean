/-
  Proofs.StreamIter — the streaming decoder (`iterP` over `parseP`) on a stream of well-formed
  elements: it never uses `readAll` (so the schedule theorem applies), and on the complete input
  it yields the elements one by one, each ending where its encoding ends, then stops.
  Also: without a cache drop the wrapped kind behaves like the seekable kind.
-/
import Proofs.StreamParse

namespace Asn1.Stream

variable {ε α β : Type}

/-! ### the framing programs never read "whatever is there" -/

theorem noReadAll_tagNumP : ∀ (tf acc : Nat) (hb : Bytes),
    (tagNumP tf acc hb : Prog ε (Nat × Bytes)).NoReadAll
  | 0, _, _ => trivial
  | tf + 1, acc, hb => by
    simp only [tagNumP, Prog.NoReadAll]
    intro b
    split
    · split
      · trivial
      · exact noReadAll_tagNumP tf _ _
    · trivial

theorem noReadAll_tagP (tf : Nat) : (tagP tf : Prog ε (Tag × Bytes)).NoReadAll := by
  simp only [tagP, Prog.NoReadAll]
  intro b
  split
  · split
    · exact noReadAll_bind _ _ (noReadAll_tagNumP tf _ _) (fun _ => trivial)
    · trivial
  · trivial

theorem noReadAll_lenP : (lenP : Prog ε (Len × Bytes)).NoReadAll := by
  simp only [lenP, Prog.NoReadAll]
  intro b
  split
  · split
    · trivial
    · split
      · trivial
      · intro _; trivial
  · trivial

mutual
theorem noReadAll_parseP (cfg : ParseCfg) (tf : Nat) :
    ∀ fuel, (parseP cfg tf fuel : Prog ε TLV).NoReadAll
  | 0 => trivial
  | f + 1 => by
    rw [parseP_succ]
    refine noReadAll_bind _ _ (noReadAll_tagP tf) fun th => noReadAll_bind _ _ noReadAll_lenP fun lh => ?_
    unfold valueP
    split
    · split
      · intro orig
        exact noReadAll_bind _ _ (noReadAll_childrenDefP cfg tf f _ _) (fun _ => trivial)
      · intro _; trivial
    · split
      · trivial
      · split
        · trivial
        · exact noReadAll_bind _ _ (noReadAll_childrenIndefP cfg tf f) (fun _ => trivial)
theorem noReadAll_childrenDefP (cfg : ParseCfg) (tf : Nat) :
    ∀ fuel n orig, (childrenDefP cfg tf fuel n orig : Prog ε (List TLV)).NoReadAll
  | 0, _, _ => trivial
  | f + 1, n, orig => by
    simp only [childrenDefP, Prog.NoReadAll]
    intro p
    split
    · exact noReadAll_bind _ _ (noReadAll_parseP cfg tf f) fun _ =>
        noReadAll_bind _ _ (noReadAll_childrenDefP cfg tf f n orig) (fun _ => trivial)
    · split <;> trivial
theorem noReadAll_childrenIndefP (cfg : ParseCfg) (tf : Nat) :
    ∀ fuel, (childrenIndefP cfg tf fuel : Prog ε (List TLV)).NoReadAll
  | 0 => trivial
  | f + 1 => by
    simp only [childrenIndefP, Prog.NoReadAll]
    intro e
    split
    · trivial
    · exact noReadAll_bind _ _ (noReadAll_parseP cfg tf f) fun _ =>
        noReadAll_bind _ _ (noReadAll_childrenIndefP cfg tf f) (fun _ => trivial)
end

theorem noReadAll_iterP (item : Prog ε ε) (hi : item.NoReadAll) : ∀ n, (iterP item n).NoReadAll
  | 0 => trivial
  | n + 1 => by
    simp only [iterP]
    refine noReadAll_bind _ _ hi fun x => ?_
    simp only [Prog.NoReadAll]
    intro e
    split
    · trivial
    · exact noReadAll_iterP item hi n

/-- the item decoder the driver runs: an element and `tell()` after it -/
def itemP (cfg : ParseCfg) (tf fuel : Nat) : Prog (TLV × Nat) (TLV × Nat) :=
  (parseP cfg tf fuel).bind fun t => .tell fun p => .pure (t, p)

theorem streamP_eq (cfg : ParseCfg) (n : Nat) :
    streamP cfg n = iterP (itemP cfg (n + 1) (n + 2)) (n + 1) := rfl

theorem noReadAll_streamP (cfg : ParseCfg) (n : Nat) : (streamP cfg n).NoReadAll := by
  rw [streamP_eq]
  refine noReadAll_iterP _ ?_ _
  exact noReadAll_bind _ _ (noReadAll_parseP cfg _ _) (fun _ => by intro _; trivial)

/-! ### the items of a stream of well-formed elements -/

/-- the elements with the position at which each ends, starting from `p` -/
def ends : Nat → List TLV → List (TLV × Nat)
  | _, [] => []
  | p, t :: ts => (t, p + t.ser.length) :: ends (p + t.ser.length) ts

theorem serList_length_pos (ts : List TLV) (hw : WFs ts) (hne : ts ≠ []) : 0 < (serList ts).length := by
  cases ts with
  | nil => exact absurd rfl hne
  | cons t rest =>
    have := t.ser_length_ge hw.1
    simp [serList]; omega

theorem serList_length_ge (ts : List TLV) (hw : WFs ts) : 2 * ts.length ≤ (serList ts).length := by
  induction ts with
  | nil => simp [serList]
  | cons t rest ih =>
    have := t.ser_length_ge hw.1
    have := ih hw.2
    simp [serList]; omega

theorem eosAns_closed (k : Kind) (d : Bytes) (pos : Nat) (hp : pos ≤ d.length) :
    eosAns k d true pos = .ok (decide (pos = d.length)) := by
  cases k <;> simp only [eosAns]
  · by_cases h : pos = d.length <;> simp [h]
  · by_cases h : pos < d.length
    · have : pos ≠ d.length := by omega
      simp [h, this]
    · have : pos = d.length := by omega
      simp [this]
  · by_cases h : pos < d.length
    · have : pos ≠ d.length := by omega
      simp [h, this]
    · have : pos = d.length := by omega
      simp [this]

/-- on the complete, closed input the iterator yields every element with its end position, in
    order, and then stops at the end of the data -/
theorem run_iter_items (cfg : ParseCfg) (k : Kind) (B : Nat) (d : Bytes) (tf fuel : Nat)
    (hnd : NoDropK k B d) (htf : d.length ≤ tf) (hfuel : d.length ≤ fuel) :
    ∀ (ts : List TLV) (m : Nat) (s : St (TLV × Nat)), ts ≠ [] → WFs ts → okForL cfg ts →
      ts.length ≤ m → At d s.pos (serList ts) → s.base = 0 →
      ∃ s', run k B d true (iterP (itemP cfg tf fuel) m) s = .done () s' ∧ s'.pos = d.length ∧
        s'.base = 0 ∧ s'.out = (ends s.pos ts).reverse ++ s.out := by
  intro ts
  induction ts with
  | nil => intro m s hne; exact absurd rfl hne
  | cons t rest ih =>
    intro m s _ hw ho hm hat hb
    obtain ⟨m', rfl⟩ : ∃ m', m = m' + 1 := ⟨m - 1, by simp at hm; omega⟩
    have hlen := hat.length
    have hot : t.okFor cfg := by
      rcases ho with ho | ho
      · exact Or.inl ho
      · right; simp [allDefL] at ho; exact ho.1
    have hor : okForL cfg rest := by
      rcases ho with ho | ho
      · exact Or.inl ho
      · right; simp [allDefL] at ho; exact ho.2
    have hser : (t.ser ++ serList rest).length ≤ d.length := by
      simp only [serList] at hlen; omega
    have hp := parse_ser cfg t fuel (serList rest) hw.1 hot (by simp at hser; omega)
    obtain ⟨s1, hr1, hat1, hb1, ho1⟩ := run_parseP (ε := TLV × Nat) cfg k B d true tf hnd fuel
      (t.ser ++ serList rest) t (serList rest) hp (by omega) [] s (by simpa [serList] using hat) hb
    have hlen1 := hat1.length
    obtain ⟨p1, m1, b1, o1⟩ := s1
    simp only at hat1 hb1 ho1 hlen1
    subst hb1
    have hpos1 : p1 = s.pos + t.ser.length := by
      simp [serList] at hlen hlen1; omega
    have hiter : ∀ j, iterP (itemP cfg tf fuel) (j + 1) =
        (parseP cfg tf fuel).bind fun t => .tell fun p => .emit (t, p) (.eos fun e =>
          if e then .pure () else iterP (itemP cfg tf fuel) j) := by
      intro j; simp only [iterP, itemP, bind_assoc]; rfl
    rw [hiter, run_bind, hr1]
    simp only [run, Nat.sub_zero]
    rw [eosAns_closed k d p1 hat1.1]
    simp only
    by_cases hrest : rest = []
    · subst hrest
      have : p1 = d.length := by simp [serList] at hlen1; omega
      simp only [this, decide_true, if_true, run]
      refine ⟨_, rfl, rfl, rfl, ?_⟩
      simp [ends, ho1, ← this, hpos1]
    · have hpos := serList_length_pos rest hw.2 hrest
      have hne : p1 ≠ d.length := by simp at hlen1; omega
      simp only [hne, decide_false, Bool.false_eq_true, if_false]
      obtain ⟨s', hr, hp', hb', ho'⟩ := ih m' { pos := p1, mark := m1, base := 0, out := (t, p1) :: o1 }
        hrest hw.2 hor (by simp at hm; omega) (by simpa using hat1) rfl
      refine ⟨s', hr, hp', hb', ?_⟩
      rw [ho']
      simp [ends, ho1, hpos1]

/-- the same for the program the driver runs, from the start of the stream -/
theorem run_streamP_items (cfg : ParseCfg) (k : Kind) (B : Nat) (ts : List TLV) (hne : ts ≠ [])
    (hw : WFs ts) (ho : okForL cfg ts) (hnd : NoDropK k B (serList ts)) :
    ∃ s', run k B (serList ts) true (streamP cfg (serList ts).length) {} = .done () s' ∧
      s'.pos = (serList ts).length ∧ s'.out = (ends 0 ts).reverse := by
  rw [streamP_eq]
  have hl := serList_length_ge ts hw
  obtain ⟨s', hr, hp, _, hout⟩ := run_iter_items cfg k B (serList ts) ((serList ts).length + 1)
    ((serList ts).length + 2) hnd (by omega) (by omega) ts ((serList ts).length + 1) {} hne hw ho
    (by omega) ⟨by simp, by simp⟩ rfl
  exact ⟨s', hr, hp, by simpa using hout⟩

/-! ### without a cache drop the wrapper is invisible -/

theorem readAns_wrapped (d : Bytes) (cl : Bool) (pos n : Nat) :
    readAns .wrapped d cl pos n = readAns .seekable d cl pos n := rfl
theorem readAllAns_wrapped (d : Bytes) (cl : Bool) (pos : Nat) :
    readAllAns .wrapped d cl pos = readAllAns .seekable d cl pos := rfl
theorem eosAns_wrapped (d : Bytes) (cl : Bool) (pos : Nat) :
    eosAns .wrapped d cl pos = eosAns .seekable d cl pos := rfl

/-- when all the data fits the buffer no mark can trigger a drop, and a program cannot tell the
    wrapped stream from a seekable one -/
theorem run_wrapped_eq_seekable (B : Nat) (d : Bytes) (cl : Bool) (hd : d.length ≤ B)
    (p : Prog ε α) (s : St ε) (hb : s.base = 0) (hp : s.pos ≤ d.length) (hm : s.mark ≤ d.length) :
    run .wrapped B d cl p s = run .seekable B d cl p s := by
  induction p generalizing s with
  | pure a => rfl
  | fail e => rfl
  | emit x p ih => simp only [run]; exact ih _ hb hp hm
  | read n f ih =>
    simp only [run, readAns_wrapped]
    cases hr : readAns .seekable d cl s.pos n with
    | ok b =>
      simp only
      refine ih b _ hb ?_ hm
      unfold readAns at hr
      by_cases hl : s.pos + n ≤ d.length
      · exact hl
      · simp only [hl, if_false] at hr; split at hr <;> simp at hr
    | wait => rfl
    | eos => rfl
  | readAll c f ih =>
    simp only [run, readAllAns_wrapped]
    cases hr : readAllAns .seekable d cl s.pos with
    | ok b =>
      simp only
      refine ih b _ hb ?_ hm
      unfold readAllAns at hr
      by_cases hl : s.pos < d.length
      · simp only [hl, if_true, Ans.ok.injEq] at hr
        subst hr
        simp; omega
      · simp only [hl, if_false] at hr; split at hr <;> simp at hr
    | wait => rfl
    | eos => simp only; cases c <;> simp only [if_true, Bool.false_eq_true, if_false]; exact ih _ _ hb hp hm
  | eos f ih =>
    simp only [run, eosAns_wrapped]
    cases eosAns .seekable d cl s.pos with
    | ok b => simp only; exact ih b _ hb hp hm
    | wait => rfl
    | eos => rfl
  | tell f ih => simp only [run]; exact ih _ _ hb hp hm
  | seekBack n p ih =>
    simp only [run]
    by_cases hn : n ≤ s.pos - s.base
    · simp only [hn, if_true]
      exact ih _ hb (by simp; omega) hm
    · simp [hn]
  | mark p ih =>
    simp only [run]
    have h1 : s.setMark .wrapped B = { s with mark := s.pos } := by
      unfold St.setMark
      have : ¬ B < s.pos - s.base := by omega
      simp [this]
    have h2 : s.setMark .seekable B = { s with mark := s.pos } := by
      unfold St.setMark; simp
    rw [h1, h2]
    exact ih _ hb hp hp
  | toMark f ih => simp only [run]; exact ih _ _ hb hm hm

end Asn1.Stream
