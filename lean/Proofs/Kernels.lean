/-
  Proofs.Kernels — the translated source (Asn1/GenKernels.lean, regenerated from /repo on every run by
  gen/py2lean.py) computes what the hand-written model computes, for every argument.
  A change to one of these functions in /repo changes the generated definition; these proofs are then
  re-checked against what the code says now.
-/
import Asn1.GenKernels
import Asn1.Encoder
import Proofs.Digits
import Proofs.TagLen
import Proofs.X690Prim

namespace Asn1.Kernels
open Py

/-! ### PyLite on non-negative operands -/

theorem band_nat (m n : Nat) : Py.band (m : Int) (n : Int) = ((m &&& n : Nat) : Int) := rfl
theorem bor_nat (m n : Nat) : Py.bor (m : Int) (n : Int) = ((m ||| n : Nat) : Int) := rfl
theorem shr_nat (m k : Nat) : Py.shr (m : Int) (k : Int) = ((m >>> k : Nat) : Int) := rfl

theorem band_127 (m : Nat) : Py.band (m : Int) 127 = ((m % 128 : Nat) : Int) := by
  show Py.band (m : Int) ((127 : Nat) : Int) = _
  rw [band_nat]; congr 1
  exact Nat.and_two_pow_sub_one_eq_mod m 7
theorem band_255 (m : Nat) : Py.band (m : Int) 255 = ((m % 256 : Nat) : Int) := by
  show Py.band (m : Int) ((255 : Nat) : Int) = _
  rw [band_nat]; congr 1
  exact Nat.and_two_pow_sub_one_eq_mod m 8
theorem shr_7 (m : Nat) : Py.shr (m : Int) 7 = ((m / 128 : Nat) : Int) := by
  show Py.shr (m : Int) ((7 : Nat) : Int) = _
  rw [shr_nat, Nat.shiftRight_eq_div_pow]
theorem shr_8 (m : Nat) : Py.shr (m : Int) 8 = ((m / 256 : Nat) : Int) := by
  show Py.shr (m : Int) ((8 : Nat) : Int) = _
  rw [shr_nat, Nat.shiftRight_eq_div_pow]
theorem bor_128 (d : Nat) (h : d < 128) : Py.bor 128 (d : Int) = ((128 + d : Nat) : Int) := by
  show Py.bor ((128 : Nat) : Int) (d : Int) = _
  rw [bor_nat]; congr 1
  have := Nat.two_pow_add_eq_or_of_lt (i := 7) (b := d) h 1
  simpa using this.symm

theorem truthy_nat (m : Nat) : Py.truthy (m : Int) = decide (m ≠ 0) := by
  unfold Py.truthy
  by_cases h : m = 0
  · subst h; rfl
  · have : (m : Int) ≠ 0 := by omega
    simp [h, this]

def ints (l : List Nat) : Py.Tup := l.map Int.ofNat

/-! ### encodeLength -/

theorem encodeLength_loop1_spec (m : Nat) : ∀ (fuel : Nat) (sub : Py.Tup), m < fuel →
    GenK.encodeLength_loop1 fuel sub (m : Int) = .ok (ints (be256 m) ++ sub, 0) := by
  induction m using Nat.strongRecOn with
  | _ m ih =>
    intro fuel sub hf
    cases fuel with
    | zero => omega
    | succ f =>
      by_cases hm : m = 0
      · subst hm
        simp [GenK.encodeLength_loop1, Py.truthy, ints, be256, beDigits_zero]
        rfl
      · have hdiv : m / 256 < m := Nat.div_lt_self (Nat.pos_of_ne_zero hm) (by omega)
        have := ih (m / 256) hdiv f ([((m % 256 : Nat) : Int)] ++ sub) (by omega)
        unfold GenK.encodeLength_loop1
        rw [truthy_nat]
        simp only [hm, ne_eq, not_false_eq_true, decide_true, if_true, band_255, shr_8]
        show GenK.encodeLength_loop1 f _ _ = _
        rw [this]
        simp [ints, be256, beDigits_pos 254 m hm]

def bytesInts (b : Bytes) : Py.Tup := b.map fun x => (x.toNat : Int)

theorem bytesInts_natsToBytes (ds : List Nat) (h : ∀ d ∈ ds, d < 256) :
    bytesInts (natsToBytes ds) = ints ds := by
  induction ds with
  | nil => rfl
  | cons d rest ih =>
    have hd := h d (by simp)
    have := ih (fun x hx => h x (by simp [hx]))
    simp only [bytesInts, natsToBytes, ints, List.map_cons, List.map_map] at *
    rw [this]
    congr 1
    show ((UInt8.ofNat d).toNat : Int) = _
    rw [toNat_ofNat_lt d hd]; rfl

/-- what the encoder model's `encLen` answers, in the vocabulary of the translated code -/
def liftLen : Except Err Bytes → Py.M Py.Tup
  | .ok b => .ok (bytesInts b)
  | .error _ => .error (.lib "PyAsn1Error")

/-- **`AbstractItemEncoder.encodeLength` as it is in the source computes the model's `encLen`**, for
    every length, mode and `supportIndefLenMode` flag (including the refusal beyond 126 length octets) -/
theorem encodeLength_kernel (indefOk : Bool) (n : Nat) (defMode : Bool) :
    GenK.encodeLength indefOk (n : Int) defMode = liftLen (encLen indefOk n defMode) := by
  unfold GenK.encodeLength encLen
  by_cases h1 : (!defMode && indefOk) = true
  · simp [h1, liftLen, bytesInts]; rfl
  · simp only [h1, Bool.false_eq_true, if_false]
    by_cases h2 : n < 128
    · have : ((n : Int) < 128) := by omega
      simp only [this, decide_true, if_true, Asn1.encodeLength, h2, liftLen, bytesInts, List.map]
      have h256 : n < 256 := by omega
      show Except.ok [(n : Int)] = Except.ok [((UInt8.ofNat n).toNat : Int)]
      rw [toNat_ofNat_lt n h256]
    · have : ¬ ((n : Int) < 128) := by omega
      simp only [this, decide_false, Bool.false_eq_true, if_false, Asn1.encodeLength, h2]
      have hloop := encodeLength_loop1_spec n (n + 1) [] (by omega)
      have hfuel : ((n : Int).toNat + 1) = n + 1 := by simp
      simp only [bind, Except.bind, hfuel, hloop, List.append_nil]
      have hlen : Py.len (ints (be256 n)) = (((be256 n).length : Nat) : Int) := by
        simp [Py.len, ints]
      rw [hlen]
      by_cases h3 : (be256 n).length > 126
      · have : (((be256 n).length : Nat) : Int) > 126 := by omega
        simp [this, h3, liftLen]
        rfl
      · have : ¬ (((be256 n).length : Nat) : Int) > 126 := by omega
        simp only [this, decide_false, Bool.false_eq_true, if_false, h3, liftLen, pure, Except.pure]
        have hb : (be256 n).length < 128 := by omega
        rw [bor_128 _ hb]
        congr 1
        simp only [bytesInts, List.map_cons]
        have h256 : 0x80 + (be256 n).length < 256 := by omega
        rw [toNat_ofNat_lt _ h256]
        have := bytesInts_natsToBytes (be256 n) (fun d hd => by have := beDigits_lt 254 n d hd; omega)
        simp only [bytesInts] at this
        rw [this]; rfl

/-! ### encodeTag -/

theorem encodeTag_loop1_spec (m : Nat) : ∀ (fuel : Nat) (sub : Py.Tup), m < fuel →
    GenK.encodeTag_loop1 fuel sub (m : Int) = .ok (ints ((be128 m).map (· + 0x80)) ++ sub, 0) := by
  induction m using Nat.strongRecOn with
  | _ m ih =>
    intro fuel sub hf
    cases fuel with
    | zero => omega
    | succ f =>
      by_cases hm : m = 0
      · subst hm
        simp [GenK.encodeTag_loop1, Py.truthy, ints, be128, beDigits_zero]
        rfl
      · have hdiv : m / 128 < m := Nat.div_lt_self (Nat.pos_of_ne_zero hm) (by omega)
        have := ih (m / 128) hdiv f ([((128 + m % 128 : Nat) : Int)] ++ sub) (by omega)
        unfold GenK.encodeTag_loop1
        rw [truthy_nat]
        simp only [hm, ne_eq, not_false_eq_true, decide_true, if_true, band_127, shr_7]
        rw [bor_128 _ (Nat.mod_lt _ (by omega))]
        show GenK.encodeTag_loop1 f _ _ = _
        rw [this]
        simp [ints, be128, beDigits_pos 126 m hm, Nat.add_comm]

/-- the three integers pyasn1's `Tag` object unpacks to -/
def tagTriple (t : Tag) : Py.Tup :=
  [(t.cls.bits : Int), ((if t.constructed then 0x20 else 0 : Nat) : Int), (t.num : Int)]

theorem bor_low (a d : Nat) (h : d < 32) : ((32 * a ||| d : Nat) : Int) = ((32 * a + d : Nat) : Int) := by
  rw [Nat.two_pow_add_eq_or_of_lt (i := 5) (b := d) h a]

theorem first_octet (t : Tag) (ic : Bool) :
    (if ic then Py.bor (Py.bor (t.cls.bits : Int) ((if t.constructed then 0x20 else 0 : Nat) : Int)) 32
     else Py.bor (t.cls.bits : Int) ((if t.constructed then 0x20 else 0 : Nat) : Int))
      = ((t.cls.bits + (if t.constructed || ic then 0x20 else 0) : Nat) : Int) := by
  cases t with
  | mk c k n => cases c <;> cases k <;> cases ic <;> simp [TagClass.bits, bor_nat] <;> rfl

theorem first_mul32 (t : Tag) (ic : Bool) :
    ∃ a, t.cls.bits + (if t.constructed || ic then 0x20 else 0) = 32 * a ∧ a < 8 := by
  cases t with
  | mk c k n =>
    cases c <;> cases k <;> cases ic <;>
    first
      | exact ⟨0, rfl, by omega⟩ | exact ⟨1, rfl, by omega⟩ | exact ⟨2, rfl, by omega⟩ | exact ⟨3, rfl, by omega⟩
      | exact ⟨4, rfl, by omega⟩ | exact ⟨5, rfl, by omega⟩ | exact ⟨6, rfl, by omega⟩ | exact ⟨7, rfl, by omega⟩

/-- **`AbstractItemEncoder.encodeTag` as it is in the source computes the model's identifier octets**,
    for every class, format, tag number and `isConstructed` -/
theorem encodeTag_kernel (t : Tag) (ic : Bool) :
    GenK.encodeTag (tagTriple t) ic = .ok (bytesInts (Asn1.encodeTag t ic)) := by
  unfold GenK.encodeTag tagTriple
  simp only [bind, Except.bind, pure, Except.pure]
  have hf := first_octet t ic
  obtain ⟨a, ha, ha8⟩ := first_mul32 t ic
  cases ic <;> simp only [if_true, if_false, Bool.false_eq_true] at hf ⊢ <;>
  · rw [hf]
    by_cases h31 : t.num < 31
    · have : ((t.num : Int) < 31) := by omega
      simp only [this, decide_true, if_true, Asn1.encodeTag, h31, bytesInts, List.map]
      rw [bor_nat, ha, bor_low a t.num (by omega)]
      rw [toNat_ofNat_lt _ (by omega)]
    · have : ¬ ((t.num : Int) < 31) := by omega
      simp only [this, decide_false, Bool.false_eq_true, if_false, Asn1.encodeTag, h31, band_127, shr_7]
      have hloop := encodeTag_loop1_spec (t.num / 128) (t.num / 128 + 1) [((t.num % 128 : Nat) : Int)] (by omega)
      have hfuel : (((t.num / 128 : Nat) : Int).toNat + 1) = t.num / 128 + 1 := by omega
      rw [hfuel, hloop]
      have hne : t.num ≠ 0 := by omega
      have hds : be128 t.num = be128 (t.num / 128) ++ [t.num % 128] := beDigits_pos 126 t.num hne
      simp only [hds, List.dropLast_concat, List.getLastD_concat]
      show Except.ok ([Py.bor _ ((31 : Nat) : Int)] ++ _) = _
      rw [bor_nat, ha, bor_low a 31 (by omega)]
      simp only [bytesInts, List.map_cons, List.map_append, List.cons_append, List.nil_append]
      rw [toNat_ofNat_lt _ (by omega)]
      congr 2
      have h1 := bytesInts_natsToBytes ((be128 (t.num / 128)).map (· + 0x80))
        (fun d hd => by
          obtain ⟨x, hx, rfl⟩ := List.mem_map.mp hd
          have := beDigits_lt 126 _ x hx; omega)
      have h2 := bytesInts_natsToBytes [t.num % 128] (fun d hd => by simp at hd; omega)
      simp only [bytesInts] at h1 h2
      rw [h1, h2]; rfl

/-! ### OBJECT IDENTIFIER contents (encoder) -/

theorem oidEncode_loop2_spec (m : Nat) : ∀ (fuel : Nat) (sub : Py.Tup), m < fuel →
    GenK.oidEncode_loop2 fuel sub (m : Int) = .ok (ints ((be128 m).map (· + 0x80)) ++ sub, 0) := by
  induction m using Nat.strongRecOn with
  | _ m ih =>
    intro fuel sub hf
    cases fuel with
    | zero => omega
    | succ f =>
      by_cases hm : m = 0
      · subst hm
        simp [GenK.oidEncode_loop2, Py.truthy, ints, be128, beDigits_zero]
        rfl
      · have hdiv : m / 128 < m := Nat.div_lt_self (Nat.pos_of_ne_zero hm) (by omega)
        have := ih (m / 128) hdiv f ([((128 + m % 128 : Nat) : Int)] ++ sub) (by omega)
        unfold GenK.oidEncode_loop2
        rw [truthy_nat]
        simp only [hm, ne_eq, not_false_eq_true, decide_true, if_true, band_127, shr_7]
        rw [bor_128 _ (Nat.mod_lt _ (by omega))]
        show GenK.oidEncode_loop2 f _ _ = _
        rw [this]
        simp [ints, be128, beDigits_pos 126 m hm, Nat.add_comm]

theorem bytesInts_append (a b : Bytes) : bytesInts (a ++ b) = bytesInts a ++ bytesInts b := by
  simp [bytesInts]

theorem bytesInts_encodeArc (n : Nat) :
    bytesInts (encodeArc n) =
      if n < 128 then [(n : Int)]
      else ints ((be128 (n / 128)).map (· + 0x80)) ++ [((n % 128 : Nat) : Int)] := by
  unfold encodeArc
  by_cases h : n < 128
  · simp only [h, if_true, bytesInts, List.map]
    rw [toNat_ofNat_lt n (by omega)]
  · simp only [h, if_false]
    have hne : n ≠ 0 := by omega
    have hds : be128 n = be128 (n / 128) ++ [n % 128] := beDigits_pos 126 n hne
    simp only [hds, List.dropLast_concat, List.getLastD_concat, bytesInts_append]
    rw [bytesInts_natsToBytes _ (fun d hd => by
          obtain ⟨x, hx, rfl⟩ := List.mem_map.mp hd
          have := beDigits_lt 126 _ x hx; omega),
        bytesInts_natsToBytes [n % 128] (fun d hd => by simp at hd; omega)]
    rfl

/-- the `for subOid in oid` loop: every arc packed base 128 -/
theorem oidEncode_loop1_spec (c : Py.Tup) : ∀ (l : List Nat) (octets : Py.Tup),
    GenK.oidEncode_loop1 c (ints l) octets = .ok (octets ++ bytesInts (l.flatMap encodeArc)) := by
  intro l
  induction l with
  | nil => intro octets; simp [GenK.oidEncode_loop1, ints, bytesInts]; rfl
  | cons n rest ih =>
    intro octets
    simp only [ints, List.map_cons]
    unfold GenK.oidEncode_loop1
    simp only [List.flatMap_cons, bytesInts_append, bytesInts_encodeArc]
    have h0 : (0 : Int) ≤ (n : Int) := by omega
    by_cases h : n < 128
    · have h1 : (Int.ofNat n) ≤ 127 := by simp; omega
      have h0' : (0 : Int) ≤ Int.ofNat n := by simp
      simp only [h0', h1, decide_true, Bool.and_self, if_true, bind, Except.bind, pure, Except.pure, h]
      have := ih (octets ++ [Int.ofNat n])
      simp only [ints] at this
      rw [this]
      simp
    · have h1 : ¬ (Int.ofNat n) ≤ 127 := by simp; omega
      have h2 : (Int.ofNat n) > 127 := by simp; omega
      simp only [h1, h2, decide_true, decide_false, Bool.and_false, Bool.false_eq_true, if_false, if_true,
        bind, Except.bind, pure, Except.pure, h]
      rw [show Py.band (Int.ofNat n) 127 = ((n % 128 : Nat) : Int) from band_127 n,
        show Py.shr (Int.ofNat n) 7 = ((n / 128 : Nat) : Int) from shr_7 n]
      have hloop := oidEncode_loop2_spec (n / 128) (n / 128 + 1) [((n % 128 : Nat) : Int)] (by omega)
      have hfuel : (((n / 128 : Nat) : Int).toNat + 1) = n / 128 + 1 := by omega
      rw [hfuel, hloop]
      have := ih (octets ++ (ints ((be128 (n / 128)).map (· + 0x80)) ++ [((n % 128 : Nat) : Int)]))
      simp only [ints] at this ⊢
      rw [this]
      simp

theorem tryCatch_ok {α} (x : α) (h : PyErr → Py.M α) : tryCatch (Except.ok x : Py.M α) h = .ok x := rfl
theorem throw_eq {α} (e : PyErr) : (throw e : Py.M α) = .error e := rfl

/-- what `oidToContent` answers, in the vocabulary of the translated code (`encodeValue` returns the
    triple `(octets, isConstructed=False, isOctets=False)`) -/
def liftOid : Option Bytes → Py.M (Py.Tup × Bool × Bool)
  | some b => .ok (bytesInts b, false, false)
  | none => .error (.lib "PyAsn1Error")

/-- **`ObjectIdentifierEncoder.encodeValue` as it is in the source computes the model's
    `oidToContent`** for every tuple of (non-negative) arcs: the first two arcs folded into one, every
    sub-identifier packed base 128, the same refusals ("Short OID", "Impossible first/second arcs") -/
theorem oidEncode_kernel (arcs : List Nat) :
    GenK.oidEncode (ints arcs) = liftOid (oidToContent arcs) := by
  unfold GenK.oidEncode
  match arcs with
  | [] => rfl
  | [a] => rfl
  | first :: second :: rest =>
    have hi0 : Py.idx (ints (first :: second :: rest)) 0 = .ok (first : Int) := by
      simp [Py.idx, ints]; rfl
    have hi1 : Py.idx (ints (first :: second :: rest)) 1 = .ok (second : Int) := by
      simp [Py.idx, ints]; rfl
    have hsl : Py.sliceFrom (ints (first :: second :: rest)) 2 = ints rest := by
      simp [Py.sliceFrom, ints]
    simp only [hi0, hi1, hsl, bind, Except.bind, pure, Except.pure, tryCatch_ok]
    have h0 : (0 : Int) ≤ (second : Int) := by omega
    simp only [h0, decide_true, Bool.true_and]
    have hcons : ∀ (h : Nat), ([((h : Nat) : Int)] ++ ints rest) = ints (h :: rest) := by intro h; rfl
    unfold oidToContent
    by_cases h39 : second ≤ 39
    · have : ((second : Int) ≤ 39) := by omega
      simp only [this, decide_true, if_true, h39]
      by_cases f1 : first = 1
      · subst f1
        simp only [show ((1 : Nat) : Int) = 1 from rfl, decide_true, if_true]
        rw [show (second : Int) + 40 = ((second + 40 : Nat) : Int) by omega, hcons, oidEncode_loop1_spec]
        simp [liftOid]
      · have : ¬ ((first : Int) = 1) := by omega
        simp only [this, decide_false, Bool.false_eq_true, if_false, f1]
        by_cases f0 : first = 0
        · subst f0
          simp only [show ((0 : Nat) : Int) = 0 from rfl, decide_true, if_true]
          rw [hcons, oidEncode_loop1_spec]
          simp [liftOid]
        · have : ¬ ((first : Int) = 0) := by omega
          simp only [this, decide_false, Bool.false_eq_true, if_false, f0]
          by_cases f2 : first = 2
          · subst f2
            simp only [show ((2 : Nat) : Int) = 2 from rfl, decide_true, if_true]
            rw [show (second : Int) + 80 = ((second + 80 : Nat) : Int) by omega, hcons, oidEncode_loop1_spec]
            simp [liftOid]
          · have : ¬ ((first : Int) = 2) := by omega
            simp [this, f2, liftOid, throw_eq]
    · have : ¬ ((second : Int) ≤ 39) := by omega
      simp only [this, decide_false, Bool.false_eq_true, if_false, h39]
      by_cases f2 : first = 2
      · subst f2
        simp only [show ((2 : Nat) : Int) = 2 from rfl, decide_true, if_true]
        rw [show (second : Int) + 80 = ((second + 80 : Nat) : Int) by omega, hcons, oidEncode_loop1_spec]
        simp [liftOid]
      · have : ¬ ((first : Int) = 2) := by omega
        simp [this, f2, liftOid, throw_eq]

/-! ### to_bytes (two's complement in the fewest octets) -/

theorem natToBE_concat (bs : Bytes) (b : UInt8) :
    Py.natToBE (bs.length + 1) (bytesToNat bs * 256 + b.toNat) = Py.natToBE bs.length (bytesToNat bs) ++ [(b.toNat : Int)] := by
  have hb : b.toNat < 256 := UInt8.toNat_lt b
  simp only [Py.natToBE]
  rw [show (bytesToNat bs * 256 + b.toNat) / 256 = bytesToNat bs by omega,
      show (bytesToNat bs * 256 + b.toNat) % 256 = b.toNat by omega]
  rfl

/-- the `k` big-endian digits of the unsigned value of a `k`-octet string are the octets -/
theorem natToBE_bytes : ∀ (n : Nat) (bs : Bytes), bs.length = n → Py.natToBE n (bytesToNat bs) = bytesInts bs
  | 0, bs, h => by
    have : bs = [] := List.eq_nil_of_length_eq_zero h
    subst this; rfl
  | n + 1, bs, h => by
    rcases List.eq_nil_or_concat bs with rfl | ⟨l, b, rfl⟩
    · simp at h
    · simp only [List.concat_eq_append, List.length_append, List.length_singleton, Nat.add_right_cancel_iff] at h
      rw [List.concat_eq_append, Asn1.bytesToNat_concat, ← h, natToBE_concat, h, natToBE_bytes n l h]
      simp [bytesInts]

/-- `128·256^j = 2^(8j+7)` -/
theorem half_pow : ∀ j : Nat, ((2 ^ (8 * j + 7) : Nat) : Int) = 128 * 256 ^ j
  | 0 => by decide
  | j + 1 => by
    have ih := half_pow j
    rw [show 8 * (j + 1) + 7 = (8 * j + 7) + 1 + 1 + 1 + 1 + 1 + 1 + 1 + 1 by omega]
    simp only [Nat.pow_succ, Int.pow_succ] at ih ⊢
    omega

/-- the number of bits: `a < 2^b`, and `2^(b-1) ≤ a` unless `a = 0` -/
def nbits (a : Nat) : Nat := Nat.log2 a + (if a = 0 then 0 else 1)

theorem lt_pow_nbits (a : Nat) : a < 2 ^ nbits a := by
  unfold nbits
  by_cases h : a = 0
  · subst h; decide
  · simp only [h, if_false]; exact Nat.lt_log2_self

theorem pow_nbits_le (a : Nat) (h : a ≠ 0) : 2 ^ (nbits a - 1) ≤ a := by
  unfold nbits
  simp only [h, if_false, Nat.add_sub_cancel]
  exact Nat.log2_self_le h

theorem nbits_div8 (a j : Nat) (hfit : a < 2 ^ (8 * j + 7))
    (hmin : j = 0 ∨ ∃ i, j = i + 1 ∧ 2 ^ (8 * i + 7) ≤ a) : nbits a / 8 = j := by
  have hup : nbits a ≤ 8 * j + 7 := by
    by_cases h0 : a = 0
    · subst h0; simp [nbits]
    · have h1 := pow_nbits_le a h0
      have : ¬ (8 * j + 7 ≤ nbits a - 1) := fun hc =>
        absurd (Nat.lt_of_lt_of_le hfit (Nat.le_trans (Nat.pow_le_pow_right (by decide) hc) h1)) (Nat.lt_irrefl _)
      omega
  rcases hmin with rfl | ⟨i, rfl, hi⟩
  · omega
  · have h2 := lt_pow_nbits a
    have : ¬ (nbits a ≤ 8 * i + 7) := fun hc =>
      absurd (Nat.lt_of_lt_of_le (Nat.lt_of_le_of_lt hi h2) (Nat.pow_le_pow_right (by decide) hc)) (Nat.lt_irrefl _)
    omega

theorem bitLength_nat (a : Nat) : Py.bitLength (a : Int) = ((nbits a : Nat) : Int) := by
  unfold Py.bitLength nbits
  by_cases h : a = 0
  · subst h; rfl
  · have : (a : Int) ≠ 0 := by omega
    simp [h, this]

/-- **`to_bytes(value, signed=True)` as it is in the source** (`pyasn1/compat/integer.py`, the branch taken on
    CPython 3) **computes the model's `intToBytes`**: the two's complement octets of every integer in the
    fewest octets (what `IntegerEncoder` writes for non-zero values, and `[0]` for zero) -/
theorem toBytes_kernel (z : Int) : GenK.toBytes z true 0 = .ok (bytesInts (intToBytes z)) := by
  obtain ⟨j, hlen, hfit, hmin, hval⟩ := Asn1.intToBytes_spec z
  -- the non-negative number whose bit length is taken
  have ha : ∃ a : Nat, (if (true && decide (z < 0)) then Py.inv z else z) = (a : Int) ∧
      ((a : Int) < 128 * 256 ^ j) ∧ (∀ i, ¬ Asn1.Fits z i → (128 * 256 ^ i : Int) ≤ a) := by
    unfold Asn1.Fits at hfit
    by_cases hz : z < 0
    · refine ⟨(-z - 1).toNat, ?_, ?_, ?_⟩
      · simp only [Bool.true_and, hz, decide_true, if_true, Py.inv]; omega
      · omega
      · intro i hi
        unfold Asn1.Fits at hi
        have := Asn1.pow256_pos i
        omega
    · refine ⟨z.toNat, ?_, ?_, ?_⟩
      · simp only [Bool.true_and, hz, decide_false, Bool.false_eq_true, if_false]; omega
      · omega
      · intro i hi
        unfold Asn1.Fits at hi
        have := Asn1.pow256_pos i
        omega
  obtain ⟨a, hae, hafit, hamin⟩ := ha
  have hb : nbits a / 8 = j := by
    apply nbits_div8
    · have := half_pow j; omega
    · rcases hmin with rfl | ⟨i, rfl, hni⟩
      · exact Or.inl rfl
      · refine Or.inr ⟨i, rfl, ?_⟩
        have := hamin i hni
        have := half_pow i
        omega
  unfold GenK.toBytes
  rw [hae, bitLength_nat]
  have hmax : Py.max ((nbits a : Nat) : Int) 0 = ((nbits a : Nat) : Int) := by
    unfold Py.max
    have : ¬ (((nbits a : Nat) : Int) < 0) := by omega
    simp [this]
  simp only [hmax, Bool.true_and, bind, Except.bind, pure, Except.pure]
  -- number of octets
  have hn : ∀ L : Int, (L = (nbits a : Nat) ∧ (nbits a) % 8 ≠ 0) ∨ (L = (nbits a : Nat) + 1 ∧ (nbits a) % 8 = 0) →
      Py.fdiv L 8 + Py.orI (Py.andI (Py.fmod L 8) 1) 0 = ((j + 1 : Nat) : Int) := by
    intro L hL
    unfold Py.fdiv Py.fmod Py.orI Py.andI
    rw [Int.fdiv_eq_ediv_of_nonneg _ (by decide), Int.fmod_eq_emod_of_nonneg _ (by decide)]
    rcases hL with ⟨rfl, h8⟩ | ⟨rfl, h8⟩
    · have : (((nbits a : Nat) : Int) % 8) ≠ 0 := by omega
      simp [this]; omega
    · have : ((((nbits a : Nat) : Int) + 1) % 8) ≠ 0 := by omega
      simp [this]; omega
  have hrange : -(2 : Int) ^ (8 * (j + 1)) ≤ 2 * z ∧ 2 * z < (2 : Int) ^ (8 * (j + 1)) := by
    rw [Asn1.two_pow_full, Int.pow_succ]
    unfold Asn1.Fits at hfit
    omega
  have hout : Py.toBytes z ((j + 1 : Nat) : Int) true = .ok (bytesInts (intToBytes z)) := by
    unfold Py.toBytes
    simp only [Int.toNat_natCast, if_true, hrange, and_self, true_or, pure, Except.pure]
    congr 1
    rw [← natToBE_bytes (j + 1) (intToBytes z) hlen]
    congr 1
    have h2 : (2 : Int) ^ (8 * (j + 1)) = 256 * 256 ^ j := by
      rw [Asn1.two_pow_full, Int.pow_succ]; omega
    rw [h2]
    show (z % (256 * 256 ^ j)).toNat = _
    rw [← hval]
    simp
  by_cases h8 : nbits a % 8 = 0
  · have hc : Py.fmod ((nbits a : Nat) : Int) 8 = 0 := by
      unfold Py.fmod; rw [Int.fmod_eq_emod_of_nonneg _ (by decide)]; omega
    simp only [hc, decide_true, if_true]
    rw [hn _ (Or.inr ⟨rfl, h8⟩), hout]
  · have hc : ¬ Py.fmod ((nbits a : Nat) : Int) 8 = 0 := by
      unfold Py.fmod; rw [Int.fmod_eq_emod_of_nonneg _ (by decide)]; omega
    simp only [hc, decide_false, Bool.false_eq_true, if_false]
    rw [hn _ (Or.inl ⟨rfl, h8⟩), hout]

end Asn1.Kernels

namespace Asn1.Kernels
open Py

/-! ### OBJECT IDENTIFIER contents (decoder) -/

theorem shl_7 (s : Nat) : Py.shl (s : Int) 7 = ((s * 128 : Nat) : Int) := by
  show (s : Int) * 2 ^ (7 : Int).toNat = _
  simp only [show (7 : Int).toNat = 7 from rfl]
  omega

theorem idx_bytes (bs : Bytes) (i : Nat) (h : i < bs.length) :
    Py.idx (bytesInts bs) (i : Int) = .ok ((bs[i].toNat : Nat) : Int) := by
  unfold Py.idx
  have h0 : ¬ ((i : Int) < 0) := by omega
  simp only [h0, if_false, Int.toNat_natCast]
  simp [bytesInts, h]
  rfl

theorem len_bytes (bs : Bytes) : Py.len (bytesInts bs) = ((bs.length : Nat) : Int) := by
  simp [Py.len, bytesInts]

/-- the inner loop seen from the model's side: follow continuation octets -/
def scan : Nat → Nat → Nat → Bytes → Option (Nat × Nat × Bytes)
  | 0, _, _, _ => none
  | f + 1, s, nb, rest =>
    if nb < 128 then some (s, nb, rest)
    else match rest with
      | [] => none
      | b :: r => scan f (s * 128 + nb % 128) b.toNat r

theorem scan_rest_le : ∀ (f s nb : Nat) (rest : Bytes) (s' nb' : Nat) (rest' : Bytes),
    scan f s nb rest = some (s', nb', rest') → rest'.length ≤ rest.length
  | 0, _, _, _, _, _, _, h => by simp [scan] at h
  | f + 1, s, nb, rest, s', nb', rest', h => by
    simp only [scan] at h
    by_cases hn : nb < 128
    · simp only [hn, if_true, Option.some.injEq, Prod.mk.injEq] at h
      rw [← h.2.2]; exact Nat.le_refl _
    · simp only [hn, if_false] at h
      cases rest with
      | nil => simp at h
      | cons b r =>
        have := scan_rest_le f _ _ r s' nb' rest' h
        simp only [List.length_cons]; omega

/-- the translated inner loop follows `scan` -/
theorem oidDecode_loop2_spec (bs : Bytes) (oid : Py.Tup) : ∀ (f : Nat) (s nb i : Nat), i ≤ bs.length →
    bs.length - i < f →
    GenK.oidDecode_loop2 (bs.length : Int) (bytesInts bs) oid f (s : Int) (nb : Int) (i : Int) =
      (match scan f s nb (bs.drop i) with
       | none => .error (.lib "SubstrateUnderrunError")
       | some (s', nb', rest') => .ok ((s' : Int), (nb' : Int), ((bs.length - rest'.length : Nat) : Int)))
  | 0, _, _, _, _, hf => by omega
  | f + 1, s, nb, i, hi, hf => by
    unfold GenK.oidDecode_loop2 scan
    by_cases hn : nb < 128
    · have : ¬ ((nb : Int) ≥ 128) := by omega
      simp only [this, decide_false, Bool.false_eq_true, if_false, hn, if_true, pure, Except.pure]
      simp only [List.length_drop]
      congr 3
      omega
    · have hge : ((nb : Int) ≥ 128) := by omega
      simp only [hge, decide_true, if_true, hn, if_false, shl_7, band_127]
      by_cases hend : i = bs.length
      · subst hend
        have : ((bs.length : Int) ≥ (bs.length : Int)) := by omega
        simp [this, List.drop_length]
        rfl
      · have hlt : i < bs.length := by omega
        have : ¬ ((i : Int) ≥ (bs.length : Int)) := by omega
        simp only [this, decide_false, Bool.false_eq_true, if_false, bind, Except.bind, idx_bytes bs i hlt]
        have hdrop : bs.drop i = bs[i] :: bs.drop (i + 1) := (List.drop_eq_getElem_cons hlt)
        rw [hdrop]
        simp only
        have ih := oidDecode_loop2_spec bs oid f (s * 128 + nb % 128) bs[i].toNat (i + 1) (by omega) (by omega)
        have e1 : ((s * 128 : Nat) : Int) + ((nb % 128 : Nat) : Int) = ((s * 128 + nb % 128 : Nat) : Int) := by omega
        have e2 : (i : Int) + 1 = ((i + 1 : Nat) : Int) := by omega
        rw [e1, e2, ih]

theorem scan_suffix' : ∀ (f s nb : Nat) (rest : Bytes) (s' nb' : Nat) (rest' : Bytes),
    scan f s nb rest = some (s', nb', rest') → ∃ pre, rest = pre ++ rest'
  | 0, _, _, _, _, _, _, h => by simp [scan] at h
  | f + 1, s, nb, rest, s', nb', rest', h => by
    simp only [scan] at h
    by_cases hn : nb < 128
    · simp only [hn, if_true, Option.some.injEq, Prod.mk.injEq] at h
      exact ⟨[], by simp [h.2.2]⟩
    · simp only [hn, if_false] at h
      cases rest with
      | nil => simp at h
      | cons b r =>
        obtain ⟨pre, hp⟩ := scan_suffix' f _ _ r s' nb' rest' h
        exact ⟨b :: pre, by simp [hp]⟩

theorem scan_suffix (bs : Bytes) (j f s nb : Nat) (s' nb' : Nat) (rest rest' : Bytes) (hr : bs.drop j = rest)
    (h : scan f s nb rest = some (s', nb', rest')) : bs.drop (bs.length - rest'.length) = rest' := by
  obtain ⟨pre, hp⟩ := scan_suffix' f s nb rest s' nb' rest' h
  have hb : bs = (bs.take j ++ pre) ++ rest' := by
    rw [List.append_assoc, ← hp, ← hr, List.take_append_drop]
  have hl : bs.length - rest'.length = (bs.take j ++ pre).length := by
    have := congrArg List.length hb
    simp only [List.length_append] at this ⊢
    omega
  rw [hl]
  generalize hq : List.take j bs ++ pre = q at hb ⊢
  subst hb
  exact List.drop_left

/-- the model's sub-identifier loop follows the same scan -/
theorem decodeArcs_some_scan : ∀ (f : Nat) (s : Nat) (b : UInt8) (rest : Bytes), rest.length < f →
    decodeArcs (some s) (b :: rest) =
      (match scan f s b.toNat rest with
       | none => .error .underrun
       | some (s', nb', rest') => (decodeArcs none rest').map ((s' * 128 + nb') :: ·))
  | 0, _, _, _, hf => by omega
  | f + 1, s, b, rest, hf => by
    unfold scan
    by_cases hn : b.toNat < 128
    · simp [decodeArcs, hn]
    · simp only [decodeArcs, hn, if_false]
      cases rest with
      | nil => simp [decodeArcs]
      | cons b' r =>
        simp only
        exact decodeArcs_some_scan f _ b' r (by simp only [List.length_cons] at hf; omega)

/-- outcome of the translated decoder, in the vocabulary of the model -/
def liftArcs (len : Nat) (oid : List Nat) : Res (List Nat) → Py.M (Int × Py.Tup)
  | .ok arcs => .ok ((len : Int), ints (oid ++ arcs))
  | .error .underrun => .error (.lib "SubstrateUnderrunError")
  | .error _ => .error (.lib "PyAsn1Error")

theorem liftArcs_map (len : Nat) (oid : List Nat) (a : Nat) (r : Res (List Nat)) :
    liftArcs len oid (r.map (a :: ·)) = liftArcs len (oid ++ [a]) r := by
  cases r with
  | ok arcs => simp [liftArcs, Except.map]
  | error e => cases e <;> simp [liftArcs, Except.map]

theorem decodeArcs_no_fuel : ∀ (st : Option Nat) (l : Bytes), decodeArcs st l ≠ .error .fuel ∧ decodeArcs st l ≠ .error .refused := by
  intro st l
  induction l generalizing st with
  | nil => cases st <;> simp [decodeArcs]
  | cons b rest ih =>
    cases st with
    | none =>
      simp only [decodeArcs]
      by_cases h1 : b.toNat < 128
      · simp only [h1, if_true]
        have := ih none
        cases hd : decodeArcs none rest with
        | ok a => simp [Except.map]
        | error e => rw [hd] at this; simpa [Except.map] using this
      · simp only [h1, if_false]
        by_cases h2 : b.toNat = 128
        · simp [h2]
        · simp only [h2, if_false]; exact ih _
    | some acc =>
      simp only [decodeArcs]
      by_cases h1 : b.toNat < 128
      · simp only [h1, if_true]
        have := ih none
        cases hd : decodeArcs none rest with
        | ok a => simp [Except.map]
        | error e => rw [hd] at this; simpa [Except.map] using this
      · simp only [h1, if_false]; exact ih _

theorem ints_append (a b : List Nat) : ints (a ++ b) = ints a ++ ints b := by simp [ints]

/-- the translated outer loop computes the model's `decodeArcs` from the current position -/
theorem oidDecode_loop1_spec (bs : Bytes) : ∀ (f i : Nat) (oid : List Nat), i ≤ bs.length → bs.length - i < f →
    GenK.oidDecode_loop1 (bs.length : Int) (bytesInts bs) f (i : Int) (ints oid) =
      liftArcs bs.length oid (decodeArcs none (bs.drop i))
  | 0, _, _, _, hf => by omega
  | f + 1, i, oid, hi, hf => by
    unfold GenK.oidDecode_loop1
    by_cases hend : i = bs.length
    · subst hend
      have : ¬ ((bs.length : Int) < (bs.length : Int)) := by omega
      simp [this, List.drop_length, decodeArcs, liftArcs, pure, Except.pure]
    · have hlt : i < bs.length := by omega
      have hc : ((i : Int) < (bs.length : Int)) := by omega
      have hdrop : bs.drop i = bs[i] :: bs.drop (i + 1) := List.drop_eq_getElem_cons hlt
      have e2 : (i : Int) + 1 = ((i + 1 : Nat) : Int) := by omega
      simp only [hc, decide_true, if_true, bind, Except.bind, idx_bytes bs i hlt, hdrop, e2]
      have hb256 : bs[i].toNat < 256 := UInt8.toNat_lt _
      by_cases h1 : bs[i].toNat < 128
      · have : ((bs[i].toNat : Nat) : Int) < 128 := by omega
        simp only [this, decide_true, if_true, pure, Except.pure, decodeArcs, h1]
        rw [liftArcs_map]
        have ih := oidDecode_loop1_spec bs f (i + 1) (oid ++ [bs[i].toNat]) (by omega) (by omega)
        rw [ints_append] at ih
        exact ih
      · have hn1 : ¬ (((bs[i].toNat : Nat) : Int) < 128) := by omega
        simp only [hn1, decide_false, Bool.false_eq_true, if_false, decodeArcs, h1]
        by_cases h2 : bs[i].toNat = 128
        · have hg : ¬ (((bs[i].toNat : Nat) : Int) > 128) := by omega
          have he : (((bs[i].toNat : Nat) : Int) = 128) := by omega
          simp [hg, he, h2, liftArcs]
          rfl
        · have hg : (((bs[i].toNat : Nat) : Int) > 128) := by omega
          simp only [hg, decide_true, if_true, h2, if_false]
          have hl2 := oidDecode_loop2_spec bs (ints oid) (bs.length + 1) 0 bs[i].toNat (i + 1) (by omega) (by omega)
          have hfuel : ((bs.length : Int).toNat + 1) = bs.length + 1 := by omega
          rw [hfuel]
          rw [show (0 : Int) = ((0 : Nat) : Int) from rfl, hl2]
          -- the model, from the same point
          have hsc := scan_rest_le (bs.length + 1) 0 bs[i].toNat (bs.drop (i + 1))
          have hne : ¬ bs[i].toNat < 128 := h1
          cases hrest : bs.drop (i + 1) with
          | nil =>
            simp [scan, hne, decodeArcs, liftArcs]
          | cons b' r =>
            have hm := decodeArcs_some_scan bs.length (bs[i].toNat % 128) b' r (by
              have : (bs.drop (i + 1)).length = bs.length - (i + 1) := List.length_drop
              rw [hrest] at this; simp only [List.length_cons] at this; omega)
            have hscan : scan (bs.length + 1) 0 bs[i].toNat (b' :: r) = scan bs.length (bs[i].toNat % 128) b'.toNat r := by
              simp [scan, hne]
            rw [hscan, hm]
            cases hs : scan bs.length (bs[i].toNat % 128) b'.toNat r with
            | none => simp [liftArcs]
            | some tr =>
              obtain ⟨s', nb', rest'⟩ := tr
              simp only
              have hle := scan_rest_le _ _ _ _ _ _ _ hs
              have hrl : (b' :: r).length = bs.length - (i + 1) := by rw [← hrest]; exact List.length_drop
              simp only [List.length_cons] at hrl
              have hj : bs.length - rest'.length ≤ bs.length := by omega
              have ih := oidDecode_loop1_spec bs f (bs.length - rest'.length) (oid ++ [s' * 128 + nb']) hj (by omega)
              have hdr : bs.drop (bs.length - rest'.length) = rest' := by
                -- rest' is a suffix of bs: it is what scan left of bs.drop (i+1)
                exact scan_suffix bs (i + 1) _ _ _ _ _ (b' :: r) rest' hrest (by rw [hscan]; exact hs)
              rw [hdr] at ih
              rw [liftArcs_map, shl_7]
              have e3 : ((s' * 128 : Nat) : Int) + (nb' : Int) = ((s' * 128 + nb' : Nat) : Int) := by omega
              rw [e3]
              have : ints oid ++ [((s' * 128 + nb' : Nat) : Int)] = ints (oid ++ [s' * 128 + nb']) := by simp [ints]
              rw [this]
              exact ih

theorem decodeArcs_some_ne_nil : ∀ (l : Bytes) (acc : Nat) (arcs : List Nat), decodeArcs (some acc) l = .ok arcs → arcs ≠ []
  | [], _, _, h => by simp [decodeArcs] at h
  | b :: rest, acc, arcs, h => by
    simp only [decodeArcs] at h
    by_cases h1 : b.toNat < 128
    · simp only [h1, if_true] at h
      cases hd : decodeArcs none rest with
      | ok a => rw [hd] at h; simp only [Except.map, Except.ok.injEq] at h; rw [← h]; simp
      | error e => rw [hd] at h; simp [Except.map] at h
    · simp only [h1, if_false] at h
      exact decodeArcs_some_ne_nil rest _ arcs h

theorem decodeArcs_none_ne_nil (b : UInt8) (rest : Bytes) (arcs : List Nat) (h : decodeArcs none (b :: rest) = .ok arcs) :
    arcs ≠ [] := by
  simp only [decodeArcs] at h
  by_cases h1 : b.toNat < 128
  · simp only [h1, if_true] at h
    cases hd : decodeArcs none rest with
    | ok a => rw [hd] at h; simp only [Except.map, Except.ok.injEq] at h; rw [← h]; simp
    | error e => rw [hd] at h; simp [Except.map] at h
  · simp only [h1, if_false] at h
    by_cases h2 : b.toNat = 128
    · simp [h2] at h
    · simp only [h2, if_false] at h
      exact decodeArcs_some_ne_nil rest _ arcs h

/-- outcome of `oidFromContent`, in the vocabulary of the translated code -/
def liftOidDec : Res (List Nat) → Py.M Py.Tup
  | .ok arcs => .ok (ints arcs)
  | .error .underrun => .error (.lib "SubstrateUnderrunError")
  | .error _ => .error (.lib "PyAsn1Error")

/-- **the OBJECT IDENTIFIER payload decoder as it is in the source** (the computation of
    `ObjectIdentifierPayloadDecoder.valueDecoder` between `octs2ints` and the final `yield`) **computes
    the model's `oidFromContent`** for every non-empty contents: same arcs, the same refusal of a leading
    0x80 octet, `SubstrateUnderrunError` exactly when the last sub-identifier is unfinished -/
theorem oidDecode_kernel (bs : Bytes) (hne : bs ≠ []) :
    GenK.oidDecode (bytesInts bs) = liftOidDec (oidFromContent bs) := by
  unfold GenK.oidDecode
  have hl : GenK.oidDecode_loop1 (bs.length : Int) (bytesInts bs) (bs.length + 1) (0 : Int) ([] : Py.Tup) =
      liftArcs bs.length [] (decodeArcs none (bs.drop 0)) :=
    oidDecode_loop1_spec bs (bs.length + 1) 0 [] (by omega) (by omega)
  simp only [bind, Except.bind, len_bytes]
  have hfuel : ((bs.length : Int).toNat + 1) = bs.length + 1 := by omega
  rw [hfuel, hl, List.drop_zero]
  cases bs with
  | nil => exact absurd rfl hne
  | cons b rest =>
    simp only [oidFromContent]
    cases hd : decodeArcs none (b :: rest) with
    | error e =>
      have hnf := decodeArcs_no_fuel none (b :: rest)
      rw [hd] at hnf
      cases e <;> simp_all [liftArcs, liftOidDec]
    | ok arcs =>
      have hna := decodeArcs_none_ne_nil b rest arcs hd
      cases arcs with
      | nil => exact absurd rfl hna
      | cons h tl =>
        simp only [liftArcs, List.nil_append, ints, List.map_cons]
        have hidx : ∀ (x : Int) (l : Py.Tup), Py.idx (x :: l) 0 = .ok x := by intro x l; simp [Py.idx]; rfl
        have hsl : ∀ (x : Int) (l : Py.Tup), Py.sliceFrom (x :: l) 1 = l := by intro x l; simp [Py.sliceFrom]
        simp only [hidx, hsl, pure, Except.pure]
        have hcast : Int.ofNat h = (h : Int) := rfl
        simp only [hcast]
        have h0 : (0 : Int) ≤ (h : Int) := by omega
        by_cases c1 : h ≤ 39
        · have : ((h : Int) ≤ 39) := by omega
          simp [h0, this, c1, liftOidDec, ints]
        · have n1 : ¬ ((h : Int) ≤ 39) := by omega
          by_cases c2 : h ≤ 79
          · have a1 : ((40 : Int) ≤ (h : Int)) := by omega
            have a2 : ((h : Int) ≤ 79) := by omega
            simp only [h0, n1, a1, a2, decide_true, decide_false, Bool.and_false, Bool.and_self, Bool.false_eq_true, if_false,
              if_true, c1, c2, liftOidDec, ints, List.map_cons, List.cons_append, List.nil_append]
            congr 3
            show (h : Int) - 40 = ((h - 40 : Nat) : Int)
            omega
          · have a1 : ((40 : Int) ≤ (h : Int)) := by omega
            have a2 : ¬ ((h : Int) ≤ 79) := by omega
            have a3 : ((h : Int) ≥ 80) := by omega
            simp only [h0, n1, a1, a2, a3, decide_true, decide_false, Bool.and_false, Bool.and_self, Bool.false_eq_true, if_false,
              if_true, c1, c2, liftOidDec, ints, List.map_cons, List.cons_append, List.nil_append]
            congr 3
            show (h : Int) - 80 = ((h - 80 : Nat) : Int)
            omega

end Asn1.Kernels
