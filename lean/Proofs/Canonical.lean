/-
  Proofs.Canonical — the canonical encoders write ONE encoding per abstract value: two values that
  are the same abstract value (`VEq`: SET OF as a multiset, REAL as the number it denotes) get the same
  octets from an encoder that sorts SET OF (CER, DER).
-/
import Proofs.EncSpec
import Proofs.ContainerSort
import Proofs.RealRT

namespace Asn1

/-! ### where `VEq` is plain equality -/

mutual
/-- no REAL and no SET OF inside: `VEq` is equality of values -/
def Ty.exact : Ty → Bool
  | .prim .real => false
  | .prim _ => true
  | .any => true
  | .seq fs => Fields.exact fs
  | .set fs => Fields.exact fs
  | .choice fs => Fields.exact fs
  | .seqOf t => t.exact
  | .setOf _ => false
  | .tagged _ _ _ t => t.exact
def Fields.exact : Fields → Bool
  | .nil => true
  | .cons _ t r => t.exact && Fields.exact r
end

mutual
/-- every DEFAULT member has an exact type (the encoders decide omission with `==` on the stored
    components — the recorded finding T11 is about the types this excludes) -/
def Ty.dfltExact : Ty → Bool
  | .seq fs => Fields.dfltExact fs
  | .set fs => Fields.dfltExact fs
  | .choice fs => Fields.dfltExact fs
  | .seqOf t => t.dfltExact
  | .setOf t => t.dfltExact
  | .tagged _ _ _ t => t.dfltExact
  | .prim _ => true
  | .any => true
def Fields.dfltExact : Fields → Bool
  | .nil => true
  | .cons (.dflt _) t r => t.exact && t.dfltExact && Fields.dfltExact r
  | .cons _ t r => t.dfltExact && Fields.dfltExact r
end

theorem all2_eq {t : Ty} (ih : ∀ a b, VEq t a b → a = b) : ∀ (as bs : List Val), All2 (fun a b => VEq t a b) as bs → as = bs
  | [], [], _ => rfl
  | a :: as, b :: bs, h => by
    simp only [All2] at h
    rw [ih a b h.1, all2_eq ih as bs h.2]
  | [], _ :: _, h => by simp [All2] at h
  | _ :: _, [], h => by simp [All2] at h

mutual
theorem veq_exact : ∀ (t : Ty) (a b : Val), t.exact = true → VEq t a b → a = b
  | .tagged _ _ _ t, a, b, he, h => veq_exact t a b (by simpa [Ty.exact] using he) (by simpa [VEq] using h)
  | .prim p, a, b, he, h => by
    cases p <;> first | (simp [Ty.exact] at he; done) | (simpa [VEq] using h)
  | .any, a, b, _, h => by simpa [VEq] using h
  | .setOf _, _, _, he, _ => by simp [Ty.exact] at he
  | .seqOf t, a, b, he, h => by
    cases a <;> cases b <;> simp only [VEq] at h <;> first | rfl | exact h | skip
    case seqOf.seqOf as bs =>
      rw [all2_eq (fun x y hxy => veq_exact t x y (by simpa [Ty.exact] using he) hxy) as bs h]
  | .seq fs, a, b, he, h => by
    cases a <;> cases b <;> simp only [VEq] at h <;> first | rfl | exact h | skip
    case seq.seq as bs => rw [veq_exactF fs as bs (by simpa [Ty.exact] using he) h]
  | .set fs, a, b, he, h => by
    cases a <;> cases b <;> simp only [VEq] at h <;> first | rfl | exact h | skip
    case seq.seq as bs => rw [veq_exactF fs as bs (by simpa [Ty.exact] using he) h]
  | .choice fs, a, b, he, h => by
    cases a <;> cases b <;> simp only [VEq] at h <;> first | rfl | exact h | skip
    case choice.choice i x j y =>
      obtain ⟨rfl, h2⟩ := h
      rw [veq_exactAlt fs i x y (by simpa [Ty.exact] using he) h2]
theorem veq_exactF : ∀ (fs : Fields) (as bs : List Val), Fields.exact fs = true → VEqFields fs as bs → as = bs
  | .nil, [], [], _, _ => rfl
  | .cons _ t r, a :: as, b :: bs, he, h => by
    simp only [Fields.exact, Bool.and_eq_true] at he
    simp only [VEqFields] at h
    rw [veq_exact t a b he.1 h.1, veq_exactF r as bs he.2 h.2]
  | .nil, _ :: _, _, _, h => by simp [VEqFields] at h
  | .nil, [], _ :: _, _, h => by simp [VEqFields] at h
  | .cons _ _ _, [], _, _, h => by simp [VEqFields] at h
  | .cons _ _ _, _ :: _, [], _, h => by simp [VEqFields] at h
theorem veq_exactAlt : ∀ (fs : Fields) (i : Nat) (a b : Val), Fields.exact fs = true → VEqAlt fs i a b → a = b
  | .nil, _, _, _, _, h => by simp [VEqAlt] at h
  | .cons _ t _, 0, a, b, he, h => by
    simp only [Fields.exact, Bool.and_eq_true] at he
    exact veq_exact t a b he.1 (by simpa [VEqAlt] using h)
  | .cons _ _ r, i + 1, a, b, he, h => by
    simp only [Fields.exact, Bool.and_eq_true] at he
    exact veq_exactAlt r i a b he.2 (by simpa [VEqAlt] using h)
end

/-! ### `absent`, effective tags, skipped members -/

theorem veq_absent_right : ∀ (t : Ty) (v : Val), VEq t v .absent → v = .absent
  | .tagged _ _ _ t, v, h => veq_absent_right t v (by simpa [VEq] using h)
  | .prim p, v, h => by cases p <;> cases v <;> simp_all [VEq]
  | .any, v, h => by simpa [VEq] using h
  | .seq _, v, h => by cases v <;> simp_all [VEq]
  | .set _, v, h => by cases v <;> simp_all [VEq]
  | .seqOf _, v, h => by cases v <;> simp_all [VEq]
  | .setOf _, v, h => by cases v <;> simp_all [VEq]
  | .choice _, v, h => by cases v <;> simp_all [VEq]

theorem veq_absent_left : ∀ (t : Ty) (w : Val), VEq t .absent w → w = .absent
  | .tagged _ _ _ t, w, h => veq_absent_left t w (by simpa [VEq] using h)
  | .prim p, w, h => by cases p <;> cases w <;> simp_all [VEq]
  | .any, w, h => by simp [VEq] at h; exact h.symm
  | .seq _, w, h => by cases w <;> simp_all [VEq]
  | .set _, w, h => by cases w <;> simp_all [VEq]
  | .seqOf _, w, h => by cases w <;> simp_all [VEq]
  | .setOf _, w, h => by cases w <;> simp_all [VEq]
  | .choice _, w, h => by cases w <;> simp_all [VEq]

theorem isAbsent_veq (t : Ty) (v v' : Val) (h : VEq t v v') : (v = .absent) ↔ (v' = .absent) := by
  constructor
  · intro hv; subst hv; exact veq_absent_left t v' h
  · intro hv; subst hv; exact veq_absent_right t v h

theorem skipField_veq (k : FKind) (t : Ty) (v v' : Val) (hk : ∀ d, k = .dflt d → t.exact = true) (h : VEq t v v') :
    skipField k v = skipField k v' := by
  cases k with
  | req => cases v <;> cases v' <;> rfl
  | dflt d => rw [veq_exact t v v' (hk d rfl) h]
  | opt =>
    have := isAbsent_veq t v v' h
    cases v <;> cases v' <;> simp_all [skipField]

theorem tags_tagged_ne (e : Bool) (c : TagClass) (n : Nat) (t : Ty) : (Ty.tagged e c n t).tags.isEmpty = false := by
  cases e with
  | true => simp [Ty.tags]
  | false =>
    simp only [Ty.tags, TagSet.tagImplicitly]
    cases h : t.tags.getLast? <;> simp

theorem effTags_of_tags (t : Ty) (v : Val) (h : t.tags.isEmpty = false) : effTags t v = t.tags := by
  cases v <;> simp [effTags, h]

mutual
theorem effTags_veq : ∀ (t : Ty) (v v' : Val), VEq t v v' → effTags t v = effTags t v'
  | .tagged e c n t, v, v', _ => by
    rw [effTags_of_tags _ v (tags_tagged_ne e c n t), effTags_of_tags _ v' (tags_tagged_ne e c n t)]
  | .prim p, v, v', _ => by
    have : (Ty.prim p).tags.isEmpty = false := by simp [Ty.tags]
    rw [effTags_of_tags _ v this, effTags_of_tags _ v' this]
  | .seq fs, v, v', _ => by
    have : (Ty.seq fs).tags.isEmpty = false := by simp [Ty.tags]
    rw [effTags_of_tags _ v this, effTags_of_tags _ v' this]
  | .set fs, v, v', _ => by
    have : (Ty.set fs).tags.isEmpty = false := by simp [Ty.tags]
    rw [effTags_of_tags _ v this, effTags_of_tags _ v' this]
  | .seqOf t, v, v', _ => by
    have : (Ty.seqOf t).tags.isEmpty = false := by simp [Ty.tags]
    rw [effTags_of_tags _ v this, effTags_of_tags _ v' this]
  | .setOf t, v, v', _ => by
    have : (Ty.setOf t).tags.isEmpty = false := by simp [Ty.tags]
    rw [effTags_of_tags _ v this, effTags_of_tags _ v' this]
  | .any, v, v', h => by
    simp only [VEq] at h; rw [h]
  | .choice fs, v, v', h => by
    cases v <;> cases v' <;> simp only [VEq] at h <;> first | rfl | (rw [h]; done) | (cases h; done) | skip
    case choice.choice i a j b =>
      obtain ⟨rfl, h2⟩ := h
      simp only [effTags, Ty.tags, List.isEmpty_nil, Bool.not_true, Bool.false_eq_true, if_false, Ty.base]
      exact effTags_veqAlt fs i a b h2
theorem effTags_veqAlt : ∀ (fs : Fields) (i : Nat) (a b : Val), VEqAlt fs i a b →
    (match fs.get? i with | some (_, ti) => effTags ti a | none => []) =
    (match fs.get? i with | some (_, ti) => effTags ti b | none => [])
  | .nil, _, _, _, h => by simp [VEqAlt] at h
  | .cons _ t _, 0, a, b, h => by
    simp only [Fields.get?]
    exact effTags_veq t a b (by simpa [VEqAlt] using h)
  | .cons _ _ r, i + 1, a, b, h => by
    simp only [Fields.get?]
    exact effTags_veqAlt r i a b (by simpa [VEqAlt] using h)
end

theorem setKey_veq (ord : SetOrder) (t : Ty) (v v' : Val) (h : VEq t v v') : setKey ord t v = setKey ord t v' := by
  cases t with
  | choice fs =>
    cases ord <;> simp only [setKey]
    exact effTags_veq (.choice fs) v v' h
  | _ => cases ord <;> rfl

/-! ### REAL: the contents depend on the number only -/

theorem real_content_veq (cfg : EncCfg) (o : EncOpts) (a b : RealVal) (hk : realKey a = realKey b) (r : Bytes × Bool)
    (h : encValue cfg o (.prim .real) (.real a) = .ok r) : encValue cfg o (.prim .real) (.real b) = .ok r := by
  cases a with
  | pinf =>
    cases b with
    | pinf => exact h
    | minf => simp [realKey] at hk
    | fin m' bb e' =>
      simp only [realKey] at hk
      split at hk
      · cases hk
      · split at hk <;> cases hk
  | minf =>
    cases b with
    | minf => exact h
    | pinf => simp [realKey] at hk
    | fin m' bb e' =>
      simp only [realKey] at hk
      split at hk
      · cases hk
      · split at hk <;> cases hk
  | fin m ba e =>
    by_cases hm : m = 0
    · subst hm
      cases b with
      | pinf => simp [realKey] at hk
      | minf => simp [realKey] at hk
      | fin m' bb e' =>
        simp only [realKey, if_true] at hk
        by_cases hm' : m' = 0
        · subst hm'; simpa [encValue] using h
        · simp only [hm', if_false] at hk
          by_cases hb : bb = 2
          · simp [hb] at hk
          · simp only [hb, if_false, RealVal.fin.injEq] at hk
            exact absurd hk.1.symm hm'
    · by_cases hba : ba = 2
      · subst hba
        cases b with
        | pinf => simp [realKey, hm] at hk
        | minf => simp [realKey, hm] at hk
        | fin m' bb e' =>
          simp only [realKey, hm, if_false, if_true] at hk
          by_cases hm' : m' = 0
          · subst hm'; simp at hk
          · simp only [hm', if_false] at hk
            by_cases hb : bb = 2
            · subst hb
              simp only [if_true, RealVal.fin.injEq, and_true, true_and] at hk
              obtain ⟨hmant, hexp⟩ := hk
              have n1 := normOdd_ne_zero m.natAbs m.natAbs e (by omega)
              have n2 := normOdd_ne_zero m'.natAbs m'.natAbs e' (by omega)
              have hsign : (m < 0) = (m' < 0) ∧ (normOdd m.natAbs m.natAbs e).1 = (normOdd m'.natAbs m'.natAbs e').1 := by
                by_cases s1 : m < 0 <;> by_cases s2 : m' < 0 <;> simp only [s1, s2, if_true, if_false] at hmant <;>
                  simp [s1, s2] <;> omega
              simp only [encValue, hm, hm', if_false, if_true] at h ⊢
              have hc : realBinToContent m e = realBinToContent m' e' := by
                unfold realBinToContent
                simp only [hm, hm', if_false]
                rw [show (normOdd m.natAbs m.natAbs e) = ((normOdd m.natAbs m.natAbs e).1, (normOdd m.natAbs m.natAbs e).2) from rfl,
                    show (normOdd m'.natAbs m'.natAbs e') = ((normOdd m'.natAbs m'.natAbs e').1, (normOdd m'.natAbs m'.natAbs e').2) from rfl]
                simp only [hsign.2, hexp]
                have : (m < 0) ↔ (m' < 0) := by rw [hsign.1]
                simp only [this]
              rw [← hc]; exact h
            · simp only [hb, if_false, RealVal.fin.injEq] at hk
              exact absurd hk.2.1.symm hb
      · simp [encValue, hm, hba] at h

/-! ### lists of results -/

theorem allOk_eq_ok {α} : ∀ (l : List (Except Err α)) (cs : List α), allOk l = .ok cs ↔ l = cs.map .ok
  | [], cs => by
    constructor
    · intro h; simp only [allOk, Except.ok.injEq] at h; subst h; rfl
    · intro h; cases cs with
      | nil => rfl
      | cons _ _ => simp at h
  | .error e :: rest, cs => by
    constructor
    · intro h; simp [allOk] at h
    · intro h; cases cs <;> simp at h
  | .ok a :: rest, cs => by
    simp only [allOk]
    constructor
    · intro h
      cases hr : allOk rest with
      | error e => rw [hr] at h; simp [Except.map] at h
      | ok cs' =>
        rw [hr] at h
        simp only [Except.map, Except.ok.injEq] at h
        subst h
        simp [(allOk_eq_ok rest cs').mp hr]
    · intro h
      cases cs with
      | nil => simp at h
      | cons c cs' =>
        simp only [List.map_cons, List.cons.injEq, Except.ok.injEq] at h
        rw [(allOk_eq_ok rest cs').mpr h.2, h.1]
        rfl

def okOf {α} : Except Err α → Option α
  | .ok a => some a
  | .error _ => none

theorem filterMap_okOf_map {α} (cs : List α) : (cs.map (Except.ok : α → Except Err α)).filterMap okOf = cs := by
  induction cs with
  | nil => rfl
  | cons c cs ih => simp [okOf, ih]

/-- a permutation of a list of successes is a list of successes, of the permuted results -/
theorem perm_map_ok {α} (cs : List α) (m : List (Except Err α)) (p : (cs.map Except.ok).Perm m) :
    ∃ cs', m = cs'.map .ok ∧ cs.Perm cs' := by
  refine ⟨m.filterMap okOf, ?_, ?_⟩
  · have hall : ∀ x ∈ m, ∃ c, x = .ok c := by
      intro x hx
      have := p.symm.subset hx
      simp only [List.mem_map] at this
      obtain ⟨c, _, rfl⟩ := this
      exact ⟨c, rfl⟩
    clear p
    induction m with
    | nil => rfl
    | cons x m ih =>
      obtain ⟨c, rfl⟩ := hall x (by simp)
      simp only [List.filterMap_cons, okOf, List.map_cons, List.cons.injEq, true_and]
      exact ih (fun y hy => hall y (by simp [hy]))
  · have := p.filterMap okOf
    rwa [filterMap_okOf_map] at this

/-! ### serialisations of well-formed elements are never zero-paddings of one another -/

theorem wf_padInj (l : List Bytes) (h : ∀ c ∈ l, ∃ x : TLV, c = x.ser ∧ x.WF) : PadInj l := by
  intro m a ha b hb e
  obtain ⟨x, rfl, hx⟩ := h a ha
  obtain ⟨y, rfl, hy⟩ := h b hb
  rw [padTo_eq, padTo_eq] at e
  have p1 := parseOne_ser {} x (List.replicate (m - x.ser.length) 0) hx (Or.inl rfl)
  have p2 := parseOne_ser {} y (List.replicate (m - y.ser.length) 0) hy (Or.inl rfl)
  rw [e, p2] at p1
  simp only [Except.ok.injEq, Prod.mk.injEq] at p1
  rw [p1.1]

/-! ### the theorem -/

section Core
variable (cfg : EncCfg) (dm : Bool) (mc : Nat)

mutual
/-- at every SET OF inside the value, each element's encoding is the serialisation of one well-formed
    element (what `encode_spec` establishes in the region; see `setOfOk_of_region`) -/
def SetOfOk : Ty → Val → Prop
  | .tagged _ _ _ t, v => SetOfOk t v
  | .seq fs, .seq vs => SetOfOkF fs vs
  | .set fs, .seq vs => SetOfOkF fs vs
  | .seqOf t, .seqOf vs => ∀ v ∈ vs, SetOfOk t v
  | .setOf t, .seqOf vs =>
    (∀ v ∈ vs, SetOfOk t v) ∧
    ∀ v ∈ vs, ∀ c, finishItem cfg (mkO dm mc false) t (encValue cfg (mkO dm mc false) t v) = .ok c →
      ∃ x : TLV, c = x.ser ∧ x.WF
  | .choice fs, .choice i v => SetOfOkAlt fs i v
  | _, _ => True
def SetOfOkF : Fields → List Val → Prop
  | .cons k t r, v :: vs => (skipField k v = false → SetOfOk t v) ∧ SetOfOkF r vs
  | _, _ => True
def SetOfOkAlt : Fields → Nat → Val → Prop
  | .nil, _, _ => True
  | .cons _ t _, 0, v => SetOfOk t v
  | .cons _ _ r, i + 1, v => SetOfOkAlt r i v
end

/-- from contents to the finished item -/
theorem item_veq {t : Ty} {v v' : Val} {f : Bool} {b : Bytes}
    (h : ∀ r, encValue cfg (mkO dm mc f) t v = .ok r → encValue cfg (mkO dm mc f) t v' = .ok r)
    (hb : finishItem cfg (mkO dm mc f) t (encValue cfg (mkO dm mc f) t v) = .ok b) :
    finishItem cfg (mkO dm mc f) t (encValue cfg (mkO dm mc f) t v') = .ok b := by
  cases hv : encValue cfg (mkO dm mc f) t v with
  | error e => rw [hv] at hb; simp [finishItem] at hb
  | ok r => rw [h r hv]; rw [hv] at hb; exact hb

/-- elementwise equal encodings -/
theorem elems_veq (t : Ty) (g : Val → Except Err Bytes) (P : Val → Prop)
    (ih : ∀ a b, P a → VEq t a b → ∀ c, g a = .ok c → g b = .ok c) :
    ∀ (as bs : List Val) (cs : List Bytes), (∀ a ∈ as, P a) → All2 (fun a b => VEq t a b) as bs →
      as.map g = cs.map .ok → bs.map g = cs.map .ok
  | [], [], cs, _, _, h => h
  | a :: as, b :: bs, cs, hp, hv, h => by
    simp only [All2] at hv
    cases cs with
    | nil => simp at h
    | cons c cs =>
      simp only [List.map_cons, List.cons.injEq] at h ⊢
      exact ⟨ih a b (hp a (by simp)) hv.1 c h.1,
        elems_veq t g P ih as bs cs (fun x hx => hp x (by simp [hx])) hv.2 h.2⟩
  | [], _ :: _, _, _, hv, _ => by simp [All2] at hv
  | _ :: _, [], _, _, hv, _ => by simp [All2] at hv

end Core

section Core
variable (cfg : EncCfg) (dm : Bool) (mc : Nat)

theorem all2_isEmpty {R : Val → Val → Prop} : ∀ (as bs : List Val), All2 R as bs → as.isEmpty = bs.isEmpty
  | [], [], _ => rfl
  | _ :: _, _ :: _, _ => rfl
  | [], _ :: _, h => by simp [All2] at h
  | _ :: _, [], h => by simp [All2] at h

theorem setOfOk_mem {t : Ty} {vs : List Val} (h : SetOfOk cfg dm mc (.setOf t) (.seqOf vs)) :
    (∀ v ∈ vs, SetOfOk cfg dm mc t v) ∧
    ∀ v ∈ vs, ∀ c, finishItem cfg (mkO dm mc false) t (encValue cfg (mkO dm mc false) t v) = .ok c →
      ∃ x : TLV, c = x.ser ∧ x.WF := by
  simpa [SetOfOk] using h

mutual
theorem veq_value (hs : cfg.sortSetOf = true) : ∀ (t : Ty) (v v' : Val) (f : Bool) (r : Bytes × Bool),
    t.dfltExact = true → VEq t v v' → SetOfOk cfg dm mc t v →
    encValue cfg (mkO dm mc f) t v = .ok r → encValue cfg (mkO dm mc f) t v' = .ok r
  | .tagged _ _ _ t, v, v', f, r, hd, hv, hk, h => by
      simp only [encValue] at h ⊢
      exact veq_value hs t v v' f r (by simpa [Ty.dfltExact] using hd) (by simpa [VEq] using hv)
        (by simpa [SetOfOk] using hk) h
  | .prim p, v, v', f, r, _, hv, _, h => by
      cases p with
      | real =>
        cases v <;> cases v' <;> simp only [VEq] at hv <;> first | (cases hv; done) | (cases hv; exact h; done) | skip
        all_goals exact real_content_veq cfg _ _ _ hv r h
      | boolean => have : v = v' := by simpa [VEq] using hv
                   subst this; exact h
      | integer => have : v = v' := by simpa [VEq] using hv
                   subst this; exact h
      | enumerated => have : v = v' := by simpa [VEq] using hv
                      subst this; exact h
      | bitString => have : v = v' := by simpa [VEq] using hv
                     subst this; exact h
      | null => have : v = v' := by simpa [VEq] using hv
                subst this; exact h
      | oid => have : v = v' := by simpa [VEq] using hv
               subst this; exact h
      | str k => have : v = v' := by simpa [VEq] using hv
                 subst this; exact h
  | .any, v, v', f, r, _, hv, _, h => by
      have : v = v' := by simpa [VEq] using hv
      subst this; exact h
  | .seq fs, v, v', f, r, hd, hv, hk, h => by
      cases v <;> cases v' <;> simp only [VEq] at hv <;> first | (cases hv; done) | (cases hv; exact h; done) | skip
      all_goals
        rename_i as bs
        simp only [encValue] at h ⊢
        cases hb : encFields cfg (mkO dm mc f) fs as with
        | error e => rw [hb] at h; simp [Except.map] at h
        | ok b =>
          rw [hb] at h
          rw [veq_fields hs fs as bs f b (by simpa [Ty.dfltExact] using hd) hv (by simpa [SetOfOk] using hk) hb]
          exact h
  | .set fs, v, v', f, r, hd, hv, hk, h => by
      cases v <;> cases v' <;> simp only [VEq] at hv <;> first | (cases hv; done) | (cases hv; exact h; done) | skip
      all_goals
        rename_i as bs
        cases ho : cfg.setOrder with
        | declared =>
          simp only [encValue, ho] at h ⊢
          cases hb : encFields cfg (mkO dm mc f) fs as with
          | error e => rw [hb] at h; simp [Except.map] at h
          | ok b =>
            rw [hb] at h
            rw [veq_fields hs fs as bs f b (by simpa [Ty.dfltExact] using hd) hv (by simpa [SetOfOk] using hk) hb]
            exact h
        | static =>
          simp only [encValue, ho] at h ⊢
          cases hb : encSetMembers cfg (mkO dm mc f) .static fs as with
          | error e => rw [hb] at h; simp at h
          | ok ms =>
            rw [hb] at h
            rw [veq_setMembers hs fs as bs f .static ms (by simpa [Ty.dfltExact] using hd) hv (by simpa [SetOfOk] using hk) hb]
            exact h
        | dynamic =>
          simp only [encValue, ho] at h ⊢
          cases hb : encSetMembers cfg (mkO dm mc f) .dynamic fs as with
          | error e => rw [hb] at h; simp at h
          | ok ms =>
            rw [hb] at h
            rw [veq_setMembers hs fs as bs f .dynamic ms (by simpa [Ty.dfltExact] using hd) hv (by simpa [SetOfOk] using hk) hb]
            exact h
  | .seqOf t, v, v', f, r, hd, hv, hk, h => by
      cases v <;> cases v' <;> simp only [VEq] at hv <;> first | (cases hv; done) | (cases hv; exact h; done) | skip
      all_goals
        rename_i as bs
        simp only [encValue] at h ⊢
        rw [← all2_isEmpty as bs hv]
        by_cases hc : (cfg.seqOfIfNotEmpty && (mkO dm mc f).ifNotEmpty && as.isEmpty) = true
        · simp only [hc, if_true] at h ⊢; exact h
        · simp only [hc, Bool.false_eq_true, if_false] at h ⊢
          have hk' : ∀ v ∈ as, SetOfOk cfg dm mc t v := by simpa [SetOfOk] using hk
          cases hl : allOk (as.map fun v => finishItem cfg (mkO dm mc false) t (encValue cfg (mkO dm mc false) t v)) with
          | error e => rw [hl] at h; simp [Except.map] at h
          | ok cs =>
            rw [hl] at h
            have h1 := (allOk_eq_ok _ cs).mp hl
            have h2 := elems_veq t (fun v => finishItem cfg (mkO dm mc false) t (encValue cfg (mkO dm mc false) t v))
              (fun a => SetOfOk cfg dm mc t a)
              (fun a b hpa hab c hca => item_veq cfg dm mc
                (fun r hr => veq_value hs t a b false r (by simpa [Ty.dfltExact] using hd) hab hpa hr) hca)
              as bs cs hk' hv h1
            rw [(allOk_eq_ok _ cs).mpr h2]
            exact h
  | .setOf t, v, v', f, r, hd, hv, hk, h => by
      cases v <;> cases v' <;> simp only [VEq] at hv <;> first | (cases hv; done) | (cases hv; exact h; done) | skip
      all_goals
        rename_i as bs
        obtain ⟨ms, hv1, hperm⟩ := hv
        obtain ⟨hk1, hk2⟩ := setOfOk_mem cfg dm mc hk
        simp only [encValue] at h ⊢
        cases hl : allOk (as.map fun v => finishItem cfg (mkO dm mc false) t (encValue cfg (mkO dm mc false) t v)) with
        | error e => rw [hl] at h; simp [Except.map] at h
        | ok cs =>
          rw [hl] at h
          have h1 := (allOk_eq_ok _ cs).mp hl
          -- the elements VEq-equal to those of `as`, in the same order, have the same encodings
          have h2 := elems_veq t (fun v => finishItem cfg (mkO dm mc false) t (encValue cfg (mkO dm mc false) t v))
            (fun a => SetOfOk cfg dm mc t a)
            (fun a b hpa hab c hca => item_veq cfg dm mc
              (fun r hr => veq_value hs t a b false r (by simpa [Ty.dfltExact] using hd) hab hpa hr) hca)
            as ms cs hk1 hv1 h1
          -- `bs` is a permutation of them
          have hp : (cs.map Except.ok).Perm (bs.map fun v => finishItem cfg (mkO dm mc false) t (encValue cfg (mkO dm mc false) t v)) := by
            rw [← h2]; exact hperm.map _
          obtain ⟨cs', hm, hcp⟩ := perm_map_ok cs _ hp
          rw [(allOk_eq_ok _ cs').mpr hm]
          simp only [Except.map, hs, if_true] at h ⊢
          -- every chunk is the serialisation of a well-formed element: the padded key is injective
          have hinj : PadInj cs := by
            apply wf_padInj
            intro c hc
            have : Except.ok c ∈ as.map fun v => finishItem cfg (mkO dm mc false) t (encValue cfg (mkO dm mc false) t v) := by
              rw [h1]; exact List.mem_map_of_mem hc
            obtain ⟨a, ha, hca⟩ := List.mem_map.mp this
            exact hk2 a ha c hca
          rw [← sortSetOfChunks_perm hcp hinj]
          exact h
  | .choice fs, v, v', f, r, hd, hv, hk, h => by
      cases v <;> cases v' <;> simp only [VEq] at hv <;> first | (cases hv; done) | (cases hv; exact h; done) | skip
      all_goals
        rename_i i a j b
        obtain ⟨rfl, hv2⟩ := hv
        simp only [encValue] at h ⊢
        cases hb : encAlt cfg (mkO dm mc f) fs i a with
        | error e => rw [hb] at h; simp [Except.map] at h
        | ok bb =>
          rw [hb] at h
          rw [veq_alt hs fs i a b f bb (by simpa [Ty.dfltExact] using hd) hv2 (by simpa [SetOfOk] using hk) hb]
          exact h
theorem veq_fields (hs : cfg.sortSetOf = true) : ∀ (fs : Fields) (vs vs' : List Val) (f : Bool) (b : Bytes),
    Fields.dfltExact fs = true → VEqFields fs vs vs' → SetOfOkF cfg dm mc fs vs →
    encFields cfg (mkO dm mc f) fs vs = .ok b → encFields cfg (mkO dm mc f) fs vs' = .ok b
  | .nil, [], [], _, _, _, _, _, h => h
  | .cons k t rest, v :: vs, v' :: vs', f, b, hd, hv, hk, h => by
      simp only [VEqFields] at hv
      simp only [SetOfOkF] at hk
      have hdd : (∀ d, k = .dflt d → t.exact = true) ∧ t.dfltExact = true ∧ Fields.dfltExact rest = true := by
        cases k <;> simp_all [Fields.dfltExact]
      have hsk := skipField_veq k t v v' hdd.1 hv.1
      simp only [encFields] at h ⊢
      rw [← hsk]
      by_cases hs' : skipField k v = true
      · simp only [hs', if_true] at h ⊢
        exact veq_fields hs rest vs vs' f b hdd.2.2 hv.2 hk.2 h
      · simp only [hs', Bool.false_eq_true, if_false] at h ⊢
        -- the options for this member and the rest
        have ho : ∃ f', (if cfg.seqOmitEmpty = true then { mkO dm mc f with ifNotEmpty := k.isOpt } else mkO dm mc f) = mkO dm mc f' := by
          cases cfg.seqOmitEmpty
          · exact ⟨f, rfl⟩
          · exact ⟨k.isOpt, rfl⟩
        obtain ⟨f', hf'⟩ := ho
        rw [hf'] at h ⊢
        cases hi : finishItem cfg (mkO dm mc f') t (encValue cfg (mkO dm mc f') t v) with
        | error e => rw [hi] at h; simp at h
        | ok bi =>
          rw [hi] at h
          rw [item_veq cfg dm mc (fun r hr => veq_value hs t v v' f' r hdd.2.1 hv.1 (hk.1 (by simpa using hs')) hr) hi]
          cases hr : encFields cfg (mkO dm mc f') rest vs with
          | error e => rw [hr] at h; simp [Except.map] at h
          | ok br =>
            rw [hr] at h
            rw [veq_fields hs rest vs vs' f' br hdd.2.2 hv.2 hk.2 hr]
            exact h
  | .nil, _ :: _, _, _, _, _, hv, _, _ => by simp [VEqFields] at hv
  | .nil, [], _ :: _, _, _, _, hv, _, _ => by simp [VEqFields] at hv
  | .cons _ _ _, [], _, _, _, _, hv, _, _ => by simp [VEqFields] at hv
  | .cons _ _ _, _ :: _, [], _, _, _, hv, _, _ => by simp [VEqFields] at hv
theorem veq_setMembers (hs : cfg.sortSetOf = true) : ∀ (fs : Fields) (vs vs' : List Val) (f : Bool) (ord : SetOrder)
    (ms : List (TagSet × Bytes)),
    Fields.dfltExact fs = true → VEqFields fs vs vs' → SetOfOkF cfg dm mc fs vs →
    encSetMembers cfg (mkO dm mc f) ord fs vs = .ok ms → encSetMembers cfg (mkO dm mc f) ord fs vs' = .ok ms
  | .nil, [], [], _, _, _, _, _, _, h => h
  | .cons k t rest, v :: vs, v' :: vs', f, ord, ms, hd, hv, hk, h => by
      simp only [VEqFields] at hv
      simp only [SetOfOkF] at hk
      have hdd : (∀ d, k = .dflt d → t.exact = true) ∧ t.dfltExact = true ∧ Fields.dfltExact rest = true := by
        cases k <;> simp_all [Fields.dfltExact]
      have hsk := skipField_veq k t v v' hdd.1 hv.1
      simp only [encSetMembers] at h ⊢
      rw [← hsk]
      by_cases hs' : skipField k v = true
      · simp only [hs', if_true] at h ⊢
        exact veq_setMembers hs rest vs vs' f ord ms hdd.2.2 hv.2 hk.2 h
      · simp only [hs', Bool.false_eq_true, if_false] at h ⊢
        have hf' : ({ mkO dm mc f with ifNotEmpty := k.isOpt } : EncOpts) = mkO dm mc k.isOpt := rfl
        rw [hf'] at h ⊢
        cases hi : finishItem cfg (mkO dm mc k.isOpt) t (encValue cfg (mkO dm mc k.isOpt) t v) with
        | error e => rw [hi] at h; simp at h
        | ok bi =>
          rw [hi] at h
          rw [item_veq cfg dm mc (fun r hr => veq_value hs t v v' k.isOpt r hdd.2.1 hv.1 (hk.1 (by simpa using hs')) hr) hi]
          cases hr : encSetMembers cfg (mkO dm mc f) ord rest vs with
          | error e => rw [hr] at h; simp [Except.map] at h
          | ok mr =>
            rw [hr] at h
            rw [veq_setMembers hs rest vs vs' f ord mr hdd.2.2 hv.2 hk.2 hr, ← setKey_veq ord t v v' hv.1]
            exact h
  | .nil, _ :: _, _, _, _, _, _, hv, _, _ => by simp [VEqFields] at hv
  | .nil, [], _ :: _, _, _, _, _, hv, _, _ => by simp [VEqFields] at hv
  | .cons _ _ _, [], _, _, _, _, _, hv, _, _ => by simp [VEqFields] at hv
  | .cons _ _ _, _ :: _, [], _, _, _, _, hv, _, _ => by simp [VEqFields] at hv
theorem veq_alt (hs : cfg.sortSetOf = true) : ∀ (fs : Fields) (i : Nat) (a b : Val) (f : Bool) (bb : Bytes),
    Fields.dfltExact fs = true → VEqAlt fs i a b → SetOfOkAlt cfg dm mc fs i a →
    encAlt cfg (mkO dm mc f) fs i a = .ok bb → encAlt cfg (mkO dm mc f) fs i b = .ok bb
  | .nil, _, _, _, _, _, _, hv, _, _ => by simp [VEqAlt] at hv
  | .cons k t _, 0, a, b, f, bb, hd, hv, hk, h => by
      have hdd : t.dfltExact = true := by cases k <;> simp_all [Fields.dfltExact]
      simp only [encAlt] at h ⊢
      exact item_veq cfg dm mc (fun r hr => veq_value hs t a b f r hdd (by simpa [VEqAlt] using hv)
        (by simpa [SetOfOkAlt] using hk) hr) h
  | .cons k _ rest, i + 1, a, b, f, bb, hd, hv, hk, h => by
      have hdd : Fields.dfltExact rest = true := by cases k <;> simp_all [Fields.dfltExact]
      simp only [encAlt] at h ⊢
      exact veq_alt hs rest i a b f bb hdd (by simpa [VEqAlt] using hv) (by simpa [SetOfOkAlt] using hk) h
end

end Core

/-! ### the side condition holds in the region of the codec theorems -/

section Region
variable (cfg : EncCfg) (pf : Profile) (dm : Bool) (mc : Nat) (hR : EncRegion cfg pf mc)
include hR

mutual
theorem setOfOk_of_region : ∀ (t : Ty) (v : Val), t.reg true cfg dm = true → t.WF = true → HasType t v = true →
    noE3 cfg.seqOmitEmpty t v = true → SetOfOk cfg dm mc t v
  | .tagged e c n t, v, hr, hw, ht, hn => by
      simp only [SetOfOk]
      have hr' : t.reg true cfg dm = true := by simp only [Ty.reg, Bool.and_eq_true] at hr; exact hr.2
      have hw' : t.WF = true := by cases e <;> simp_all [Ty.WF]
      exact setOfOk_of_region t v hr' hw' (by simpa [HasType] using ht) (by simpa [noE3] using hn)
  | .prim p, v, _, _, _, _ => by cases v <;> simp [SetOfOk]
  | .any, v, _, _, _, _ => by cases v <;> simp [SetOfOk]
  | .seq fs, v, hr, hw, ht, hn => by
      cases v <;> simp [HasType] at ht
      rename_i vs
      simp only [SetOfOk]
      simp only [Ty.WF, Bool.and_eq_true] at hw
      exact setOfOkF_of_region fs vs (by simpa [Ty.reg] using hr) hw.1 ht (by simpa [noE3] using hn)
  | .set fs, v, hr, hw, ht, hn => by
      cases v <;> simp [HasType] at ht
      rename_i vs
      simp only [SetOfOk]
      simp only [Ty.WF, Bool.and_eq_true] at hw
      exact setOfOkF_of_region fs vs (by simpa [Ty.reg] using hr) hw.1 ht (by simpa [noE3] using hn)
  | .seqOf t, v, hr, hw, ht, hn => by
      cases v <;> simp [HasType] at ht
      rename_i vs
      simp only [SetOfOk]
      simp only [noE3, List.all_eq_true] at hn
      intro x hx
      exact setOfOk_of_region t x (by simpa [Ty.reg] using hr) (by simpa [Ty.WF] using hw) (ht x hx) (hn x hx)
  | .setOf t, v, hr, hw, ht, hn => by
      cases v <;> simp [HasType] at ht
      rename_i vs
      simp only [SetOfOk]
      simp only [noE3, List.all_eq_true] at hn
      have hr' : t.reg true cfg dm = true := by simpa [Ty.reg] using hr
      have hw' : t.WF = true := by simpa [Ty.WF] using hw
      refine ⟨fun x hx => setOfOk_of_region t x hr' hw' (ht x hx) (hn x hx), ?_⟩
      intro x hx c hc
      obtain ⟨y, hy, hyw, _⟩ := encode_spec cfg pf dm mc hR false rfl t x c hr' hw' (ht x hx) (hn x hx) hc
      exact ⟨y, hy, hyw⟩
  | .choice fs, v, hr, hw, ht, hn => by
      cases v <;> simp [HasType] at ht
      rename_i i w
      simp only [SetOfOk]
      simp only [Ty.WF, Bool.and_eq_true] at hw
      exact setOfOkAlt_of_region fs i w (by simpa [Ty.reg] using hr) hw.1.1 ht (by simpa [noE3] using hn)
theorem setOfOkF_of_region : ∀ (fs : Fields) (vs : List Val), Fields.reg true cfg dm fs = true → Fields.WF fs = true →
    HasFields fs vs = true → noE3F cfg.seqOmitEmpty fs vs = true → SetOfOkF cfg dm mc fs vs
  | .nil, vs, _, _, _, _ => by cases vs <;> simp [SetOfOkF]
  | .cons _ _ _, [], _, _, _, _ => by simp [SetOfOkF]
  | .cons k t r, v :: vs, hr, hw, ht, hn => by
      simp only [Fields.reg, Bool.and_eq_true] at hr
      have hw' : t.WF = true ∧ Fields.WF r = true := by cases k <;> simp_all [Fields.WF]
      simp only [noE3F, Bool.and_eq_true, Bool.or_eq_true] at hn
      simp only [SetOfOkF]
      have hrest : HasFields r vs = true := by
        cases k <;> cases v <;> simp_all [HasFields]
      refine ⟨fun hsk => ?_, setOfOkF_of_region r vs hr.2 hw'.2 hrest hn.2⟩
      have hne : noE3 cfg.seqOmitEmpty t v = true := by
        rcases hn.1 with h1 | h1
        · rw [hsk] at h1; cases h1
        · exact h1.2
      have hty : HasType t v = true := by
        cases k <;> cases v <;> simp_all [HasFields, skipField]
      exact setOfOk_of_region t v hr.1 hw'.1 hty hne
theorem setOfOkAlt_of_region : ∀ (fs : Fields) (i : Nat) (w : Val), Fields.reg true cfg dm fs = true → Fields.WF fs = true →
    HasAlt fs i w = true → noE3Alt cfg.seqOmitEmpty fs i w = true → SetOfOkAlt cfg dm mc fs i w
  | .nil, _, _, _, _, _, _ => by simp [SetOfOkAlt]
  | .cons k t r, 0, w, hr, hw, ht, hn => by
      simp only [Fields.reg, Bool.and_eq_true] at hr
      have hw' : t.WF = true ∧ Fields.WF r = true := by cases k <;> simp_all [Fields.WF]
      simp only [SetOfOkAlt]
      exact setOfOk_of_region t w hr.1 hw'.1 (by simpa [HasAlt] using ht) (by simpa [noE3Alt] using hn)
  | .cons k t r, i + 1, w, hr, hw, ht, hn => by
      simp only [Fields.reg, Bool.and_eq_true] at hr
      have hw' : t.WF = true ∧ Fields.WF r = true := by cases k <;> simp_all [Fields.WF]
      simp only [SetOfOkAlt]
      exact setOfOkAlt_of_region r i w hr.2 hw'.2 (by simpa [HasAlt] using ht) (by simpa [noE3Alt] using hn)
end

end Region

/-- **one encoding per abstract value**: an encoder that sorts SET OF (CER, DER) gives two values that are the same
    abstract value the same octets -/
theorem canonical_encoding (cfg : EncCfg) (pf : Profile) (o : EncOpts) (hi : o.ifNotEmpty = false)
    (hs : cfg.sortSetOf = true) (hR : EncRegion cfg pf (cfg.fixedChunk.getD o.maxChunk))
    (t : Ty) (v v' : Val) (hreg : t.reg true cfg (cfg.fixedDefMode.getD o.defMode) = true) (hwf : t.WF = true)
    (hd : t.dfltExact = true) (hty : HasType t v = true) (hn : noE3 cfg.seqOmitEmpty t v = true)
    (hv : VEq t v v') (b : Bytes) (h : encItem cfg o t v = .ok b) : encItem cfg o t v' = .ok b := by
  have h' : finishItem cfg (mkO (cfg.fixedDefMode.getD o.defMode) (cfg.fixedChunk.getD o.maxChunk) o.ifNotEmpty) t
      (encValue cfg (mkO (cfg.fixedDefMode.getD o.defMode) (cfg.fixedChunk.getD o.maxChunk) o.ifNotEmpty) t v) = .ok b := h
  have hk := setOfOk_of_region cfg pf _ _ hR t v hreg hwf hty hn
  show finishItem cfg (mkO (cfg.fixedDefMode.getD o.defMode) (cfg.fixedChunk.getD o.maxChunk) o.ifNotEmpty) t
      (encValue cfg (mkO (cfg.fixedDefMode.getD o.defMode) (cfg.fixedChunk.getD o.maxChunk) o.ifNotEmpty) t v') = .ok b
  exact item_veq cfg _ _ (fun r hr => veq_value cfg _ _ hs t v v' _ r hd hv hk hr) h'

end Asn1
