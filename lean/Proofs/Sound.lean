/-
  Proofs.Sound — whatever the guided decoder model accepts is a complete value of the guiding type
  (C10, C08 "never a placeholder"), for every input tree, by induction on the type.
-/
import Asn1.Decoder
import Asn1.Typing

namespace Asn1

theorem HasType_ne_absent : ∀ (t : Ty), HasType t .absent = false
  | .tagged _ _ _ t => by simp [HasType, HasType_ne_absent t]
  | .prim p => by cases p <;> simp [HasType]
  | .seq _ => by simp [HasType]
  | .set _ => by simp [HasType]
  | .seqOf _ => by simp [HasType]
  | .setOf _ => by simp [HasType]
  | .choice _ => by simp [HasType]
  | .any => by simp [HasType]

theorem decodeArcs_none_ok : ∀ (bs : Bytes) (o : Option Nat) (l : List Nat),
    decodeArcs o bs = .ok l → True := fun _ _ _ _ => trivial

theorem oidFromContent_len (bs : Bytes) (arcs : List Nat) (h : oidFromContent bs = .ok arcs) :
    arcs.length ≥ 2 := by
  unfold oidFromContent at h
  cases bs with
  | nil => simp at h
  | cons b rest =>
    simp only at h
    cases hd : decodeArcs none (b :: rest) with
    | error e => rw [hd] at h; simp at h
    | ok l =>
      rw [hd] at h
      cases l with
      | nil => simp at h
      | cons x xs =>
        simp only at h
        by_cases h1 : x ≤ 39
        · simp [h1] at h; subst h; simp
        · by_cases h2 : x ≤ 79
          · simp [h1, h2] at h; subst h; simp
          · simp [h1, h2] at h; subst h; simp

theorem realFromContent_ok (bs : Bytes) (r : RealVal) (h : realFromContent bs = .ok r) :
    realOk r = true := by
  cases bs with
  | nil => simp [realFromContent] at h; subst h; rfl
  | cons fo chunk =>
    cases chunk with
    | nil =>
      simp only [realFromContent] at h
      repeat' split at h
      all_goals first
        | (simp at h; done)
        | (injection h with h; subst h; rfl)
    | cons c0 rest0 =>
      simp only [realFromContent] at h
      repeat' split at h
      all_goals first
        | (simp at h; done)
        | (injection h with h; subst h; rfl)

theorem decPrim_sound (cfg : DecCfg) (p : PrimTy) (tlv : TLV) (v : Val)
    (h : decPrim cfg p tlv = .ok v) : HasType (.prim p) v = true := by
  cases p <;> cases tlv <;> simp only [decPrim] at h
  all_goals first
    | (simp at h; done)
    | skip
  · -- boolean
    split at h
    · split at h
      · split at h
        · simp at h; subst h; rfl
        · split at h
          · simp at h; subst h; rfl
          · simp at h
      · simp at h
    · simp at h; subst h; rfl
  · simp at h; subst h; rfl
  · simp at h; subst h; rfl
  · -- bitString prim
    cases hb : bitsFromContent ‹Bytes› with
    | error e => rw [hb] at h; simp [Except.map] at h
    | ok bs => rw [hb] at h; simp [Except.map] at h; subst h; rfl
  · -- bitString cons
    split at h
    · simp at h
    · split at h
      · split at h
        · simp at h
        · rename_i frags _
          cases hc : concatBitFrags frags with
          | error e => rw [hc] at h; simp [Except.map] at h
          | ok bs => rw [hc] at h; simp [Except.map] at h; subst h; rfl
      · simp at h
  · -- null
    split at h
    · simp at h; subst h; rfl
    · simp at h
  · -- oid
    cases ho : oidFromContent ‹Bytes› with
    | error e => rw [ho] at h; simp [Except.map] at h
    | ok arcs =>
      rw [ho] at h; simp [Except.map] at h; subst h
      simpa [HasType] using oidFromContent_len _ _ ho
  · -- real
    cases hr : realFromContent ‹Bytes› with
    | error e => rw [hr] at h; simp [Except.map] at h
    | ok r =>
      rw [hr] at h; simp [Except.map] at h; subst h
      simpa [HasType] using realFromContent_ok _ _ hr
  · simp at h; subst h; rfl
  · -- str cons
    split at h
    · cases hs : decSegments 4 ‹List TLV› with
      | error e => rw [hs] at h; simp [Except.map] at h
      | ok fs => rw [hs] at h; simp [Except.map] at h; subst h; rfl
    · simp at h


/-- component vector under construction by the SET decoder: every entry is a value of the member's
    type, or (for members without DEFAULT) still `absent` -/
def PartialFields : Fields → List Val → Bool
  | .nil, [] => true
  | .cons (.dflt _) t rest, v :: vs => HasType t v && PartialFields rest vs
  | .cons _ t rest, v :: vs => (v == .absent || HasType t v) && PartialFields rest vs
  | _, _ => false

theorem absent_beq : (Val.absent == Val.absent) = true := by
  simp [BEq.beq, Val.beq]

theorem partial_defaults : ∀ (fs : Fields), Fields.WF fs = true → PartialFields fs (defaultsOf fs) = true
  | .nil, _ => rfl
  | .cons .req t rest, h => by
      simp only [Fields.WF, Bool.and_eq_true] at h
      simp [defaultsOf, PartialFields, partial_defaults rest h.2, absent_beq]
  | .cons .opt t rest, h => by
      simp only [Fields.WF, Bool.and_eq_true] at h
      simp [defaultsOf, PartialFields, partial_defaults rest h.2, absent_beq]
  | .cons (.dflt d) t rest, h => by
      simp only [Fields.WF, Bool.and_eq_true] at h
      simp [defaultsOf, PartialFields, partial_defaults rest h.2, h.1.2]

theorem partial_allPresent : ∀ (fs : Fields) (vs : List Val),
    PartialFields fs vs = true → allPresent fs vs = true → HasFields fs vs = true
  | .nil, [], _, _ => rfl
  | .nil, _ :: _, h, _ => by simp [PartialFields] at h
  | .cons .req _ _, [], h, _ => by simp [PartialFields] at h
  | .cons .opt _ _, [], h, _ => by simp [PartialFields] at h
  | .cons (.dflt _) _ _, [], h, _ => by simp [PartialFields] at h
  | .cons .req t rest, v :: vs, h, ha => by
      simp only [PartialFields, Bool.and_eq_true, Bool.or_eq_true] at h
      obtain ⟨hv, hr⟩ := h
      cases v with
      | absent => simp [allPresent] at ha
      | _ =>
        simp only [allPresent] at ha
        have := partial_allPresent rest vs hr ha
        rcases hv with hv | hv
        · simp [BEq.beq, Val.beq] at hv
        · simp [HasFields, hv, this]
  | .cons .opt t rest, v :: vs, h, ha => by
      simp only [PartialFields, Bool.and_eq_true, Bool.or_eq_true] at h
      obtain ⟨hv, hr⟩ := h
      cases v with
      | absent =>
        simp only [allPresent] at ha
        simp [HasFields, partial_allPresent rest vs hr ha]
      | _ =>
        simp only [allPresent] at ha
        have := partial_allPresent rest vs hr ha
        rcases hv with hv | hv
        · simp [BEq.beq, Val.beq] at hv
        · simp [HasFields, hv, this]
  | .cons (.dflt d) t rest, v :: vs, h, ha => by
      simp only [PartialFields, Bool.and_eq_true] at h
      obtain ⟨hv, hr⟩ := h
      cases v with
      | absent => simp [HasType_ne_absent] at hv
      | _ =>
        simp only [allPresent] at ha
        have := partial_allPresent rest vs hr ha
        simp [HasFields, hv, this]

def fieldTy : Fields → Nat → Option Ty
  | .nil, _ => none
  | .cons _ t _, 0 => some t
  | .cons _ _ rest, i + 1 => fieldTy rest i

theorem setAt_partial : ∀ (fs : Fields) (acc : List Val) (i : Nat) (t : Ty) (v : Val),
    PartialFields fs acc = true → fieldTy fs i = some t → HasType t v = true →
    PartialFields fs (setAt acc i v) = true
  | .nil, _, _, _, _, _, hf, _ => by simp [fieldTy] at hf
  | .cons _ _ _, [], _, _, _, hp, _, _ => by cases ‹FKind› <;> simp [PartialFields] at hp
  | .cons k t0 rest, a :: acc, 0, t, v, hp, hf, hv => by
      simp only [fieldTy, Option.some.injEq] at hf
      subst hf
      cases k <;> simp only [PartialFields, Bool.and_eq_true, Bool.or_eq_true] at hp ⊢ <;>
        simp [setAt, PartialFields, hv, hp.2]
  | .cons k t0 rest, a :: acc, i + 1, t, v, hp, hf, hv => by
      simp only [fieldTy] at hf
      cases k <;> simp only [PartialFields, Bool.and_eq_true] at hp <;>
        simp [setAt, PartialFields, hp.1, setAt_partial rest acc i t v hp.2 hf hv]

theorem decSet_sound (cfg : DecCfg) (fs : Fields)
    (hm : ∀ i tlv k w, decMember cfg fs i tlv = .ok (k, w) →
      ∃ j t, k = i + j ∧ fieldTy fs j = some t ∧ HasType t w = true) :
    ∀ (cs : List TLV) (acc vs : List Val), PartialFields fs acc = true →
      decSet cfg fs cs acc = .ok vs → PartialFields fs vs = true
  | [], acc, vs, hp, h => by
      simp only [decSet, Except.ok.injEq] at h; subst h; exact hp
  | c :: cs, acc, vs, hp, h => by
      simp only [decSet] at h
      cases hd : decMember cfg fs 0 c with
      | error e => rw [hd] at h; simp at h
      | ok pr =>
        obtain ⟨k, w⟩ := pr
        rw [hd] at h
        simp only at h
        obtain ⟨j, t, hk, hf, hw⟩ := hm 0 c k w hd
        have hk' : k = j := by omega
        subst hk'
        exact decSet_sound cfg fs hm cs _ vs (setAt_partial fs acc k t w hp hf hw) h

theorem decElems_sound (cfg : DecCfg) (t : Ty)
    (ht : ∀ tlv v, decTy cfg t tlv = .ok v → HasType t v = true) :
    ∀ (cs : List TLV) (vs : List Val), decElems cfg t cs = .ok vs →
      vs.all (fun v => HasType t v) = true
  | [], vs, h => by simp only [decElems, Except.ok.injEq] at h; subst h; rfl
  | c :: cs, vs, h => by
      simp only [decElems] at h
      cases hd : decTy cfg t c with
      | error e => rw [hd] at h; simp at h
      | ok v =>
        rw [hd] at h
        simp only at h
        cases hr : decElems cfg t cs with
        | error e => rw [hr] at h; simp [Except.map] at h
        | ok rest =>
          rw [hr] at h
          simp only [Except.map, Except.ok.injEq] at h
          subst h
          simp [ht c v hd, decElems_sound cfg t ht cs rest hr]

theorem map_ok_inv {α β} (f : α → β) (r : Res α) (b : β) (h : Except.map f r = .ok b) :
    ∃ a, r = .ok a ∧ f a = b := by
  cases r with
  | error e => simp [Except.map] at h
  | ok a => simp [Except.map] at h; exact ⟨a, rfl, h⟩

mutual
theorem sound_ty (cfg : DecCfg) : ∀ (t : Ty) (tlv : TLV) (v : Val),
    t.WF = true → decTy cfg t tlv = .ok v → HasType t v = true
  | .tagged true cls num t, tlv, v, hw, h => by
      simp only [Ty.WF, Bool.and_eq_true] at hw
      unfold decTy at h
      split at h
      · split at h
        · simpa [HasType] using sound_ty cfg t _ v hw.2 h
        · simp at h
      · simp at h
  | .tagged false cls num t, tlv, v, hw, h => by
      simp only [Ty.WF] at hw
      simp only [decTy] at h
      split at h
      · simpa [HasType] using sound_body cfg t tlv v hw h
      · simp at h
  | .choice fs, tlv, v, hw, h => by
      simp only [Ty.WF, Bool.and_eq_true] at hw
      simp only [decTy] at h
      obtain ⟨j, w, rfl, hj⟩ := sound_alt cfg fs 0 tlv v hw.1.1 h
      simpa [HasType] using hj
  | .any, tlv, v, _, h => by
      simp only [decTy] at h
      split at h
      · simp only [Except.ok.injEq] at h; subst h; rfl
      · simp at h
  | .prim p, tlv, v, _, h => by
      simp only [decTy] at h
      split at h
      · exact decPrim_sound cfg p tlv v h
      · simp at h
  | .seq fs, tlv, v, hw, h => by
      simp only [decTy] at h
      split at h
      · exact sound_body cfg (.seq fs) tlv v hw h
      · simp at h
  | .seqOf t, tlv, v, hw, h => by
      simp only [decTy] at h
      split at h
      · exact sound_body cfg (.seqOf t) tlv v hw h
      · simp at h
  | .set fs, tlv, v, hw, h => by
      simp only [decTy] at h
      split at h
      · exact sound_body cfg (.set fs) tlv v hw h
      · simp at h
  | .setOf t, tlv, v, hw, h => by
      simp only [decTy] at h
      split at h
      · exact sound_body cfg (.setOf t) tlv v hw h
      · simp at h
theorem sound_body (cfg : DecCfg) : ∀ (t : Ty) (tlv : TLV) (v : Val),
    t.WF = true → decBody cfg t tlv = .ok v → HasType t v = true
  | .tagged true cls num t, tlv, v, hw, h => by
      simp only [Ty.WF, Bool.and_eq_true] at hw
      unfold decBody at h
      split at h
      · simpa [HasType] using sound_ty cfg t _ v hw.2 h
      · simp at h
  | .tagged false cls num t, tlv, v, hw, h => by
      simp only [Ty.WF] at hw
      simp only [decBody] at h
      simpa [HasType] using sound_body cfg t tlv v hw h
  | .prim p, tlv, v, _, h => by
      simp only [decBody] at h
      exact decPrim_sound cfg p tlv v h
  | .seq fs, tlv, v, hw, h => by
      simp only [Ty.WF, Bool.and_eq_true] at hw
      cases tlv with
      | prim => simp [decBody] at h
      | cons hd tg i cs =>
        simp only [decBody] at h
        obtain ⟨vs, hvs, rfl⟩ := map_ok_inv _ _ _ h
        simpa [HasType] using sound_fields cfg fs cs vs hw.1 hvs
  | .set fs, tlv, v, hw, h => by
      simp only [Ty.WF, Bool.and_eq_true] at hw
      cases tlv with
      | prim => simp [decBody] at h
      | cons hd tg i cs =>
        simp only [decBody] at h
        cases hs : decSet cfg fs cs (defaultsOf fs) with
        | error e => rw [hs] at h; simp at h
        | ok vs =>
          rw [hs] at h
          simp only at h
          split at h
          · rename_i hall
            simp only [Except.ok.injEq] at h; subst h
            have hp := decSet_sound cfg fs (fun i tlv k w hm => sound_member cfg fs i tlv k w hw.1 hm)
              cs _ vs (partial_defaults fs hw.1) hs
            simpa [HasType] using partial_allPresent fs vs hp hall
          · simp at h
  | .seqOf t, tlv, v, hw, h => by
      simp only [Ty.WF] at hw
      cases tlv with
      | prim => simp [decBody] at h
      | cons hd tg i cs =>
        simp only [decBody] at h
        obtain ⟨vs, hvs, rfl⟩ := map_ok_inv _ _ _ h
        simpa [HasType] using decElems_sound cfg t (fun tlv v hd => sound_ty cfg t tlv v hw hd) cs vs hvs
  | .setOf t, tlv, v, hw, h => by
      simp only [Ty.WF] at hw
      cases tlv with
      | prim => simp [decBody] at h
      | cons hd tg i cs =>
        simp only [decBody] at h
        obtain ⟨vs, hvs, rfl⟩ := map_ok_inv _ _ _ h
        simpa [HasType] using decElems_sound cfg t (fun tlv v hd => sound_ty cfg t tlv v hw hd) cs vs hvs
  | .choice fs, tlv, v, hw, h => by
      simp only [Ty.WF, Bool.and_eq_true] at hw
      cases tlv with
      | prim => simp [decBody] at h
      | cons hd tg i cs =>
        match cs, h with
        | [child], h =>
          simp only [decBody] at h
          obtain ⟨j, w, rfl, hj⟩ := sound_alt cfg fs 0 child v hw.1.1 h
          simpa [HasType] using hj
        | [], h => simp [decBody] at h
        | _ :: _ :: _, h => simp [decBody] at h
  | .any, tlv, v, _, h => by
      cases tlv with
      | prim hd tg c => simp only [decBody, Except.ok.injEq] at h; subst h; rfl
      | cons hd tg i cs =>
        simp only [decBody] at h
        split at h
        · simp only [Except.ok.injEq] at h; subst h; rfl
        · simp at h
theorem sound_alt (cfg : DecCfg) : ∀ (fs : Fields) (i : Nat) (tlv : TLV) (v : Val),
    Fields.WF fs = true → decAlt cfg fs i tlv = .ok v →
    ∃ j w, v = .choice (i + j) w ∧ HasAlt fs j w = true
  | .nil, _, _, _, _, h => by simp [decAlt] at h
  | .cons k t rest, i, tlv, v, hw, h => by
      have hwt : t.WF = true ∧ Fields.WF rest = true := by
        cases k <;> simp only [Fields.WF, Bool.and_eq_true] at hw
        · exact hw
        · exact hw
        · exact ⟨hw.1.1, hw.2⟩
      simp only [decAlt] at h
      split at h
      · obtain ⟨w, hw', rfl⟩ := map_ok_inv _ _ _ h
        exact ⟨0, w, rfl, by simpa [HasAlt] using sound_ty cfg t tlv w hwt.1 hw'⟩
      · obtain ⟨j, w, rfl, hj⟩ := sound_alt cfg rest (i + 1) tlv v hwt.2 h
        exact ⟨j + 1, w, by congr 1; omega, by simpa [HasAlt] using hj⟩
theorem sound_fields (cfg : DecCfg) : ∀ (fs : Fields) (cs : List TLV) (vs : List Val),
    Fields.WF fs = true → decFields cfg fs cs = .ok vs → HasFields fs vs = true
  | .nil, [], vs, _, h => by simp only [decFields, Except.ok.injEq] at h; subst h; rfl
  | .nil, _ :: _, vs, _, h => by simp [decFields] at h
  | .cons .req t rest, [], vs, _, h => by simp [decFields] at h
  | .cons .opt t rest, [], vs, hw, h => by
      simp only [Fields.WF, Bool.and_eq_true] at hw
      simp only [decFields] at h
      obtain ⟨r, hr, rfl⟩ := map_ok_inv _ _ _ h
      simpa [HasFields] using sound_fields cfg rest [] r hw.2 hr
  | .cons (.dflt d) t rest, [], vs, hw, h => by
      simp only [Fields.WF, Bool.and_eq_true] at hw
      simp only [decFields] at h
      obtain ⟨r, hr, rfl⟩ := map_ok_inv _ _ _ h
      have := sound_fields cfg rest [] r hw.2 hr
      cases d <;> simp [HasFields, hw.1.2, this] <;> simp [HasType_ne_absent] at hw
  | .cons .req t rest, c :: cs, vs, hw, h => by
      simp only [Fields.WF, Bool.and_eq_true] at hw
      simp only [decFields] at h
      cases hd : decTy cfg t c with
      | error e => rw [hd] at h; simp at h
      | ok v =>
        rw [hd] at h
        simp only at h
        obtain ⟨r, hr, rfl⟩ := map_ok_inv _ _ _ h
        have h1 := sound_ty cfg t c v hw.1 hd
        have h2 := sound_fields cfg rest cs r hw.2 hr
        cases v <;> simp [HasFields, h1, h2] <;> simp [HasType_ne_absent] at h1
  | .cons .opt t rest, c :: cs, vs, hw, h => by
      simp only [Fields.WF, Bool.and_eq_true] at hw
      simp only [decFields] at h
      split at h
      · cases hd : decTy cfg t c with
        | error e => rw [hd] at h; simp at h
        | ok v =>
          rw [hd] at h
          simp only at h
          obtain ⟨r, hr, rfl⟩ := map_ok_inv _ _ _ h
          have h1 := sound_ty cfg t c v hw.1 hd
          have h2 := sound_fields cfg rest cs r hw.2 hr
          cases v <;> simp [HasFields, h1, h2]
      · obtain ⟨r, hr, rfl⟩ := map_ok_inv _ _ _ h
        simpa [HasFields] using sound_fields cfg rest (c :: cs) r hw.2 hr
  | .cons (.dflt d) t rest, c :: cs, vs, hw, h => by
      simp only [Fields.WF, Bool.and_eq_true] at hw
      simp only [decFields] at h
      split at h
      · cases hd : decTy cfg t c with
        | error e => rw [hd] at h; simp at h
        | ok v =>
          rw [hd] at h
          simp only at h
          obtain ⟨r, hr, rfl⟩ := map_ok_inv _ _ _ h
          have h1 := sound_ty cfg t c v hw.1.1 hd
          have h2 := sound_fields cfg rest cs r hw.2 hr
          cases v <;> simp [HasFields, h1, h2] <;> simp [HasType_ne_absent] at h1
      · obtain ⟨r, hr, rfl⟩ := map_ok_inv _ _ _ h
        have := sound_fields cfg rest (c :: cs) r hw.2 hr
        cases d <;> simp [HasFields, hw.1.2, this] <;> simp [HasType_ne_absent] at hw
theorem sound_member (cfg : DecCfg) : ∀ (fs : Fields) (i : Nat) (tlv : TLV) (k : Nat) (w : Val),
    Fields.WF fs = true → decMember cfg fs i tlv = .ok (k, w) →
    ∃ j t, k = i + j ∧ fieldTy fs j = some t ∧ HasType t w = true
  | .nil, _, _, _, _, _, h => by simp [decMember] at h
  | .cons kd t rest, i, tlv, k, w, hw, h => by
      have hwt : t.WF = true ∧ Fields.WF rest = true := by
        cases kd <;> simp only [Fields.WF, Bool.and_eq_true] at hw
        · exact hw
        · exact hw
        · exact ⟨hw.1.1, hw.2⟩
      simp only [decMember] at h
      split at h
      · obtain ⟨w', hw', he⟩ := map_ok_inv _ _ _ h
        simp only [Prod.mk.injEq] at he
        obtain ⟨rfl, rfl⟩ := he
        exact ⟨0, t, rfl, rfl, sound_ty cfg t tlv w' hwt.1 hw'⟩
      · obtain ⟨j, t', rfl, hf, ht⟩ := sound_member cfg rest (i + 1) tlv k w hwt.2 h
        exact ⟨j + 1, t', by omega, by simpa [fieldTy] using hf, ht⟩
end

end Asn1
