/-
  Proofs.Parse — the syntactic layer: for every well-formed TLV tree `t` (any tag, any legal
  length form, definite or indefinite at every constructed level, no bound on size or depth)
    * `parse (t.ser ++ tail) = (t, tail)`                     (exact consumption, tail preserved)
    * `parse` of every proper prefix of `t.ser` is `underrun`  (truncation is never "malformed")
-/
import Asn1.TLV
import Proofs.TagLen

namespace Asn1

/-- `hdr` is an identifier followed by length octets that decode to `(tag, len)` before any tail -/
def HdrOk (hdr : Bytes) (tag : Tag) (len : Len) : Prop :=
  ∃ tb lb, hdr = tb ++ lb ∧
    (∀ r, decodeTag (tb ++ r) = .ok (tag, r)) ∧ (∀ r, decodeLength (lb ++ r) = .ok (len, r))

/-- does not look like an end-of-octets marker -/
def NotEoo (b : Bytes) : Prop := ∀ rest, b ≠ 0 :: 0 :: rest

mutual
/-- well-formed trees: headers describe their contents; indefinite only on constructed elements,
    whose children never start with `00 00` -/
def TLV.WF : TLV → Prop
  | .prim h tag c => HdrOk h tag (.definite c.length) ∧ tag.constructed = false
  | .cons h tag false cs =>
      HdrOk h tag (.definite (serList cs).length) ∧ tag.constructed = true ∧ WFs cs
  | .cons h tag true cs =>
      HdrOk h tag .indefinite ∧ tag.constructed = true ∧ WFs cs ∧ NoEooL cs
def WFs : List TLV → Prop
  | [] => True
  | c :: cs => c.WF ∧ WFs cs
def NoEooL : List TLV → Prop
  | [] => True
  | c :: cs => NotEoo c.ser ∧ NoEooL cs
end

mutual
/-- no indefinite length anywhere (what a decoder with `supportIndefLength = False` can read) -/
def TLV.allDef : TLV → Bool
  | .prim .. => true
  | .cons _ _ indef cs => !indef && allDefL cs
def allDefL : List TLV → Bool
  | [] => true
  | c :: cs => c.allDef && allDefL cs
end

mutual
/-- the length form of one mode at every constructed level: definite everywhere under `dm = true` (= `allDef`),
    indefinite at every constructed node under `dm = false` (primitive nodes are always definite) - X.690 9.1 / 10.1 -/
def TLV.lenForm (dm : Bool) : TLV → Bool
  | .prim .. => true
  | .cons _ _ indef cs => (indef == !dm) && lenFormL dm cs
def lenFormL (dm : Bool) : List TLV → Bool
  | [] => true
  | c :: cs => c.lenForm dm && lenFormL dm cs
end

mutual
theorem TLV.lenForm_true : ∀ (x : TLV), x.lenForm true = x.allDef
  | .prim .. => rfl
  | .cons _ _ indef cs => by
    simp only [TLV.lenForm, TLV.allDef, lenFormL_true cs]
    cases indef <;> rfl
theorem lenFormL_true : ∀ (cs : List TLV), lenFormL true cs = allDefL cs
  | [] => rfl
  | c :: cs => by simp only [lenFormL, allDefL, TLV.lenForm_true c, lenFormL_true cs]
end

theorem lenForm_allDef {dm : Bool} {x : TLV} (h : x.lenForm dm = true) (hd : dm = true) : x.allDef = true := by
  subst hd; rw [← TLV.lenForm_true]; exact h

/-- the tree is readable under `cfg` -/
def TLV.okFor (cfg : ParseCfg) (t : TLV) : Prop := cfg.allowIndef = true ∨ t.allDef = true
def okForL (cfg : ParseCfg) (ts : List TLV) : Prop := cfg.allowIndef = true ∨ allDefL ts = true

theorem serList_append (a b : List TLV) : serList (a ++ b) = serList a ++ serList b := by
  induction a with
  | nil => simp [serList]
  | cons x xs ih => simp [serList, ih]

theorem HdrOk.length_ge {h tag len} (hk : HdrOk h tag len) : 2 ≤ h.length := by
  obtain ⟨tb, lb, rfl, ht, hl⟩ := hk
  have h1 : tb ≠ [] := by
    intro e; subst e
    have := ht []
    simp [decodeTag] at this
  have h2 : lb ≠ [] := by
    intro e; subst e
    have := hl []
    simp [decodeLength] at this
  have := List.length_pos_iff.mpr h1
  have := List.length_pos_iff.mpr h2
  simp; omega

theorem TLV.ser_length_ge : ∀ (t : TLV), t.WF → 2 ≤ t.ser.length
  | .prim h tag c, hw => by
      have := hw.1.length_ge
      simp [TLV.ser]; omega
  | .cons h tag false cs, hw => by
      have := hw.1.length_ge
      simp [TLV.ser]; omega
  | .cons h tag true cs, hw => by
      have := hw.1.length_ge
      simp [TLV.ser]; omega

/-- reading the header of `h ++ rest` -/
theorem parse_header {h : Bytes} {tag : Tag} {len : Len} (hk : HdrOk h tag len) (rest : Bytes) :
    ∃ r1, decodeTag (h ++ rest) = .ok (tag, r1) ∧ decodeLength r1 = .ok (len, rest) ∧
      (h ++ rest).take ((h ++ rest).length - rest.length) = h := by
  obtain ⟨tb, lb, rfl, ht, hl⟩ := hk
  refine ⟨lb ++ rest, ?_, hl rest, ?_⟩
  · rw [List.append_assoc]; exact ht _
  · have : (tb ++ lb ++ rest).length - rest.length = (tb ++ lb).length := by
      simp only [List.length_append]; omega
    rw [this, List.take_left']
    rfl

theorem parse_prim_step (cfg : ParseCfg) (f : Nat) (bs : Bytes) (tag : Tag) (n : Nat) (r1 r2 : Bytes)
    (h1 : decodeTag bs = .ok (tag, r1)) (h2 : decodeLength r1 = .ok (.definite n, r2))
    (hn : n ≤ r2.length) (hc : tag.constructed = false) :
    parse cfg (f + 1) bs = .ok (.prim (bs.take (bs.length - r2.length)) tag (r2.take n), r2.drop n) := by
  rw [parse, h1]
  simp only [h2, hn, hc]
  simp
theorem parse_consDef_step (cfg : ParseCfg) (f : Nat) (bs : Bytes) (tag : Tag) (n : Nat) (r1 r2 : Bytes)
    (cs : List TLV)
    (h1 : decodeTag bs = .ok (tag, r1)) (h2 : decodeLength r1 = .ok (.definite n, r2))
    (hn : n ≤ r2.length) (hc : tag.constructed = true)
    (hall : parseAll cfg f (r2.take n) = .ok cs) :
    parse cfg (f + 1) bs = .ok (.cons (bs.take (bs.length - r2.length)) tag false cs, r2.drop n) := by
  rw [parse, h1]
  simp only [h2, hn, hc, hall, underrunToMalformed]
  simp
theorem parse_indef_step (cfg : ParseCfg) (f : Nat) (bs : Bytes) (tag : Tag) (r1 r2 rest : Bytes)
    (cs : List TLV)
    (h1 : decodeTag bs = .ok (tag, r1)) (h2 : decodeLength r1 = .ok (.indefinite, r2))
    (hi : cfg.allowIndef = true) (hc : tag.constructed = true)
    (hall : parseUntilEoo cfg f r2 = .ok (cs, rest)) :
    parse cfg (f + 1) bs = .ok (.cons (bs.take (bs.length - r2.length)) tag true cs, rest) := by
  rw [parse, h1]
  simp only [h2, hi, hc, hall]
  simp

theorem take_append_self (a b : Bytes) : (a ++ b).take a.length = a := by
  simp

theorem drop_append_self (a b : Bytes) : (a ++ b).drop a.length = b := by
  simp

mutual
/-- **exact consumption**: a well-formed element followed by anything parses to itself and the tail -/
theorem parse_ser (cfg : ParseCfg) : ∀ (t : TLV) (f : Nat) (tail : Bytes),
    t.WF → t.okFor cfg → t.ser.length ≤ f → parse cfg f (t.ser ++ tail) = .ok (t, tail)
  | .prim h tag c, f, tail, hw, _, hf => by
      obtain ⟨hk, hc⟩ := hw
      have hlen := hk.length_ge
      obtain ⟨f', rfl⟩ : ∃ f', f = f' + 1 := ⟨f - 1, by simp [TLV.ser] at hf; omega⟩
      obtain ⟨r1, h1, h2, h3⟩ := parse_header hk (c ++ tail)
      simp only [TLV.ser, List.append_assoc]
      rw [parse_prim_step cfg f' _ tag c.length r1 (c ++ tail) h1 h2 (by simp) hc, h3]
      simp
  | .cons h tag false cs, f, tail, hw, ho, hf => by
      obtain ⟨hk, hc, hws⟩ := hw
      have hlen := hk.length_ge
      obtain ⟨f', rfl⟩ : ∃ f', f = f' + 1 := ⟨f - 1, by simp [TLV.ser] at hf; omega⟩
      obtain ⟨r1, h1, h2, h3⟩ := parse_header hk (serList cs ++ tail)
      have ho' : okForL cfg cs := by
        rcases ho with ho | ho
        · exact Or.inl ho
        · right; simp [TLV.allDef] at ho; exact ho
      have hall := parseAll_ser cfg cs f' hws ho' (by simp [TLV.ser] at hf; omega)
      simp only [TLV.ser, List.append_assoc, List.append_nil, Bool.false_eq_true, if_false]
      rw [parse_consDef_step cfg f' _ tag (serList cs).length r1 (serList cs ++ tail) cs h1 h2
        (by simp) hc (by simpa using hall), h3]
      simp
  | .cons h tag true cs, f, tail, hw, ho, hf => by
      obtain ⟨hk, hc, hws, hne⟩ := hw
      have hlen := hk.length_ge
      obtain ⟨f', rfl⟩ : ∃ f', f = f' + 1 := ⟨f - 1, by simp [TLV.ser] at hf; omega⟩
      obtain ⟨r1, h1, h2, h3⟩ := parse_header hk (serList cs ++ (eooBytes ++ tail))
      have hi : cfg.allowIndef = true := by
        rcases ho with ho | ho
        · exact ho
        · simp [TLV.allDef] at ho
      have ho' : okForL cfg cs := Or.inl hi
      have hall := parseUntil_ser cfg cs f' tail hws hne ho'
        (by simp [TLV.ser, eooBytes] at hf; omega)
      simp only [TLV.ser, List.append_assoc, if_true]
      rw [parse_indef_step cfg f' _ tag r1 (serList cs ++ (eooBytes ++ tail)) tail cs h1 h2
        hi hc hall, h3]
theorem parseAll_ser (cfg : ParseCfg) : ∀ (cs : List TLV) (f : Nat),
    WFs cs → okForL cfg cs → (serList cs).length + 1 ≤ f → parseAll cfg f (serList cs) = .ok cs
  | [], f, _, _, hf => by
      obtain ⟨f', rfl⟩ : ∃ f', f = f' + 1 := ⟨f - 1, by omega⟩
      simp [serList, parseAll]
  | c :: cs, f, hw, ho, hf => by
      obtain ⟨hwc, hwcs⟩ := hw
      obtain ⟨f', rfl⟩ : ∃ f', f = f' + 1 := ⟨f - 1, by omega⟩
      have h2 := c.ser_length_ge hwc
      have hoc : c.okFor cfg := by
        rcases ho with ho | ho
        · exact Or.inl ho
        · right; simp [allDefL] at ho; exact ho.1
      have hocs : okForL cfg cs := by
        rcases ho with ho | ho
        · exact Or.inl ho
        · right; simp [allDefL] at ho; exact ho.2
      have hp := parse_ser cfg c f' (serList cs) hwc hoc (by simp [serList] at hf; omega)
      have hr := parseAll_ser cfg cs f' hwcs hocs (by simp [serList] at hf; omega)
      obtain ⟨x, xs, hx⟩ : ∃ x xs, serList (c :: cs) = x :: xs := by
        cases hs : serList (c :: cs) with
        | nil => simp [serList] at hs; rw [hs.1] at h2; simp at h2
        | cons x xs => exact ⟨x, xs, rfl⟩
      rw [hx, parseAll, ← hx]
      simp only [serList] at hp ⊢
      rw [hp]; simp [hr]
theorem parseUntil_ser (cfg : ParseCfg) : ∀ (cs : List TLV) (f : Nat) (tail : Bytes),
    WFs cs → NoEooL cs → okForL cfg cs → (serList cs).length + 1 ≤ f →
    parseUntilEoo cfg f (serList cs ++ (eooBytes ++ tail)) = .ok (cs, tail)
  | [], f, tail, _, _, _, hf => by
      obtain ⟨f', rfl⟩ : ∃ f', f = f' + 1 := ⟨f - 1, by omega⟩
      simp [serList, eooBytes, parseUntilEoo]
  | c :: cs, f, tail, hw, hne, ho, hf => by
      obtain ⟨hwc, hwcs⟩ := hw
      obtain ⟨hnc, hncs⟩ := hne
      obtain ⟨f', rfl⟩ : ∃ f', f = f' + 1 := ⟨f - 1, by omega⟩
      have h2 := c.ser_length_ge hwc
      have hoc : c.okFor cfg := by
        rcases ho with ho | ho
        · exact Or.inl ho
        · right; simp [allDefL] at ho; exact ho.1
      have hocs : okForL cfg cs := by
        rcases ho with ho | ho
        · exact Or.inl ho
        · right; simp [allDefL] at ho; exact ho.2
      have hp := parse_ser cfg c f' (serList cs ++ (eooBytes ++ tail)) hwc hoc
        (by simp [serList] at hf; omega)
      have hr := parseUntil_ser cfg cs f' tail hwcs hncs hocs (by simp [serList] at hf; omega)
      obtain ⟨a, b, rest, hx⟩ : ∃ a b rest, c.ser = a :: b :: rest := by
        cases hs : c.ser with
        | nil => rw [hs] at h2; simp at h2
        | cons a t1 =>
          cases t1 with
          | nil => rw [hs] at h2; simp at h2
          | cons b rest => exact ⟨a, b, rest, rfl⟩
      have hab : ¬ (a = 0 ∧ b = 0) := by
        rintro ⟨rfl, rfl⟩
        exact hnc rest hx
      simp only [serList, List.append_assoc]
      rw [hx] at hp ⊢
      simp only [List.cons_append] at hp ⊢
      rw [parseUntilEoo]
      simp only [hab, if_false]
      rw [hp]; simp [hr]
end

/-- `Decoder.__call__` framing on the model: one element, the rest untouched -/
theorem parseOne_ser (cfg : ParseCfg) (t : TLV) (tail : Bytes) (hw : t.WF) (ho : t.okFor cfg) :
    parseOne cfg (t.ser ++ tail) = .ok (t, tail) := by
  unfold parseOne parseFuel
  exact parse_ser cfg t _ tail hw ho (by simp; omega)

end Asn1
