/-
  Proofs.Stream — generic theorems about decoder programs over the stream layer (DESIGN §4.2):
    * `run_bind`         running a sequential composition
    * `Kind.Stable`      per-primitive stability of a stream kind, proved for K3 and K4, refuted for
                         BytesIO (whose end-of-stream fast path and reads are final only on complete data)
    * `run_resume`       running on more data = running on less, then resuming the suspension
    * `runSched_eq`      any chunking / poll placement / close timing = the whole input, closed
    * `susp_needs`       a suspension means the pending primitive needs an octet that has not arrived
-/
import Asn1.Stream

namespace Asn1.Stream

variable {ε α β : Type}

/-! ### sequential composition -/

theorem run_bind (k : Kind) (B : Nat) (d : Bytes) (cl : Bool) (p : Prog ε α) (g : α → Prog ε β)
    (s : St ε) :
    run k B d cl (p.bind g) s =
      match run k B d cl p s with
      | .done a s' => run k B d cl (g a) s'
      | .err e s' => .err e s'
      | .susp p' s' => .susp (p'.bind g) s' := by
  induction p generalizing s with
  | pure a => simp [Prog.bind, run]
  | fail e => simp [Prog.bind, run]
  | emit x p ih => simp only [Prog.bind, run]; exact ih _
  | read n f ih =>
    simp only [Prog.bind, run]
    cases readAns k d cl s.pos n with
    | ok b => simp only; exact ih _ _
    | wait => rfl
    | eos => rfl
  | readAll c f ih =>
    simp only [Prog.bind, run]
    cases readAllAns k d cl s.pos with
    | ok b => simp only; exact ih _ _
    | wait => rfl
    | eos =>
      simp only
      cases c with
      | true => simp only [if_true]; exact ih _ _
      | false => simp
  | eos f ih =>
    simp only [Prog.bind, run]
    cases eosAns k d cl s.pos with
    | ok b => simp only; exact ih _ _
    | wait => rfl
    | eos => rfl
  | tell f ih => simp only [Prog.bind, run]; exact ih _ _
  | seekBack n p ih =>
    simp only [Prog.bind, run]
    by_cases h : n ≤ s.pos - s.base
    · simp only [h, if_true]; exact ih _
    · simp [h]
  | mark p ih => simp only [Prog.bind, run]; exact ih _
  | toMark f ih => simp only [Prog.bind, run]; exact ih _ _

/-! ### stability of the primitives, per stream kind -/

/-- every answer a primitive gives while the stream is still open is final: the same answer
    comes back when more octets have arrived and/or the stream has been closed -/
structure Kind.Stable (k : Kind) : Prop where
  read : ∀ (a c : Bytes) (cl : Bool) (pos n : Nat),
    readAns k a false pos n ≠ .wait → readAns k (a ++ c) cl pos n = readAns k a false pos n
  eos : ∀ (a c : Bytes) (cl : Bool) (pos : Nat),
    eosAns k a false pos ≠ .wait → eosAns k (a ++ c) cl pos = eosAns k a false pos

theorem take_drop_append (a c : Bytes) (pos n : Nat) (h : pos + n ≤ a.length) :
    ((a ++ c).drop pos).take n = (a.drop pos).take n := by
  rw [List.drop_append_of_le_length (by omega)]
  rw [List.take_append_of_le_length (by simp; omega)]

/-- `readFromStream(s, n)` on a stream that can still grow: it answers only when all n octets are there -/
theorem stable_read_open (k : Kind) (hk : k ≠ .bytesIO) (a c : Bytes) (cl : Bool) (pos n : Nat)
    (h : readAns k a false pos n ≠ .wait) :
    readAns k (a ++ c) cl pos n = readAns k a false pos n := by
  have ho : k.isOpen false = true := by cases k <;> simp_all [Kind.isOpen]
  unfold readAns at h ⊢
  by_cases hl : pos + n ≤ a.length
  · have hl' : pos + n ≤ (a ++ c).length := by simp; omega
    simp only [hl, hl', if_true]
    rw [take_drop_append a c pos n hl]
  · simp [hl, ho] at h

/-- `isEndOfStream` generic path: read(1) -> None is reported as underrun, never as an answer -/
theorem stable_eos_open (k : Kind) (hk : k ≠ .bytesIO) (a c : Bytes) (cl : Bool) (pos : Nat)
    (h : eosAns k a false pos ≠ .wait) :
    eosAns k (a ++ c) cl pos = eosAns k a false pos := by
  cases k with
  | bytesIO => exact absurd rfl hk
  | seekable =>
    simp only [eosAns] at h ⊢
    by_cases hl : pos < a.length
    · have : pos < (a ++ c).length := by simp; omega
      rw [if_pos this, if_pos hl]
    · simp [hl] at h
  | wrapped =>
    simp only [eosAns] at h ⊢
    by_cases hl : pos < a.length
    · have : pos < (a ++ c).length := by simp; omega
      rw [if_pos this, if_pos hl]
    · simp [hl] at h

/-- K3: a seekable stream that grows -/
theorem stable_seekable : Kind.Stable .seekable :=
  ⟨stable_read_open _ (by decide), stable_eos_open _ (by decide)⟩

/-- K4: a non-seekable stream behind CachingStreamWrapper -/
theorem stable_wrapped : Kind.Stable .wrapped :=
  ⟨stable_read_open _ (by decide), stable_eos_open _ (by decide)⟩

/-- a BytesIO is complete at construction: its end-of-stream fast path (`tell() == end`) answers
    at once, and the answer changes if the buffer were to grow — the reason a *growing* BytesIO
    subclass is outside C05's quantifier (pinned by RestartableDecoderTestCase) -/
theorem bytesIO_not_stable : ¬ Kind.Stable .bytesIO := by
  intro h
  have := h.eos [] [0] true 0 (by simp [eosAns])
  simp [eosAns] at this

/-- `readFromStream(s)` (size = -1) returns whatever is there: not stable on any kind that grows -/
theorem readAll_unstable :
    readAllAns .seekable [1] false 0 = .ok [1] ∧ readAllAns .seekable ([1] ++ [2]) true 0 = .ok [1, 2] := by
  decide

/-! ### programs that never use `readAll` -/

def Prog.NoReadAll : Prog ε α → Prop
  | .pure _ => True
  | .fail _ => True
  | .emit _ p => p.NoReadAll
  | .read _ f => ∀ b, (f b).NoReadAll
  | .readAll _ _ => False
  | .eos f => ∀ b, (f b).NoReadAll
  | .tell f => ∀ n, (f n).NoReadAll
  | .seekBack _ p => p.NoReadAll
  | .mark p => p.NoReadAll
  | .toMark f => ∀ n, (f n).NoReadAll

theorem noReadAll_bind (p : Prog ε α) (g : α → Prog ε β) (hp : p.NoReadAll)
    (hg : ∀ a, (g a).NoReadAll) : (p.bind g).NoReadAll := by
  induction p with
  | pure a => exact hg a
  | fail e => trivial
  | emit x p ih => exact ih hp
  | read n f ih => intro b; exact ih b (hp b)
  | readAll c f _ => exact hp.elim
  | eos f ih => intro b; exact ih b (hp b)
  | tell f ih => intro n; exact ih n (hp n)
  | seekBack n p ih => exact ih hp
  | mark p ih => exact ih hp
  | toMark f ih => intro n; exact ih n (hp n)

/-- what a run suspends on is a part of the program -/
theorem susp_noReadAll (k : Kind) (B : Nat) (d : Bytes) (cl : Bool) (p : Prog ε α) (s : St ε)
    (p' : Prog ε α) (s' : St ε) (hp : p.NoReadAll) (h : run k B d cl p s = .susp p' s') :
    p'.NoReadAll := by
  induction p generalizing s with
  | pure a => simp [run] at h
  | fail e => simp [run] at h
  | emit x p ih => exact ih _ hp (by simpa [run] using h)
  | read n f ih =>
    simp only [run] at h
    cases hr : readAns k d cl s.pos n with
    | ok b => rw [hr] at h; exact ih b _ (hp b) h
    | wait => rw [hr] at h; simp only [Out.susp.injEq] at h; rw [← h.1]; exact hp
    | eos => rw [hr] at h; simp at h
  | readAll c f _ => exact hp.elim
  | eos f ih =>
    simp only [run] at h
    cases hr : eosAns k d cl s.pos with
    | ok b => rw [hr] at h; exact ih b _ (hp b) h
    | wait => rw [hr] at h; simp only [Out.susp.injEq] at h; rw [← h.1]; exact hp
    | eos => rw [hr] at h; simp at h
  | tell f ih => exact ih _ _ (hp _) (by simpa [run] using h)
  | seekBack n p ih =>
    simp only [run] at h
    by_cases hn : n ≤ s.pos - s.base
    · simp only [hn, if_true] at h; exact ih _ hp h
    · simp [hn] at h
  | mark p ih => exact ih _ hp (by simpa [run] using h)
  | toMark f ih => exact ih _ _ (hp _) (by simpa [run] using h)

/-! ### the resume lemma and the schedule theorem -/

/-- key lemma: running on more data (open or closed) agrees with first running on less data
    while the stream is open and then resuming the suspended program -/
theorem run_resume (k : Kind) (hk : k.Stable) (B : Nat) (a c : Bytes) (cl : Bool) (p : Prog ε α)
    (hp : p.NoReadAll) (s : St ε) :
    run k B (a ++ c) cl p s =
      match run k B a false p s with
      | .susp p' s' => run k B (a ++ c) cl p' s'
      | .done v s' => .done v s'
      | .err e s' => .err e s' := by
  induction p generalizing s with
  | pure x => simp [run]
  | fail e => simp [run]
  | emit x p ih => simp only [run]; exact ih hp _
  | read n f ih =>
    cases hr : readAns k a false s.pos n with
    | wait => simp only [run, hr]
    | ok b =>
      have h2 := hk.read a c cl s.pos n (by rw [hr]; simp)
      rw [hr] at h2
      simp only [run, hr, h2]
      exact ih b (hp b) _
    | eos =>
      have h2 := hk.read a c cl s.pos n (by rw [hr]; simp)
      rw [hr] at h2
      simp only [run, hr, h2]
  | readAll c' f _ => exact hp.elim
  | eos f ih =>
    cases hr : eosAns k a false s.pos with
    | wait => simp only [run, hr]
    | ok b =>
      have h2 := hk.eos a c cl s.pos (by rw [hr]; simp)
      rw [hr] at h2
      simp only [run, hr, h2]
      exact ih b (hp b) _
    | eos =>
      have h2 := hk.eos a c cl s.pos (by rw [hr]; simp)
      rw [hr] at h2
      simp only [run, hr, h2]
  | tell f ih => simp only [run]; exact ih _ (hp _) _
  | seekBack n p ih =>
    simp only [run]
    by_cases hn : n ≤ s.pos - s.base
    · simp only [hn, if_true]; exact ih hp _
    · simp [hn]
  | mark p ih => simp only [run]; exact ih hp _
  | toMark f ih => simp only [run]; exact ih _ (hp _) _

theorem runSched_eq (k : Kind) (hk : k.Stable) (B : Nat) (cs : List Bytes) :
    ∀ (a : Bytes) (p : Prog ε α) (s : St ε), p.NoReadAll →
      runSched k B a cs p s = run k B (a ++ cs.flatten) true p s := by
  induction cs with
  | nil => intro a p s _; simp [runSched]
  | cons c cs ih =>
    intro a p s hp
    have h := run_resume k hk B a (c ++ cs.flatten) true p hp s
    simp only [List.flatten_cons, runSched]
    rw [h]
    cases hr : run k B a false p s with
    | done v q => simp
    | err e q => simp
    | susp p' s' =>
      simp only
      rw [ih _ _ _ (susp_noReadAll k B a false p s p' s' hp hr)]
      simp [List.append_assoc]

/-- an outcome reached while the stream is still open is the outcome on any extension -/
theorem run_final (k : Kind) (hk : k.Stable) (B : Nat) (a c : Bytes) (cl : Bool) (p : Prog ε α)
    (hp : p.NoReadAll) (s : St ε) :
    (∀ v s', run k B a false p s = .done v s' → run k B (a ++ c) cl p s = .done v s') ∧
    (∀ e s', run k B a false p s = .err e s' → run k B (a ++ c) cl p s = .err e s') := by
  have h := run_resume k hk B a c cl p hp s
  constructor
  · intro v s' hr; rw [h, hr]
  · intro e s' hr; rw [h, hr]

/-! ### an underrun is reported only while octets are missing -/

theorem susp_needs (k : Kind) (B : Nat) (d : Bytes) (cl : Bool) (p : Prog ε α) (s : St ε)
    (p' : Prog ε α) (s' : St ε) (h : run k B d cl p s = .susp p' s') :
    d.length < p'.needs s' ∧ cl = false ∧ k ≠ .bytesIO := by
  have open_of : k.isOpen cl = true → cl = false ∧ k ≠ .bytesIO := by
    intro ho; cases k <;> cases cl <;> simp_all [Kind.isOpen]
  induction p generalizing s with
  | pure a => simp [run] at h
  | fail e => simp [run] at h
  | emit x p ih => exact ih _ (by simpa [run] using h)
  | read n f ih =>
    simp only [run] at h
    cases hr : readAns k d cl s.pos n with
    | ok b => rw [hr] at h; exact ih b _ h
    | eos => rw [hr] at h; simp at h
    | wait =>
      rw [hr] at h
      simp only [Out.susp.injEq] at h
      obtain ⟨rfl, rfl⟩ := h
      unfold readAns at hr
      by_cases hl : s.pos + n ≤ d.length
      · simp [hl] at hr
      · by_cases ho : k.isOpen cl = true
        · exact ⟨by simp [Prog.needs]; omega, open_of ho⟩
        · simp [hl, ho] at hr
  | readAll c f ih =>
    simp only [run] at h
    cases hr : readAllAns k d cl s.pos with
    | ok b => rw [hr] at h; exact ih b _ h
    | eos =>
      rw [hr] at h
      cases c with
      | true => simp only [if_true] at h; exact ih _ _ h
      | false => simp at h
    | wait =>
      rw [hr] at h
      simp only [Out.susp.injEq] at h
      obtain ⟨rfl, rfl⟩ := h
      unfold readAllAns at hr
      by_cases hl : s.pos < d.length
      · simp [hl] at hr
      · by_cases ho : k.isOpen cl = true
        · exact ⟨by simp [Prog.needs]; omega, open_of ho⟩
        · simp [hl, ho] at hr
  | eos f ih =>
    simp only [run] at h
    cases hr : eosAns k d cl s.pos with
    | ok b => rw [hr] at h; exact ih b _ h
    | eos => rw [hr] at h; simp at h
    | wait =>
      rw [hr] at h
      simp only [Out.susp.injEq] at h
      obtain ⟨rfl, rfl⟩ := h
      cases k with
      | bytesIO => simp [eosAns] at hr
      | seekable =>
        simp only [eosAns] at hr
        by_cases hl : s.pos < d.length
        · simp [hl] at hr
        · cases cl with
          | true => simp [hl] at hr
          | false => exact ⟨by simp [Prog.needs]; omega, rfl, by decide⟩
      | wrapped =>
        simp only [eosAns] at hr
        by_cases hl : s.pos < d.length
        · simp [hl] at hr
        · cases cl with
          | true => simp [hl] at hr
          | false => exact ⟨by simp [Prog.needs]; omega, rfl, by decide⟩
  | tell f ih => exact ih _ _ (by simpa [run] using h)
  | seekBack n p ih =>
    simp only [run] at h
    by_cases hn : n ≤ s.pos - s.base
    · simp only [hn, if_true] at h; exact ih _ h
    · simp [hn] at h
  | mark p ih => exact ih _ (by simpa [run] using h)
  | toMark f ih => exact ih _ _ (by simpa [run] using h)

/-- `runSchedAll` ends with what `runSched` returns, and everything before is an underrun -/
theorem runSchedAll_last (k : Kind) (B : Nat) (cs : List Bytes) :
    ∀ (a : Bytes) (p : Prog ε α) (s : St ε),
      ∃ pre, runSchedAll k B a cs p s = pre ++ [runSched k B a cs p s] ∧
        ∀ o ∈ pre, ∃ p' s', o = .susp p' s' := by
  induction cs with
  | nil => intro a p s; exact ⟨[], by simp [runSchedAll, runSched], by simp⟩
  | cons c cs ih =>
    intro a p s
    simp only [runSchedAll, runSched]
    cases hr : run k B a false p s with
    | done v q => exact ⟨[], by simp, by simp⟩
    | err e q => exact ⟨[], by simp, by simp⟩
    | susp p' s' =>
      obtain ⟨pre, h1, h2⟩ := ih (a ++ c) p' s'
      refine ⟨.susp p' s' :: pre, by simp [h1], ?_⟩
      intro o ho
      rcases List.mem_cons.mp ho with rfl | ho
      · exact ⟨p', s', rfl⟩
      · exact h2 o ho

end Asn1.Stream
