/-
  Proofs.NativeTree — encoding a plain-Python tree with the type gives the bytes of the value object.
-/
import Asn1.Native
import Proofs.NativeText

namespace Asn1.Native

theorem hasType_absent' : (t : Ty) → HasType t .absent = false
  | .tagged _ _ _ t => by simpa [HasType] using hasType_absent' t
  | .prim p => by cases p <;> simp [HasType]
  | .seq _ => by simp [HasType]
  | .set _ => by simp [HasType]
  | .seqOf _ => by simp [HasType]
  | .setOf _ => by simp [HasType]
  | .choice _ => by simp [HasType]
  | .any => by simp [HasType]

theorem val_beq_def (a b : Val) : (a == b) = Val.beq a b := rfl

theorem map_ofNat_beq (a b : List Nat) :
    (a.map Int.ofNat == b.map Int.ofNat) = (a == b) := by
  induction a generalizing b with
  | nil => cases b <;> simp
  | cons x r ih =>
    cases b with
    | nil => simp
    | cons y s =>
      have := ih s
      simp only [List.map, List.cons_beq_cons] at this ⊢
      rw [this]
      congr 1
      by_cases h : x = y
      · subst h; simp
      · have : (x : Int) ≠ (y : Int) := by omega
        have e1 : (Int.ofNat x == Int.ofNat y) = false := beq_eq_false_iff_ne.mpr this
        rw [e1, beq_eq_false_iff_ne.mpr h]

/-- for a recognised scalar type Python's `==` of the default object with the tree's form is
    equality of the abstract values -/
theorem pyEq_recognised (g : Bool) : (t : Ty) → ∀ (v d : Val), HasType t v = true → HasType t d = true →
    recognised t = true → pyEq t d (toTreeG g t v) = .ok (v == d)
  | .tagged _ _ _ t, v, d, hv, hd, hr => by
    simp only [HasType, recognised] at hv hd hr
    simpa [pyEq, toTreeG] using pyEq_recognised g t v d hv hd hr
  | .prim p, v, d, hv, hd, hr => by
    cases p <;> cases v <;> simp [HasType] at hv <;> cases d <;> simp [HasType] at hd <;>
      simp [recognised] at hr <;>
      simp [pyEq, toTreeG, intEq, bitsOfPy, parseBits_bitsText, Except.map, val_beq_def, Val.beq,
        map_ofNat_beq]
    · rename_i b1 b2; cases b1 <;> cases b2 <;> decide
    · exact BEq.comm
    · exact BEq.comm
    · exact BEq.comm
    · subst hr; simpa using BEq.comm
  | .seq _, _, _, _, _, hr => by simp [recognised] at hr
  | .set _, _, _, _, _, hr => by simp [recognised] at hr
  | .seqOf _, _, _, _, _, hr => by simp [recognised] at hr
  | .setOf _, _, _, _, _, hr => by simp [recognised] at hr
  | .choice _, _, _, _, _, hr => by simp [recognised] at hr
  | .any, _, _, _, _, hr => by simp [recognised] at hr


/-- the forms `==` does not recognise (NULL as None, a character string as bytes): never equal -/
theorem pyEq_unrecognised (g : Bool) : (t : Ty) → ∀ (v d : Val), HasType t v = true → HasType t d = true →
    scalarNonReal t = true → recognised t = false → pyEq t d (toTreeG g t v) = .ok false
  | .tagged _ _ _ t, v, d, hv, hd, hs, hr => by
    simp only [HasType, recognised, scalarNonReal] at hv hd hr hs
    simpa [pyEq, toTreeG] using pyEq_unrecognised g t v d hv hd hs hr
  | .prim p, v, d, hv, hd, hs, hr => by
    cases p <;> cases v <;> simp [HasType] at hv <;> cases d <;> simp [HasType] at hd <;>
      simp [recognised] at hr <;> simp [scalarNonReal] at hs <;>
      simp [pyEq, toTreeG, hr]
  | .seq _, _, _, _, _, hs, _ => by simp [scalarNonReal] at hs
  | .set _, _, _, _, _, hs, _ => by simp [scalarNonReal] at hs
  | .seqOf _, _, _, _, _, hs, _ => by simp [scalarNonReal] at hs
  | .setOf _, _, _, _, _, hs, _ => by simp [scalarNonReal] at hs
  | .choice _, _, _, _, _, hs, _ => by simp [scalarNonReal] at hs
  | .any, _, _, _, _, hs, _ => by simp [scalarNonReal] at hs

/-- a member the tree gives: the bare-value encoder's DEFAULT test says exactly what the
    value-object encoder's `skipField` says -/
theorem dfltEq_tree (g : Bool) (k : FKind) (t : Ty) (v : Val) (hv : HasType t v = true)
    (hk : memberOk g k t = true) (hs : skipTree g k v = false) :
    dfltEq k t (toTreeG g t v) = .ok (skipField k v) := by
  cases k with
  | req => cases v <;> simp [dfltEq, skipField]
  | opt =>
    cases v <;> simp [dfltEq, skipField]
    simp [skipTree] at hs
  | dflt d =>
    simp only [memberOk, Bool.and_eq_true, Bool.or_eq_true, Bool.not_eq_true'] at hk
    obtain ⟨⟨hd, hsn⟩, hg⟩ := hk
    simp only [dfltEq, skipField]
    by_cases hr : recognised t = true
    · exact pyEq_recognised g t v d hv hd hr
    · have hr' : recognised t = false := by simpa using hr
      have hgf : g = false := by
        rcases hg with h | h
        · exact h
        · exact absurd h hr
      subst hgf
      have : (v == d) = false := by simpa [skipTree] using hs
      rw [this]
      exact pyEq_unrecognised false t v d hv hd hsn hr'

theorem skipTree_skipField (g : Bool) (k : FKind) (v : Val) (h : skipTree g k v = true) :
    skipField k v = true := by
  cases k with
  | req => cases v <;> simp [skipTree] at h
  | opt => cases v <;> simp [skipTree] at h; simp [skipField]
  | dflt d =>
    simp only [skipTree, Bool.and_eq_true] at h
    simpa [skipField] using h.2


theorem lookupKey_ne {i k : Nat} (p : PyVal) (kvs : List (Nat × PyVal)) (h : k ≠ i) :
    lookupKey i ((k, p) :: kvs) = lookupKey i kvs := by
  simp [lookupKey, h]

theorem lookupKey_self (i : Nat) (p : PyVal) (kvs : List (Nat × PyVal)) :
    lookupKey i ((i, p) :: kvs) = some p := by
  simp [lookupKey]

/-- the keys of the mapping built for the members from position `i` on are all `≥ i` -/
theorem lookup_treeFields_lt (g : Bool) : (fs : Fields) → ∀ (i : Nat) (vs : List Val) (j : Nat),
    j < i → lookupKey j (treeFields g fs i vs) = none
  | .nil, _, _, _, _ => by simp [treeFields, lookupKey]
  | .cons k t rest, i, vs, j, h => by
    cases vs with
    | nil => simp [treeFields, lookupKey]
    | cons v vs' =>
      simp only [treeFields]
      split
      · exact lookup_treeFields_lt g rest (i + 1) vs' j (by omega)
      · rw [lookupKey_ne _ _ (by omega)]
        exact lookup_treeFields_lt g rest (i + 1) vs' j (by omega)

/-- an entry with a smaller key is never looked at by the members from position `j` on -/
theorem encFieldsPy_cons_lt (cfg : EncCfg) : (fs : Fields) → ∀ (o : EncOpts) (j k : Nat) (p : PyVal)
    (kvs : List (Nat × PyVal)), k < j →
    encFieldsPy cfg o fs j ((k, p) :: kvs) = encFieldsPy cfg o fs j kvs
  | .nil, _, _, _, _, _, _ => by simp [encFieldsPy]
  | .cons kind t rest, o, j, k, p, kvs, h => by
    simp only [encFieldsPy, lookupKey_ne p kvs (by omega : k ≠ j)]
    simp only [encFieldsPy_cons_lt cfg rest _ (j + 1) k p kvs (by omega)]

theorem encSetMembersPy_cons_lt (cfg : EncCfg) (ord : SetOrder) : (fs : Fields) → ∀ (o : EncOpts) (j k : Nat)
    (p : PyVal) (kvs : List (Nat × PyVal)), k < j →
    encSetMembersPy cfg o ord fs j ((k, p) :: kvs) = encSetMembersPy cfg o ord fs j kvs
  | .nil, _, _, _, _, _, _ => by simp [encSetMembersPy]
  | .cons kind t rest, o, j, k, p, kvs, h => by
    simp only [encSetMembersPy, lookupKey_ne p kvs (by omega : k ≠ j)]
    simp only [encSetMembersPy_cons_lt cfg ord rest _ (j + 1) k p kvs (by omega)]

theorem countPresent_single_lt : (fs : Fields) → ∀ (j k : Nat) (p : PyVal), k < j →
    countPresent fs j [(k, p)] = 0
  | .nil, _, _, _, _ => by simp [countPresent]
  | .cons _ _ rest, j, k, p, h => by
    have hne : k ≠ j := by omega
    simp [countPresent, lookupKey, hne, countPresent_single_lt rest (j + 1) k p (by omega)]


/-! ### the CHOICE mapping has exactly one key -/

theorem lookup_treeAlt_lt (g : Bool) : (fs : Fields) → ∀ (pos i : Nat) (v : Val) (j : Nat),
    j < pos → lookupKey j (treeAlt g fs pos i v) = none
  | .nil, _, _, _, _, _ => by simp [treeAlt, lookupKey]
  | .cons _ _ _, pos, 0, v, j, h => by
    have : pos ≠ j := by omega
    simp [treeAlt, lookupKey, this]
  | .cons _ _ rest, pos, i + 1, v, j, h => by
    simp only [treeAlt]
    exact lookup_treeAlt_lt g rest (pos + 1) i v j (by omega)

theorem countPresent_treeAlt (g : Bool) : (fs : Fields) → ∀ (pos i : Nat) (v : Val),
    HasAlt fs i v = true → countPresent fs pos (treeAlt g fs pos i v) = 1
  | .nil, _, _, _, h => by simp [HasAlt] at h
  | .cons _ t rest, pos, 0, v, _ => by
    simp [treeAlt, countPresent, lookupKey, countPresent_single_lt rest (pos + 1) pos _ (by omega)]
  | .cons _ _ rest, pos, i + 1, v, h => by
    simp only [HasAlt] at h
    simp only [treeAlt, countPresent, lookup_treeAlt_lt g rest (pos + 1) i v pos (by omega),
      countPresent_treeAlt g rest (pos + 1) i v h]
    rfl

/-! ### sort key of a SET member given as a bare value -/

theorem tagged_tags_ne_nil (e : Bool) (c : TagClass) (n : Nat) (t : Ty) :
    (Ty.tagged e c n t).tags.isEmpty = false := by
  cases e
  · simp only [Ty.tags, TagSet.tagImplicitly]
    split <;> simp
  · simp [Ty.tags]

theorem effTags_choice (fs : Fields) (i : Nat) (v : Val) :
    effTags (.choice fs) (.choice i v)
      = (match fs.get? i with | some (_, ti) => effTags ti v | none => []) := by
  cases hg : fs.get? i with
  | none => rw [effTags]; simp [Ty.tags, Ty.base, hg]
  | some kt => obtain ⟨k, ti⟩ := kt; rw [effTags]; simp [Ty.tags, Ty.base, hg]

mutual
theorem effTagsPy_tree (g : Bool) : (t : Ty) → ∀ (v : Val), HasType t v = true →
    effTagsPy t (toTreeG g t v) = .ok (effTags t v)
  | .choice fs, v, h => by
    cases v <;> simp [HasType] at h
    rename_i i w
    simp only [toTreeG, effTagsPy, countPresent_treeAlt g fs 0 i w h, effTags_choice]
    simpa using effTagsPyAlts_tree g fs 0 i w h
  | .tagged e c n t, v, h => by
    have ht := tagged_tags_ne_nil e c n t
    cases v <;> simp [effTagsPy, effTags, ht]
  | .prim p, v, h => by cases p <;> cases v <;> simp [HasType] at h <;> simp [effTagsPy, effTags]
  | .seq _, v, h => by cases v <;> simp [HasType] at h; simp [effTagsPy, effTags]
  | .set _, v, h => by cases v <;> simp [HasType] at h; simp [effTagsPy, effTags]
  | .seqOf _, v, h => by cases v <;> simp [HasType] at h; simp [effTagsPy, effTags]
  | .setOf _, v, h => by cases v <;> simp [HasType] at h; simp [effTagsPy, effTags]
  | .any, v, h => by cases v <;> simp [HasType] at h; simp [effTagsPy, effTags]
theorem effTagsPyAlts_tree (g : Bool) : (fs : Fields) → ∀ (pos i : Nat) (v : Val), HasAlt fs i v = true →
    effTagsPyAlts fs pos (treeAlt g fs pos i v)
      = .ok (match fs.get? i with | some (_, ti) => effTags ti v | none => [])
  | .nil, _, _, _, h => by simp [HasAlt] at h
  | .cons _ t _, pos, 0, v, h => by
    simp only [HasAlt] at h
    simp only [treeAlt, effTagsPyAlts, lookupKey_self, Fields.get?]
    exact effTagsPy_tree g t v h
  | .cons _ _ rest, pos, i + 1, v, h => by
    simp only [HasAlt] at h
    simp only [treeAlt, effTagsPyAlts, lookup_treeAlt_lt g rest (pos + 1) i v pos (by omega), Fields.get?]
    exact effTagsPyAlts_tree g rest (pos + 1) i v h
end

theorem setKeyPy_tree (g : Bool) (ord : SetOrder) (t : Ty) (v : Val) (h : HasType t v = true) :
    setKeyPy ord t (toTreeG g t v) = .ok (setKey ord t v) := by
  cases t with
  | choice fs =>
    cases ord
    · simp [setKeyPy, setKey]
    · simp [setKeyPy, setKey]
    · simpa [setKeyPy, setKey] using effTagsPy_tree g (.choice fs) v h
  | _ => cases ord <;> simp [setKeyPy, setKey]


/-! ### the main induction -/

theorem hasFields_cons (g : Bool) (k : FKind) (t : Ty) (rest : Fields) (v : Val) (vs : List Val)
    (h : HasFields (.cons k t rest) (v :: vs) = true) :
    HasFields rest vs = true ∧ (skipTree g k v = false → HasType t v = true) := by
  cases k <;> cases v <;> simp_all [HasFields, skipTree, Native.hasType_absent']


theorem fieldsDefaultsOk_cons (g : Bool) (k : FKind) (t : Ty) (rest : Fields)
    (h : fieldsDefaultsOk g (.cons k t rest) = true) :
    memberOk g k t = true ∧ defaultsOk g t = true ∧ fieldsDefaultsOk g rest = true := by
  simp only [fieldsDefaultsOk, Bool.and_eq_true] at h
  exact ⟨h.1.1, h.1.2, h.2⟩

mutual
theorem pt (cfg : EncCfg) (g : Bool) : (t : Ty) → ∀ (o : EncOpts) (v : Val),
    HasType t v = true → defaultsOk g t = true →
    encValuePy cfg o t (toTreeG g t v) = encValue cfg o t v
  | .tagged _ _ _ t, o, v, h, hd => by
    simp only [HasType, defaultsOk] at h hd
    simpa [encValuePy, toTreeG, encValue] using pt cfg g t o v h hd
  | .prim p, o, v, h, _ => by
    cases p <;> cases v <;> simp [HasType] at h <;>
      simp [encValuePy, toTreeG, truthy, bitsOfPy, parseBits_bitsText, arcsOfTuple_ofNat, encValue]
  | .seq fs, o, v, h, hd => by
    cases v <;> simp [HasType] at h
    rename_i vs
    simp only [defaultsOk] at hd
    simp only [toTreeG, encValuePy, encValue, ptFields cfg g fs o 0 vs h hd]
  | .set fs, o, v, h, hd => by
    cases v <;> simp [HasType] at h
    rename_i vs
    simp only [defaultsOk] at hd
    simp only [toTreeG, encValuePy, encValue]
    cases hord : cfg.setOrder with
    | declared => simp only [ptFields cfg g fs o 0 vs h hd]
    | static =>
      simp only [ptSet cfg g .static fs o 0 vs h hd]
      cases encSetMembers cfg o .static fs vs <;> rfl
    | dynamic =>
      simp only [ptSet cfg g .dynamic fs o 0 vs h hd]
      cases encSetMembers cfg o .dynamic fs vs <;> rfl
  | .seqOf t, o, v, h, hd => by
    cases v <;> simp [HasType] at h
    rename_i vs
    simp only [defaultsOk] at hd
    have hm : ∀ o' : EncOpts, (vs.map (toTreeG g t)).map (fun p => finishItem cfg o' t (encValuePy cfg o' t p))
        = vs.map (fun v => finishItem cfg o' t (encValue cfg o' t v)) := by
      intro o'
      rw [List.map_map]
      apply List.map_congr_left
      intro x hx
      simp only [Function.comp, pt cfg g t o' x (h x hx) hd]
    simp only [toTreeG, encValuePy, encValue, hm, List.isEmpty_map]
  | .setOf t, o, v, h, hd => by
    cases v <;> simp [HasType] at h
    rename_i vs
    simp only [defaultsOk] at hd
    have hm : ∀ o' : EncOpts, (vs.map (toTreeG g t)).map (fun p => finishItem cfg o' t (encValuePy cfg o' t p))
        = vs.map (fun v => finishItem cfg o' t (encValue cfg o' t v)) := by
      intro o'
      rw [List.map_map]
      apply List.map_congr_left
      intro x hx
      simp only [Function.comp, pt cfg g t o' x (h x hx) hd]
    simp only [toTreeG, encValuePy, encValue, hm]
  | .choice fs, o, v, h, hd => by
    cases v <;> simp [HasType] at h
    rename_i i w
    simp only [defaultsOk] at hd
    simp only [toTreeG, encValuePy, encValue, countPresent_treeAlt g fs 0 i w h,
      ptAlt cfg g fs o 0 i w h hd]
    simp
  | .any, o, v, h, _ => by
    cases v <;> simp [HasType] at h
    simp [toTreeG, encValuePy, encValue]
theorem ptFields (cfg : EncCfg) (g : Bool) : (fs : Fields) → ∀ (o : EncOpts) (i : Nat) (vs : List Val),
    HasFields fs vs = true → fieldsDefaultsOk g fs = true →
    encFieldsPy cfg o fs i (treeFields g fs i vs) = encFields cfg o fs vs
  | .nil, o, i, vs, h, _ => by
    cases vs with
    | nil => simp [encFieldsPy, encFields]
    | cons _ _ => simp [HasFields] at h
  | .cons k t rest, o, i, vs, h, hd => by
    cases vs with
    | nil => cases k <;> simp [HasFields] at h
    | cons v vs' =>
      obtain ⟨hk, hdt, hdr⟩ := fieldsDefaultsOk_cons g k t rest hd
      obtain ⟨hrest, hv⟩ := hasFields_cons g k t rest v vs' h
      cases hs : skipTree g k v with
      | true =>
        have hreq : k.isReq = false := by cases k <;> cases v <;> simp_all [skipTree, FKind.isReq]
        simp only [treeFields, hs, if_true, encFieldsPy,
          lookup_treeFields_lt g rest (i + 1) vs' i (by omega), hreq, Bool.false_eq_true, if_false,
          ptFields cfg g rest o (i + 1) vs' hrest hdr, encFields, skipTree_skipField g k v hs]
      | false =>
        have hv' := hv hs
        simp only [treeFields, hs, Bool.false_eq_true, if_false, encFieldsPy, lookupKey_self,
          dfltEq_tree g k t v hv' hk hs, encFields]
        cases hsf : skipField k v with
        | true =>
          simp only [if_true, encFieldsPy_cons_lt cfg rest o (i + 1) i _ _ (by omega),
            ptFields cfg g rest o (i + 1) vs' hrest hdr]
        | false =>
          simp only [Bool.false_eq_true, if_false, pt cfg g t _ v hv' hdt,
            encFieldsPy_cons_lt cfg rest _ (i + 1) i _ _ (by omega),
            ptFields cfg g rest _ (i + 1) vs' hrest hdr]
          generalize finishItem cfg _ t _ = r
          cases r <;> rfl
theorem ptSet (cfg : EncCfg) (g : Bool) (ord : SetOrder) : (fs : Fields) → ∀ (o : EncOpts) (i : Nat)
    (vs : List Val), HasFields fs vs = true → fieldsDefaultsOk g fs = true →
    encSetMembersPy cfg o ord fs i (treeFields g fs i vs) = encSetMembers cfg o ord fs vs
  | .nil, o, i, vs, h, _ => by
    cases vs with
    | nil => simp [encSetMembersPy, encSetMembers]
    | cons _ _ => simp [HasFields] at h
  | .cons k t rest, o, i, vs, h, hd => by
    cases vs with
    | nil => cases k <;> simp [HasFields] at h
    | cons v vs' =>
      obtain ⟨hk, hdt, hdr⟩ := fieldsDefaultsOk_cons g k t rest hd
      obtain ⟨hrest, hv⟩ := hasFields_cons g k t rest v vs' h
      cases hs : skipTree g k v with
      | true =>
        have hreq : k.isReq = false := by cases k <;> cases v <;> simp_all [skipTree, FKind.isReq]
        simp only [treeFields, hs, if_true, encSetMembersPy,
          lookup_treeFields_lt g rest (i + 1) vs' i (by omega), hreq, Bool.false_eq_true, if_false,
          ptSet cfg g ord rest o (i + 1) vs' hrest hdr, encSetMembers, skipTree_skipField g k v hs]
      | false =>
        have hv' := hv hs
        simp only [treeFields, hs, Bool.false_eq_true, if_false, encSetMembersPy, lookupKey_self,
          dfltEq_tree g k t v hv' hk hs, encSetMembers]
        cases hsf : skipField k v with
        | true =>
          simp only [if_true, encSetMembersPy_cons_lt cfg ord rest o (i + 1) i _ _ (by omega),
            ptSet cfg g ord rest o (i + 1) vs' hrest hdr]
        | false =>
          simp only [Bool.false_eq_true, if_false, pt cfg g t _ v hv' hdt, setKeyPy_tree g ord t v hv',
            encSetMembersPy_cons_lt cfg ord rest _ (i + 1) i _ _ (by omega),
            ptSet cfg g ord rest _ (i + 1) vs' hrest hdr]
          generalize finishItem cfg _ t _ = r
          cases r <;> rfl
theorem ptAlt (cfg : EncCfg) (g : Bool) : (fs : Fields) → ∀ (o : EncOpts) (pos i : Nat) (v : Val),
    HasAlt fs i v = true → fieldsDefaultsOk g fs = true →
    encAltPy cfg o fs pos (treeAlt g fs pos i v) = encAlt cfg o fs i v
  | .nil, _, _, _, _, h, _ => by simp [HasAlt] at h
  | .cons k t rest, o, pos, 0, v, h, hd => by
    obtain ⟨_, hdt, _⟩ := fieldsDefaultsOk_cons g k t rest hd
    simp only [HasAlt] at h
    simp only [treeAlt, encAltPy, lookupKey_self, encAlt, pt cfg g t o v h hdt]
  | .cons k t rest, o, pos, i + 1, v, h, hd => by
    obtain ⟨_, _, hdr⟩ := fieldsDefaultsOk_cons g k t rest hd
    simp only [HasAlt] at h
    simp only [treeAlt, encAltPy, lookup_treeAlt_lt g rest (pos + 1) i v pos (by omega), encAlt,
      ptAlt cfg g rest o (pos + 1) i v h hdr]
end

end Asn1.Native
