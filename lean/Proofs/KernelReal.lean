/-
  Proofs.KernelReal — the body of `RealEncoder.encodeValue` for binary REALs (translated from the source
  into `GenK.realBin`) computes the model's `realBinToContent` for encoding base 2.
-/
import Proofs.Kernels
import Proofs.RealRT

namespace Asn1.Kernels
open Py

/-! ### PyLite on negative operands -/

theorem natLdiff_255 (m : Nat) : Py.natLdiff 255 m = 255 - m % 256 := by
  apply Nat.eq_of_testBit_eq
  intro i
  unfold Py.natLdiff
  rw [Nat.testBit_bitwise (by rfl)]
  have h255 : (255 : Nat) = 2 ^ 8 - 1 := by decide
  have hr : m % 256 < 2 ^ 8 := by omega
  have h2 : 255 - m % 256 = 2 ^ 8 - (m % 256 + 1) := by omega
  rw [h2, Nat.testBit_two_pow_sub_succ hr, h255, Nat.testBit_two_pow_sub_one]
  have : (256 : Nat) = 2 ^ 8 := by decide
  rw [this, Nat.testBit_mod_two_pow]
  by_cases hi : i < 8 <;> simp [hi]

theorem band_255_int (z : Int) : Py.band z 255 = z % 256 := by
  cases z with
  | ofNat m =>
    have := band_255 m
    simp only [Int.ofNat_eq_natCast] at *
    rw [this]; omega
  | negSucc m =>
    show Int.ofNat (Py.natLdiff 255 m) = _
    rw [natLdiff_255]
    have : Int.negSucc m = -((m : Int) + 1) := by omega
    rw [this]
    simp only [Int.ofNat_eq_natCast]
    omega

theorem shr_8_int (z : Int) : Py.shr z 8 = z / 256 := by
  unfold Py.shr
  show z >>> 8 = _
  rw [Int.shiftRight_eq_div_pow]
  rfl

/-! ### the loops -/

theorem band_1 (a : Nat) : Py.band (a : Int) 1 = ((a % 2 : Nat) : Int) := by
  rw [show (1 : Int) = ((1 : Nat) : Int) from rfl, band_nat, Nat.and_one_is_mod]

theorem shr_1 (a : Nat) : Py.shr (a : Int) 1 = ((a / 2 : Nat) : Int) := by
  rw [show (1 : Int) = ((1 : Nat) : Int) from rfl, shr_nat, Nat.shiftRight_eq_div_pow]

/-- mantissa normalisation loop (base 2) = the model's `normOdd` -/
theorem realBin_loop1_spec : ∀ (f a : Nat) (e : Int) (fuel : Nat), a ≠ 0 → a ≤ f → a < fuel →
    GenK.realBin_loop1 fuel (a : Int) e = .ok (((normOdd f a e).1 : Int), (normOdd f a e).2)
  | 0, a, e, fuel, h0, hf, _ => by omega
  | f + 1, a, e, fuel, h0, hf, hfu => by
    cases fuel with
    | zero => omega
    | succ g =>
      unfold GenK.realBin_loop1
      rw [band_1]
      by_cases hev : a % 2 = 0
      · have hc : (((a % 2 : Nat) : Int) = 0) := by omega
        simp only [hc, decide_true, if_true, shr_1]
        show GenK.realBin_loop1 g _ _ = _
        rw [realBin_loop1_spec f (a / 2) (e + 1) g (by omega) (by omega) (by omega)]
        simp only [normOdd, h0, ne_eq, not_false_eq_true, hev, and_self, if_true]
      · have hc : ¬ (((a % 2 : Nat) : Int) = 0) := by omega
        simp only [hc, decide_false, Bool.false_eq_true, if_false, pure, Except.pure]
        simp only [normOdd, hev, and_false, if_false]

/-- the scale-factor loop does nothing on an odd mantissa -/
theorem realBin_loop4_odd (a : Nat) (sf : Int) (fuel : Nat) (h : a % 2 = 1) :
    GenK.realBin_loop4 (fuel + 1) (a : Int) sf = .ok ((a : Int), sf) := by
  unfold GenK.realBin_loop4
  rw [band_1]
  have hc : ¬ (((a % 2 : Nat) : Int) = 0) := by omega
  simp only [hc, decide_false, Bool.false_eq_true, if_false, pure, Except.pure]

/-- mantissa octets -/
theorem realBin_loop6_spec (m : Nat) : ∀ (fuel : Nat) (po : Py.Tup), m < fuel →
    GenK.realBin_loop6 fuel po (m : Int) = .ok (ints (be256 m) ++ po, 0) := by
  induction m using Nat.strongRecOn with
  | _ m ih =>
    intro fuel po hf
    cases fuel with
    | zero => omega
    | succ f =>
      by_cases hm : m = 0
      · subst hm
        simp [GenK.realBin_loop6, Py.truthy, ints, be256, beDigits_zero]
        rfl
      · have hdiv : m / 256 < m := Nat.div_lt_self (Nat.pos_of_ne_zero hm) (by omega)
        have := ih (m / 256) hdiv f ([((m % 256 : Nat) : Int)] ++ po) (by omega)
        unfold GenK.realBin_loop6
        rw [truthy_nat]
        simp only [hm, ne_eq, not_false_eq_true, decide_true, if_true, band_255, shr_8]
        show GenK.realBin_loop6 f _ _ = _
        rw [this]
        simp [ints, be256, beDigits_pos 254 m hm]

/-! ### the exponent octets -/

/-- the octets the exponent loop collects, before the sign fix-up -/
def rawDigits (e : Int) : List Int :=
  if e = 0 ∨ e = -1 then [] else rawDigits (e / 256) ++ [e % 256]
termination_by e.natAbs
decreasing_by omega

theorem rawDigits_stop (e : Int) (h : e = 0 ∨ e = -1) : rawDigits e = [] := by
  rw [rawDigits]; simp [h]

theorem rawDigits_step (e : Int) (h0 : e ≠ 0) (h1 : e ≠ -1) : rawDigits e = rawDigits (e / 256) ++ [e % 256] := by
  rw [rawDigits]; simp [h0, h1]

theorem realBin_loop5_spec : ∀ (n : Nat) (e : Int) (fuel : Nat) (acc : Py.Tup), e.natAbs = n → n + 1 < fuel →
    GenK.realBin_loop5 fuel acc e = .ok (rawDigits e ++ acc, if e < 0 then -1 else 0) := by
  intro n
  induction n using Nat.strongRecOn with
  | _ n ih =>
    intro e fuel acc hn hf
    cases fuel with
    | zero => omega
    | succ g =>
      unfold GenK.realBin_loop5
      by_cases hs : e = 0 ∨ e = -1
      · have hm : Py.mem e [(0 : Int), (-(1 : Int))] = true := by
          rcases hs with h | h <;> subst h <;> rfl
        simp only [hm, Bool.not_true, Bool.false_eq_true, if_false, pure, Except.pure, rawDigits_stop e hs, List.nil_append]
        rcases hs with h | h <;> subst h <;> rfl
      · have h0 : e ≠ 0 := fun h => hs (Or.inl h)
        have h1 : e ≠ -1 := fun h => hs (Or.inr h)
        have hm : Py.mem e [(0 : Int), (-(1 : Int))] = false := by
          simp only [Py.mem, List.contains_cons, List.contains_nil, Bool.or_false, Bool.or_eq_false_iff, beq_eq_false_iff_ne, ne_eq]
          exact ⟨h0, h1⟩
        simp only [hm, Bool.not_false, if_true, band_255_int, shr_8_int]
        show GenK.realBin_loop5 g _ _ = _
        rw [ih (e / 256).natAbs (by omega) (e / 256) g _ rfl (by omega), rawDigits_step e h0 h1]
        have hsg : (e / 256 < 0) = (e < 0) := by
          apply propext; constructor <;> intro h <;> omega
        simp only [hsg, List.append_assoc]

theorem byte_emod (z : Int) : ((UInt8.ofNat (z % 256).toNat).toNat : Int) = z % 256 := by
  have h1 : 0 ≤ z % 256 := Int.emod_nonneg _ (by decide)
  have h2 : z % 256 < 256 := Int.emod_lt_of_pos _ (by decide)
  rw [toNat_ofNat_lt _ (by omega)]
  omega

theorem bytesInts_intToBytes_small (e : Int) (h : -128 ≤ e ∧ e < 128) : bytesInts (intToBytes e) = [e % 256] := by
  rw [intToBytes]
  simp only [h, and_self, if_true, bytesInts, List.map_cons, List.map_nil, byte_emod]

theorem bytesInts_intToBytes_big (e : Int) (h : ¬ (-128 ≤ e ∧ e < 128)) :
    bytesInts (intToBytes e) = bytesInts (intToBytes (e / 256)) ++ [e % 256] := by
  rw [intToBytes]
  simp only [h, if_false, bytesInts, List.map_append, List.map_cons, List.map_nil, byte_emod]

/-- the two sign fix-ups that follow the loop, as one function of the sign and the collected octets -/
def signFix (neg : Bool) : List Int → List Int
  | [] => []
  | h :: t => if !neg && decide (h ≥ 128) then 0 :: h :: t else if neg && decide (h < 128) then 255 :: h :: t else h :: t

theorem signFix_append (neg : Bool) (d : List Int) (x : Int) (h : d ≠ []) : signFix neg (d ++ [x]) = signFix neg d ++ [x] := by
  cases d with
  | nil => exact absurd rfl h
  | cons a t =>
    simp only [signFix, List.cons_append]
    split
    · rfl
    · split <;> rfl

theorem rawDigits_ne_nil (e : Int) (h0 : e ≠ 0) (h1 : e ≠ -1) : rawDigits e ≠ [] := by
  rw [rawDigits_step e h0 h1]; simp

/-- loop + fix-ups write the minimal two's complement octets of the exponent -/
theorem signFix_raw : ∀ (n : Nat) (e : Int), e.natAbs = n → e ≠ 0 → e ≠ -1 →
    signFix (decide (e < 0)) (rawDigits e) = bytesInts (intToBytes e) := by
  intro n
  induction n using Nat.strongRecOn with
  | _ n ih =>
    intro e hn h0 h1
    rw [rawDigits_step e h0 h1]
    have hm1 : 0 ≤ e % 256 := Int.emod_nonneg _ (by decide)
    have hm2 : e % 256 < 256 := Int.emod_lt_of_pos _ (by decide)
    by_cases hq : e / 256 = 0 ∨ e / 256 = -1
    · rw [rawDigits_stop _ hq]
      by_cases hs : -128 ≤ e ∧ e < 128
      · rw [bytesInts_intToBytes_small e hs]
        simp only [List.nil_append, signFix]
        by_cases hneg : e < 0
        · have : ¬ (e % 256 < 128) := by omega
          simp [hneg, this]
        · have : ¬ (e % 256 ≥ 128) := by omega
          simp [hneg, this]
      · rw [bytesInts_intToBytes_big e hs]
        simp only [List.nil_append, signFix]
        by_cases hneg : e < 0
        · have hq' : e / 256 = -1 := by omega
          have : e % 256 < 128 := by omega
          rw [hq', bytesInts_intToBytes_small (-1) (by decide)]
          simp [hneg, this]
        · have hq' : e / 256 = 0 := by omega
          have : e % 256 ≥ 128 := by omega
          rw [hq', bytesInts_intToBytes_small 0 (by decide)]
          simp [hneg, this]
    · have hq0 : e / 256 ≠ 0 := fun h => hq (Or.inl h)
      have hq1 : e / 256 ≠ -1 := fun h => hq (Or.inr h)
      have hs : ¬ (-128 ≤ e ∧ e < 128) := by omega
      rw [bytesInts_intToBytes_big e hs, signFix_append _ _ _ (rawDigits_ne_nil _ hq0 hq1)]
      have hsg : decide (e < 0) = decide (e / 256 < 0) := by
        by_cases h : e < 0
        · have : e / 256 < 0 := by omega
          simp [h, this]
        · have : ¬ e / 256 < 0 := by omega
          simp [h, this]
      rw [hsg, ih (e / 256).natAbs (by omega) (e / 256) rfl hq0 hq1]

/-- what the model answers, in the vocabulary of the translated code -/
def liftReal : Option Bytes → Py.M Py.Tup
  | some b => .ok (bytesInts b)
  | none => .error (.lib "PyAsn1Error")

theorem rawDigits_range : ∀ (n : Nat) (e : Int), e.natAbs = n → ∀ x ∈ rawDigits e, 0 ≤ x ∧ x < 256 := by
  intro n
  induction n using Nat.strongRecOn with
  | _ n ih =>
    intro e hn x hx
    by_cases hs : e = 0 ∨ e = -1
    · rw [rawDigits_stop e hs] at hx; cases hx
    · have h0 : e ≠ 0 := fun h => hs (Or.inl h)
      have h1 : e ≠ -1 := fun h => hs (Or.inr h)
      rw [rawDigits_step e h0 h1, List.mem_append] at hx
      rcases hx with hx | hx
      · exact ih (e / 256).natAbs (by omega) (e / 256) rfl x hx
      · simp only [List.mem_singleton] at hx
        subst hx
        exact ⟨Int.emod_nonneg _ (by decide), Int.emod_lt_of_pos _ (by decide)⟩

theorem truthy_band_128 (h : Int) (h0 : 0 ≤ h) (h1 : h < 256) : Py.truthy (Py.band h 128) = decide (h ≥ 128) := by
  obtain ⟨k, rfl⟩ := Int.eq_ofNat_of_zero_le h0
  have hk : k < 256 := by omega
  rw [show (128 : Int) = ((128 : Nat) : Int) from rfl, band_nat, truthy_nat]
  have : ∀ k < 256, decide ((k &&& 128) ≠ 0) = decide (k ≥ 128) := by decide +kernel
  rw [this k hk]
  by_cases hh : k ≥ 128
  · have : (k : Int) ≥ 128 := by omega
    simp [hh, this]
  · have : ¬ (k : Int) ≥ 128 := by omega
    simp [hh, this]

theorem idx_cons_zero (h : Int) (t : List Int) : Py.idx (h :: t) 0 = Except.ok h := by
  simp [Py.idx, pure, Except.pure]

/-- from `heq : <exponent block> = R` to `hR : ∃ s, R = ok (minimal two's complement octets of eo, s)` -/
macro "exp_block" heq:ident eo:ident : tactic => `(tactic| (
  rw [← $heq]
  by_cases hs : $eo = 0 ∨ $eo = -1
  · rcases hs with h | h
    · subst h
      exact ⟨0, by rw [bytesInts_intToBytes_small 0 (by decide)]; simp [band_255_int]⟩
    · subst h
      exact ⟨-1, by rw [bytesInts_intToBytes_small (-1) (by decide)]; simp [band_255_int]⟩
  · have h0 : $eo ≠ 0 := fun h => hs (Or.inl h)
    have h1 : $eo ≠ -1 := fun h => hs (Or.inr h)
    have hb : (decide ($eo = 0) || decide ($eo = -1)) = false := by simp [h0, h1]
    obtain ⟨h, t, hd⟩ := List.exists_cons_of_ne_nil (rawDigits_ne_nil $eo h0 h1)
    have hrange := rawDigits_range _ $eo rfl h (by rw [hd]; simp)
    have hsf := signFix_raw _ $eo rfl h0 h1
    rw [hd] at hsf
    simp only [hb, Bool.false_eq_true, if_false, realBin_loop5_spec _ $eo (($eo).natAbs + 2) [] rfl (by omega), hd,
      List.append_nil, List.isEmpty_cons, Bool.not_false, if_true, idx_cons_zero, truthy_band_128 h hrange.1 hrange.2]
    by_cases hneg : $eo < 0
    · by_cases hh : h ≥ 128
      · have hh' : ¬ h < 128 := by omega
        simp [hneg, hh, hh', signFix, idx_cons_zero, truthy_band_128 h hrange.1 hrange.2] at hsf ⊢
        first | exact hsf | exact ⟨_, by rw [hsf]⟩
      · have hh' : h < 128 := by omega
        simp [hneg, hh, hh', signFix, idx_cons_zero, truthy_band_128 h hrange.1 hrange.2] at hsf ⊢
        first | exact hsf | exact ⟨_, by rw [hsf]⟩
    · by_cases hh : h ≥ 128
      · have hh' : ¬ h < 128 := by omega
        simp [hneg, hh, hh', signFix, idx_cons_zero, truthy_band_128 h hrange.1 hrange.2] at hsf ⊢
        first | exact hsf | exact ⟨_, by rw [hsf]⟩
      · have hh' : h < 128 := by omega
        simp [hneg, hh, hh', signFix, idx_cons_zero, truthy_band_128 h hrange.1 hrange.2] at hsf ⊢
        first | exact hsf | exact ⟨_, by rw [hsf]⟩))

theorem realBin_kernel (m e : Int) (hm : m ≠ 0) :
    GenK.realBin (if m < 0 then -1 else 1) (m.natAbs : Int) 2 e = liftReal (realBinToContent m e) := by
  have ha : m.natAbs ≠ 0 := by omega
  have hl1 := realBin_loop1_spec m.natAbs m.natAbs e (m.natAbs + 1) ha (Nat.le_refl _) (by omega)
  have hodd := normOdd_odd m.natAbs m.natAbs e ha (Nat.le_refl _)
  unfold GenK.realBin realBinToContent
  simp only [hm, if_false]
  generalize hno : normOdd m.natAbs m.natAbs e = no at hl1 hodd
  obtain ⟨mo, eo⟩ := no
  simp only at hl1 hodd
  have hfuel : ((m.natAbs : Int).toNat + 1) = m.natAbs + 1 := by simp
  have hfuel4 : ((mo : Int).toNat + 1) = mo + 1 := by simp
  have hl4 := realBin_loop4_odd mo 0 mo hodd
  have hl6 := realBin_loop6_spec mo (mo + 1) [] (by omega)
  simp only [decide_true, if_true, hfuel, hl1, bind, Except.bind, pure, Except.pure, hfuel4, hl4,
    show ¬ ((0 : Int) > 3) by decide, decide_false, Bool.false_eq_true, if_false, hl6, List.append_nil,
    show Py.shl 0 2 = 0 by rfl]
  have hfo : (if decide ((if m < 0 then (-1 : Int) else 1) < 0) = true then (Except.ok (bor 128 64) : Py.M Int) else Except.ok 128)
      = Except.ok (((128 + if m < 0 then 64 else 0 : Nat) : Int)) := by
    by_cases hneg : m < 0 <;> simp [hneg] <;> rfl
  rw [hfo]
  simp only []
  split
  · rename_i err heq
    have hR : ∃ s, (Except.error err : Py.M (Py.Tup × Int)) = Except.ok (bytesInts (intToBytes eo), s) := by
      exp_block heq eo
    obtain ⟨s, hs⟩ := hR
    cases hs
  · rename_i v heq
    have hR : ∃ s, (Except.ok v : Py.M (Py.Tup × Int)) = Except.ok (bytesInts (intToBytes eo), s) := by
      exp_block heq eo
    obtain ⟨s, hs⟩ := hR
    cases hs
    clear heq hfo hl1 hl4 hl6 hno
    have hnat : bytesInts (natToBytes mo) = ints (be256 mo) :=
      bytesInts_natsToBytes (be256 mo) (fun d hd => by have := beDigits_lt 254 mo d hd; omega)
    simp only [len_bytes]
    generalize intToBytes eo = B
    by_cases h255 : B.length > 255
    · have : ((B.length : Nat) : Int) > 255 := by omega
      simp only [this, decide_true, if_true, h255, liftReal]
      rfl
    · have h255' : ¬ ((B.length : Nat) : Int) > 255 := by omega
      simp only [h255', decide_false, Bool.false_eq_true, if_false, h255, liftReal]
      by_cases hneg : m < 0
      · simp only [hneg, if_true]
        by_cases h1 : B.length = 1
        · simp [h1, bytesInts, ← hnat]
          try rfl
        · have h1' : ¬ ((B.length : Nat) : Int) = 1 := by omega
          by_cases h2 : B.length = 2
          · simp [h2, bytesInts, ← hnat]
            try rfl
          · have h2' : ¬ ((B.length : Nat) : Int) = 2 := by omega
            by_cases h3 : B.length = 3
            · simp [h3, bytesInts, ← hnat]
              try rfl
            · have h3' : ¬ ((B.length : Nat) : Int) = 3 := by omega
              have hmod : B.length % 256 = B.length := Nat.mod_eq_of_lt (by omega)
              simp [h1, h2, h3, h1', h2', h3', bytesInts, ← hnat, band_255, hmod]
              try rfl
      · simp only [hneg, if_false]
        by_cases h1 : B.length = 1
        · simp [h1, bytesInts, ← hnat]
          try rfl
        · have h1' : ¬ ((B.length : Nat) : Int) = 1 := by omega
          by_cases h2 : B.length = 2
          · simp [h2, bytesInts, ← hnat]
            try rfl
          · have h2' : ¬ ((B.length : Nat) : Int) = 2 := by omega
            by_cases h3 : B.length = 3
            · simp [h3, bytesInts, ← hnat]
              try rfl
            · have h3' : ¬ ((B.length : Nat) : Int) = 3 := by omega
              have hmod : B.length % 256 = B.length := Nat.mod_eq_of_lt (by omega)
              simp [h1, h2, h3, h1', h2', h3', bytesInts, ← hnat, band_255, hmod]
              try rfl

end Asn1.Kernels