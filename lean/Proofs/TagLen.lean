/-
  Proofs.TagLen — identifier and length octets: decode ∘ encode = id, for every class, format,
  tag number and length in ℕ (no bound), with an arbitrary tail preserved.
-/
import Asn1.Tag
import Proofs.Digits

namespace Asn1

theorem toNat_ofNat_lt (n : Nat) (h : n < 256) : (UInt8.ofNat n).toNat = n := by
  simp [UInt8.toNat_ofNat']; omega

theorem TagClass.bits_le (c : TagClass) : c.bits ≤ 192 ∧ c.bits % 64 = 0 := by
  cases c <;> simp [TagClass.bits]

theorem TagClass.ofBits_bits (c : TagClass) (x : Nat) (hx : x < 64) :
    TagClass.ofBits (c.bits + x) = c := by
  cases c
  · show TagClass.ofBits (0 + x) = _
    unfold TagClass.ofBits; rw [if_pos (by omega)]
  · show TagClass.ofBits (64 + x) = _
    unfold TagClass.ofBits; rw [if_neg (by omega), if_pos (by omega)]
  · show TagClass.ofBits (128 + x) = _
    unfold TagClass.ofBits; rw [if_neg (by omega), if_neg (by omega), if_pos (by omega)]
  · show TagClass.ofBits (192 + x) = _
    unfold TagClass.ofBits; rw [if_neg (by omega), if_neg (by omega), if_neg (by omega)]

/-- continuation octets of a long-form number followed by the final octet -/
theorem decodeTagNum_digits (ds : List Nat) (hds : ∀ x ∈ ds, x < 128) (d : Nat) (hd : d < 128)
    (acc : Nat) (r : Bytes) :
    decodeTagNum acc (natsToBytes (ds.map (· + 0x80)) ++ (natsToBytes [d] ++ r))
      = .ok ((ds ++ [d]).foldl (fun a x => a * 128 + x) acc, r) := by
  induction ds generalizing acc with
  | nil =>
    simp [natsToBytes, decodeTagNum, toNat_ofNat_lt d (by omega), Nat.mod_eq_of_lt hd, hd]
  | cons x xs ih =>
    have hx : x < 128 := hds x (by simp)
    have h1 : (UInt8.ofNat (x + 128)).toNat = x + 128 := toNat_ofNat_lt _ (by omega)
    simp only [List.map_cons, natsToBytes, List.cons_append, decodeTagNum, h1]
    have : ¬ (x + 128 < 128) := by omega
    simp only [this, if_false]
    have hm : (x + 128) % 128 = x := by omega
    rw [hm]
    have := ih (fun y hy => hds y (by simp [hy])) (acc * 128 + x)
    simpa [natsToBytes] using this

theorem dropLast_append_getLastD (ds : List Nat) (h : ds ≠ []) :
    ds.dropLast ++ [ds.getLastD 0] = ds := by
  induction ds with
  | nil => exact absurd rfl h
  | cons x xs ih =>
    cases xs with
    | nil => simp
    | cons y ys =>
      have := ih (by simp)
      simp only [List.dropLast_cons₂, List.cons_append]
      simp only [List.getLastD_cons] at this ⊢
      simpa using this

/-- **identifier octets round trip**: every class, both formats, every number -/
theorem decodeTag_encodeTag (t : Tag) (ic : Bool) (r : Bytes) :
    decodeTag (encodeTag t ic ++ r) = .ok (⟨t.cls, t.constructed || ic, t.num⟩, r) := by
  obtain ⟨hb, hb64⟩ := TagClass.bits_le t.cls
  unfold encodeTag
  by_cases hlt : t.num < 31
  · simp only [hlt, if_true, List.cons_append, List.nil_append, decodeTag]
    cases hc : (t.constructed || ic)
    · have h1 : (UInt8.ofNat (t.cls.bits + 0 + t.num)).toNat = t.cls.bits + t.num :=
        by rw [toNat_ofNat_lt _ (by omega)]; omega
      simp only [Bool.false_eq_true, if_false, h1]
      have : (t.cls.bits + t.num) % 32 ≠ 31 := by omega
      simp only [this, if_false]
      rw [TagClass.ofBits_bits _ _ (by omega)]
      have : ¬ ((t.cls.bits + t.num) / 32 % 2 = 1) := by omega
      have e : (t.cls.bits + t.num) % 32 = t.num := by omega
      simp [this, e]
    · have h1 : (UInt8.ofNat (t.cls.bits + 32 + t.num)).toNat = t.cls.bits + (32 + t.num) :=
        by rw [toNat_ofNat_lt _ (by omega)]; omega
      simp only [if_true, h1]
      have : (t.cls.bits + (32 + t.num)) % 32 ≠ 31 := by omega
      simp only [this, if_false]
      rw [TagClass.ofBits_bits _ _ (by omega)]
      have : (t.cls.bits + (32 + t.num)) / 32 % 2 = 1 := by omega
      have e : (t.cls.bits + (32 + t.num)) % 32 = t.num := by omega
      simp [this, e]
  · simp only [hlt, if_false, List.cons_append, decodeTag]
    have hne : t.num ≠ 0 := by omega
    have hdsne : be128 t.num ≠ [] := beDigits_ne_nil 126 t.num hne
    have hdl : ∀ x ∈ be128 t.num, x < 128 := beDigits_lt 126 t.num
    have hsplit := dropLast_append_getLastD (be128 t.num) hdsne
    have hlast : (be128 t.num).getLastD 0 < 128 := by
      apply hdl; rw [← hsplit]; simp
    have hdrop : ∀ x ∈ (be128 t.num).dropLast, x < 128 :=
      fun x hx => hdl x (List.dropLast_subset _ hx)
    have hnum := decodeTagNum_digits (be128 t.num).dropLast hdrop _ hlast 0 r
    rw [hsplit] at hnum
    have hval : (be128 t.num).foldl (fun a x => a * 128 + x) 0 = t.num := ofBe_be 126 t.num
    rw [hval] at hnum
    cases hc : (t.constructed || ic)
    · have h1 : (UInt8.ofNat (t.cls.bits + 0 + 31)).toNat = t.cls.bits + 31 :=
        by rw [toNat_ofNat_lt _ (by omega)]
      simp only [Bool.false_eq_true, if_false, h1]
      have : (t.cls.bits + 31) % 32 = 31 := by omega
      simp only [this, if_true, List.append_assoc]
      rw [hnum, TagClass.ofBits_bits _ _ (by omega)]
      have : ¬ ((t.cls.bits + 31) / 32 % 2 = 1) := by omega
      simp [this]
    · have h1 : (UInt8.ofNat (t.cls.bits + 32 + 31)).toNat = t.cls.bits + 63 :=
        by rw [toNat_ofNat_lt _ (by omega)]
      simp only [if_true, h1]
      have : (t.cls.bits + 63) % 32 = 31 := by omega
      simp only [this, if_true, List.append_assoc]
      rw [hnum, TagClass.ofBits_bits _ _ (by omega)]
      have : (t.cls.bits + 63) / 32 % 2 = 1 := by omega
      simp [this]

/-- **length octets round trip**, short and long form, any length the encoder accepts -/
theorem decodeLength_encodeLength (n : Nat) (l : Bytes) (h : encodeLength n = some l) (r : Bytes) :
    decodeLength (l ++ r) = .ok (.definite n, r) := by
  unfold encodeLength at h
  by_cases hs : n < 0x80
  · simp only [hs, if_true, Option.some.injEq] at h
    subst h
    simp [decodeLength, toNat_ofNat_lt n (by omega), hs]
  · simp only [hs, if_false] at h
    by_cases hl : (be256 n).length > 126
    · simp [hl] at h
    · simp only [hl, if_false, Option.some.injEq] at h
      subst h
      have hpos : 0 < (be256 n).length := beDigits_length_pos 254 n (by omega)
      have h1 : (UInt8.ofNat (0x80 + (be256 n).length)).toNat = 128 + (be256 n).length :=
        toNat_ofNat_lt _ (by omega)
      simp only [List.cons_append, decodeLength, h1]
      have a1 : ¬ (128 + (be256 n).length < 128) := by omega
      have a2 : ¬ (128 + (be256 n).length = 128) := by omega
      have a3 : (128 + (be256 n).length) % 128 = (be256 n).length := by omega
      simp only [a1, a2, if_false, a3]
      have a4 : (be256 n).length ≤ (natsToBytes (be256 n) ++ r).length := by simp
      simp only [a4, if_true]
      have t1 : (natsToBytes (be256 n) ++ r).take (be256 n).length = natsToBytes (be256 n) := by
        rw [List.take_append_of_le_length (by simp)]
        rw [List.take_of_length_le (by simp)]
      have t2 : (natsToBytes (be256 n) ++ r).drop (be256 n).length = r := by
        rw [List.drop_append_of_le_length (by simp)]
        rw [List.drop_of_length_le (by simp)]; simp
      rw [t1, t2, bytesToNat_natsToBytes_be256]

/-- what the encoder refuses: only lengths needing more than 126 octets (≥ 256^126) -/
theorem encodeLength_isSome (n : Nat) (h : (be256 n).length ≤ 126) : (encodeLength n).isSome := by
  unfold encodeLength
  by_cases hs : n < 0x80 <;> simp [hs]
  omega

theorem encodeLength_ne_nil (n : Nat) (l : Bytes) (h : encodeLength n = some l) : l ≠ [] := by
  unfold encodeLength at h
  by_cases hs : n < 0x80
  · simp [hs] at h; subst h; simp
  · simp only [hs, if_false] at h
    by_cases hl : (be256 n).length > 126
    · simp [hl] at h
    · simp [hl] at h; subst h; simp

theorem encodeTag_ne_nil (t : Tag) (ic : Bool) : encodeTag t ic ≠ [] := by
  unfold encodeTag
  by_cases h : t.num < 31 <;> simp [h]

end Asn1
