/-
  Proofs.KernelTime — the CER/DER time canonicaliser as it is in the source
  (`TimeEncoderMixIn.encodeValue`, translated into `GenK.timeCanon` on every run) computes the model's
  `canonTime` (Asn1/Time.lean), about which Props.C20 proves shape, instant preservation and refusals.
-/
import Asn1.GenKernels
import Asn1.Time

namespace Asn1.Kernels
open Py Asn1.Time

/-- a text as the tuple of code points `asNumbers()` returns -/
def I (s : List Char) : Py.Tup := s.map fun c => ((c.toNat : Nat) : Int)

theorem throw_eq' {α} (e : PyErr) : (throw e : Py.M α) = .error e := rfl

theorem cI_inj (c d : Char) : (((c.toNat : Nat) : Int) = ((d.toNat : Nat) : Int)) ↔ c = d := by
  constructor
  · intro h
    have : c.toNat = d.toNat := by omega
    exact Char.toNat_inj.mp this
  · intro h; rw [h]

theorem mem_I (c : Char) (s : List Char) : Py.mem ((c.toNat : Nat) : Int) (I s) = decide (c ∈ s) := by
  induction s with
  | nil => simp [Py.mem, I]
  | cons d t ih =>
    simp only [Py.mem, I, List.map_cons, List.contains_cons, List.mem_cons] at ih ⊢
    rw [ih]
    by_cases h : c = d
    · subst h; simp
    · have : ¬ (((c.toNat : Nat) : Int) = ((d.toNat : Nat) : Int)) := fun e => h ((cI_inj c d).mp e)
      simp [h, this]

theorem len_I (s : List Char) : Py.len (I s) = ((s.length : Nat) : Int) := by simp [Py.len, I]

theorem idx_I (s : List Char) (i : Nat) (h : i < s.length) :
    Py.idx (I s) (i : Int) = .ok ((s[i].toNat : Nat) : Int) := by
  unfold Py.idx
  have h0 : ¬ ((i : Int) < 0) := by omega
  simp only [h0, if_false, Int.toNat_natCast]
  simp [I, h]
  rfl

theorem map_eraseIdx {α β} (f : α → β) : ∀ (l : List α) (i : Nat), (l.map f).eraseIdx i = (l.eraseIdx i).map f
  | [], _ => rfl
  | _ :: _, 0 => rfl
  | a :: l, i + 1 => by simp [List.eraseIdx, map_eraseIdx f l i]

theorem delAt_I (s : List Char) (i : Nat) (h : i < s.length) :
    Py.delAt (I s) (i : Int) = .ok (I (s.eraseIdx i)) := by
  unfold Py.delAt
  have h0 : ¬ ((i : Int) < 0) := by omega
  simp only [h0, if_false, Int.toNat_natCast, pure, Except.pure]
  have h1 : ¬ (False ∨ (i : Int) ≥ ((I s).length : Int)) := by
    simp only [I, List.length_map, false_or]; omega
  rw [if_neg h1]
  simp [I, map_eraseIdx]

/-- position of an element behind a prefix -/
theorem get_mid (pre : List Char) (x : Char) (a b : List Char) :
    (pre ++ '.' :: (a ++ x :: b))[pre.length + a.length + 1]? = some x := by
  rw [List.getElem?_append_right (by omega)]
  simp only [show pre.length + a.length + 1 - pre.length = a.length + 1 by omega, List.getElem?_cons_succ]
  rw [List.getElem?_append_right (by omega)]
  simp

theorem erase_mid (pre : List Char) (x : Char) (a b : List Char) :
    (pre ++ '.' :: (a ++ x :: b)).eraseIdx (pre.length + a.length + 1) = pre ++ '.' :: (a ++ b) := by
  rw [List.eraseIdx_append_of_length_le (by omega)]
  simp only [show pre.length + a.length + 1 - pre.length = a.length + 1 by omega, List.eraseIdx_cons_succ]
  rw [List.eraseIdx_append_of_length_le (by omega)]
  simp

/-- **the backward scan**: from the last element of `a` down to the dot, every `0` is deleted -/
theorem time_loop_spec (pre : List Char) : ∀ (n : Nat) (a b : List Char) (m : Bool) (fuel : Nat), a.length = n →
    (∀ c ∈ a, c ≠ '.') → a.length < fuel →
    ∃ m', GenK.timeCanon_loop1 fuel (I (pre ++ '.' :: (a ++ b))) m ((pre.length + a.length : Nat) : Int) =
      .ok (I (pre ++ '.' :: (a.filter (· ≠ '0') ++ b)), m', ((pre.length : Nat) : Int))
  | 0, a, b, m, fuel, hn, _, hf => by
    have : a = [] := List.eq_nil_of_length_eq_zero hn
    subst this
    cases fuel with
    | zero => simp at hf
    | succ f =>
      refine ⟨m, ?_⟩
      unfold GenK.timeCanon_loop1
      have hi : Py.idx (I (pre ++ '.' :: ([] ++ b))) ((pre.length + ([] : List Char).length : Nat) : Int) = .ok 46 := by
        rw [idx_I _ _ (by simp)]
        simp
      simp only [bind, Except.bind, hi]
      simp [pure, Except.pure]
  | n + 1, a, b, m, fuel, hn, hdot, hf => by
    rcases List.eq_nil_or_concat a with rfl | ⟨a', x, rfl⟩
    · simp at hn
    · simp only [List.concat_eq_append, List.length_append, List.length_singleton] at hn hf
      have hx : x ≠ '.' := hdot x (by simp)
      have hdot' : ∀ c ∈ a', c ≠ '.' := fun c hc => hdot c (by simp [hc])
      cases fuel with
      | zero => omega
      | succ f =>
        unfold GenK.timeCanon_loop1
        have hlen : pre.length + (a' ++ [x]).length = pre.length + a'.length + 1 := by simp; omega
        have hlist : pre ++ '.' :: (a'.concat x ++ b) = pre ++ '.' :: (a' ++ x :: b) := by simp
        have hidx : Py.idx (I (pre ++ '.' :: (a'.concat x ++ b))) ((pre.length + (a'.concat x).length : Nat) : Int)
            = .ok ((x.toNat : Nat) : Int) := by
          rw [hlist, List.concat_eq_append, hlen, idx_I _ _ (by simp; omega)]
          have := get_mid pre x a' b
          rw [List.getElem?_eq_getElem (by simp; omega)] at this
          simp only [Option.some.injEq] at this
          rw [this]
        simp only [bind, Except.bind, hidx]
        have hne : ((x.toNat : Nat) : Int) ≠ 46 := fun e => hx ((cI_inj x '.').mp e)
        simp only [hne, ne_eq, not_false_eq_true, decide_true, if_true]
        by_cases hz : x = '0'
        · subst hz
          have h48 : ((('0' : Char).toNat : Nat) : Int) = 48 := rfl
          simp only [h48, decide_true, if_true]
          have hdel : Py.delAt (I (pre ++ '.' :: (a'.concat '0' ++ b))) ((pre.length + (a'.concat '0').length : Nat) : Int)
              = .ok (I (pre ++ '.' :: (a' ++ b))) := by
            rw [hlist, List.concat_eq_append, hlen, delAt_I _ _ (by simp; omega), erase_mid]
          simp only [hdel, pure, Except.pure]
          obtain ⟨m', ih⟩ := time_loop_spec pre n a' b true f (by omega) hdot' (by omega)
          refine ⟨m', ?_⟩
          have e1 : ((pre.length + (a'.concat '0').length : Nat) : Int) - 1 = ((pre.length + a'.length : Nat) : Int) := by
            simp only [List.concat_eq_append, List.length_append, List.length_singleton]; omega
          rw [e1, ih]
          simp [List.filter_append]
        · have h48 : ¬ (((x.toNat : Nat) : Int) = 48) := fun e => hz ((cI_inj x '0').mp e)
          simp only [h48, decide_false, Bool.false_eq_true, if_false, pure, Except.pure]
          obtain ⟨m', ih⟩ := time_loop_spec pre n a' (x :: b) m f (by omega) hdot' (by omega)
          refine ⟨m', ?_⟩
          have e1 : ((pre.length + (a'.concat x).length : Nat) : Int) - 1 = ((pre.length + a'.length : Nat) : Int) := by
            simp only [List.concat_eq_append, List.length_append, List.length_singleton]; omega
          rw [e1, hlist, ih]
          simp [List.filter_append, hz]

theorem last_dot_split : ∀ (s : List Char), '.' ∈ s → ∃ pre post, s = pre ++ '.' :: post ∧ ∀ c ∈ post, c ≠ '.'
  | [], h => by simp at h
  | c :: t, h => by
    by_cases ht : '.' ∈ t
    · obtain ⟨pre, post, rfl, hp⟩ := last_dot_split t ht
      exact ⟨c :: pre, post, rfl, hp⟩
    · have hc : c = '.' := by
        simp only [List.mem_cons] at h
        rcases h with h | h
        · exact h.symm
        · exact absurd h ht
      subst hc
      exact ⟨[], t, rfl, fun d hd hdd => ht (hdd ▸ hd)⟩

theorem takeWhile_all {α} (p : α → Bool) : ∀ (l : List α) (x : α) (r : List α), (∀ a ∈ l, p a = true) → p x = false →
    (l ++ x :: r).takeWhile p = l ∧ (l ++ x :: r).dropWhile p = x :: r
  | [], x, r, _, hx => by simp [List.takeWhile, List.dropWhile, hx]
  | a :: l, x, r, hl, hx => by
    have ha := hl a (by simp)
    obtain ⟨h1, h2⟩ := takeWhile_all p l x r (fun b hb => hl b (by simp [hb])) hx
    simp [List.takeWhile, List.dropWhile, ha, h1, h2]

/-- the model's fraction stripper on a text split at its last dot -/
theorem stripFraction_split (pre post : List Char) (hp : ∀ c ∈ post, c ≠ '.') :
    stripFraction (pre ++ '.' :: post) =
      (if (post.filter (· ≠ '0')).head? = some 'Z' then pre ++ post.filter (· ≠ '0')
       else pre ++ '.' :: post.filter (· ≠ '0')) := by
  unfold stripFraction
  have hrev : (pre ++ '.' :: post).reverse = post.reverse ++ '.' :: pre.reverse := by simp
  have hall : ∀ a ∈ post.reverse, (fun c : Char => decide (c ≠ '.')) a = true := by
    intro a ha; simp only [List.mem_reverse] at ha; simpa using hp a ha
  obtain ⟨h1, h2⟩ := takeWhile_all (fun c : Char => decide (c ≠ '.')) post.reverse '.' pre.reverse hall (by simp)
  simp only [hrev, h1, h2, List.reverse_reverse, List.drop_one, List.tail_cons]

/-- outcome of the model, in the vocabulary of the translated code -/
def liftTime : TRes (List Char) → Py.M Py.Tup
  | .ok s => .ok (I s)
  | .error .liberr => .error (.lib "PyAsn1Error")
  | .error (.leak _) => .error .indexError

/-- **the CER/DER time canonicaliser as it is in the source computes the model's `canonTime`** - every text,
    both time types (their `MIN_LENGTH` / `MAX_LENGTH` are the kind's) -/
theorem timeCanon_kernel (k : Kind) (s : List Char) :
    GenK.timeCanon (k.maxLength : Int) (k.minLength : Int) (I s) = liftTime (canonTime k s) := by
  unfold GenK.timeCanon canonTime
  have hplus := mem_I '+' s
  have hminus := mem_I '-' s
  have hcomma := mem_I ',' s
  have hdotm := mem_I '.' s
  simp only [show ((('+' : Char).toNat : Nat) : Int) = 43 from rfl] at hplus
  simp only [show ((('-' : Char).toNat : Nat) : Int) = 45 from rfl] at hminus
  simp only [show (((',' : Char).toNat : Nat) : Int) = 44 from rfl] at hcomma
  simp only [show ((('.' : Char).toNat : Nat) : Int) = 46 from rfl] at hdotm
  rw [hplus, hminus]
  by_cases hsign : '+' ∈ s ∨ '-' ∈ s
  · have : (decide ('+' ∈ s) || decide ('-' ∈ s)) = true := by
      rcases hsign with h | h <;> simp [h]
    simp [this, hsign, liftTime, throw_eq']
  · have : (decide ('+' ∈ s) || decide ('-' ∈ s)) = false := by
      simp only [not_or] at hsign; simp [hsign.1, hsign.2]
    simp only [this, Bool.false_eq_true, if_false, hsign]
    -- the last character
    cases hl : s.getLast? with
    | none =>
      have : s = [] := by simpa using hl
      subst this
      simp [I, Py.idx, bind, Except.bind, liftTime, throw_eq']
    | some l =>
      have hsne : s ≠ [] := by intro h0; subst h0; simp at hl
      have hidx : Py.idx (I s) (-1) = .ok ((l.toNat : Nat) : Int) := by
        have hlen : 0 < s.length := List.length_pos_iff.mpr hsne
        unfold Py.idx
        have hneg : ((-1 : Int) < 0) := by decide
        simp only [hneg, if_true]
        have hj : (-1 : Int) + ((I s).length : Int) = ((s.length - 1 : Nat) : Int) := by
          simp only [I, List.length_map]; omega
        rw [hj]
        have h0 : ¬ (((s.length - 1 : Nat) : Int) < 0) := by omega
        simp only [h0, if_false, Int.toNat_natCast]
        rw [List.getLast?_eq_getElem?] at hl
        simp [I, hl]
        rfl
      simp only [bind, Except.bind, hidx]
      by_cases hz : l = 'Z'
      · subst hz
        simp only [show ((('Z' : Char).toNat : Nat) : Int) = 90 from rfl, ne_eq, not_true_eq_false, decide_false,
          Bool.false_eq_true, if_false, hcomma]
        by_cases hc : ',' ∈ s
        · simp [hc, liftTime, throw_eq']
        · simp only [hc, decide_false, Bool.false_eq_true, if_false, hdotm]
          -- the canonical text and the final length test
          have hfinal : ∀ (s' : List Char),
              (if (!(decide ((k.minLength : Int) < Py.len (I s')) && decide (Py.len (I s') < (k.maxLength : Int)))) = true then
                  (throw (PyErr.lib "PyAsn1Error") : Py.M Py.Tup) else pure (I s')) =
                liftTime (if k.minLength < s'.length ∧ s'.length < k.maxLength then .ok s' else .error .liberr) := by
            intro s'
            rw [len_I]
            by_cases hlen : k.minLength < s'.length ∧ s'.length < k.maxLength
            · have h1 : ((k.minLength : Int) < ((s'.length : Nat) : Int)) := by omega
              have h2 : (((s'.length : Nat) : Int) < (k.maxLength : Int)) := by omega
              simp [h1, h2, hlen, liftTime, pure, Except.pure]
            · have hb : (decide ((k.minLength : Int) < ((s'.length : Nat) : Int)) && decide (((s'.length : Nat) : Int) < (k.maxLength : Int))) = false := by
                by_cases h1 : ((k.minLength : Int) < ((s'.length : Nat) : Int))
                · have h2 : ¬ (((s'.length : Nat) : Int) < (k.maxLength : Int)) := by
                    intro h2; exact hlen ⟨by omega, by omega⟩
                  simp [h2]
                · simp [h1]
              rw [hb, if_neg hlen]
              simp [liftTime, throw_eq']
          by_cases hd : '.' ∈ s
          · simp only [hd, decide_true, if_true]
            obtain ⟨pre, post, rfl, hp⟩ := last_dot_split s hd
            rw [stripFraction_split pre post hp]
            have hlen0 : Py.len (I (pre ++ '.' :: post)) - 1 = ((pre.length + post.length : Nat) : Int) := by
              rw [len_I]; simp only [List.length_append, List.length_cons]; omega
            have hfuel : (Py.len (I (pre ++ '.' :: post))).toNat + 1 = pre.length + post.length + 2 := by
              rw [len_I]; simp only [List.length_append, List.length_cons]; omega
            obtain ⟨m', hloop⟩ := time_loop_spec pre post.length post [] false (pre.length + post.length + 2) rfl hp (by omega)
            simp only [List.append_nil] at hloop
            rw [hlen0, hfuel, hloop]
            simp only [bind, Except.bind]
            have e1 : ((pre.length : Nat) : Int) + 1 = ((pre.length + 1 : Nat) : Int) := by omega
            rw [e1, len_I]
            cases hpf : post.filter (· ≠ '0') with
            | nil =>
              have : ¬ (((pre.length + 1 : Nat) : Int) < (((pre ++ ['.']).length : Nat) : Int)) := by simp
              simp only [List.append_nil] at this ⊢
              simp only [this, decide_false, Bool.false_eq_true, if_false, pure, Except.pure, List.head?_nil]
              cases m' <;> simp only [if_true, if_false, Bool.false_eq_true] <;> exact hfinal _
            | cons y ys =>
              have hlt : (((pre.length + 1 : Nat) : Int) < (((pre ++ '.' :: (y :: ys)).length : Nat) : Int)) := by
                simp only [List.length_append, List.length_cons]; omega
              simp only [hlt, decide_true, if_true]
              have hy : Py.idx (I (pre ++ '.' :: y :: ys)) ((pre.length + 1 : Nat) : Int) = .ok ((y.toNat : Nat) : Int) := by
                rw [idx_I _ _ (by simp)]
                have : (pre ++ '.' :: y :: ys)[pre.length + 1]? = some y := by
                  rw [List.getElem?_append_right (by omega)]; simp
                rw [List.getElem?_eq_getElem (by simp)] at this
                simp only [Option.some.injEq] at this
                rw [this]
              simp only [hy, List.head?_cons, Option.some.injEq]
              by_cases hyz : y = 'Z'
              · subst hyz
                simp only [show ((('Z' : Char).toNat : Nat) : Int) = 90 from rfl, decide_true, if_true]
                have e2 : ((pre.length + 1 : Nat) : Int) - 1 = ((pre.length : Nat) : Int) := by omega
                have hdel : Py.delAt (I (pre ++ '.' :: 'Z' :: ys)) ((pre.length : Nat) : Int) = .ok (I (pre ++ 'Z' :: ys)) := by
                  rw [delAt_I _ _ (by simp)]
                  congr 2
                  rw [List.eraseIdx_append_of_length_le (by omega)]
                  simp
                rw [e2, hdel]
                simp only [pure, Except.pure, if_true]
                exact hfinal _
              · have h90 : ¬ (((y.toNat : Nat) : Int) = 90) := fun e => hyz ((cI_inj y 'Z').mp e)
                simp only [h90, decide_false, Bool.false_eq_true, if_false, pure, Except.pure, hyz]
                cases m' <;> simp only [if_true, if_false, Bool.false_eq_true] <;> exact hfinal _
          · simp only [hd, decide_false, Bool.false_eq_true, if_false, pure, Except.pure]
            exact hfinal s
      · have h90 : (((l.toNat : Nat) : Int) ≠ 90) := fun e => hz ((cI_inj l 'Z').mp e)
        simp [h90, hz, liftTime, throw_eq']

end Asn1.Kernels
