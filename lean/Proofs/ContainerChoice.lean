/-
  Proofs.ContainerChoice — CHOICE objects: the shape invariant (at most one alternative) is kept by
  every operation, and under it the object refines the option prototype.
-/
import Asn1.Container
import Proofs.ContainerRec

namespace Asn1.Container
open OptionSpec

theorem altFields_get (n k : Nat) (h : k < n) : (Choice.altFields n)[k]? = some FK.req := by
  simp [Choice.altFields, List.getElem?_replicate, h]

/-- the SET assignment underneath `Choice.setComponentByPosition`, spelled out -/
theorem rec_setAt_alt (n : Nat) (hn : n ≠ 0) (comps : Option (List Comp)) (i : Int) (a : Option Arg) :
    Rec.setAt (Choice.altFields n) ⟨comps, 0⟩ i a =
      match pyIdx n i, a with
      | none, _ => none
      | some k, none => some ⟨some ((if (Rec.slot (comps.getD []) i).isSome then comps.getD [] else List.replicate n Comp.hole).set k .ph), 0⟩
      | some k, some (.py z) => some ⟨some ((if (Rec.slot (comps.getD []) i).isSome then comps.getD [] else List.replicate n Comp.hole).set k (.val z)), 0⟩
      | some k, some (.obj z) => some ⟨some ((if (Rec.slot (comps.getD []) i).isSome then comps.getD [] else List.replicate n Comp.hole).set k (.val z)), 0⟩
      | some _, some .bad => none := by
  unfold Rec.setAt
  have hl : (Choice.altFields n).length = n := by simp [Choice.altFields]
  simp only [hl, hn, ne_eq, not_false_eq_true, if_true]
  cases hk : pyIdx n i with
  | none => rfl
  | some k =>
    have hkl := pyIdx_lt _ _ _ hk
    simp only [altFields_get n k hkl, setNth_eq_set]
    cases a with
    | none => rfl
    | some a => cases a <;> rfl


/-- the component list with exactly one slot filled -/
def single (n k : Nat) (c : Comp) : List Comp := (List.replicate n Comp.hole).set k c

theorem single_get (n k : Nat) (c : Comp) (j : Nat) :
    (single n k c)[j]? = if j < n then (if k = j then some c else some Comp.hole) else none := by
  unfold single
  by_cases hj : j < n
  · by_cases hkj : k = j
    · subst hkj; simp [hj]
    · simp [List.getElem?_set_ne hkj, List.getElem?_replicate, hj, hkj]
  · have : n ≤ j := by omega
    simp [hj, List.getElem?_eq_none, this]

theorem single_length (n k : Nat) (c : Comp) : (single n k c).length = n := by simp [single]

theorem inv_single (n k : Nat) (c : Comp) (hk : k < n) (hc : c ≠ .hole) :
    Choice.Inv n ⟨some (single n k c), some k⟩ := by
  unfold Choice.Inv
  simp only
  refine ⟨single_length n k c, hk, ?_, ?_⟩
  · intro c' h; rw [single_get] at h; simp [hk] at h; exact h ▸ hc
  · intro j hjk hj; rw [single_get]; simp [hj, Ne.symm hjk]

theorem abs_single (n k : Nat) (c : Comp) (hk : k < n) :
    Choice.absO ⟨some (single n k c), some k⟩ = ⟨true, true, some (k, c.get?)⟩ := by
  have hne : ∃ x xs, single n k c = x :: xs := by
    cases h : single n k c with
    | nil => have := single_length n k c; rw [h] at this; simp at this; omega
    | cons x xs => exact ⟨x, xs, rfl⟩
  obtain ⟨x, xs, hx⟩ := hne
  have hget : (single n k c)[k]? = some c := by rw [single_get]; simp [hk]
  unfold Choice.absO Choice.chosen
  simp only [hget, Option.isSome_some]
  rw [hx]

/-- the shapes the invariant allows -/
theorem inv_cases {n : Nat} {st : ChoiceSt} (h : Choice.Inv n st) :
    (st = ⟨none, none⟩) ∨ (st = ⟨some [], none⟩) ∨
    (∃ l k, st = ⟨some l, some k⟩ ∧ l.length = n ∧ k < n ∧ (∀ c, l[k]? = some c → c ≠ .hole) ∧
      ∀ j, j ≠ k → j < n → l[j]? = some .hole) := by
  obtain ⟨comps, cur⟩ := st
  cases comps with
  | none => cases cur with
    | none => exact .inl rfl
    | some k => simp [Choice.Inv] at h
  | some l =>
    cases cur with
    | none =>
      cases l with
      | nil => exact .inr (.inl rfl)
      | cons x xs => simp [Choice.Inv] at h
    | some k =>
      simp only [Choice.Inv] at h
      exact .inr (.inr ⟨l, k, rfl, h⟩)

theorem slot_nat (l : List Comp) (n : Nat) (i : Int) (k : Nat) (hl : l.length = n) (hk : pyIdx n i = some k) :
    Rec.slot l i = l[k]? := by
  unfold Rec.slot; rw [hl, hk]; rfl

/-- assigning slot `k` of a list that holds only alternative `k0`, then clearing `k0` if it is another one -/
theorem alloc_set_single (n : Nat) (l : List Comp) (k0 k : Nat) (c : Comp) (hlen : l.length = n) (hk : k < n)
    (hk0 : k0 < n) (hrest : ∀ j, j ≠ k0 → j < n → l[j]? = some Comp.hole) :
    (if k0 ≠ k then setNth (l.set k c) k0 Comp.hole else l.set k c) = single n k c := by
  simp only [setNth_eq_set]
  apply List.ext_getElem?
  intro j
  rw [single_get]
  by_cases hj : j < n
  · simp only [hj, if_true]
    by_cases h0 : k0 = k
    · subst h0
      simp only [ne_eq, not_true_eq_false, if_false]
      by_cases hkj : k0 = j
      · subst hkj; simp [List.getElem?_set_self (show k0 < l.length by omega)]
      · rw [List.getElem?_set_ne hkj]; simp [hkj, hrest j (Ne.symm hkj) hj]
    · simp only [ne_eq, h0, not_false_eq_true, if_true]
      by_cases hkj : k = j
      · subst hkj
        rw [List.getElem?_set_ne h0, List.getElem?_set_self (show k < l.length by omega)]
        simp
      · simp only [hkj, if_false]
        by_cases h0j : k0 = j
        · subst h0j
          rw [List.getElem?_set_self (by simp; omega)]
        · rw [List.getElem?_set_ne h0j, List.getElem?_set_ne hkj]
          exact hrest j (Ne.symm h0j) hj
  · have hge : n ≤ j := by omega
    simp only [hj, if_false]
    split <;> simp [List.getElem?_eq_none, hlen, hge]

/-- **assignment selects**: under the invariant the result holds exactly the assigned alternative -/
theorem choice_setAt {n : Nat} (hn : n ≠ 0) {st : ChoiceSt} (hinv : Choice.Inv n st) (i : Int) (a : Option Arg) :
    Choice.setAt n st i a =
      match pyIdx n i, a with
      | none, _ => none
      | some k, none => some ⟨some (single n k .ph), some k⟩
      | some k, some (.py z) => some ⟨some (single n k (.val z)), some k⟩
      | some k, some (.obj z) => some ⟨some (single n k (.val z)), some k⟩
      | some _, some .bad => none := by
  unfold Choice.setAt
  rw [rec_setAt_alt n hn]
  cases hk : pyIdx n i with
  | none => cases a <;> rfl
  | some k =>
    have hkl := pyIdx_lt _ _ _ hk
    rcases inv_cases hinv with h | h | ⟨l, k0, h, hlen, hk0, _, hrest⟩
    · subst h
      cases a with
      | none => simp [Rec.slot, pyIdx_zero, single]
      | some a => cases a <;> simp [Rec.slot, pyIdx_zero, single]
    · subst h
      cases a with
      | none => simp [Rec.slot, pyIdx_zero, single]
      | some a => cases a <;> simp [Rec.slot, pyIdx_zero, single]
    · subst h
      have hs : (Rec.slot l i).isSome = true := by
        rw [slot_nat l n i k hlen hk, List.getElem?_eq_getElem (show k < l.length by omega)]; rfl
      cases a with
      | none =>
        simp only [Option.getD_some, hs, if_true]
        rw [alloc_set_single n l k0 k _ hlen hkl hk0 hrest]
      | some a =>
        cases a with
        | py z =>
          simp only [Option.getD_some, hs, if_true]
          rw [alloc_set_single n l k0 k _ hlen hkl hk0 hrest]
        | obj z =>
          simp only [Option.getD_some, hs, if_true]
          rw [alloc_set_single n l k0 k _ hlen hkl hk0 hrest]
        | bad => rfl


theorem abs_alloc (n : Nat) (hn : n ≠ 0) (l : List Comp) (k : Nat) (c : Comp) (hlen : l.length = n)
    (hc : l[k]? = some c) : Choice.absO ⟨some l, some k⟩ = ⟨true, true, some (k, c.get?)⟩ := by
  cases l with
  | nil => simp at hlen; omega
  | cons x xs =>
    unfold Choice.absO Choice.chosen
    simp only [hc, Option.isSome_some]

theorem selComp_get (c : Comp) (hc : c ≠ .hole) : selComp c.get? = c := by
  cases c with
  | hole => exact absurd rfl hc
  | ph => rfl
  | val z => rfl

theorem slot_nil (i : Int) : Rec.slot [] i = none := by
  simp [Rec.slot, pyIdx_zero]

theorem pyIdx_cast (n k : Nat) (h : k < n) : pyIdx n (k : Int) = some k := by
  unfold pyIdx; simp [h]

/-- reading an alternative commutes with the abstraction and keeps the invariant -/
theorem choice_getAt {n : Nat} (hn : n ≠ 0) {st : ChoiceSt} (hinv : Choice.Inv n st) (i : Int) (inst : Bool) :
    (Choice.getAt n st i inst).2 = (OptionSpec.getAt n (Choice.absO st) i inst).2 ∧
    Choice.absO (Choice.getAt n st i inst).1 = (OptionSpec.getAt n (Choice.absO st) i inst).1 ∧
    Choice.Inv n (Choice.getAt n st i inst).1 := by
  have hset := choice_setAt hn hinv i none
  rcases inv_cases hinv with h | h | ⟨l, k, h, hlen, hk, hck, hrest⟩
  · -- no component list
    subst h
    have ha : Choice.absO ⟨none, none⟩ = ⟨false, false, none⟩ := rfl
    unfold Choice.getAt OptionSpec.getAt
    rw [ha]
    cases inst with
    | false => exact ⟨by first | rfl | trivial, by first | exact rfl | trivial, hinv⟩
    | true =>
      simp only [Option.isSome_none, Bool.false_eq_true, false_and, if_false, Option.bind_none, Option.getD_none,
        Bool.not_true, Comp.isHole, if_true, hset]
      cases hj : pyIdx n i with
      | none => exact ⟨by first | rfl | trivial, by first | exact rfl | trivial, hinv⟩
      | some j =>
        have hjl := pyIdx_lt _ _ _ hj
        simp only [Option.bind_some, slot_nat _ n i j (single_length n j .ph) hj, single_get, hjl, if_true]
        exact ⟨by first | rfl | trivial, by first | exact abs_single n j .ph hjl | trivial, inv_single n j .ph hjl (by simp)⟩
  · subst h
    have ha : Choice.absO ⟨some [], none⟩ = ⟨true, false, none⟩ := rfl
    unfold Choice.getAt OptionSpec.getAt
    rw [ha]
    cases inst with
    | false => exact ⟨by simp [slot_nil, Comp.isVal], rfl, hinv⟩
    | true =>
      simp only [Option.isSome_none, Bool.false_eq_true, false_and, if_false, Option.bind_some, slot_nil,
        Option.getD_none, Bool.not_true, Comp.isHole, if_true, hset]
      cases hj : pyIdx n i with
      | none => exact ⟨by first | rfl | trivial, by first | exact rfl | trivial, hinv⟩
      | some j =>
        have hjl := pyIdx_lt _ _ _ hj
        simp only [Option.bind_some, slot_nat _ n i j (single_length n j .ph) hj, single_get, hjl, if_true]
        exact ⟨by first | rfl | trivial, by first | exact abs_single n j .ph hjl | trivial, inv_single n j .ph hjl (by simp)⟩
  · subst h
    obtain ⟨c, hc⟩ : ∃ c, l[k]? = some c := ⟨_, List.getElem?_eq_getElem (show k < l.length by omega)⟩
    have hcne := hck c hc
    have ha := abs_alloc n hn l k c hlen hc
    unfold Choice.getAt OptionSpec.getAt
    rw [ha]
    simp only [Option.isSome_some, true_and, Option.map_some, Option.some.injEq, Option.bind_some]
    by_cases hki : (k : Int) = i
    · subst hki
      simp only [if_true, slot_nat l n (k : Int) k hlen (pyIdx_cast n k hk), hc, Option.getD_some,
        selComp_get c hcne]
      exact ⟨by first | rfl | trivial, by first | exact ha | trivial, hinv⟩
    · simp only [hki, if_false]
      cases hj : pyIdx n i with
      | none =>
        have hsl : Rec.slot l i = none := by unfold Rec.slot; rw [hlen, hj]; rfl
        simp only [hsl, Option.getD_none, Comp.isVal, Comp.isHole, if_true, reduceCtorEq, if_false, hset, hj]
        cases inst <;> exact ⟨by first | rfl | trivial, by first | exact ha | trivial, hinv⟩
      | some j =>
        have hjl := pyIdx_lt _ _ _ hj
        rw [slot_nat l n i j hlen hj]
        by_cases hjk : j = k
        · subst hjk
          simp only [hc, Option.getD_some, if_true]
          cases inst with
          | false =>
            cases c with
            | hole => exact absurd rfl hcne
            | ph => exact ⟨by first | rfl | trivial, by first | exact ha | trivial, hinv⟩
            | val z => exact ⟨by first | rfl | trivial, by first | exact ha | trivial, hinv⟩
          | true =>
            have : c.isHole = false := by cases c <;> first | rfl | exact absurd rfl hcne
            simp only [Bool.not_true, Bool.false_eq_true, if_false, this, selComp_get c hcne, if_true]
            exact ⟨by first | rfl | trivial, by first | exact ha | trivial, hinv⟩
        · have hne : ¬ (some j = some k) := by intro h; exact hjk (Option.some.inj h)
          simp only [hrest j hjk hjl, Option.getD_some, hne, if_false, Comp.isVal, Comp.isHole, if_true]
          cases inst with
          | false => exact ⟨by first | rfl | trivial, by first | exact ha | trivial, hinv⟩
          | true =>
            simp only [Bool.not_true, Bool.false_eq_true, if_false, hset, hj, Option.bind_some,
              slot_nat _ n i j (single_length n j .ph) hj, single_get, hjl, if_true, Option.getD_some]
            exact ⟨by first | rfl | trivial, by first | exact abs_single n j .ph hjl | trivial, inv_single n j .ph hjl (by simp)⟩


theorem choice_setOut {n : Nat} (hn : n ≠ 0) {st : ChoiceSt} (hinv : Choice.Inv n st) (i : Option Int)
    (a : Option Arg) (err : Out) :
    (Choice.setOut n st i a err).2 = (OptionSpec.setOut n (Choice.absO st) i a err).2 ∧
    Choice.absO (Choice.setOut n st i a err).1 = (OptionSpec.setOut n (Choice.absO st) i a err).1 ∧
    Choice.Inv n (Choice.setOut n st i a err).1 := by
  cases i with
  | none => exact ⟨rfl, rfl, hinv⟩
  | some i =>
    unfold Choice.setOut OptionSpec.setOut
    simp only [choice_setAt hn hinv i a, OptionSpec.setAt]
    cases hk : pyIdx n i with
    | none => cases a <;> exact ⟨rfl, rfl, hinv⟩
    | some k =>
      have hkl := pyIdx_lt _ _ _ hk
      cases a with
      | none => exact ⟨rfl, abs_single n k .ph hkl, inv_single n k .ph hkl (by simp)⟩
      | some a =>
        cases a with
        | py z => exact ⟨rfl, abs_single n k (.val z) hkl, inv_single n k (.val z) hkl (by simp)⟩
        | obj z => exact ⟨rfl, abs_single n k (.val z) hkl, inv_single n k (.val z) hkl (by simp)⟩
        | bad => exact ⟨rfl, rfl, hinv⟩

theorem posOf_eq (n k : Nat) : Choice.posOf n k = OptionSpec.posOf n k := rfl

/-- what the abstraction sees of a state, by shape -/
theorem abs_shapes {n : Nat} (hn : n ≠ 0) {st : ChoiceSt} (hinv : Choice.Inv n st) :
    (st = ⟨none, none⟩ ∧ Choice.absO st = ⟨false, false, none⟩) ∨
    (st = ⟨some [], none⟩ ∧ Choice.absO st = ⟨true, false, none⟩) ∨
    (∃ l k c, st = ⟨some l, some k⟩ ∧ l.length = n ∧ k < n ∧ l[k]? = some c ∧ c ≠ .hole ∧
      (∀ j, j ≠ k → j < n → l[j]? = some .hole) ∧ Choice.absO st = ⟨true, true, some (k, c.get?)⟩) := by
  rcases inv_cases hinv with h | h | ⟨l, k, h, hlen, hk, hck, hrest⟩
  · exact .inl ⟨h, by subst h; rfl⟩
  · exact .inr (.inl ⟨h, by subst h; rfl⟩)
  · obtain ⟨c, hc⟩ : ∃ c, l[k]? = some c := ⟨_, List.getElem?_eq_getElem (show k < l.length by omega)⟩
    exact .inr (.inr ⟨l, k, c, h, hlen, hk, hc, hck c hc, hrest, by subst h; exact abs_alloc n hn l k c hlen hc⟩)

theorem filter_val_single_rest (l : List Comp) (n k : Nat) (c : Comp) (hlen : l.length = n) (hk : k < n)
    (hc : l[k]? = some c) (hrest : ∀ j, j ≠ k → j < n → l[j]? = some Comp.hole) : l = single n k c := by
  apply List.ext_getElem?
  intro j
  rw [single_get]
  by_cases hj : j < n
  · by_cases hkj : k = j
    · subst hkj; simp [hj, hc]
    · simp [hj, hkj, hrest j (Ne.symm hkj) hj]
  · simp [hj, List.getElem?_eq_none, hlen]

theorem filter_replicate_hole (p : Comp → Bool) (hp : p .hole = false) (m j : Nat) :
    (enumFrom j (List.replicate m Comp.hole)).filter (fun kv => p kv.2) = [] := by
  induction m generalizing j with
  | zero => rfl
  | succ m ih => simp only [List.replicate_succ, enumFrom, List.filter_cons, hp, Bool.false_eq_true, if_false, ih]

theorem filter_single (p : Comp → Bool) (hp : p .hole = false) (n k j : Nat) (c : Comp) :
    (enumFrom j (single n k c)).filter (fun kv => p kv.2) =
      if k < n ∧ p c = true then [(j + k, c)] else [] := by
  unfold single
  induction n generalizing k j with
  | zero => simp [enumFrom]
  | succ n ih =>
    cases k with
    | zero =>
      simp only [List.replicate_succ, List.set_cons_zero, enumFrom, List.filter_cons,
        filter_replicate_hole p hp]
      cases hcv : p c <;> simp
    | succ k =>
      simp only [List.replicate_succ, List.set_cons_succ, enumFrom, List.filter_cons, hp,
        Bool.false_eq_true, if_false]
      rw [ih k (j + 1)]
      by_cases h : k < n ∧ p c = true
      · have : k + 1 < n + 1 ∧ p c = true := ⟨by omega, h.2⟩
        rw [if_pos h, if_pos this]
        congr 2; omega
      · have : ¬ (k + 1 < n + 1 ∧ p c = true) := by intro hh; exact h ⟨by omega, hh.2⟩
        rw [if_neg h, if_neg this]

theorem pretty_single (n k : Nat) (c : Comp) (j : Nat) :
    (enumFrom j (single n k c)).filter (fun kv => kv.2.isVal) =
      if k < n ∧ c.isVal = true then [(j + k, c)] else [] :=
  filter_single Comp.isVal rfl n k j c

/-- accessors that never touch the object -/
def pureReader : ChoiceOp → Bool
  | .len | .keys | .contains _ | .values | .items | .getComponent | .getChosenName | .pretty | .eqTo _ _
  | .encode => true
  | _ => false

theorem impl_fst_reader (n : Nat) (st : ChoiceSt) (op : ChoiceOp) (h : pureReader op = true) :
    (Choice.step n st op).1 = st := by
  cases op <;> simp only [pureReader, Bool.false_eq_true] at h <;> simp only [Choice.step] <;>
    (repeat' split) <;> rfl

theorem spec_fst_reader (n : Nat) (s : OptionSpec.St) (op : ChoiceOp) (h : pureReader op = true) :
    (OptionSpec.step n s op).1 = s := by
  cases op <;> simp only [pureReader, Bool.false_eq_true] at h <;> simp only [OptionSpec.step] <;>
    (repeat' split) <;> rfl

/-- **one step** of a CHOICE object against the option prototype; the invariant is kept by EVERY
    operation (no guard) -/
theorem choice_step {n : Nat} (hn : n ≠ 0) {st : ChoiceSt} (hinv : Choice.Inv n st) (op : ChoiceOp) :
    (Choice.step n st op).2 = (OptionSpec.step n (Choice.absO st) op).2 ∧
    Choice.absO (Choice.step n st op).1 = (OptionSpec.step n (Choice.absO st) op).1 ∧
    Choice.Inv n (Choice.step n st op).1 := by
  cases op with
  | setItemPos i a => exact choice_setOut hn hinv (some i) (some a) .lookupErr
  | setItemName k a => exact choice_setOut hn hinv (Choice.posOf n k) (some a) .lookupErr
  | setPos i a => exact choice_setOut hn hinv (some i) (some a) .libErr
  | setName k a => exact choice_setOut hn hinv (Choice.posOf n k) (some a) .libErr
  | setType k a => exact choice_setOut hn hinv (Choice.posOf n k) (some a) .libErr
  | setNone i => exact choice_setOut hn hinv (some i) none .libErr
  | clear => exact ⟨rfl, rfl, by simp [Choice.step, Choice.Inv]⟩
  | reset => exact ⟨rfl, rfl, by simp [Choice.step, Choice.Inv]⟩
  | getItemPos i =>
    obtain ⟨h1, h2, h3⟩ := choice_getAt hn hinv i true
    exact ⟨by simp [Choice.step, OptionSpec.step, h1], h2, h3⟩
  | getPos i inst => exact choice_getAt hn hinv i inst
  | getItemName k =>
    simp only [Choice.step, OptionSpec.step, posOf_eq]
    cases OptionSpec.posOf n k with
    | none => exact ⟨rfl, rfl, hinv⟩
    | some i =>
      obtain ⟨h1, h2, h3⟩ := choice_getAt hn hinv i true
      exact ⟨by simp [h1], h2, h3⟩
  | getName k inst =>
    simp only [Choice.step, OptionSpec.step, posOf_eq]
    cases OptionSpec.posOf n k with
    | none => exact ⟨rfl, rfl, hinv⟩
    | some i => exact choice_getAt hn hinv i inst
  | getType k inst =>
    simp only [Choice.step, OptionSpec.step, posOf_eq]
    cases OptionSpec.posOf n k with
    | none => exact ⟨rfl, rfl, hinv⟩
    | some i => exact choice_getAt hn hinv i inst
  | clone flag =>
    rcases abs_shapes hn hinv with ⟨h, ha⟩ | ⟨h, ha⟩ | ⟨l, k, c, h, hlen, hk, hc, hcne, hrest, ha⟩
    · subst h; rw [ha]
      cases flag <;> exact ⟨rfl, rfl, by simp [Choice.step, Choice.chosen, Choice.Inv]⟩
    · subst h; rw [ha]
      cases flag <;> exact ⟨rfl, rfl, by simp [Choice.step, Choice.chosen, Choice.Inv]⟩
    · subst h; rw [ha]
      cases flag with
      | false => exact ⟨rfl, rfl, by simp [Choice.step, Choice.Inv]⟩
      | true =>
        simp only [Choice.step, OptionSpec.step, Choice.chosen, hc, Bool.not_true, Bool.false_eq_true, if_false,
          Option.isSome_some, Bool.and_self, if_true, setNth_eq_set]
        exact ⟨by first | rfl | trivial, abs_single n k c hk, inv_single n k c hk hcne⟩
  | len =>
    rcases abs_shapes hn hinv with ⟨h, ha⟩ | ⟨h, ha⟩ | ⟨l, k, c, h, _, _, _, _, _, ha⟩ <;>
      (subst h; rw [ha]; exact ⟨rfl, by rw [impl_fst_reader _ _ _ rfl, spec_fst_reader _ _ _ rfl]; exact ha, by rw [impl_fst_reader _ _ _ rfl]; exact hinv⟩)
  | keys =>
    rcases abs_shapes hn hinv with ⟨h, ha⟩ | ⟨h, ha⟩ | ⟨l, k, c, h, _, _, _, _, _, ha⟩ <;>
      (subst h; rw [ha]; exact ⟨rfl, by rw [impl_fst_reader _ _ _ rfl, spec_fst_reader _ _ _ rfl]; exact ha, by rw [impl_fst_reader _ _ _ rfl]; exact hinv⟩)
  | contains j =>
    rcases abs_shapes hn hinv with ⟨h, ha⟩ | ⟨h, ha⟩ | ⟨l, k, c, h, _, _, _, _, _, ha⟩ <;>
      (subst h; rw [ha]; exact ⟨by simp [Choice.step, OptionSpec.step], by rw [impl_fst_reader _ _ _ rfl, spec_fst_reader _ _ _ rfl]; exact ha, by rw [impl_fst_reader _ _ _ rfl]; exact hinv⟩)
  | values =>
    rcases abs_shapes hn hinv with ⟨h, ha⟩ | ⟨h, ha⟩ | ⟨l, k, c, h, _, _, hc, hcne, _, ha⟩
    · subst h; rw [ha]; exact ⟨rfl, by rw [impl_fst_reader _ _ _ rfl, spec_fst_reader _ _ _ rfl]; exact ha, by rw [impl_fst_reader _ _ _ rfl]; exact hinv⟩
    · subst h; rw [ha]; exact ⟨rfl, by rw [impl_fst_reader _ _ _ rfl, spec_fst_reader _ _ _ rfl]; exact ha, by rw [impl_fst_reader _ _ _ rfl]; exact hinv⟩
    · subst h; rw [ha]
      exact ⟨by simp [Choice.step, OptionSpec.step, Choice.chosen, hc, selComp_get c hcne], by rw [impl_fst_reader _ _ _ rfl, spec_fst_reader _ _ _ rfl]; exact ha, by rw [impl_fst_reader _ _ _ rfl]; exact hinv⟩
  | items =>
    rcases abs_shapes hn hinv with ⟨h, ha⟩ | ⟨h, ha⟩ | ⟨l, k, c, h, _, _, hc, hcne, _, ha⟩
    · subst h; rw [ha]; exact ⟨rfl, by rw [impl_fst_reader _ _ _ rfl, spec_fst_reader _ _ _ rfl]; exact ha, by rw [impl_fst_reader _ _ _ rfl]; exact hinv⟩
    · subst h; rw [ha]; exact ⟨rfl, by rw [impl_fst_reader _ _ _ rfl, spec_fst_reader _ _ _ rfl]; exact ha, by rw [impl_fst_reader _ _ _ rfl]; exact hinv⟩
    · subst h; rw [ha]
      exact ⟨by simp [Choice.step, OptionSpec.step, Choice.chosen, hc, selComp_get c hcne], by rw [impl_fst_reader _ _ _ rfl, spec_fst_reader _ _ _ rfl]; exact ha, by rw [impl_fst_reader _ _ _ rfl]; exact hinv⟩
  | getComponent =>
    rcases abs_shapes hn hinv with ⟨h, ha⟩ | ⟨h, ha⟩ | ⟨l, k, c, h, _, _, hc, hcne, _, ha⟩
    · subst h; rw [ha]; exact ⟨rfl, by rw [impl_fst_reader _ _ _ rfl, spec_fst_reader _ _ _ rfl]; exact ha, by rw [impl_fst_reader _ _ _ rfl]; exact hinv⟩
    · subst h; rw [ha]; exact ⟨rfl, by rw [impl_fst_reader _ _ _ rfl, spec_fst_reader _ _ _ rfl]; exact ha, by rw [impl_fst_reader _ _ _ rfl]; exact hinv⟩
    · subst h; rw [ha]
      exact ⟨by simp [Choice.step, OptionSpec.step, Choice.chosen, hc, selComp_get c hcne], by rw [impl_fst_reader _ _ _ rfl, spec_fst_reader _ _ _ rfl]; exact ha, by rw [impl_fst_reader _ _ _ rfl]; exact hinv⟩
  | getChosenName =>
    rcases abs_shapes hn hinv with ⟨h, ha⟩ | ⟨h, ha⟩ | ⟨l, k, c, h, _, _, _, _, _, ha⟩ <;>
      (subst h; rw [ha]; exact ⟨rfl, by rw [impl_fst_reader _ _ _ rfl, spec_fst_reader _ _ _ rfl]; exact ha, by rw [impl_fst_reader _ _ _ rfl]; exact hinv⟩)
  | pretty =>
    rcases abs_shapes hn hinv with ⟨h, ha⟩ | ⟨h, ha⟩ | ⟨l, k, c, h, hlen, hk, hc, hcne, hrest, ha⟩
    · subst h; rw [ha]; exact ⟨rfl, by rw [impl_fst_reader _ _ _ rfl, spec_fst_reader _ _ _ rfl]; exact ha, by rw [impl_fst_reader _ _ _ rfl]; exact hinv⟩
    · subst h; rw [ha]; exact ⟨rfl, by rw [impl_fst_reader _ _ _ rfl, spec_fst_reader _ _ _ rfl]; exact ha, by rw [impl_fst_reader _ _ _ rfl]; exact hinv⟩
    · subst h; rw [ha]
      refine ⟨?_, by rw [impl_fst_reader _ _ _ rfl, spec_fst_reader _ _ _ rfl]; exact ha, by rw [impl_fst_reader _ _ _ rfl]; exact hinv⟩
      simp only [Choice.step, OptionSpec.step, Bool.not_true, Bool.false_eq_true, if_false]
      rw [filter_val_single_rest l n k c hlen hk hc hrest, pretty_single]
      cases c with
      | hole => exact absurd rfl hcne
      | ph => simp [Comp.isVal, Comp.get?]
      | val z => simp [Comp.isVal, Comp.get?, hk]
  | eqTo k' v =>
    rcases abs_shapes hn hinv with ⟨h, ha⟩ | ⟨h, ha⟩ | ⟨l, k, c, h, hlen, hk, hc, hcne, _, ha⟩
    · subst h; rw [ha]; exact ⟨rfl, by rw [impl_fst_reader _ _ _ rfl, spec_fst_reader _ _ _ rfl]; exact ha, by rw [impl_fst_reader _ _ _ rfl]; exact hinv⟩
    · subst h; rw [ha]; exact ⟨rfl, by rw [impl_fst_reader _ _ _ rfl, spec_fst_reader _ _ _ rfl]; exact ha, by rw [impl_fst_reader _ _ _ rfl]; exact hinv⟩
    · subst h; rw [ha]
      refine ⟨?_, by rw [impl_fst_reader _ _ _ rfl, spec_fst_reader _ _ _ rfl]; exact ha, by rw [impl_fst_reader _ _ _ rfl]; exact hinv⟩
      cases l with
      | nil => simp at hlen; omega
      | cons x xs =>
        simp only [Choice.step, OptionSpec.step, Choice.chosen, hc, Bool.not_true, Bool.false_eq_true, if_false]
        by_cases hkk : k = k'
        · subst hkk
          simp only [ne_eq, not_true_eq_false, if_false]
          cases c with
          | hole => exact absurd rfl hcne
          | ph => rfl
          | val z => rfl
        · simp only [ne_eq, hkk, not_false_eq_true, if_true]
  | encode => exact ⟨rfl, rfl, hinv⟩

/-- the fresh object satisfies the invariant -/
theorem inv_fresh (n : Nat) : Choice.Inv n ⟨some [], none⟩ := by simp [Choice.Inv]

theorem choice_run {n : Nat} (hn : n ≠ 0) {st : ChoiceSt} (hinv : Choice.Inv n st) (ops : List ChoiceOp) :
    (Choice.run n st ops).2 = (OptionSpec.run n (Choice.absO st) ops).2 ∧
    Choice.absO (Choice.run n st ops).1 = (OptionSpec.run n (Choice.absO st) ops).1 ∧
    Choice.Inv n (Choice.run n st ops).1 := by
  induction ops generalizing st with
  | nil => exact ⟨rfl, rfl, hinv⟩
  | cons op ops ih =>
    obtain ⟨h1, h2, h3⟩ := choice_step hn hinv op
    obtain ⟨i1, i2, i3⟩ := ih h3
    simp only [Choice.run, OptionSpec.run]
    rw [h1, ← h2]
    exact ⟨by rw [i1], i2, i3⟩

theorem length_filter_single (p : Comp → Bool) (hp : p .hole = false) (n k : Nat) (c : Comp) :
    ((single n k c).filter p).length ≤ 1 := by
  have h := filter_single p hp n k 0 c
  have hmap : ((enumFrom 0 (single n k c)).filter (fun kv => p kv.2)).map (·.2) = (single n k c).filter p := by
    generalize single n k c = l
    generalize 0 = j
    induction l generalizing j with
    | nil => rfl
    | cons x xs ih =>
      simp only [enumFrom, List.filter_cons]
      cases p x <;> simp [ih]
  rw [← hmap, h]
  split <;> simp

/-- under the invariant an object holds at most one alternative -/
theorem held_le_one {n : Nat} {st : ChoiceSt} (hinv : Choice.Inv n st) : Choice.held st ≤ 1 := by
  rcases inv_cases hinv with h | h | ⟨l, k, h, hlen, hk, hck, hrest⟩
  · subst h; simp [Choice.held]
  · subst h; simp [Choice.held]
  · subst h
    obtain ⟨c, hc⟩ : ∃ c, l[k]? = some c := ⟨_, List.getElem?_eq_getElem (show k < l.length by omega)⟩
    rw [filter_val_single_rest l n k c hlen hk hc hrest]
    exact length_filter_single (fun c => !c.isHole) rfl n k c


/-- ill-formed CHOICE operations: unknown name / tag, position outside the alternatives, a value
    the alternative refuses -/
def choiceIllFormed (n : Nat) : ChoiceOp → Bool
  | .setItemPos i a | .setPos i a => (pyIdx n i).isNone || a == .bad
  | .setItemName k a | .setName k a | .setType k a => decide (n ≤ k) || a == .bad
  | .setNone i => (pyIdx n i).isNone
  | .getItemPos i | .getPos i true => (pyIdx n i).isNone
  | .getItemName k | .getName k _ | .getType k _ => decide (n ≤ k)
  | _ => false

theorem choice_setAt_bad {n : Nat} (hn : n ≠ 0) {st : ChoiceSt} (hinv : Choice.Inv n st) (i : Int)
    (a : Option Arg) (h : (pyIdx n i).isNone = true ∨ a = some .bad) : Choice.setAt n st i a = none := by
  rw [choice_setAt hn hinv]
  cases hk : pyIdx n i with
  | none => cases a <;> rfl
  | some k =>
    rcases h with h | h
    · simp [hk] at h
    · subst h; rfl

/-- **ill-formed operations raise and change nothing** (CHOICE) -/
theorem choice_illformed {n : Nat} (hn : n ≠ 0) {st : ChoiceSt} (hinv : Choice.Inv n st) (op : ChoiceOp)
    (h : choiceIllFormed n op = true) :
    (Choice.step n st op).2.isErr = true ∧ (Choice.step n st op).1 = st := by
  have hname : ∀ k, n ≤ k → Choice.posOf n k = none := by
    intro k hk; simp [Choice.posOf]; omega
  have hget : ∀ i, (pyIdx n i).isNone = true → Choice.getAt n st i true = (st, .libErr) := by
    intro i hi
    have hk : pyIdx n i = none := by simpa using hi
    unfold Choice.getAt
    have hsl : (st.comps.bind fun l => Rec.slot l i) = none := by
      rcases inv_cases hinv with h | h | ⟨l, k, h, hlen, _, _, _⟩
      · subst h; rfl
      · subst h; simp [slot_nil]
      · subst h; simp [Rec.slot, hlen, hk]
    have hne : ¬ (st.cur.isSome = true ∧ Option.map (fun (k : Nat) => (k : Int)) st.cur = some i) := by
      rintro ⟨_, h2⟩
      rcases inv_cases hinv with h | h | ⟨l, k, h, hlen, hkn, _, _⟩
      · subst h; simp at h2
      · subst h; simp at h2
      · subst h
        simp only [Option.map_some, Option.some.injEq] at h2
        subst h2
        rw [pyIdx_cast n k hkn] at hk
        cases hk
    simp only [hne, if_false, hsl, Option.getD_none, Bool.not_true, Bool.false_eq_true, Comp.isHole, if_true,
      choice_setAt_bad hn hinv i none (.inl hi)]
  cases op with
  | setItemPos i a =>
    simp only [choiceIllFormed, Bool.or_eq_true, beq_iff_eq] at h
    simp only [Choice.step, Choice.setOut, choice_setAt_bad hn hinv i (some a) (h.imp id (by intro e; rw [e]))]
    exact ⟨by first | rfl | trivial, by first | rfl | trivial⟩
  | setPos i a =>
    simp only [choiceIllFormed, Bool.or_eq_true, beq_iff_eq] at h
    simp only [Choice.step, Choice.setOut, choice_setAt_bad hn hinv i (some a) (h.imp id (by intro e; rw [e]))]
    exact ⟨by first | rfl | trivial, by first | rfl | trivial⟩
  | setNone i =>
    simp only [choiceIllFormed] at h
    simp only [Choice.step, Choice.setOut, choice_setAt_bad hn hinv i none (.inl h)]
    exact ⟨by first | rfl | trivial, by first | rfl | trivial⟩
  | setItemName k a =>
    simp only [choiceIllFormed, Bool.or_eq_true, decide_eq_true_eq, beq_iff_eq] at h
    simp only [Choice.step, Choice.setOut]
    rcases h with h | h
    · rw [hname k h]; exact ⟨by first | rfl | trivial, by first | rfl | trivial⟩
    · cases Choice.posOf n k with
      | none => exact ⟨by first | rfl | trivial, by first | rfl | trivial⟩
      | some i =>
        simp only [choice_setAt_bad hn hinv i (some a) (.inr (by rw [h]))]
        exact ⟨by first | rfl | trivial, by first | rfl | trivial⟩
  | setName k a =>
    simp only [choiceIllFormed, Bool.or_eq_true, decide_eq_true_eq, beq_iff_eq] at h
    simp only [Choice.step, Choice.setOut]
    rcases h with h | h
    · rw [hname k h]; exact ⟨by first | rfl | trivial, by first | rfl | trivial⟩
    · cases Choice.posOf n k with
      | none => exact ⟨by first | rfl | trivial, by first | rfl | trivial⟩
      | some i =>
        simp only [choice_setAt_bad hn hinv i (some a) (.inr (by rw [h]))]
        exact ⟨by first | rfl | trivial, by first | rfl | trivial⟩
  | setType k a =>
    simp only [choiceIllFormed, Bool.or_eq_true, decide_eq_true_eq, beq_iff_eq] at h
    simp only [Choice.step, Choice.setOut]
    rcases h with h | h
    · rw [hname k h]; exact ⟨by first | rfl | trivial, by first | rfl | trivial⟩
    · cases Choice.posOf n k with
      | none => exact ⟨by first | rfl | trivial, by first | rfl | trivial⟩
      | some i =>
        simp only [choice_setAt_bad hn hinv i (some a) (.inr (by rw [h]))]
        exact ⟨by first | rfl | trivial, by first | rfl | trivial⟩
  | getItemPos i =>
    simp only [choiceIllFormed] at h
    simp only [Choice.step, hget i h]; exact ⟨by first | rfl | trivial, by first | rfl | trivial⟩
  | getPos i inst =>
    cases inst with
    | false => simp [choiceIllFormed] at h
    | true =>
      simp only [choiceIllFormed] at h
      simp only [Choice.step, hget i h]; exact ⟨by first | rfl | trivial, by first | rfl | trivial⟩
  | getItemName k =>
    simp only [choiceIllFormed, decide_eq_true_eq] at h
    simp only [Choice.step, hname k h]; exact ⟨by first | rfl | trivial, by first | rfl | trivial⟩
  | getName k inst =>
    simp only [choiceIllFormed, decide_eq_true_eq] at h
    simp only [Choice.step, hname k h]; exact ⟨by first | rfl | trivial, by first | rfl | trivial⟩
  | getType k inst =>
    simp only [choiceIllFormed, decide_eq_true_eq] at h
    simp only [Choice.step, hname k h]; exact ⟨by first | rfl | trivial, by first | rfl | trivial⟩
  | clear | reset | clone _ | len | keys | contains _ | values | items | getComponent | getChosenName | pretty
    | eqTo _ _ | encode => simp [choiceIllFormed] at h

/-- abstract content is a function of the prototype state -/
theorem choice_abs_spec (st : ChoiceSt) : Choice.abs st = OptionSpec.abs (Choice.absO st) := by
  unfold Choice.abs OptionSpec.abs Choice.absO
  cases st.cur with
  | none => rfl
  | some k =>
    cases Choice.chosen st with
    | none => rfl
    | some c => cases c <;> rfl

end Asn1.Container
