/-
  Proofs.SchemalessLeaves — decoding without a guiding type recovers the scalar leaves.
  For types that use only universal tags and EXPLICIT tagging, without SET / SET OF (whose wire
  order is not the declaration order) and without DEFAULT members (which may be left out), every
  encoding the rules allow (`IsBer`) is decoded by the schemaless decoder to a value object whose
  leaves, read in order, are the leaves of the value.
-/
import Asn1.Schemaless
import Proofs.Complete

namespace Asn1

mutual
/-- self-describing, ordered: universal tags and explicit tagging only, no ANY, no REAL (its value is
    only recovered as a number), no SET / SET OF, no DEFAULT members -/
def Ty.selfDesc : Ty → Bool
  | .prim .real => false
  | .prim (.str k) => strNums.contains k
  | .prim _ => true
  | .any => false
  | .tagged true _ _ t => t.selfDesc
  | .tagged false _ _ _ => false
  | .seq fs => Fields.selfDesc fs
  | .set _ => false
  | .seqOf t => t.selfDesc
  | .setOf _ => false
  | .choice fs => Fields.selfDesc fs
def Fields.selfDesc : Fields → Bool
  | .nil => true
  | .cons (.dflt _) _ _ => false
  | .cons _ t r => t.selfDesc && Fields.selfDesc r
end

mutual
/-- the scalar leaves of a value, in declaration order -/
def leavesOf : Ty → Val → List (Nat × Val)
  | .tagged _ _ _ t, v => leavesOf t v
  | .prim p, v => [(p.univNum, v)]
  | .seq fs, .seq vs => leavesF fs vs
  | .seqOf t, .seqOf vs => leavesE t vs
  | .choice fs, .choice i w => leavesA fs i w
  | _, _ => []
def leavesF : Fields → List Val → List (Nat × Val)
  | .cons _ _ r, .absent :: vs => leavesF r vs
  | .cons _ t r, v :: vs => leavesOf t v ++ leavesF r vs
  | _, _ => []
def leavesA : Fields → Nat → Val → List (Nat × Val)
  | .nil, _, _ => []
  | .cons _ t _, 0, w => leavesOf t w
  | .cons _ _ r, i + 1, w => leavesA r i w
def leavesE (t : Ty) : List Val → List (Nat × Val)
  | [] => []
  | v :: vs => leavesOf t v ++ leavesE t vs
end


theorem strNums_not_scalar (k : Nat) (h : strNums.contains k = true) :
    k ≠ 1 ∧ k ≠ 2 ∧ k ≠ 3 ∧ k ≠ 5 ∧ k ≠ 6 ∧ k ≠ 9 ∧ k ≠ 10 ∧ k ≠ 16 ∧ k ≠ 17 := by
  refine ⟨?_, ?_, ?_, ?_, ?_, ?_, ?_, ?_, ?_⟩ <;> (intro hk; subst hk; revert h; decide)

theorem strNums_eq_all : strNums = allStrKinds := rfl

theorem leaves_if (c b : Bool) (us : List UVal) :
    (if c then UVal.record b us else UVal.listOf b us).leaves = leavesL us := by
  cases c <;> simp [UVal.leaves]


/-- a universal SEQUENCE/SET element whose children are read is read as a container with their leaves -/
theorem decU_container (dcfg : DecCfg) (h : Bytes) (tg : Tag) (i : Bool) (cs : List TLV) (us : List UVal)
    (h1 : tg.cls = .universal) (h2 : tg.num = 16 ∨ tg.num = 17) (hd : decUs dcfg cs = .ok us) :
    ∃ u, decU dcfg (.cons h tg i cs) = .ok u ∧ u.leaves = leavesL us := by
  match cs, hd with
  | [], hd => exact ⟨_, by simp only [decU, h1, h2, if_true, hd]; rfl, leaves_if _ _ _⟩
  | [c1], hd => exact ⟨_, by simp only [decU, h1, h2, if_true, hd]; rfl, leaves_if _ _ _⟩
  | c1 :: c2 :: r, hd => exact ⟨_, by simp only [decU, h1, h2, if_true, hd]; rfl, leaves_if _ _ _⟩

/-- a scalar (any form the rules allow: primitive, or segmented for strings) is read back under
    its universal tag as the leaf it is -/
theorem prim_decU (pf : Profile) (dcfg : DecCfg) (hc : Compat pf dcfg) (p : PrimTy) (v : Val) (x : TLV)
    (hs : (Ty.prim p).selfDesc = true) (h1 : x.tag.cls = .universal) (h2 : x.tag.num = p.univNum)
    (hb : IsBody pf (.prim p) v x) : decU dcfg x = .ok (.leaf p.univNum v) := by
  have hpl : (Ty.prim p).plain = true := by
    cases p <;> simp_all [Ty.selfDesc, Ty.plain, strNums_eq_all]
  obtain ⟨w, hd, hv⟩ := complete_body pf dcfg hc (.prim p) v x hpl rfl hb
  simp only [decBody] at hd
  have hwv : w = v := by
    cases p <;> first | (simp [Ty.selfDesc] at hs; done) | (cases v <;> cases w <;> simp_all [VEq])
  subst hwv
  cases x with
  | prim hh tg c =>
    simp only [TLV.tag] at h1 h2
    simp only [decU, h1, if_true, h2]
    cases p with
    | boolean => simp [PrimTy.univNum, hd, Except.map]
    | integer => simp [PrimTy.univNum, hd, Except.map]
    | bitString => simp [PrimTy.univNum, hd, Except.map]
    | null => simp [PrimTy.univNum, hd, Except.map]
    | oid => simp [PrimTy.univNum, hd, Except.map]
    | real => simp [Ty.selfDesc] at hs
    | enumerated => simp [PrimTy.univNum, hd, Except.map]
    | str k =>
      have hk : strNums.contains k = true := by simpa [Ty.selfDesc] using hs
      obtain ⟨k1, k2, k3, k5, k6, k9, k10, _, _⟩ := strNums_not_scalar k hk
      have hmem : k ∈ strNums := by simpa using hk
      simp [PrimTy.univNum, k1, k2, k3, k5, k6, k9, k10, hk, hmem, hd, Except.map]
  | cons hh tg i cs =>
    simp only [TLV.tag] at h1 h2
    cases p with
    | bitString =>
      match cs, hd with
      | [], hd => simp [decU, h1, h2, PrimTy.univNum, hd, Except.map]
      | [c1], hd => simp [decU, h1, h2, PrimTy.univNum, hd, Except.map]
      | c1 :: c2 :: r, hd => simp [decU, h1, h2, PrimTy.univNum, hd, Except.map]
    | str k =>
      have hk : strNums.contains k = true := by simpa [Ty.selfDesc] using hs
      obtain ⟨_, _, k3, _, _, _, _, k16, k17⟩ := strNums_not_scalar k hk
      have hmem : k ∈ strNums := by simpa using hk
      match cs, hd with
      | [], hd => simp [decU, h1, h2, PrimTy.univNum, k3, k16, k17, hk, hmem, hd, Except.map]
      | [c1], hd => simp [decU, h1, h2, PrimTy.univNum, k3, k16, k17, hk, hmem, hd, Except.map]
      | c1 :: c2 :: r, hd => simp [decU, h1, h2, PrimTy.univNum, k3, k16, k17, hk, hmem, hd, Except.map]
    | boolean => cases hb
    | integer => cases hb
    | null => cases hb
    | oid => cases hb
    | real => simp [Ty.selfDesc] at hs
    | enumerated => cases hb

theorem elems_leaves (pf : Profile) (dcfg : DecCfg) (t : Ty)
    (ih : ∀ v c, IsBer pf t v c → ∃ u, decU dcfg c = .ok u ∧ u.leaves = leavesOf t v) :
    ∀ {vs cs}, IsElems pf t vs cs → ∃ us, decUs dcfg cs = .ok us ∧ leavesL us = leavesE t vs := by
  intro vs cs h
  induction cs generalizing vs with
  | nil => cases h; exact ⟨[], by simp [decUs], by simp [leavesL, leavesE]⟩
  | cons c cs ihl =>
    cases h with
    | cons h1 h2 =>
      obtain ⟨u, hd, hl⟩ := ih _ c h1
      obtain ⟨us, hds, hls⟩ := ihl h2
      exact ⟨u :: us, by simp [decUs, hd, hds, Except.map], by simp [leavesL, leavesE, hl, hls]⟩

mutual
/-- nothing is an encoding of the "absent" marker -/
theorem isBer_absent_false (pf : Profile) : ∀ (t : Ty) (x : TLV), IsBer pf t .absent x → False
  | .tagged true _ _ t, _, h => by
      cases h with | explicit _ _ h3 => exact isBer_absent_false pf t _ h3
  | .tagged false _ _ t, x, h => by
      cases h with | implicit _ _ h3 => exact isBody_absent_false pf t x h3
  | .choice _, _, h => by cases h
  | .any, _, h => by cases h
  | .prim p, x, h => by cases h with | prim _ _ h3 => exact isBody_absent_false pf (.prim p) x h3
  | .seq fs, x, h => by cases h with | seq _ _ h3 => exact isBody_absent_false pf (.seq fs) x h3
  | .seqOf t, x, h => by cases h with | seqOf _ _ h3 => exact isBody_absent_false pf (.seqOf t) x h3
  | .set fs, x, h => by cases h with | set _ _ h3 => exact isBody_absent_false pf (.set fs) x h3
  | .setOf t, x, h => by cases h with | setOf _ _ h3 => exact isBody_absent_false pf (.setOf t) x h3
theorem isBody_absent_false (pf : Profile) : ∀ (t : Ty) (x : TLV), IsBody pf t .absent x → False
  | .tagged true _ _ t, _, h => by
      cases h with | explicit h3 => exact isBer_absent_false pf t _ h3
  | .tagged false _ _ t, x, h => by
      cases h with | implicit h3 => exact isBody_absent_false pf t x h3
  | .prim _, _, h => by cases h
  | .seq _, _, h => by cases h
  | .set _, _, h => by cases h
  | .seqOf _, _, h => by cases h
  | .setOf _, _, h => by cases h
  | .choice _, _, h => by cases h
  | .any, _, h => by cases h
end

variable (pf : Profile) (dcfg : DecCfg) (hc : Compat pf dcfg)
include hc

mutual
theorem leaves_ty : ∀ (t : Ty) (v : Val) (x : TLV), t.selfDesc = true → t.WF = true →
    IsBer pf t v x → ∃ u, decU dcfg x = .ok u ∧ u.leaves = leavesOf t v
  | .tagged true cls num t, v, x, hs, hw, h => by
      simp only [Ty.WF, Bool.and_eq_true, bne_iff_ne] at hw
      cases h with
      | @explicit _ _ _ _ hh tg i c h1 h2 h3 =>
        obtain ⟨u, hd, hl⟩ := leaves_ty t v c (by simpa [Ty.selfDesc] using hs) hw.2 h3
        have hnu : ¬ (tg.cls = .universal) := by rw [h1]; exact hw.1
        exact ⟨.tagged tg u, by simp [decU, hnu, hd, Except.map], by simp [UVal.leaves, leavesOf, hl]⟩
  | .tagged false _ _ _, _, _, hs, _, _ => by simp [Ty.selfDesc] at hs
  | .any, _, _, hs, _, _ => by simp [Ty.selfDesc] at hs
  | .set _, _, _, hs, _, _ => by simp [Ty.selfDesc] at hs
  | .setOf _, _, _, hs, _, _ => by simp [Ty.selfDesc] at hs
  | .prim p, v, x, hs, _, h => by
      cases h with
      | prim h1 h2 h3 =>
        exact ⟨.leaf p.univNum v, prim_decU pf dcfg hc p v x hs h1 h2 h3, by simp [UVal.leaves, leavesOf]⟩
  | .seq fs, v, x, hs, hw, h => by
      simp only [Ty.WF, Bool.and_eq_true] at hw
      cases h with
      | seq h1 h2 h3 =>
        cases h3 with
        | @seq _ vs hh tg i cs hf =>
          simp only [TLV.tag] at h1 h2
          obtain ⟨us, hd, hl⟩ := leaves_fields fs vs cs (by simpa [Ty.selfDesc] using hs) hw.1 hf
          obtain ⟨u, hu, hlu⟩ := decU_container dcfg hh tg i cs us h1 (Or.inl h2) hd
          exact ⟨u, hu, by rw [hlu]; simpa [leavesOf] using hl⟩
  | .seqOf t, v, x, hs, hw, h => by
      simp only [Ty.WF] at hw
      cases h with
      | seqOf h1 h2 h3 =>
        cases h3 with
        | @seqOf _ vs hh tg i cs he =>
          simp only [TLV.tag] at h1 h2
          obtain ⟨us, hd, hl⟩ := elems_leaves pf dcfg t
            (fun v c hb => leaves_ty t v c (by simpa [Ty.selfDesc] using hs) hw hb) he
          obtain ⟨u, hu, hlu⟩ := decU_container dcfg hh tg i cs us h1 (Or.inl h2) hd
          exact ⟨u, hu, by rw [hlu]; simpa [leavesOf] using hl⟩
  | .choice fs, v, x, hs, hw, h => by
      simp only [Ty.WF, Bool.and_eq_true] at hw
      cases h with
      | @choice _ i w _ ha =>
        obtain ⟨u, hd, hl⟩ := leaves_alt fs i w x (by simpa [Ty.selfDesc] using hs) hw.1.1 ha
        exact ⟨u, hd, by simpa [leavesOf] using hl⟩
theorem leaves_fields : ∀ (fs : Fields) (vs : List Val) (cs : List TLV),
    Fields.selfDesc fs = true → Fields.WF fs = true → IsFields pf fs vs cs →
    ∃ us, decUs dcfg cs = .ok us ∧ leavesL us = leavesF fs vs
  | .nil, vs, cs, _, _, h => by
      cases h; exact ⟨[], by simp [decUs], by simp [leavesL, leavesF]⟩
  | .cons kd t rest, vs, cs, hs, hw, h => by
      have hs' : t.selfDesc = true ∧ Fields.selfDesc rest = true ∧ (∀ d, kd ≠ .dflt d) := by
        cases kd <;> simp_all [Fields.selfDesc]
      have hw' : t.WF = true ∧ Fields.WF rest = true := by
        cases kd <;> simp_all [Fields.WF]
      cases h with
      | absentOpt hr =>
        obtain ⟨us, hd, hl⟩ := leaves_fields rest _ cs hs'.2.1 hw'.2 hr
        exact ⟨us, hd, by simpa [leavesF] using hl⟩
      | absentDflt hr => exact absurd rfl (hs'.2.2 _)
      | @present _ _ _ v vs' c cs' hb hr =>
        obtain ⟨u, hd, hl⟩ := leaves_ty t v c hs'.1 hw'.1 hb
        obtain ⟨us, hds, hls⟩ := leaves_fields rest vs' cs' hs'.2.1 hw'.2 hr
        refine ⟨u :: us, by simp [decUs, hd, hds, Except.map], ?_⟩
        have hv : v ≠ .absent := by
          intro he; subst he
          exact isBer_absent_false pf t c hb
        cases v <;> first | exact absurd rfl hv | simp [leavesL, leavesF, hl, hls]
theorem leaves_alt : ∀ (fs : Fields) (i : Nat) (w : Val) (x : TLV),
    Fields.selfDesc fs = true → Fields.WF fs = true → IsAlt pf fs i w x →
    ∃ u, decU dcfg x = .ok u ∧ u.leaves = leavesA fs i w
  | .nil, _, _, _, _, _, h => by cases h
  | .cons kd t rest, i, w, x, hs, hw, h => by
      have hs' : t.selfDesc = true ∧ Fields.selfDesc rest = true := by
        cases kd <;> simp_all [Fields.selfDesc]
      have hw' : t.WF = true ∧ Fields.WF rest = true := by
        cases kd <;> simp_all [Fields.WF]
      cases h with
      | here hb =>
        obtain ⟨u, hd, hl⟩ := leaves_ty t w x hs'.1 hw'.1 hb
        exact ⟨u, hd, by simpa [leavesA] using hl⟩
      | @there _ _ _ j _ _ ha =>
        obtain ⟨u, hd, hl⟩ := leaves_alt rest j w x hs'.2 hw'.2 ha
        exact ⟨u, hd, by simpa [leavesA] using hl⟩
end

end Asn1
