/-
  Proofs.KernelSort — the canonical ordering of SET OF elements (`cer/encoder.py` `SetOfEncoder.encodeValue`, shared by
  DER; translated from the source into `GenK.setOfSort`, the encoded elements being its argument) is the model's
  `sortSetOfChunks`: pad every element's encoding with zero octets to the longest, sort by the padded octets (stably),
  write the unpadded encodings in that order.
-/
import Proofs.KernelChunk

namespace Asn1.Kernels

theorem tupLe_bytes : ∀ (a b : Bytes), Py.tupLe (bytesInts a) (bytesInts b) = bytesLe a b
  | [], b => by cases b <;> rfl
  | x :: xs, [] => rfl
  | x :: xs, y :: ys => by
    simp only [bytesInts_cons, Py.tupLe, bytesLe, tupLe_bytes xs ys]
    have h1 : decide ((x.toNat : Int) < (y.toNat : Int)) = decide (x < y) := by
      have : ((x.toNat : Int) < (y.toNat : Int)) ↔ x < y := by
        rw [UInt8.lt_iff_toNat_lt]; omega
      exact decide_eq_decide.mpr this
    have h2 : ((x.toNat : Int) == (y.toNat : Int)) = (x == y) := by
      have hiff : ((x.toNat : Int) = (y.toNat : Int)) ↔ x = y := by
        constructor
        · intro hh; apply UInt8.toNat_inj.mp; omega
        · intro hh; rw [hh]
      rw [Bool.eq_iff_iff]
      simp only [beq_iff_eq]
      exact hiff
    rw [h1, h2]

theorem bytesInts_replicate (n : Nat) : bytesInts (List.replicate n (0 : UInt8)) = List.replicate n (0 : Int) := by
  simp [bytesInts]

theorem ljust_bytes (c : Bytes) (m : Nat) :
    Py.ljust (bytesInts c) (m : Int) [0] = .ok (bytesInts (padTo m c)) := by
  have hl : (bytesInts c).length = c.length := by simp [bytesInts]
  simp only [Py.ljust, padTo, bytesInts_append, bytesInts_replicate, hl, pure, Except.pure]
  congr 3
  omega

theorem mapM_of_pointwise (F : Py.Tup → Py.M (Py.Tup × Py.Tup)) (m : Nat)
    (hF : ∀ c : Bytes, F (bytesInts c) = .ok (bytesInts (padTo m c), bytesInts c)) : ∀ cs : List Bytes,
    (cs.map bytesInts).mapM F = .ok (cs.map fun c => (bytesInts (padTo m c), bytesInts c))
  | [] => rfl
  | c :: cs => by
    simp only [List.map_cons, List.mapM_cons, hF c, bind, Except.bind, pure, Except.pure,
      mapM_of_pointwise F m hF cs]

theorem foldl_max_cast : ∀ (cs : List Bytes) (a : Nat),
    (cs.map bytesInts).foldl (fun (a : Int) (c : Py.Tup) => max a (c.length : Int)) (a : Int) =
      ((cs.foldl (fun (a : Nat) (c : Bytes) => max a c.length) a : Nat) : Int)
  | [], _ => rfl
  | c :: cs, a => by
    simp only [List.map_cons, List.foldl_cons]
    have : max (a : Int) (((bytesInts c).length : Nat) : Int) = ((max a c.length : Nat) : Int) := by
      have hl : (bytesInts c).length = c.length := by simp [bytesInts]
      rw [hl]; omega
    rw [this]
    exact foldl_max_cast cs _

theorem flatten_bytesInts : ∀ l : List Bytes, (l.map bytesInts).flatten = bytesInts l.flatten
  | [] => rfl
  | c :: cs => by simp [bytesInts_append, flatten_bytesInts cs]

theorem maxLen_bytes (c0 : Bytes) (rest : List Bytes) :
    Py.maxLen ((c0 :: rest).map bytesInts) =
      .ok (((c0 :: rest).foldl (fun (a : Nat) (c : Bytes) => max a c.length) 0 : Nat) : Int) := by
  simp only [List.map_cons, Py.maxLen, pure, Except.pure, List.foldl_cons]
  have hl : (bytesInts c0).length = c0.length := by simp [bytesInts]
  rw [hl, foldl_max_cast rest c0.length]
  simp

/-- sorting the (padded key, encoding) pairs by the key and dropping the key = sorting the encodings by their padded key -/
theorem sortByFst_pairs (m : Nat) (cs : List Bytes) :
    ((Py.sortByFst (cs.map fun c => (bytesInts (padTo m c), bytesInts c))).map fun x => x.2) =
      (cs.mergeSort (fun a b => bytesLe (padTo m a) (padTo m b))).map bytesInts := by
  unfold Py.sortByFst
  have h1 := List.map_mergeSort (r := fun a b => bytesLe (padTo m a) (padTo m b))
    (s := fun (a b : Py.Tup × Py.Tup) => Py.tupLe a.1 b.1) (f := fun c => (bytesInts (padTo m c), bytesInts c)) (l := cs)
    (by intro a _ b _; simp only [tupLe_bytes])
  rw [← h1, List.map_map]
  rfl

/-- **the SET OF ordering of CER and DER as it is in the source computes the model's `sortSetOfChunks`**, for every list of
    element encodings: one element or none is left alone, otherwise the encodings come out in ascending order of their
    zero-padded octets, equal keys in their original order -/
theorem setOfSort_kernel (cs : List Bytes) :
    GenK.setOfSort (cs.map bytesInts) = .ok (bytesInts (sortSetOfChunks cs).flatten, true, true) := by
  unfold GenK.setOfSort sortSetOfChunks
  by_cases h : cs.length > 1
  · have hc : decide ((((cs.map bytesInts).length : Nat) : Int) > 1) = true := by
      simp only [List.length_map, decide_eq_true_eq]; omega
    simp only [hc, if_true, h]
    obtain ⟨c0, rest, rfl⟩ : ∃ c0 rest, cs = c0 :: rest := by
      cases cs with
      | nil => simp at h
      | cons a r => exact ⟨a, r, rfl⟩
    rw [maxLen_bytes]
    simp only [bind, Except.bind, pure, Except.pure]
    rw [mapM_of_pointwise _ ((c0 :: rest).foldl (fun (a : Nat) (c : Bytes) => max a c.length) 0) (by intro c; simp only [ljust_bytes])]
    simp only [sortByFst_pairs, flatten_bytesInts]
  · have hc : decide ((((cs.map bytesInts).length : Nat) : Int) > 1) = false := by
      simp only [List.length_map, decide_eq_false_iff_not]; omega
    simp only [hc, Bool.false_eq_true, if_false, h, bind, Except.bind, pure, Except.pure, flatten_bytesInts]

end Asn1.Kernels
