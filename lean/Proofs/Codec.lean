/-
  Proofs.Codec — encoder soundness (`Proofs.EncSpec`) composed with decoder completeness
  (`Proofs.Complete`): for any encoder configuration and any decoder configuration that admit a
  common profile, decoding what was encoded gives the value back (up to the order of SET OF
  elements) and leaves the tail.
-/
import Proofs.EncSpec
import Proofs.Complete

namespace Asn1

mutual
theorem reg_plain (rl : Bool) (cfg : EncCfg) (dm : Bool) : ∀ (t : Ty), t.reg rl cfg dm = true → t.plain = true
  | .prim p, h => by cases p <;> simp_all [Ty.reg, Ty.plain]
  | .any, h => by simp [Ty.reg] at h
  | .seq fs, h => by simp only [Ty.reg] at h; simpa [Ty.plain] using regF_plain rl cfg dm fs h
  | .set fs, h => by simp only [Ty.reg] at h; simpa [Ty.plain] using regF_plain rl cfg dm fs h
  | .choice fs, h => by simp only [Ty.reg] at h; simpa [Ty.plain] using regF_plain rl cfg dm fs h
  | .seqOf t, h => by simp only [Ty.reg] at h; simpa [Ty.plain] using reg_plain rl cfg dm t h
  | .setOf t, h => by simp only [Ty.reg] at h; simpa [Ty.plain] using reg_plain rl cfg dm t h
  | .tagged _ _ _ t, h => by
      simp only [Ty.reg, Bool.and_eq_true] at h
      simpa [Ty.plain] using reg_plain rl cfg dm t h.2
theorem regF_plain (rl : Bool) (cfg : EncCfg) (dm : Bool) : ∀ (fs : Fields), Fields.reg rl cfg dm fs = true →
    Fields.plain fs = true
  | .nil, _ => rfl
  | .cons _ t r, h => by
      simp only [Fields.reg, Bool.and_eq_true] at h
      simp [Fields.plain, reg_plain rl cfg dm t h.1, regF_plain rl cfg dm r h.2]
end

/-- `encode` then `decode`, any codec pair with a common profile -/
theorem codec_roundtrip (cfg : EncCfg) (dcfg : DecCfg) (pf : Profile) (o : EncOpts)
    (hi : o.ifNotEmpty = false)
    (hR : EncRegion cfg pf (cfg.fixedChunk.getD o.maxChunk)) (hC : Compat pf dcfg)
    (hparse : cfg.fixedDefMode.getD o.defMode = true ∨ dcfg.parse.allowIndef = true)
    (t : Ty) (v : Val) (b tail : Bytes)
    (hreg : t.reg true cfg (cfg.fixedDefMode.getD o.defMode) = true) (hwf : t.WF = true)
    (hty : HasType t v = true) (hn : noE3 cfg.seqOmitEmpty t v = true)
    (h : encItem cfg o t v = .ok b) :
    ∃ w, decodeOne dcfg t (b ++ tail) = .ok (w, tail) ∧ VEq t v w := by
  have h' : finishItem cfg (mkO (cfg.fixedDefMode.getD o.defMode) (cfg.fixedChunk.getD o.maxChunk) o.ifNotEmpty) t
      (encValue cfg (mkO (cfg.fixedDefMode.getD o.defMode) (cfg.fixedChunk.getD o.maxChunk) o.ifNotEmpty) t v) = .ok b := h
  obtain ⟨x, hb, hxw, _, hxd, hber⟩ := encode_spec cfg pf _ _ hR o.ifNotEmpty hi t v b hreg hwf hty hn h'
  subst hb
  obtain ⟨w, hd, hv, _⟩ := complete_ty pf dcfg hC t v x (reg_plain true cfg _ t hreg) hwf hber
  have hok : x.okFor dcfg.parse := by
    rcases hparse with hp | hp
    · exact Or.inr (lenForm_allDef hxd hp)
    · exact Or.inl hp
  have hpo := parseOne_ser dcfg.parse x tail hxw hok
  refine ⟨w, ?_, hv⟩
  unfold decodeOne
  rw [hpo]
  simp [hd, Except.map]

end Asn1
