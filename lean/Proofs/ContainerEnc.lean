/-
  Proofs.ContainerEnc — the encoders reading an OBJECT factor through its abstract content:
  `encodeObj cfg st = encItem cfg {} ty v` whenever `abs st = some v` (C04 `encodeObj_factors`),
  for SEQUENCE OF / SET OF, SEQUENCE / SET with declared fields, and CHOICE.
-/
import Asn1.Container
import Proofs.ContainerSeqOf
import Proofs.ContainerSort
import Proofs.ContainerRec
import Proofs.ContainerChoice

namespace Asn1.Container

theorem normOpts_ifNotEmpty (cfg : EncCfg) : (normOpts cfg {}).ifNotEmpty = false := rfl

/-! ### SEQUENCE OF / SET OF -/

theorem absList_rep (typed : Bool) (s : ListSpec.St) :
    SeqOf.absList (ListSpec.rep typed s) = s.bind ListSpec.allSet := by
  cases s with
  | none => rfl
  | some l =>
    simp only [ListSpec.rep, SeqOf.absList, enumFrom_length, dlen_enumFrom0, beq_self_eq_true, if_true,
      dcomponents_enumFrom, allVals_map_comp, Option.bind_some]

theorem abs_rep (typed : Bool) (s : ListSpec.St) :
    SeqOf.abs (ListSpec.rep typed s) = ListSpec.abs s := by
  unfold SeqOf.abs ListSpec.abs
  rw [absList_rep]
  cases s <;> rfl

/-- the element encodings, as the codec model computes them for the abstract value -/
theorem map_int_items (cfg : EncCfg) (o : EncOpts) (zs : List Int) :
    (zs.map Val.int).map (fun v => finishItem cfg o (.prim .integer) (encValue cfg o (.prim .integer) v)) =
      zs.map (fun z => finishItem cfg o (.prim .integer) (encValue cfg o (.prim .integer) (.int z))) := by
  rw [List.map_map]; rfl

/-- **C04, SEQUENCE OF / SET OF**: the object's encoding is the codec model's encoding of its
    abstract content (on the canonical representation of a prototype state that is a list) -/
theorem seqOf_encodeObj_factors (cfg : EncCfg) (typed isSet : Bool) (l : List (Option Int))
    (hinv : ListSpec.Inv typed (some l)) (zs : List Int) (h : ListSpec.allSet l = some zs) :
    SeqOf.encodeObj cfg typed isSet (ListSpec.rep typed (some l)) =
      encItem cfg {} (SeqOf.ty isSet) (.seqOf (zs.map .int)) := by
  unfold SeqOf.encodeObj encItem
  rw [iter_rep (some l) hinv]
  simp only [Option.getD_some, Option.bind_some, allVals_map_comp, h]
  cases isSet with
  | false =>
    simp only [SeqOf.ty, Bool.false_eq_true, if_false, Bool.false_and, encValue, normOpts_ifNotEmpty,
      Bool.and_false, map_int_items]
  | true =>
    simp only [SeqOf.ty, if_true, Bool.true_and, encValue, map_int_items]

/-- a schema object (no component list) is encoded like the empty value -/
theorem seqOf_encodeObj_schema (cfg : EncCfg) (typed isSet : Bool) :
    SeqOf.encodeObj cfg typed isSet ⟨none⟩ = SeqOf.encodeObj cfg typed isSet ⟨some []⟩ := rfl


/-! ### SEQUENCE / SET with declared fields -/

theorem val_int_beq (a b : Int) : (Val.int a == Val.int b) = (a == b) := by
  show Val.beq (Val.int a) (Val.int b) = (a == b)
  simp [Val.beq]

theorem skip_req (v : Val) : skipField FKind.req v = false := by
  cases v <;> rfl

theorem skip_opt_int (z : Int) : skipField FKind.opt (Val.int z) = false := rfl
theorem skip_opt_absent : skipField FKind.opt Val.absent = true := rfl
theorem skip_dflt (d z : Int) : skipField (FKind.dflt (Val.int d)) (Val.int z) = (z == d) := by
  simp [skipField, val_int_beq]

theorem absFields_cons (fk : FK) (fks : List FK) (cs : List Comp) :
    Rec.absFields (fk :: fks) cs =
      match Rec.absField fk (cs.headD .hole), Rec.absFields fks cs.tail with
      | some v, some vs => some (v :: vs)
      | _, _ => none := rfl

theorem objFields_cons (cfg : EncCfg) (o : EncOpts) (k : Nat) (fk : FK) (fks : List FK) (cs : List Comp) :
    Rec.objFields cfg o k (fk :: fks) cs =
      match Rec.encSlot fk (cs.headD .hole) with
      | none => Rec.objFields cfg o (k + 1) fks cs.tail
      | some (.error e) => .error e
      | some (.ok z) =>
        let o' := if cfg.seqOmitEmpty then { o with ifNotEmpty := (Rec.fkOf fk).isOpt } else o
        match finishItem cfg o' (Rec.fieldTy k) (encValue cfg o' (Rec.fieldTy k) (.int z)) with
        | .error e => .error e
        | .ok b => (Rec.objFields cfg o' (k + 1) fks cs.tail).map (b ++ ·) := rfl

theorem objSetMembers_cons (cfg : EncCfg) (o : EncOpts) (ord : SetOrder) (k : Nat) (fk : FK) (fks : List FK)
    (cs : List Comp) :
    Rec.objSetMembers cfg o ord k (fk :: fks) cs =
      match Rec.encSlot fk (cs.headD .hole) with
      | none => Rec.objSetMembers cfg o ord (k + 1) fks cs.tail
      | some (.error e) => .error e
      | some (.ok z) =>
        let o' := { o with ifNotEmpty := (Rec.fkOf fk).isOpt }
        match finishItem cfg o' (Rec.fieldTy k) (encValue cfg o' (Rec.fieldTy k) (.int z)) with
        | .error e => .error e
        | .ok b => (Rec.objSetMembers cfg o ord (k + 1) fks cs.tail).map ((setKey ord (Rec.fieldTy k) (.int z), b) :: ·) := rfl

/-- what the abstraction of one slot says about how the encoder treats it -/
theorem slot_cases (fk : FK) (c : Comp) (v : Val) (h : Rec.absField fk c = some v) :
    (Rec.encSlot fk c = none ∧ skipField (Rec.fkOf fk) v = true) ∨
    (∃ z, Rec.encSlot fk c = some (.ok z) ∧ v = .int z ∧ skipField (Rec.fkOf fk) v = false) := by
  cases fk with
  | req =>
    cases c with
    | val z => simp only [Rec.absField, Option.some.injEq] at h; subst h; exact .inr ⟨z, rfl, rfl, skip_req _⟩
    | hole => simp [Rec.absField] at h
    | ph => simp [Rec.absField] at h
  | opt =>
    cases c with
    | val z => simp only [Rec.absField, Option.some.injEq] at h; subst h; exact .inr ⟨z, rfl, rfl, rfl⟩
    | hole => simp only [Rec.absField, Option.some.injEq] at h; subst h; exact .inl ⟨rfl, rfl⟩
    | ph => simp only [Rec.absField, Option.some.injEq] at h; subst h; exact .inl ⟨rfl, rfl⟩
  | dflt d =>
    cases c with
    | val z =>
      simp only [Rec.absField, Option.some.injEq] at h; subst h
      by_cases hzd : z = d
      · subst hzd; exact .inl ⟨by simp [Rec.encSlot], by simp [Rec.fkOf, skip_dflt]⟩
      · exact .inr ⟨z, by simp [Rec.encSlot, hzd], rfl, by simp [Rec.fkOf, skip_dflt, hzd]⟩
    | hole => simp only [Rec.absField, Option.some.injEq] at h; subst h; exact .inl ⟨rfl, by simp [Rec.fkOf, skip_dflt]⟩
    | ph => simp [Rec.absField] at h

/-- `SequenceEncoder` over the object's slots = the codec model over the abstract members -/
theorem objFields_eq (cfg : EncCfg) (o : EncOpts) (k : Nat) (fks : List FK) (cs : List Comp) (vs : List Val)
    (h : Rec.absFields fks cs = some vs) :
    Rec.objFields cfg o k fks cs = encFields cfg o (Rec.fieldsFrom k fks) vs := by
  induction fks generalizing k cs vs o with
  | nil =>
    simp only [Rec.absFields, Option.some.injEq] at h
    subst h
    simp [Rec.objFields, Rec.fieldsFrom, encFields]
  | cons fk fks ih =>
    rw [absFields_cons] at h
    rw [objFields_cons]
    generalize cs.headD Comp.hole = c at h ⊢
    generalize cs.tail = t at h ⊢
    cases hv : Rec.absField fk c with
    | none => simp [hv] at h
    | some v =>
      cases hrest : Rec.absFields fks t with
      | none => simp [hv, hrest] at h
      | some vs' =>
        simp only [hv, hrest, Option.some.injEq] at h
        subst h
        simp only [Rec.fieldsFrom, encFields]
        rcases slot_cases fk c v hv with ⟨h1, h2⟩ | ⟨z, h1, h2, h3⟩
        · simp only [h1, h2, if_true]
          exact ih o (k + 1) t vs' hrest
        · subst h2
          simp only [h1, h3, Bool.false_eq_true, if_false]
          cases finishItem cfg _ (Rec.fieldTy k) (encValue cfg _ (Rec.fieldTy k) (Val.int z)) with
          | error e => rfl
          | ok b => simp only; rw [ih _ (k + 1) t vs' hrest]

/-- the same for the CER/DER SET encoder's (sort key, encoding) list -/
theorem objSetMembers_eq (cfg : EncCfg) (o : EncOpts) (ord : SetOrder) (k : Nat) (fks : List FK)
    (cs : List Comp) (vs : List Val) (h : Rec.absFields fks cs = some vs) :
    Rec.objSetMembers cfg o ord k fks cs = encSetMembers cfg o ord (Rec.fieldsFrom k fks) vs := by
  induction fks generalizing k cs vs with
  | nil =>
    simp only [Rec.absFields, Option.some.injEq] at h
    subst h
    simp [Rec.objSetMembers, Rec.fieldsFrom, encSetMembers]
  | cons fk fks ih =>
    rw [absFields_cons] at h
    rw [objSetMembers_cons]
    generalize cs.headD Comp.hole = c at h ⊢
    generalize cs.tail = t at h ⊢
    cases hv : Rec.absField fk c with
    | none => simp [hv] at h
    | some v =>
      cases hrest : Rec.absFields fks t with
      | none => simp [hv, hrest] at h
      | some vs' =>
        simp only [hv, hrest, Option.some.injEq] at h
        subst h
        have ih' := ih (k + 1) t vs' hrest
        simp only [Rec.fieldsFrom, encSetMembers]
        rcases slot_cases fk c v hv with ⟨h1, h2⟩ | ⟨z, h1, h2, h3⟩
        · simp only [h1, h2, if_true, ih']
        · subst h2
          simp only [h1, h3, Bool.false_eq_true, if_false, ih']
          rfl

/-- **C04, SEQUENCE / SET with declared fields**: the object's encoding is the codec model's
    encoding of its abstract content -/
theorem rec_encodeObj_factors (cfg : EncCfg) (isSet : Bool) (fields : List FK) (hN : fields.length ≠ 0)
    (st : RecSt) (v : Val) (h : Rec.abs fields st = some v) :
    Rec.encodeObj cfg isSet fields st = encItem cfg {} (Rec.ty isSet fields st) v := by
  unfold Rec.abs at h
  cases hc : st.comps with
  | none => simp [hc] at h
  | some l =>
    simp only [hc, hN, ne_eq, not_false_eq_true, if_true] at h
    cases hvs : Rec.absFields fields l with
    | none => simp [hvs] at h
    | some vs =>
      simp only [hvs, Option.map_some, Option.some.injEq] at h
      subst h
      unfold Rec.encodeObj encItem
      simp only [hc, Option.getD_some, hN, ne_eq, not_false_eq_true, if_true, Rec.ty]
      cases isSet with
      | false =>
        simp only [Bool.false_eq_true, if_false, encValue, objFields_eq cfg _ 0 fields l vs hvs]
      | true =>
        simp only [if_true, encValue]
        cases hord : cfg.setOrder with
        | declared => simp only [objFields_eq cfg _ 0 fields l vs hvs]
        | static => simp only [objSetMembers_eq cfg _ .static 0 fields l vs hvs]; rfl
        | dynamic => simp only [objSetMembers_eq cfg _ .dynamic 0 fields l vs hvs]; rfl

/-! ### CHOICE -/

theorem encAlt_altsFrom (cfg : EncCfg) (o : EncOpts) (j n k : Nat) (v : Val) :
    encAlt cfg o (Choice.altsFrom j n) k v =
      if k < n then finishItem cfg o (Rec.fieldTy (j + k)) (encValue cfg o (Rec.fieldTy (j + k)) v)
      else .error .refused := by
  induction n generalizing j k with
  | zero => simp [Choice.altsFrom, encAlt]
  | succ n ih =>
    cases k with
    | zero => simp [Choice.altsFrom, encAlt]
    | succ k =>
      simp only [Choice.altsFrom, encAlt, ih (j + 1) k]
      by_cases h : k < n
      · have : k + 1 < n + 1 := by omega
        simp only [h, this, if_true]
        rw [show j + 1 + k = j + (k + 1) by omega]
      · have : ¬ k + 1 < n + 1 := by omega
        simp only [h, this, if_false]

/-- **C04, CHOICE** -/
theorem choice_encodeObj_factors (cfg : EncCfg) (n : Nat) (st : ChoiceSt) (v : Val)
    (h : Choice.abs st = some v) :
    Choice.encodeObj cfg n st = encItem cfg {} (Choice.ty n) v := by
  unfold Choice.abs at h
  unfold Choice.encodeObj encItem
  cases hcur : st.cur with
  | none => simp [hcur] at h
  | some k =>
    cases hch : Choice.chosen st with
    | none => simp [hcur, hch] at h
    | some c =>
      cases c with
      | hole => simp [hcur, hch] at h
      | ph => simp [hcur, hch] at h
      | val z =>
        simp only [hcur, hch, Option.some.injEq] at h
        subst h
        simp only [Choice.ty, encValue, encAlt_altsFrom, Nat.zero_add]
        by_cases hk : k < n
        · simp only [hk, if_true]
        · simp only [hk, if_false]
          rfl


/-! ### SET OF: any order of the members gives the same DER / CER bytes -/

def intTag : Tag := ⟨.universal, false, 2⟩

/-- the complete encoding of one INTEGER element: identifier, definite length, contents — in every
    configuration (a primitive encoding never uses the indefinite form) -/
theorem intItem_eq (cfg : EncCfg) (o : EncOpts) (z : Int) :
    finishItem cfg o (.prim .integer) (encValue cfg o (.prim .integer) (.int z)) =
      match encodeLength (intToBytes z).length with
      | some l => .ok (encodeTag intTag false ++ l ++ intToBytes z)
      | none => .error .refused := by
  simp only [encValue, finishItem, Ty.tags, PrimTy.univNum, List.isEmpty_cons, Bool.false_eq_true, if_false,
    Bool.and_false, Bool.false_and, wrapTags, encLen, Bool.and_true, Bool.not_false]
  cases h : encodeLength (intToBytes z).length <;> simp [intTag]

theorem intItem_framed (cfg : EncCfg) (o : EncOpts) (z : Int) (c : Bytes)
    (h : finishItem cfg o (.prim .integer) (encValue cfg o (.prim .integer) (.int z)) = .ok c) :
    Framed (encodeTag intTag false) c := by
  rw [intItem_eq] at h
  cases hl : encodeLength (intToBytes z).length with
  | none => simp [hl] at h
  | some l =>
    simp only [hl, Except.ok.injEq] at h
    exact ⟨_, l, intToBytes z, hl, rfl, h.symm⟩

theorem intItem_shape (cfg : EncCfg) (o : EncOpts) (z : Int) :
    (∃ c, finishItem cfg o (.prim .integer) (encValue cfg o (.prim .integer) (.int z)) = .ok c) ∨
    finishItem cfg o (.prim .integer) (encValue cfg o (.prim .integer) (.int z)) = .error .refused := by
  rw [intItem_eq]
  cases encodeLength (intToBytes z).length with
  | none => exact .inr rfl
  | some l => exact .inl ⟨_, rfl⟩

/-- two runs of `allOk` agree up to the order of the results -/
def SameUpToOrder (a b : Except Err (List Bytes)) : Prop :=
  (∃ cs cs', a = .ok cs ∧ b = .ok cs' ∧ cs.Perm cs') ∨ (a = .error .refused ∧ b = .error .refused)

theorem allOk_cons_ok {α} (a : α) (rest : List (Except Err α)) :
    allOk (.ok a :: rest) = (allOk rest).map (a :: ·) := rfl

theorem allOk_cons_err {α} (e : Err) (rest : List (Except Err α)) : allOk (.error e :: rest) = .error e := rfl

theorem sameUpToOrder_refl_shape (f : Int → Except Err Bytes)
    (hf : ∀ z, (∃ c, f z = .ok c) ∨ f z = .error .refused) (zs : List Int) :
    (∃ cs, allOk (zs.map f) = .ok cs) ∨ allOk (zs.map f) = .error .refused := by
  induction zs with
  | nil => exact .inl ⟨[], rfl⟩
  | cons z zs ih =>
    rcases hf z with ⟨c, hc⟩ | hc
    · simp only [List.map_cons, hc, allOk_cons_ok]
      rcases ih with ⟨cs, h⟩ | h
      · exact .inl ⟨c :: cs, by rw [h]; rfl⟩
      · exact .inr (by rw [h]; rfl)
    · exact .inr (by simp only [List.map_cons, hc, allOk_cons_err])

theorem allOk_perm (f : Int → Except Err Bytes)
    (hf : ∀ z, (∃ c, f z = .ok c) ∨ f z = .error .refused) {zs zs' : List Int} (p : zs.Perm zs') :
    SameUpToOrder (allOk (zs.map f)) (allOk (zs'.map f)) := by
  induction p with
  | nil => exact .inl ⟨[], [], rfl, rfl, .nil⟩
  | cons x _ ih =>
    rcases hf x with ⟨c, hc⟩ | hc
    · simp only [List.map_cons, hc, allOk_cons_ok]
      rcases ih with ⟨cs, cs', h1, h2, hp⟩ | ⟨h1, h2⟩
      · exact .inl ⟨c :: cs, c :: cs', by rw [h1]; rfl, by rw [h2]; rfl, hp.cons c⟩
      · exact .inr ⟨by rw [h1]; rfl, by rw [h2]; rfl⟩
    · exact .inr ⟨by simp only [List.map_cons, hc, allOk_cons_err], by simp only [List.map_cons, hc, allOk_cons_err]⟩
  | swap x y l =>
    rcases hf x with ⟨c, hc⟩ | hc <;> rcases hf y with ⟨d, hd⟩ | hd <;>
      rcases sameUpToOrder_refl_shape f hf l with ⟨cs, h⟩ | h
    · exact .inl ⟨d :: c :: cs, c :: d :: cs,
        by simp only [List.map_cons, hc, hd, allOk_cons_ok, h]; rfl,
        by simp only [List.map_cons, hc, hd, allOk_cons_ok, h]; rfl, .swap c d cs⟩
    · exact .inr ⟨by simp only [List.map_cons, hc, hd, allOk_cons_ok, h]; rfl,
        by simp only [List.map_cons, hc, hd, allOk_cons_ok, h]; rfl⟩
    all_goals
      exact .inr ⟨by simp only [List.map_cons, hc, hd, allOk_cons_ok, allOk_cons_err]; try rfl,
        by simp only [List.map_cons, hc, hd, allOk_cons_ok, allOk_cons_err]; try rfl⟩
  | trans _ _ ih1 ih2 =>
    rcases ih1 with ⟨cs, cs', h1, h2, hp⟩ | ⟨h1, h2⟩
    · rcases ih2 with ⟨ds, ds', g1, g2, gp⟩ | ⟨g1, g2⟩
      · rw [h2] at g1
        cases g1
        exact .inl ⟨cs, ds', h1, g2, hp.trans gp⟩
      · rw [h2] at g1; cases g1
    · rcases ih2 with ⟨ds, ds', g1, g2, gp⟩ | ⟨g1, g2⟩
      · rw [h2] at g1; cases g1
      · exact .inr ⟨h1, g2⟩

theorem allOk_mem (f : Int → Except Err Bytes) (zs : List Int) (cs : List Bytes)
    (h : allOk (zs.map f) = .ok cs) : ∀ c ∈ cs, ∃ z, f z = .ok c := by
  induction zs generalizing cs with
  | nil =>
    simp only [List.map_nil, allOk, Except.ok.injEq] at h
    subst h
    intro c hc; simp at hc
  | cons z zs ih =>
    cases hz : f z with
    | error e => simp [hz, allOk_cons_err] at h
    | ok a =>
      simp only [List.map_cons, hz, allOk_cons_ok] at h
      cases hr : allOk (zs.map f) with
      | error e => simp [hr, Except.map] at h
      | ok rest =>
        simp only [hr, Except.map, Except.ok.injEq] at h
        subst h
        intro c hc
        simp only [List.mem_cons] at hc
        rcases hc with rfl | hc
        · exact ⟨z, hz⟩
        · exact ih rest hr c hc

/-- the element encoding in closed form -/
def intChunk (z : Int) : Except Err Bytes :=
  match encodeLength (intToBytes z).length with
  | some l => .ok (encodeTag intTag false ++ l ++ intToBytes z)
  | none => .error .refused

theorem intChunk_shape (z : Int) : (∃ c, intChunk z = .ok c) ∨ intChunk z = .error .refused := by
  unfold intChunk
  cases encodeLength (intToBytes z).length with
  | none => exact .inr rfl
  | some l => exact .inl ⟨_, rfl⟩

theorem intChunk_framed (z : Int) (c : Bytes) (h : intChunk z = .ok c) : Framed (encodeTag intTag false) c := by
  unfold intChunk at h
  cases hl : encodeLength (intToBytes z).length with
  | none => simp [hl] at h
  | some l =>
    simp only [hl, Except.ok.injEq] at h
    exact ⟨_, l, intToBytes z, hl, rfl, h.symm⟩

theorem encValue_setOf_int (cfg : EncCfg) (o : EncOpts) (zs : List Int) :
    encValue cfg o (.setOf (.prim .integer)) (.seqOf (zs.map .int)) =
      (allOk (zs.map intChunk)).map
        (fun cs => ((if cfg.sortSetOf then sortSetOfChunks cs else cs).flatten, true)) := by
  simp only [encValue, List.map_map]
  congr 2
  apply List.map_congr_left
  intro z _
  have := intItem_eq cfg { o with ifNotEmpty := false } z
  simpa [intChunk, Function.comp] using this

/-- **SET OF members in any order give the same bytes** whenever the encoder sorts (CER, DER):
    the codec model's encoding of a SET OF INTEGER depends on the multiset of members only -/
theorem setOf_int_perm (cfg : EncCfg) (hsort : cfg.sortSetOf = true) {zs zs' : List Int} (p : zs.Perm zs') :
    encItem cfg {} (.setOf (.prim .integer)) (.seqOf (zs.map .int)) =
      encItem cfg {} (.setOf (.prim .integer)) (.seqOf (zs'.map .int)) := by
  unfold encItem
  simp only [encValue_setOf_int, hsort, if_true]
  rcases allOk_perm intChunk intChunk_shape p with ⟨cs, cs', h1, h2, hp⟩ | ⟨h1, h2⟩
  · rw [h1, h2]
    have hfr : ∀ c ∈ cs, Framed (encodeTag intTag false) c := by
      intro c hc
      obtain ⟨z, hz⟩ := allOk_mem intChunk zs cs h1 c hc
      exact intChunk_framed z c hz
    simp only [Except.map]
    rw [sortSetOfChunks_perm hp (framed_padInj _ cs hfr)]
  · rw [h1, h2]


/-! ### DEFAULT set explicitly or left out; cloning -/

/-- a DEFAULT slot that holds the default value abstracts like an empty one -/
theorem absFields_default (fks : List FK) (l : List Comp) (k : Nat) (d : Int)
    (hk : fks[k]? = some (FK.dflt d)) (hl : k < l.length) :
    Rec.absFields fks (l.set k (.val d)) = Rec.absFields fks (l.set k .hole) := by
  induction fks generalizing l k with
  | nil => rfl
  | cons fk fks ih =>
    cases l with
    | nil => simp at hl
    | cons c t =>
      cases k with
      | zero =>
        simp only [List.getElem?_cons_zero, Option.some.injEq] at hk
        subst hk
        rfl
      | succ k =>
        simp only [List.getElem?_cons_succ] at hk
        simp only [List.set_cons_succ]
        rw [absFields_cons, absFields_cons]
        simp only [List.headD_cons, List.tail_cons]
        rw [ih t k hk (by simpa using hl)]

/-- cloning with `cloneValueFlag=True` keeps the abstract content (SEQUENCE OF / SET OF, on the
    representation of a prototype state) -/
theorem seqOf_clone_abs (typed : Bool) (s : ListSpec.St) (hinv : ListSpec.Inv typed s) :
    SeqOf.abs (SeqOf.step typed (ListSpec.rep typed s) (.clone true)).1 = SeqOf.abs (ListSpec.rep typed s) := by
  rw [(step_rep s (.clone true) hinv rfl).1]
  rfl

/-- … SEQUENCE / SET with declared fields -/
theorem rec_clone_abs (fields : List FK) (hN : fields.length ≠ 0) (st : RecSt) (hinv : Rec.Inv fields st) :
    Rec.abs fields (Rec.step fields st (.clone true)).1 = Rec.abs fields st := by
  obtain ⟨_, h2, h3⟩ := step_abs hinv hN (.clone true) rfl
  rw [abs_spec h3 hN, abs_spec hinv hN, h2]
  rfl

/-- … CHOICE -/
theorem choice_clone_abs (n : Nat) (hn : n ≠ 0) (st : ChoiceSt) (hinv : Choice.Inv n st) :
    Choice.abs (Choice.step n st (.clone true)).1 = Choice.abs st := by
  obtain ⟨_, h2, _⟩ := choice_step hn hinv (.clone true)
  rw [choice_abs_spec, choice_abs_spec, h2]
  simp only [OptionSpec.step, Bool.true_and]
  cases h : (Choice.absO st).sel with
  | none => simp [OptionSpec.abs, h]
  | some p => simp [OptionSpec.abs, h]

end Asn1.Container
