/-
  Proofs.TimeInstant — the text `fromDateTime` writes, read per X.680 (`instant`), is the datetime's own
  instant — outside the region of the known finding `from-fraction-unpadded` (0 < ms < 100).
-/
import Proofs.TimeRoundtrip
import Proofs.TimeCanon

set_option linter.unusedSimpArgs false

namespace Asn1.Time

theorem digitsVal2 {a b : Nat} (ha : a < 10) (hb : b < 10) : digitsVal 0 [dig a, dig b] = a * 10 + b := by
  simp [digitsVal, dv_dig ha, dv_dig hb]

/-- `readMain` on fourteen explicit digits -/
theorem readMain_gt14 {y1 y2 y3 y4 m1 m2 d1 d2 h1 h2 i1 i2 s1 s2 : Nat}
    (hy1 : y1 < 10) (hy2 : y2 < 10) (hy3 : y3 < 10) (hy4 : y4 < 10) (hm1 : m1 < 10) (hm2 : m2 < 10)
    (hd1 : d1 < 10) (hd2 : d2 < 10) (hh1 : h1 < 10) (hh2 : h2 < 10) (hi1 : i1 < 10) (hi2 : i2 < 10)
    (hs1 : s1 < 10) (hs2 : s2 < 10) (f : List Char) (off : Option Int)
    (hv : 1 ≤ m1 * 10 + m2 ∧ m1 * 10 + m2 ≤ 12 ∧ 1 ≤ d1 * 10 + d2
      ∧ d1 * 10 + d2 ≤ daysIn (y1 * 1000 + y2 * 100 + y3 * 10 + y4) (m1 * 10 + m2)
      ∧ h1 * 10 + h2 < 24 ∧ i1 * 10 + i2 < 60 ∧ s1 * 10 + s2 < 60) :
    readMain gt [dig y1, dig y2, dig y3, dig y4, dig m1, dig m2, dig d1, dig d2, dig h1, dig h2, dig i1, dig i2,
        dig s1, dig s2] f off
      = some ⟨y1 * 1000 + y2 * 100 + y3 * 10 + y4, m1 * 10 + m2, d1 * 10 + d2,
          (todOf (((h1 * 10 + h2) * 3600 + (i1 * 10 + i2) * 60 + (s1 * 10 + s2)) * 1000000) 1000000 f).1,
          (todOf (((h1 * 10 + h2) * 3600 + (i1 * 10 + i2) * 60 + (s1 * 10 + s2)) * 1000000) 1000000 f).2, off⟩ := by
  have hall : allDig [dig y1, dig y2, dig y3, dig y4, dig m1, dig m2, dig d1, dig d2, dig h1, dig h2, dig i1,
      dig i2, dig s1, dig s2] = true := by
    simp [allDig, isDig_dig, *]
  have hyv : digitsVal 0 [dig y1, dig y2, dig y3, dig y4] = y1 * 1000 + y2 * 100 + y3 * 10 + y4 := by
    simp [digitsVal, dv_dig, *]; omega
  simp only [readMain, hall, gt, isGT, List.take, List.drop, num2, hyv, digitsVal2, List.length, *]
  simp [hv]

theorem readZone_signed (k : Kind) {body : List Char} (hp : '+' ∉ body) (hm : '-' ∉ body) {hh mm : Nat}
    (h1 : hh < 24) (h2 : mm < 60) (plus : Bool) :
    readZone k (body ++ (if plus then '+' else '-') :: (pad2 hh ++ pad2 mm))
      = some (body, some (if plus then Int.ofNat (hh * 60 + mm) else - Int.ofNat (hh * 60 + mm))) := by
  have htz : pad2 hh ++ pad2 mm = [dig (hh / 10), dig (hh % 10), dig (mm / 10), dig (mm % 10)] := by
    rw [pad2_lt (by omega), pad2_lt (by omega)]; rfl
  have hall : AllDig (pad2 hh ++ pad2 mm) := (allDig_pad2 hh).append (allDig_pad2 mm)
  have hnp : '+' ∉ pad2 hh ++ pad2 mm := hall.not_mem (by decide)
  have hlast : (body ++ (if plus then '+' else '-') :: (pad2 hh ++ pad2 mm)).getLast? ≠ some 'Z' := by
    rw [htz]; simp
    exact dig_ne_Z (by omega)
  have hlen : (pad2 hh ++ pad2 mm).length = 4 := by rw [htz]; rfl
  have hn1 : num2 (pad2 hh ++ pad2 mm) = hh := by
    rw [htz]; simp only [num2, List.take]; rw [digitsVal2 (by omega) (by omega)]; omega
  have hn2 : num2 ((pad2 hh ++ pad2 mm).drop 2) = mm := by
    rw [htz]; simp only [num2, List.take, List.drop]; rw [digitsVal2 (by omega) (by omega)]; omega
  unfold readZone
  rw [if_neg hlast]
  cases plus with
  | true =>
    have hin : '+' ∈ body ++ '+' :: (pad2 hh ++ pad2 mm) := by simp
    simp only [if_true, hin, true_or, decide_true, splitOn1_append hp, hlen, allDig_of hall, hn1, hn2, h1, h2,
      and_self, true_and]
  | false =>
    have hin : '-' ∈ body ++ '-' :: (pad2 hh ++ pad2 mm) := by simp
    have hnin : '+' ∉ body ++ '-' :: (pad2 hh ++ pad2 mm) := by simp [hp, hnp]
    simp only [hin, hnin, or_true, if_true, decide_false, Bool.false_eq_true, if_false, splitOn1_append hm, hlen,
      allDig_of hall, hn1, hn2, h1, h2, and_self, true_and, true_or]

theorem readZone_zoneText (k : Kind) {body : List Char} (hp : '+' ∉ body) (hm : '-' ∉ body)
    {off : Option Int} (ho : ∀ o, off = some o → -1440 < o ∧ o < 1440) :
    readZone k (body ++ zoneText off) = some (body, some (off.getD 0)) := by
  cases off with
  | none => exact readZone_Z k body
  | some o =>
    have hb := ho o rfl
    by_cases h0 : o = 0
    · subst h0; exact readZone_Z k body
    · simp only [zoneText, h0, if_false, Option.getD_some]
      by_cases hneg : o < 0
      · have := readZone_signed k hp hm (by omega : o.natAbs / 60 < 24) (Nat.mod_lt _ (by decide) : o.natAbs % 60 < 60) false
        simp only [hneg, if_true]
        simp only [Bool.false_eq_true, if_false] at this
        rw [this]
        congr 3
        simp only [Int.ofNat_eq_natCast]
        omega
      · have := readZone_signed k hp hm (by omega : o.natAbs / 60 < 24) (Nat.mod_lt _ (by decide) : o.natAbs % 60 < 60) true
        simp only [hneg, if_false]
        simp only [if_true] at this
        rw [this]
        congr 3
        simp only [Int.ofNat_eq_natCast]
        omega

theorem dec_three {n : Nat} (h1 : 100 ≤ n) (h2 : n < 1000) :
    dec n = [dig (n / 100), dig (n / 10 % 10), dig (n % 10)] := by
  rw [dec_ge (by omega), dec_ge (by omega), dec_lt (by omega : n / 10 / 10 < 10)]
  have : n / 10 / 10 = n / 100 := by omega
  simp [this]

/-- time of day with the milliseconds `fromDateTime` writes, where X.680 reads them as written -/
theorem todOf_dec {base ms : Nat} (h : ms = 0 ∨ (100 ≤ ms ∧ ms < 1000)) :
    todOf base 1000000 (dec ms) = (base + ms * 1000, 0) := by
  rcases h with h | ⟨h1, h2⟩
  · subst h
    have : dec 0 = ['0'] := by rw [dec_lt (by decide)]; rfl
    rw [this]
    have e := normDec_mul base 0 1
    simp only [todOf, List.length, digitsVal, dv_zero]
    simpa [normDec] using e
  · have hl : (dec ms).length = 3 := by rw [dec_three h1 h2]; rfl
    have e := normDec_mul (base + ms * 1000) 0 3
    simp only [todOf, hl, digitsVal_dec]
    have : base * 10 ^ 3 + 1000000 * ms = (base + ms * 1000) * 10 ^ 3 := by omega
    rw [this]
    simpa [normDec] using e

theorem div_mul_1000 {n : Nat} (h : n % 1000 = 0) : n / 1000 * 1000 = n := by omega

theorem year_digits {y : Nat} (_h : y < 10000) :
    y / 1000 * 1000 + y / 100 % 10 * 100 + y / 10 % 10 * 10 + y % 10 = y := by omega

theorem ms_guard {us : Nat} (h : us < 1000000) (hg : us = 0 ∨ 100000 ≤ us) :
    us / 1000 = 0 ∨ (100 ≤ us / 1000 ∧ us / 1000 < 1000) := by omega

/-- PARTIAL at the property level (see Props.C20.from_instant_partial): the text written for a datetime,
    read per X.680, is that datetime's instant with the same offset, provided the milliseconds are 0 or ≥ 100 -/
theorem instant_fromDateTime_gt {dt : DT} (v : ValidDT dt) (hms : dt.micro % 1000 = 0)
    (hg : dt.micro = 0 ∨ 100000 ≤ dt.micro) :
    instant gt (fromDateTime gt dt) = some ({ dt with off := some (dt.off.getD 0) } : DT).instant := by
  have hmain : AllDig (pad4 dt.year ++ mdhms dt) := (allDig_pad4 _).append (allDig_mdhms dt)
  have hmul : dt.micro / 1000 * 1000 = dt.micro := div_mul_1000 hms
  have hy := v.year; have hmo := v.month; have hd := v.day; have hdi := daysIn_le dt.year dt.month
  have hh := v.hour; have hmi := v.minute; have hs := v.second; have hus := v.micro
  have hexp : pad4 dt.year ++ mdhms dt
      = [dig (dt.year / 1000), dig (dt.year / 100 % 10), dig (dt.year / 10 % 10), dig (dt.year % 10),
         dig (dt.month / 10), dig (dt.month % 10), dig (dt.day / 10), dig (dt.day % 10),
         dig (dt.hour / 10), dig (dt.hour % 10), dig (dt.minute / 10), dig (dt.minute % 10),
         dig (dt.second / 10), dig (dt.second % 10)] := by
    simp [mdhms, pad4_lt (by omega : dt.year < 10000), pad2_lt (by omega : dt.month < 100),
      pad2_lt (by omega : dt.day < 100), pad2_lt (by omega : dt.hour < 100), pad2_lt (by omega : dt.minute < 100),
      pad2_lt (by omega : dt.second < 100)]
  have e1 : dt.year / 1000 * 1000 + dt.year / 100 % 10 * 100 + dt.year / 10 % 10 * 10 + dt.year % 10 = dt.year :=
    year_digits (by omega)
  have e2 : dt.month / 10 * 10 + dt.month % 10 = dt.month := by omega
  have e3 : dt.day / 10 * 10 + dt.day % 10 = dt.day := by omega
  have e4 : dt.hour / 10 * 10 + dt.hour % 10 = dt.hour := by omega
  have e5 : dt.minute / 10 * 10 + dt.minute % 10 = dt.minute := by omega
  have e6 : dt.second / 10 * 10 + dt.second % 10 = dt.second := by omega
  rw [fromDateTime_gt, instant,
    readZone_zoneText gt (not_mem_body (by decide) (by decide) hmain _)
      (not_mem_body (by decide) (by decide) hmain _) v.off]
  simp only [readFrac_dot hmain (allDig_dec _) (dec_ne_nil _)]
  rw [hexp, readMain_gt14 (by omega) (by omega) (by omega) (by omega) (by omega) (by omega) (by omega) (by omega)
    (by omega) (by omega) (by omega) (by omega) (by omega) (by omega) _ _
    (by rw [e1, e2, e3, e4, e5, e6]; exact ⟨hmo.1, hmo.2, hd.1, hd.2, hh, hmi, hs⟩)]
  have hms' : dt.micro / 1000 = 0 ∨ (100 ≤ dt.micro / 1000 ∧ dt.micro / 1000 < 1000) := ms_guard hus hg
  have ht : ∀ base, todOf base 1000000 (dec (dt.micro / 1000)) = (base + dt.micro / 1000 * 1000, 0) :=
    fun base => todOf_dec hms'
  rw [e1, e2, e3, e4, e5, e6, ht]
  simp [DT.instant, hmul]

/-- `readMain` on the twelve explicit digits of a UTCTime -/
theorem readMain_utc12 {y1 y2 m1 m2 d1 d2 h1 h2 i1 i2 s1 s2 : Nat}
    (hy1 : y1 < 10) (hy2 : y2 < 10) (hm1 : m1 < 10) (hm2 : m2 < 10)
    (hd1 : d1 < 10) (hd2 : d2 < 10) (hh1 : h1 < 10) (hh2 : h2 < 10) (hi1 : i1 < 10) (hi2 : i2 < 10)
    (hs1 : s1 < 10) (hs2 : s2 < 10) (off : Option Int) (y : Nat)
    (hy : (if y1 * 10 + y2 ≤ 68 then 2000 + (y1 * 10 + y2) else 1900 + (y1 * 10 + y2)) = y)
    (hv : 1 ≤ m1 * 10 + m2 ∧ m1 * 10 + m2 ≤ 12 ∧ 1 ≤ d1 * 10 + d2
      ∧ d1 * 10 + d2 ≤ daysIn y (m1 * 10 + m2)
      ∧ h1 * 10 + h2 < 24 ∧ i1 * 10 + i2 < 60 ∧ s1 * 10 + s2 < 60) :
    readMain utc [dig y1, dig y2, dig m1, dig m2, dig d1, dig d2, dig h1, dig h2, dig i1, dig i2,
        dig s1, dig s2] [] off
      = some ⟨y, m1 * 10 + m2, d1 * 10 + d2,
          ((h1 * 10 + h2) * 3600 + (i1 * 10 + i2) * 60 + (s1 * 10 + s2)) * 1000000, 0, off⟩ := by
  have hall : allDig [dig y1, dig y2, dig m1, dig m2, dig d1, dig d2, dig h1, dig h2, dig i1,
      dig i2, dig s1, dig s2] = true := by
    simp [allDig, isDig_dig, *]
  have ht : ∀ base, todOf base 1000000 [] = (base, 0) := by intro base; simp [todOf, digitsVal, normDec]
  simp only [readMain, hall, utc, isGT, List.take, List.drop, num2, digitsVal2, List.length, *]
  simp [hv, ht]

theorem year2_window {y : Nat} (h : 1969 ≤ y ∧ y ≤ 2068) :
    (if y % 100 / 10 * 10 + y % 100 % 10 ≤ 68 then 2000 + (y % 100 / 10 * 10 + y % 100 % 10)
      else 1900 + (y % 100 / 10 * 10 + y % 100 % 10)) = y := by
  split <;> omega

/-- UTCTime: the text written for a datetime (second precision, year in the strptime window), read per
    X.680 §47 with that window, is the datetime's instant with the same offset -/
theorem instant_fromDateTime_utc {dt : DT} (v : ValidDT dt) (hyw : 1969 ≤ dt.year ∧ dt.year ≤ 2068)
    (hus : dt.micro = 0) :
    instant utc (fromDateTime utc dt) = some ({ dt with off := some (dt.off.getD 0) } : DT).instant := by
  have hmain : AllDig (pad2 (dt.year % 100) ++ mdhms dt) := (allDig_pad2 _).append (allDig_mdhms dt)
  have hmo := v.month; have hd := v.day; have hdi := daysIn_le dt.year dt.month
  have hh := v.hour; have hmi := v.minute; have hs := v.second
  have hexp : pad2 (dt.year % 100) ++ mdhms dt
      = [dig (dt.year % 100 / 10), dig (dt.year % 100 % 10),
         dig (dt.month / 10), dig (dt.month % 10), dig (dt.day / 10), dig (dt.day % 10),
         dig (dt.hour / 10), dig (dt.hour % 10), dig (dt.minute / 10), dig (dt.minute % 10),
         dig (dt.second / 10), dig (dt.second % 10)] := by
    simp [mdhms, pad2_lt (by omega : dt.year % 100 < 100), pad2_lt (by omega : dt.month < 100),
      pad2_lt (by omega : dt.day < 100), pad2_lt (by omega : dt.hour < 100), pad2_lt (by omega : dt.minute < 100),
      pad2_lt (by omega : dt.second < 100)]
  have e2 : dt.month / 10 * 10 + dt.month % 10 = dt.month := by omega
  have e3 : dt.day / 10 * 10 + dt.day % 10 = dt.day := by omega
  have e4 : dt.hour / 10 * 10 + dt.hour % 10 = dt.hour := by omega
  have e5 : dt.minute / 10 * 10 + dt.minute % 10 = dt.minute := by omega
  have e6 : dt.second / 10 * 10 + dt.second % 10 = dt.second := by omega
  rw [fromDateTime_utc, instant,
    readZone_zoneText utc (hmain.not_mem (by decide)) (hmain.not_mem (by decide)) v.off]
  simp only [readFrac_none utc hmain]
  rw [hexp, readMain_utc12 (by omega) (by omega) (by omega) (by omega) (by omega) (by omega) (by omega) (by omega)
    (by omega) (by omega) (by omega) (by omega) _ dt.year (year2_window hyw)
    (by rw [e2, e3, e4, e5, e6]; exact ⟨hmo.1, hmo.2, hd.1, hd.2, hh, hmi, hs⟩)]
  rw [e2, e3, e4, e5, e6]
  simp [DT.instant, hus]

end Asn1.Time
