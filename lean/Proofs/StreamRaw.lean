/-
  Proofs.StreamRaw — short reads are invisible above `readFromStream`: the collecting loop over raw
  `read()` calls returns exactly what the `read n` primitive of `run` returns (`readAns`), whatever
  number of octets each individual call hands out.
-/
import Asn1.Stream

namespace Asn1.Stream

theorem take_split (l : Bytes) (a b : Nat) (h : a ≤ b) :
    l.take a ++ (l.drop a).take (b - a) = l.take b := by
  have hb : b = a + (b - a) := by omega
  conv => rhs; rw [hb]
  rw [List.take_add]

theorem gatherLoop_spec (d : Bytes) (closed : Bool) (capOf : Nat → Nat) :
    ∀ (fuel pos missing : Nat) (acc : Bytes), missing ≤ fuel → pos ≤ d.length →
      gatherLoop d closed capOf fuel pos missing acc =
        if pos + missing ≤ d.length then .ok (acc ++ (d.drop pos).take missing)
        else if closed then .eos else .wait := by
  intro fuel
  induction fuel with
  | zero =>
    intro pos missing acc hm hp
    have : missing = 0 := by omega
    subst this
    simp [gatherLoop, hp]
  | succ fuel ih =>
    intro pos missing acc hm hp
    rw [gatherLoop]
    by_cases h0 : missing = 0
    · subst h0; simp [hp]
    · simp only [h0, if_false]
      unfold rawRead
      simp only [h0, if_false]
      by_cases hend : d.length ≤ pos
      · have hgt : ¬ (pos + missing ≤ d.length) := by omega
        simp only [hend, if_true, hgt, if_false]
        cases closed <;> simp
      · simp only [hend, if_false]
        -- a non-empty piece comes back
        have hlen : ((d.drop pos).take (min missing (capOf fuel + 1))).length =
            min (min missing (capOf fuel + 1)) (d.length - pos) := by
          rw [List.length_take, List.length_drop]
        have hpos : 0 < min (min missing (capOf fuel + 1)) (d.length - pos) := by
          have : 0 < missing := Nat.pos_of_ne_zero h0
          omega
        cases hx : (d.drop pos).take (min missing (capOf fuel + 1)) with
        | nil => rw [hx] at hlen; simp at hlen; omega
        | cons x xs =>
          simp only
          rw [← hx]
          have hle : ((d.drop pos).take (min missing (capOf fuel + 1))).length ≤ missing := by
            rw [hlen]; omega
          have hle2 : pos + ((d.drop pos).take (min missing (capOf fuel + 1))).length ≤ d.length := by
            rw [hlen]; omega
          rw [ih _ _ _ (by rw [hlen]; omega) hle2]
          have hsum : pos + ((d.drop pos).take (min missing (capOf fuel + 1))).length +
              (missing - ((d.drop pos).take (min missing (capOf fuel + 1))).length) = pos + missing := by
            omega
          rw [hsum]
          by_cases hfit : pos + missing ≤ d.length
          · simp only [hfit, if_true]
            congr 1
            rw [List.append_assoc]
            congr 1
            -- the piece followed by the rest is the whole read
            have hm1 : min missing (capOf fuel + 1) ≤ d.length - pos := by omega
            have hl2 : ((d.drop pos).take (min missing (capOf fuel + 1))).length = min missing (capOf fuel + 1) := by
              rw [hlen]; omega
            rw [hl2, ← List.drop_drop]
            exact take_split (d.drop pos) (min missing (capOf fuel + 1)) missing (by omega)
          · simp only [hfit, if_false]

/-- **short reads are invisible**: whatever each raw `read()` call hands out (at least one octet
    when octets are there), `readFromStream` answers as the `read n` primitive of the model does —
    the n octets when they have all arrived, an underrun while the stream is open, EndOfStreamError
    once it is closed -/
theorem readFromStreamRaw_eq_readAns (k : Kind) (hk : k ≠ .bytesIO) (d : Bytes) (closed : Bool)
    (capOf : Nat → Nat) (pos n : Nat) (hp : pos ≤ d.length) :
    readFromStreamRaw d closed capOf pos n = readAns k d closed pos n := by
  unfold readFromStreamRaw readAns
  rw [gatherLoop_spec d closed capOf (n + 1) pos n [] (by omega) hp]
  have : k.isOpen closed = !closed := by cases k <;> simp_all [Kind.isOpen]
  by_cases h : pos + n ≤ d.length
  · simp [h]
  · simp only [h, if_false, this]
    cases closed <;> simp

end Asn1.Stream
