/-
  Proofs.Dispatch — the decoder's dispatch on tags finds the right component.
  `Members` describes the children an encoder produced for a record (one element per component
  that was not skipped, in declaration order); under the tag-distinctness rules of `Ty.WF` the
  SEQUENCE decoder (positional with OPTIONAL/DEFAULT skipping), the SET decoder (lookup by tag)
  and the CHOICE decoder (first alternative accepting the tag) all recover the values.
-/
import Asn1.Decoder
import Asn1.Typing
import Asn1.Encoder
import Proofs.Sound

namespace Asn1

/-- `tg` is one of the tags an encoding of `t` may start with -/
def TagIn (t : Ty) (tg : Tag) : Prop := ∃ l, t.outerTags = some l ∧ l.any (·.same tg) = true

theorem accepts_of_tagIn {t : Ty} {tg : Tag} (h : TagIn t tg) : t.accepts tg = true := by
  obtain ⟨l, hl, ha⟩ := h
  simp only [Ty.accepts, hl]
  exact ha

theorem Tag.same_of (a b c : Tag) (h1 : a.same c = true) (h2 : b.same c = true) : a.same b = true := by
  simp only [Tag.same, Bool.and_eq_true, beq_iff_eq] at *
  exact ⟨h1.1.trans h2.1.symm, h1.2.trans h2.2.symm⟩

theorem not_accepts_of_disjoint {t' t : Ty} {tg : Tag}
    (hd : outerOverlap t'.outerTags t.outerTags = false) (h : TagIn t tg) : t'.accepts tg = false := by
  obtain ⟨l, hl, ha⟩ := h
  rw [hl] at hd
  cases ho : t'.outerTags with
  | none => rw [ho] at hd; simp [outerOverlap] at hd
  | some a =>
    rw [ho] at hd
    simp only [Ty.accepts, ho]
    simp only [outerOverlap, tagsOverlap] at hd
    cases hx : a.any (·.same tg) with
    | false => rfl
    | true =>
      exfalso
      obtain ⟨x, hxa, hxs⟩ := List.any_eq_true.mp hx
      obtain ⟨y, hyl, hys⟩ := List.any_eq_true.mp ha
      have : (a.any fun x => l.any fun y => x.same y) = true :=
        List.any_eq_true.mpr ⟨x, hxa, List.any_eq_true.mpr ⟨y, hyl, Tag.same_of x y tg hxs hys⟩⟩
      rw [this] at hd
      exact absurd hd (by simp)

/-! ### structural equality of values is equality -/

mutual
theorem Val.beq_sound : ∀ (a b : Val), Val.beq a b = true → a = b
  | .bool a, .bool b, h => by simp only [Val.beq, beq_iff_eq] at h; rw [h]
  | .int a, .int b, h => by simp only [Val.beq, beq_iff_eq] at h; rw [h]
  | .bits a, .bits b, h => by simp only [Val.beq, beq_iff_eq] at h; rw [h]
  | .str a, .str b, h => by simp only [Val.beq, beq_iff_eq] at h; rw [h]
  | .null, .null, _ => rfl
  | .oid a, .oid b, h => by simp only [Val.beq, beq_iff_eq] at h; rw [h]
  | .real a, .real b, h => by simp only [Val.beq, beq_iff_eq] at h; rw [h]
  | .seq a, .seq b, h => by
      simp only [Val.beq] at h; rw [Val.beqList_sound a b h]
  | .seqOf a, .seqOf b, h => by
      simp only [Val.beq] at h; rw [Val.beqList_sound a b h]
  | .choice i a, .choice j b, h => by
      simp only [Val.beq, Bool.and_eq_true, beq_iff_eq] at h
      rw [h.1, Val.beq_sound a b h.2]
  | .any a, .any b, h => by simp only [Val.beq, beq_iff_eq] at h; rw [h]
  | .absent, .absent, _ => rfl
  | .bool _, .int _, h | .bool _, .bits _, h | .bool _, .str _, h | .bool _, .null, h
  | .bool _, .oid _, h | .bool _, .real _, h | .bool _, .seq _, h | .bool _, .seqOf _, h
  | .bool _, .choice _ _, h | .bool _, .any _, h | .bool _, .absent, h => by simp [Val.beq] at h
  | .int _, .bool _, h | .int _, .bits _, h | .int _, .str _, h | .int _, .null, h
  | .int _, .oid _, h | .int _, .real _, h | .int _, .seq _, h | .int _, .seqOf _, h
  | .int _, .choice _ _, h | .int _, .any _, h | .int _, .absent, h => by simp [Val.beq] at h
  | .bits _, .bool _, h | .bits _, .int _, h | .bits _, .str _, h | .bits _, .null, h
  | .bits _, .oid _, h | .bits _, .real _, h | .bits _, .seq _, h | .bits _, .seqOf _, h
  | .bits _, .choice _ _, h | .bits _, .any _, h | .bits _, .absent, h => by simp [Val.beq] at h
  | .str _, .bool _, h | .str _, .int _, h | .str _, .bits _, h | .str _, .null, h
  | .str _, .oid _, h | .str _, .real _, h | .str _, .seq _, h | .str _, .seqOf _, h
  | .str _, .choice _ _, h | .str _, .any _, h | .str _, .absent, h => by simp [Val.beq] at h
  | .null, .bool _, h | .null, .int _, h | .null, .bits _, h | .null, .str _, h
  | .null, .oid _, h | .null, .real _, h | .null, .seq _, h | .null, .seqOf _, h
  | .null, .choice _ _, h | .null, .any _, h | .null, .absent, h => by simp [Val.beq] at h
  | .oid _, .bool _, h | .oid _, .int _, h | .oid _, .bits _, h | .oid _, .str _, h
  | .oid _, .null, h | .oid _, .real _, h | .oid _, .seq _, h | .oid _, .seqOf _, h
  | .oid _, .choice _ _, h | .oid _, .any _, h | .oid _, .absent, h => by simp [Val.beq] at h
  | .real _, .bool _, h | .real _, .int _, h | .real _, .bits _, h | .real _, .str _, h
  | .real _, .null, h | .real _, .oid _, h | .real _, .seq _, h | .real _, .seqOf _, h
  | .real _, .choice _ _, h | .real _, .any _, h | .real _, .absent, h => by simp [Val.beq] at h
  | .seq _, .bool _, h | .seq _, .int _, h | .seq _, .bits _, h | .seq _, .str _, h
  | .seq _, .null, h | .seq _, .oid _, h | .seq _, .real _, h | .seq _, .seqOf _, h
  | .seq _, .choice _ _, h | .seq _, .any _, h | .seq _, .absent, h => by simp [Val.beq] at h
  | .seqOf _, .bool _, h | .seqOf _, .int _, h | .seqOf _, .bits _, h | .seqOf _, .str _, h
  | .seqOf _, .null, h | .seqOf _, .oid _, h | .seqOf _, .real _, h | .seqOf _, .seq _, h
  | .seqOf _, .choice _ _, h | .seqOf _, .any _, h | .seqOf _, .absent, h => by simp [Val.beq] at h
  | .choice _ _, .bool _, h | .choice _ _, .int _, h | .choice _ _, .bits _, h | .choice _ _, .str _, h
  | .choice _ _, .null, h | .choice _ _, .oid _, h | .choice _ _, .real _, h | .choice _ _, .seq _, h
  | .choice _ _, .seqOf _, h | .choice _ _, .any _, h | .choice _ _, .absent, h => by simp [Val.beq] at h
  | .any _, .bool _, h | .any _, .int _, h | .any _, .bits _, h | .any _, .str _, h
  | .any _, .null, h | .any _, .oid _, h | .any _, .real _, h | .any _, .seq _, h
  | .any _, .seqOf _, h | .any _, .choice _ _, h | .any _, .absent, h => by simp [Val.beq] at h
  | .absent, .bool _, h | .absent, .int _, h | .absent, .bits _, h | .absent, .str _, h
  | .absent, .null, h | .absent, .oid _, h | .absent, .real _, h | .absent, .seq _, h
  | .absent, .seqOf _, h | .absent, .choice _ _, h | .absent, .any _, h => by simp [Val.beq] at h
theorem Val.beqList_sound : ∀ (a b : List Val), Val.beqList a b = true → a = b
  | [], [], _ => rfl
  | x :: xs, y :: ys, h => by
      simp only [Val.beqList, Bool.and_eq_true] at h
      rw [Val.beq_sound x y h.1, Val.beqList_sound xs ys h.2]
  | [], _ :: _, h => by simp [Val.beqList] at h
  | _ :: _, [], h => by simp [Val.beqList] at h
end

theorem Val.eq_of_beq (a b : Val) (h : (a == b) = true) : a = b := Val.beq_sound a b h

/-! ### what an encoder leaves behind for a record -/

/-- one child per component that was not skipped, in declaration order; `P k t v c` relates the
    `k`-th component (type `t`, value `v`) to its child `c` -/
def Members (P : Nat → Ty → Val → TLV → Prop) : Nat → Fields → List Val → List TLV → Prop
  | _, .nil, [], cs => cs = []
  | k, .cons kd t rest, v :: vs, cs =>
    if skipField kd v then Members P (k + 1) rest vs cs
    else ∃ c cs', cs = c :: cs' ∧ P k t v c ∧ Members P (k + 1) rest vs cs'
  | _, _, _, _ => False

theorem hasFields_present {kd : FKind} {t : Ty} {rest : Fields} {v : Val} {vs : List Val}
    (h : HasFields (.cons kd t rest) (v :: vs) = true) (hs : skipField kd v = false) :
    HasType t v = true ∧ HasFields rest vs = true := by
  cases kd <;> cases v <;> simp_all [HasFields, skipField]

theorem hasFields_skipped {kd : FKind} {t : Ty} {rest : Fields} {v : Val} {vs : List Val}
    (h : HasFields (.cons kd t rest) (v :: vs) = true) (hs : skipField kd v = true) :
    HasFields rest vs = true ∧ ((kd = .opt ∧ v = .absent) ∨ kd = .dflt v) := by
  cases kd with
  | req => simp [skipField] at hs
  | opt => cases v <;> simp_all [HasFields, skipField]
  | dflt d =>
    have hvd : v = d := Val.eq_of_beq v d (by simpa [skipField] using hs)
    subst hvd
    cases v <;> simp_all [HasFields]

/-- tags of the members up to and including the next mandatory one -/
def InWindow : Fields → Tag → Prop
  | .nil, _ => False
  | .cons .req t _, tg => TagIn t tg
  | .cons .opt t rest, tg => TagIn t tg ∨ InWindow rest tg
  | .cons (.dflt _) t rest, tg => TagIn t tg ∨ InWindow rest tg

theorem windowFree_spec (t' : Ty) : ∀ (rest : Fields) (tg : Tag),
    windowFree t'.outerTags rest = true → InWindow rest tg → t'.accepts tg = false
  | .nil, _, _, hi => by simp [InWindow] at hi
  | .cons .req t _, tg, hw, hi => by
      simp only [windowFree, Bool.not_eq_true'] at hw
      exact not_accepts_of_disjoint hw hi
  | .cons .opt t rest, tg, hw, hi => by
      simp only [windowFree, Bool.and_eq_true, Bool.not_eq_true'] at hw
      rcases hi with hi | hi
      · exact not_accepts_of_disjoint hw.1 hi
      · exact windowFree_spec t' rest tg hw.2 hi
  | .cons (.dflt _) t rest, tg, hw, hi => by
      simp only [windowFree, Bool.and_eq_true, Bool.not_eq_true'] at hw
      rcases hi with hi | hi
      · exact not_accepts_of_disjoint hw.1 hi
      · exact windowFree_spec t' rest tg hw.2 hi

abbrev ElemOk (dcfg : DecCfg) : Nat → Ty → Val → TLV → Prop :=
  fun _ t v c => TagIn t c.tag ∧ decTy dcfg t c = .ok v

/-- **SEQUENCE**: the positional decoder with OPTIONAL/DEFAULT skipping recovers every component -/
theorem seq_dispatch (dcfg : DecCfg) : ∀ (fs : Fields) (vs : List Val) (cs : List TLV) (k : Nat),
    Members (ElemOk dcfg) k fs vs cs → HasFields fs vs = true → seqDistinct fs = true →
    decFields dcfg fs cs = .ok vs ∧ (∀ c cs', cs = c :: cs' → InWindow fs c.tag)
  | .nil, [], cs, k, hm, _, _ => by
      simp only [Members] at hm
      subst hm
      exact ⟨by simp [decFields], by intro c cs' h; simp at h⟩
  | .nil, _ :: _, _, _, hm, _, _ => by simp [Members] at hm
  | .cons _ _ _, [], _, _, hm, _, _ => by simp [Members] at hm
  | .cons kd t rest, v :: vs, cs, k, hm, hf, hd => by
      simp only [Members] at hm
      have hdr : seqDistinct rest = true := by
        cases kd <;> simp_all [seqDistinct]
      by_cases hs : skipField kd v = true
      · simp only [hs, if_true] at hm
        obtain ⟨hfr, hk⟩ := hasFields_skipped hf hs
        obtain ⟨ih1, ih2⟩ := seq_dispatch dcfg rest vs cs (k + 1) hm hfr hdr
        rcases hk with ⟨hk, hv⟩ | hk
        · subst hk; subst hv
          have hw : windowFree t.outerTags rest = true := by simp_all [seqDistinct]
          constructor
          · cases cs with
            | nil => simp [decFields, ih1, Except.map]
            | cons c cs' =>
              have := windowFree_spec t rest c.tag hw (ih2 c cs' rfl)
              simp [decFields, this, ih1, Except.map]
          · intro c cs' h
            exact Or.inr (ih2 c cs' h)
        · subst hk
          have hw : windowFree t.outerTags rest = true := by simp_all [seqDistinct]
          constructor
          · cases cs with
            | nil => simp [decFields, ih1, Except.map]
            | cons c cs' =>
              have := windowFree_spec t rest c.tag hw (ih2 c cs' rfl)
              simp [decFields, this, ih1, Except.map]
          · intro c cs' h
            exact Or.inr (ih2 c cs' h)
      · have hs' : skipField kd v = false := by simpa using hs
        simp only [hs', Bool.false_eq_true, if_false] at hm
        obtain ⟨c, cs', rfl, ⟨htag, hdec⟩, hm'⟩ := hm
        obtain ⟨hty, hfr⟩ := hasFields_present hf hs'
        obtain ⟨ih1, _⟩ := seq_dispatch dcfg rest vs cs' (k + 1) hm' hfr hdr
        have hacc := accepts_of_tagIn htag
        constructor
        · cases kd <;> simp [decFields, hacc, hdec, ih1, Except.map]
        · intro c' cs'' h
          simp only [List.cons.injEq] at h
          obtain ⟨rfl, _⟩ := h
          cases kd
          · exact htag
          · exact Or.inl htag
          · exact Or.inl htag


/-! ### lookup by tag: SET members and CHOICE alternatives -/

theorem noneOverlap_get (tags : Option (List Tag)) : ∀ (rest : Fields) (k : Nat) (kd : FKind) (t : Ty),
    noneOverlap tags rest = true → rest.get? k = some (kd, t) → outerOverlap tags t.outerTags = false
  | .nil, _, _, _, _, hg => by simp [Fields.get?] at hg
  | .cons kd' t' rest, 0, kd, t, hn, hg => by
      simp only [Fields.get?, Option.some.injEq, Prod.mk.injEq] at hg
      simp only [noneOverlap, Bool.and_eq_true, Bool.not_eq_true'] at hn
      rw [← hg.2]; exact hn.1
  | .cons kd' t' rest, k + 1, kd, t, hn, hg => by
      simp only [Fields.get?] at hg
      simp only [noneOverlap, Bool.and_eq_true] at hn
      exact noneOverlap_get tags rest k kd t hn.2 hg

theorem member_dispatch (dcfg : DecCfg) (c : TLV) : ∀ (fs : Fields) (k j : Nat) (kd : FKind) (t : Ty),
    allDistinct fs = true → fs.get? k = some (kd, t) → TagIn t c.tag →
    decMember dcfg fs j c = (decTy dcfg t c).map (j + k, ·)
  | .nil, _, _, _, _, _, hg, _ => by simp [Fields.get?] at hg
  | .cons kd' t' rest, 0, j, kd, t, _, hg, ht => by
      simp only [Fields.get?, Option.some.injEq, Prod.mk.injEq] at hg
      obtain ⟨_, rfl⟩ := hg
      simp [decMember, accepts_of_tagIn ht]
  | .cons kd' t' rest, k + 1, j, kd, t, ha, hg, ht => by
      simp only [Fields.get?] at hg
      simp only [allDistinct, Bool.and_eq_true] at ha
      have hno := not_accepts_of_disjoint (noneOverlap_get _ rest k kd t ha.1 hg) ht
      simp only [decMember, hno, Bool.false_eq_true, if_false]
      rw [member_dispatch dcfg c rest k (j + 1) kd t ha.2 hg ht]
      have : j + 1 + k = j + (k + 1) := by omega
      rw [this]

/-- **CHOICE**: the first alternative accepting the tag is the one that was encoded -/
theorem alt_dispatch (dcfg : DecCfg) (c : TLV) : ∀ (fs : Fields) (k j : Nat) (kd : FKind) (t : Ty),
    allDistinct fs = true → fs.get? k = some (kd, t) → TagIn t c.tag →
    decAlt dcfg fs j c = (decTy dcfg t c).map (.choice (j + k))
  | .nil, _, _, _, _, _, hg, _ => by simp [Fields.get?] at hg
  | .cons kd' t' rest, 0, j, kd, t, _, hg, ht => by
      simp only [Fields.get?, Option.some.injEq, Prod.mk.injEq] at hg
      obtain ⟨_, rfl⟩ := hg
      simp [decAlt, accepts_of_tagIn ht]
  | .cons kd' t' rest, k + 1, j, kd, t, ha, hg, ht => by
      simp only [Fields.get?] at hg
      simp only [allDistinct, Bool.and_eq_true] at ha
      have hno := not_accepts_of_disjoint (noneOverlap_get _ rest k kd t ha.1 hg) ht
      simp only [decAlt, hno, Bool.false_eq_true, if_false]
      rw [alt_dispatch dcfg c rest k (j + 1) kd t ha.2 hg ht]
      have : j + 1 + k = j + (k + 1) := by omega
      rw [this]

theorem members_mono {P Q : Nat → Ty → Val → TLV → Prop} (fsAll : Fields)
    (hPQ : ∀ i kd t v c, fsAll.get? i = some (kd, t) → P i t v c → Q i t v c) :
    ∀ (suf : Fields) (vs : List Val) (cs : List TLV) (k : Nat),
      (∀ j kd t, suf.get? j = some (kd, t) → fsAll.get? (k + j) = some (kd, t)) →
      Members P k suf vs cs → Members Q k suf vs cs
  | .nil, [], _, _, _, hm => by simpa [Members] using hm
  | .nil, _ :: _, _, _, _, hm => by simp [Members] at hm
  | .cons _ _ _, [], _, _, _, hm => by simp [Members] at hm
  | .cons kd t rest, v :: vs, cs, k, hsuf, hm => by
      have hrest : ∀ j kd' t', rest.get? j = some (kd', t') → fsAll.get? (k + 1 + j) = some (kd', t') := by
        intro j kd' t' h
        have := hsuf (j + 1) kd' t' (by simpa [Fields.get?] using h)
        have e : k + 1 + j = k + (j + 1) := by omega
        rw [e]; exact this
      simp only [Members] at hm ⊢
      by_cases hs : skipField kd v = true
      · simp only [hs, if_true] at hm ⊢
        exact members_mono fsAll hPQ rest vs cs (k + 1) hrest hm
      · have hs' : skipField kd v = false := by simpa using hs
        simp only [hs', Bool.false_eq_true, if_false] at hm ⊢
        obtain ⟨c, cs', rfl, hp, hm'⟩ := hm
        refine ⟨c, cs', rfl, ?_, members_mono fsAll hPQ rest vs cs' (k + 1) hrest hm'⟩
        exact hPQ k kd t v c (by simpa [Fields.get?] using hsuf 0 kd t (by simp [Fields.get?])) hp

theorem setAt_append (pre : List Val) (x : Val) (r : List Val) (v : Val) :
    setAt (pre ++ x :: r) pre.length v = pre ++ v :: r := by
  induction pre with
  | nil => simp [setAt]
  | cons p pre ih => simp [setAt, ih]

theorem set_dispatch_aux (dcfg : DecCfg) (fsAll : Fields) :
    ∀ (suf : Fields) (vs : List Val) (cs : List TLV) (pre : List Val),
      Members (fun i _ v c => decMember dcfg fsAll 0 c = .ok (i, v)) pre.length suf vs cs →
      HasFields suf vs = true →
      decSet dcfg fsAll cs (pre ++ defaultsOf suf) = .ok (pre ++ vs)
  | .nil, [], cs, pre, hm, _ => by
      simp only [Members] at hm
      subst hm
      simp [decSet, defaultsOf]
  | .nil, _ :: _, _, _, hm, _ => by simp [Members] at hm
  | .cons _ _ _, [], _, _, hm, _ => by simp [Members] at hm
  | .cons kd t rest, v :: vs, cs, pre, hm, hf => by
      simp only [Members] at hm
      by_cases hs : skipField kd v = true
      · simp only [hs, if_true] at hm
        obtain ⟨hfr, hk⟩ := hasFields_skipped hf hs
        have hd0 : defaultsOf (.cons kd t rest) = v :: defaultsOf rest := by
          rcases hk with ⟨rfl, rfl⟩ | rfl <;> simp [defaultsOf]
        have ih := set_dispatch_aux dcfg fsAll rest vs cs (pre ++ [v]) (by simpa using hm) hfr
        rw [hd0]
        simpa using ih
      · have hs' : skipField kd v = false := by simpa using hs
        simp only [hs', Bool.false_eq_true, if_false] at hm
        obtain ⟨c, cs', rfl, hp, hm'⟩ := hm
        obtain ⟨_, hfr⟩ := hasFields_present hf hs'
        have hd0 : ∃ d0, defaultsOf (.cons kd t rest) = d0 :: defaultsOf rest := by
          cases kd <;> simp [defaultsOf]
        obtain ⟨d0, hd0⟩ := hd0
        have ih := set_dispatch_aux dcfg fsAll rest vs cs' (pre ++ [v]) (by simpa using hm') hfr
        rw [hd0]
        simp only [decSet, hp, setAt_append]
        simpa using ih

theorem allPresent_of_hasFields : ∀ (fs : Fields) (vs : List Val), HasFields fs vs = true →
    allPresent fs vs = true
  | .nil, _, _ => by simp [allPresent]
  | .cons _ _ _, [], h => by simp [HasFields] at h
  | .cons kd t rest, v :: vs, h => by
      by_cases hs : skipField kd v = true
      · obtain ⟨hfr, hk⟩ := hasFields_skipped h hs
        have ih := allPresent_of_hasFields rest vs hfr
        rcases hk with ⟨rfl, rfl⟩ | rfl
        · simp [allPresent, ih]
        · cases v <;> simp [allPresent, ih]
      · have hs' : skipField kd v = false := by simpa using hs
        obtain ⟨hty, hfr⟩ := hasFields_present h hs'
        have ih := allPresent_of_hasFields rest vs hfr
        have hv : v ≠ .absent := by
          intro he; subst he; rw [HasType_ne_absent] at hty; exact absurd hty (by simp)
        cases kd <;> cases v <;> simp_all [allPresent]

/-- **SET**: lookup by tag recovers every member, whatever the order of declaration -/
theorem set_dispatch (dcfg : DecCfg) (fs : Fields) (vs : List Val) (cs : List TLV)
    (hm : Members (ElemOk dcfg) 0 fs vs cs) (hf : HasFields fs vs = true) (hd : allDistinct fs = true) :
    decSet dcfg fs cs (defaultsOf fs) = .ok vs ∧ allPresent fs vs = true := by
  have hm' : Members (fun i _ v c => decMember dcfg fs 0 c = .ok (i, v)) 0 fs vs cs := by
    refine members_mono fs ?_ fs vs cs 0 (by intro j kd t h; simpa using h) hm
    intro i kd t v c hg ⟨htag, hdec⟩
    rw [member_dispatch dcfg c fs i 0 kd t hd hg htag, hdec]
    simp [Except.map]
  have := set_dispatch_aux dcfg fs fs vs cs [] (by simpa using hm') hf
  exact ⟨by simpa using this, allPresent_of_hasFields fs vs hf⟩

end Asn1
