/-
  Proofs.Prefix — truncation: every proper prefix of a well-formed element parses to `underrun`,
  never to a value and never to `malformed` (the syntactic core of C06).
-/
import Proofs.Parse

namespace Asn1

/-! ### the header decoders only ever fail with `underrun`, and success is stable under extension -/

theorem decodeTagNum_mono (acc : Nat) (bs s : Bytes) (n : Nat) (r : Bytes)
    (h : decodeTagNum acc bs = .ok (n, r)) : decodeTagNum acc (bs ++ s) = .ok (n, r ++ s) := by
  induction bs generalizing acc with
  | nil => simp [decodeTagNum] at h
  | cons b rest ih =>
    simp only [List.cons_append, decodeTagNum] at h ⊢
    by_cases hb : b.toNat < 128
    · simp only [hb, if_true] at h ⊢
      simp only [Except.ok.injEq, Prod.mk.injEq] at h
      obtain ⟨rfl, rfl⟩ := h
      rfl
    · simp only [hb, if_false] at h ⊢
      exact ih _ h

theorem decodeTagNum_err (acc : Nat) (bs : Bytes) (e : Err)
    (h : decodeTagNum acc bs = .error e) : e = .underrun := by
  induction bs generalizing acc with
  | nil => simp [decodeTagNum] at h; exact h.symm
  | cons b rest ih =>
    simp only [decodeTagNum] at h
    by_cases hb : b.toNat < 128
    · simp [hb] at h
    · simp only [hb, if_false] at h
      exact ih _ h

theorem decodeTag_mono (bs s : Bytes) (t : Tag) (r : Bytes)
    (h : decodeTag bs = .ok (t, r)) : decodeTag (bs ++ s) = .ok (t, r ++ s) := by
  cases bs with
  | nil => simp [decodeTag] at h
  | cons b rest =>
    simp only [List.cons_append, decodeTag] at h ⊢
    by_cases h31 : b.toNat % 32 = 31
    · simp only [h31, if_true] at h ⊢
      cases hn : decodeTagNum 0 rest with
      | error e => rw [hn] at h; simp at h
      | ok p =>
        obtain ⟨num, r'⟩ := p
        rw [hn] at h
        rw [decodeTagNum_mono 0 rest s num r' hn]
        simp only [Except.ok.injEq, Prod.mk.injEq] at h ⊢
        obtain ⟨rfl, rfl⟩ := h
        exact ⟨rfl, rfl⟩
    · simp only [h31, if_false] at h ⊢
      simp only [Except.ok.injEq, Prod.mk.injEq] at h ⊢
      obtain ⟨rfl, rfl⟩ := h
      exact ⟨rfl, rfl⟩

theorem decodeTag_err (bs : Bytes) (e : Err) (h : decodeTag bs = .error e) : e = .underrun := by
  cases bs with
  | nil => simp [decodeTag] at h; exact h.symm
  | cons b rest =>
    simp only [decodeTag] at h
    by_cases h31 : b.toNat % 32 = 31
    · simp only [h31, if_true] at h
      cases hn : decodeTagNum 0 rest with
      | error e' =>
        rw [hn] at h
        simp at h; subst h
        exact decodeTagNum_err 0 rest e' hn
      | ok p => rw [hn] at h; simp at h
    · simp [h31] at h

theorem decodeLength_mono (bs s : Bytes) (l : Len) (r : Bytes)
    (h : decodeLength bs = .ok (l, r)) : decodeLength (bs ++ s) = .ok (l, r ++ s) := by
  cases bs with
  | nil => simp [decodeLength] at h
  | cons b rest =>
    simp only [List.cons_append, decodeLength] at h ⊢
    by_cases h1 : b.toNat < 128
    · simp only [h1, if_true] at h ⊢
      simp only [Except.ok.injEq, Prod.mk.injEq] at h ⊢
      obtain ⟨rfl, rfl⟩ := h; exact ⟨rfl, rfl⟩
    · simp only [h1, if_false] at h ⊢
      by_cases h2 : b.toNat = 128
      · simp only [h2, if_true] at h ⊢
        simp only [Except.ok.injEq, Prod.mk.injEq] at h ⊢
        obtain ⟨rfl, rfl⟩ := h; exact ⟨rfl, rfl⟩
      · simp only [h2, if_false] at h ⊢
        by_cases h3 : b.toNat % 128 ≤ rest.length
        · have h3' : b.toNat % 128 ≤ (rest ++ s).length := by simp; omega
          simp only [h3, h3', if_true] at h ⊢
          simp only [Except.ok.injEq, Prod.mk.injEq] at h ⊢
          obtain ⟨rfl, rfl⟩ := h
          constructor
          · rw [List.take_append_of_le_length h3]
          · rw [List.drop_append_of_le_length h3]
        · simp [h3] at h

theorem decodeLength_err (bs : Bytes) (e : Err) (h : decodeLength bs = .error e) :
    e = .underrun := by
  cases bs with
  | nil => simp [decodeLength] at h; exact h.symm
  | cons b rest =>
    simp only [decodeLength] at h
    by_cases h1 : b.toNat < 128
    · simp [h1] at h
    · by_cases h2 : b.toNat = 128
      · simp [h2] at h
      · by_cases h3 : b.toNat % 128 ≤ rest.length
        · simp [h1, h2, h3] at h
        · simp [h1, h2, h3] at h; exact h.symm

/-- a proper prefix of an identifier does not decode -/
theorem decodeTag_take (tb : Bytes) (tag : Tag) (ht : ∀ r, decodeTag (tb ++ r) = .ok (tag, r))
    (j : Nat) (hj : j < tb.length) : decodeTag (tb.take j) = .error .underrun := by
  cases hd : decodeTag (tb.take j) with
  | error e => rw [decodeTag_err _ e hd]
  | ok p =>
    obtain ⟨t, r'⟩ := p
    have h1 := decodeTag_mono _ (tb.drop j) t r' hd
    rw [List.take_append_drop] at h1
    have h2 := ht []
    rw [List.append_nil] at h2
    rw [h2] at h1
    simp only [Except.ok.injEq, Prod.mk.injEq] at h1
    have : (r' ++ tb.drop j).length = 0 := by rw [← h1.2]; rfl
    simp at this
    omega

theorem decodeLength_take (lb : Bytes) (len : Len) (hl : ∀ r, decodeLength (lb ++ r) = .ok (len, r))
    (j : Nat) (hj : j < lb.length) : decodeLength (lb.take j) = .error .underrun := by
  cases hd : decodeLength (lb.take j) with
  | error e => rw [decodeLength_err _ e hd]
  | ok p =>
    obtain ⟨t, r'⟩ := p
    have h1 := decodeLength_mono _ (lb.drop j) t r' hd
    rw [List.take_append_drop] at h1
    have h2 := hl []
    rw [List.append_nil] at h2
    rw [h2] at h1
    simp only [Except.ok.injEq, Prod.mk.injEq] at h1
    have : (r' ++ lb.drop j).length = 0 := by rw [← h1.2]; rfl
    simp at this
    omega

theorem parse_tag_err (cfg : ParseCfg) (f : Nat) (bs : Bytes) (e : Err)
    (h : decodeTag bs = .error e) : parse cfg (f + 1) bs = .error e := by
  rw [parse, h]

theorem parse_len_err (cfg : ParseCfg) (f : Nat) (bs : Bytes) (tag : Tag) (r1 : Bytes) (e : Err)
    (h1 : decodeTag bs = .ok (tag, r1)) (h2 : decodeLength r1 = .error e) :
    parse cfg (f + 1) bs = .error e := by
  rw [parse, h1]; simp only [h2]

theorem parse_short_step (cfg : ParseCfg) (f : Nat) (bs : Bytes) (tag : Tag) (n : Nat) (r1 r2 : Bytes)
    (h1 : decodeTag bs = .ok (tag, r1)) (h2 : decodeLength r1 = .ok (.definite n, r2))
    (hn : ¬ n ≤ r2.length) : parse cfg (f + 1) bs = .error .underrun := by
  rw [parse, h1]; simp only [h2, hn]; simp

theorem parse_indef_err_step (cfg : ParseCfg) (f : Nat) (bs : Bytes) (tag : Tag) (r1 r2 : Bytes)
    (e : Err)
    (h1 : decodeTag bs = .ok (tag, r1)) (h2 : decodeLength r1 = .ok (.indefinite, r2))
    (hi : cfg.allowIndef = true) (hc : tag.constructed = true)
    (hall : parseUntilEoo cfg f r2 = .error e) : parse cfg (f + 1) bs = .error e := by
  rw [parse, h1]; simp only [h2, hi, hc, hall]; simp

/-- header of a truncated element: either the cut is inside the header (underrun), or the header
    is read completely and the remainder is the cut contents -/
theorem header_take {h : Bytes} {tag : Tag} {len : Len} (hk : HdrOk h tag len) (body : Bytes)
    (k : Nat) :
    (k < h.length ∧ ∀ cfg f, parse cfg (f + 1) ((h ++ body).take k) = .error .underrun) ∨
    (h.length ≤ k ∧ ∃ r1, decodeTag ((h ++ body).take k) = .ok (tag, r1) ∧
        decodeLength r1 = .ok (len, body.take (k - h.length))) := by
  obtain ⟨tb, lb, rfl, ht, hl⟩ := hk
  by_cases hk1 : k < tb.length
  · left
    refine ⟨by simp; omega, fun cfg f => ?_⟩
    have : (tb ++ lb ++ body).take k = tb.take k := by
      rw [List.append_assoc, List.take_append_of_le_length (by omega)]
    rw [this]
    exact parse_tag_err cfg f _ _ (decodeTag_take tb tag ht k hk1)
  · by_cases hk2 : k < (tb ++ lb).length
    · left
      refine ⟨hk2, fun cfg f => ?_⟩
      have e1 : (tb ++ lb ++ body).take k = tb ++ lb.take (k - tb.length) := by
        rw [List.take_append_of_le_length (by omega)]
        rw [List.take_append]
        rw [List.take_of_length_le (by omega)]
      rw [e1]
      refine parse_len_err cfg f _ tag _ _ (ht _) ?_
      exact decodeLength_take lb len hl _ (by simp at hk2; omega)
    · right
      refine ⟨by omega, lb ++ body.take (k - (tb ++ lb).length), ?_, hl _⟩
      · have e1 : (tb ++ lb ++ body).take k = tb ++ (lb ++ body.take (k - (tb ++ lb).length)) := by
          rw [List.take_append]
          rw [List.take_of_length_le (by omega)]
          simp
        rw [e1]; exact ht _

mutual
/-- **truncation**: every proper prefix of a well-formed element is an underrun -/
theorem parse_take (cfg : ParseCfg) : ∀ (t : TLV) (f k : Nat),
    t.WF → t.okFor cfg → t.ser.length ≤ f → k < t.ser.length →
    parse cfg f (t.ser.take k) = .error .underrun
  | .prim h tag c, f, k, hw, _, hf, hk => by
      obtain ⟨hh, hc⟩ := hw
      have hlen := hh.length_ge
      obtain ⟨f', rfl⟩ : ∃ f', f = f' + 1 := ⟨f - 1, by simp [TLV.ser] at hf; omega⟩
      simp only [TLV.ser] at hk ⊢
      rcases header_take hh c k with ⟨_, hu⟩ | ⟨hge, r1, h1, h2⟩
      · exact hu cfg f'
      · refine parse_short_step cfg f' _ tag c.length r1 _ h1 h2 ?_
        simp at hk ⊢; omega
  | .cons h tag false cs, f, k, hw, _, hf, hk => by
      obtain ⟨hh, hc, _⟩ := hw
      have hlen := hh.length_ge
      obtain ⟨f', rfl⟩ : ∃ f', f = f' + 1 := ⟨f - 1, by simp [TLV.ser] at hf; omega⟩
      simp only [TLV.ser, List.append_nil, Bool.false_eq_true, if_false] at hk ⊢
      rcases header_take hh (serList cs) k with ⟨_, hu⟩ | ⟨hge, r1, h1, h2⟩
      · exact hu cfg f'
      · refine parse_short_step cfg f' _ tag (serList cs).length r1 _ h1 h2 ?_
        simp at hk ⊢; omega
  | .cons h tag true cs, f, k, hw, ho, hf, hk => by
      obtain ⟨hh, hc, hws, hne⟩ := hw
      have hlen := hh.length_ge
      obtain ⟨f', rfl⟩ : ∃ f', f = f' + 1 := ⟨f - 1, by simp [TLV.ser] at hf; omega⟩
      have hi : cfg.allowIndef = true := by
        rcases ho with ho | ho
        · exact ho
        · simp [TLV.allDef] at ho
      simp only [TLV.ser, if_true] at hk ⊢
      rcases header_take hh (serList cs ++ eooBytes) k with ⟨_, hu⟩ | ⟨hge, r1, h1, h2⟩
      · exact hu cfg f'
      · refine parse_indef_err_step cfg f' _ tag r1 _ _ h1 h2 hi hc ?_
        exact parseUntil_take cfg cs f' (k - h.length) hws hne (Or.inl hi)
          (by simp [TLV.ser, eooBytes] at hf; omega) (by simp [eooBytes] at hk ⊢; omega)
theorem parseUntil_take (cfg : ParseCfg) : ∀ (cs : List TLV) (f m : Nat),
    WFs cs → NoEooL cs → okForL cfg cs → (serList cs).length + 1 ≤ f →
    m < (serList cs).length + 2 →
    parseUntilEoo cfg f ((serList cs ++ eooBytes).take m) = .error .underrun
  | [], f, m, _, _, _, hf, hm => by
      obtain ⟨f', rfl⟩ : ∃ f', f = f' + 1 := ⟨f - 1, by omega⟩
      simp only [serList, List.nil_append, eooBytes, List.length_nil] at hm ⊢
      have : m = 0 ∨ m = 1 := by omega
      rcases this with rfl | rfl <;> simp [parseUntilEoo]
  | c :: cs, f, m, hw, hne, ho, hf, hm => by
      obtain ⟨hwc, hwcs⟩ := hw
      obtain ⟨hnc, hncs⟩ := hne
      obtain ⟨f', rfl⟩ : ∃ f', f = f' + 1 := ⟨f - 1, by omega⟩
      have h2 := c.ser_length_ge hwc
      have hoc : c.okFor cfg := by
        rcases ho with ho | ho
        · exact Or.inl ho
        · right; simp [allDefL] at ho; exact ho.1
      have hocs : okForL cfg cs := by
        rcases ho with ho | ho
        · exact Or.inl ho
        · right; simp [allDefL] at ho; exact ho.2
      obtain ⟨a, b, rest, hx⟩ : ∃ a b rest, c.ser = a :: b :: rest := by
        cases hs : c.ser with
        | nil => rw [hs] at h2; simp at h2
        | cons a t1 =>
          cases t1 with
          | nil => rw [hs] at h2; simp at h2
          | cons b rest => exact ⟨a, b, rest, rfl⟩
      have hab : ¬ (a = 0 ∧ b = 0) := by
        rintro ⟨rfl, rfl⟩
        exact hnc rest hx
      simp only [serList, List.append_assoc] at hf hm ⊢
      by_cases hm2 : m < 2
      · have : m = 0 ∨ m = 1 := by omega
        rw [hx]
        rcases this with rfl | rfl <;> simp [parseUntilEoo]
      · -- at least the first two octets of `c` are visible
        have hshape : (c.ser ++ (serList cs ++ eooBytes)).take m
            = a :: b :: (rest ++ (serList cs ++ eooBytes)).take (m - 2) := by
          rw [hx]
          obtain ⟨m', rfl⟩ : ∃ m', m = m' + 2 := ⟨m - 2, by omega⟩
          simp
        rw [hshape, parseUntilEoo]
        simp only [hab, if_false]
        rw [← hshape]
        by_cases hmc : m < c.ser.length
        · have e : (c.ser ++ (serList cs ++ eooBytes)).take m = c.ser.take m := by
            rw [List.take_append_of_le_length (by omega)]
          rw [e, parse_take cfg c f' m hwc hoc (by simp at hf; omega) hmc]
        · have e : (c.ser ++ (serList cs ++ eooBytes)).take m
              = c.ser ++ (serList cs ++ eooBytes).take (m - c.ser.length) := by
            rw [List.take_append]
            rw [List.take_of_length_le (by omega)]
          rw [e, parse_ser cfg c f' _ hwc hoc (by simp at hf; omega)]
          simp only
          rw [parseUntil_take cfg cs f' (m - c.ser.length) hwcs hncs hocs
            (by simp at hf; omega) (by simp at hm; omega)]
end

end Asn1
