/-
  Proofs.EncSpec — what the encoders write is an encoding in the sense of the rules (`IsBer`):
  BER in every mode, CER and DER under their canonical profiles.  Together with `Proofs.Complete`
  (every `IsBer` tree decodes to the value) this gives the round trips of C01/C02 for every pair
  (encoder, decoder).
-/
import Asn1.BerSpec
import Proofs.RoundTrip

namespace Asn1

/-! ### the spec relation in tag-list normal form -/

/-- `IsBer`/`IsBody` by tag list (outermost first), as `decG` for the decoder -/
def BerG (pf : Profile) (base : Ty) (v : Val) : Bool → List Tag → TLV → Prop
  | chk, [], x => if chk then IsBer pf base v x else IsBody pf base v x
  | chk, [b], x => (chk = true → sameTag x.tag b = true) ∧ IsBody pf base v x
  | chk, o :: _ :: _, .prim _ _ _ => False
  | chk, o :: o' :: rest, .cons _ tg _ cs =>
    match cs with
    | [c] => (chk = true → sameTag tg o = true) ∧ BerG pf base v true (o' :: rest) c
    | _ => False

theorem berG_head (pf : Profile) (base : Ty) (v : Val) (a a' : Tag) (rest : List Tag) (x : TLV)
    (h : BerG pf base v true (a :: rest) x) :
    sameTag x.tag a = true ∧ BerG pf base v false (a' :: rest) x := by
  cases rest with
  | nil => simp only [BerG] at h ⊢; exact ⟨h.1 trivial, by simp, h.2⟩
  | cons o' rest' =>
    cases x with
    | prim hd tg c => simp [BerG] at h
    | cons hd tg i cs =>
      match cs, h with
      | [], h => simp [BerG] at h
      | [c], h => simp only [BerG] at h ⊢; exact ⟨h.1 trivial, by simp, h.2⟩
      | _ :: _ :: _, h => simp [BerG] at h

theorem berG_head' (pf : Profile) (base : Ty) (v : Val) (a a' : Tag) (rest : List Tag) (x : TLV)
    (h : BerG pf base v false (a :: rest) x) : BerG pf base v false (a' :: rest) x := by
  cases rest with
  | nil => simp only [BerG] at h ⊢; exact ⟨by simp, h.2⟩
  | cons o' rest' =>
    cases x with
    | prim hd tg c => simp [BerG] at h
    | cons hd tg i cs =>
      match cs, h with
      | [], h => simp [BerG] at h
      | [c], h => simp only [BerG] at h ⊢; exact ⟨by simp, h.2⟩
      | _ :: _ :: _, h => simp [BerG] at h

theorem sameTag_iff (a b : Tag) : sameTag a b = true ↔ a.cls = b.cls ∧ a.num = b.num := by
  simp [sameTag]

theorem untagged_choice (t : Ty) (ha : isAnyBase t = false) (ht : t.tags = []) : ∃ fs, t = .choice fs := by
  cases t with
  | choice fs => exact ⟨fs, rfl⟩
  | any => simp [isAnyBase] at ha
  | prim _ => simp [Ty.tags] at ht
  | seq _ => simp [Ty.tags] at ht
  | seqOf _ => simp [Ty.tags] at ht
  | set _ => simp [Ty.tags] at ht
  | setOf _ => simp [Ty.tags] at ht
  | tagged e c n t' =>
    exfalso
    cases e with
    | true => simp [Ty.tags] at ht
    | false =>
      simp only [Ty.tags] at ht
      rcases List.eq_nil_or_concat t'.tags with hn | ⟨init, last, hl⟩
      · rw [hn, tagImplicitly_nil] at ht; simp at ht
      · rw [hl, List.concat_eq_append, tagImplicitly_concat] at ht; simp at ht

mutual
theorem isBer_of_G (pf : Profile) : ∀ (t : Ty) (v : Val) (x : TLV), isAnyBase t = false →
    BerG pf t.base v true t.tags.reverse x → IsBer pf t v x
  | .prim p, v, x, _, h => by
      simp only [Ty.tags, Ty.base, List.reverse_cons, List.reverse_nil, List.nil_append, BerG] at h
      have := (sameTag_iff _ _).mp (h.1 trivial)
      exact .prim this.1 this.2 h.2
  | .seq fs, v, x, _, h => by
      simp only [Ty.tags, Ty.base, List.reverse_cons, List.reverse_nil, List.nil_append, BerG] at h
      have := (sameTag_iff _ _).mp (h.1 trivial)
      exact .seq this.1 this.2 h.2
  | .seqOf t, v, x, _, h => by
      simp only [Ty.tags, Ty.base, List.reverse_cons, List.reverse_nil, List.nil_append, BerG] at h
      have := (sameTag_iff _ _).mp (h.1 trivial)
      exact .seqOf this.1 this.2 h.2
  | .set fs, v, x, _, h => by
      simp only [Ty.tags, Ty.base, List.reverse_cons, List.reverse_nil, List.nil_append, BerG] at h
      have := (sameTag_iff _ _).mp (h.1 trivial)
      exact .set this.1 this.2 h.2
  | .setOf t, v, x, _, h => by
      simp only [Ty.tags, Ty.base, List.reverse_cons, List.reverse_nil, List.nil_append, BerG] at h
      have := (sameTag_iff _ _).mp (h.1 trivial)
      exact .setOf this.1 this.2 h.2
  | .choice fs, v, x, _, h => by
      simpa [Ty.tags, Ty.base, BerG] using h
  | .any, _, _, ha, _ => by simp [isAnyBase] at ha
  | .tagged true cls num t, v, x, ha, h => by
      have ha' : isAnyBase t = false := by simpa [isAnyBase] using ha
      simp only [Ty.tags, Ty.base, List.reverse_append, List.reverse_cons, List.reverse_nil,
        List.nil_append, List.singleton_append] at h
      cases hr : t.tags.reverse with
      | nil =>
        have htags : t.tags = [] := by simpa using congrArg List.reverse hr
        obtain ⟨fs, rfl⟩ := untagged_choice t ha' htags
        rw [hr] at h
        simp only [BerG, Ty.base] at h
        obtain ⟨hs, hb⟩ := h
        have hs' := (sameTag_iff _ _).mp (hs trivial)
        cases hb with
        | @choice _ i w hh tg ind c hal =>
          exact .explicit hs'.1 hs'.2 (.choice hal)
      | cons o rest =>
        rw [hr] at h
        cases x with
        | prim hd tg c => simp [BerG] at h
        | cons hd tg i cs =>
          match cs, h with
          | [], h => simp [BerG] at h
          | _ :: _ :: _, h => simp [BerG] at h
          | [c], h =>
            simp only [BerG] at h
            have hs' := (sameTag_iff _ _).mp (h.1 trivial)
            exact .explicit hs'.1 hs'.2 (isBer_of_G pf t v c ha' (by rw [hr]; exact h.2))
  | .tagged false cls num t, v, x, ha, h => by
      have ha' : isAnyBase t = false := by simpa [isAnyBase] using ha
      simp only [Ty.tags, Ty.base] at h
      cases hr : t.tags.reverse with
      | nil =>
        have htags : t.tags = [] := by simpa using congrArg List.reverse hr
        rw [htags, tagImplicitly_reverse_nil] at h
        simp only [BerG] at h
        have hs' := (sameTag_iff _ _).mp (h.1 trivial)
        exact .implicit hs'.1 hs'.2 (isBody_of_G pf t v x ha' (by rw [hr]; simpa [BerG] using h.2))
      | cons o rest =>
        rw [tagImplicitly_reverse_cons _ o rest cls false num hr] at h
        obtain ⟨hs, hb⟩ := berG_head pf t.base v _ o rest x h
        have hs' := (sameTag_iff _ _).mp hs
        exact .implicit hs'.1 hs'.2 (isBody_of_G pf t v x ha' (by rw [hr]; exact hb))
theorem isBody_of_G (pf : Profile) : ∀ (t : Ty) (v : Val) (x : TLV), isAnyBase t = false →
    BerG pf t.base v false t.tags.reverse x → IsBody pf t v x
  | .prim p, v, x, _, h => by
      simp only [Ty.tags, Ty.base, List.reverse_cons, List.reverse_nil, List.nil_append, BerG] at h
      exact h.2
  | .seq fs, v, x, _, h => by
      simp only [Ty.tags, Ty.base, List.reverse_cons, List.reverse_nil, List.nil_append, BerG] at h
      exact h.2
  | .seqOf t, v, x, _, h => by
      simp only [Ty.tags, Ty.base, List.reverse_cons, List.reverse_nil, List.nil_append, BerG] at h
      exact h.2
  | .set fs, v, x, _, h => by
      simp only [Ty.tags, Ty.base, List.reverse_cons, List.reverse_nil, List.nil_append, BerG] at h
      exact h.2
  | .setOf t, v, x, _, h => by
      simp only [Ty.tags, Ty.base, List.reverse_cons, List.reverse_nil, List.nil_append, BerG] at h
      exact h.2
  | .choice fs, v, x, _, h => by
      simpa [Ty.tags, Ty.base, BerG] using h
  | .any, _, _, ha, _ => by simp [isAnyBase] at ha
  | .tagged true cls num t, v, x, ha, h => by
      have ha' : isAnyBase t = false := by simpa [isAnyBase] using ha
      simp only [Ty.tags, Ty.base, List.reverse_append, List.reverse_cons, List.reverse_nil,
        List.nil_append, List.singleton_append] at h
      cases hr : t.tags.reverse with
      | nil =>
        have htags : t.tags = [] := by simpa using congrArg List.reverse hr
        obtain ⟨fs, rfl⟩ := untagged_choice t ha' htags
        rw [hr] at h
        simp only [BerG, Ty.base] at h
        cases h.2 with
        | @choice _ i w hh tg ind c hal => exact .explicit (.choice hal)
      | cons o rest =>
        rw [hr] at h
        cases x with
        | prim hd tg c => simp [BerG] at h
        | cons hd tg i cs =>
          match cs, h with
          | [], h => simp [BerG] at h
          | _ :: _ :: _, h => simp [BerG] at h
          | [c], h =>
            simp only [BerG] at h
            exact .explicit (isBer_of_G pf t v c ha' (by rw [hr]; exact h.2))
  | .tagged false cls num t, v, x, ha, h => by
      have ha' : isAnyBase t = false := by simpa [isAnyBase] using ha
      simp only [Ty.tags, Ty.base] at h
      cases hr : t.tags.reverse with
      | nil =>
        have htags : t.tags = [] := by simpa using congrArg List.reverse hr
        rw [htags, tagImplicitly_reverse_nil] at h
        simp only [BerG] at h
        exact .implicit (isBody_of_G pf t v x ha' (by rw [hr]; simpa [BerG] using h.2))
      | cons o rest =>
        rw [tagImplicitly_reverse_cons _ o rest cls false num hr] at h
        exact .implicit (isBody_of_G pf t v x ha' (by rw [hr]; exact berG_head' pf t.base v _ o rest x h))
end


/-! ### the header loop produces the nesting `BerG` asks for -/

theorem wrapRest_berG (pf : Profile) (base : Ty) (v : Val) (dm : Bool) :
    ∀ (ts : List Tag) (y x : TLV), wrapRest dm ts y = .ok x → ∀ (i0 : Tag) (inner : List Tag),
      BerG pf base v true (i0 :: inner) y → BerG pf base v true (ts.reverse ++ i0 :: inner) x
  | [], y, x, h, i0, inner, hb => by
      simp only [wrapRest, Except.ok.injEq] at h
      subst h; simpa using hb
  | t :: ts, y, x, h, i0, inner, hb => by
      simp only [wrapRest] at h
      cases hy : consNode t (!dm) [y] with
      | error e => rw [hy] at h; simp at h
      | ok y' =>
        rw [hy] at h
        simp only at h
        obtain ⟨_, hd, hshape⟩ := consNode_tag t (!dm) [y] y' hy
        have := wrapRest_berG pf base v dm ts y' x h t (i0 :: inner) (by
          rw [hshape]; simp only [BerG]; exact ⟨fun _ => sameTag_wire t true, hb⟩)
        simpa [List.reverse_cons, List.append_assoc] using this

theorem wrapRest_lenForm (dm : Bool) : ∀ (ts : List Tag) (y x : TLV), wrapRest dm ts y = .ok x →
    y.lenForm dm = true → x.lenForm dm = true
  | [], y, x, h, hy => by
      simp only [wrapRest, Except.ok.injEq] at h; subst h; exact hy
  | t :: ts, y, x, h, hy => by
      simp only [wrapRest] at h
      cases hn : consNode t (!dm) [y] with
      | error e => rw [hn] at h; simp at h
      | ok y' =>
        rw [hn] at h
        simp only at h
        obtain ⟨_, hd, hshape⟩ := consNode_tag t (!dm) [y] y' hn
        exact wrapRest_lenForm dm ts y' x h (by rw [hshape]; simp [TLV.lenForm, lenFormL, hy])

theorem WFs_iff : ∀ (cs : List TLV), WFs cs ↔ ∀ c ∈ cs, c.WF
  | [] => by simp [WFs]
  | c :: cs => by simp [WFs, WFs_iff cs]

theorem NoEooL_iff : ∀ (cs : List TLV), NoEooL cs ↔ ∀ c ∈ cs, NotEoo c.ser
  | [] => by simp [NoEooL]
  | c :: cs => by simp [NoEooL, NoEooL_iff cs]

theorem allDefL_iff : ∀ (cs : List TLV), allDefL cs = true ↔ ∀ c ∈ cs, c.allDef = true
  | [] => by simp [allDefL]
  | c :: cs => by simp [allDefL, allDefL_iff cs]
theorem lenFormL_iff (dm : Bool) : ∀ (cs : List TLV), lenFormL dm cs = true ↔ ∀ c ∈ cs, c.lenForm dm = true
  | [] => by simp [lenFormL]
  | c :: cs => by simp [lenFormL, lenFormL_iff dm cs]

theorem serList_ne_nil (cs : List TLV) (hw : WFs cs) (hne : cs ≠ []) : (serList cs).isEmpty = false := by
  cases cs with
  | nil => exact absurd rfl hne
  | cons c cs =>
    have := TLV.ser_length_ge c hw.1
    rw [serList_cons]
    cases hc : c.ser with
    | nil => rw [hc] at this; simp at this
    | cons _ _ => simp

/-! ### the region: what is excluded, and why -/

mutual
/-- the constructed contents of the value come out empty (given that empty OPTIONAL members are
    omitted when `om`) -/
def emptyC (om : Bool) : Ty → Val → Bool
  | .tagged _ _ _ t, v => emptyC om t v
  | .seqOf _, .seqOf vs => vs.isEmpty
  | .setOf _, .seqOf vs => vs.isEmpty
  | .seq fs, .seq vs => emptyF om fs vs
  | .set fs, .seq vs => emptyF om fs vs
  | .choice fs, .choice i v => emptyAlt om fs i v
  | _, _ => false
def emptyF (om : Bool) : Fields → List Val → Bool
  | .cons k t r, v :: vs => (skipField k v || (om && k.isOpt && emptyC om t v)) && emptyF om r vs
  | _, _ => true
def emptyAlt (om : Bool) : Fields → Nat → Val → Bool
  | .nil, _, _ => false
  | .cons _ t _, 0, v => emptyC om t v
  | .cons _ _ r, i + 1, v => emptyAlt om r i v
end

mutual
/-- finding E3 does not apply anywhere in the value: no OPTIONAL member is present with empty
    constructed contents (CER/DER leave such a member out, which is not an X.690 rule) -/
def noE3 (om : Bool) : Ty → Val → Bool
  | .tagged _ _ _ t, v => noE3 om t v
  | .seqOf t, .seqOf vs => vs.all (fun v => noE3 om t v)
  | .setOf t, .seqOf vs => vs.all (fun v => noE3 om t v)
  | .seq fs, .seq vs => noE3F om fs vs
  | .set fs, .seq vs => noE3F om fs vs
  | .choice fs, .choice i v => noE3Alt om fs i v
  | _, _ => true
def noE3F (om : Bool) : Fields → List Val → Bool
  | .cons k t r, v :: vs =>
    (skipField k v || (!(om && k.isOpt && emptyC om t v) && noE3 om t v)) && noE3F om r vs
  | _, _ => true
def noE3Alt (om : Bool) : Fields → Nat → Val → Bool
  | .nil, _, _ => true
  | .cons _ t _, 0, v => noE3 om t v
  | .cons _ _ r, i + 1, v => noE3Alt om r i v
end

mutual
/-- when empty OPTIONAL members are not omitted (BER), finding E3 applies to nothing -/
theorem noE3_false : ∀ (t : Ty) (v : Val), noE3 false t v = true
  | .tagged _ _ _ t, v => by simp only [noE3]; exact noE3_false t v
  | .prim _, v => by cases v <;> simp [noE3]
  | .any, v => by cases v <;> simp [noE3]
  | .seq fs, v => by
      cases v <;> simp [noE3]
      case seq vs => exact noE3F_false fs vs
  | .set fs, v => by
      cases v <;> simp [noE3]
      case seq vs => exact noE3F_false fs vs
  | .seqOf t, v => by
      cases v <;> simp [noE3]
      case seqOf vs => intro x _; exact noE3_false t x
  | .setOf t, v => by
      cases v <;> simp [noE3]
      case seqOf vs => intro x _; exact noE3_false t x
  | .choice fs, v => by
      cases v <;> simp [noE3]
      case choice i w => exact noE3Alt_false fs i w
theorem noE3F_false : ∀ (fs : Fields) (vs : List Val), noE3F false fs vs = true
  | .nil, _ => by simp [noE3F]
  | .cons _ _ _, [] => by simp [noE3F]
  | .cons k t r, v :: vs => by
      simp only [noE3F, Bool.false_and, Bool.not_false, Bool.true_and, noE3_false t v, Bool.or_true,
        noE3F_false r vs, Bool.and_self]
theorem noE3Alt_false : ∀ (fs : Fields) (i : Nat) (v : Val), noE3Alt false fs i v = true
  | .nil, _, _ => by simp [noE3Alt]
  | .cons _ t _, 0, v => by simp only [noE3Alt]; exact noE3_false t v
  | .cons _ _ r, i + 1, v => by simp only [noE3Alt]; exact noE3Alt_false r i v
end

structure EncRegion (cfg : EncCfg) (pf : Profile) (mc : Nat) : Prop where
  boolT : if pf.anyTrue then UInt8.ofNat cfg.boolTrue ≠ 0 else UInt8.ofNat cfg.boolTrue = 0xFF
  chunk : mc = 0 ∨ pf.segmented = true
  setOmit : cfg.setOrder = .declared ∨ cfg.seqOmitEmpty = true

/-- one encoded item is the serialisation of a well-formed element that is an encoding of the
    value in the sense of the rules -/
def GoodS (pf : Profile) (dm : Bool) (t : Ty) (v : Val) (b : Bytes) : Prop :=
  ∃ x : TLV, b = x.ser ∧ x.WF ∧ NotEoo x.ser ∧ x.lenForm dm = true ∧ IsBer pf t v x

def ContentS (cfg : EncCfg) (pf : Profile) (dm om : Bool) (t : Ty) (v : Val) (sub : Bytes)
    (ic : Bool) : Prop :=
  (ic = false → (∃ p, t.base = .prim p) ∧ ∀ hd tg, IsBody pf t.base v (.prim hd tg sub)) ∧
  (ic = true → supportsIndef cfg t.base = true ∧
      ∃ cs, sub = serList cs ∧ WFs cs ∧ NoEooL cs ∧ lenFormL dm cs = true ∧
        (∀ hd tg indef, IsBody pf t.base v (.cons hd tg indef cs)) ∧
        (t.tags = [] → ∃ x, cs = [x] ∧ IsBer pf t v x) ∧
        (emptyC om t v = false → cs ≠ []))

theorem item_of_contentS (cfg : EncCfg) (pf : Profile) (dm om : Bool) (mc : Nat) (f : Bool)
    (t : Ty) (hreg : t.reg true cfg dm = true) (hwf : t.WF = true) (v : Val) (sub : Bytes)
    (ic : Bool) (b : Bytes) (hE : f = true → emptyC om t v = false)
    (hc : ContentS cfg pf dm om t v sub ic)
    (h : finishItem cfg { defMode := dm, maxChunk := mc, ifNotEmpty := f } t (.ok (sub, ic)) = .ok b) :
    GoodS pf dm t v b := by
  have hna := reg_not_any true cfg dm t hreg
  simp only [finishItem] at h
  cases htags : t.tags with
  | nil =>
    rw [htags] at h
    simp only [List.isEmpty_nil, if_true, Except.ok.injEq] at h
    subst h
    cases ic with
    | false =>
      obtain ⟨⟨p, hp⟩, _⟩ := hc.1 rfl
      obtain ⟨t0, ts, ht, _⟩ := tags_head_prim t p hp
      rw [htags] at ht; simp at ht
    | true =>
      obtain ⟨_, cs, hsub, hw, hne, hdef, _, hx, _⟩ := hc.2 rfl
      obtain ⟨x, rfl, hber⟩ := hx htags
      exact ⟨x, by rw [hsub, serList_single], hw.1, hne.1,
        by have := hdef; simp only [lenFormL, Bool.and_eq_true] at this; exact this.1, hber⟩
  | cons t0 ts =>
    rw [htags] at h
    simp only [List.isEmpty_cons, Bool.false_eq_true, if_false] at h
    have homit : (sub.isEmpty && ic && f) = false := by
      cases ic with
      | false => simp
      | true =>
        cases f with
        | false => simp
        | true =>
          obtain ⟨_, cs, hsub, hw, _, _, _, _, hne⟩ := hc.2 rfl
          rw [hsub, serList_ne_nil cs hw (hne (hE rfl))]; rfl
    rw [homit] at h
    simp only [Bool.false_eq_true, if_false] at h
    have hts : ∀ tg ∈ ts, tg.constructed = true := by
      intro tg hm
      exact tags_tail_constructed t tg (by rw [htags]; simpa using hm)
    have hok0 : okTag t0 := tags_ok true cfg dm t hreg hwf t0 (by rw [htags]; simp)
    have hG : ∀ x, BerG pf t.base v true (ts.reverse ++ [t0]) x → IsBer pf t v x := by
      intro x hx
      exact isBer_of_G pf t v x hna (by rw [htags]; simpa using hx)
    cases ic with
    | false =>
      obtain ⟨⟨p, hp⟩, hbody⟩ := hc.1 rfl
      obtain ⟨t0', ts', ht', hc0⟩ := tags_head_prim t p hp
      rw [htags] at ht'
      simp only [List.cons.injEq] at ht'
      obtain ⟨rfl, rfl⟩ := ht'
      rw [wrapTags_prim _ _ _ _ _ hts (reg_hok true cfg dm t hreg t0 ts htags)] at h
      cases hy : primNode t0 sub with
      | error e => rw [hy] at h; simp [wrapAll, Except.map] at h
      | ok y =>
        rw [hy] at h
        simp only [wrapAll] at h
        cases hx : wrapRest dm ts y with
        | error e => rw [hx] at h; simp [Except.map] at h
        | ok x =>
          rw [hx] at h
          simp only [Except.map, Except.ok.injEq] at h
          have hyw : y.WF := primNode_wf t0 sub y hc0 hy
          obtain ⟨hd, hyshape⟩ := primNode_shape t0 sub y hy
          have hyn : NotEoo y.ser := notEoo_of_tag y hyw (by
            rw [hyshape]
            simp only [TLV.tag, wireTag]
            rcases hok0 with h' | h'
            · exact Or.inl h'
            · exact Or.inr (Or.inl h'))
          obtain ⟨h1, h2, _, _⟩ := wrapRest_good {} t.base dm ts y x hts hyw hyn hx
          refine ⟨x, h.symm, h1, h2, ?_, hG x ?_⟩
          · exact wrapRest_lenForm dm ts y x hx (by rw [hyshape]; rfl)
          · apply wrapRest_berG pf t.base v dm ts y x hx t0 []
            rw [hyshape]
            simp only [BerG, TLV.tag]
            exact ⟨fun _ => sameTag_wire t0 false, hbody hd _⟩
    | true =>
      obtain ⟨hsi, cs, hsub, hw, hne, hdef, hbody, _, _⟩ := hc.2 rfl
      subst hsub
      rw [wrapTags_cons _ _ _ _ _ hts (Or.inr hsi)] at h
      cases hy : consNode t0 (!dm) cs with
      | error e => rw [hy] at h; simp [wrapAll, Except.map] at h
      | ok y =>
        rw [hy] at h
        simp only [wrapAll] at h
        cases hx : wrapRest dm ts y with
        | error e => rw [hx] at h; simp [Except.map] at h
        | ok x =>
          rw [hx] at h
          simp only [Except.map, Except.ok.injEq] at h
          have hyw : y.WF := consNode_wf t0 _ cs y hw (fun _ => hne) hy
          obtain ⟨hytag, hd, hyshape⟩ := consNode_tag t0 _ cs y hy
          have hyn : NotEoo y.ser := notEoo_of_tag y hyw (by rw [hytag]; right; right; simp [wireTag])
          obtain ⟨h1, h2, _, _⟩ := wrapRest_good {} t.base dm ts y x hts hyw hyn hx
          refine ⟨x, h.symm, h1, h2, ?_, hG x ?_⟩
          · exact wrapRest_lenForm dm ts y x hx (by rw [hyshape]; simp [TLV.lenForm, hdef])
          · apply wrapRest_berG pf t.base v dm ts y x hx t0 []
            rw [hyshape]
            simp only [BerG, TLV.tag]
            exact ⟨fun _ => sameTag_wire t0 true, hbody hd _ _⟩


/-! ### helpers for lists of children -/

theorem flatten_map_ser : ∀ (cs : List TLV), (cs.map TLV.ser).flatten = serList cs
  | [] => by simp [serList]
  | c :: cs => by simp [serList_cons, flatten_map_ser cs]

theorem isElems_of_pairs (pf : Profile) (t : Ty) : ∀ (ps : List (Val × TLV)),
    (∀ p ∈ ps, IsBer pf t p.1 p.2) → IsElems pf t (ps.map (·.1)) (ps.map (·.2))
  | [], _ => .nil
  | p :: ps, h => .cons (h p (by simp)) (isElems_of_pairs pf t ps (fun q hq => h q (by simp [hq])))

/-- the elements of a SEQUENCE OF / SET OF, each paired with its value -/
theorem elems_goodS (pf : Profile) (dm : Bool) (t : Ty) (f : Val → Except Err Bytes) :
    ∀ (vs : List Val) (bs : List Bytes),
      (∀ v b, v ∈ vs → f v = .ok b → GoodS pf dm t v b) → allOk (vs.map f) = .ok bs →
      ∃ ps : List (Val × TLV), ps.map (·.1) = vs ∧ bs = ps.map (·.2.ser) ∧
        ∀ p ∈ ps, p.2.WF ∧ NotEoo p.2.ser ∧ p.2.lenForm dm = true ∧ IsBer pf t p.1 p.2
  | [], bs, _, h => by
      simp only [List.map_nil, allOk, Except.ok.injEq] at h
      subst h
      exact ⟨[], rfl, rfl, by intro p hp; simp at hp⟩
  | v :: vs, bs, hg, h => by
      simp only [List.map_cons] at h
      cases hv : f v with
      | error e => rw [hv] at h; simp [allOk] at h
      | ok b =>
        rw [hv] at h
        simp only [allOk] at h
        cases hr : allOk (vs.map f) with
        | error e => rw [hr] at h; simp [Except.map] at h
        | ok bs' =>
          rw [hr] at h
          simp only [Except.map, Except.ok.injEq] at h
          subst h
          obtain ⟨x, hb, hw, hn, hd, hber⟩ := hg v b (by simp) hv
          obtain ⟨ps, h1, h2, h3⟩ := elems_goodS pf dm t f vs bs'
            (fun v' b' hm hf => hg v' b' (by simp [hm]) hf) hr
          refine ⟨(v, x) :: ps, by simp [h1], by simp [hb, h2], ?_⟩
          intro p hp
          rcases List.mem_cons.mp hp with rfl | hp
          · exact ⟨hw, hn, hd, hber⟩
          · exact h3 p hp

theorem isBitSegs_prims : ∀ (cs : List TLV) (frags : List (List Bool)), cs.length = frags.length →
    (∀ i (hi : i < cs.length) (hj : i < frags.length),
        ∃ hd, cs[i] = .prim hd ⟨.universal, false, 3⟩ (bitsToContent frags[i])) →
    IsBitSegs cs frags.flatten
  | [], [], _, _ => .nil
  | [], _ :: _, hl, _ => by simp at hl
  | _ :: _, [], hl, _ => by simp at hl
  | c :: cs, f :: frags, hl, h => by
      obtain ⟨hd, hc⟩ := h 0 (by simp) (by simp)
      simp only [List.getElem_cons_zero] at hc
      have ih := isBitSegs_prims cs frags (by simpa using hl) (fun i hi hj => by
        have := h (i + 1) (by simpa using hi) (by simpa using hj)
        simpa using this)
      rw [hc, List.flatten_cons]
      exact .cons rfl rfl ih

theorem isSegs_prims (num : Nat) : ∀ (cs : List TLV) (frags : List Bytes), cs.length = frags.length →
    (∀ i (hi : i < cs.length) (hj : i < frags.length),
        ∃ hd, cs[i] = .prim hd ⟨.universal, false, num⟩ frags[i]) →
    IsSegs num cs frags.flatten
  | [], [], _, _ => .nil
  | [], _ :: _, hl, _ => by simp at hl
  | _ :: _, [], hl, _ => by simp at hl
  | c :: cs, f :: frags, hl, h => by
      obtain ⟨hd, hc⟩ := h 0 (by simp) (by simp)
      simp only [List.getElem_cons_zero] at hc
      have ih := isSegs_prims num cs frags (by simpa using hl) (fun i hi hj => by
        have := h (i + 1) (by simpa using hi) (by simpa using hj)
        simpa using this)
      rw [hc, List.flatten_cons]
      exact .cons (.prim rfl rfl) ih

theorem chunkBytes_ne_nil (n fuel : Nat) (bs : Bytes) (hb : bs ≠ []) (hf : 0 < fuel) :
    chunkBytes n fuel bs ≠ [] := by
  cases fuel with
  | zero => omega
  | succ f =>
    cases bs with
    | nil => exact absurd rfl hb
    | cons b r => simp [chunkBytes]

theorem allDef_prim_nodes (dm : Bool) (cs : List TLV) (n : Nat) (tag : Tag) (frags : List Bytes) (hl : cs.length = n)
    (h : ∀ i (hi : i < cs.length) (hj : i < frags.length), ∃ hd, cs[i] = .prim hd tag frags[i])
    (hn : frags.length = n) : lenFormL dm cs = true := by
  rw [lenFormL_iff]
  intro c hc
  obtain ⟨i, hi, rfl⟩ := List.getElem_of_mem hc
  obtain ⟨hd, he⟩ := h i hi (by omega)
  rw [he]; rfl

theorem contentS_tagged {cfg : EncCfg} {pf : Profile} {dm om : Bool} {t : Ty} {v : Val} {sub : Bytes}
    {ic : Bool} (e : Bool) (c : TagClass) (n : Nat) (h : ContentS cfg pf dm om t v sub ic) :
    ContentS cfg pf dm om (.tagged e c n t) v sub ic := by
  refine ⟨fun hic => h.1 hic, fun hic => ?_⟩
  obtain ⟨h1, cs, h2, h3, h4, h5, h6, _, h8⟩ := h.2 hic
  refine ⟨h1, cs, h2, h3, h4, h5, h6, ?_, by simpa [emptyC] using h8⟩
  intro ht
  exfalso
  cases e with
  | true => simp [Ty.tags] at ht
  | false =>
    simp only [Ty.tags] at ht
    rcases List.eq_nil_or_concat t.tags with hn | ⟨init, last, hl⟩
    · rw [hn, tagImplicitly_nil] at ht; simp at ht
    · rw [hl, List.concat_eq_append, tagImplicitly_concat] at ht; simp at ht

theorem contentS_prim {cfg : EncCfg} {pf : Profile} {dm om : Bool} {p : PrimTy} {v : Val} {sub : Bytes}
    (h : ∀ hd tg, IsBody pf (.prim p) v (.prim hd tg sub)) :
    ContentS cfg pf dm om (.prim p) v sub false :=
  ⟨fun _ => ⟨⟨p, rfl⟩, fun hd tg => by simpa [Ty.base] using h hd tg⟩, fun hic => by simp at hic⟩


/-! ### the encoders write encodings -/

/-- properties of every child the encoder wrote -/
def ChildOk (dm : Bool) (c : TLV) : Prop := c.WF ∧ NotEoo c.ser ∧ c.lenForm dm = true

theorem children_ok {dm : Bool} {cs : List TLV} (h : ∀ c ∈ cs, ChildOk dm c) :
    WFs cs ∧ NoEooL cs ∧ lenFormL dm cs = true :=
  ⟨(WFs_iff cs).mpr (fun c hc => (h c hc).1), (NoEooL_iff cs).mpr (fun c hc => (h c hc).2.1),
   (lenFormL_iff dm cs).mpr (fun c hc => (h c hc).2.2)⟩

abbrev mkO (dm : Bool) (mc : Nat) (f : Bool) : EncOpts := { defMode := dm, maxChunk := mc, ifNotEmpty := f }


/-- the CER/DER SET encoder: members written in the order of their sort keys -/
theorem set_sorted_content (cfg : EncCfg) (pf : Profile) (dm : Bool) (fs : Fields) (vs : List Val)
    (ps : List (TagSet × TLV)) (ms : List (TagSet × Bytes))
    (h1 : ms = ps.map (fun p => (p.1, p.2.ser))) (h2 : ∀ p ∈ ps, ChildOk dm p.2)
    (h3 : IsFields pf fs vs (ps.map (·.2)))
    (h4 : emptyC cfg.seqOmitEmpty (.set fs) (.seq vs) = false → ps ≠ []) :
    ContentS cfg pf dm cfg.seqOmitEmpty (.set fs) (.seq vs)
      (((ms.mergeSort (fun a b => tagSetLe (outerKey a.1) (outerKey b.1))).map (·.2)).flatten) true := by
  subst h1
  let le : TagSet × TLV → TagSet × TLV → Bool := fun a b => tagSetLe (outerKey a.1) (outerKey b.1)
  have hsort : (ps.map (fun p => (p.1, p.2.ser))).mergeSort (fun a b => tagSetLe (outerKey a.1) (outerKey b.1))
      = (ps.mergeSort le).map (fun p => (p.1, p.2.ser)) := by
    rw [List.map_mergeSort (r := le)]
    intro a _ b _; rfl
  have hperm : (ps.mergeSort le).Perm ps := List.mergeSort_perm ps le
  obtain ⟨k1, k2, k3⟩ := children_ok (dm := dm) (cs := (ps.mergeSort le).map (·.2)) (fun c hc => by
    obtain ⟨p, hp, rfl⟩ := List.mem_map.mp hc
    exact h2 p (hperm.subset hp))
  refine ⟨fun hic => by simp at hic, fun _ => ⟨rfl, (ps.mergeSort le).map (·.2), ?_, k1, k2, k3, ?_, ?_, ?_⟩⟩
  · rw [hsort, List.map_map, ← flatten_map_ser, List.map_map]; rfl
  · intro hd tg indef
    exact .set h3 (hperm.map _)
  · intro hh; simp [Ty.tags] at hh
  · intro he hnil
    have : ps.mergeSort le = [] := by simpa using hnil
    have hl := hperm.length_eq
    rw [this] at hl
    exact h4 he (List.eq_nil_of_length_eq_zero hl.symm)

/-- the CER/DER SET OF encoder: element encodings sorted as zero-padded octet strings -/
theorem setOf_sorted_content (cfg : EncCfg) (pf : Profile) (dm : Bool) (t : Ty) (vs : List Val)
    (ps : List (Val × TLV)) (bs : List Bytes)
    (h1 : ps.map (·.1) = vs) (h2 : bs = ps.map (·.2.ser))
    (h3 : ∀ p ∈ ps, p.2.WF ∧ NotEoo p.2.ser ∧ p.2.lenForm dm = true ∧ IsBer pf t p.1 p.2) :
    ContentS cfg pf dm cfg.seqOmitEmpty (.setOf t) (.seqOf vs)
      ((if cfg.sortSetOf then sortSetOfChunks bs else bs).flatten) true := by
  subst h2
  -- the same permutation applied to the (value, element) pairs
  have hex : ∃ qs : List (Val × TLV), qs.Perm ps ∧
      (if cfg.sortSetOf then sortSetOfChunks (ps.map (·.2.ser)) else ps.map (·.2.ser)) = qs.map (·.2.ser) := by
    cases cfg.sortSetOf with
    | false => exact ⟨ps, List.Perm.refl _, rfl⟩
    | true =>
      simp only [if_true, sortSetOfChunks]
      by_cases hlen : (ps.map (·.2.ser)).length > 1
      · simp only [hlen, if_true]
        let m := (ps.map (·.2.ser)).foldl (fun a c => max a c.length) 0
        let le : Val × TLV → Val × TLV → Bool := fun a b => bytesLe (padTo m a.2.ser) (padTo m b.2.ser)
        refine ⟨ps.mergeSort le, List.mergeSort_perm ps le, ?_⟩
        rw [List.map_mergeSort (r := le)]
        intro a _ b _; rfl
      · simp only [hlen, if_false]
        exact ⟨ps, List.Perm.refl _, rfl⟩
  obtain ⟨qs, hperm, hq⟩ := hex
  rw [hq]
  obtain ⟨k1, k2, k3⟩ := children_ok (dm := dm) (cs := qs.map (·.2)) (fun c hc => by
    obtain ⟨p, hp, rfl⟩ := List.mem_map.mp hc
    have := h3 p (hperm.subset hp)
    exact ⟨this.1, this.2.1, this.2.2.1⟩)
  refine ⟨fun hic => by simp at hic, fun _ => ⟨rfl, qs.map (·.2), ?_, k1, k2, k3, ?_, ?_, ?_⟩⟩
  · rw [← flatten_map_ser, List.map_map]; rfl
  · intro hd tg indef
    refine .setOf (ws := qs.map (·.1)) (isElems_of_pairs pf t qs (fun p hp => (h3 p (hperm.subset hp)).2.2.2)) ?_
    rw [← h1]
    exact hperm.map _
  · intro hh; simp [Ty.tags] at hh
  · intro he hnil
    have hvs : vs ≠ [] := by simpa [emptyC] using he
    apply hvs
    rw [← h1]
    have : qs = [] := by simpa using hnil
    rw [this] at hperm
    have := hperm.length_eq
    simp only [List.length_nil] at this
    rw [List.eq_nil_of_length_eq_zero this.symm]; rfl

variable (cfg : EncCfg) (pf : Profile) (dm : Bool) (mc : Nat) (hR : EncRegion cfg pf mc)
include hR

mutual
theorem rt_contentS : ∀ (t : Ty) (v : Val) (sub : Bytes) (ic : Bool) (f : Bool),
    (f = true → cfg.seqOmitEmpty = true) →
    t.reg true cfg dm = true → t.WF = true → HasType t v = true → noE3 cfg.seqOmitEmpty t v = true →
    (f = true → emptyC cfg.seqOmitEmpty t v = false) →
    encValue cfg (mkO dm mc f) t v = .ok (sub, ic) → ContentS cfg pf dm cfg.seqOmitEmpty t v sub ic
  | .tagged e c n t, v, sub, ic, f, hf, hr, hw, ht, hn, hE, h => by
      have hr' : t.reg true cfg dm = true := by
        simp only [Ty.reg, Bool.and_eq_true] at hr; exact hr.2
      have hw' : t.WF = true := by
        cases e <;> simp_all [Ty.WF]
      exact contentS_tagged e c n
        (rt_contentS t v sub ic f hf hr' hw' (by simpa [HasType] using ht) (by simpa [noE3] using hn)
          (by simpa [emptyC] using hE) (by simpa [encValue] using h))
  | .prim p, v, sub, ic, f, hfl, hr, hw, ht, hn, hE, h => by
      cases p with
      | boolean =>
        cases v <;> simp [HasType] at ht
        case bool b =>
          simp only [encValue, Except.ok.injEq, Prod.mk.injEq] at h
          obtain ⟨rfl, rfl⟩ := h
          cases b with
          | true => exact contentS_prim (fun hd tg => by simpa using IsBody.boolTrue hR.boolT)
          | false => exact contentS_prim (fun hd tg => by simpa using IsBody.boolFalse)
      | integer =>
        cases v <;> simp [HasType] at ht
        case int z =>
          simp only [encValue, Except.ok.injEq, Prod.mk.injEq] at h
          obtain ⟨rfl, rfl⟩ := h
          exact contentS_prim (fun hd tg => .int)
      | enumerated =>
        cases v <;> simp [HasType] at ht
        case int z =>
          simp only [encValue, Except.ok.injEq, Prod.mk.injEq] at h
          obtain ⟨rfl, rfl⟩ := h
          exact contentS_prim (fun hd tg => .enum)
      | null =>
        cases v <;> simp [HasType] at ht
        case null =>
          simp only [encValue, Except.ok.injEq, Prod.mk.injEq] at h
          obtain ⟨rfl, rfl⟩ := h
          exact contentS_prim (fun hd tg => .null)
      | oid =>
        cases v <;> simp [HasType] at ht
        case oid arcs =>
          simp only [encValue] at h
          cases hc : oidToContent arcs with
          | none => rw [hc] at h; simp at h
          | some c =>
            rw [hc] at h
            simp only [Except.ok.injEq, Prod.mk.injEq] at h
            obtain ⟨rfl, rfl⟩ := h
            exact contentS_prim (fun hd tg => .oid hc)
      | real =>
        cases v <;> simp [HasType] at ht
        case real r =>
          cases r with
          | pinf =>
            simp only [encValue, Except.ok.injEq, Prod.mk.injEq] at h
            obtain ⟨rfl, rfl⟩ := h
            exact contentS_prim (fun hd tg => .real (by simp [realContent]))
          | minf =>
            simp only [encValue, Except.ok.injEq, Prod.mk.injEq] at h
            obtain ⟨rfl, rfl⟩ := h
            exact contentS_prim (fun hd tg => .real (by simp [realContent]))
          | fin m b e =>
            simp only [encValue] at h
            by_cases hm : m = 0
            · simp only [hm, if_true, Except.ok.injEq, Prod.mk.injEq] at h
              obtain ⟨rfl, rfl⟩ := h
              exact contentS_prim (fun hd tg => .real (by simp [realContent, hm]))
            · simp only [hm, if_false] at h
              by_cases hb : b = 2
              · simp only [hb, if_true] at h
                cases hc : realBinToContent m e with
                | none => rw [hc] at h; simp at h
                | some c =>
                  rw [hc] at h
                  simp only [Except.ok.injEq, Prod.mk.injEq] at h
                  obtain ⟨rfl, rfl⟩ := h
                  exact contentS_prim (fun hd tg => .real (by simp [realContent, hm, hb, hc]))
              · simp [hb] at h
      | bitString =>
        cases v <;> simp [HasType] at ht
        case bits bs =>
          simp only [encValue] at h
          by_cases hcond : (mc = 0 || (bs.length + 7) / 8 * 8 ≤ mc * 8) = true
          · simp only [hcond, if_true, Except.ok.injEq, Prod.mk.injEq] at h
            obtain ⟨rfl, rfl⟩ := h
            exact contentS_prim (fun hd tg => .bits)
          · simp only [hcond, Bool.false_eq_true, if_false] at h
            simp only [Bool.or_eq_true, decide_eq_true_eq, not_or, Nat.not_le] at hcond
            obtain ⟨hm0, hlong⟩ := hcond
            have hseg : pf.segmented = true := by
              rcases hR.chunk with h0 | h0
              · exact absurd h0 hm0
              · exact h0
            cases hb : allOk ((chunkBits (mc * 8) bs.length bs).map fun fr =>
                finishItem cfg (mkO dm mc f) (.prim .bitString) (.ok (bitsToContent fr, false))) with
            | error e => rw [hb] at h; simp [Except.map] at h
            | ok outs =>
              rw [hb] at h
              simp only [Except.map, Except.ok.injEq, Prod.mk.injEq] at h
              obtain ⟨rfl, rfl⟩ := h
              have hb' : allOk (((chunkBits (mc * 8) bs.length bs).map bitsToContent).map fun fr =>
                  finishItem cfg (mkO dm mc f) (.prim .bitString) (.ok (fr, false))) = .ok outs := by
                rw [List.map_map]; exact hb
              obtain ⟨cs, h1, h2, h3, h4, h5⟩ := frags_nodes cfg (mkO dm mc f) .bitString (by decide) _ outs hb'
              have hbne : bs ≠ [] := by
                intro he; subst he; simp at hlong
              have hcsne : cs ≠ [] := by
                intro he
                rw [he] at h4
                simp only [List.length_nil, List.length_map] at h4
                exact chunkBits_ne_nil (mc * 8) bs.length bs hbne
                  (by cases bs with | nil => exact absurd rfl hbne | cons _ _ => simp)
                  (List.eq_nil_of_length_eq_zero h4.symm)
              have hsegs : IsBitSegs cs bs := by
                have := isBitSegs_prims cs (chunkBits (mc * 8) bs.length bs) (by simpa using h4)
                  (fun i hi hj => by
                    obtain ⟨hd, he⟩ := h5 i hi (by simpa using hj)
                    exact ⟨hd, by simpa [PrimTy.univNum] using he⟩)
                rwa [chunkBits_flatten (mc * 8) (by omega) bs.length bs (Nat.le_refl _)] at this
              refine ⟨fun hic => by simp at hic, fun _ => ⟨rfl, cs, h1, h2, h3, ?_, ?_, ?_, fun _ => hcsne⟩⟩
              · exact allDef_prim_nodes dm cs _ _ _ rfl h5 h4.symm
              · intro hd tg indef
                exact .bitsSeg hseg hcsne hsegs
              · intro hh; simp [Ty.tags] at hh
      | str k =>
        cases v <;> simp [HasType] at ht
        case str bs =>
          simp only [encValue] at h
          by_cases hcond : (mc = 0 || bs.length ≤ mc) = true
          · simp only [hcond, if_true, Except.ok.injEq, Prod.mk.injEq] at h
            obtain ⟨rfl, rfl⟩ := h
            exact contentS_prim (fun hd tg => .str)
          · simp only [hcond, Bool.false_eq_true, if_false] at h
            simp only [Bool.or_eq_true, decide_eq_true_eq, not_or, Nat.not_le] at hcond
            obtain ⟨hm0, hlong⟩ := hcond
            have hseg : pf.segmented = true := by
              rcases hR.chunk with h0 | h0
              · exact absurd h0 hm0
              · exact h0
            cases hb : allOk ((chunkBytes mc bs.length bs).map fun fr =>
                finishItem cfg (mkO dm mc f) (.prim (.str 4)) (.ok (fr, false))) with
            | error e => rw [hb] at h; simp [Except.map] at h
            | ok outs =>
              rw [hb] at h
              simp only [Except.map, Except.ok.injEq, Prod.mk.injEq] at h
              obtain ⟨rfl, rfl⟩ := h
              obtain ⟨cs, h1, h2, h3, h4, h5⟩ := frags_nodes cfg (mkO dm mc f) (.str 4) (by decide) _ outs hb
              have hbne : bs ≠ [] := by
                intro he; subst he; simp at hlong
              have hcsne : cs ≠ [] := by
                intro he
                rw [he] at h4
                simp only [List.length_nil] at h4
                exact chunkBytes_ne_nil mc bs.length bs hbne
                  (by cases bs with | nil => exact absurd rfl hbne | cons _ _ => simp)
                  (List.eq_nil_of_length_eq_zero h4.symm)
              have hsegs : IsSegs 4 cs bs := by
                have := isSegs_prims 4 cs (chunkBytes mc bs.length bs) h4 h5
                rwa [chunkBytes_flatten mc (by omega) bs.length bs (Nat.le_refl _)] at this
              refine ⟨fun hic => by simp at hic, fun _ => ⟨rfl, cs, h1, h2, h3, ?_, ?_, ?_, fun _ => hcsne⟩⟩
              · exact allDef_prim_nodes dm cs _ _ _ rfl h5 h4.symm
              · intro hd tg indef
                exact .strSeg hseg hsegs
              · intro hh; simp [Ty.tags] at hh
  | .any, _, _, _, _, _, hr, _, _, _, _, _ => by simp [Ty.reg] at hr
  | .seq fs, v, sub, ic, f, hf, hr, hw, ht, hn, hE, h => by
      cases v <;> simp [HasType] at ht
      case seq vs =>
        simp only [encValue] at h
        cases hb : encFields cfg (mkO dm mc f) fs vs with
        | error e => rw [hb] at h; simp [Except.map] at h
        | ok b =>
          rw [hb] at h
          simp only [Except.map, Except.ok.injEq, Prod.mk.injEq] at h
          obtain ⟨rfl, rfl⟩ := h
          simp only [Ty.reg] at hr
          simp only [Ty.WF, Bool.and_eq_true] at hw
          obtain ⟨cs, h1, h2, h3, h4⟩ := rt_fieldsS fs vs b f hf hr hw.1 ht (by simpa [noE3] using hn) hb
          obtain ⟨k1, k2, k3⟩ := children_ok h2
          refine ⟨fun hic => by simp at hic, fun _ => ⟨rfl, cs, h1, k1, k2, k3, ?_, ?_, ?_⟩⟩
          · intro hd tg indef; exact .seq h3
          · intro hh; simp [Ty.tags] at hh
          · intro he; exact h4 (by simpa [emptyC] using he)
  | .set fs, v, sub, ic, f, hf, hr, hw, ht, hn, hE, h => by
      cases v <;> simp [HasType] at ht
      case seq vs =>
        simp only [Ty.reg] at hr
        simp only [Ty.WF, Bool.and_eq_true] at hw
        simp only [encValue] at h
        cases hso : cfg.setOrder with
        | declared =>
          rw [hso] at h
          simp only at h
          cases hb : encFields cfg (mkO dm mc f) fs vs with
          | error e => rw [hb] at h; simp [Except.map] at h
          | ok b =>
            rw [hb] at h
            simp only [Except.map, Except.ok.injEq, Prod.mk.injEq] at h
            obtain ⟨rfl, rfl⟩ := h
            obtain ⟨cs, h1, h2, h3, h4⟩ := rt_fieldsS fs vs b f hf hr hw.1 ht (by simpa [noE3] using hn) hb
            obtain ⟨k1, k2, k3⟩ := children_ok h2
            refine ⟨fun hic => by simp at hic, fun _ => ⟨rfl, cs, h1, k1, k2, k3, ?_, ?_, ?_⟩⟩
            · intro hd tg indef; exact .set h3 (List.Perm.refl _)
            · intro hh; simp [Ty.tags] at hh
            · intro he; exact h4 (by simpa [emptyC] using he)
        | static =>
          have hom : cfg.seqOmitEmpty = true := by
            rcases hR.setOmit with h0 | h0
            · rw [hso] at h0; exact absurd h0 (by simp)
            · exact h0
          rw [hso] at h
          simp only at h
          cases hb : encSetMembers cfg (mkO dm mc f) .static fs vs with
          | error e => rw [hb] at h; simp at h
          | ok ms =>
            rw [hb] at h
            simp only [Except.ok.injEq, Prod.mk.injEq] at h
            obtain ⟨rfl, rfl⟩ := h
            obtain ⟨ps, h1, h2, h3, h4⟩ := rt_setS fs vs ms .static f hom hr hw.1 ht (by simpa [noE3] using hn) hb
            exact set_sorted_content cfg pf dm fs vs ps ms h1 h2 h3
              (fun he => h4 (by simpa [emptyC] using he))
        | dynamic =>
          have hom : cfg.seqOmitEmpty = true := by
            rcases hR.setOmit with h0 | h0
            · rw [hso] at h0; exact absurd h0 (by simp)
            · exact h0
          rw [hso] at h
          simp only at h
          cases hb : encSetMembers cfg (mkO dm mc f) .dynamic fs vs with
          | error e => rw [hb] at h; simp at h
          | ok ms =>
            rw [hb] at h
            simp only [Except.ok.injEq, Prod.mk.injEq] at h
            obtain ⟨rfl, rfl⟩ := h
            obtain ⟨ps, h1, h2, h3, h4⟩ := rt_setS fs vs ms .dynamic f hom hr hw.1 ht (by simpa [noE3] using hn) hb
            exact set_sorted_content cfg pf dm fs vs ps ms h1 h2 h3
              (fun he => h4 (by simpa [emptyC] using he))
  | .seqOf t, v, sub, ic, f, hfl, hr, hw, ht, hn, hE, h => by
      cases v <;> simp [HasType] at ht
      case seqOf vs =>
        simp only [Ty.reg] at hr
        simp only [Ty.WF] at hw
        simp only [encValue] at h
        by_cases hcond : (cfg.seqOfIfNotEmpty && f && vs.isEmpty) = true
        · simp only [hcond, if_true, Except.ok.injEq, Prod.mk.injEq] at h
          obtain ⟨rfl, rfl⟩ := h
          have hvs : vs = [] := by
            simp only [Bool.and_eq_true] at hcond
            simpa using hcond.2
          subst hvs
          refine ⟨fun hic => by simp at hic, fun _ => ⟨rfl, [], by simp [serList], trivial, trivial,
            rfl, ?_, ?_, ?_⟩⟩
          · intro hd tg indef; exact .seqOf .nil
          · intro hh; simp [Ty.tags] at hh
          · intro he; simp [emptyC] at he
        · simp only [hcond, Bool.false_eq_true, if_false] at h
          cases hb : allOk (vs.map fun v => finishItem cfg (mkO dm mc false) t (encValue cfg (mkO dm mc false) t v)) with
          | error e => rw [hb] at h; simp [Except.map] at h
          | ok bs =>
            rw [hb] at h
            simp only [Except.map, Except.ok.injEq, Prod.mk.injEq] at h
            obtain ⟨rfl, rfl⟩ := h
            have hnall : ∀ v ∈ vs, noE3 cfg.seqOmitEmpty t v = true := by
              simpa [noE3] using hn
            obtain ⟨ps, h1, h2, h3⟩ := elems_goodS pf dm t _ vs bs (fun v b hm hfin => by
              obtain ⟨sub, ic, he⟩ := finish_ok hfin
              rw [he] at hfin
              exact item_of_contentS cfg pf dm cfg.seqOmitEmpty mc false t hr hw v sub ic b (by simp)
                (rt_contentS t v sub ic false (by simp) hr hw (ht v hm) (hnall v hm) (by simp) he) hfin) hb
            obtain ⟨k1, k2, k3⟩ := children_ok (dm := dm) (cs := ps.map (·.2)) (fun c hc => by
              obtain ⟨p, hp, rfl⟩ := List.mem_map.mp hc
              exact ⟨(h3 p hp).1, (h3 p hp).2.1, (h3 p hp).2.2.1⟩)
            refine ⟨fun hic => by simp at hic, fun _ => ⟨rfl, ps.map (·.2), ?_, k1, k2, k3, ?_, ?_, ?_⟩⟩
            · rw [h2, ← flatten_map_ser, List.map_map]; rfl
            · intro hd tg indef
              rw [← h1]
              exact .seqOf (isElems_of_pairs pf t ps (fun p hp => (h3 p hp).2.2.2))
            · intro hh; simp [Ty.tags] at hh
            · intro he
              have : vs ≠ [] := by simpa [emptyC] using he
              intro hps
              apply this
              rw [← h1]; simpa using hps
  | .setOf t, v, sub, ic, f, hfl, hr, hw, ht, hn, hE, h => by
      cases v <;> simp [HasType] at ht
      case seqOf vs =>
        simp only [Ty.reg] at hr
        simp only [Ty.WF] at hw
        simp only [encValue] at h
        cases hb : allOk (vs.map fun v => finishItem cfg (mkO dm mc false) t (encValue cfg (mkO dm mc false) t v)) with
        | error e => rw [hb] at h; simp [Except.map] at h
        | ok bs =>
          rw [hb] at h
          simp only [Except.map, Except.ok.injEq, Prod.mk.injEq] at h
          obtain ⟨rfl, rfl⟩ := h
          have hnall : ∀ v ∈ vs, noE3 cfg.seqOmitEmpty t v = true := by
            simpa [noE3] using hn
          obtain ⟨ps, h1, h2, h3⟩ := elems_goodS pf dm t _ vs bs (fun v b hm hfin => by
            obtain ⟨sub, ic, he⟩ := finish_ok hfin
            rw [he] at hfin
            exact item_of_contentS cfg pf dm cfg.seqOmitEmpty mc false t hr hw v sub ic b (by simp)
              (rt_contentS t v sub ic false (by simp) hr hw (ht v hm) (hnall v hm) (by simp) he) hfin) hb
          exact setOf_sorted_content cfg pf dm t vs ps bs h1 h2 h3
  | .choice fs, v, sub, ic, f, hf, hr, hw, ht, hn, hE, h => by
      cases v <;> simp [HasType] at ht
      case choice i w =>
        simp only [encValue] at h
        cases hb : encAlt cfg (mkO dm mc f) fs i w with
        | error e => rw [hb] at h; simp [Except.map] at h
        | ok b =>
          rw [hb] at h
          simp only [Except.map, Except.ok.injEq, Prod.mk.injEq] at h
          obtain ⟨rfl, rfl⟩ := h
          simp only [Ty.reg] at hr
          simp only [Ty.WF, Bool.and_eq_true] at hw
          obtain ⟨x, hbx, hxw, hxn, hxd, hal⟩ := rt_altS fs i w b f hf hr hw.1.1 ht
            (by simpa [noE3] using hn) (by simpa [emptyC] using hE) hb
          refine ⟨fun hic => by simp at hic, fun _ => ⟨rfl, [x], by simp [serList_single, hbx],
            ⟨hxw, trivial⟩, ⟨hxn, trivial⟩, by simp [lenFormL, hxd], ?_, ?_, fun _ => by simp⟩⟩
          · intro hd tg indef; exact .choice hal
          · intro _; exact ⟨x, rfl, .choice hal⟩
theorem rt_fieldsS : ∀ (fs : Fields) (vs : List Val) (b : Bytes) (f : Bool),
    (f = true → cfg.seqOmitEmpty = true) →
    Fields.reg true cfg dm fs = true → Fields.WF fs = true → HasFields fs vs = true →
    noE3F cfg.seqOmitEmpty fs vs = true →
    encFields cfg (mkO dm mc f) fs vs = .ok b →
    ∃ cs, b = serList cs ∧ (∀ c ∈ cs, ChildOk dm c) ∧ IsFields pf fs vs cs ∧
      (emptyF cfg.seqOmitEmpty fs vs = false → cs ≠ [])
  | .nil, [], b, f, _, _, _, _, _, h => by
      simp only [encFields, Except.ok.injEq] at h
      subst h
      exact ⟨[], by simp [serList], by intro c hc; simp at hc, .nil, by simp [emptyF]⟩
  | .nil, _ :: _, _, _, _, _, _, hf, _, _ => by simp [HasFields] at hf
  | .cons _ _ _, [], _, _, _, _, _, hf, _, _ => by simp [HasFields] at hf
  | .cons kd t rest, v :: vs, b, f, hfl, hr, hw, hf, hn, h => by
      simp only [Fields.reg, Bool.and_eq_true] at hr
      have hw' : t.WF = true ∧ Fields.WF rest = true := by
        cases kd <;> simp_all [Fields.WF]
      simp only [encFields] at h
      by_cases hs : skipField kd v = true
      · simp only [hs, if_true] at h
        obtain ⟨hfr, hk⟩ := hasFields_skipped hf hs
        have hn' : noE3F cfg.seqOmitEmpty rest vs = true := by
          simp only [noE3F, Bool.and_eq_true] at hn; exact hn.2
        obtain ⟨cs, h1, h2, h3, h4⟩ := rt_fieldsS rest vs b f hfl hr.2 hw'.2 hfr hn' h
        refine ⟨cs, h1, h2, ?_, ?_⟩
        · rcases hk with ⟨rfl, rfl⟩ | rfl
          · exact .absentOpt h3
          · exact .absentDflt h3
        · intro he; apply h4; simpa [emptyF, hs] using he
      · have hs' : skipField kd v = false := by simpa using hs
        simp only [hs', Bool.false_eq_true, if_false] at h
        obtain ⟨hty, hfr⟩ := hasFields_present hf hs'
        simp only [noE3F, hs', Bool.false_or, Bool.and_eq_true, Bool.not_eq_true'] at hn
        -- the options the member is encoded with
        have ho : (if cfg.seqOmitEmpty = true then
            { mkO dm mc f with ifNotEmpty := kd.isOpt } else mkO dm mc f)
              = mkO dm mc (if cfg.seqOmitEmpty then kd.isOpt else f) := by
          cases cfg.seqOmitEmpty <;> rfl
        rw [ho] at h
        have hfl' : (if cfg.seqOmitEmpty then kd.isOpt else f) = true → cfg.seqOmitEmpty = true := by
          cases hom : cfg.seqOmitEmpty with
          | true => intro _; rfl
          | false =>
            simp only [Bool.false_eq_true, if_false]
            intro hh
            have := hfl hh
            rw [hom] at this
            exact absurd this (by simp)
        have hE' : (if cfg.seqOmitEmpty then kd.isOpt else f) = true →
            emptyC cfg.seqOmitEmpty t v = false := by
          intro hh
          have hom := hfl' hh
          rw [hom] at hh
          simp only [if_true] at hh
          have := hn.1.1
          rw [hom, hh] at this
          rw [hom]
          simpa using this
        cases hb1 : finishItem cfg (mkO dm mc (if cfg.seqOmitEmpty then kd.isOpt else f)) t
            (encValue cfg (mkO dm mc (if cfg.seqOmitEmpty then kd.isOpt else f)) t v) with
        | error e => rw [hb1] at h; simp at h
        | ok b1 =>
          rw [hb1] at h
          simp only at h
          cases hb2 : encFields cfg (mkO dm mc (if cfg.seqOmitEmpty then kd.isOpt else f)) rest vs with
          | error e => rw [hb2] at h; simp [Except.map] at h
          | ok b2 =>
            rw [hb2] at h
            simp only [Except.map, Except.ok.injEq] at h
            subst h
            obtain ⟨sub, ic, he⟩ := finish_ok hb1
            rw [he] at hb1
            obtain ⟨x, hbx, hxw, hxn, hxd, hxb⟩ := item_of_contentS cfg pf dm cfg.seqOmitEmpty mc _ t hr.1 hw'.1
              v sub ic b1 hE'
              (rt_contentS t v sub ic _ hfl' hr.1 hw'.1 hty hn.1.2 hE' he) hb1
            obtain ⟨cs, h1, h2, h3, _⟩ := rt_fieldsS rest vs b2 _ hfl' hr.2 hw'.2 hfr hn.2 hb2
            refine ⟨x :: cs, by simp [serList_cons, hbx, h1], ?_, .present hxb h3, fun _ => by simp⟩
            intro c hc
            rcases List.mem_cons.mp hc with rfl | hc
            · exact ⟨hxw, hxn, hxd⟩
            · exact h2 c hc
theorem rt_setS : ∀ (fs : Fields) (vs : List Val) (ms : List (TagSet × Bytes)) (ord : SetOrder) (f : Bool),
    cfg.seqOmitEmpty = true →
    Fields.reg true cfg dm fs = true → Fields.WF fs = true → HasFields fs vs = true →
    noE3F cfg.seqOmitEmpty fs vs = true →
    encSetMembers cfg (mkO dm mc f) ord fs vs = .ok ms →
    ∃ ps : List (TagSet × TLV), ms = ps.map (fun p => (p.1, p.2.ser)) ∧ (∀ p ∈ ps, ChildOk dm p.2) ∧
      IsFields pf fs vs (ps.map (·.2)) ∧ (emptyF cfg.seqOmitEmpty fs vs = false → ps ≠ [])
  | .nil, [], ms, ord, f, _, _, _, _, _, h => by
      simp only [encSetMembers, Except.ok.injEq] at h
      subst h
      exact ⟨[], rfl, by intro p hp; simp at hp, .nil, by simp [emptyF]⟩
  | .nil, _ :: _, _, _, _, _, _, _, hf, _, _ => by simp [HasFields] at hf
  | .cons _ _ _, [], _, _, _, _, _, _, hf, _, _ => by simp [HasFields] at hf
  | .cons kd t rest, v :: vs, ms, ord, f, hom, hr, hw, hf, hn, h => by
      simp only [Fields.reg, Bool.and_eq_true] at hr
      have hw' : t.WF = true ∧ Fields.WF rest = true := by
        cases kd <;> simp_all [Fields.WF]
      simp only [encSetMembers] at h
      by_cases hs : skipField kd v = true
      · simp only [hs, if_true] at h
        obtain ⟨hfr, hk⟩ := hasFields_skipped hf hs
        have hn' : noE3F cfg.seqOmitEmpty rest vs = true := by
          simp only [noE3F, Bool.and_eq_true] at hn; exact hn.2
        obtain ⟨ps, h1, h2, h3, h4⟩ := rt_setS rest vs ms ord f hom hr.2 hw'.2 hfr hn' h
        refine ⟨ps, h1, h2, ?_, ?_⟩
        · rcases hk with ⟨rfl, rfl⟩ | rfl
          · exact .absentOpt h3
          · exact .absentDflt h3
        · intro he; apply h4; simpa [emptyF, hs] using he
      · have hs' : skipField kd v = false := by simpa using hs
        simp only [hs', Bool.false_eq_true, if_false] at h
        obtain ⟨hty, hfr⟩ := hasFields_present hf hs'
        simp only [noE3F, hs', Bool.false_or, Bool.and_eq_true, Bool.not_eq_true'] at hn
        have ho : ({ mkO dm mc f with ifNotEmpty := kd.isOpt } : EncOpts) = mkO dm mc kd.isOpt := rfl
        rw [ho] at h
        have hE' : kd.isOpt = true → emptyC cfg.seqOmitEmpty t v = false := by
          intro hh
          have := hn.1.1
          rw [hom, hh] at this
          rw [hom]
          simpa using this
        cases hb1 : finishItem cfg (mkO dm mc kd.isOpt) t (encValue cfg (mkO dm mc kd.isOpt) t v) with
        | error e => rw [hb1] at h; simp at h
        | ok b1 =>
          rw [hb1] at h
          simp only at h
          cases hb2 : encSetMembers cfg (mkO dm mc f) ord rest vs with
          | error e => rw [hb2] at h; simp [Except.map] at h
          | ok ms2 =>
            rw [hb2] at h
            simp only [Except.map, Except.ok.injEq] at h
            subst h
            obtain ⟨sub, ic, he⟩ := finish_ok hb1
            rw [he] at hb1
            obtain ⟨x, hbx, hxw, hxn, hxd, hxb⟩ := item_of_contentS cfg pf dm cfg.seqOmitEmpty mc _ t hr.1 hw'.1
              v sub ic b1 hE'
              (rt_contentS t v sub ic _ (fun _ => hom) hr.1 hw'.1 hty hn.1.2 hE' he) hb1
            obtain ⟨ps, h1, h2, h3, _⟩ := rt_setS rest vs ms2 ord f hom hr.2 hw'.2 hfr hn.2 hb2
            refine ⟨(setKey ord t v, x) :: ps, by simp [hbx, h1], ?_, .present hxb h3, fun _ => by simp⟩
            intro p hp
            rcases List.mem_cons.mp hp with rfl | hp
            · exact ⟨hxw, hxn, hxd⟩
            · exact h2 p hp
theorem rt_altS : ∀ (fs : Fields) (i : Nat) (v : Val) (b : Bytes) (f : Bool),
    (f = true → cfg.seqOmitEmpty = true) →
    Fields.reg true cfg dm fs = true → Fields.WF fs = true → HasAlt fs i v = true →
    noE3Alt cfg.seqOmitEmpty fs i v = true → (f = true → emptyAlt cfg.seqOmitEmpty fs i v = false) →
    encAlt cfg (mkO dm mc f) fs i v = .ok b →
    ∃ x : TLV, b = x.ser ∧ x.WF ∧ NotEoo x.ser ∧ x.lenForm dm = true ∧ IsAlt pf fs i v x
  | .nil, _, _, _, _, _, _, _, ha, _, _, _ => by simp [HasAlt] at ha
  | .cons kd t rest, 0, v, b, f, hfl, hr, hw, ha, hn, hE, h => by
      simp only [Fields.reg, Bool.and_eq_true] at hr
      have hw' : t.WF = true := by
        cases kd <;> simp_all [Fields.WF]
      simp only [encAlt] at h
      simp only [HasAlt] at ha
      obtain ⟨sub, ic, he⟩ := finish_ok h
      rw [he] at h
      obtain ⟨x, hbx, hxw, hxn, hxd, hxb⟩ := item_of_contentS cfg pf dm cfg.seqOmitEmpty mc f t hr.1 hw' v sub ic b
        (by simpa [emptyAlt] using hE)
        (rt_contentS t v sub ic f hfl hr.1 hw' ha (by simpa [noE3Alt] using hn) (by simpa [emptyAlt] using hE) he) h
      exact ⟨x, hbx, hxw, hxn, hxd, .here hxb⟩
  | .cons kd t rest, i + 1, v, b, f, hfl, hr, hw, ha, hn, hE, h => by
      simp only [Fields.reg, Bool.and_eq_true] at hr
      have hw' : Fields.WF rest = true := by
        cases kd <;> simp_all [Fields.WF]
      simp only [encAlt] at h
      simp only [HasAlt] at ha
      obtain ⟨x, h1, h2, h3, h4, h5⟩ := rt_altS rest i v b f hfl hr.2 hw' ha (by simpa [noE3Alt] using hn)
        (by simpa [emptyAlt] using hE) h
      exact ⟨x, h1, h2, h3, h4, .there h5⟩
end


/-- **the encoders write encodings**: whatever `encode` returns for a value of the region is the
    serialisation of one well-formed element that the rules (under the profile) allow as an
    encoding of that value -/
theorem encode_spec (f : Bool) (hf : f = false) (t : Ty) (v : Val) (b : Bytes)
    (hreg : t.reg true cfg dm = true) (hwf : t.WF = true) (hty : HasType t v = true)
    (hn : noE3 cfg.seqOmitEmpty t v = true)
    (h : finishItem cfg (mkO dm mc f) t (encValue cfg (mkO dm mc f) t v) = .ok b) :
    GoodS pf dm t v b := by
  subst hf
  obtain ⟨sub, ic, he⟩ := finish_ok h
  rw [he] at h
  exact item_of_contentS cfg pf dm cfg.seqOmitEmpty mc false t hreg hwf v sub ic b (by simp)
    (rt_contentS cfg pf dm mc hR t v sub ic false (by simp) hreg hwf hty hn (by simp) he) h

end Asn1
