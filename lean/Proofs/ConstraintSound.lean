/-
  Proofs.ConstraintSound — the subtype test that gates assignment of value objects is *sound*:
  whatever `isSuperTypeOf self other` lets through admits only values `self` admits — outside the
  recorded finding U1 (a union lists its operands in its value map, so `P` counts as a supertype of
  `P | Q`; pinned by a test), i.e. for `other` without a union on its value-map path.
-/
import Asn1.Constraint

namespace Asn1.Constraint

mutual
/-- no ConstraintsUnion among the constraints whose operands `getValueMap()` collects -/
def Constr.noUnionMap : Constr → Bool
  | .mk .union _ => false
  | .mk .intersection ops => opsNoUnionMap ops
  | .mk _ _ => true
def opsNoUnionMap : Ops → Bool
  | .nil => true
  | .con c rest => c.noUnionMap && opsNoUnionMap rest
  | .raw _ rest => opsNoUnionMap rest
  | .field _ _ rest => opsNoUnionMap rest
  | .entry _ _ _ rest => opsNoUnionMap rest
end

/-- a well-formed constraint without operands admits everything (`if not self._values: return`) -/
theorem den_of_not_truthy (c : Constr) (hw : c.wf = true) (ht : c.truthy = false) (i : Option Nat) (v : CVal) :
    den c i v := by
  obtain ⟨k, ops⟩ := c
  cases k <;> simp only [Constr.truthy, Bool.not_eq_false', Ops.isNil] at ht <;>
    (try (cases ops <;> simp at ht)) <;> try (simp [den])
  all_goals
    simp [Constr.wf, bounds] at hw

mutual
/-- an operand collected into the value map of a union-free constraint is implied by it -/
theorem den_of_mem_valueMap (self : Constr) (i : Option Nat) (v : CVal) :
    (other : Constr) → other.noUnionMap = true → self ∈ valueMap other → den other i v → den self i v
  | .mk k ops, hu, hm, hd => by
    cases k <;> simp only [valueMap, List.not_mem_nil] at hm
    · -- intersection
      simp only [Constr.noUnionMap] at hu
      simp only [den] at hd
      rcases hd with rfl | hd
      · simp [collect] at hm
      · exact den_of_mem_collect self i v ops [] hu hm hd
    · simp [Constr.noUnionMap] at hu
theorem den_of_mem_collect (self : Constr) (i : Option Nat) (v : CVal) :
    (ops : Ops) → (s : List Atom) → opsNoUnionMap ops = true → self ∈ collect ops → denAll ops s i v → den self i v
  | .nil, _, _, hm, _ => by simp [collect] at hm
  | .con c rest, s, hu, hm, hd => by
    simp only [opsNoUnionMap, Bool.and_eq_true] at hu
    simp only [denAll] at hd
    simp only [collect] at hm
    by_cases ht : c.truthy = true
    · simp only [ht, if_true, List.mem_cons, List.mem_append] at hm
      rcases hm with rfl | hm | hm
      · exact hd.1
      · exact den_of_mem_valueMap self i v c hu.1 hm hd.1
      · exact den_of_mem_collect self i v rest s hu.2 hm hd.2
    · simp only [ht, if_false, Bool.false_eq_true] at hm
      exact den_of_mem_collect self i v rest s hu.2 hm hd.2
  | .raw _ rest, s, hu, hm, hd => by
    simp only [opsNoUnionMap] at hu
    simp only [denAll] at hd
    simp only [collect] at hm
    exact den_of_mem_collect self i v rest s hu hm hd.2
  | .field _ _ _, _, _, _, hd => by simp [denAll] at hd
  | .entry _ _ _ _, _, _, _, hd => by simp [denAll] at hd
end

mutual
/-- what imposes a constraint implies it (unions are not entered, so no side condition) -/
theorem den_of_imposedBy (c : Constr) (i : Option Nat) (v : CVal) :
    (other : Constr) → imposedBy c other = true → den other i v → den c i v
  | .mk k ops, h, hd => by
    simp only [imposedBy, Bool.or_eq_true, decide_eq_true_eq, Bool.and_eq_true, beq_iff_eq] at h
    rcases h with rfl | ⟨rfl, h⟩
    · exact hd
    · simp only [den] at hd
      rcases hd with rfl | hd
      · simp [imposedByOps] at h
      · exact den_of_imposedByOps c i v ops [] h hd
theorem den_of_imposedByOps (c : Constr) (i : Option Nat) (v : CVal) :
    (ops : Ops) → (s : List Atom) → imposedByOps c ops = true → denAll ops s i v → den c i v
  | .nil, _, h, _ => by simp [imposedByOps] at h
  | .con d rest, s, h, hd => by
    simp only [imposedByOps, Bool.or_eq_true] at h
    simp only [denAll] at hd
    rcases h with h | h
    · exact den_of_imposedBy c i v d h hd.1
    · exact den_of_imposedByOps c i v rest s h hd.2
  | .raw _ rest, s, h, hd => by
    simp only [imposedByOps] at h
    simp only [denAll] at hd
    exact den_of_imposedByOps c i v rest s h hd.2
  | .field _ _ _, _, _, hd => by simp [denAll] at hd
  | .entry _ _ _ _, _, _, hd => by simp [denAll] at hd
end

/-- every operand of an intersection imposed ⇒ the intersection holds -/
theorem denAll_of_imposedAll (other : Constr) (i : Option Nat) (v : CVal) (hd : den other i v) :
    (ops : Ops) → wfOps Cls.intersection.shape ops = true → imposedAll ops other = true → denAll ops [] i v
  | .nil, _, _ => by simp [denAll]
  | .con c rest, hw, h => by
    simp only [imposedAll, Bool.and_eq_true, Bool.or_eq_true, Bool.not_eq_eq_eq_not, Bool.not_true] at h
    simp only [wfOps, Bool.and_eq_true] at hw
    simp only [denAll]
    refine ⟨?_, denAll_of_imposedAll other i v hd rest hw.2 h.2⟩
    rcases h.1 with ht | hi
    · exact den_of_not_truthy c hw.1.2 ht i v
    · exact den_of_imposedBy c i v other hi hd
  | .raw _ _, _, h => by simp [imposedAll] at h
  | .field _ _ _, _, h => by simp [imposedAll] at h
  | .entry _ _ _ _, _, h => by simp [imposedAll] at h

theorem den_of_base (self other : Constr) (hw : self.wf = true) (hu : other.noUnionMap = true)
    (h : baseIsSuperTypeOf self other = true) (i : Option Nat) (v : CVal) (hd : den other i v) : den self i v := by
  simp only [baseIsSuperTypeOf, Bool.or_eq_true, Bool.not_eq_eq_eq_not, Bool.not_true, decide_eq_true_eq] at h
  rcases h with (ht | rfl) | hm
  · exact den_of_not_truthy self hw ht i v
  · exact hd
  · exact den_of_mem_valueMap self i v other hu hm hd

/-- **soundness of the subtype test** -/
theorem supertype_sound (self other : Constr) (hw : self.wf = true) (hu : other.noUnionMap = true)
    (h : isSuperTypeOf self other = true) (i : Option Nat) (v : CVal) (hd : den other i v) : den self i v := by
  obtain ⟨k, ops⟩ := self
  by_cases hk : k = .intersection
  · subst hk
    simp only [isSuperTypeOf, Bool.or_eq_true] at h
    rcases h with h | h
    · exact den_of_base _ _ hw hu h i v hd
    · simp only [den]
      by_cases hn : ops = .nil
      · exact Or.inl hn
      · right
        simp only [Constr.wf, Bool.and_eq_true] at hw
        exact denAll_of_imposedAll other i v hd ops hw.1 h
  · have : isSuperTypeOf (.mk k ops) other = baseIsSuperTypeOf (.mk k ops) other := by
      cases k <;> first | rfl | exact absurd rfl hk
    rw [this] at h
    exact den_of_base _ _ hw hu h i v hd

end Asn1.Constraint
