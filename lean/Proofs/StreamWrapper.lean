/-
  Proofs.StreamWrapper — CachingStreamWrapper refines a seekable stream over the same octets.
  Invariant (`Sim`): `cache ++ rawRest` is the suffix of the data from the base position (the
  number of octets dropped so far), and cache position / mark agree with the reference stream's
  up to that renumbering offset.  Every operation the decoder is allowed to issue preserves it.
-/
import Asn1.Stream

namespace Asn1.Stream

/-- operations that do not name an absolute position (absolute positions are renumbered by a drop) -/
def WOp.relative : WOp → Bool
  | .seekSet _ => false
  | _ => true

/-- a position reported by the wrapper, translated back by the renumbering offset -/
def WOut.shift (k : Nat) : WOut → WOut
  | .nat n => .nat (n + k)
  | o => o

/-- outputs of a history with every reported position translated by the offset in force -/
def Wrapper.runOpsAbs (B : Nat) : Wrapper → List WOp → List WOut
  | _, [] => []
  | w, op :: ops => let r := w.step B op; r.1.shift r.2.dropped :: Wrapper.runOpsAbs B r.2 ops

structure Sim (w : Wrapper) (r : Ref) : Prop where
  cpos_le : w.cpos ≤ w.cache.length
  data : r.data.drop w.dropped = w.cache ++ w.raw
  pos : w.dropped + w.cpos = r.pos
  mark : w.dropped + w.mark = r.mark
  mark_le : w.mark ≤ w.cpos

theorem bioWrite_end (buf x : Bytes) : bioWrite buf buf.length x = buf ++ x := by
  simp [bioWrite]

theorem Sim.rest {w : Wrapper} {r : Ref} (h : Sim w r) :
    r.data.drop r.pos = w.cache.drop w.cpos ++ w.raw := by
  rw [← h.pos, ← List.drop_drop, h.data, List.drop_append_of_le_length h.cpos_le]

theorem Sim.init (d : Bytes) : Sim { raw := d } { data := d } :=
  ⟨by simp, by simp, by simp, by simp, by simp⟩

theorem read_full (w : Wrapper) (n : Nat) (hle : n ≤ (w.cache.drop w.cpos).length) :
    w.read n = ((w.cache.drop w.cpos).take n, { w with cpos := w.cpos + n }) := by
  unfold Wrapper.read bioRead
  have : ((w.cache.drop w.cpos).take n).length = n := by rw [List.length_take]; omega
  simp only [this, if_true]

theorem read_short (w : Wrapper) (n : Nat) (hlt : (w.cache.drop w.cpos).length < n)
    (hc : w.cpos ≤ w.cache.length) :
    w.read n =
      (w.cache.drop w.cpos ++ w.raw.take (n - (w.cache.drop w.cpos).length),
        { w with cache := w.cache ++ w.raw.take (n - (w.cache.drop w.cpos).length),
                 cpos := w.cache.length + (w.raw.take (n - (w.cache.drop w.cpos).length)).length,
                 raw := w.raw.drop (n - (w.cache.drop w.cpos).length) }) := by
  unfold Wrapper.read bioRead
  have htake : (w.cache.drop w.cpos).take n = w.cache.drop w.cpos :=
    List.take_of_length_le (by omega)
  have hne : ¬ ((w.cache.drop w.cpos).length = n) := by omega
  have hat : w.cpos + (w.cache.drop w.cpos).length = w.cache.length := by simp; omega
  simp only [htake, hne, if_false, hat, bioWrite_end]

/-- read(n): what the wrapper returns is what the reference returns, and the invariant is kept -/
theorem read_spec (w : Wrapper) (r : Ref) (n : Nat) (h : Sim w r) :
    (w.read n).1 = bioRead r.data r.pos n ∧
      Sim (w.read n).2 { r with pos := r.pos + (bioRead r.data r.pos n).length } ∧
      (w.read n).2.dropped = w.dropped ∧ (w.read n).2.mark = w.mark ∧
      (w.read n).2.cpos = w.cpos + (w.read n).1.length := by
  have hrest := h.rest
  have hc := h.cpos_le
  have hp := h.pos
  have hm := h.mark_le
  unfold bioRead
  rw [hrest]
  by_cases hle : n ≤ (w.cache.drop w.cpos).length
  · rw [read_full w n hle, List.take_append_of_le_length hle]
    have hl : ((w.cache.drop w.cpos).take n).length = n := by rw [List.length_take]; omega
    refine ⟨rfl, ⟨?_, h.data, ?_, h.mark, ?_⟩, rfl, rfl, ?_⟩
    · show w.cpos + n ≤ w.cache.length
      simp only [List.length_drop] at hle; omega
    · show w.dropped + (w.cpos + n) = r.pos + ((w.cache.drop w.cpos).take n).length
      omega
    · show w.mark ≤ w.cpos + n
      omega
    · show w.cpos + n = w.cpos + ((w.cache.drop w.cpos).take n).length
      omega
  · have hlt : (w.cache.drop w.cpos).length < n := by omega
    rw [read_short w n hlt hc]
    have hout : (w.cache.drop w.cpos ++ w.raw).take n =
        w.cache.drop w.cpos ++ w.raw.take (n - (w.cache.drop w.cpos).length) := by
      rw [List.take_append, List.take_of_length_le (by omega)]
    rw [hout]
    have hlen : (w.cache.drop w.cpos).length = w.cache.length - w.cpos := by simp
    refine ⟨rfl, ⟨?_, ?_, ?_, h.mark, ?_⟩, rfl, rfl, ?_⟩
    · show w.cache.length + _ ≤ (w.cache ++ _).length
      simp
    · show r.data.drop w.dropped = (w.cache ++ _) ++ w.raw.drop _
      rw [List.append_assoc, List.take_append_drop]; exact h.data
    · dsimp only
      simp only [List.length_append]; omega
    · show w.mark ≤ w.cache.length + _
      omega
    · dsimp only
      simp only [List.length_append]; omega

theorem readAll_eq (w : Wrapper) (hc : w.cpos ≤ w.cache.length) :
    w.readAll = (w.cache.drop w.cpos ++ w.raw,
      { w with cache := w.cache ++ w.raw, cpos := w.cache.length + w.raw.length, raw := [] }) := by
  unfold Wrapper.readAll
  have hat : w.cpos + (w.cache.drop w.cpos).length = w.cache.length := by simp; omega
  simp only [hat, bioWrite_end]

theorem readAll_spec (w : Wrapper) (r : Ref) (h : Sim w r) :
    w.readAll.1 = r.data.drop r.pos ∧
      Sim w.readAll.2 { r with pos := r.pos + (r.data.drop r.pos).length } ∧
      w.readAll.2.dropped = w.dropped := by
  have hrest := h.rest
  have hc := h.cpos_le
  have hp := h.pos
  have hm := h.mark_le
  rw [readAll_eq w hc, hrest]
  refine ⟨rfl, ⟨?_, ?_, ?_, h.mark, ?_⟩, rfl⟩
  · show w.cache.length + w.raw.length ≤ (w.cache ++ w.raw).length
    simp
  · show r.data.drop w.dropped = (w.cache ++ w.raw) ++ []
    rw [List.append_nil]; exact h.data
  · show w.dropped + (w.cache.length + w.raw.length) = r.pos + (w.cache.drop w.cpos ++ w.raw).length
    simp only [List.length_append, List.length_drop]; omega
  · show w.mark ≤ w.cache.length + w.raw.length
    omega

/-- one permitted operation: the invariant is preserved and the outputs agree (positions up to the
    renumbering offset) -/
theorem step_sim (B : Nat) (w : Wrapper) (r : Ref) (op : WOp) (h : Sim w r)
    (hpre : r.pre op = true) (hrel : op.relative = true ∨ w.dropped = 0) :
    Sim (w.step B op).2 (r.step op).2 ∧
      (w.step B op).1.shift (w.step B op).2.dropped = (r.step op).1 := by
  have hc := h.cpos_le
  have hp := h.pos
  have hm := h.mark
  have hml := h.mark_le
  cases op with
  | read n =>
    obtain ⟨h1, h2, _, _, _⟩ := read_spec w r n h
    exact ⟨h2, by show WOut.bytes _ = WOut.bytes _; rw [h1]⟩
  | readAll =>
    obtain ⟨h1, h2, _⟩ := readAll_spec w r h
    exact ⟨h2, by show WOut.bytes _ = WOut.bytes _; rw [h1]⟩
  | peek n =>
    obtain ⟨h1, h2, h3, h4, h5⟩ := read_spec w r n h
    have h2c := h2.cpos_le
    have h2d := h2.data
    refine ⟨⟨?_, ?_, ?_, ?_, ?_⟩, by show WOut.bytes _ = WOut.bytes _; rw [h1]⟩
    · show (w.read n).2.cpos - (w.read n).1.length ≤ (w.read n).2.cache.length
      omega
    · exact h2d
    · show (w.read n).2.dropped + ((w.read n).2.cpos - (w.read n).1.length) = r.pos
      rw [h3, h5]; omega
    · show (w.read n).2.dropped + (w.read n).2.mark = r.mark
      rw [h3, h4]; exact hm
    · show (w.read n).2.mark ≤ (w.read n).2.cpos - (w.read n).1.length
      rw [h4, h5]; omega
  | seekSet p =>
    have hd : w.dropped = 0 := by
      rcases hrel with hrel | hrel
      · simp [WOp.relative] at hrel
      · exact hrel
    simp only [Ref.pre, Bool.and_eq_true, decide_eq_true_eq] at hpre
    refine ⟨⟨?_, h.data, ?_, hm, ?_⟩, ?_⟩
    · show p ≤ w.cache.length
      omega
    · show w.dropped + p = p
      omega
    · show w.mark ≤ p
      omega
    · show WOut.nat (p + w.dropped) = WOut.nat p
      rw [hd]; rfl
  | seekCur k =>
    simp only [Ref.pre, Bool.and_eq_true, decide_eq_true_eq] at hpre
    have hk : k ≤ w.cpos := by omega
    have e1 : w.step B (.seekCur k) = (.nat (w.cpos - k), { w with cpos := w.cpos - k }) := by
      simp only [Wrapper.step, hk, if_true]
    have e2 : r.step (.seekCur k) = (.nat (r.pos - k), { r with pos := r.pos - k }) := by
      simp only [Ref.step, hpre.1, if_true]
    rw [e1, e2]
    refine ⟨⟨?_, h.data, ?_, hm, ?_⟩, ?_⟩
    · show w.cpos - k ≤ w.cache.length
      omega
    · show w.dropped + (w.cpos - k) = r.pos - k
      omega
    · show w.mark ≤ w.cpos - k
      omega
    · show WOut.nat (w.cpos - k + w.dropped) = WOut.nat (r.pos - k)
      congr 1; omega
  | seekMark =>
    refine ⟨⟨?_, h.data, hm, hm, Nat.le_refl _⟩, ?_⟩
    · show w.mark ≤ w.cache.length
      omega
    · show WOut.nat (w.mark + w.dropped) = WOut.nat r.mark
      congr 1; omega
  | tell =>
    refine ⟨h, ?_⟩
    show WOut.nat (w.cpos + w.dropped) = WOut.nat r.pos
    congr 1; omega
  | setMark =>
    by_cases hB : B < w.cpos
    · have e1 : w.step B .setMark =
          (.unit, { w with cache := w.cache.drop w.cpos, cpos := 0, mark := 0, dropped := w.dropped + w.cpos }) := by
        simp only [Wrapper.step, hB, if_true]
      rw [e1]
      refine ⟨⟨?_, ?_, ?_, ?_, Nat.le_refl _⟩, rfl⟩
      · show 0 ≤ _
        omega
      · show r.data.drop (w.dropped + w.cpos) = w.cache.drop w.cpos ++ w.raw
        rw [← List.drop_drop, h.data, List.drop_append_of_le_length hc]
      · show w.dropped + w.cpos + 0 = r.pos
        omega
      · show w.dropped + w.cpos + 0 = r.pos
        omega
    · have e1 : w.step B .setMark = (.unit, { w with mark := w.cpos }) := by
        simp only [Wrapper.step, hB, if_false]
      rw [e1]
      exact ⟨⟨hc, h.data, hp, hp, Nat.le_refl _⟩, rfl⟩
  | getMark =>
    refine ⟨h, ?_⟩
    show WOut.nat (w.mark + w.dropped) = WOut.nat r.mark
    congr 1; omega

/-- **the wrapper refines the seekable reference** for every history of permitted operations that
    name positions relatively (reads, peeks, tell, set mark, seek back by k, seek to the mark):
    identical octets, and positions identical up to the renumbering offset -/
theorem runOpsAbs_eq (B : Nat) : ∀ (ops : List WOp) (w : Wrapper) (r : Ref), Sim w r →
    r.preAll ops = true → (∀ op ∈ ops, op.relative = true) →
    Wrapper.runOpsAbs B w ops = Ref.runOps r ops
  | [], _, _, _, _, _ => rfl
  | op :: ops, w, r, h, hpre, hrel => by
    simp only [Ref.preAll, Bool.and_eq_true] at hpre
    obtain ⟨h1, h2⟩ := step_sim B w r op h hpre.1 (Or.inl (hrel op (by simp)))
    simp only [Wrapper.runOpsAbs, Ref.runOps]
    rw [h2, runOpsAbs_eq B ops _ _ h1 hpre.2 (fun o ho => hrel o (by simp [ho]))]

/-- no drop: every reported position is the reference's, absolute seeks included -/
theorem runOps_eq_nodrop (B : Nat) : ∀ (ops : List WOp) (w : Wrapper) (r : Ref), Sim w r →
    w.dropped = 0 → r.preAll ops = true → r.noDrop B ops = true →
    Wrapper.runOps B w ops = Ref.runOps r ops
  | [], _, _, _, _, _, _ => rfl
  | op :: ops, w, r, h, hd, hpre, hnd => by
    simp only [Ref.preAll, Bool.and_eq_true] at hpre
    simp only [Ref.noDrop, Bool.and_eq_true, Bool.or_eq_true, bne_iff_ne, ne_eq,
      decide_eq_true_eq] at hnd
    obtain ⟨h1, h2⟩ := step_sim B w r op h hpre.1 (Or.inr hd)
    have hd' : (w.step B op).2.dropped = 0 := by
      cases op with
      | read n => simp only [Wrapper.step]; rw [(read_spec w r n h).2.2.1]; exact hd
      | readAll => simp only [Wrapper.step]; rw [(readAll_spec w r h).2.2]; exact hd
      | peek n => simp only [Wrapper.step]; rw [(read_spec w r n h).2.2.1]; exact hd
      | seekSet p => exact hd
      | seekCur k => simp only [Wrapper.step]; split <;> exact hd
      | seekMark => exact hd
      | tell => exact hd
      | setMark =>
        have hp := h.pos
        have : ¬ B < w.cpos := by
          rcases hnd.1 with hne | hle
          · exact absurd rfl hne
          · omega
        simp only [Wrapper.step, this, if_false]; exact hd
      | getMark => exact hd
    rw [hd'] at h2
    have h3 : (w.step B op).1 = (r.step op).1 := by
      rw [← h2]; cases (w.step B op).1 <;> simp [WOut.shift]
    simp only [Wrapper.runOps, Ref.runOps]
    rw [h3, runOps_eq_nodrop B ops _ _ h1 hd' hpre.2 hnd.2]

/-- what the renumbering does: after reading more than `B` octets, setting the mark makes `tell()`
    restart from 0, while the seekable stream reports the true position -/
theorem renumber_witness (B : Nat) (d : Bytes) (hd : B + 1 ≤ d.length) :
    Wrapper.runOps B { raw := d } [.read (B + 1), .setMark, .tell] =
      [.bytes (d.take (B + 1)), .unit, .nat 0] ∧
    Ref.runOps { data := d } [.read (B + 1), .setMark, .tell] =
      [.bytes (d.take (B + 1)), .unit, .nat (B + 1)] := by
  constructor
  · simp only [Wrapper.runOps, Wrapper.step, Wrapper.read, bioRead]
    have h1 : ¬ (0 = B + 1) := by omega
    simp [h1, bioWrite, List.length_take, Nat.min_eq_left hd]
  · simp only [Ref.runOps, Ref.step, bioRead]
    simp [List.length_take, Nat.min_eq_left hd]

end Asn1.Stream
