/-
  Proofs.StreamParse — the framing parser as a stream program refines the list-level parser:
  wherever `parse` (Asn1/TLV.lean) succeeds on the octets at the current position, running `parseP`
  on the stream yields the same tree and ends exactly where `parse` left off (`run_parseP`).
  Hence everything proved about `parse` on well-formed input (Proofs/Parse.lean) holds for the
  streaming decoder's framing, and by `runSched_eq` under every arrival schedule.
-/
import Proofs.Stream
import Proofs.Fuel

namespace Asn1.Stream

variable {ε α β : Type}

/-- the unread part of the data `d` at position `pos` is exactly `bs` -/
def At (d : Bytes) (pos : Nat) (bs : Bytes) : Prop := pos ≤ d.length ∧ d.drop pos = bs

theorem At.length {d : Bytes} {pos : Nat} {bs : Bytes} (h : At d pos bs) :
    pos + bs.length = d.length := by
  obtain ⟨h1, h2⟩ := h
  have := congrArg List.length h2
  simp at this
  omega

theorem At.advance {d : Bytes} {pos : Nat} {x rest : Bytes} (h : At d pos (x ++ rest)) :
    At d (pos + x.length) rest := by
  have hl := h.length
  obtain ⟨h1, h2⟩ := h
  refine ⟨by simp at hl; omega, ?_⟩
  rw [← List.drop_drop, h2]
  simp

theorem readAns_at (k : Kind) (d : Bytes) (cl : Bool) (pos : Nat) (x rest : Bytes)
    (h : At d pos (x ++ rest)) : readAns k d cl pos x.length = .ok x := by
  have hl := h.length
  obtain ⟨h1, h2⟩ := h
  unfold readAns
  have : pos + x.length ≤ d.length := by simp at hl; omega
  simp only [this, if_true]
  rw [h2]
  simp

theorem run_read_at (k : Kind) (B : Nat) (d : Bytes) (cl : Bool) (s : St ε) (x rest : Bytes)
    (f : Bytes → Prog ε α) (h : At d s.pos (x ++ rest)) :
    run k B d cl (.read x.length f) s = run k B d cl (f x) { s with pos := s.pos + x.length } := by
  simp only [run, readAns_at k d cl s.pos x rest h]

/-- the same with the number of octets given separately -/
theorem run_read_at' (k : Kind) (B : Nat) (d : Bytes) (cl : Bool) (s : St ε) (n : Nat) (x rest : Bytes)
    (f : Bytes → Prog ε α) (h : At d s.pos (x ++ rest)) (hn : n = x.length) :
    run k B d cl (.read n f) s = run k B d cl (f x) { s with pos := s.pos + n } := by
  subst hn; exact run_read_at k B d cl s x rest f h

theorem bind_read (n : Nat) (f : Bytes → Prog ε α) (g : α → Prog ε β) :
    (Prog.read n f).bind g = .read n fun b => (f b).bind g := rfl

theorem bind_pure (a : α) (g : α → Prog ε β) : (Prog.pure a : Prog ε α).bind g = g a := rfl

theorem bind_assoc (p : Prog ε α) (g : α → Prog ε β) {γ : Type} (h : β → Prog ε γ) :
    (p.bind g).bind h = p.bind fun a => (g a).bind h := by
  induction p with
  | pure a => rfl
  | fail e => rfl
  | emit x p ih => simp only [Prog.bind, ih]
  | read n f ih => simp only [Prog.bind]; congr; funext b; exact ih b
  | readAll c f ih => simp only [Prog.bind]; congr; funext b; exact ih b
  | eos f ih => simp only [Prog.bind]; congr; funext b; exact ih b
  | tell f ih => simp only [Prog.bind]; congr; funext b; exact ih b
  | seekBack n p ih => simp only [Prog.bind, ih]
  | mark p ih => simp only [Prog.bind, ih]
  | toMark f ih => simp only [Prog.bind]; congr; funext b; exact ih b

/-! ### identifier and length octets -/

theorem run_tagNumP (k : Kind) (B : Nat) (d : Bytes) (cl : Bool) :
    ∀ (bs : Bytes) (acc num : Nat) (r : Bytes), decodeTagNum acc bs = .ok (num, r) →
    ∀ (tf : Nat), bs.length ≤ tf → ∀ (hb extra : Bytes) (s : St ε) (g : Nat × Bytes → Prog ε β),
      At d s.pos (bs ++ extra) →
      ∃ u, bs = u ++ r ∧
        run k B d cl ((tagNumP tf acc hb).bind g) s =
          run k B d cl (g (num, hb ++ u)) { s with pos := s.pos + u.length } := by
  intro bs
  induction bs with
  | nil => intro acc num r h; simp [decodeTagNum] at h
  | cons b rest ih =>
    intro acc num r h tf htf hb extra s g hat
    obtain ⟨tf', rfl⟩ : ∃ tf', tf = tf' + 1 := ⟨tf - 1, by simp at htf; omega⟩
    have hat' : At d s.pos ([b] ++ (rest ++ extra)) := by simpa using hat
    simp only [tagNumP, bind_read]
    rw [run_read_at' k B d cl s 1 [b] (rest ++ extra) _ hat' rfl]
    simp only [decodeTagNum] at h
    by_cases hlt : b.toNat < 128
    · simp only [hlt, if_true, Except.ok.injEq, Prod.mk.injEq] at h
      obtain ⟨rfl, rfl⟩ := h
      refine ⟨[b], rfl, ?_⟩
      simp only [hlt, if_true, bind_pure, List.length_singleton]
    · simp only [hlt, if_false] at h
      have hat2 := hat'.advance
      obtain ⟨u, hu, hrun⟩ := ih _ num r h tf' (by simp at htf; omega) (hb ++ [b]) extra
        { s with pos := s.pos + 1 } g (by simpa using hat2)
      refine ⟨b :: u, by rw [hu]; rfl, ?_⟩
      simp only [hlt, if_false]
      rw [hrun]
      simp [Nat.add_assoc, Nat.add_comm 1]

theorem run_tagP (k : Kind) (B : Nat) (d : Bytes) (cl : Bool) (bs : Bytes) (tag : Tag) (r : Bytes)
    (h : decodeTag bs = .ok (tag, r)) (tf : Nat) (htf : bs.length ≤ tf) (extra : Bytes) (s : St ε)
    (g : Tag × Bytes → Prog ε β) (hat : At d s.pos (bs ++ extra)) :
    ∃ u, bs = u ++ r ∧
      run k B d cl ((tagP tf).bind g) s = run k B d cl (g (tag, u)) { s with pos := s.pos + u.length } := by
  cases bs with
  | nil => simp [decodeTag] at h
  | cons b rest =>
    have hat' : At d s.pos ([b] ++ (rest ++ extra)) := by simpa using hat
    simp only [tagP, bind_read]
    rw [run_read_at' k B d cl s 1 [b] (rest ++ extra) _ hat' rfl]
    simp only [decodeTag] at h
    by_cases h31 : b.toNat % 32 = 31
    · simp only [h31, if_true] at h
      cases hn : decodeTagNum 0 rest with
      | error e => rw [hn] at h; simp at h
      | ok pr =>
        obtain ⟨num, r'⟩ := pr
        rw [hn] at h
        simp only [Except.ok.injEq, Prod.mk.injEq] at h
        obtain ⟨rfl, rfl⟩ := h
        have hat2 := hat'.advance
        simp only [h31, if_true, bind_assoc, bind_pure]
        obtain ⟨u, hu, hrun⟩ := run_tagNumP k B d cl rest 0 num r' hn tf (by simp at htf; omega) [b]
          extra { s with pos := s.pos + 1 }
          (fun r => g (⟨TagClass.ofBits b.toNat, decide (b.toNat / 32 % 2 = 1), r.1⟩, r.2))
          (by simpa using hat2)
        refine ⟨b :: u, by rw [hu]; rfl, ?_⟩
        rw [hrun]
        simp [Nat.add_assoc, Nat.add_comm 1]
    · simp only [h31, if_false, Except.ok.injEq, Prod.mk.injEq] at h
      obtain ⟨rfl, rfl⟩ := h
      refine ⟨[b], rfl, ?_⟩
      simp only [h31, if_false, bind_pure, List.length_singleton]

theorem run_lenP (k : Kind) (B : Nat) (d : Bytes) (cl : Bool) (bs : Bytes) (len : Len) (r : Bytes)
    (h : decodeLength bs = .ok (len, r)) (extra : Bytes) (s : St ε)
    (g : Len × Bytes → Prog ε β) (hat : At d s.pos (bs ++ extra)) :
    ∃ u, bs = u ++ r ∧
      run k B d cl (lenP.bind g) s = run k B d cl (g (len, u)) { s with pos := s.pos + u.length } := by
  cases bs with
  | nil => simp [decodeLength] at h
  | cons b rest =>
    have hat' : At d s.pos ([b] ++ (rest ++ extra)) := by simpa using hat
    simp only [lenP, bind_read]
    rw [run_read_at' k B d cl s 1 [b] (rest ++ extra) _ hat' rfl]
    simp only [decodeLength] at h
    by_cases h1 : b.toNat < 128
    · simp only [h1, if_true, Except.ok.injEq, Prod.mk.injEq] at h
      obtain ⟨rfl, rfl⟩ := h
      exact ⟨[b], rfl, by simp only [h1, if_true, bind_pure, List.length_singleton]⟩
    · by_cases h2 : b.toNat = 128
      · simp only [h1, h2, if_true, if_false, Except.ok.injEq, Prod.mk.injEq] at h
        obtain ⟨rfl, rfl⟩ := h
        refine ⟨[b], rfl, ?_⟩
        simp only [h2, if_true, List.length_singleton]
        rfl
      · by_cases h3 : b.toNat % 128 ≤ rest.length
        · simp only [h1, h2, h3, if_true, if_false, Except.ok.injEq, Prod.mk.injEq] at h
          obtain ⟨rfl, rfl⟩ := h
          have hat2 : At d (s.pos + 1) (rest.take (b.toNat % 128) ++ (rest.drop (b.toNat % 128) ++ extra)) := by
            have := hat'.advance
            simpa [← List.append_assoc, List.take_append_drop] using this
          refine ⟨b :: rest.take (b.toNat % 128), by simp, ?_⟩
          simp only [h1, h2, if_false, bind_read, bind_pure]
          rw [run_read_at' k B d cl { s with pos := s.pos + 1 } (b.toNat % 128)
            (rest.take (b.toNat % 128)) (rest.drop (b.toNat % 128) ++ extra) _ hat2
            (by simp [List.length_take]; omega)]
          simp [List.length_take, Nat.min_eq_left h3, Nat.add_assoc, Nat.add_comm 1]
        · simp [h1, h2, h3] at h

/-! ### the element parser -/

/-- no cache drop can happen: not the wrapped kind, or all the data fits the read-ahead buffer -/
def NoDropK (k : Kind) (B : Nat) (d : Bytes) : Prop := k = .wrapped → d.length ≤ B

theorem setMark_nodrop (k : Kind) (B : Nat) (d : Bytes) (h : NoDropK k B d) (s : St ε)
    (hp : s.pos ≤ d.length) (hb : s.base = 0) : s.setMark k B = { s with mark := s.pos } := by
  unfold St.setMark
  have : ¬ (k = .wrapped ∧ B < s.pos - s.base) := by
    rintro ⟨hk, hlt⟩
    have := h hk
    omega
  simp [this]

/-- what `parseP` does after the header: the value part, by length form (copied from `parseP`) -/
def valueP (cfg : ParseCfg) (tf f : Nat) (tag : Tag) (hdr : Bytes) : Len → Prog ε TLV
  | .definite n =>
    if tag.constructed then
      .tell fun orig => (childrenDefP cfg tf f n orig).bind fun cs => .pure (.cons hdr tag false cs)
    else .read n fun c => .pure (.prim hdr tag c)
  | .indefinite =>
    if !cfg.allowIndef then .fail .malformed
    else if !tag.constructed then .fail .malformed
    else (childrenIndefP cfg tf f).bind fun cs => .pure (.cons hdr tag true cs)

theorem parseP_succ (cfg : ParseCfg) (tf f : Nat) :
    (parseP cfg tf (f + 1) : Prog ε TLV) =
      .mark ((tagP tf).bind fun th => lenP.bind fun lh => valueP cfg tf f th.1 (th.2 ++ lh.2) lh.1) := by
  rw [parseP]
  rfl

/-- reading the header: the mark is set, identifier and length octets are consumed -/
theorem run_header (cfg : ParseCfg) (k : Kind) (B : Nat) (d : Bytes) (cl : Bool) (tf f : Nat)
    (hnd : NoDropK k B d) (bs : Bytes) (tag : Tag) (len : Len) (r1 r2 extra : Bytes) (s : St ε)
    (hd : decodeTag bs = .ok (tag, r1)) (hl : decodeLength r1 = .ok (len, r2))
    (htf : bs.length ≤ tf) (hat : At d s.pos (bs ++ extra)) (hb : s.base = 0) :
    ∃ hdr, bs = hdr ++ r2 ∧
      run k B d cl (parseP cfg tf (f + 1)) s =
        run k B d cl (valueP cfg tf f tag hdr len)
          { s with mark := s.pos, pos := s.pos + hdr.length } := by
  rw [parseP_succ]
  simp only [run]
  rw [setMark_nodrop k B d hnd s hat.1 hb]
  obtain ⟨u1, hu1, hrun1⟩ := run_tagP k B d cl bs tag r1 hd tf htf extra { s with mark := s.pos }
    (fun th => lenP.bind fun lh => valueP cfg tf f th.1 (th.2 ++ lh.2) lh.1) hat
  rw [hrun1]
  have hat1 : At d (s.pos + u1.length) (r1 ++ extra) := by
    have : At d s.pos (u1 ++ (r1 ++ extra)) := by rw [hu1] at hat; simpa using hat
    exact this.advance
  obtain ⟨u2, hu2, hrun2⟩ := run_lenP k B d cl r1 len r2 hl extra
    { s with mark := s.pos, pos := s.pos + u1.length }
    (fun lh => valueP cfg tf f tag (u1 ++ lh.2) lh.1) hat1
  refine ⟨u1 ++ u2, by rw [hu1, hu2]; simp, ?_⟩
  simp only at hrun2 ⊢
  rw [hrun2]
  simp [Nat.add_assoc]

theorem take_hdr (hdr r2 : Bytes) : (hdr ++ r2).take ((hdr ++ r2).length - r2.length) = hdr := by
  have : (hdr ++ r2).length - r2.length = hdr.length := by simp
  rw [this]; simp

theorem underrunToMalformed_ok {α : Type} (x : Res α) (a : α) (h : underrunToMalformed x = .ok a) :
    x = .ok a := by
  cases x with
  | ok b => simpa [underrunToMalformed] using h
  | error e => cases e <;> simp [underrunToMalformed] at h

mutual
/-- **refinement**: where the list-level parser succeeds on the octets at the current position,
    the stream program returns the same tree and stops where the parser stopped -/
theorem run_parseP (cfg : ParseCfg) (k : Kind) (B : Nat) (d : Bytes) (cl : Bool) (tf : Nat)
    (hnd : NoDropK k B d) : ∀ (fuel : Nat) (bs : Bytes) (t : TLV) (r : Bytes),
    parse cfg fuel bs = .ok (t, r) → bs.length ≤ tf →
    ∀ (extra : Bytes) (s : St ε), At d s.pos (bs ++ extra) → s.base = 0 →
      ∃ s', run k B d cl (parseP cfg tf fuel) s = .done t s' ∧ At d s'.pos (r ++ extra) ∧
        s'.base = 0 ∧ s'.out = s.out
  | 0, bs, t, r, h, _, _, _, _, _ => by simp [parse] at h
  | f + 1, bs, t, r, h, htf, extra, s, hat, hb => by
    cases hd : decodeTag bs with
    | error e => rw [parse_tag_err cfg f bs e hd] at h; simp at h
    | ok p =>
      obtain ⟨tag, r1⟩ := p
      cases hl : decodeLength r1 with
      | error e => rw [parse_len_err cfg f bs tag r1 e hd hl] at h; simp at h
      | ok q =>
        obtain ⟨len, r2⟩ := q
        obtain ⟨hdr, hbs, hrun⟩ := run_header cfg k B d cl tf f hnd bs tag len r1 r2 extra s hd hl htf hat hb
        rw [hrun]
        have hat2 : At d (s.pos + hdr.length) (r2 ++ extra) := by
          have : At d s.pos (hdr ++ (r2 ++ extra)) := by rw [hbs] at hat; simpa using hat
          exact this.advance
        have hhdr : bs.take (bs.length - r2.length) = hdr := by rw [hbs]; exact take_hdr hdr r2
        cases len with
        | definite n =>
          rw [parse_step_def cfg f bs tag n r1 r2 hd hl] at h
          by_cases hn : n ≤ r2.length
          · simp only [hn, if_true] at h
            have hsplit : r2 ++ extra = r2.take n ++ (r2.drop n ++ extra) := by
              rw [← List.append_assoc, List.take_append_drop]
            by_cases hc : tag.constructed
            · simp only [hc, if_true] at h
              cases hp : underrunToMalformed (parseAll cfg f (r2.take n)) with
              | error e => rw [hp] at h; simp at h
              | ok cs =>
                rw [hp] at h
                simp only [Except.ok.injEq, Prod.mk.injEq] at h
                obtain ⟨rfl, rfl⟩ := h
                have hall := underrunToMalformed_ok _ _ hp
                simp only [valueP, hc, if_true, run]
                rw [run_bind]
                obtain ⟨s', hr, hat', hb', ho'⟩ := run_childrenDefP cfg k B d cl tf hnd f (r2.take n) cs hall
                  (by rw [hbs] at htf; simp at htf; simp [List.length_take]; omega)
                  (r2.drop n ++ extra)
                  { s with mark := s.pos, pos := s.pos + hdr.length } (s.pos + hdr.length - s.base) n
                  (by rw [← hsplit]; exact hat2) hb
                  (by simp [List.length_take, Nat.min_eq_left hn, hb])
                rw [hr]
                simp only [run]
                exact ⟨s', by rw [hhdr], hat'.1, hb', ho'⟩
            · simp only [hc, Bool.false_eq_true, if_false, Except.ok.injEq, Prod.mk.injEq] at h
              obtain ⟨rfl, rfl⟩ := h
              simp only [valueP, hc, Bool.false_eq_true, if_false]
              rw [run_read_at' k B d cl _ n (r2.take n) (r2.drop n ++ extra) _
                (by rw [← hsplit]; exact hat2) (by simp [List.length_take, Nat.min_eq_left hn])]
              simp only [run]
              refine ⟨{ s with mark := s.pos, pos := s.pos + hdr.length + n }, by rw [hhdr], ?_, hb, rfl⟩
              have : At d (s.pos + hdr.length) (r2.take n ++ (r2.drop n ++ extra)) := by
                rw [← hsplit]; exact hat2
              have := this.advance
              simpa [List.length_take, Nat.min_eq_left hn] using this
          · simp [hn] at h
        | indefinite =>
          rw [parse_step_indef cfg f bs tag r1 r2 hd hl] at h
          by_cases hi : cfg.allowIndef
          · by_cases hc : tag.constructed
            · simp only [hi, hc, Bool.not_true, Bool.false_eq_true, if_false] at h
              cases hp : parseUntilEoo cfg f r2 with
              | error e => rw [hp] at h; simp at h
              | ok pr =>
                obtain ⟨cs, rest'⟩ := pr
                rw [hp] at h
                simp only [Except.ok.injEq, Prod.mk.injEq] at h
                obtain ⟨rfl, rfl⟩ := h
                simp only [valueP, hi, hc, Bool.not_true, Bool.false_eq_true, if_false]
                rw [run_bind]
                obtain ⟨s', hr, hat', hb', ho'⟩ := run_childrenIndefP cfg k B d cl tf hnd f r2 cs rest' hp
                  (by rw [hbs] at htf; simp at htf; omega) extra
                  { s with mark := s.pos, pos := s.pos + hdr.length } hat2 hb
                rw [hr]
                simp only [run]
                exact ⟨s', by rw [hhdr], hat', hb', ho'⟩
            · simp [hi, hc] at h
          · simp [hi] at h
/-- the components of a definite-length constructed element -/
theorem run_childrenDefP (cfg : ParseCfg) (k : Kind) (B : Nat) (d : Bytes) (cl : Bool) (tf : Nat)
    (hnd : NoDropK k B d) : ∀ (fuel : Nat) (content : Bytes) (cs : List TLV),
    parseAll cfg fuel content = .ok cs → content.length ≤ tf →
    ∀ (extra : Bytes) (s : St ε) (orig n : Nat), At d s.pos (content ++ extra) → s.base = 0 →
      s.pos + content.length = orig + n →
      ∃ s', run k B d cl (childrenDefP cfg tf fuel n orig) s = .done cs s' ∧
        (At d s'.pos extra ∧ s'.pos = orig + n) ∧ s'.base = 0 ∧ s'.out = s.out
  | 0, content, cs, h, _, _, _, _, _, _, _, _ => by simp [parseAll] at h
  | f + 1, [], cs, h, _, extra, s, orig, n, hat, hb, hpos => by
    simp only [parseAll, Except.ok.injEq] at h
    subst h
    simp only [childrenDefP, run, hb, Nat.sub_zero]
    have h1 : ¬ ((s.pos : Int) - orig < n) := by simp at hpos; omega
    have h2 : (s.pos : Int) - orig = n := by simp at hpos; omega
    rw [if_neg h1, if_pos h2]
    simp only [run]
    exact ⟨s, rfl, ⟨by simpa using hat, by simpa using hpos⟩, hb, rfl⟩
  | f + 1, b :: bs, cs, h, htf, extra, s, orig, n, hat, hb, hpos => by
    rw [parseAll] at h
    cases hp : parse cfg f (b :: bs) with
    | error e => rw [hp] at h; simp at h
    | ok pr =>
      obtain ⟨c, rest⟩ := pr
      rw [hp] at h
      simp only at h
      cases hq : parseAll cfg f rest with
      | error e => rw [hq] at h; simp at h
      | ok cs' =>
        rw [hq] at h
        simp only [Except.ok.injEq] at h
        subst h
        have hcons := parse_consumes cfg f _ c rest hp
        simp only [childrenDefP, run, hb, Nat.sub_zero]
        have h1 : (s.pos : Int) - orig < n := by simp at hpos; omega
        simp only [h1, if_true]
        rw [run_bind]
        obtain ⟨s1, hr1, hat1, hb1, ho1⟩ := run_parseP cfg k B d cl tf hnd f (b :: bs) c rest hp htf extra s hat hb
        rw [hr1]
        simp only
        rw [run_bind]
        have hlen0 := hat.length
        have hlen1 := hat1.length
        obtain ⟨s2, hr2, hat2, hb2, ho2⟩ := run_childrenDefP cfg k B d cl tf hnd f rest cs' hq
          (by simp at htf hcons; omega) extra s1 orig n hat1 hb1
          (by simp at hlen0 hlen1 hpos; omega)
        rw [hr2]
        simp only [run]
        exact ⟨s2, rfl, hat2, hb2, by rw [ho2, ho1]⟩
/-- the components of an indefinite-length element, up to and including the end-of-octets marker -/
theorem run_childrenIndefP (cfg : ParseCfg) (k : Kind) (B : Nat) (d : Bytes) (cl : Bool) (tf : Nat)
    (hnd : NoDropK k B d) : ∀ (fuel : Nat) (bs : Bytes) (cs : List TLV) (r : Bytes),
    parseUntilEoo cfg fuel bs = .ok (cs, r) → bs.length ≤ tf →
    ∀ (extra : Bytes) (s : St ε), At d s.pos (bs ++ extra) → s.base = 0 →
      ∃ s', run k B d cl (childrenIndefP cfg tf fuel) s = .done cs s' ∧ At d s'.pos (r ++ extra) ∧
        s'.base = 0 ∧ s'.out = s.out
  | 0, bs, cs, r, h, _, _, _, _, _ => by simp [parseUntilEoo] at h
  | f + 1, [], cs, r, h, _, _, _, _, _ => by simp [parseUntilEoo] at h
  | f + 1, [_], cs, r, h, _, _, _, _, _ => by simp [parseUntilEoo] at h
  | f + 1, a :: b :: bs, cs, r, h, htf, extra, s, hat, hb => by
    obtain ⟨pos, mark, base, out⟩ := s
    simp only at hat hb
    subst hb
    rw [parseUntilEoo] at h
    have hat' : At d pos ([a, b] ++ (bs ++ extra)) := by simpa using hat
    simp only [childrenIndefP]
    rw [run_read_at' k B d cl { pos := pos, mark := mark, base := 0, out := out } 2 [a, b] (bs ++ extra) _ hat' rfl]
    by_cases hab : a = 0 ∧ b = 0
    · simp only [hab, and_self, if_true, Except.ok.injEq, Prod.mk.injEq] at h
      obtain ⟨rfl, rfl⟩ := h
      obtain ⟨rfl, rfl⟩ := hab
      simp only [eooBytes, if_true, run]
      refine ⟨_, rfl, ?_, rfl, rfl⟩
      simpa using hat'.advance
    · simp only [hab, if_false] at h
      have hne : ¬ ([a, b] = eooBytes) := by
        intro he; simp [eooBytes] at he; exact hab he
      simp only [hne, if_false, run, Nat.sub_zero]
      have h2 : 2 ≤ pos + 2 := by omega
      simp only [h2, if_true, Nat.add_sub_cancel]
      cases hp : parse cfg f (a :: b :: bs) with
      | error e => rw [hp] at h; simp at h
      | ok pr =>
        obtain ⟨c, rest⟩ := pr
        rw [hp] at h
        simp only at h
        cases hq : parseUntilEoo cfg f rest with
        | error e => rw [hq] at h; simp at h
        | ok pq =>
          obtain ⟨cs', r'⟩ := pq
          rw [hq] at h
          simp only [Except.ok.injEq, Prod.mk.injEq] at h
          obtain ⟨rfl, rfl⟩ := h
          have hcons := parse_consumes cfg f _ c rest hp
          rw [run_bind]
          obtain ⟨s1, hr1, hat1, hb1, ho1⟩ := run_parseP cfg k B d cl tf hnd f (a :: b :: bs) c rest hp htf
            extra { pos := pos, mark := mark, base := 0, out := out } hat rfl
          rw [hr1]
          simp only
          rw [run_bind]
          obtain ⟨s2, hr2, hat2, hb2, ho2⟩ := run_childrenIndefP cfg k B d cl tf hnd f rest cs' r' hq
            (by simp at htf hcons; omega) extra s1 hat1 hb1
          rw [hr2]
          simp only [run]
          exact ⟨s2, rfl, hat2, hb2, by rw [ho2, ho1]⟩
end

end Asn1.Stream
