/-
  Proofs.Mono — the stricter decoders are restrictions of the wider ones: whatever a stricter
  configuration accepts, a wider one accepts with the same result.  Hence any two of the three
  decoders that both accept some octets under the same type return the same value.
-/
import Asn1.Decoder
import Proofs.Fuel
import Proofs.DecTags

namespace Asn1

/-! ### framing -/

mutual
theorem parse_mono (a b : ParseCfg) (hab : a.allowIndef = true → b.allowIndef = true) :
    ∀ (f : Nat) (bs : Bytes) (r : TLV × Bytes), parse a f bs = .ok r → parse b f bs = .ok r
  | 0, bs, r, h => by simp [parse] at h
  | f + 1, bs, r, h => by
      cases hd : decodeTag bs with
      | error e => rw [parse_tag_err a f bs e hd] at h; simp at h
      | ok p =>
        obtain ⟨tag, r1⟩ := p
        cases hl : decodeLength r1 with
        | error e => rw [parse_len_err a f bs tag r1 e hd hl] at h; simp at h
        | ok q =>
          obtain ⟨len, r2⟩ := q
          cases len with
          | definite n =>
            rw [parse_step_def a f bs tag n r1 r2 hd hl] at h
            rw [parse_step_def b f bs tag n r1 r2 hd hl]
            by_cases hn : n ≤ r2.length
            · by_cases hc : tag.constructed
              · simp only [hn, hc, if_true] at h ⊢
                cases hp : parseAll a f (r2.take n) with
                | error e =>
                  rw [hp] at h
                  cases e <;> simp [underrunToMalformed] at h
                | ok cs =>
                  rw [hp] at h
                  rw [parseAll_mono a b hab f _ cs hp]
                  exact h
              · simpa [hn, hc] using h
            · simp [hn] at h
          | indefinite =>
            rw [parse_step_indef a f bs tag r1 r2 hd hl] at h
            rw [parse_step_indef b f bs tag r1 r2 hd hl]
            by_cases hi : a.allowIndef = true
            · by_cases hc : tag.constructed
              · simp only [hi, hab hi, hc, Bool.not_true, Bool.false_eq_true, if_false] at h ⊢
                cases hp : parseUntilEoo a f r2 with
                | error e => rw [hp] at h; simp at h
                | ok pr =>
                  rw [hp] at h
                  rw [parseUntil_mono a b hab f r2 pr hp]
                  exact h
              · simp [hi, hc] at h
            · simp [hi] at h
theorem parseAll_mono (a b : ParseCfg) (hab : a.allowIndef = true → b.allowIndef = true) :
    ∀ (f : Nat) (bs : Bytes) (r : List TLV), parseAll a f bs = .ok r → parseAll b f bs = .ok r
  | 0, bs, r, h => by simp [parseAll] at h
  | f + 1, [], r, h => by simpa [parseAll] using h
  | f + 1, x :: bs, r, h => by
      rw [parseAll] at h
      rw [parseAll]
      cases hp : parse a f (x :: bs) with
      | error e => rw [hp] at h; simp at h
      | ok pr =>
        obtain ⟨t, rest⟩ := pr
        rw [hp] at h
        simp only at h
        rw [parse_mono a b hab f _ _ hp]
        simp only
        cases hq : parseAll a f rest with
        | error e => rw [hq] at h; simp at h
        | ok ts =>
          rw [hq] at h
          rw [parseAll_mono a b hab f rest ts hq]
          exact h
theorem parseUntil_mono (a b : ParseCfg) (hab : a.allowIndef = true → b.allowIndef = true) :
    ∀ (f : Nat) (bs : Bytes) (r : List TLV × Bytes),
      parseUntilEoo a f bs = .ok r → parseUntilEoo b f bs = .ok r
  | 0, bs, r, h => by simp [parseUntilEoo] at h
  | f + 1, [], r, h => by simp [parseUntilEoo] at h
  | f + 1, [_], r, h => by simp [parseUntilEoo] at h
  | f + 1, x :: y :: bs, r, h => by
      rw [parseUntilEoo] at h
      rw [parseUntilEoo]
      by_cases hxy : x = 0 ∧ y = 0
      · simpa [hxy] using h
      · simp only [hxy, if_false] at h ⊢
        cases hp : parse a f (x :: y :: bs) with
        | error e => rw [hp] at h; simp at h
        | ok pr =>
          obtain ⟨t, rest⟩ := pr
          rw [hp] at h
          simp only at h
          rw [parse_mono a b hab f _ _ hp]
          simp only
          cases hq : parseUntilEoo a f rest with
          | error e => rw [hq] at h; simp at h
          | ok q =>
            rw [hq] at h
            rw [parseUntil_mono a b hab f rest q hq]
            exact h
end

/-! ### payload -/

/-- `a` is at least as strict as `b` -/
structure DecCfg.Stricter (a b : DecCfg) : Prop where
  indef : a.parse.allowIndef = true → b.parse.allowIndef = true
  bool : a.boolStrict = false → b.boolStrict = false
  bits : a.consBits = true → b.consBits = true
  strs : ∀ k, a.consStr.contains k = true → b.consStr.contains k = true

theorem decPrim_mono (a b : DecCfg) (hs : a.Stricter b) (p : PrimTy) (x : TLV) (v : Val)
    (h : decPrim a p x = .ok v) : decPrim b p x = .ok v := by
  cases p with
  | boolean =>
    cases x with
    | cons hd tg i cs => simp [decPrim] at h
    | prim hd tg c =>
      simp only [decPrim] at h ⊢
      cases ha : a.boolStrict with
      | false => rw [ha] at h; rw [hs.bool ha]; exact h
      | true =>
        rw [ha] at h
        simp only [if_true] at h
        match c, h with
        | [o], h =>
          by_cases h1 : o = 0xFF
          · subst h1
            simp only [if_true, Except.ok.injEq] at h
            subst h
            cases b.boolStrict <;> simp [intFromBytes, intFromBytesAux]
          · by_cases h2 : o = 0
            · subst h2
              simp only [h1, if_false, if_true, Except.ok.injEq] at h
              subst h
              cases b.boolStrict <;> simp [intFromBytes, intFromBytesAux]
            · simp [h1, h2] at h
        | [], h => simp at h
        | _ :: _ :: _, h => simp at h
  | integer => cases x <;> simpa [decPrim] using h
  | enumerated => cases x <;> simpa [decPrim] using h
  | null => cases x <;> simpa [decPrim] using h
  | oid => cases x <;> simpa [decPrim] using h
  | real => cases x <;> simpa [decPrim] using h
  | bitString =>
    cases x with
    | prim hd tg c => simpa [decPrim] using h
    | cons hd tg i cs =>
      simp only [decPrim] at h ⊢
      by_cases he : (!i && cs.isEmpty) = true
      · simp [he] at h
      · simp only [he, Bool.false_eq_true, if_false] at h ⊢
        cases hc : a.consBits with
        | false => rw [hc] at h; simp at h
        | true => rw [hc] at h; rw [hs.bits hc]; exact h
  | str k =>
    cases x with
    | prim hd tg c => simpa [decPrim] using h
    | cons hd tg i cs =>
      simp only [decPrim] at h ⊢
      cases hc : a.consStr.contains k with
      | false => rw [hc] at h; simp at h
      | true => rw [hc] at h; rw [hs.strs k hc]; exact h

theorem map_ok {α β} {f : α → β} {r : Res α} {y : β} (h : Except.map f r = .ok y) :
    ∃ x, r = .ok x ∧ f x = y := by
  cases r with
  | error e => simp [Except.map] at h
  | ok x => exact ⟨x, rfl, by simpa [Except.map] using h⟩

variable (a b : DecCfg) (hs : a.Stricter b)
include hs

theorem decElems_mono (t : Ty) (ih : ∀ x v, decTy a t x = .ok v → decTy b t x = .ok v) :
    ∀ (cs : List TLV) (vs : List Val), decElems a t cs = .ok vs → decElems b t cs = .ok vs
  | [], vs, h => by simpa [decElems] using h
  | c :: cs, vs, h => by
      simp only [decElems] at h ⊢
      cases hc : decTy a t c with
      | error e => rw [hc] at h; simp at h
      | ok v =>
        rw [hc] at h
        rw [ih c v hc]
        simp only at h ⊢
        obtain ⟨ws, hw, rfl⟩ := map_ok h
        rw [decElems_mono t ih cs ws hw]
        rfl

mutual
theorem decTy_mono : ∀ (t : Ty) (x : TLV) (v : Val), decTy a t x = .ok v → decTy b t x = .ok v
  | .tagged true cls num t, x, v, h => by
      cases x with
      | prim hd tg c => rw [decTy_explicit_prim] at h; simp at h
      | cons hd tg i cs =>
        match cs, h with
        | [], h => rw [decTy_explicit_many _ _ _ _ _ _ _ _ (by simp)] at h; simp at h
        | _ :: _ :: _, h => rw [decTy_explicit_many _ _ _ _ _ _ _ _ (by simp)] at h; simp at h
        | [c], h =>
          rw [decTy_explicit_one] at h ⊢
          by_cases ht : tg.cls = cls ∧ tg.num = num
          · simp only [ht, and_self, if_true] at h ⊢
            exact decTy_mono t c v h
          · simp [ht] at h
  | .tagged false cls num t, x, v, h => by
      simp only [decTy] at h ⊢
      by_cases ht : x.tag.cls = cls ∧ x.tag.num = num
      · simp only [ht, and_self, if_true] at h ⊢
        exact decBody_mono t x v h
      · simp [ht] at h
  | .choice fs, x, v, h => by
      simp only [decTy] at h ⊢
      exact decAlt_mono fs 0 x v h
  | .any, x, v, h => by simpa [decTy] using h
  | .prim p, x, v, h => by
      simp only [decTy] at h ⊢
      by_cases ht : x.tag.cls = .universal ∧ x.tag.num = p.univNum
      · simp only [ht, and_self, if_true] at h ⊢
        exact decPrim_mono a b hs p x v h
      · simp [ht] at h
  | .seq fs, x, v, h => by
      simp only [decTy] at h ⊢
      by_cases ht : x.tag.cls = .universal ∧ x.tag.num = 16
      · simp only [ht, and_self, if_true] at h ⊢
        exact decBody_mono (.seq fs) x v h
      · simp [ht] at h
  | .seqOf t, x, v, h => by
      simp only [decTy] at h ⊢
      by_cases ht : x.tag.cls = .universal ∧ x.tag.num = 16
      · simp only [ht, and_self, if_true] at h ⊢
        exact decBody_mono (.seqOf t) x v h
      · simp [ht] at h
  | .set fs, x, v, h => by
      simp only [decTy] at h ⊢
      by_cases ht : x.tag.cls = .universal ∧ x.tag.num = 17
      · simp only [ht, and_self, if_true] at h ⊢
        exact decBody_mono (.set fs) x v h
      · simp [ht] at h
  | .setOf t, x, v, h => by
      simp only [decTy] at h ⊢
      by_cases ht : x.tag.cls = .universal ∧ x.tag.num = 17
      · simp only [ht, and_self, if_true] at h ⊢
        exact decBody_mono (.setOf t) x v h
      · simp [ht] at h
theorem decBody_mono : ∀ (t : Ty) (x : TLV) (v : Val), decBody a t x = .ok v → decBody b t x = .ok v
  | .tagged true cls num t, x, v, h => by
      cases x with
      | prim hd tg c => rw [decBody_explicit_prim] at h; simp at h
      | cons hd tg i cs =>
        match cs, h with
        | [], h => rw [decBody_explicit_many _ _ _ _ _ _ _ _ (by simp)] at h; simp at h
        | _ :: _ :: _, h => rw [decBody_explicit_many _ _ _ _ _ _ _ _ (by simp)] at h; simp at h
        | [c], h =>
          rw [decBody_explicit_one] at h ⊢
          exact decTy_mono t c v h
  | .tagged false cls num t, x, v, h => by
      simp only [decBody] at h ⊢
      exact decBody_mono t x v h
  | .prim p, x, v, h => by
      simp only [decBody] at h ⊢
      exact decPrim_mono a b hs p x v h
  | .any, x, v, h => by
      cases x <;> simpa [decBody] using h
  | .seq fs, x, v, h => by
      cases x with
      | prim hd tg c => simp [decBody] at h
      | cons hd tg i cs =>
        simp only [decBody] at h ⊢
        obtain ⟨ws, hw, rfl⟩ := map_ok h
        rw [decFields_mono fs cs ws hw]; rfl
  | .set fs, x, v, h => by
      cases x with
      | prim hd tg c => simp [decBody] at h
      | cons hd tg i cs =>
        simp only [decBody] at h ⊢
        cases hd' : decSet a fs cs (defaultsOf fs) with
        | error e => rw [hd'] at h; simp at h
        | ok ws =>
          rw [hd'] at h
          rw [decSet_mono fs cs (defaultsOf fs) ws hd']
          exact h
  | .seqOf t, x, v, h => by
      cases x with
      | prim hd tg c => simp [decBody] at h
      | cons hd tg i cs =>
        simp only [decBody] at h ⊢
        obtain ⟨ws, hw, rfl⟩ := map_ok h
        rw [decElems_mono a b hs t (fun x v => decTy_mono t x v) cs ws hw]; rfl
  | .setOf t, x, v, h => by
      cases x with
      | prim hd tg c => simp [decBody] at h
      | cons hd tg i cs =>
        simp only [decBody] at h ⊢
        obtain ⟨ws, hw, rfl⟩ := map_ok h
        rw [decElems_mono a b hs t (fun x v => decTy_mono t x v) cs ws hw]; rfl
  | .choice fs, x, v, h => by
      cases x with
      | prim hd tg c => simp [decBody] at h
      | cons hd tg i cs =>
        match cs, h with
        | [], h => simp [decBody] at h
        | _ :: _ :: _, h => simp [decBody] at h
        | [c], h =>
          simp only [decBody] at h ⊢
          exact decAlt_mono fs 0 c v h
theorem decAlt_mono : ∀ (fs : Fields) (i : Nat) (x : TLV) (v : Val),
    decAlt a fs i x = .ok v → decAlt b fs i x = .ok v
  | .nil, _, _, _, h => by simp [decAlt] at h
  | .cons k t rest, i, x, v, h => by
      simp only [decAlt] at h ⊢
      by_cases hacc : t.accepts x.tag = true
      · simp only [hacc, if_true] at h ⊢
        obtain ⟨w, hw, rfl⟩ := map_ok h
        rw [decTy_mono t x w hw]; rfl
      · simp only [hacc, Bool.false_eq_true, if_false] at h ⊢
        exact decAlt_mono rest (i + 1) x v h
theorem decFields_mono : ∀ (fs : Fields) (cs : List TLV) (vs : List Val),
    decFields a fs cs = .ok vs → decFields b fs cs = .ok vs
  | .nil, [], vs, h => by simpa [decFields] using h
  | .nil, _ :: _, vs, h => by simp [decFields] at h
  | .cons .req t rest, [], vs, h => by simp [decFields] at h
  | .cons .opt t rest, [], vs, h => by
      simp only [decFields] at h ⊢
      obtain ⟨ws, hw, rfl⟩ := map_ok h
      rw [decFields_mono rest [] ws hw]; rfl
  | .cons (.dflt d) t rest, [], vs, h => by
      simp only [decFields] at h ⊢
      obtain ⟨ws, hw, rfl⟩ := map_ok h
      rw [decFields_mono rest [] ws hw]; rfl
  | .cons .req t rest, c :: cs, vs, h => by
      simp only [decFields] at h ⊢
      cases hc : decTy a t c with
      | error e => rw [hc] at h; simp at h
      | ok v =>
        rw [hc] at h
        rw [decTy_mono t c v hc]
        simp only at h ⊢
        obtain ⟨ws, hw, rfl⟩ := map_ok h
        rw [decFields_mono rest cs ws hw]; rfl
  | .cons .opt t rest, c :: cs, vs, h => by
      simp only [decFields] at h ⊢
      by_cases hacc : t.accepts c.tag = true
      · simp only [hacc, if_true] at h ⊢
        cases hc : decTy a t c with
        | error e => rw [hc] at h; simp at h
        | ok v =>
          rw [hc] at h
          rw [decTy_mono t c v hc]
          simp only at h ⊢
          obtain ⟨ws, hw, rfl⟩ := map_ok h
          rw [decFields_mono rest cs ws hw]; rfl
      · simp only [hacc, Bool.false_eq_true, if_false] at h ⊢
        obtain ⟨ws, hw, rfl⟩ := map_ok h
        rw [decFields_mono rest (c :: cs) ws hw]; rfl
  | .cons (.dflt d) t rest, c :: cs, vs, h => by
      simp only [decFields] at h ⊢
      by_cases hacc : t.accepts c.tag = true
      · simp only [hacc, if_true] at h ⊢
        cases hc : decTy a t c with
        | error e => rw [hc] at h; simp at h
        | ok v =>
          rw [hc] at h
          rw [decTy_mono t c v hc]
          simp only at h ⊢
          obtain ⟨ws, hw, rfl⟩ := map_ok h
          rw [decFields_mono rest cs ws hw]; rfl
      · simp only [hacc, Bool.false_eq_true, if_false] at h ⊢
        obtain ⟨ws, hw, rfl⟩ := map_ok h
        rw [decFields_mono rest (c :: cs) ws hw]; rfl
theorem decSet_mono (fs : Fields) : ∀ (cs : List TLV) (acc vs : List Val),
    decSet a fs cs acc = .ok vs → decSet b fs cs acc = .ok vs
  | [], acc, vs, h => by simpa [decSet] using h
  | c :: cs, acc, vs, h => by
      simp only [decSet] at h ⊢
      cases hm : decMember a fs 0 c with
      | error e => rw [hm] at h; simp at h
      | ok p =>
        obtain ⟨i, w⟩ := p
        rw [hm] at h
        rw [decMember_mono fs 0 c (i, w) hm]
        simp only at h ⊢
        exact decSet_mono fs cs _ vs h
theorem decMember_mono : ∀ (fs : Fields) (i : Nat) (x : TLV) (r : Nat × Val),
    decMember a fs i x = .ok r → decMember b fs i x = .ok r
  | .nil, _, _, _, h => by simp [decMember] at h
  | .cons k t rest, i, x, r, h => by
      simp only [decMember] at h ⊢
      by_cases hacc : t.accepts x.tag = true
      · simp only [hacc, if_true] at h ⊢
        obtain ⟨w, hw, rfl⟩ := map_ok h
        rw [decTy_mono t x w hw]; rfl
      · simp only [hacc, Bool.false_eq_true, if_false] at h ⊢
        exact decMember_mono rest (i + 1) x r h
end

/-- what the stricter decoder accepts, the wider one accepts with the same result -/
theorem decodeOne_mono (t : Ty) (bs : Bytes) (r : Val × Bytes) (h : decodeOne a t bs = .ok r) :
    decodeOne b t bs = .ok r := by
  unfold decodeOne at h ⊢
  cases hp : parseOne a.parse bs with
  | error e => rw [hp] at h; simp at h
  | ok p =>
    obtain ⟨x, rest⟩ := p
    rw [hp] at h
    have hp' : parseOne b.parse bs = .ok (x, rest) := parse_mono a.parse b.parse hs.indef _ bs _ hp
    rw [hp']
    simp only at h ⊢
    obtain ⟨w, hw, rfl⟩ := map_ok h
    rw [decTy_mono a b hs t x w hw]; rfl

end Asn1
