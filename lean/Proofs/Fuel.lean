/-
  Proofs.Fuel — termination of the parser on *arbitrary* input (the syntactic half of C08):
    * every successful step consumes at least two octets,
    * with fuel `|input| + 2` the parser never runs out of fuel, whatever the bytes are,
    * more fuel never changes an answer.
-/
import Proofs.Prefix

namespace Asn1

theorem decodeTagNum_len (acc : Nat) (bs : Bytes) (n : Nat) (r : Bytes)
    (h : decodeTagNum acc bs = .ok (n, r)) : r.length + 1 ≤ bs.length := by
  induction bs generalizing acc with
  | nil => simp [decodeTagNum] at h
  | cons b rest ih =>
    simp only [decodeTagNum] at h
    by_cases hb : b.toNat < 128
    · simp only [hb, if_true, Except.ok.injEq, Prod.mk.injEq] at h
      obtain ⟨_, rfl⟩ := h; simp
    · simp only [hb, if_false] at h
      have := ih _ h; simp; omega

theorem decodeTag_len (bs : Bytes) (t : Tag) (r : Bytes) (h : decodeTag bs = .ok (t, r)) :
    r.length + 1 ≤ bs.length := by
  cases bs with
  | nil => simp [decodeTag] at h
  | cons b rest =>
    simp only [decodeTag] at h
    by_cases h31 : b.toNat % 32 = 31
    · simp only [h31, if_true] at h
      cases hn : decodeTagNum 0 rest with
      | error e => rw [hn] at h; simp at h
      | ok p =>
        obtain ⟨num, r'⟩ := p
        rw [hn] at h
        simp only [Except.ok.injEq, Prod.mk.injEq] at h
        obtain ⟨_, rfl⟩ := h
        have := decodeTagNum_len 0 rest num r' hn
        simp; omega
    · simp only [h31, if_false, Except.ok.injEq, Prod.mk.injEq] at h
      obtain ⟨_, rfl⟩ := h; simp

theorem decodeLength_len (bs : Bytes) (l : Len) (r : Bytes) (h : decodeLength bs = .ok (l, r)) :
    r.length + 1 ≤ bs.length := by
  cases bs with
  | nil => simp [decodeLength] at h
  | cons b rest =>
    simp only [decodeLength] at h
    by_cases h1 : b.toNat < 128
    · simp only [h1, if_true, Except.ok.injEq, Prod.mk.injEq] at h
      obtain ⟨_, rfl⟩ := h; simp
    · by_cases h2 : b.toNat = 128
      · simp only [h1, h2, if_true, if_false, Except.ok.injEq, Prod.mk.injEq] at h
        obtain ⟨_, rfl⟩ := h; simp
      · by_cases h3 : b.toNat % 128 ≤ rest.length
        · simp only [h1, h2, h3, if_true, if_false, Except.ok.injEq, Prod.mk.injEq] at h
          obtain ⟨_, rfl⟩ := h; simp
        · simp [h1, h2, h3] at h

/-- the shape of one parser step once a definite-length header has been read -/
theorem parse_step_def (cfg : ParseCfg) (f : Nat) (bs : Bytes) (tag : Tag) (n : Nat) (r1 r2 : Bytes)
    (h1 : decodeTag bs = .ok (tag, r1)) (h2 : decodeLength r1 = .ok (.definite n, r2)) :
    parse cfg (f + 1) bs =
      (if n ≤ r2.length then
        if tag.constructed then
          match underrunToMalformed (parseAll cfg f (r2.take n)) with
          | .ok cs => .ok (.cons (bs.take (bs.length - r2.length)) tag false cs, r2.drop n)
          | .error e => .error e
        else .ok (.prim (bs.take (bs.length - r2.length)) tag (r2.take n), r2.drop n)
      else .error .underrun) := by
  rw [parse, h1]; simp only [h2]; rfl

theorem parse_step_indef (cfg : ParseCfg) (f : Nat) (bs : Bytes) (tag : Tag) (r1 r2 : Bytes)
    (h1 : decodeTag bs = .ok (tag, r1)) (h2 : decodeLength r1 = .ok (.indefinite, r2)) :
    parse cfg (f + 1) bs =
      (if !cfg.allowIndef then .error .malformed
       else if !tag.constructed then .error .malformed
       else
        match parseUntilEoo cfg f r2 with
        | .ok (cs, rest) => .ok (.cons (bs.take (bs.length - r2.length)) tag true cs, rest)
        | .error e => .error e) := by
  rw [parse, h1]; simp only [h2]; rfl

mutual
theorem parse_consumes (cfg : ParseCfg) : ∀ (f : Nat) (bs : Bytes) (t : TLV) (rest : Bytes),
    parse cfg f bs = .ok (t, rest) → rest.length + 2 ≤ bs.length
  | 0, bs, t, rest, h => by simp [parse] at h
  | f + 1, bs, t, rest, h => by
      cases hd : decodeTag bs with
      | error e => rw [parse_tag_err cfg f bs e hd] at h; simp at h
      | ok p =>
        obtain ⟨tag, r1⟩ := p
        cases hl : decodeLength r1 with
        | error e => rw [parse_len_err cfg f bs tag r1 e hd hl] at h; simp at h
        | ok q =>
          obtain ⟨len, r2⟩ := q
          have a1 := decodeTag_len bs tag r1 hd
          have a2 := decodeLength_len r1 len r2 hl
          cases len with
          | definite n =>
            rw [parse_step_def cfg f bs tag n r1 r2 hd hl] at h
            by_cases hn : n ≤ r2.length
            · simp only [hn, if_true] at h
              by_cases hc : tag.constructed
              · simp only [hc, if_true] at h
                cases hp : underrunToMalformed (parseAll cfg f (r2.take n)) with
                | error e => rw [hp] at h; simp at h
                | ok cs =>
                  rw [hp] at h
                  simp only [Except.ok.injEq, Prod.mk.injEq] at h
                  obtain ⟨_, rfl⟩ := h
                  simp; omega
              · simp only [hc, Bool.false_eq_true, if_false, Except.ok.injEq, Prod.mk.injEq] at h
                obtain ⟨_, rfl⟩ := h
                simp; omega
            · simp [hn] at h
          | indefinite =>
            rw [parse_step_indef cfg f bs tag r1 r2 hd hl] at h
            by_cases hi : cfg.allowIndef
            · by_cases hc : tag.constructed
              · simp only [hi, hc, Bool.not_true, Bool.false_eq_true, if_false] at h
                cases hp : parseUntilEoo cfg f r2 with
                | error e => rw [hp] at h; simp at h
                | ok pr =>
                  obtain ⟨cs, rest'⟩ := pr
                  rw [hp] at h
                  simp only [Except.ok.injEq, Prod.mk.injEq] at h
                  obtain ⟨_, rfl⟩ := h
                  have := parseUntil_consumes cfg f r2 cs rest' hp
                  omega
              · simp [hi, hc] at h
            · simp [hi] at h
theorem parseUntil_consumes (cfg : ParseCfg) : ∀ (f : Nat) (bs : Bytes) (cs : List TLV) (rest : Bytes),
    parseUntilEoo cfg f bs = .ok (cs, rest) → rest.length + 2 ≤ bs.length
  | 0, bs, cs, rest, h => by simp [parseUntilEoo] at h
  | f + 1, [], cs, rest, h => by simp [parseUntilEoo] at h
  | f + 1, [_], cs, rest, h => by simp [parseUntilEoo] at h
  | f + 1, a :: b :: bs, cs, rest, h => by
      rw [parseUntilEoo] at h
      by_cases hab : a = 0 ∧ b = 0
      · simp only [hab, and_self, if_true, Except.ok.injEq, Prod.mk.injEq] at h
        obtain ⟨_, rfl⟩ := h; simp
      · simp only [hab, if_false] at h
        cases hp : parse cfg f (a :: b :: bs) with
        | error e => rw [hp] at h; simp at h
        | ok pr =>
          obtain ⟨t, r'⟩ := pr
          rw [hp] at h
          simp only at h
          cases hq : parseUntilEoo cfg f r' with
          | error e => rw [hq] at h; simp at h
          | ok pq =>
            obtain ⟨ts, r''⟩ := pq
            rw [hq] at h
            simp only [Except.ok.injEq, Prod.mk.injEq] at h
            obtain ⟨_, rfl⟩ := h
            have := parse_consumes cfg f _ t r' hp
            have := parseUntil_consumes cfg f r' ts r'' hq
            omega
end

theorem underrunToMalformed_ne_fuel {α} (r : Res α) (h : r ≠ .error .fuel) :
    underrunToMalformed r ≠ .error .fuel := by
  unfold underrunToMalformed
  split
  · simp
  · exact h

mutual
/-- **no fuel exhaustion on any input**: `|bs| + 2` units of fuel always suffice -/
theorem parse_ne_fuel (cfg : ParseCfg) : ∀ (f : Nat) (bs : Bytes),
    bs.length + 2 ≤ f → parse cfg f bs ≠ .error .fuel
  | 0, bs, hf => by omega
  | f + 1, bs, hf => by
      cases hd : decodeTag bs with
      | error e =>
        rw [parse_tag_err cfg f bs e hd, decodeTag_err bs e hd]; simp
      | ok p =>
        obtain ⟨tag, r1⟩ := p
        cases hl : decodeLength r1 with
        | error e =>
          rw [parse_len_err cfg f bs tag r1 e hd hl, decodeLength_err r1 e hl]; simp
        | ok q =>
          obtain ⟨len, r2⟩ := q
          have a1 := decodeTag_len bs tag r1 hd
          have a2 := decodeLength_len r1 len r2 hl
          cases len with
          | definite n =>
            rw [parse_step_def cfg f bs tag n r1 r2 hd hl]
            by_cases hn : n ≤ r2.length
            · simp only [hn, if_true]
              by_cases hc : tag.constructed
              · simp only [hc, if_true]
                have ih := parseAll_ne_fuel cfg f (r2.take n) (by simp; omega)
                have := underrunToMalformed_ne_fuel _ ih
                cases hp : underrunToMalformed (parseAll cfg f (r2.take n)) with
                | error e =>
                  simp only
                  intro he
                  simp only [Except.error.injEq] at he
                  subst he
                  exact this hp
                | ok cs => simp
              · simp [hc]
            · simp [hn]
          | indefinite =>
            rw [parse_step_indef cfg f bs tag r1 r2 hd hl]
            by_cases hi : cfg.allowIndef
            · by_cases hc : tag.constructed
              · simp only [hi, hc, Bool.not_true, Bool.false_eq_true, if_false]
                have ih := parseUntil_ne_fuel cfg f r2 (by omega)
                cases hp : parseUntilEoo cfg f r2 with
                | error e =>
                  simp only
                  intro he
                  simp only [Except.error.injEq] at he
                  subst he
                  exact ih hp
                | ok pr => obtain ⟨cs, rest⟩ := pr; simp
              · simp [hi, hc]
            · simp [hi]
theorem parseAll_ne_fuel (cfg : ParseCfg) : ∀ (f : Nat) (bs : Bytes),
    bs.length + 3 ≤ f → parseAll cfg f bs ≠ .error .fuel
  | 0, bs, hf => by omega
  | f + 1, [], _ => by simp [parseAll]
  | f + 1, b :: bs, hf => by
      rw [parseAll]
      have ih := parse_ne_fuel cfg f (b :: bs) (by simp at hf ⊢; omega)
      cases hp : parse cfg f (b :: bs) with
      | error e =>
        simp only
        intro he
        simp only [Except.error.injEq] at he
        subst he
        exact ih hp
      | ok pr =>
        obtain ⟨t, rest⟩ := pr
        simp only
        have hc := parse_consumes cfg f _ t rest hp
        have ih2 := parseAll_ne_fuel cfg f rest (by simp at hf hc; omega)
        cases hq : parseAll cfg f rest with
        | error e =>
          simp only
          intro he
          simp only [Except.error.injEq] at he
          subst he
          exact ih2 hq
        | ok ts => simp
theorem parseUntil_ne_fuel (cfg : ParseCfg) : ∀ (f : Nat) (bs : Bytes),
    bs.length + 3 ≤ f → parseUntilEoo cfg f bs ≠ .error .fuel
  | 0, bs, hf => by omega
  | f + 1, [], _ => by simp [parseUntilEoo]
  | f + 1, [_], _ => by simp [parseUntilEoo]
  | f + 1, a :: b :: bs, hf => by
      rw [parseUntilEoo]
      by_cases hab : a = 0 ∧ b = 0
      · simp [hab]
      · simp only [hab, if_false]
        have ih := parse_ne_fuel cfg f (a :: b :: bs) (by simp at hf ⊢; omega)
        cases hp : parse cfg f (a :: b :: bs) with
        | error e =>
          simp only
          intro he
          simp only [Except.error.injEq] at he
          subst he
          exact ih hp
        | ok pr =>
          obtain ⟨t, rest⟩ := pr
          simp only
          have hc := parse_consumes cfg f _ t rest hp
          have ih2 := parseUntil_ne_fuel cfg f rest (by simp at hf hc; omega)
          cases hq : parseUntilEoo cfg f rest with
          | error e =>
            simp only
            intro he
            simp only [Except.error.injEq] at he
            subst he
            exact ih2 hq
          | ok pq => obtain ⟨ts, r'⟩ := pq; simp
end

/-- `Decoder.__call__` on the model never runs out of fuel, for any byte string -/
theorem parseOne_ne_fuel (cfg : ParseCfg) (bs : Bytes) : parseOne cfg bs ≠ .error .fuel :=
  parse_ne_fuel cfg _ bs (by simp [parseFuel])

mutual
/-- one more unit of fuel never changes an answer that was not "out of fuel" -/
theorem parse_fuel_succ (cfg : ParseCfg) : ∀ (f : Nat) (bs : Bytes),
    parse cfg f bs ≠ .error .fuel → parse cfg (f + 1) bs = parse cfg f bs
  | 0, bs, h => by simp [parse] at h
  | f + 1, bs, h => by
      cases hd : decodeTag bs with
      | error e => rw [parse_tag_err cfg f bs e hd, parse_tag_err cfg (f + 1) bs e hd]
      | ok p =>
        obtain ⟨tag, r1⟩ := p
        cases hl : decodeLength r1 with
        | error e =>
          rw [parse_len_err cfg f bs tag r1 e hd hl, parse_len_err cfg (f + 1) bs tag r1 e hd hl]
        | ok q =>
          obtain ⟨len, r2⟩ := q
          cases len with
          | definite n =>
            rw [parse_step_def cfg f bs tag n r1 r2 hd hl] at h ⊢
            rw [parse_step_def cfg (f + 1) bs tag n r1 r2 hd hl]
            by_cases hn : n ≤ r2.length
            · by_cases hc : tag.constructed
              · simp only [hn, hc, if_true] at h ⊢
                have hne : parseAll cfg f (r2.take n) ≠ .error .fuel := by
                  intro he; rw [he] at h; simp [underrunToMalformed] at h
                rw [parseAll_fuel_succ cfg f _ hne]
              · simp [hn, hc]
            · simp [hn]
          | indefinite =>
            rw [parse_step_indef cfg f bs tag r1 r2 hd hl] at h ⊢
            rw [parse_step_indef cfg (f + 1) bs tag r1 r2 hd hl]
            by_cases hi : cfg.allowIndef
            · by_cases hc : tag.constructed
              · simp only [hi, hc, Bool.not_true, Bool.false_eq_true, if_false] at h ⊢
                have hne : parseUntilEoo cfg f r2 ≠ .error .fuel := by
                  intro he; rw [he] at h; simp at h
                rw [parseUntil_fuel_succ cfg f _ hne]
              · simp [hi, hc]
            · simp [hi]
theorem parseAll_fuel_succ (cfg : ParseCfg) : ∀ (f : Nat) (bs : Bytes),
    parseAll cfg f bs ≠ .error .fuel → parseAll cfg (f + 1) bs = parseAll cfg f bs
  | 0, bs, h => by simp [parseAll] at h
  | f + 1, [], _ => by simp [parseAll]
  | f + 1, b :: bs, h => by
      rw [parseAll] at h
      rw [parseAll, parseAll]
      have hne : parse cfg f (b :: bs) ≠ .error .fuel := by
        intro he; rw [he] at h; simp at h
      rw [parse_fuel_succ cfg f _ hne]
      cases hp : parse cfg f (b :: bs) with
      | error e => rfl
      | ok pr =>
        obtain ⟨t, rest⟩ := pr
        rw [hp] at h
        simp only at h ⊢
        have hne2 : parseAll cfg f rest ≠ .error .fuel := by
          intro he; rw [he] at h; simp at h
        rw [parseAll_fuel_succ cfg f _ hne2]
theorem parseUntil_fuel_succ (cfg : ParseCfg) : ∀ (f : Nat) (bs : Bytes),
    parseUntilEoo cfg f bs ≠ .error .fuel → parseUntilEoo cfg (f + 1) bs = parseUntilEoo cfg f bs
  | 0, bs, h => by simp [parseUntilEoo] at h
  | f + 1, [], _ => by simp [parseUntilEoo]
  | f + 1, [_], _ => by simp [parseUntilEoo]
  | f + 1, a :: b :: bs, h => by
      rw [parseUntilEoo] at h
      rw [parseUntilEoo, parseUntilEoo]
      by_cases hab : a = 0 ∧ b = 0
      · simp [hab]
      · simp only [hab, if_false] at h ⊢
        have hne : parse cfg f (a :: b :: bs) ≠ .error .fuel := by
          intro he; rw [he] at h; simp at h
        rw [parse_fuel_succ cfg f _ hne]
        cases hp : parse cfg f (a :: b :: bs) with
        | error e => rfl
        | ok pr =>
          obtain ⟨t, rest⟩ := pr
          rw [hp] at h
          simp only at h ⊢
          have hne2 : parseUntilEoo cfg f rest ≠ .error .fuel := by
            intro he; rw [he] at h; simp at h
          rw [parseUntil_fuel_succ cfg f _ hne2]
end

theorem parse_fuel_mono (cfg : ParseCfg) (f g : Nat) (bs : Bytes) (hfg : f ≤ g)
    (h : parse cfg f bs ≠ .error .fuel) : parse cfg g bs = parse cfg f bs := by
  induction g with
  | zero => have : f = 0 := by omega
            subst this; rfl
  | succ g ih =>
    by_cases hfg' : f ≤ g
    · have := ih hfg'
      rw [parse_fuel_succ cfg g bs (by rw [this]; exact h), this]
    · have : f = g + 1 := by omega
      subst this; rfl

/-- one-shot framing of a truncated element: `Decoder.__call__` on a proper prefix of a
    well-formed encoding reports insufficient data -/
theorem parseOne_take (cfg : ParseCfg) (t : TLV) (k : Nat) (hw : t.WF) (ho : t.okFor cfg)
    (hk : k < t.ser.length) : parseOne cfg (t.ser.take k) = .error .underrun := by
  unfold parseOne
  have hbig := parse_take cfg t (t.ser.length + parseFuel (t.ser.take k)) k hw ho (by omega) hk
  have hne := parse_ne_fuel cfg (parseFuel (t.ser.take k)) (t.ser.take k) (by simp [parseFuel])
  rw [← parse_fuel_mono cfg _ (t.ser.length + parseFuel (t.ser.take k)) _ (by omega) hne]
  exact hbig

end Asn1
