/-
  Proofs.KernelLen — the length-decoding block of `SingleItemDecoder.__call__` (state `stDecodeLength`, translated
  from the source into `GenK.decodeLength`) computes the model's `decodeLength`.
-/
import Proofs.KernelRealDec

namespace Asn1.Kernels
open Py

/-- what the model's `decodeLength` answers, in the vocabulary of the translated block: the length, `-1` for the
    indefinite form (refused when the codec does not support it), `SubstrateUnderrunError` when the length octets are
    not all there; beyond `sys.maxsize` the source refuses the length (`PyAsn1Error`) where the model, which has no
    such bound, would go on to find the contents missing -/
def liftDecLen (allowIndef : Bool) : Res (Len × Bytes) → Py.M Int
  | .ok (.definite n, _) => if (n : Int) > 9223372036854775807 then .error (.lib "PyAsn1Error") else .ok (n : Int)
  | .ok (.indefinite, _) => if allowIndef then .ok (-1) else .error (.lib "PyAsn1Error")
  | .error _ => .error (.lib "SubstrateUnderrunError")

theorem decodeLength_loop1_spec (c : Py.Tup) : ∀ (bs : Bytes) (acc : Int),
    GenK.decodeLength_loop1 c (bytesInts bs) acc = .ok (intFromBytesAux acc bs)
  | [], acc => rfl
  | b :: rest, acc => by
    simp only [bytesInts_cons, GenK.decodeLength_loop1, shl_8, bor_mul256 acc b.toNat (UInt8.toNat_lt b)]
    rw [decodeLength_loop1_spec c rest]
    rfl

theorem decodeLength_kernel (allowIndef : Bool) (b : UInt8) (rest : Bytes) :
    GenK.decodeLength allowIndef (b.toNat : Int) (bytesInts (rest.take (b.toNat % 128))) =
      liftDecLen allowIndef (decodeLength (b :: rest)) := by
  have hb := UInt8.toNat_lt b
  unfold GenK.decodeLength decodeLength
  by_cases h1 : b.toNat < 128
  · have h1' : ((b.toNat : Int) < 128) := by omega
    have hneg : ¬ ((b.toNat : Int) = -1) := by omega
    have hbig : ¬ ((b.toNat : Int) > 9223372036854775807) := by omega
    simp [h1, h1', hneg, hbig, liftDecLen, pure, Except.pure, bind, Except.bind]
  · have h1' : ¬ ((b.toNat : Int) < 128) := by omega
    by_cases h2 : b.toNat = 128
    · have h2' : ¬ ((b.toNat : Int) > 128) := by omega
      cases allowIndef <;> simp [h1, h1', h2, h2', liftDecLen, pure, Except.pure, bind, Except.bind] <;> rfl
    · have h2' : ((b.toNat : Int) > 128) := by omega
      have hsz : Py.band (b.toNat : Int) 127 = ((b.toNat % 128 : Nat) : Int) := band_127 b.toNat
      simp only [h1, h1', h2, h2', if_false, if_true, decide_true, decide_false, Bool.false_eq_true, hsz, len_bytes,
        bind, Except.bind, pure, Except.pure]
      generalize hs : b.toNat % 128 = size
      by_cases hlen : size ≤ rest.length
      · have hl : (rest.take size).length = size := by simp [List.length_take]; omega
        have hne : ¬ (((rest.take size).length : Nat) : Int) ≠ (size : Int) := by rw [hl]; simp
        have hmant : intFromBytesAux 0 (rest.take size) = ((bytesToNat (rest.take size) : Nat) : Int) := by
          have := intFromBytesAux_nat (rest.take size) 0
          simpa [bytesToNat, ofBe256, ofBeDigits] using this
        simp only [hne, decide_false, Bool.false_eq_true, if_false, hlen, if_true, decodeLength_loop1_spec, hmant]
        generalize bytesToNat (rest.take size) = n
        by_cases hbig : (n : Int) > 9223372036854775807
        · simp [hbig, liftDecLen, throw, throwThe, MonadExceptOf.throw]
        · have hneg : ¬ ((n : Int) = -1) := by omega
          simp [hbig, hneg, liftDecLen]
      · have hl : (rest.take size).length = rest.length := by simp [List.length_take]; omega
        have hne : (((rest.take size).length : Nat) : Int) ≠ (size : Int) := by rw [hl]; omega
        simp only [hne, ne_eq, not_false_eq_true, decide_true, if_true, hlen, if_false, liftDecLen]
        rfl

end Asn1.Kernels
