/-
  Proofs.KernelLen — the length-decoding block of `SingleItemDecoder.__call__` (state `stDecodeLength`, translated
  from the source into `GenK.decodeLength`) computes the model's `decodeLength`.
-/
import Proofs.KernelRealDec
import Asn1.Decoder

namespace Asn1.Kernels
open Py

/-- what the model's `decodeLength` answers, in the vocabulary of the translated block: the length, `-1` for the
    indefinite form (refused when the codec does not support it), `SubstrateUnderrunError` when the length octets are
    not all there; beyond `sys.maxsize` the source refuses the length (`PyAsn1Error`) where the model, which has no
    such bound, would go on to find the contents missing -/
def liftDecLen (allowIndef : Bool) : Res (Len × Bytes) → Py.M Int
  | .ok (.definite n, _) => if (n : Int) > 9223372036854775807 then .error (.lib "PyAsn1Error") else .ok (n : Int)
  | .ok (.indefinite, _) => if allowIndef then .ok (-1) else .error (.lib "PyAsn1Error")
  | .error _ => .error (.lib "SubstrateUnderrunError")

theorem decodeLength_loop1_spec (c : Py.Tup) : ∀ (bs : Bytes) (acc : Int),
    GenK.decodeLength_loop1 c (bytesInts bs) acc = .ok (intFromBytesAux acc bs)
  | [], acc => rfl
  | b :: rest, acc => by
    simp only [bytesInts_cons, GenK.decodeLength_loop1, shl_8, bor_mul256 acc b.toNat (UInt8.toNat_lt b)]
    rw [decodeLength_loop1_spec c rest]
    rfl

theorem decodeLength_kernel (allowIndef : Bool) (b : UInt8) (rest : Bytes) :
    GenK.decodeLength allowIndef (b.toNat : Int) (bytesInts (rest.take (b.toNat % 128))) =
      liftDecLen allowIndef (decodeLength (b :: rest)) := by
  have hb := UInt8.toNat_lt b
  unfold GenK.decodeLength decodeLength
  by_cases h1 : b.toNat < 128
  · have h1' : ((b.toNat : Int) < 128) := by omega
    have hneg : ¬ ((b.toNat : Int) = -1) := by omega
    have hbig : ¬ ((b.toNat : Int) > 9223372036854775807) := by omega
    simp [h1, h1', hneg, hbig, liftDecLen, pure, Except.pure, bind, Except.bind]
  · have h1' : ¬ ((b.toNat : Int) < 128) := by omega
    by_cases h2 : b.toNat = 128
    · have h2' : ¬ ((b.toNat : Int) > 128) := by omega
      cases allowIndef <;> simp [h1, h1', h2, h2', liftDecLen, pure, Except.pure, bind, Except.bind] <;> rfl
    · have h2' : ((b.toNat : Int) > 128) := by omega
      have hsz : Py.band (b.toNat : Int) 127 = ((b.toNat % 128 : Nat) : Int) := band_127 b.toNat
      simp only [h1, h1', h2, h2', if_false, if_true, decide_true, decide_false, Bool.false_eq_true, hsz, len_bytes,
        bind, Except.bind, pure, Except.pure]
      generalize hs : b.toNat % 128 = size
      by_cases hlen : size ≤ rest.length
      · have hl : (rest.take size).length = size := by simp [List.length_take]; omega
        have hne : ¬ (((rest.take size).length : Nat) : Int) ≠ (size : Int) := by rw [hl]; simp
        have hmant : intFromBytesAux 0 (rest.take size) = ((bytesToNat (rest.take size) : Nat) : Int) := by
          have := intFromBytesAux_nat (rest.take size) 0
          simpa [bytesToNat, ofBe256, ofBeDigits] using this
        simp only [hne, decide_false, Bool.false_eq_true, if_false, hlen, if_true, decodeLength_loop1_spec, hmant]
        generalize bytesToNat (rest.take size) = n
        by_cases hbig : (n : Int) > 9223372036854775807
        · simp [hbig, liftDecLen, throw, throwThe, MonadExceptOf.throw]
        · have hneg : ¬ ((n : Int) = -1) := by omega
          simp [hbig, hneg, liftDecLen]
      · have hl : (rest.take size).length = rest.length := by simp [List.length_take]; omega
        have hne : (((rest.take size).length : Nat) : Int) ≠ (size : Int) := by rw [hl]; omega
        simp only [hne, ne_eq, not_false_eq_true, decide_true, if_true, hlen, if_false, liftDecLen]
        rfl

end Asn1.Kernels

namespace Asn1.Kernels
open Py

/-! ### the strict BOOLEAN decoder of CER/DER -/

def liftBool : Res Val → Py.M Int
  | .ok (.bool true) => .ok 1
  | .ok (.bool false) => .ok 0
  | .ok _ => .error (.lib "unreachable")
  | .error _ => .error (.lib "PyAsn1Error")

/-- `cer.decoder.BooleanPayloadDecoder.valueDecoder` as it is in the source (the stream read of `length` octets being
    its argument) is the model's strict BOOLEAN decoder: exactly one contents octet, `FF` or `00` -/
theorem cerBool_kernel (cfg : DecCfg) (hs : cfg.boolStrict = true) (h : Bytes) (tg : Tag) (c : Bytes) :
    GenK.cerBool (c.length : Int) (bytesInts c) = liftBool (decPrim cfg .boolean (.prim h tg c)) := by
  unfold GenK.cerBool decPrim
  simp only [hs, if_true]
  match c with
  | [] => simp [liftBool, throw, throwThe, MonadExceptOf.throw]
  | [b] =>
    have hb := UInt8.toNat_lt b
    simp only [List.length_singleton, bytesInts_cons, idx_cons_zero, bind, Except.bind, pure, Except.pure]
    by_cases h1 : b = 0xFF
    · subst h1; simp [liftBool]
    · have h1' : ¬ ((b.toNat : Int) = 255) := by
        intro hh; apply h1; apply UInt8.toNat_inj.mp; simp; omega
      by_cases h0 : b = 0
      · subst h0; simp [liftBool]
      · have h0' : ¬ ((b.toNat : Int) = 0) := by
          intro hh; apply h0; apply UInt8.toNat_inj.mp; simp; omega
        have h0n : ¬ b.toNat = 0 := by omega
        simp [h1, h0, h1', h0', h0n, liftBool, throw, throwThe, MonadExceptOf.throw]
  | b1 :: b2 :: rest =>
    have : ¬ ((rest.length : Int) + 1 + 1 = 1) := by omega
    simp [this, liftBool, throw, throwThe, MonadExceptOf.throw]

end Asn1.Kernels

namespace Asn1.Kernels
open Py

/-! ### INTEGER contents: `from_bytes` and the body of `IntegerPayloadDecoder.valueDecoder` -/

theorem natOfBE_bytes : ∀ (bs : Bytes) (acc : Int), Py.natOfBE (bytesInts bs) acc = intFromBytesAux acc bs
  | [], _ => rfl
  | b :: rest, acc => by
    simp only [bytesInts_cons, Py.natOfBE, intFromBytesAux]
    exact natOfBE_bytes rest _

theorem intFromBytesAux_shift : ∀ (bs : Bytes) (a d : Int),
    intFromBytesAux (a + d) bs = intFromBytesAux a bs + d * (256 : Int) ^ bs.length
  | [], a, d => by simp [intFromBytesAux]
  | b :: rest, a, d => by
    simp only [intFromBytesAux, List.length_cons]
    have : (a + d) * 256 + (b.toNat : Int) = (a * 256 + b.toNat) + d * 256 := by
      simp only [Int.add_mul]; omega
    rw [this, intFromBytesAux_shift rest _ (d * 256), Int.pow_succ, Int.mul_assoc, Int.mul_comm 256]

/-- PyLite's `int.from_bytes(..., signed=True)` is the model's `intFromBytes` -/
theorem fromBytes_signed (bs : Bytes) : Py.fromBytes (bytesInts bs) true = intFromBytes bs := by
  cases bs with
  | nil => rfl
  | cons b rest =>
    have hb := UInt8.toNat_lt b
    simp only [Py.fromBytes, bytesInts_cons, Bool.true_and]
    rw [show ((b.toNat : Int) :: bytesInts rest) = bytesInts (b :: rest) from rfl, natOfBE_bytes]
    simp only [intFromBytes, intFromBytesAux]
    by_cases h : b.toNat < 128
    · have : ¬ ((b.toNat : Int) ≥ 128) := by omega
      simp [h, this]
    · have h' : ((b.toNat : Int) ≥ 128) := by omega
      simp only [h, h', decide_true, if_true, if_false]
      have := intFromBytesAux_shift rest ((b.toNat : Int) - 256) 256
      have e1 : (b.toNat : Int) - 256 + 256 = 0 * 256 + (b.toNat : Int) := by omega
      rw [e1] at this
      rw [this]
      have hl : (bytesInts (b :: rest)).length = rest.length + 1 := by simp [bytesInts]
      rw [hl, Int.pow_succ]
      omega

/-- **the body of `IntegerPayloadDecoder.valueDecoder`** (translated; calls the translated `from_bytes`) **is the
    model's `intFromBytes`**, for every contents -/
theorem intDecode_kernel (c : Bytes) : GenK.intDecode (bytesInts c) = .ok (intFromBytes c) := by
  unfold GenK.intDecode GenK.fromBytes
  cases c with
  | nil => rfl
  | cons b rest =>
    simp only [bytesInts_isEmpty, List.isEmpty_cons, Bool.not_false, if_true, bind, Except.bind, pure, Except.pure,
      fromBytes_signed]

end Asn1.Kernels

namespace Asn1.Kernels

/-- a number below `256 ^ k` has at most `k` base-256 digits -/
theorem be256_length_le : ∀ (k n : Nat), n < 256 ^ k → (be256 n).length ≤ k
  | 0, n, h => by
    have : n = 0 := by simpa using h
    subst this; simp [be256, beDigits_zero]
  | k + 1, n, h => by
    by_cases hn : n = 0
    · subst hn; simp [be256, beDigits_zero]
    · have hq : n / 256 < 256 ^ k := by
        rw [Nat.pow_succ] at h
        exact Nat.div_lt_of_lt_mul (by omega)
      have := be256_length_le k (n / 256) hq
      simp only [be256] at this ⊢
      rw [beDigits_pos 254 n hn]
      simp only [List.length_append, List.length_singleton]
      have e : n / (254 + 2) = n / 256 := rfl
      rw [e]
      omega

end Asn1.Kernels
