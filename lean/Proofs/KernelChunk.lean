/-
  Proofs.KernelChunk — the segmentation loop of `OctetStringEncoder.encodeValue` (translated from the source into
  `GenK.octetChunks`, the `encodeFun` callback being a function parameter about which nothing is assumed) cuts the
  octets into the model's `chunkBytes` pieces, hands each to the callback in order and concatenates the answers.
-/
import Proofs.KernelWrap

namespace Asn1.Kernels
open Py

/-- the callback over the pieces, left to right, stopping at the first failure -/
def concatM (f : Py.Tup → Py.M Py.Tup) : List Py.Tup → Py.M Py.Tup
  | [] => .ok []
  | c :: cs =>
    match f c with
    | .error e => .error e
    | .ok a => (concatM f cs).map (a ++ ·)

theorem bytesInts_drop (bs : Bytes) (k : Nat) : (bytesInts bs).drop k = bytesInts (bs.drop k) := by
  show (bs.map _).drop k = (bs.drop k).map _
  rw [List.map_drop]

theorem bytesInts_take (bs : Bytes) (k : Nat) : (bytesInts bs).take k = bytesInts (bs.take k) := by
  show (bs.map _).take k = (bs.take k).map _
  rw [List.map_take]

theorem sliceG_bytes (bs : Bytes) (pos n : Nat) :
    Py.sliceG (bytesInts bs) (pos : Int) ((pos : Int) + (n : Int)) = bytesInts ((bs.drop pos).take n) := by
  have hl : (bytesInts bs).length = bs.length := by simp [bytesInts]
  unfold Py.sliceG Py.normIdx
  have h1 : ¬ ((pos : Int) < 0) := by omega
  have h2 : ¬ ((pos : Int) + (n : Int) < 0) := by omega
  simp only [h1, h2, if_false, hl]
  have e1 : (pos : Int).toNat = pos := by omega
  have e2 : ((pos : Int) + (n : Int)).toNat = pos + n := by omega
  rw [e1, e2, bytesInts_drop, bytesInts_take]
  congr 1
  by_cases hp : pos ≤ bs.length
  · have hm : min pos bs.length = pos := by omega
    rw [hm]
    have hlen : (bs.drop pos).length = bs.length - pos := List.length_drop
    by_cases hn : pos + n ≤ bs.length
    · have : min (pos + n) bs.length - pos = n := by omega
      rw [this]
    · have : min (pos + n) bs.length - pos = bs.length - pos := by omega
      rw [this, List.take_of_length_le (by omega), List.take_of_length_le (by omega)]
  · have hm : min pos bs.length = bs.length := by omega
    rw [hm, List.drop_eq_nil_of_le (Nat.le_refl _), List.drop_eq_nil_of_le (by omega)]
    simp

theorem chunkBytes_nil (n k : Nat) : chunkBytes n k [] = [] := by
  cases k <;> rfl

theorem octetChunks_loop1_spec (f : Py.Tup → Py.M Py.Tup) (n : Nat) (hn : 0 < n) (bs : Bytes) :
    ∀ (fuel k pos : Nat) (acc : Py.Tup), bs.length - pos ≤ k → bs.length - pos < fuel →
      (GenK.octetChunks_loop1 f (n : Int) (bytesInts bs) fuel acc (pos : Int)).map (·.1) =
        (concatM f ((chunkBytes n k (bs.drop pos)).map bytesInts)).map (acc ++ ·)
  | 0, _, _, _, _, hf => by omega
  | fuel + 1, k, pos, acc, hk, hf => by
    unfold GenK.octetChunks_loop1
    simp only [if_true, sliceG_bytes, bytesInts_isEmpty, Bool.not_not]
    by_cases hp : pos < bs.length
    · have hd : bs.drop pos ≠ [] := by
        intro h0
        have : (bs.drop pos).length = bs.length - pos := List.length_drop
        rw [h0] at this; simp at this; omega
      obtain ⟨b, r, hbr⟩ := List.exists_cons_of_ne_nil hd
      obtain ⟨k', rfl⟩ : ∃ k', k = k' + 1 := ⟨k - 1, by omega⟩
      have hne : ((bs.drop pos).take n).isEmpty = false := by
        rw [hbr]; cases n with
        | zero => omega
        | succ m => rfl
      simp only [hne, Bool.false_eq_true, if_false, bind, Except.bind]
      rw [hbr, chunkBytes, ← hbr, List.map_cons, concatM]
      case x_2 => intro h0; cases h0
      cases hfc : f (bytesInts ((bs.drop pos).take n)) with
      | error e => rfl
      | ok a =>
        have e1 : (pos : Int) + (n : Int) = ((pos + n : Nat) : Int) := by omega
        rw [e1]
        have ih := octetChunks_loop1_spec f n hn bs fuel k' (pos + n) (acc ++ a) (by omega) (by omega)
        rw [ih, List.drop_drop]
        cases concatM f ((chunkBytes n k' (bs.drop (pos + n))).map bytesInts) with
        | error e => rfl
        | ok r => simp [Except.map, List.append_assoc]
    · have hd : bs.drop pos = [] := List.drop_eq_nil_of_le (by omega)
      simp [hd, chunkBytes_nil, concatM, Except.map, pure, Except.pure]

/-- **the segmentation of `OctetStringEncoder.encodeValue` as it is in the source**: without a chunk size, or when
    the octets fit one chunk, the octets themselves in primitive form; otherwise the callback's encodings of the
    consecutive `maxChunkSize`-octet pieces (the last one shorter), in order, in constructed form - whatever the
    callback is -/
theorem octetChunks_kernel (f : Py.Tup → Py.M Py.Tup) (bs : Bytes) (n : Nat) :
    GenK.octetChunks f (bytesInts bs) (n : Int) =
      if n = 0 ∨ bs.length ≤ n then .ok (bytesInts bs, false, true)
      else (concatM f ((chunkBytes n bs.length bs).map bytesInts)).map (fun r => (r, true, true)) := by
  unfold GenK.octetChunks
  by_cases h : n = 0 ∨ bs.length ≤ n
  · have hc : ((!(Py.truthy (n : Int))) || decide (Py.len (bytesInts bs) ≤ (n : Int))) = true := by
      rw [len_bytes, truthy_nat]
      rcases h with h | h
      · simp [h]
      · have : ((bs.length : Nat) : Int) ≤ (n : Int) := by omega
        simp [this]
    simp only [hc, if_true, h]
    rfl
  · have hn : 0 < n := by omega
    have hlen : ¬ bs.length ≤ n := by omega
    have hc : ((!(Py.truthy (n : Int))) || decide (Py.len (bytesInts bs) ≤ (n : Int))) = false := by
      rw [len_bytes, truthy_nat]
      have h1 : n ≠ 0 := by omega
      have h2 : ¬ (((bs.length : Nat) : Int) ≤ (n : Int)) := by omega
      simp [h1, h2]
    simp only [hc, Bool.false_eq_true, if_false, h, bind, Except.bind]
    have hfuel : (Py.len (bytesInts bs)).toNat + 2 = bs.length + 2 := by rw [len_bytes]; omega
    have hs := octetChunks_loop1_spec f n hn bs (bs.length + 2) bs.length 0 [] (by omega) (by omega)
    simp only [List.drop_zero] at hs
    rw [hfuel, show ((0 : Int)) = ((0 : Nat) : Int) from rfl]
    cases hl : GenK.octetChunks_loop1 f (n : Int) (bytesInts bs) (bs.length + 2) [] ((0 : Nat) : Int) with
    | error e =>
      rw [hl] at hs
      cases hcm : concatM f ((chunkBytes n bs.length bs).map bytesInts) with
      | error e2 => rw [hcm] at hs; simp [Except.map] at hs ⊢; exact hs
      | ok r => rw [hcm] at hs; simp [Except.map] at hs
    | ok v =>
      rw [hl] at hs
      cases hcm : concatM f ((chunkBytes n bs.length bs).map bytesInts) with
      | error e2 => rw [hcm] at hs; simp [Except.map] at hs
      | ok r =>
        rw [hcm] at hs
        simp only [Except.map, List.nil_append, Except.ok.injEq] at hs
        simp [Except.map, pure, Except.pure, hs]

/-- outcome of the model's `encodeValue`, in the vocabulary of the translated code -/
def liftEnc : Except Err (Bytes × Bool) → Py.M (Py.Tup × Bool × Bool)
  | .ok (b, c) => .ok (bytesInts b, c, true)
  | .error _ => .error (.lib "PyAsn1Error")

theorem concatM_lift (f : Py.Tup → Py.M Py.Tup) (g : Bytes → Except Err Bytes)
    (h : ∀ c, f (bytesInts c) = liftLen (g c)) :
    ∀ l : List Bytes, concatM f (l.map bytesInts) = liftLen ((allOk (l.map g)).map List.flatten)
  | [] => rfl
  | c :: cs => by
    simp only [List.map_cons, concatM, h c]
    cases hg : g c with
    | error e => simp [liftLen, allOk, Except.map]
    | ok a =>
      simp only [liftLen, allOk]
      rw [concatM_lift f g h cs]
      cases allOk (cs.map g) with
      | error e => simp [liftLen, Except.map]
      | ok r => simp [liftLen, Except.map, bytesInts_append]

/-- the callback the segmentation loop is handed, when it is the encoder itself on one piece: the translated header
    loop around primitive contents under the OCTET STRING tag -/
def chunkFun (indefOk ine defMode : Bool) (c : Py.Tup) : Py.M Py.Tup :=
  GenK.wrapTags indefOk ine [[0, 0, 4]] defMode c false true

/-- **segmentation at the source level is the model's**: the translated loop of `OctetStringEncoder.encodeValue`, with
    the translated header loop as the callback for each piece, writes what the encoder model writes for an octet or
    character string - primitive when there is no chunk size or the string fits, the OCTET STRING TLVs of the
    `maxChunkSize`-octet pieces otherwise (CER: 1000) -/
theorem octetChunks_is_model (cfg : EncCfg) (o : EncOpts) (k : Nat) (bs : Bytes) :
    GenK.octetChunks (chunkFun true o.ifNotEmpty o.defMode) (bytesInts bs) (o.maxChunk : Int) =
      liftEnc (encValue cfg o (.prim (.str k)) (.str bs)) := by
  rw [octetChunks_kernel]
  simp only [encValue]
  by_cases h : o.maxChunk = 0 ∨ bs.length ≤ o.maxChunk
  · have hb : (o.maxChunk == 0 || decide (bs.length ≤ o.maxChunk)) = true := by
      rcases h with h | h <;> simp [h]
    simp [h, liftEnc]
  · have hb : (o.maxChunk == 0 || decide (bs.length ≤ o.maxChunk)) = false := by
      have h1 : ¬ o.maxChunk = 0 := fun h0 => h (Or.inl h0)
      have h2 : ¬ bs.length ≤ o.maxChunk := fun h0 => h (Or.inr h0)
      simp [h1, h2]
    simp only [h, if_false]
    have hf : ∀ c : Bytes, chunkFun true o.ifNotEmpty o.defMode (bytesInts c) =
        liftLen (finishItem cfg o (.prim (.str 4)) (.ok (c, false))) := by
      intro c
      have hk := wrapTags_kernel true o.ifNotEmpty o.defMode false true ⟨.universal, false, 4⟩ [] c
      simp only [List.map_cons, List.map_nil, Bool.and_false, Bool.false_and, Bool.false_eq_true, if_false] at hk
      unfold chunkFun
      rw [show ([[0, 0, 4]] : List Py.Tup) = [tagTriple ⟨.universal, false, 4⟩] from rfl, hk]
      simp [finishItem, Ty.tags, Ty.base, PrimTy.univNum, supportsIndef]
    rw [concatM_lift _ _ hf]
    cases allOk ((chunkBytes o.maxChunk bs.length bs).map fun f => finishItem cfg o (.prim (.str 4)) (.ok (f, false))) with
    | error e => simp [h, liftLen, liftEnc, Except.map]
    | ok r => simp [h, liftLen, liftEnc, Except.map]

end Asn1.Kernels
