/-
  Proofs.KernelRealDec — the binary branch of `RealPayloadDecoder.valueDecoder` (translated from the source
  into `GenK.realDec`) computes the model's `realFromContent`.
-/
import Proofs.KernelReal

namespace Asn1.Kernels
open Py

/-! ### `e << 8 | b` on any integer -/

theorem natLdiff_low (k b : Nat) (hb : b < 256) : Py.natLdiff (2 ^ 8 * k + 255) b = 2 ^ 8 * k + (255 - b) := by
  apply Nat.eq_of_testBit_eq
  intro i
  unfold Py.natLdiff
  rw [Nat.testBit_bitwise (by rfl)]
  have h255 : (255 : Nat) < 2 ^ 8 := by decide
  have hlow : 255 - b < 2 ^ 8 := by omega
  rw [Nat.testBit_two_pow_mul_add k h255, Nat.testBit_two_pow_mul_add k hlow]
  by_cases hi : i < 8
  · have h2 : 255 - b = 2 ^ 8 - (b + 1) := by omega
    have hb' : b < 2 ^ 8 := by omega
    have e255 : (255 : Nat) = 2 ^ 8 - 1 := by decide
    simp only [hi, if_true]
    rw [h2, Nat.testBit_two_pow_sub_succ hb', e255, Nat.testBit_two_pow_sub_one]
  · have : b < 2 ^ i := Nat.lt_of_lt_of_le (by omega : b < 2 ^ 8) (Nat.pow_le_pow_right (by decide) (by omega))
    simp [hi, Nat.testBit_lt_two_pow this]

theorem negSucc_eq (n : Nat) : Int.negSucc n = -((n : Int) + 1) := by omega

theorem bor_mul256 (e : Int) (b : Nat) (hb : b < 256) : Py.bor (e * 256) (b : Int) = e * 256 + b := by
  cases e with
  | ofNat k =>
    have h1 : Int.ofNat k * (256 : Int) = ((k <<< 8 : Nat) : Int) := by
      rw [Nat.shiftLeft_eq]
      show (k : Int) * 256 = ((k * 2 ^ 8 : Nat) : Int)
      omega
    rw [h1, bor_nat, ← Nat.shiftLeft_add_eq_or_of_lt (by omega : b < 2 ^ 8)]
    omega
  | negSucc k =>
    have h1 : Int.negSucc k * (256 : Int) = Int.negSucc (2 ^ 8 * k + 255) := by
      rw [negSucc_eq, negSucc_eq]; omega
    rw [h1]
    show Int.negSucc (Py.natLdiff (2 ^ 8 * k + 255) b) = _
    rw [natLdiff_low k b hb, negSucc_eq, negSucc_eq]
    omega

theorem shl_8 (e : Int) : Py.shl e 8 = e * 256 := by
  unfold Py.shl; rfl

/-! ### the two accumulation loops -/

theorem bytesInts_cons (b : UInt8) (bs : Bytes) : bytesInts (b :: bs) = (b.toNat : Int) :: bytesInts bs := rfl

theorem sliceFrom_one (h : Int) (t : List Int) : Py.sliceFrom (h :: t) 1 = t := rfl

theorem realDec_loop1_spec : ∀ (bs : Bytes) (fuel : Nat) (e : Int), bs.length < fuel →
    GenK.realDec_loop1 fuel e (bytesInts bs) = .ok (intFromBytesAux e bs, [])
  | [], fuel, e, hf => by
    cases fuel with
    | zero => simp at hf
    | succ g => simp [GenK.realDec_loop1, bytesInts, intFromBytesAux, pure, Except.pure]
  | b :: rest, fuel, e, hf => by
    cases fuel with
    | zero => simp at hf
    | succ g =>
      unfold GenK.realDec_loop1
      simp only [bytesInts_cons, List.isEmpty_cons, Bool.not_false, if_true, idx_cons_zero, bind, Except.bind,
        sliceFrom_one, shl_8, bor_mul256 e b.toNat (UInt8.toNat_lt b)]
      rw [realDec_loop1_spec rest g _ (by simp at hf; omega)]
      simp [intFromBytesAux]

theorem realDec_loop2_spec : ∀ (bs : Bytes) (fuel : Nat) (e : Int), bs.length < fuel →
    GenK.realDec_loop2 fuel e (bytesInts bs) = .ok (intFromBytesAux e bs, [])
  | [], fuel, e, hf => by
    cases fuel with
    | zero => simp at hf
    | succ g => simp [GenK.realDec_loop2, bytesInts, intFromBytesAux, pure, Except.pure]
  | b :: rest, fuel, e, hf => by
    cases fuel with
    | zero => simp at hf
    | succ g =>
      unfold GenK.realDec_loop2
      simp only [bytesInts_cons, List.isEmpty_cons, Bool.not_false, if_true, idx_cons_zero, bind, Except.bind,
        sliceFrom_one, shl_8, bor_mul256 e b.toNat (UInt8.toNat_lt b)]
      rw [realDec_loop2_spec rest g _ (by simp at hf; omega)]
      simp [intFromBytesAux]

/-- the unsigned accumulation from a natural start is the big-endian value -/
theorem intFromBytesAux_nat : ∀ (bs : Bytes) (a : Nat),
    intFromBytesAux (a : Int) bs = (((bytesToNats bs).foldl (fun x d => x * 256 + d) a : Nat) : Int)
  | [], a => rfl
  | b :: rest, a => by
    simp only [intFromBytesAux, bytesToNats, List.map_cons, List.foldl_cons]
    have := intFromBytesAux_nat rest (a * 256 + b.toNat)
    simp only [bytesToNats] at this
    rw [← this]; congr 1

/-! ### the kernel -/

/-- what the model answers, in the vocabulary of the translated code -/
def liftRealDec : Res RealVal → Py.M Py.Tup
  | .ok (.fin p b e) => .ok [p, (b : Int), e]
  | .ok _ => .error (.lib "unreachable")
  | .error .malformed => .error (.lib "PyAsn1Error")
  | .error _ => .error (.lib "unreachable")

theorem fo_bits : ∀ f < 256, (f &&& 3) = f % 4 ∧ ((f >>> 4) &&& 3) = f / 16 % 4 ∧ ((f >>> 2) &&& 3) = f / 4 % 4 ∧
    (decide ((f &&& 64) ≠ 0) = decide (f / 64 % 2 = 1)) := by decide +kernel

theorem sliceToG_bytes (bs : Bytes) (n : Nat) : Py.sliceToG (bytesInts bs) (n : Int) = bytesInts (bs.take n) := by
  have : ¬ ((n : Int) < 0) := by omega
  simp [Py.sliceToG, bytesInts, List.map_take, this]

theorem sliceFromG_bytes (bs : Bytes) (n : Nat) : Py.sliceFromG (bytesInts bs) (n : Int) = bytesInts (bs.drop n) := by
  have : ¬ ((n : Int) < 0) := by omega
  simp [Py.sliceFromG, bytesInts, List.map_drop, this]

theorem bytesInts_isEmpty (bs : Bytes) : (bytesInts bs).isEmpty = bs.isEmpty := by
  cases bs <;> rfl

theorem sign_start (b : UInt8) :
    Py.orI (Py.andI (Py.band (b.toNat : Int) 128) (-1)) 0 = if b.toNat < 128 then 0 else -1 := by
  have hb := UInt8.toNat_lt b
  have ht := truthy_band_128 (b.toNat : Int) (by omega) (by omega)
  unfold Py.truthy at ht
  by_cases h : b.toNat < 128
  · have h' : ¬ ((b.toNat : Int) ≥ 128) := by omega
    simp only [h', decide_false, bne_eq_false_iff_eq] at ht
    simp [Py.orI, Py.andI, ht, h]
  · have h' : ((b.toNat : Int) ≥ 128) := by omega
    simp only [h', decide_true, bne_iff_ne, ne_eq] at ht
    simp [Py.orI, Py.andI, ht, h]

theorem intFromBytes_start (b : UInt8) (r : Bytes) :
    intFromBytesAux (if b.toNat < 128 then 0 else -1) (b :: r) = intFromBytes (b :: r) := by
  simp only [intFromBytesAux, intFromBytes]
  congr 1
  by_cases h : b.toNat < 128 <;> simp [h] <;> omega

theorem realDec_kernel (fo : UInt8) (chunk : Bytes) (hb : fo.toNat ≥ 128) :
    GenK.realDec (fo.toNat : Int) (bytesInts chunk) = liftRealDec (realFromContent (fo :: chunk)) := by
  have hf : fo.toNat < 256 := UInt8.toNat_lt fo
  obtain ⟨f1, f2, f3, f4⟩ := fo_bits fo.toNat hf
  unfold GenK.realDec realFromContent
  simp only [hb, if_true]
  cases chunk with
  | nil => simp [bytesInts, liftRealDec, throw, throwThe, MonadExceptOf.throw]
  | cons c0 rest0 =>
    simp only [bytesInts_cons, List.isEmpty_cons, Bool.not_false, Bool.not_true, Bool.false_eq_true, if_false]
    have hb3 : Py.band (fo.toNat : Int) 3 = ((fo.toNat % 4 : Nat) : Int) := by
      rw [show (3 : Int) = ((3 : Nat) : Int) from rfl, band_nat, f1]
    have hbase : Py.band (Py.shr (fo.toNat : Int) 4) 3 = ((fo.toNat / 16 % 4 : Nat) : Int) := by
      rw [show (4 : Int) = ((4 : Nat) : Int) from rfl, shr_nat, show (3 : Int) = ((3 : Nat) : Int) from rfl, band_nat, f2]
    have hsf : Py.band (Py.shr (fo.toNat : Int) 2) 3 = ((fo.toNat / 4 % 4 : Nat) : Int) := by
      rw [show (2 : Int) = ((2 : Nat) : Int) from rfl, shr_nat, show (3 : Int) = ((3 : Nat) : Int) from rfl, band_nat, f3]
    have hsign : Py.truthy (Py.band (fo.toNat : Int) 64) = decide (fo.toNat / 64 % 2 = 1) := by
      rw [show (64 : Int) = ((64 : Nat) : Int) from rfl, band_nat, truthy_nat, f4]
    simp only [hb3, hbase, hsf, hsign, bind, Except.bind]
    generalize hNC : (if fo.toNat % 4 + 1 = 4 then (c0.toNat, rest0) else (fo.toNat % 4 + 1, c0 :: rest0)) = NC
    obtain ⟨N, C⟩ := NC
    split
    · rename_i err heq
      exfalso
      by_cases h4 : fo.toNat % 4 + 1 = 4
      · have : ((fo.toNat : Int) % 4 + 1 = 4) := by omega
        simp [this, idx_cons_zero, pure, Except.pure, bind, Except.bind] at heq
      · have : ¬ ((fo.toNat : Int) % 4 + 1 = 4) := by omega
        simp [this, pure, Except.pure] at heq
    · rename_i x heq
      have hx : x = ((N : Int), bytesInts C) := by
        by_cases h4 : fo.toNat % 4 + 1 = 4
        · have : ((fo.toNat : Int) % 4 + 1 = 4) := by omega
          simp only [h4, if_true, Prod.mk.injEq] at hNC
          simp [this, idx_cons_zero, pure, Except.pure, bind, Except.bind, sliceFrom_one] at heq
          rw [← heq, ← hNC.1, ← hNC.2]
        · have : ¬ ((fo.toNat : Int) % 4 + 1 = 4) := by omega
          simp only [h4, if_false, Prod.mk.injEq] at hNC
          simp [this, pure, Except.pure] at heq
          rw [← heq, ← hNC.1, ← hNC.2]
          simp [bytesInts_cons]
      subst hx
      clear heq hNC
      simp only [sliceToG_bytes, sliceFromG_bytes, bytesInts_isEmpty, Bool.not_not]
      have hbvlt : fo.toNat / 16 % 4 < 4 := Nat.mod_lt _ (by decide)
      have hsvlt : fo.toNat / 4 % 4 < 4 := Nat.mod_lt _ (by decide)
      generalize fo.toNat / 16 % 4 = bv at hbvlt ⊢
      generalize fo.toNat / 4 % 4 = sv at hsvlt ⊢
      generalize fo.toNat / 64 % 2 = gv
      clear hbase hsf hsign hb3 f1 f2 f3 f4
      generalize hE : List.take N C = E
      generalize hM : List.drop N C = M
      have hlenE : (bytesInts E).length = E.length := by simp [bytesInts]
      have hlenM : (bytesInts M).length = M.length := by simp [bytesInts]
      have hl2 := realDec_loop2_spec M (M.length + 1) 0 (by omega)
      have hmant : intFromBytesAux 0 M = ((bytesToNat M : Nat) : Int) := by
        have := intFromBytesAux_nat M 0
        simpa [bytesToNat, ofBe256, ofBeDigits] using this
      have hpow : Py.pow 2 ((sv : Nat) : Int) = .ok ((2 : Int) ^ sv) := by
        have : ¬ (((sv : Nat) : Int) < 0) := by omega
        simp [Py.pow, this, pure, Except.pure]
      by_cases hemp : (E.isEmpty || M.isEmpty) = true
      · simp [hemp, liftRealDec, throw, throwThe, MonadExceptOf.throw]
      · simp only [hemp, Bool.false_eq_true, if_false]
        cases E with
        | nil => simp at hemp
        | cons b0 r =>
          have hl1 := realDec_loop1_spec (b0 :: r) ((b0 :: r).length + 1) (if b0.toNat < 128 then 0 else -1) (by omega)
          simp only [bytesInts_cons] at hl1 hlenE ⊢
          rw [idx_cons_zero]
          simp only [sign_start, hlenE, hlenM, hl1, hl2, intFromBytes_start, hmant, hpow]
          by_cases hb2 : bv > 2
          · have : (((bv : Nat) : Int) > 2) := by omega
            simp [hb2, this, liftRealDec, throw, throwThe, MonadExceptOf.throw]
          · have h2' : ¬ (((bv : Nat) : Int) > 2) := by omega
            simp only [hb2, h2', decide_false, Bool.false_eq_true, if_false, liftRealDec]
            by_cases hb1 : bv = 1
            · have : (((bv : Nat) : Int) = 1) := by omega
              by_cases hs : gv = 1 <;> simp [hb1, this, hs, pure, Except.pure]
            · have h1' : ¬ (((bv : Nat) : Int) = 1) := by omega
              by_cases hb22 : bv = 2
              · have : (((bv : Nat) : Int) = 2) := by omega
                by_cases hs : gv = 1 <;> simp [hb1, h1', hb22, this, hs, pure, Except.pure]
              · have h22' : ¬ (((bv : Nat) : Int) = 2) := by omega
                by_cases hs : gv = 1 <;> simp [hb1, h1', hb22, h22', hs, pure, Except.pure]

/-- the first contents octet the encoder model writes for a non-zero binary REAL has bit 8 set -/
theorem realBinToContent_head (m e : Int) (c : Bytes) (hm : m ≠ 0) (h : realBinToContent m e = some c) :
    ∃ fo rest, c = fo :: rest ∧ fo.toNat ≥ 128 := by
  unfold realBinToContent at h
  simp only [hm, if_false] at h
  generalize normOdd m.natAbs m.natAbs e = no at h
  obtain ⟨mo, eo⟩ := no
  simp only at h
  by_cases hbig : (intToBytes eo).length > 0xff
  · simp [hbig] at h
  · simp only [hbig, if_false, Option.some.injEq] at h
    subst h
    refine ⟨_, _, rfl, ?_⟩
    by_cases hneg : m < 0 <;> by_cases h1 : (intToBytes eo).length = 1 <;> by_cases h2 : (intToBytes eo).length = 2 <;>
      by_cases h3 : (intToBytes eo).length = 3 <;> simp [hneg, h1, h2, h3] <;> decide

end Asn1.Kernels
