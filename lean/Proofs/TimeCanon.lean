/-
  Proofs.TimeCanon — the CER/DER time canonicaliser: structure of its output, refusals, and
  preservation of the X.680 instant when the fraction has no zero before a non-zero digit.
-/
import Proofs.TimeDigits

namespace Asn1.Time

/-! ### list splitting -/

theorem takeWhile_append_stop {p : Char → Bool} {a : List Char} (ha : ∀ x ∈ a, p x = true) {c : Char}
    (hc : p c = false) (b : List Char) : (a ++ c :: b).takeWhile p = a := by
  induction a with
  | nil => simp [hc]
  | cons x r ih =>
    have hx := ha x List.mem_cons_self
    simp [hx, ih (fun y hy => ha y (List.mem_cons_of_mem _ hy))]

theorem dropWhile_append_stop {p : Char → Bool} {a : List Char} (ha : ∀ x ∈ a, p x = true) {c : Char}
    (hc : p c = false) (b : List Char) : (a ++ c :: b).dropWhile p = c :: b := by
  induction a with
  | nil => simp [hc]
  | cons x r ih =>
    have hx := ha x List.mem_cons_self
    simp [hx, ih (fun y hy => ha y (List.mem_cons_of_mem _ hy))]

/-- a character that occurs has a last occurrence -/
theorem exists_last_split {c : Char} {s : List Char} (h : c ∈ s) :
    ∃ pre post, s = pre ++ c :: post ∧ c ∉ post := by
  induction s with
  | nil => cases h
  | cons x r ih =>
    by_cases hr : c ∈ r
    · obtain ⟨pre, post, e, hp⟩ := ih hr
      exact ⟨x :: pre, post, by simp [e], hp⟩
    · rcases List.mem_cons.mp h with h | h
      · subst h; exact ⟨[], r, rfl, hr⟩
      · exact absurd h hr

/-- a character occurring once splits the list uniquely -/
theorem split_unique {c : Char} {a b a' b' : List Char} (ha : c ∉ a) (hb : c ∉ b)
    (e : a ++ c :: b = a' ++ c :: b') : a = a' ∧ b = b' := by
  induction a generalizing a' with
  | nil =>
    cases a' with
    | nil => simp at e; exact ⟨rfl, e⟩
    | cons x r =>
      simp at e
      exact absurd (e.2 ▸ (by simp : c ∈ r ++ c :: b')) hb
  | cons y t ih =>
    cases a' with
    | nil =>
      simp at e
      exact absurd (e.1 ▸ List.mem_cons_self) ha
    | cons x r =>
      simp at e
      obtain ⟨h1, h2⟩ := ih (fun m => ha (List.mem_cons_of_mem _ m)) e.2
      exact ⟨by rw [e.1, h1], h2⟩

/-! ### the scan -/

/-- `stripFraction` in terms of the split at the last decimal point -/
theorem stripFraction_split (pre post : List Char) (hp : '.' ∉ post) :
    stripFraction (pre ++ '.' :: post)
      = if (post.filter (· ≠ '0')).head? = some 'Z' then pre ++ post.filter (· ≠ '0')
        else pre ++ '.' :: post.filter (· ≠ '0') := by
  have hrev : (pre ++ '.' :: post).reverse = post.reverse ++ '.' :: pre.reverse := by simp
  have hall : ∀ x ∈ post.reverse, (decide (x ≠ '.')) = true := by
    intro x hx
    have : x ∈ post := List.mem_reverse.mp hx
    simp; intro e; exact hp (e ▸ this)
  have hstop : (decide ('.' ≠ '.')) = false := by simp
  unfold stripFraction
  simp only [hrev, takeWhile_append_stop hall hstop, dropWhile_append_stop hall hstop, List.reverse_reverse,
    List.drop_one, List.tail_cons]

/-- what `canonTime` demands of its input and how its output is made -/
theorem canonTime_ok {k : Kind} {s s' : List Char} (h : canonTime k s = .ok s') :
    '+' ∉ s ∧ '-' ∉ s ∧ s.getLast? = some 'Z' ∧ ',' ∉ s
      ∧ s' = (if '.' ∈ s then stripFraction s else s) ∧ k.minLength < s'.length ∧ s'.length < k.maxLength := by
  unfold canonTime at h
  by_cases hs : '+' ∈ s ∨ '-' ∈ s
  · simp [hs] at h
  · rw [if_neg hs] at h
    cases hl : s.getLast? with
    | none => simp [hl] at h
    | some l =>
      simp only [hl] at h
      by_cases hz : l ≠ 'Z'
      · simp [hz] at h
      · rw [if_neg hz] at h
        by_cases hc : ',' ∈ s
        · simp [hc] at h
        · rw [if_neg hc] at h
          by_cases hlen : k.minLength < (if '.' ∈ s then stripFraction s else s).length
              ∧ (if '.' ∈ s then stripFraction s else s).length < k.maxLength
          · rw [if_pos hlen] at h
            have e : (if '.' ∈ s then stripFraction s else s) = s' := by injection h
            have hz' : l = 'Z' := by simpa using hz
            refine ⟨fun m => hs (Or.inl m), fun m => hs (Or.inr m), by rw [hz'], hc, e.symm, ?_, ?_⟩
            · rw [← e]; exact hlen.1
            · rw [← e]; exact hlen.2
          · rw [if_neg hlen] at h; cases h

/-- non-UTC values are refused: an offset sign anywhere, or no final `Z` -/
theorem canonTime_refuses_sign (k : Kind) {s : List Char} (h : '+' ∈ s ∨ '-' ∈ s) :
    canonTime k s = .error .liberr := by
  simp [canonTime, h]

theorem canonTime_refuses_noZ (k : Kind) {s : List Char} (hne : s ≠ []) (h : s.getLast? ≠ some 'Z') :
    canonTime k s = .error .liberr := by
  unfold canonTime
  split
  · rfl
  · cases hl : s.getLast? with
    | none => exact absurd (List.getLast?_eq_none_iff.mp hl) hne
    | some l =>
      have : l ≠ 'Z' := fun e => h (by rw [hl, e])
      simp [this]

theorem mem_filter_sub {p : Char → Bool} {x : Char} {l : List Char} (h : x ∈ l.filter p) : x ∈ l :=
  (List.mem_filter.mp h).1

/-- shape of the canonical output (input with at most one decimal point) -/
theorem canonTime_shape {k : Kind} {s s' : List Char} (h : canonTime k s = .ok s') (h1 : s.count '.' ≤ 1) :
    s'.getLast? = some 'Z' ∧ ',' ∉ s' ∧ '+' ∉ s' ∧ '-' ∉ s'
      ∧ (∀ pre frac, s' = pre ++ '.' :: (frac ++ ['Z']) → frac ≠ [] ∧ '0' ∉ frac) := by
  obtain ⟨hp, hm, hz, hc, e, _, _⟩ := canonTime_ok h
  by_cases hd : '.' ∈ s
  · rw [if_pos hd] at e
    obtain ⟨pre0, post0, es, hpost⟩ := exists_last_split hd
    -- the dot occurs once: not before the split either
    have hpre : '.' ∉ pre0 := by
      intro m
      have : (pre0 ++ '.' :: post0).count '.' ≥ 2 := by
        rw [List.count_append, List.count_cons_self]
        have := List.count_pos_iff.mpr m
        omega
      rw [← es] at this; omega
    -- the text after the dot ends in Z
    obtain ⟨q, eq⟩ : ∃ q, post0 = q ++ ['Z'] := by
      rcases List.eq_nil_or_concat post0 with e0 | ⟨q, b, e0⟩
      · rw [es, e0] at hz
        have : (pre0 ++ ['.']).getLast? = some '.' := List.getLast?_concat
        rw [this] at hz; cases hz
      · refine ⟨q, ?_⟩
        rw [List.concat_eq_append] at e0
        have : s = (pre0 ++ '.' :: q) ++ [b] := by rw [es, e0]; simp
        rw [this, List.getLast?_concat] at hz
        injection hz with hb
        rw [e0, hb]
    have hq : '.' ∉ q := fun m => hpost (by rw [eq]; exact List.mem_append_left _ m)
    have hfilt : post0.filter (· ≠ '0') = q.filter (· ≠ '0') ++ ['Z'] := by
      rw [eq, List.filter_append]; rfl
    have hsub : ∀ x, x ∈ s' → x ∈ s := by
      intro x hx
      rw [e, es, stripFraction_split pre0 post0 hpost] at hx
      rw [es]
      split at hx
      · rcases List.mem_append.mp hx with m | m
        · exact List.mem_append_left _ m
        · exact List.mem_append_right _ (List.mem_cons_of_mem _ (mem_filter_sub m))
      · rcases List.mem_append.mp hx with m | m
        · exact List.mem_append_left _ m
        · rcases List.mem_cons.mp m with m | m
          · rw [m]; simp
          · exact List.mem_append_right _ (List.mem_cons_of_mem _ (mem_filter_sub m))
    have hfq0 : '0' ∉ q.filter (· ≠ '0') := by
      intro m; have := (List.mem_filter.mp m).2; simp at this
    have hfqd : '.' ∉ q.filter (· ≠ '0') := fun m => hq (mem_filter_sub m)
    refine ⟨?_, fun m => hc (hsub _ m), fun m => hp (hsub _ m), fun m => hm (hsub _ m), ?_⟩
    · rw [e, es, stripFraction_split pre0 post0 hpost, hfilt]
      split
      · rw [← List.append_assoc]; exact List.getLast?_concat
      · have : pre0 ++ '.' :: (q.filter (· ≠ '0') ++ ['Z']) = (pre0 ++ '.' :: q.filter (· ≠ '0')) ++ ['Z'] := by simp
        rw [this]; exact List.getLast?_concat
    · intro pre frac e'
      rw [e, es, stripFraction_split pre0 post0 hpost, hfilt] at e'
      split at e'
      · -- the dot was deleted: no decimal point is left
        have hin : '.' ∈ pre ++ '.' :: (frac ++ ['Z']) := by simp
        rw [← e'] at hin
        rcases List.mem_append.mp hin with m | m
        · exact absurd m hpre
        · rcases List.mem_append.mp m with m | m
          · exact absurd m hfqd
          · simp at m
      · rename_i hhead
        have hZ : '.' ∉ q.filter (· ≠ '0') ++ ['Z'] := by
          intro m; rcases List.mem_append.mp m with m | m
          · exact hfqd m
          · simp at m
        obtain ⟨_, e2⟩ := split_unique hpre hZ e'
        have e3 : q.filter (· ≠ '0') = frac := List.append_cancel_right e2
        rw [← e3]
        refine ⟨?_, hfq0⟩
        intro e0
        rw [e0] at hhead
        exact hhead rfl
  · rw [if_neg hd] at e
    subst e
    refine ⟨hz, hc, hp, hm, ?_⟩
    intro pre frac e
    exact absurd (e ▸ (by simp : '.' ∈ pre ++ '.' :: (frac ++ ['Z']))) hd

/-! ### the instant is kept when only trailing zeros are deleted -/

theorem normDec_mul (n s k : Nat) : normDec (n * 10 ^ k) (s + k) = normDec n s := by
  induction k with
  | zero => simp
  | succ k ih =>
    have h1 : n * 10 ^ (k + 1) % 10 = 0 := by rw [Nat.pow_succ, ← Nat.mul_assoc]; exact Nat.mul_mod_left _ _
    have h2 : n * 10 ^ (k + 1) / 10 = n * 10 ^ k := by
      rw [Nat.pow_succ, ← Nat.mul_assoc]; exact Nat.mul_div_cancel _ (by decide)
    rw [show s + (k + 1) = (s + k) + 1 from rfl, normDec, if_pos h1, h2, ih]

theorem dv_zero : dv '0' = some 0 := by decide

theorem digitsVal_zeros (acc k : Nat) : digitsVal acc (List.replicate k '0') = acc * 10 ^ k := by
  induction k generalizing acc with
  | zero => simp [digitsVal]
  | succ k ih =>
    rw [List.replicate_succ, digitsVal, dv_zero, ih]
    simp [Nat.pow_succ]; rw [Nat.mul_assoc, Nat.mul_comm 10]

theorem todOf_zeros (base unit : Nat) (f : List Char) (k : Nat) :
    todOf base unit (f ++ List.replicate k '0') = todOf base unit f := by
  unfold todOf
  rw [digitsVal_append, digitsVal_zeros, List.length_append, List.length_replicate, ← normDec_mul _ f.length k]
  congr 1
  rw [Nat.pow_add, Nat.add_mul, Nat.mul_assoc, Nat.mul_assoc]

theorem readMain_zeros (kd : Kind) (m f : List Char) (k : Nat) (off : Option Int) :
    readMain kd m (f ++ List.replicate k '0') off = readMain kd m f off := by
  simp only [readMain, todOf_zeros]

theorem allDig_of {s : List Char} (h : AllDig s) : allDig s = true := by
  simp only [allDig, List.all_eq_true]; exact h

theorem readZone_Z (k : Kind) (body : List Char) : readZone k (body ++ ['Z']) = some (body, some 0) := by
  simp [readZone]

theorem readFrac_dot {main F : List Char} (hm : AllDig main) (hF : AllDig F) (hne : F ≠ []) :
    readFrac gt (main ++ '.' :: F) = some (main, F) := by
  have hin : '.' ∈ main ++ '.' :: F := by simp
  have hall : ∀ x ∈ main, notMark x = true := by
    intro x hx
    have h1 : x ≠ '.' := isDig_ne (hm x hx) (by decide)
    have h2 : x ≠ ',' := isDig_ne (hm x hx) (by decide)
    simp [notMark, h1, h2]
  have hstop : notMark '.' = false := by decide
  have hgt : isGT gt = true := by decide
  simp only [readFrac, hin, true_or, if_true, hgt, not_true_eq_false, if_false,
    takeWhile_append_stop hall hstop, dropWhile_append_stop hall hstop, List.drop_one, List.tail_cons,
    allDig_of hF]
  simp [hne]

theorem readFrac_none (k : Kind) {main : List Char} (hm : AllDig main) : readFrac k main = some (main, []) := by
  have h1 : '.' ∉ main := hm.not_mem (by decide)
  have h2 : ',' ∉ main := hm.not_mem (by decide)
  simp [readFrac, h1, h2]

theorem instant_dot {main F : List Char} (hm : AllDig main) (hF : AllDig F) (hne : F ≠ []) :
    instant gt (main ++ '.' :: (F ++ ['Z'])) = readMain gt main F (some 0) := by
  have e : main ++ '.' :: (F ++ ['Z']) = (main ++ '.' :: F) ++ ['Z'] := by simp
  rw [e, instant, readZone_Z]
  simp only [readFrac_dot hm hF hne]

theorem instant_nodot (k : Kind) {main : List Char} (hm : AllDig main) :
    instant k (main ++ ['Z']) = readMain k main [] (some 0) := by
  rw [instant, readZone_Z]
  simp only [readFrac_none k hm]

theorem filter_nonzero_self {f : List Char} (h0 : '0' ∉ f) : f.filter (· ≠ '0') = f := by
  rw [List.filter_eq_self]
  intro x hx
  simp; intro e; exact h0 (e ▸ hx)

theorem filter_nonzero_zeros (k : Nat) : (List.replicate k '0').filter (· ≠ '0') = [] := by
  rw [List.filter_replicate]; simp

/-- the canonical form of a UTC value whose fraction is `f` followed by `n` zeros, `f` free of zeros -/
theorem canonTime_trailing {k : Kind} {main f : List Char} {n : Nat} {s' : List Char}
    (hf : AllDig f) (h0 : '0' ∉ f)
    (h : canonTime k (main ++ '.' :: (f ++ List.replicate n '0' ++ ['Z'])) = .ok s') :
    s' = if f = [] then main ++ ['Z'] else main ++ '.' :: (f ++ ['Z']) := by
  obtain ⟨_, _, _, _, e, _, _⟩ := canonTime_ok h
  have hin : '.' ∈ main ++ '.' :: (f ++ List.replicate n '0' ++ ['Z']) := by simp
  have hpost : '.' ∉ f ++ List.replicate n '0' ++ ['Z'] := by
    intro m
    rcases List.mem_append.mp m with m | m
    · rcases List.mem_append.mp m with m | m
      · exact hf.not_mem (by decide) m
      · have := List.eq_of_mem_replicate m; cases this
    · simp at m
  rw [if_pos hin, stripFraction_split _ _ hpost] at e
  have hfil : (f ++ List.replicate n '0' ++ ['Z']).filter (· ≠ '0') = f ++ ['Z'] := by
    rw [List.filter_append, List.filter_append, filter_nonzero_self h0, filter_nonzero_zeros]; simp
  rw [hfil] at e
  cases f with
  | nil => simpa using e
  | cons c r =>
    have hc : c ≠ 'Z' := isDig_ne hf.head (by decide)
    simp [hc] at e
    simp [e]

theorem canonTime_instant {main f : List Char} {n : Nat} {s' : List Char}
    (hm : AllDig main) (hf : AllDig f) (h0 : '0' ∉ f) (hne : f ≠ [] ∨ n ≠ 0)
    (h : canonTime gt (main ++ '.' :: (f ++ List.replicate n '0' ++ ['Z'])) = .ok s') :
    instant gt s' = instant gt (main ++ '.' :: (f ++ List.replicate n '0' ++ ['Z'])) := by
  have hz : AllDig (List.replicate n '0') := by
    intro x hx; rw [List.eq_of_mem_replicate hx]; decide
  have hF : AllDig (f ++ List.replicate n '0') := hf.append hz
  have hFne : f ++ List.replicate n '0' ≠ [] := by
    rcases hne with h | h
    · simp [h]
    · cases n with
      | zero => exact absurd rfl h
      | succ n => simp [List.replicate_succ]
  rw [canonTime_trailing hf h0 h, instant_dot hm hF hFne, readMain_zeros]
  by_cases e : f = []
  · rw [if_pos e, instant_nodot gt hm, e]
  · rw [if_neg e, instant_dot hm hf e]

/-! ### refusal of everything X.680 does not read as UTC -/

theorem readMain_off {k : Kind} {m f : List Char} {off : Option Int} {i : Instant}
    (h : readMain k m f off = some i) : i.off = off := by
  simp only [readMain] at h
  repeat' split at h
  all_goals first | rfl | (cases h; done) | (cases h; rfl) | (injection h with h; rw [← h])

theorem instant_nil (k : Kind) : instant k [] = none := by
  unfold instant readZone
  by_cases hg : isGT k = true
  · simp [hg, readFrac, readMain, allDig]
  · simp [hg]

theorem readZone_off {k : Kind} {s body : List Char} {off : Option Int}
    (h : readZone k s = some (body, off)) (ho : off ≠ some 0) : s.getLast? ≠ some 'Z' := by
  intro hz
  unfold readZone at h
  rw [if_pos hz] at h
  injection h with h
  injection h with _ h
  exact ho h.symm

/-- a value whose X.680 reading is local time or carries a non-zero offset is refused with a library error -/
theorem canonTime_refuses_nonutc {k : Kind} {s : List Char} {i : Instant}
    (h : instant k s = some i) (ho : i.off ≠ some 0) : canonTime k s = .error .liberr := by
  have hne : s ≠ [] := by
    intro e; rw [e, instant_nil] at h; cases h
  unfold instant at h
  cases hz : readZone k s with
  | none => simp [hz] at h
  | some p =>
    obtain ⟨body, off⟩ := p
    simp only [hz] at h
    cases hf : readFrac k body with
    | none => simp [hf] at h
    | some q =>
      obtain ⟨m, f⟩ := q
      simp only [hf] at h
      have := readMain_off h
      exact canonTime_refuses_noZ k hne (readZone_off hz (this ▸ ho))

end Asn1.Time
