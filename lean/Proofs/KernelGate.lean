/-
  Proofs.KernelGate — the decoders' completeness gate for SEQUENCE / SET values decoded under a type:
  `if not namedTypes.requiredComponents.issubset(seenIndices): raise PyAsn1Error('... has uninitialized components')`
  in `ConstructedPayloadDecoderBase.valueDecoder` and `indefLenValueDecoder` (translated into `GenK.requiredSeen` and
  `GenK.requiredSeenIndef`, the set of mandatory positions a parameter): it lets through exactly the sets of seen
  positions that hold every mandatory one.
-/
import Proofs.Kernels
import Asn1.Container

namespace Asn1.Kernels
open Py
open Asn1.Container

/-- positions as the translated code sees them -/
def natInts (l : List Nat) : Py.Tup := l.map (fun (n : Nat) => ((n : Nat) : Int))

theorem natInts_contains (seen : List Nat) (i : Nat) : (natInts seen).contains (i : Int) = seen.contains i := by
  induction seen with
  | nil => simp [natInts]
  | cons a rest ih =>
    have hc : natInts (a :: rest) = (a : Int) :: natInts rest := rfl
    rw [hc, List.contains_cons, List.contains_cons, ih]
    congr 1
    by_cases h : i = a
    · subst h; simp
    · have : ¬ ((i : Int) = (a : Int)) := by omega
      have h1 : ((i : Int) == (a : Int)) = false := by simpa using this
      have h2 : (i == a) = false := by simpa using h
      rw [h1, h2]

theorem issuperset_nat (seen req : List Nat) :
    Py.issuperset (natInts seen) (natInts req) = req.all (fun i => seen.contains i) := by
  unfold Py.issuperset
  induction req with
  | nil => simp [natInts]
  | cons a rest ih =>
    have hc : natInts (a :: rest) = (a : Int) :: natInts rest := rfl
    rw [hc, List.all_cons, List.all_cons, ih, natInts_contains]

/-- **the completeness gate as it is in the source** (definite-length decoder) -/
theorem requiredSeen_kernel (req seen : List Nat) :
    GenK.requiredSeen (natInts req) (natInts seen) =
      if req.all (fun i => seen.contains i) then .ok 0 else .error (.lib "PyAsn1Error") := by
  unfold GenK.requiredSeen
  rw [issuperset_nat]
  cases req.all (fun i => seen.contains i) <;> rfl

/-- the same statement of the indefinite-length decoder -/
theorem requiredSeenIndef_kernel (req seen : List Nat) :
    GenK.requiredSeenIndef (natInts req) (natInts seen) =
      if req.all (fun i => seen.contains i) then .ok 0 else .error (.lib "PyAsn1Error") := by
  unfold GenK.requiredSeenIndef
  rw [issuperset_nat]
  cases req.all (fun i => seen.contains i) <;> rfl

/-! ### index normalisation of SEQUENCE OF / SET OF objects (type/univ.py) -/

/-- the model's answer as the translated statement reports it -/
def liftIdx : Option Nat → Py.M Int
  | some k => .ok (k : Int)
  | none => .error (.lib "PyAsn1Error")

/-- **`if idx < 0: idx = len(self) + idx; if idx < 0: raise` as it stands in `getComponentByPosition`** is the model's
    `SeqOf.normIdx`: a non-negative index as it is, a negative one counted from the end, PyAsn1Error before the front -/
theorem seqOfGetIdx_kernel (st : SeqOfSt) (i : Int) :
    GenK.seqOfGetIdx (SeqOf.len st : Int) i = liftIdx (SeqOf.normIdx st i) := by
  unfold GenK.seqOfGetIdx SeqOf.normIdx
  by_cases h0 : 0 ≤ i
  · have : ¬ (i < 0) := by omega
    simp only [this, decide_false, Bool.false_eq_true, if_false, h0, if_true, liftIdx, bind, Except.bind, pure, Except.pure]
    congr 1; omega
  · have h1 : i < 0 := by omega
    simp only [h1, decide_true, if_true, h0, if_false]
    by_cases h2 : 0 ≤ (SeqOf.len st : Int) + i
    · have : ¬ ((SeqOf.len st : Int) + i < 0) := by omega
      simp only [this, decide_false, Bool.false_eq_true, if_false, h2, if_true, liftIdx, bind, Except.bind, pure, Except.pure]
      congr 1; omega
    · have : (SeqOf.len st : Int) + i < 0 := by omega
      simp [this, h2, liftIdx, throw, throwThe, MonadExceptOf.throw, bind, Except.bind]

/-- the same statement as it stands in `setComponentByPosition` -/
theorem seqOfSetIdx_kernel (st : SeqOfSt) (i : Int) :
    GenK.seqOfSetIdx (SeqOf.len st : Int) i = liftIdx (SeqOf.normIdx st i) := by
  have : GenK.seqOfSetIdx (SeqOf.len st : Int) i = GenK.seqOfGetIdx (SeqOf.len st : Int) i := rfl
  rw [this, seqOfGetIdx_kernel]

end Asn1.Kernels
