/-
  Proofs.KernelGate — the decoders' completeness gate for SEQUENCE / SET values decoded under a type:
  `if not namedTypes.requiredComponents.issubset(seenIndices): raise PyAsn1Error('... has uninitialized components')`
  in `ConstructedPayloadDecoderBase.valueDecoder` and `indefLenValueDecoder` (translated into `GenK.requiredSeen` and
  `GenK.requiredSeenIndef`, the set of mandatory positions a parameter): it lets through exactly the sets of seen
  positions that hold every mandatory one.
-/
import Proofs.Kernels
import Asn1.Container

namespace Asn1.Kernels
open Py
open Asn1.Container

/-- positions as the translated code sees them -/
def natInts (l : List Nat) : Py.Tup := l.map (fun (n : Nat) => ((n : Nat) : Int))

theorem natInts_contains (seen : List Nat) (i : Nat) : (natInts seen).contains (i : Int) = seen.contains i := by
  induction seen with
  | nil => simp [natInts]
  | cons a rest ih =>
    have hc : natInts (a :: rest) = (a : Int) :: natInts rest := rfl
    rw [hc, List.contains_cons, List.contains_cons, ih]
    congr 1
    by_cases h : i = a
    · subst h; simp
    · have : ¬ ((i : Int) = (a : Int)) := by omega
      have h1 : ((i : Int) == (a : Int)) = false := by simpa using this
      have h2 : (i == a) = false := by simpa using h
      rw [h1, h2]

theorem issuperset_nat (seen req : List Nat) :
    Py.issuperset (natInts seen) (natInts req) = req.all (fun i => seen.contains i) := by
  unfold Py.issuperset
  induction req with
  | nil => simp [natInts]
  | cons a rest ih =>
    have hc : natInts (a :: rest) = (a : Int) :: natInts rest := rfl
    rw [hc, List.all_cons, List.all_cons, ih, natInts_contains]

/-- **the completeness gate as it is in the source** (definite-length decoder) -/
theorem requiredSeen_kernel (req seen : List Nat) :
    GenK.requiredSeen (natInts req) (natInts seen) =
      if req.all (fun i => seen.contains i) then .ok 0 else .error (.lib "PyAsn1Error") := by
  unfold GenK.requiredSeen
  rw [issuperset_nat]
  cases req.all (fun i => seen.contains i) <;> rfl

/-- the same statement of the indefinite-length decoder -/
theorem requiredSeenIndef_kernel (req seen : List Nat) :
    GenK.requiredSeenIndef (natInts req) (natInts seen) =
      if req.all (fun i => seen.contains i) then .ok 0 else .error (.lib "PyAsn1Error") := by
  unfold GenK.requiredSeenIndef
  rw [issuperset_nat]
  cases req.all (fun i => seen.contains i) <;> rfl

/-! ### index normalisation of SEQUENCE OF / SET OF objects (type/univ.py) -/

/-- the model's answer as the translated statement reports it -/
def liftIdx : Option Nat → Py.M Int
  | some k => .ok (k : Int)
  | none => .error (.lib "PyAsn1Error")

/-- **`if idx < 0: idx = len(self) + idx; if idx < 0: raise` as it stands in `getComponentByPosition`** is the model's
    `SeqOf.normIdx`: a non-negative index as it is, a negative one counted from the end, PyAsn1Error before the front -/
theorem seqOfGetIdx_kernel (st : SeqOfSt) (i : Int) :
    GenK.seqOfGetIdx (SeqOf.len st : Int) i = liftIdx (SeqOf.normIdx st i) := by
  unfold GenK.seqOfGetIdx SeqOf.normIdx
  by_cases h0 : 0 ≤ i
  · have : ¬ (i < 0) := by omega
    simp only [this, decide_false, Bool.false_eq_true, if_false, h0, if_true, liftIdx, bind, Except.bind, pure, Except.pure]
    congr 1; omega
  · have h1 : i < 0 := by omega
    simp only [h1, decide_true, if_true, h0, if_false]
    by_cases h2 : 0 ≤ (SeqOf.len st : Int) + i
    · have : ¬ ((SeqOf.len st : Int) + i < 0) := by omega
      simp only [this, decide_false, Bool.false_eq_true, if_false, h2, if_true, liftIdx, bind, Except.bind, pure, Except.pure]
      congr 1; omega
    · have : (SeqOf.len st : Int) + i < 0 := by omega
      simp [this, h2, liftIdx, throw, throwThe, MonadExceptOf.throw, bind, Except.bind]

/-- the same statement as it stands in `setComponentByPosition` -/
theorem seqOfSetIdx_kernel (st : SeqOfSt) (i : Int) :
    GenK.seqOfSetIdx (SeqOf.len st : Int) i = liftIdx (SeqOf.normIdx st i) := by
  have : GenK.seqOfSetIdx (SeqOf.len st : Int) i = GenK.seqOfGetIdx (SeqOf.len st : Int) i := rfl
  rw [this, seqOfGetIdx_kernel]

/-! ### what an ANY field captures (`AnyPayloadDecoder.valueDecoder`) -/

theorem readN_mid (a b c : Bytes) :
    Py.readN (bytesInts (a ++ b ++ c)) ((a.length : Nat) : Int) ((b.length : Nat) : Int) = .ok (bytesInts b) := by
  unfold Py.readN
  have hl : (bytesInts (a ++ b ++ c)).length = a.length + b.length + c.length := by simp [bytesInts, Nat.add_assoc]
  have e1 : ((a.length : Nat) : Int).toNat = a.length := by omega
  have e2 : ((b.length : Nat) : Int).toNat = b.length := by omega
  rw [e1, e2, hl]
  have : a.length + b.length ≤ a.length + b.length + c.length := by omega
  simp only [this, if_true, pure, Except.pure]
  congr 1
  have hm : (bytesInts (a ++ b ++ c)).drop a.length = bytesInts (b ++ c) := by
    show ((a ++ b ++ c).map _).drop _ = (b ++ c).map _
    rw [← List.map_drop, List.append_assoc, List.drop_left]
  rw [hm]
  show ((b ++ c).map _).take _ = b.map _
  rw [← List.map_take, List.take_left]

/-- **an untagged ANY captures the whole element, header included** (the translated `AnyPayloadDecoder.valueDecoder`, the
    substrate being the complete input): with the mark at the element's first octet, the stream after its header and the
    declared length that of its contents, the value is header ++ contents exactly - nothing before, nothing after - and the
    stream ends up right behind the element -/
theorem anyCapture_untagged (pre hdr content rest : Bytes) :
    GenK.anyCapture ((pre.length : Nat) : Int) (bytesInts (pre ++ (hdr ++ content) ++ rest))
        (((pre.length + hdr.length : Nat)) : Int) true ((content.length : Nat) : Int) =
      .ok (bytesInts (hdr ++ content), ((pre.length + hdr.length + content.length : Nat) : Int)) := by
  unfold GenK.anyCapture
  simp only [if_true, bind, Except.bind, pure, Except.pure]
  have e : ((content.length : Nat) : Int) + ((((pre.length + hdr.length : Nat)) : Int) - ((pre.length : Nat) : Int)) =
      (((hdr ++ content).length : Nat) : Int) := by simp [List.length_append]; omega
  rw [e, readN_mid pre (hdr ++ content) rest]
  simp only [List.length_append]
  congr 2
  omega

/-- a tagged ANY (its own tag matched the header): the contents only -/
theorem anyCapture_tagged (pre hdr content rest : Bytes) (mark : Int) :
    GenK.anyCapture mark (bytesInts ((pre ++ hdr) ++ content ++ rest))
        (((pre.length + hdr.length : Nat)) : Int) false ((content.length : Nat) : Int) =
      .ok (bytesInts content, ((pre.length + hdr.length + content.length : Nat) : Int)) := by
  unfold GenK.anyCapture
  simp only [Bool.false_eq_true, if_false, bind, Except.bind, pure, Except.pure]
  have e : (((pre.length + hdr.length : Nat)) : Int) = (((pre ++ hdr).length : Nat) : Int) := by simp [List.length_append]
  rw [e, readN_mid (pre ++ hdr) content rest]
  simp only [List.length_append, Int.natCast_add]

end Asn1.Kernels
