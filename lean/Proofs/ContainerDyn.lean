/-
  Proofs.ContainerDyn — SEQUENCE / SET objects WITHOUT declared fields (dynamic names field-0, …)
  refine a plain growing list: on the representation `DynSpec.rep s` every allowed operation of the
  object model does what the prototype does.
-/
import Asn1.Container
import Proofs.ContainerRec

namespace Asn1.Container
open DynSpec

theorem dyn_getD (s : St) : (rep s).comps.getD [] = (s.getD []).map Comp.val := by
  cases s <;> rfl

theorem dyn_dyn (s : St) : (rep s).dyn = size s := by
  cases s <;> simp [rep, size]

theorem dyn_slot (s : St) (i : Int) :
    (rep s).comps.bind (fun l => Rec.slot l i) =
      (pyIdx (size s) i).bind (fun k => ((s.getD [])[k]?).map Comp.val) := by
  cases s with
  | none => simp [rep, size, pyIdx_zero]
  | some l =>
    simp only [rep, Option.bind_some, Rec.slot, List.length_map, size, Option.getD_some]
    cases pyIdx l.length i <;> simp

theorem dyn_slot' (s : St) (i : Int) :
    Rec.slot ((s.getD []).map Comp.val) i =
      (pyIdx (size s) i).bind (fun k => ((s.getD [])[k]?).map Comp.val) := by
  simp only [Rec.slot, List.length_map, size]
  cases pyIdx (s.getD []).length i <;> simp

theorem dyn_cur_hole (s : St) (i : Int) :
    ((Rec.slot ((s.getD []).map Comp.val) i).getD Comp.hole).isHole = !(has s i) := by
  rw [dyn_slot']
  unfold has
  cases hk : pyIdx (size s) i with
  | none => rfl
  | some k =>
    have := pyIdx_lt _ _ _ hk
    simp [List.getElem?_eq_getElem (show k < (s.getD []).length by simpa [size] using this), Comp.isHole]

/-- assignment on the representation -/
theorem dyn_setAt (s : St) (i : Int) (a : Arg) :
    Rec.setAt [] (rep s) i (some a) = (DynSpec.setAt s i a).map rep := by
  unfold Rec.setAt DynSpec.setAt
  simp only [List.length_nil, ne_eq, not_true_eq_false, if_false, dyn_getD, dyn_dyn]
  have hh := dyn_cur_hole s i
  cases a with
  | bad => rfl
  | py z =>
    simp only [hh]
    cases has s i with
    | false => rfl
    | true =>
      simp only [Bool.not_true, Bool.false_eq_true, if_false, if_true, List.length_map, size]
      split
      · rename_i h; simp [rep, h, List.map_set, setNth_eq_set]
      · split
        · simp [rep, List.map_append]
        · rfl
  | obj z =>
    simp only [List.length_map, size]
    split
    · rename_i h; simp [rep, h, List.map_set, setNth_eq_set]
    · split
      · simp [rep, List.map_append]
      · rfl


theorem dyn_setNone (s : St) (i : Int) (h : has s i = false) : Rec.setAt [] (rep s) i none = none := by
  unfold Rec.setAt
  simp only [List.length_nil, ne_eq, not_true_eq_false, if_false, dyn_getD, dyn_cur_hole, h, Bool.not_false, if_true]

/-- reading on the representation never changes it -/
theorem dyn_getAt (s : St) (i : Int) (inst : Bool) :
    Rec.getAt [] (rep s) i inst = (rep s, DynSpec.getAt s i inst) := by
  unfold Rec.getAt DynSpec.getAt
  rw [dyn_slot]
  cases hk : pyIdx (size s) i with
  | none =>
    have hh : has s i = false := by simp [has, hk]
    cases inst with
    | false => simp [Comp.isVal]
    | true => simp [Comp.isHole, dyn_setNone s i hh]
  | some k =>
    have hkl := pyIdx_lt _ _ _ hk
    have hlt : k < (s.getD []).length := by simpa [size] using hkl
    simp only [Option.bind_some, List.getElem?_eq_getElem hlt, Option.map_some, Option.getD_some]
    cases inst <;> simp [Comp.isVal, Comp.isHole]

theorem dyn_getMany (s : St) (ks : List Nat) (hks : ∀ k ∈ ks, k < size s) :
    Rec.getMany [] (rep s) ks = (rep s, some (ks.filterMap fun k => ((s.getD [])[k]?).map Comp.val)) := by
  induction ks with
  | nil => rfl
  | cons k ks ih =>
    have hk : k < size s := hks k List.mem_cons_self
    have hlt : k < (s.getD []).length := by simpa [size] using hk
    have hp : pyIdx (size s) (k : Int) = some k := pyIdx_nat _ _ hk
    simp only [Rec.getMany, dyn_getAt, DynSpec.getAt, hp, List.getElem?_eq_getElem hlt, Option.map_some,
      Option.getD_some, ih (fun k' h' => hks k' (List.mem_cons_of_mem _ h')), List.filterMap_cons]

theorem filterMap_range_map {α β} (l : List α) (f : α → β) :
    (List.range l.length).filterMap (fun k => (l[k]?).map f) = l.map f := by
  induction l with
  | nil => rfl
  | cons a l ih =>
    rw [List.length_cons, List.range_succ_eq_map, List.filterMap_cons]
    simp only [List.getElem?_cons_zero, Option.map_some, List.filterMap_map, List.map_cons]
    have : ((fun k => ((a :: l)[k]?).map f) ∘ Nat.succ) = (fun k => (l[k]?).map f) := by
      funext k; simp
    rw [this, ih]

theorem dyn_all (s : St) :
    Rec.getMany [] (rep s) (List.range (size s)) = (rep s, some ((s.getD []).map Comp.val)) := by
  rw [dyn_getMany s _ (by intro k hk; simpa using hk)]
  simp only [size, filterMap_range_map]

theorem dyn_setOut (s : St) (i : Option Int) (a : Arg) (err : Out) :
    Rec.setOut [] (rep s) i (some a) err = (rep (DynSpec.setOut s i a err).1, (DynSpec.setOut s i a err).2) := by
  cases i with
  | none => rfl
  | some i =>
    simp only [Rec.setOut, DynSpec.setOut, dyn_setAt]
    cases DynSpec.setAt s i a <;> rfl

theorem dyn_posOfName (s : St) (k : Nat) : Rec.posOfName [] (rep s) k = DynSpec.posOfName s k := by
  simp [Rec.posOfName, DynSpec.posOfName, Rec.nNames, dyn_dyn]

theorem takeWhile_vals (p : Comp → Bool) (hp : ∀ z, p (.val z) = true) (l : List Int) :
    (l.map Comp.val).takeWhile p = l.map Comp.val := by
  induction l with
  | nil => rfl
  | cons z l ih => simp only [List.map_cons, List.takeWhile_cons, hp, if_true, ih]

theorem dropWhile_vals (p : Comp → Bool) (hp : ∀ z, p (.val z) = true) (l : List Int) :
    (l.map Comp.val).dropWhile p = [] := by
  induction l with
  | nil => rfl
  | cons z l ih => simp only [List.map_cons, List.dropWhile_cons, hp, if_true, ih]

/-- **one step** of a record without declared fields against the growing-list prototype -/
theorem dyn_step (s : St) (op : RecOp) (hal : DynSpec.Allowed s op = true) :
    Rec.step [] (rep s) op = (rep (DynSpec.step s op).1, (DynSpec.step s op).2) := by
  cases op with
  | setItemPos i a => exact dyn_setOut s (some i) a .lookupErr
  | setPos i a => exact dyn_setOut s (some i) a .libErr
  | setItemName k a => simp only [Rec.step, DynSpec.step, dyn_posOfName]; exact dyn_setOut s _ a .lookupErr
  | setName k a => simp only [Rec.step, DynSpec.step, dyn_posOfName]; exact dyn_setOut s _ a .libErr
  | setType k a => simp [Rec.step, DynSpec.step, Rec.posOfType, Rec.setOut]
  | setNone i =>
    simp only [DynSpec.Allowed, Bool.not_eq_true'] at hal
    simp [Rec.step, DynSpec.step, Rec.setOut, dyn_setNone s i hal]
  | clear => rfl
  | reset => rfl
  | clone flag =>
    cases flag with
    | false => rfl
    | true =>
      cases s with
      | none => rfl
      | some l =>
        have h1 := takeWhile_vals (fun c => !c.isHole) (fun _ => rfl) l
        have h2 := dropWhile_vals (fun c => !c.isHole) (fun _ => rfl) l
        simp [Rec.step, DynSpec.step, rep, h1, h2]
  | len => cases s <;> simp [Rec.step, DynSpec.step, rep]
  | keys => simp [Rec.step, DynSpec.step, Rec.nNames, dyn_dyn]
  | contains k => simp [Rec.step, DynSpec.step, Rec.nNames, dyn_dyn]
  | getItemPos i => simp [Rec.step, DynSpec.step, dyn_getAt]
  | getPos i inst => simp [Rec.step, DynSpec.step, dyn_getAt]
  | getItemName k =>
    simp only [Rec.step, DynSpec.step, dyn_posOfName]
    cases DynSpec.posOfName s k <;> simp [dyn_getAt]
  | getName k inst =>
    simp only [Rec.step, DynSpec.step, dyn_posOfName]
    cases DynSpec.posOfName s k <;> simp [dyn_getAt]
  | getType k inst => simp [Rec.step, DynSpec.step, Rec.posOfType]
  | values => simp [Rec.step, DynSpec.step, Rec.nNames, dyn_dyn, dyn_all]
  | items => simp [Rec.step, DynSpec.step, Rec.nNames, dyn_dyn, dyn_all]
  | pretty =>
    cases s with
    | none => rfl
    | some l =>
      simp only [Rec.step, DynSpec.step, rep]
      congr 2
      rw [List.filter_eq_self]
      intro kv hkv
      have : kv.2 ∈ l.map Comp.val := by
        have := List.mem_map_of_mem (f := (·.2)) hkv
        rwa [enumFrom_map_snd] at this
      obtain ⟨z, _, hz⟩ := List.mem_map.mp this
      rw [← hz]; rfl
  | eqTo cs => cases s <;> simp [Rec.step, DynSpec.step, rep]
  | encode e => simp [Rec.step, DynSpec.step, dyn_dyn, dyn_all]

/-- **records without declared fields refine the growing-list prototype** along any allowed history -/
theorem dyn_run (s : St) (ops : List RecOp) (hal : DynSpec.AllowedRun s ops) :
    Rec.run [] (rep s) ops = (rep (DynSpec.run s ops).1, (DynSpec.run s ops).2) := by
  induction ops generalizing s with
  | nil => rfl
  | cons op ops ih =>
    obtain ⟨h1, h2⟩ := hal
    simp only [Rec.run, DynSpec.run, dyn_step s op h1]
    rw [ih _ h2]

end Asn1.Container
