/-
  Proofs.NativeText — text forms used by the native codec: '0101' of a BIT STRING and the dotted
  form of an OBJECT IDENTIFIER read back to what was printed.
-/
import Asn1.Native
import Proofs.TimeDigits

namespace Asn1.Native

open Asn1.Time

/-- `fromBinaryString(asBinary(bits)) = bits`, including the empty bit string -/
theorem parseBits_bitsText (bs : List Bool) : parseBits (bitsText bs) = .ok bs := by
  induction bs with
  | nil => rfl
  | cons b r ih =>
    cases b
    · simp only [bitsText, List.map] at ih ⊢
      simp [parseBits, ih, Except.map]
    · simp only [bitsText, List.map] at ih ⊢
      simp [parseBits, ih, Except.map]


theorem splitDots_ne_nil (s : List Char) : splitDots s ≠ [] := by
  induction s with
  | nil => simp [splitDots]
  | cons c r ih =>
    rw [splitDots]
    split
    · simp
    · split <;> simp

theorem dig_ne_dot {c : Char} (h : isDig c = true) : c ≠ '.' := isDig_ne h (by decide)
theorem dig_ne_minus {c : Char} (h : isDig c = true) : c ≠ '-' := isDig_ne h (by decide)

/-- a digit string has no '.' to split at -/
theorem splitDots_allDig {s : List Char} (hs : AllDig s) : splitDots s = [s] := by
  induction s with
  | nil => rfl
  | cons c r ih =>
    rw [splitDots, ih hs.tail]
    simp [dig_ne_dot hs.head]

/-- digits, a dot, the rest: the first piece is the digits -/
theorem splitDots_dig_dot {s : List Char} (hs : AllDig s) (r : List Char) :
    splitDots (s ++ '.' :: r) = s :: splitDots r := by
  induction s with
  | nil =>
    simp only [List.nil_append]
    rw [splitDots]
    cases h : splitDots r with
    | nil => exact absurd h (splitDots_ne_nil r)
    | cons a as => simp
  | cons c t ih =>
    simp only [List.cons_append]
    rw [splitDots, ih hs.tail]
    simp [dig_ne_dot hs.head]

theorem splitDots_oidText (a : Nat) (rest : List Nat) :
    splitDots (oidText (a :: rest)) = (a :: rest).map dec := by
  induction rest generalizing a with
  | nil => simp [oidText, splitDots_allDig (allDig_dec a)]
  | cons b r ih =>
    rw [oidText, splitDots_dig_dot (allDig_dec a), ih b]
    · simp
    · simp

theorem intsOf_map_dec (arcs : List Nat) : intsOf (arcs.map dec) = some (arcs.map Int.ofNat) := by
  induction arcs with
  | nil => rfl
  | cons a r ih =>
    simp only [List.map, intsOf, ih, pyInt_allDig (allDig_dec a) (dec_ne_nil a), digitsVal_dec]

theorem filter_nonempty_map_dec (arcs : List Nat) :
    (arcs.map dec).filter (fun s => !s.isEmpty) = arcs.map dec := by
  apply List.filter_eq_self.mpr
  intro s hs
  rcases List.mem_map.mp hs with ⟨a, _, rfl⟩
  have := dec_ne_nil a
  cases h : dec a with
  | nil => exact absurd h this
  | cons _ _ => rfl

theorem oidText_no_minus (arcs : List Nat) : (oidText arcs).contains '-' = false := by
  have key : ∀ arcs : List Nat, ∀ c ∈ oidText arcs, c ≠ '-' := by
    intro arcs
    induction arcs with
    | nil => intro c h; simp [oidText] at h
    | cons a r ih =>
      intro c h
      cases r with
      | nil =>
        simp only [oidText] at h
        exact dig_ne_minus (allDig_dec a c h)
      | cons b t =>
        rw [oidText] at h
        · rcases List.mem_append.mp h with h | h
          · exact dig_ne_minus (allDig_dec a c h)
          · rcases List.mem_cons.mp h with h | h
            · subst h; decide
            · exact ih c h
        · simp
  cases h : (oidText arcs).contains '-' with
  | false => rfl
  | true =>
    rw [List.contains_iff_mem] at h
    exact absurd rfl (key arcs '-' h)

/-- `ObjectIdentifier.prettyIn(prettyOut(arcs)) = arcs` for every arc list, the empty one included -/
theorem parseOid_oidText (arcs : List Nat) : parseOid (oidText arcs) = .ok arcs := by
  unfold parseOid
  rw [oidText_no_minus]
  cases arcs with
  | nil => simp [oidText, splitDots, intsOf]
  | cons a r =>
    rw [splitDots_oidText, filter_nonempty_map_dec, intsOf_map_dec]
    simp [Function.comp_def]

/-- `int(str(n)) = n` -/
theorem pyInt_dec (n : Nat) : pyInt (dec n) = some (Int.ofNat n) := by
  rw [pyInt_allDig (allDig_dec n) (dec_ne_nil n), digitsVal_dec]

theorem arcsOfTuple_ofNat (arcs : List Nat) : arcsOfTuple (arcs.map Int.ofNat) = .ok arcs := by
  unfold arcsOfTuple
  have h : (arcs.map Int.ofNat).all (fun z => decide (0 ≤ z)) = true := by
    simp [List.all_eq_true]
  rw [h]
  simp [Function.comp_def]

end Asn1.Native
