/-
  Proofs.StreamTyped — the typed end of the streaming theorems: a stream that is the concatenation of
  encoder outputs is framed, under any arrival schedule, into exactly the elements the encoder wrote,
  and each of them is read by the guided decoder as the value that was encoded.
-/
import Proofs.StreamIter
import Proofs.Codec

namespace Asn1

open Asn1.Stream

/-- the encodings of a list of values of one type -/
def encodeAll (cfg : EncCfg) (o : EncOpts) (t : Ty) : List Val → Except Err (List Bytes)
  | [] => .ok []
  | v :: vs =>
    match encItem cfg o t v with
    | .error e => .error e
    | .ok b => (encodeAll cfg o t vs).map (b :: ·)

/-- `ws` are the values `vs` up to the order of SET OF elements, read from the trees `xs` -/
def Decoded (dcfg : DecCfg) (t : Ty) : List Val → List TLV → Prop
  | [], [] => True
  | v :: vs, x :: xs => (∃ w, decTy dcfg t x = .ok w ∧ VEq t v w) ∧ Decoded dcfg t vs xs
  | _, _ => False

/-- every encoder output is the serialisation of one element the decoder reads as the value -/
theorem encodeAll_trees (cfg : EncCfg) (dcfg : DecCfg) (pf : Profile) (o : EncOpts) (hi : o.ifNotEmpty = false)
    (hR : EncRegion cfg pf (cfg.fixedChunk.getD o.maxChunk)) (hC : Compat pf dcfg)
    (t : Ty) (hreg : t.reg true cfg (cfg.fixedDefMode.getD o.defMode) = true) (hwf : t.WF = true) :
    ∀ (vs : List Val) (bs : List Bytes), (∀ v ∈ vs, HasType t v = true ∧ noE3 cfg.seqOmitEmpty t v = true) →
      encodeAll cfg o t vs = .ok bs →
      ∃ xs : List TLV, bs.flatten = serList xs ∧ xs.length = vs.length ∧ WFs xs ∧
        (cfg.fixedDefMode.getD o.defMode = true → allDefL xs = true) ∧ Decoded dcfg t vs xs
  | [], bs, _, h => by
    simp only [encodeAll, Except.ok.injEq] at h
    subst h
    exact ⟨[], rfl, rfl, trivial, fun _ => rfl, trivial⟩
  | v :: vs, bs, hv, h => by
    simp only [encodeAll] at h
    cases he : encItem cfg o t v with
    | error e => rw [he] at h; simp at h
    | ok b =>
      rw [he] at h
      cases hr : encodeAll cfg o t vs with
      | error e => rw [hr] at h; simp [Except.map] at h
      | ok bs' =>
        rw [hr] at h
        simp only [Except.map, Except.ok.injEq] at h
        subst h
        obtain ⟨xs, hs, hl, hw, hok, hd⟩ := encodeAll_trees cfg dcfg pf o hi hR hC t hreg hwf vs bs'
          (fun u hu => hv u (List.mem_cons_of_mem _ hu)) hr
        have hvv := hv v (List.mem_cons_self ..)
        have h' : finishItem cfg (mkO (cfg.fixedDefMode.getD o.defMode) (cfg.fixedChunk.getD o.maxChunk) o.ifNotEmpty) t
            (encValue cfg (mkO (cfg.fixedDefMode.getD o.defMode) (cfg.fixedChunk.getD o.maxChunk) o.ifNotEmpty) t v) = .ok b := he
        obtain ⟨x, hb, hxw, _, hxd, hber⟩ := encode_spec cfg pf _ _ hR o.ifNotEmpty hi t v b hreg hwf hvv.1 hvv.2 h'
        obtain ⟨w, hdw, hvw, _⟩ := complete_ty pf dcfg hC t v x (reg_plain true cfg _ t hreg) hwf hber
        exact ⟨x :: xs, by simp [serList, hb, hs], by simp [hl], ⟨hxw, hw⟩,
          fun hp => by simp [allDefL, lenForm_allDef hxd hp, hok hp], ⟨⟨w, hdw, hvw⟩, hd⟩⟩

end Asn1
