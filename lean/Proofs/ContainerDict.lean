/-
  Proofs.ContainerDict — the position-keyed dict of a SEQUENCE OF in its dense form
  `enumFrom 0 cs` (keys 0..n-1 in insertion order): lookups, assignment, length and the sorted
  component view all reduce to plain list operations.
-/
import Asn1.Container

namespace Asn1.Container

theorem enumFrom_length {α} (k : Nat) (cs : List α) : (enumFrom k cs).length = cs.length := by
  induction cs generalizing k with
  | nil => rfl
  | cons c cs ih => simp [enumFrom, ih]

theorem enumFrom_map_snd {α} (k : Nat) (cs : List α) : (enumFrom k cs).map (·.2) = cs := by
  induction cs generalizing k with
  | nil => rfl
  | cons c cs ih => simp [enumFrom, ih]

theorem enumFrom_append {α} (k : Nat) (cs ds : List α) :
    enumFrom k (cs ++ ds) = enumFrom k cs ++ enumFrom (k + cs.length) ds := by
  induction cs generalizing k with
  | nil => simp [enumFrom]
  | cons c cs ih => simp [enumFrom, ih, Nat.add_assoc, Nat.add_comm 1]

theorem enumFrom_map {α β} (f : α → β) (k : Nat) (cs : List α) :
    enumFrom k (cs.map f) = (enumFrom k cs).map (fun kv => (kv.1, f kv.2)) := by
  induction cs generalizing k with
  | nil => rfl
  | cons c cs ih => simp [enumFrom, ih]

theorem enumFrom_fst_ge {α} (k : Nat) (cs : List α) : ∀ kv ∈ enumFrom k cs, k ≤ kv.1 := by
  induction cs generalizing k with
  | nil => intro kv h; simp [enumFrom] at h
  | cons c cs ih =>
    intro kv h
    simp only [enumFrom, List.mem_cons] at h
    rcases h with rfl | h
    · exact Nat.le_refl _
    · exact Nat.le_of_succ_le (ih (k + 1) kv h)

theorem enumFrom_sorted (k : Nat) (cs : List Comp) :
    (enumFrom k cs).Pairwise (fun a b => (decide (a.1 ≤ b.1)) = true) := by
  induction cs generalizing k with
  | nil => simp [enumFrom]
  | cons c cs ih =>
    simp only [enumFrom, List.pairwise_cons]
    refine ⟨?_, ih (k + 1)⟩
    intro kv h
    have := enumFrom_fst_ge (k + 1) cs kv h
    simp; omega

theorem dcomponents_enumFrom (k : Nat) (cs : List Comp) : dcomponents (enumFrom k cs) = cs := by
  unfold dcomponents
  rw [List.mergeSort_of_pairwise (enumFrom_sorted k cs), enumFrom_map_snd]

theorem dget_enumFrom (k i : Nat) (cs : List Comp) :
    dget (enumFrom k cs) (k + i) = cs[i]? := by
  induction cs generalizing k i with
  | nil => simp [dget, enumFrom]
  | cons c cs ih =>
    cases i with
    | zero => simp [dget, enumFrom, List.lookup]
    | succ i =>
      have h : (k + (i + 1) == k) = false := by simp
      have := ih (k + 1) i
      simp only [dget] at this ⊢
      simp only [enumFrom, List.lookup, h]
      rw [show k + (i + 1) = k + 1 + i by omega]
      simpa using this

theorem dget_enumFrom0 (i : Nat) (cs : List Comp) : dget (enumFrom 0 cs) i = cs[i]? := by
  simpa using dget_enumFrom 0 i cs

theorem foldl_max_enumFrom (m k : Nat) (cs : List Comp) :
    (enumFrom k cs).foldl (fun m kv => max m (kv.1 + 1)) m = if cs = [] then m else max m (k + cs.length) := by
  induction cs generalizing m k with
  | nil => simp [enumFrom]
  | cons c cs ih =>
    simp only [enumFrom, List.foldl_cons, ih]
    by_cases h : cs = []
    · subst h; simp
    · simp only [h, if_false, List.length_cons, reduceCtorEq]
      omega

theorem dlen_enumFrom0 (cs : List Comp) : dlen (enumFrom 0 cs) = cs.length := by
  unfold dlen
  rw [foldl_max_enumFrom]
  by_cases h : cs = []
  · subst h; simp
  · simp [h]

theorem dset_enumFrom_lt (k i : Nat) (cs : List Comp) (c : Comp) (h : i < cs.length) :
    dset (enumFrom k cs) (k + i) c = enumFrom k (cs.set i c) := by
  induction cs generalizing k i with
  | nil => simp at h
  | cons x cs ih =>
    cases i with
    | zero => simp [enumFrom, dset]
    | succ i =>
      have hne : ¬ k = k + (i + 1) := by omega
      simp only [enumFrom, dset, hne, if_false, List.set_cons_succ]
      rw [show k + (i + 1) = k + 1 + i by omega, ih (k + 1) i (by simpa using h)]

theorem dset_enumFrom_end (k : Nat) (cs : List Comp) (c : Comp) :
    dset (enumFrom k cs) (k + cs.length) c = enumFrom k (cs ++ [c]) := by
  induction cs generalizing k with
  | nil => simp [enumFrom, dset]
  | cons x cs ih =>
    have hne : ¬ k = k + (cs.length + 1) := by omega
    simp only [enumFrom, dset, List.length_cons, hne, if_false, List.cons_append]
    rw [show k + (cs.length + 1) = k + 1 + cs.length by omega, ih (k + 1)]

end Asn1.Container
