/-
  Proofs.X690Prim — the encoder model's header and contents octets equal those of the independent
  X.690 transcription (`Asn1.X690`): identifier, length, INTEGER, BIT STRING, OBJECT IDENTIFIER, REAL.
  The two sides share no code: `X690` lays numbers out by repeated division from the least
  significant end and finds the minimal width by search; `Prim` mirrors the Python encoders.
-/
import Asn1.X690
import Asn1.Prim
import Proofs.Digits
import Proofs.TagLen
import Proofs.PrimRT
import Proofs.RealRT

namespace Asn1

open X690

/-! ### digit strings -/

theorem digitsLE_rev (b : Nat) : ∀ (fuel n : Nat), n ≠ 0 → n < fuel →
    (digitsLE (b + 2) fuel n).reverse = beDigits b n
  | 0, n, _, hf => by omega
  | fuel + 1, n, hn, hf => by
    rw [beDigits_pos b n hn]
    simp only [digitsLE]
    by_cases hlt : n < b + 2
    · simp only [hlt, if_true, List.reverse_cons, List.reverse_nil, List.nil_append]
      rw [Nat.div_eq_of_lt hlt, beDigits_zero, Nat.mod_eq_of_lt hlt]; rfl
    · simp only [hlt, if_false, List.reverse_cons]
      have hq : n / (b + 2) ≠ 0 := by
        intro h0
        have := Nat.div_add_mod n (b + 2)
        rw [h0] at this
        have := Nat.mod_lt n (show 0 < b + 2 by omega)
        omega
      have hlt2 : n / (b + 2) < fuel := by
        have : n / (b + 2) < n := Nat.div_lt_self (Nat.pos_of_ne_zero hn) (by omega)
        omega
      rw [digitsLE_rev b fuel (n / (b + 2)) hq hlt2]

theorem digitsBE_eq (b n : Nat) (hn : n ≠ 0) : digitsBE (b + 2) n = beDigits b n :=
  digitsLE_rev b (n + 1) n hn (by omega)

theorem digitsBE_zero (b : Nat) : digitsBE (b + 2) 0 = [0] := by
  simp [digitsBE, digitsLE]

/-- continuation bit on all digits but the last: the two ways of writing it agree -/
theorem zipIdx_cont (f : Nat → UInt8) : ∀ (init : List Nat) (k total : Nat), total = k + init.length + 1 →
    (init.zipIdx k).map (fun (p : Nat × Nat) => f (if p.2 + 1 < total then p.1 + 128 else p.1))
      = init.map (fun d => f (d + 128))
  | [], _, _, _ => rfl
  | x :: xs, k, total, ht => by
    simp only [List.zipIdx_cons, List.map_cons, List.length_cons] at ht ⊢
    rw [zipIdx_cont f xs (k + 1) total (by omega)]
    have : k + 1 < total := by omega
    simp [this]

theorem cont_digits (ds : List Nat) (hne : ds ≠ []) :
    (ds.zipIdx.map fun (p : Nat × Nat) => UInt8.ofNat (if p.2 + 1 < ds.length then p.1 + 128 else p.1))
      = natsToBytes (ds.dropLast.map (· + 0x80)) ++ natsToBytes [ds.getLastD 0] := by
  have hs := dropLast_append_getLastD ds hne
  generalize ds.dropLast = init at hs
  generalize ds.getLastD 0 = last at hs
  subst hs
  rw [List.zipIdx_append, List.map_append]
  rw [zipIdx_cont UInt8.ofNat init 0 _ (by simp)]
  simp [natsToBytes, List.zipIdx_cons]

/-! ### identifier and length octets -/

theorem ident_eq (t : Tag) (ic : Bool) :
    ident t.cls (t.constructed || ic) t.num = encodeTag t ic := by
  unfold ident encodeTag
  by_cases hn : t.num ≤ 30
  · have : t.num < 31 := by omega
    simp only [hn, this, if_true]
    cases t.cls <;> rfl
  · have h31 : ¬ t.num < 31 := by omega
    have hne : t.num ≠ 0 := by omega
    simp only [hn, h31, if_false]
    rw [show (128 : Nat) = 126 + 2 from rfl, digitsBE_eq 126 t.num hne]
    rw [cont_digits _ (beDigits_ne_nil 126 t.num hne)]
    cases t.cls <;> rfl

theorem len_eq (n : Nat) (l : Bytes) (h : encodeLength n = some l) : len n = l := by
  unfold encodeLength at h
  unfold len
  by_cases hs : n < 0x80
  · simp only [hs, if_true, Option.some.injEq] at h
    have : n ≤ 127 := by omega
    simp [this, h]
  · simp only [hs, if_false] at h
    have hn : ¬ n ≤ 127 := by omega
    have hne : n ≠ 0 := by omega
    simp only [hn, if_false]
    rw [show (256 : Nat) = 254 + 2 from rfl, digitsBE_eq 254 n hne]
    split at h
    · cases h
    · simp only [Option.some.injEq] at h
      rw [← h]; rfl

/-! ### INTEGER -/

theorem pow256_pos : ∀ j : Nat, (0 : Int) < 256 ^ j
  | 0 => by decide
  | j + 1 => by
    have := pow256_pos j
    rw [Int.pow_succ]; omega

theorem two_pow_half : ∀ j : Nat, (2 : Int) ^ (8 * (j + 1) - 1) = 128 * 256 ^ j
  | 0 => by decide
  | j + 1 => by
    have ih := two_pow_half j
    rw [show 8 * (j + 1 + 1) - 1 = (8 * (j + 1) - 1) + 1 + 1 + 1 + 1 + 1 + 1 + 1 + 1 by omega]
    simp only [Int.pow_succ]
    rw [ih]; omega

theorem two_pow_full : ∀ j : Nat, (2 : Int) ^ (8 * j) = 256 ^ j
  | 0 => by decide
  | j + 1 => by
    have ih := two_pow_full j
    rw [show 8 * (j + 1) = 8 * j + 1 + 1 + 1 + 1 + 1 + 1 + 1 + 1 by omega]
    simp only [Int.pow_succ]
    rw [ih]; omega

theorem lt_half : ∀ i : Nat, (i : Int) + 1 ≤ 128 * 256 ^ i
  | 0 => by decide
  | i + 1 => by
    have := lt_half i
    rw [Int.pow_succ]; omega

/-- the value fits in `j+1` octets of two's complement -/
def Fits (z : Int) (j : Nat) : Prop := -(128 * 256 ^ j) ≤ z ∧ z < 128 * 256 ^ j

theorem fits_succ (z : Int) (j : Nat) (h : Fits z j) : Fits z (j + 1) := by
  unfold Fits at *
  have := pow256_pos j
  rw [Int.pow_succ]; omega

theorem not_fits_below (z : Int) : ∀ (d i : Nat), ¬ Fits z (i + d) → ¬ Fits z i
  | 0, _, h => h
  | d + 1, i, h => fun hf =>
    not_fits_below z d i (fun hf' => h (by rw [← Nat.add_assoc]; exact fits_succ z _ hf')) hf

theorem bytesToNat_concat (bs : Bytes) (b : UInt8) :
    bytesToNat (bs ++ [b]) = bytesToNat bs * 256 + b.toNat := by
  simp [bytesToNat, bytesToNats, ofBeDigits_append]

theorem emod_mul_256 (z N : Int) : z % (256 * N) = 256 * ((z / 256) % N) + z % 256 := by
  rw [Int.emod_def z (256 * N), Int.emod_def (z / 256) N, Int.emod_def z 256]
  rw [← Int.ediv_ediv_of_nonneg (by decide : (0 : Int) ≤ 256)]
  rw [Int.mul_assoc]
  generalize N * (z / 256 / N) = d
  omega

/-- length, range, minimality and unsigned value of the encoder's two's complement octets -/
theorem intToBytes_spec (z : Int) : ∃ j, (intToBytes z).length = j + 1 ∧ Fits z j ∧
    (j = 0 ∨ ∃ i, j = i + 1 ∧ ¬ Fits z i) ∧
    (bytesToNat (intToBytes z) : Int) = z % (256 * 256 ^ j) := by
  induction h : z.natAbs using Nat.strongRecOn generalizing z with
  | _ n ih =>
    by_cases hs : -128 ≤ z ∧ z < 128
    · refine ⟨0, ?_, ?_, Or.inl rfl, ?_⟩
      · rw [intToBytes_small z hs]; rfl
      · unfold Fits; simpa using hs
      · rw [intToBytes_small z hs]
        have h2 := Int.emod_nonneg z (by decide : (256 : Int) ≠ 0)
        have h1 := Int.emod_lt_of_pos z (by decide : (0 : Int) < 256)
        have : bytesToNat [UInt8.ofNat (z % 256).toNat] = (z % 256).toNat := by
          simp only [bytesToNat, bytesToNats, ofBeDigits, List.map_cons, List.map_nil, List.foldl_cons,
            List.foldl_nil, byte_of_emod]
          omega
        rw [this]
        simp only [Int.pow_zero, Int.mul_one]
        omega
    · have hlt : (z / 256).natAbs < n := by omega
      obtain ⟨j, hl, hf, hmin, hv⟩ := ih _ hlt (z / 256) rfl
      refine ⟨j + 1, ?_, ?_, Or.inr ⟨j, rfl, ?_⟩, ?_⟩
      · rw [intToBytes_big z hs]; simp [hl]
      · unfold Fits at hf ⊢
        rw [Int.pow_succ]; omega
      · rcases hmin with rfl | ⟨i, rfl, hni⟩
        · unfold Fits; simpa using hs
        · unfold Fits at hni ⊢
          rw [Int.pow_succ]; omega
      · rw [intToBytes_big z hs, bytesToNat_concat, byte_of_emod]
        have h2 := Int.emod_nonneg z (by decide : (256 : Int) ≠ 0)
        rw [Int.pow_succ, Int.mul_comm (256 ^ j) 256]
        rw [emod_mul_256 z (256 * 256 ^ j)]
        rw [Int.natCast_add, Int.natCast_mul, hv, Int.toNat_of_nonneg h2]
        omega

theorem intWidth_eq (z : Int) (K : Nat) (hW : Fits z K) (hmin : ∀ j, j < K → ¬ Fits z j) :
    ∀ (fuel k : Nat), k ≤ K → K - k < fuel → intWidth z fuel (k + 1) = K + 1
  | 0, _, _, hf => by omega
  | fuel + 1, k, hk, hf => by
    simp only [intWidth]
    rw [two_pow_half k]
    by_cases hkK : k = K
    · subst hkK
      have : -(128 * 256 ^ k) ≤ z ∧ z < 128 * 256 ^ k := hW
      simp [this]
    · have hn := hmin k (by omega)
      have : ¬ (-(128 * 256 ^ k) ≤ z ∧ z < 128 * 256 ^ k) := hn
      simp only [this, if_false]
      exact intWidth_eq z K hW hmin fuel (k + 1) (by omega) (by omega)

/-- left-padding the minimal digits of the unsigned value to the length gives the octets back -/
theorem pad_rev : ∀ l : Bytes,
    natsToBytes (List.replicate (l.reverse.length - (be256 (bytesToNat l.reverse)).length) 0
      ++ be256 (bytesToNat l.reverse)) = l.reverse
  | [] => by simp [bytesToNat, bytesToNats, ofBeDigits, beDigits_zero, natsToBytes]
  | b :: l => by
    have ih := pad_rev l
    rw [List.reverse_cons, bytesToNat_concat]
    have hb := b.toNat_lt
    by_cases hv : bytesToNat l.reverse * 256 + b.toNat = 0
    · have h1 : bytesToNat l.reverse = 0 := by omega
      have h2 : b.toNat = 0 := by omega
      simp only [be256] at ih ⊢
      rw [h1, beDigits_zero] at ih
      rw [hv, beDigits_zero]
      simp only [List.length_nil, Nat.sub_zero, List.append_nil, List.length_append,
        List.length_cons] at ih ⊢
      rw [List.replicate_succ', natsToBytes_append, ih]
      have : b = 0 := UInt8.toNat_inj.mp (by simpa using h2)
      subst this; rfl
    · simp only [be256] at ih ⊢
      rw [beDigits_pos 254 _ hv]
      have hq : (bytesToNat l.reverse * 256 + b.toNat) / (254 + 2) = bytesToNat l.reverse := by omega
      have hr : (bytesToNat l.reverse * 256 + b.toNat) % (254 + 2) = b.toNat := by omega
      rw [hq, hr]
      simp only [List.length_append, List.length_cons, List.length_nil]
      rw [show l.reverse.length + (0 + 1) - ((beDigits 254 (bytesToNat l.reverse)).length + (0 + 1))
        = l.reverse.length - (beDigits 254 (bytesToNat l.reverse)).length by simp]
      rw [← List.append_assoc, natsToBytes_append, ih]
      simp [natsToBytes]

theorem pad_bytes (bs : Bytes) :
    natsToBytes (List.replicate (bs.length - (be256 (bytesToNat bs)).length) 0
      ++ be256 (bytesToNat bs)) = bs := by
  have := pad_rev bs.reverse
  rwa [List.reverse_reverse] at this

/-- **INTEGER contents**: the encoder's octets are the X.690 two's complement in fewest octets -/
theorem intOctets_eq (z : Int) : intOctets z = intToBytes z := by
  obtain ⟨j, hl, hf, hmin, hv⟩ := intToBytes_spec z
  have hminAll : ∀ i, i < j → ¬ Fits z i := by
    intro i hi
    rcases hmin with rfl | ⟨i', rfl, hni⟩
    · omega
    · have : i' = i + (i' - i) := by omega
      exact not_fits_below z (i' - i) i (by rw [← this]; exact hni)
  have hfuel : j < z.natAbs + 1 := by
    rcases hmin with rfl | ⟨i', rfl, hni⟩
    · omega
    · have := lt_half i'
      unfold Fits at hni
      omega
  have hw : intWidth z (z.natAbs + 1) 1 = j + 1 :=
    intWidth_eq z j hf hminAll (z.natAbs + 1) 0 (by omega) (by omega)
  unfold intOctets
  simp only [hw]
  rw [two_pow_full (j + 1), Int.pow_succ, Int.mul_comm (256 ^ j) 256, ← hv]
  simp only [Int.toNat_natCast]
  have hp := pad_bytes (intToBytes z)
  rw [hl] at hp
  simp only [be256] at hp
  by_cases h0 : bytesToNat (intToBytes z) = 0
  · rw [h0] at hp ⊢
    rw [show (256 : Nat) = 254 + 2 from rfl, digitsBE_zero]
    rw [beDigits_zero] at hp
    simp only [List.length_nil, Nat.sub_zero, List.append_nil, List.length_cons] at hp ⊢
    rw [← hp, List.replicate_succ']
    simp [natsToBytes]
  · rw [show (256 : Nat) = 254 + 2 from rfl, digitsBE_eq 254 _ h0]
    exact hp

/-! ### BIT STRING -/

theorem foldl_bits : ∀ (l : List Bool) (acc : Nat),
    l.foldl (fun a b => 2 * a + (if b then 1 else 0)) acc = acc * 2 ^ l.length + bitsToNat l
  | [], acc => by simp [bitsToNat]
  | b :: rest, acc => by
    simp only [List.foldl_cons, List.length_cons, bitsToNat]
    rw [foldl_bits rest, Nat.pow_succ, Nat.add_mul, Nat.mul_comm (2 ^ rest.length) 2, ← Nat.mul_assoc,
      Nat.mul_comm acc 2]
    cases b <;> simp <;> omega

theorem padLen_sub8 (n : Nat) (h : 8 ≤ n) : padLen (n - 8) = padLen n := by
  unfold padLen; omega

theorem pack_eq : ∀ (n : Nat) (bs : List Bool), bs.length = n → ∀ (f g : Nat),
    n + padLen n ≤ f → n ≤ g →
    bitOctets.pack f (bs ++ List.replicate (padLen n) false) = packBits g bs := by
  intro n
  induction n using Nat.strongRecOn with
  | _ n ih =>
    intro bs hl f g hf hg
    cases bs with
    | nil =>
      simp only [List.length_nil] at hl
      subst hl
      cases f <;> cases g <;> simp [bitOctets.pack, packBits, padLen]
    | cons b rest =>
      simp only [List.length_cons] at hl
      have hpl : padLen n < 8 := by unfold padLen; omega
      obtain ⟨f', rfl⟩ : ∃ f', f = f' + 1 := ⟨f - 1, by omega⟩
      obtain ⟨g', rfl⟩ : ∃ g', g = g' + 1 := ⟨g - 1, by omega⟩
      rw [bitOctets.pack, packBits]
      · simp only [List.cons_append, List.isEmpty_cons, Bool.false_eq_true, if_false]
        rw [← List.cons_append]
        by_cases h8 : 8 ≤ n
        · have ht : ((b :: rest) ++ List.replicate (padLen n) false).take 8 = (b :: rest).take 8 := by
            rw [List.take_append_of_le_length (by simp; omega)]
          have hd : ((b :: rest) ++ List.replicate (padLen n) false).drop 8
              = (b :: rest).drop 8 ++ List.replicate (padLen (n - 8)) false := by
            rw [List.drop_append_of_le_length (by simp; omega), padLen_sub8 n h8]
          rw [ht, hd]
          congr 1
          · rw [foldl_bits]
            have : ((b :: rest).take 8).length = 8 := by simp; omega
            simp only [packByte, this, Nat.sub_self, List.replicate_zero, List.append_nil, Nat.zero_mul,
              Nat.zero_add]
          · exact ih (n - 8) (by omega) ((b :: rest).drop 8) (by simp; omega) f' g'
              (by rw [padLen_sub8 n h8]; omega) (by omega)
        · have hp : padLen n = 8 - n := by unfold padLen; omega
          have hlen : ((b :: rest) ++ List.replicate (padLen n) false).length = 8 := by
            simp; omega
          have ht : ((b :: rest) ++ List.replicate (padLen n) false).take 8
              = (b :: rest) ++ List.replicate (padLen n) false := List.take_of_length_le (by omega)
          have hd : ((b :: rest) ++ List.replicate (padLen n) false).drop 8 = [] :=
            List.drop_of_length_le (by omega)
          have ht2 : (b :: rest).take 8 = b :: rest := List.take_of_length_le (by simp; omega)
          have hd2 : (b :: rest).drop 8 = [] := List.drop_of_length_le (by simp; omega)
          rw [ht, hd, ht2, hd2]
          congr 1
          · rw [foldl_bits, hp]
            simp only [packByte, List.length_cons, hl]
            simp
          · cases f' <;> cases g' <;> simp [bitOctets.pack, packBits]
      · simp

/-- **BIT STRING contents**: unused-bit count, then the bits packed from the top, padding zero -/
theorem bitOctets_eq (bs : List Bool) : bitOctets bs = bitsToContent bs := by
  unfold bitOctets bitsToContent
  rw [show (8 - bs.length % 8) % 8 = padLen bs.length from rfl]
  dsimp only
  rw [pack_eq bs.length bs rfl _ bs.length (by simp) (Nat.le_refl _)]

/-! ### OBJECT IDENTIFIER -/

theorem subId_eq (n : Nat) : subId n = encodeArc n := by
  unfold subId encodeArc
  by_cases h0 : n = 0
  · subst h0
    rw [show (128 : Nat) = 126 + 2 from rfl, digitsBE_zero]
    rfl
  · rw [show (128 : Nat) = 126 + 2 from rfl, digitsBE_eq 126 n h0]
    dsimp only
    rw [cont_digits _ (beDigits_ne_nil 126 n h0)]
    by_cases hs : n < 126 + 2
    · simp only [hs, if_true]
      rw [beDigits_pos 126 n h0, Nat.div_eq_of_lt hs, beDigits_zero, Nat.mod_eq_of_lt hs]
      rfl
    · simp only [hs, if_false]

/-- **OBJECT IDENTIFIER contents**: 40·X + Y, then each arc base 128 with continuation bits -/
theorem oidOctets_eq (arcs : List Nat) : oidOctets arcs = oidToContent arcs := by
  unfold oidOctets oidToContent
  match arcs with
  | [] => rfl
  | [_] => rfl
  | x :: y :: rest =>
    have hf : ∀ l : List Nat, l.flatMap subId = l.flatMap encodeArc := by
      intro l; congr 1; funext n; exact subId_eq n
    simp only [hf]
    by_cases hy : y ≤ 39
    · by_cases h1 : x = 1
      · subst h1; simp [hy, Nat.add_comm]
      · by_cases h0 : x = 0
        · subst h0; simp [hy]
        · by_cases h2 : x = 2
          · subst h2; simp [hy, Nat.add_comm]
          · simp [hy, h1, h0, h2]; omega
    · by_cases h2 : x = 2
      · subst h2; simp [hy, Nat.add_comm]
      · simp [hy, h2]

/-! ### REAL (binary form) -/

theorem odd_eq : ∀ (f n : Nat) (e : Int), n ≠ 0 → realOctets.odd f n e = normOdd f n e
  | 0, _, _, _ => rfl
  | f + 1, n, e, hn => by
    simp only [realOctets.odd, normOdd]
    by_cases hev : n % 2 = 0
    · simp only [hev, if_true, hn, ne_eq, not_false_eq_true, and_self]
      exact odd_eq f (n / 2) (e + 1) (by omega)
    · simp [hev]

/-- **REAL contents**: the binary encoding with base 2, odd mantissa and minimal exponent -/
theorem realOctets_eq (m e : Int) : realOctets (.fin m 2 e) = realBinToContent m e := by
  unfold realOctets realBinToContent
  by_cases hm : m = 0
  · simp [hm]
  · have hna : m.natAbs ≠ 0 := by omega
    simp only [hm, if_false, ne_eq, not_true_eq_false]
    rw [odd_eq _ _ _ hna]
    have hmo := normOdd_ne_zero m.natAbs m.natAbs e hna
    generalize normOdd m.natAbs m.natAbs e = pr at hmo
    obtain ⟨mo, eo⟩ := pr
    simp only at hmo
    simp only [intOctets_eq]
    rw [show (256 : Nat) = 254 + 2 from rfl, digitsBE_eq 254 mo hmo]
    generalize hn : (intToBytes eo).length = n
    by_cases h1 : n = 1
    · subst h1; simp [hn, natToBytes, natsToBytes]
    · by_cases h2 : n = 2
      · subst h2; simp [hn, natToBytes, natsToBytes]
      · by_cases h3 : n = 3
        · subst h3; simp [hn, natToBytes, natsToBytes]
        · simp only [h1, h2, h3, if_false, List.length_cons, hn]
          by_cases hbig : n > 0xff
          · have : n + 1 > 256 := by omega
            simp [hbig, this]
          · have : ¬ n + 1 > 256 := by omega
            simp [hbig, this, natToBytes, natsToBytes]

end Asn1
