/-
  Proofs.KernelReadTurn — one turn of the `while True:` loop of `readFromStream` (pyasn1/codec/streaming.py; translated
  from the source into `GenK.readTurn`: the stream's position threaded through, what `substrate.read(n)` answers at a
  position a function parameter; `yield <underrun>` = the turn answers None, `break` = the turn answers the octets) is the
  model's `readFromStreamRaw`: all `size` octets, or an underrun with the position restored, or EndOfStreamError.
-/
import Proofs.KernelStream
import Proofs.StreamRaw

namespace Asn1.Kernels
open Asn1.Stream

/-- what `substrate.read(n)` answers at `pos` on the model's raw stream (octets `d` so far, `closed`, at most `cap + 1`
    octets per call) -/
def rdOf (d : Bytes) (closed : Bool) (cap : Nat) (pos n : Int) : Option Py.Tup :=
  (rawRead d closed cap pos.toNat n.toNat).map bytesInts

/-- the model's answer in the vocabulary of the translated turn: the octets and the position after them; None and the
    position where the turn started; EndOfStreamError -/
def liftAns (pos0 : Nat) : Ans Bytes → Py.M (Option Py.Tup × Int)
  | .ok b => .ok (some (bytesInts b), ((pos0 + b.length : Nat) : Int))
  | .wait => .ok (none, (pos0 : Int))
  | .eos => .error (.lib "EndOfStreamError")

/-- what the turn does with the outcome of its collecting loop -/
def afterLoop (s : Int) (more : Option Py.Tup) (parts : List Py.Tup) (missing : Int) : Py.M (Option Py.Tup × Int) := do
  let received : Py.Tup := parts.flatten
  if (!(Py.truthy missing)) then
    pure (some received, s)
  else do
    let (_, s) ← Py.rsSeek s (-(Py.len received)) 1
    if more.isSome then throw (Py.PyErr.lib "EndOfStreamError") else pure (none, s)

theorem rawRead_len_le (d : Bytes) (closed : Bool) (cap pos n : Nat) (r : Bytes) (h : rawRead d closed cap pos n = some r) :
    r.length ≤ n := by
  unfold rawRead at h
  by_cases h0 : n = 0
  · simp [h0] at h; subst h; simp
  · simp only [h0, if_false] at h
    by_cases h1 : d.length ≤ pos
    · simp only [h1, if_true] at h
      cases closed <;> simp at h
      subst h; simp
    · simp only [h1, if_false, Option.some.injEq] at h
      subst h
      simp only [List.length_take]; omega

theorem loop_after (d : Bytes) (closed : Bool) (cap : Nat) (pos0 : Nat) :
    ∀ (f : Nat) (acc : Bytes) (m : Bytes) (parts : List Py.Tup) (missing : Nat),
      m ≠ [] → parts.flatten = bytesInts acc → missing < f → missing ≤ 1048576 →
      (GenK.readTurn_loop1 (rdOf d closed cap) f ((pos0 + acc.length : Nat) : Int) (some (bytesInts m)) parts (missing : Int)
          >>= fun r => afterLoop r.1 r.2.1 r.2.2.1 r.2.2.2) =
        liftAns pos0 (gatherLoop d closed (fun _ => cap) f (pos0 + acc.length) missing acc)
  | 0, _, _, _, _, _, _, hf, _ => by omega
  | f + 1, acc, m, parts, missing, hm, hp, hf, hM => by
    unfold GenK.readTurn_loop1 gatherLoop
    have hmt : Py.otruthy (some (bytesInts m)) = true := by
      cases m with
      | nil => exact absurd rfl hm
      | cons a b => rfl
    by_cases h0 : missing = 0
    · subst h0
      have : Py.truthy ((0 : Nat) : Int) = false := rfl
      simp only [hmt, this, Bool.and_false, Bool.false_eq_true, if_false, if_true, bind, Except.bind, pure, Except.pure,
        afterLoop, Bool.not_false, hp, liftAns]
    · have ht : Py.truthy ((missing : Nat) : Int) = true := by
        simp only [Py.truthy, bne_iff_ne, ne_eq]; omega
      have hmin : Py.imin ((missing : Nat) : Int) 1048576 = (missing : Int) := by
        unfold Py.imin
        have : ¬ ((1048576 : Int) < (missing : Int)) := by omega
        simp [this]
      simp only [hmt, ht, Bool.and_self, if_true, h0, if_false, hmin]
      -- the read
      have hrd : rdOf d closed cap ((pos0 + acc.length : Nat) : Int) (missing : Int) =
          (rawRead d closed cap (pos0 + acc.length) missing).map bytesInts := by
        unfold rdOf
        have e0 : (((pos0 + acc.length : Nat) : Int)).toNat = pos0 + acc.length := by omega
        have e0' : ((missing : Nat) : Int).toNat = missing := by omega
        rw [e0, e0']
      unfold Py.rsRead
      rw [hrd]
      cases hr : rawRead d closed cap (pos0 + acc.length) missing with
      | none =>
        -- nothing yet: the loop ends, the turn rewinds and answers None
        obtain ⟨f', rfl⟩ : ∃ f', f = f' + 1 := ⟨f - 1, by omega⟩
        simp only [Option.map_none, Py.otruthy, Bool.false_eq_true, if_false, bind, Except.bind, pure, Except.pure]
        unfold GenK.readTurn_loop1
        simp only [Py.otruthy, Bool.false_and, Bool.false_eq_true, if_false, pure, Except.pure, afterLoop, ht, Bool.not_true,
          bind, Except.bind, Py.rsSeek, if_true, hp, len_bytes, Option.isSome_none, liftAns]
        have : ¬ (((pos0 + acc.length : Nat) : Int) + -((acc.length : Nat) : Int) < 0) := by omega
        simp only [this, if_false]
        congr 2
        omega
      | some r =>
        cases r with
        | nil =>
          obtain ⟨f', rfl⟩ : ∃ f', f = f' + 1 := ⟨f - 1, by omega⟩
          simp only [Option.map_some, bytesInts, List.map_nil, Py.otruthy, List.isEmpty_nil, Bool.not_true,
            Bool.false_eq_true, if_false, bind, Except.bind, pure, Except.pure]
          unfold GenK.readTurn_loop1
          simp only [Py.otruthy, List.isEmpty_nil, Bool.not_true, Bool.false_and, Bool.false_eq_true, if_false, pure,
            Except.pure, afterLoop, ht, bind, Except.bind, Py.rsSeek, if_true, Option.isSome_some, liftAns]
          rfl
        | cons x xs =>
          have hle := rawRead_len_le d closed cap _ _ _ hr
          have hne : (x :: xs) ≠ [] := by simp
          have hmt2 : Py.otruthy (some (bytesInts (x :: xs))) = true := rfl
          simp only [Option.map_some, hmt2, if_true, Py.unwrap, bind, Except.bind, pure, Except.pure, len_bytes]
          have e1 : ((pos0 + acc.length : Nat) : Int) + (((bytesInts (x :: xs)).length : Nat) : Int) =
              ((pos0 + (acc ++ x :: xs).length : Nat) : Int) := by
            simp [bytesInts_length, List.length_append]; omega
          have e2 : ((missing : Nat) : Int) - (((x :: xs).length : Nat) : Int) = ((missing - (x :: xs).length : Nat) : Int) := by
            omega
          rw [e1, e2]
          have hp' : (parts ++ [bytesInts (x :: xs)]).flatten = bytesInts (acc ++ x :: xs) := by
            simp [hp, bytesInts_append]
          have ih := loop_after d closed cap pos0 f (acc ++ x :: xs) (x :: xs) (parts ++ [bytesInts (x :: xs)])
            (missing - (x :: xs).length) hne hp' (by simp at hle ⊢; omega) (by omega)
          simp only [bind, Except.bind] at ih
          have e3 : pos0 + acc.length + (x :: xs).length = pos0 + (acc ++ x :: xs).length := by
            simp [List.length_append]; omega
          rw [e3]
          exact ih

theorem rawRead_within (d : Bytes) (closed : Bool) (cap pos n : Nat) (r : Bytes) (hp : pos ≤ d.length)
    (h : rawRead d closed cap pos n = some r) : pos + r.length ≤ d.length := by
  unfold rawRead at h
  by_cases h0 : n = 0
  · simp [h0] at h; subst h; simpa using hp
  · simp only [h0, if_false] at h
    by_cases h1 : d.length ≤ pos
    · simp only [h1, if_true] at h
      cases closed <;> simp at h
      subst h; simpa using hp
    · simp only [h1, if_false, Option.some.injEq] at h
      subst h
      simp only [List.length_take, List.length_drop]; omega

theorem gatherLoop_fuel (d : Bytes) (closed : Bool) (capOf : Nat → Nat) (f1 f2 pos missing : Nat) (acc : Bytes)
    (h1 : missing ≤ f1) (h2 : missing ≤ f2) (hp : pos ≤ d.length) :
    gatherLoop d closed capOf f1 pos missing acc = gatherLoop d closed capOf f2 pos missing acc := by
  rw [gatherLoop_spec d closed capOf f1 pos missing acc h1 hp, gatherLoop_spec d closed capOf f2 pos missing acc h2 hp]

/-- **one turn of `readFromStream` as it is in the source is the model's `readFromStreamRaw`** (requests up to
    `MAX_READ_SIZE`, a stream position inside the octets received so far): all `size` octets gathered over as many short
    reads as it takes, the position after them; or None with the position back where the turn began, while the stream
    may still deliver; or EndOfStreamError once it is closed -/
theorem readTurn_kernel (d : Bytes) (closed : Bool) (cap pos n : Nat) (hn : n ≤ 1048576) (hp : pos ≤ d.length) :
    GenK.readTurn (rdOf d closed cap) (pos : Int) (n : Int) =
      liftAns pos (readFromStreamRaw d closed (fun _ => cap) pos n) := by
  unfold GenK.readTurn readFromStreamRaw
  have hmin : Py.imin ((n : Nat) : Int) 1048576 = (n : Int) := by
    unfold Py.imin
    have : ¬ ((1048576 : Int) < (n : Int)) := by omega
    simp [this]
  have hrd : rdOf d closed cap ((pos : Nat) : Int) (n : Int) = (rawRead d closed cap pos n).map bytesInts := by
    unfold rdOf
    have e0 : ((pos : Nat) : Int).toNat = pos := by omega
    have e0' : ((n : Nat) : Int).toNat = n := by omega
    rw [e0, e0']
  simp only [hmin]
  unfold Py.rsRead
  rw [hrd, gatherLoop]
  by_cases h0 : n = 0
  · subst h0
    have : rawRead d closed cap pos 0 = some [] := by simp [rawRead]
    simp [this, liftAns, Py.otruthy, Py.unwrap, bytesInts, Py.len, bind, Except.bind, pure, Except.pure]
  · simp only [h0, if_false]
    cases hr : rawRead d closed cap pos n with
    | none => simp [liftAns, pure, Except.pure]
    | some r =>
      cases r with
      | nil =>
        simp [liftAns, Py.otruthy, bytesInts, h0, throw, throwThe, MonadExceptOf.throw]
      | cons x xs =>
        have hle := rawRead_len_le d closed cap _ _ _ hr
        have hin := rawRead_within d closed cap _ _ _ hp hr
        have hmt : Py.otruthy (some (bytesInts (x :: xs))) = true := rfl
        simp only [Option.map_some, Option.isNone_some, Bool.false_eq_true, if_false, hmt, Bool.not_true, Bool.false_and,
          Py.unwrap, bind, Except.bind, pure, Except.pure, len_bytes, List.nil_append]
        by_cases hfull : (x :: xs).length = n
        · have hlt : ¬ ((((x :: xs).length : Nat) : Int) < (n : Int)) := by omega
          simp only [hlt, decide_false, Bool.false_eq_true, if_false]
          have hg : gatherLoop d closed (fun _ => cap) n (pos + (x :: xs).length) (n - (x :: xs).length) (x :: xs) =
              .ok (x :: xs) := by
            have : n - (x :: xs).length = 0 := by omega
            rw [this]
            cases n <;> simp [gatherLoop]
          rw [hg]
          simp only [liftAns, bytesInts_length, Int.natCast_add]
        · have hlt : ((((x :: xs).length : Nat) : Int) < (n : Int)) := by omega
          simp only [hlt, decide_true, if_true]
          have e2 : ((n : Nat) : Int) - (((x :: xs).length : Nat) : Int) = ((n - (x :: xs).length : Nat) : Int) := by omega
          have e1 : ((pos : Nat) : Int) + (((bytesInts (x :: xs)).length : Nat) : Int) = ((pos + (x :: xs).length : Nat) : Int) := by
            simp [bytesInts_length]
          rw [e2, e1]
          have e3 : ((n - (x :: xs).length : Nat) : Int).toNat + 1 = (n - (x :: xs).length) + 1 := by omega
          rw [e3]
          have hl := loop_after d closed cap pos ((n - (x :: xs).length) + 1) (x :: xs) (x :: xs) [bytesInts (x :: xs)]
            (n - (x :: xs).length) (by simp) (by simp) (by omega) (by omega)
          simp only [bind, Except.bind, afterLoop, pure, Except.pure] at hl
          rw [gatherLoop_fuel d closed (fun _ => cap) n ((n - (x :: xs).length) + 1) _ _ _ (by omega) (by omega) hin]
          rw [← hl]

/-! ### `isEndOfStream` on anything but a `BytesIO`: one turn of its retry loop -/

def liftEos (pos0 : Nat) : Ans Bool → Py.M (Option Bool × Int)
  | .ok b => .ok (some b, (pos0 : Int))
  | .wait => .ok (none, (pos0 : Int))
  | .eos => .error (.lib "EndOfStreamError")

/-- **`isEndOfStream` as it is in the source** (the branch for streams other than `io.BytesIO`; one turn of its retry loop):
    one octet is asked for - None: an underrun, ask again; an octet: stepped back over, "not at the end"; nothing although
    the stream is closed: "at the end" - the model's `eosAns`, the position unchanged in every case -/
theorem eosTurn_kernel (k : Kind) (hk : k ≠ .bytesIO) (d : Bytes) (closed : Bool) (cap pos : Nat) :
    GenK.eosTurn (rdOf d closed cap) (pos : Int) = liftEos pos (eosAns k d closed pos) := by
  unfold GenK.eosTurn Py.rsRead
  have hrd : rdOf d closed cap ((pos : Nat) : Int) 1 = (rawRead d closed cap pos 1).map bytesInts := by
    unfold rdOf
    have e0 : ((pos : Nat) : Int).toNat = pos := by omega
    rw [e0]; rfl
  rw [hrd]
  have hke : eosAns k d closed pos = if pos < d.length then .ok false else if closed then .ok true else .wait := by
    cases k <;> simp_all [eosAns]
  rw [hke]
  unfold rawRead
  simp only [show (1 : Nat) ≠ 0 from by omega, if_false]
  by_cases h : pos < d.length
  · have h1 : ¬ d.length ≤ pos := by omega
    have hd : d.drop pos = d[pos] :: d.drop (pos + 1) := List.drop_eq_getElem_cons h
    have hmin : min 1 (cap + 1) = 1 := by omega
    simp only [h1, if_false, h, if_true, hd, hmin, List.take_succ_cons, List.take_zero, Option.map_some, bytesInts,
      List.map_cons, List.map_nil, Option.isNone_some, Bool.false_eq_true, Py.otruthy, List.isEmpty_cons, Bool.not_false,
      Py.rsSeek, bind, Except.bind, pure, Except.pure, List.length_cons, List.length_nil, liftEos]
    have : ¬ (((pos : Nat) : Int) + ((0 + 1 : Nat) : Int) + -1 < 0) := by omega
    simp only [this, if_false, Bool.not_true]
    congr 2
    omega
  · have h1 : d.length ≤ pos := by omega
    simp only [h1, if_true, h, if_false]
    cases closed
    · simp [liftEos, pure, Except.pure]
    · simp [liftEos, bytesInts, Py.otruthy, pure, Except.pure, bind, Except.bind]

end Asn1.Kernels
